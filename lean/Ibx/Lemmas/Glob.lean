import Ibx.Model.Wild
/-
  Helper lemmas: snoc recurrences of `glob`, and the row invariant of the DP.
-/
namespace Ibx.Lemmas.Glob
open Ibx.Spec Ibx.Model.Wild

theorem glob_nil_snoc (s : List Nat) (x : Nat) : glob [] (s ++ [x]) = false := by
  cases s <;> simp [glob]

theorem glob_snoc_nil (q : List Nat) (c : Nat) :
    glob (q ++ [c]) [] = (glob q [] && c == star) := by
  induction q with
  | nil => simp [glob]
  | cons d q ih => simp [glob, ih, Bool.and_assoc]

/-- the value the Go loop body assigns to `M[i][j]` -/
def cell (c x : Nat) (diag up left : Bool) : Bool :=
  if c == qm || x == c then diag else if c == star then up || left else false

theorem glob_snoc_snoc (q t : List Nat) (c x : Nat) (hx : x ≠ star) :
    glob (q ++ [c]) (t ++ [x]) = cell c x (glob q t) (glob (q ++ [c]) t) (glob q (t ++ [x])) := by
  have hsq : star ≠ qm := by decide
  fun_induction glob q t with
  | case1 =>
    by_cases h1 : c = star
    · subst h1; simp [glob, cell, star, qm] at *
    · by_cases h2 : c = qm
      · subst h2; simp [glob, cell, star, qm]
      · by_cases h3 : x = c
        · subst h3; simp [glob, cell, h1]
        · have : ¬ c = x := fun h => h3 h.symm
          simp [glob, cell, h1, h2, h3, this]
  | case2 y s =>
    have h : ∀ u : List Nat, glob [star] u = true := by
      intro u; induction u with
      | nil => simp [glob]
      | cons z u ih => simp [glob, ih]
    have h0 := glob_nil_snoc s x
    simp only [List.nil_append, List.cons_append] at *
    by_cases h1 : c = star
    · subst h1
      rw [h, h]; simp [cell, star, qm] at *; omega
    · simp [glob, cell, h1, h0]
  | case3 d p ih =>
    simp only [List.nil_append, List.cons_append] at *
    simp only [glob, glob_snoc_nil] at *
    rw [ih]; unfold cell
    by_cases hd : d = star <;> by_cases hc1 : c = qm <;> by_cases hc2 : x = c <;> by_cases hc3 : c = star <;>
      simp_all <;> grind
  | case4 d p y s hd ih1 ih2 =>
    simp only [List.cons_append] at *
    rw [glob, glob.eq_4 d (p ++ [c]) y s, glob.eq_4 d p y (s ++ [x])]
    simp only [hd, if_true]
    rw [ih1, ih2]
    unfold cell
    by_cases hc1 : c = qm <;> by_cases hc2 : x = c <;> by_cases hc3 : c = star <;>
      simp_all <;> grind
  | case5 d p y s hd ih =>
    simp only [List.cons_append] at *
    rw [glob, glob.eq_4 d (p ++ [c]) y s, glob.eq_4 d p y (s ++ [x])]
    simp only [hd]
    rw [ih]
    unfold cell
    by_cases hc1 : c = qm <;> by_cases hc2 : x = c <;> by_cases hc3 : c = star <;>
      simp_all <;> grind

end Ibx.Lemmas.Glob

namespace Ibx.Lemmas.Glob
open Ibx.Spec Ibx.Model.Wild

/-- `[glob (q ++ r.take 1) t, glob (q ++ r.take 2) t, …]` -/
def prefRow (t : List Nat) : List Nat → List Nat → List Bool
  | _, [] => []
  | q, c :: cs => glob (q ++ [c]) t :: prefRow t (q ++ [c]) cs

/-- the DP row after consuming `t`: entry `j` is `glob (p.take j) t` -/
def specRow (p t : List Nat) : List Bool := glob [] t :: prefRow t [] p

theorem row0Aux_spec (r q : List Nat) : row0Aux r (glob q []) = prefRow [] q r := by
  induction r generalizing q with
  | nil => simp [row0Aux, prefRow]
  | cons c cs ih =>
    simp only [row0Aux, prefRow]
    rw [← glob_snoc_nil, ih]

theorem row0_spec (p : List Nat) : row0 p = specRow p [] := by
  have := row0Aux_spec p []
  simp [glob] at this
  simp [row0, specRow, this, glob]

theorem rowAux_spec (x : Nat) (hx : x ≠ star) (t r q : List Nat) :
    rowAux x r (glob q t) (prefRow t q r) (glob q (t ++ [x])) = prefRow (t ++ [x]) q r := by
  induction r generalizing q with
  | nil => simp [rowAux, prefRow]
  | cons c cs ih =>
    simp only [rowAux, prefRow]
    have h := glob_snoc_snoc q t c x hx
    unfold cell at h
    rw [← h, ih]

theorem nextRow_spec (p t : List Nat) (x : Nat) (hx : x ≠ star) :
    nextRow p (specRow p t) x = specRow p (t ++ [x]) := by
  simp only [nextRow, specRow]
  have := rowAux_spec x hx t p []
  rw [glob_nil_snoc] at this
  rw [this, glob_nil_snoc]

theorem foldl_spec (p s t : List Nat) (hs : ∀ x ∈ s, x ≠ star) :
    s.foldl (nextRow p) (specRow p t) = specRow p (t ++ s) := by
  induction s generalizing t with
  | nil => simp
  | cons x s ih =>
    simp only [List.foldl_cons]
    rw [nextRow_spec p t x (hs x (by simp)), ih _ (fun y hy => hs y (by simp [hy]))]
    simp

theorem prefRow_getLastD (t r q : List Nat) (d : Bool) :
    (prefRow t q r).getLastD d = if r = [] then d else glob (q ++ r) t := by
  induction r generalizing q d with
  | nil => simp [prefRow]
  | cons c cs ih =>
    simp only [prefRow, List.getLastD_cons, ih]
    split <;> simp_all

theorem specRow_getLastD (p t : List Nat) : (specRow p t).getLastD false = glob p t := by
  simp only [specRow, List.getLastD_cons, prefRow_getLastD]
  split <;> simp_all

end Ibx.Lemmas.Glob
