import Ibx.Spec.Unstuff
import Ibx.Model.Dot
import Ibx.Model.Pop3Send
/-
  Helper lemmas for C02: lines ↔ bytes, the dot machine on one line, the scanner on one line.
-/
namespace Ibx.Lemmas.Dot
open Ibx Ibx.Spec.Unstuff Ibx.Model.Dot Ibx.Model.Pop3Send

/-! ### lines and bytes -/

@[simp] theorem joinLF_nil : joinLF [] = [] := rfl
@[simp] theorem joinLF_cons (l : Bytes) (ls : List Bytes) : joinLF (l :: ls) = l ++ 10 :: joinLF ls := by
  simp [joinLF]
@[simp] theorem joinLF_append (a b : List Bytes) : joinLF (a ++ b) = joinLF a ++ joinLF b := by
  simp [joinLF]
@[simp] theorem joinCRLF_nil : joinCRLF [] = [] := rfl
@[simp] theorem joinCRLF_cons (l : Bytes) (ls : List Bytes) : joinCRLF (l :: ls) = l ++ 13 :: 10 :: joinCRLF ls := by
  simp [joinCRLF]
@[simp] theorem joinCRLF_append (a b : List Bytes) : joinCRLF (a ++ b) = joinCRLF a ++ joinCRLF b := by
  simp [joinCRLF]

theorem splitLines_tail (tail : Bytes) (h : 10 ∉ tail) : splitLines tail = ([], tail) := by
  induction tail with
  | nil => rfl
  | cons c t ih =>
    have hc : c ≠ 10 := by intro e; simp [e] at h
    have ht : 10 ∉ t := by intro e; exact h (List.mem_cons_of_mem _ e)
    simp [splitLines, hc, ih ht]

theorem splitLines_line (l more : Bytes) (h : 10 ∉ l) :
    splitLines (l ++ 10 :: more) = (l :: (splitLines more).1, (splitLines more).2) := by
  induction l with
  | nil => simp [splitLines]
  | cons c t ih =>
    have hc : c ≠ 10 := by intro e; simp [e] at h
    have ht : 10 ∉ t := by intro e; exact h (List.mem_cons_of_mem _ e)
    simp [splitLines, hc, ih ht]

/-- splitting is the inverse of joining -/
theorem splitLines_joinLF (ls : List Bytes) (tail : Bytes) (hls : ∀ l ∈ ls, 10 ∉ l) (ht : 10 ∉ tail) :
    splitLines (joinLF ls ++ tail) = (ls, tail) := by
  induction ls with
  | nil => simpa using splitLines_tail tail ht
  | cons l ls ih =>
    have h1 := hls l (by simp)
    have h2 : ∀ l' ∈ ls, 10 ∉ l' := fun l' hl' => hls l' (by simp [hl'])
    simp only [joinLF_cons, List.append_assoc, List.cons_append]
    rw [splitLines_line _ _ h1, ih h2]

/-- joining is the inverse of splitting: every byte string is its complete lines followed by the unterminated rest -/
theorem join_splitLines (w : Bytes) : joinLF (splitLines w).1 ++ (splitLines w).2 = w := by
  induction w with
  | nil => rfl
  | cons c t ih =>
    by_cases hc : c = 10
    · simp [splitLines, hc, ih]
    · simp only [splitLines, hc, if_false]
      split
      · rename_i tail heq; rw [heq] at ih; simpa using ih
      · rename_i l ls tail heq; rw [heq] at ih; simpa using ih

theorem splitLines_noLF (w : Bytes) : (∀ l ∈ (splitLines w).1, 10 ∉ l) ∧ 10 ∉ (splitLines w).2 := by
  induction w with
  | nil => simp [splitLines]
  | cons c t ih =>
    by_cases hc : c = 10
    · simp only [splitLines, hc, if_true]
      refine ⟨?_, ih.2⟩
      intro l hl
      simp at hl
      rcases hl with rfl | hl
      · simp
      · exact ih.1 l hl
    · simp only [splitLines, hc, if_false]
      split
      · rename_i tail heq; rw [heq] at ih
        have : ¬ (10 = c) := fun e => hc e.symm
        simpa [this] using ih.2
      · rename_i l ls tail heq; rw [heq] at ih
        refine ⟨?_, ih.2⟩
        intro l' hl'
        simp at hl'
        have : ¬ (10 = c) := fun e => hc e.symm
        rcases hl' with rfl | hl'
        · have := ih.1 l (by simp); simp_all
        · exact ih.1 l' (by simp [hl'])

/-- every byte string decomposes (uniquely, by `splitLines_joinLF`) into LF-free lines and an LF-free rest -/
theorem exists_lines (w : Bytes) :
    ∃ ls tail, (∀ l ∈ ls, 10 ∉ l) ∧ 10 ∉ tail ∧ w = joinLF ls ++ tail ∧ splitLines w = (ls, tail) :=
  ⟨(splitLines w).1, (splitLines w).2, (splitLines_noLF w).1, (splitLines_noLF w).2, (join_splitLines w).symm, rfl⟩

/-! ### the dot machine, one line at a time -/

theorem dropCR_cons_ne13 (c : Nat) (t : Bytes) (hc : c ≠ 13) : dropCR (c :: t) = c :: dropCR t := by
  cases t with
  | nil => simp [dropCR, hc]
  | cons d r => simp [dropCR]

theorem dropCR_cons_cons (c d : Nat) (t : Bytes) : dropCR (c :: d :: t) = c :: dropCR (d :: t) := by
  simp [dropCR]

theorem mem_cons_split {c : Nat} {t : Bytes} (h : 10 ∉ c :: t) : c ≠ 10 ∧ 10 ∉ t := by
  constructor
  · intro e; simp [e] at h
  · intro e; exact h (List.mem_cons_of_mem _ e)

/-- the machine in the middle of a line: the rest of the line is copied, ONE CR before the LF is dropped -/
theorem data_cr_line (l more : Bytes) (h : 10 ∉ l) : ∀ acc,
    dotLoop (l ++ 10 :: more) .data acc = dotLoop more .beginLine (10 :: ((dropCR l).reverse ++ acc)) ∧
    dotLoop (l ++ 10 :: more) .cr acc = dotLoop more .beginLine (10 :: ((dropCR (13 :: l)).reverse ++ acc)) := by
  induction l with
  | nil => intro acc; simp [dotLoop, dropCR]
  | cons c t ih =>
    intro acc
    obtain ⟨hc, ht⟩ := mem_cons_split h
    have ih := ih ht
    by_cases h13 : c = 13
    · subst h13
      constructor
      · simp [dotLoop, (ih acc).2]
      · simp [dotLoop, (ih (13 :: acc)).2, dropCR_cons_cons]
    · constructor
      · simp [dotLoop, h13, hc, (ih (c :: acc)).1, dropCR_cons_ne13 c t h13]
      · simp [dotLoop, h13, hc, (ih (c :: 13 :: acc)).1, dropCR_cons_cons, dropCR_cons_ne13 c t h13]

theorem dropDot_cons_ne (c : Nat) (t : Bytes) (hc : c ≠ 46) : dropDot (c :: t) = c :: t := by
  unfold dropDot; split
  · rename_i h; simp at h; exact absurd h.1 hc
  · rfl

@[simp] theorem dropDot_dot (t : Bytes) : dropDot (46 :: t) = t := rfl

/-- the machine at the beginning of a non-empty line that is not the end-of-data line: the textbook rule -/
theorem begin_line (l more acc : Bytes) (h : 10 ∉ l) (hne : l ≠ []) (ht : isTermLine l = false) :
    dotLoop (l ++ 10 :: more) .beginLine acc = dotLoop more .beginLine (10 :: ((unstuffLine l).reverse ++ acc)) := by
  cases l with
  | nil => exact absurd rfl hne
  | cons c t =>
    obtain ⟨hc, h10t⟩ := mem_cons_split h
    by_cases h46 : c = 46
    · subst h46
      cases t with
      | nil => simp [isTermLine] at ht
      | cons d r =>
        obtain ⟨hd, h10r⟩ := mem_cons_split h10t
        by_cases hd13 : d = 13
        · subst hd13
          cases r with
          | nil => simp [isTermLine] at ht
          | cons e s =>
            obtain ⟨he, h10s⟩ := mem_cons_split h10r
            by_cases he13 : e = 13
            · subst he13
              simp [dotLoop, unstuffLine, (data_cr_line s more h10s (13 :: acc)).2, dropCR_cons_cons]
            · simp [dotLoop, unstuffLine, he, he13, (data_cr_line s more h10s (e :: 13 :: acc)).1, dropCR_cons_cons,
                dropCR_cons_ne13 e s he13]
        · simp [dotLoop, unstuffLine, hd, hd13, (data_cr_line r more h10r (d :: acc)).1, dropCR_cons_ne13 d r hd13]
    · by_cases h13 : c = 13
      · subst h13
        simp [dotLoop, unstuffLine, dropDot_cons_ne 13 t (by decide), (data_cr_line t more h10t acc).2]
      · simp [dotLoop, unstuffLine, h46, h13, dropDot_cons_ne c t h46, (data_cr_line t more h10t (c :: acc)).1,
          dropCR_cons_ne13 c t h13]

/-- THE QUIRK: a bare LF at the beginning of a line is copied and leaves the machine in the middle-of-line state -/
theorem begin_bare_lf (more acc : Bytes) : dotLoop (10 :: more) .beginLine acc = dotLoop more .data (10 :: acc) := by
  simp [dotLoop]

/-- the end-of-data line at the beginning of a line stops the machine; what follows is not touched -/
theorem begin_term (l more acc : Bytes) (ht : isTermLine l = true) :
    dotLoop (l ++ 10 :: more) .beginLine acc = some (acc.reverse, more) := by
  simp [isTermLine] at ht
  rcases ht with rfl | rfl <;> simp [dotLoop]

/-- without an LF the machine never stops: io.ErrUnexpectedEOF -/
theorem no_lf_eof (tail : Bytes) (h : 10 ∉ tail) : ∀ st acc, dotLoop tail st acc = none := by
  induction tail with
  | nil => intro st acc; simp [dotLoop]
  | cons c t ih =>
    intro st acc
    obtain ⟨hc, ht⟩ := mem_cons_split h
    have ih := ih ht
    cases st <;> by_cases h46 : c = 46 <;> by_cases h13 : c = 13 <;> simp [dotLoop, hc, h46, h13, ih]

def stOf (sh : Bool) : DState := if sh then .data else .beginLine

/-- how a line-level outcome continues on the bytes `more` that follow the lines -/
def applyOut (o : Out) (acc more : Bytes) : Option (Bytes × Bytes) :=
  match o with
  | .done d rem => some ((d.reverse ++ acc).reverse, joinLF rem ++ more)
  | .cont d sh => dotLoop more (stOf sh) (d.reverse ++ acc)

theorem apply_prepend (o : Out) (p acc more : Bytes) :
    applyOut (o.prepend p) acc more = applyOut o (p.reverse ++ acc) more := by
  cases o <;> simp [Out.prepend, applyOut, List.reverse_append, List.append_assoc]

/-- the byte machine on a sequence of complete lines IS the line-level description `runLines` -/
theorem run_lines (ls : List Bytes) (hls : ∀ l ∈ ls, 10 ∉ l) : ∀ (sh : Bool) (acc more : Bytes),
    dotLoop (joinLF ls ++ more) (stOf sh) acc = applyOut (runLines sh ls) acc more := by
  induction ls with
  | nil => intro sh acc more; simp [runLines, applyOut]
  | cons l ls ih =>
    intro sh acc more
    have h1 := hls l (by simp)
    have ih := ih (fun l' hl' => hls l' (by simp [hl']))
    simp only [joinLF_cons, List.append_assoc, List.cons_append]
    cases sh with
    | true =>
      simp only [stOf, if_true, runLines, apply_prepend]
      rw [(data_cr_line l _ h1 acc).1]
      have := ih false (10 :: ((dropCR l).reverse ++ acc)) more
      simp only [stOf] at this
      simpa [List.reverse_append] using this
    | false =>
      simp only [stOf, runLines]
      by_cases ht : isTermLine l = true
      · simp [ht, applyOut, begin_term l _ acc ht]
      · have ht' : isTermLine l = false := by simpa using ht
        have hgoal : (if isTermLine l = true then Out.done [] ls
            else Out.prepend (unstuffLine l ++ [10]) (runLines (l == []) ls))
            = Out.prepend (unstuffLine l ++ [10]) (runLines (l == []) ls) := by simp [ht']
        simp only [Bool.false_eq_true, if_false]
        rw [hgoal, apply_prepend]
        by_cases hne : l = []
        · subst hne
          have := ih true (10 :: acc) more
          simp only [stOf] at this
          simpa [begin_bare_lf, unstuffLine, dropCR, dropDot] using this
        · rw [begin_line l _ acc h1 hne ht']
          have := ih false (10 :: ((unstuffLine l).reverse ++ acc)) more
          simp only [stOf] at this
          have hem : l.isEmpty = false := by cases l <;> simp_all
          simpa [hem, List.reverse_append] using this

/-! ### bufio.ScanLines -/

theorem dropCR_append_13 (t : Bytes) : dropCR (t ++ [13]) = t := by
  induction t with
  | nil => simp [dropCR]
  | cons c t ih =>
    cases t with
    | nil => simp [dropCR]
    | cons d r => simpa [dropCR] using ih

theorem dropCR_append_ne (t : Bytes) (c : Nat) (hc : c ≠ 13) : dropCR (t ++ [c]) = t ++ [c] := by
  induction t with
  | nil => simp [dropCR, hc]
  | cons a t ih =>
    cases t with
    | nil => simp [dropCR, hc]
    | cons d r => simpa [dropCR] using ih

theorem finishLine_eq (cur : Bytes) : finishLine cur = dropCR cur.reverse := by
  cases cur with
  | nil => simp [finishLine, dropCR]
  | cons c t =>
    by_cases hc : c = 13
    · subst hc; simp [finishLine, dropCR_append_13]
    · have : finishLine (c :: t) = (c :: t).reverse := by
        unfold finishLine; split
        · rename_i h; simp at h; exact absurd h.1 hc
        · rfl
      rw [this]; simp [dropCR_append_ne _ c hc]

theorem scan_line (l more : Bytes) (h : 10 ∉ l) : ∀ cur acc,
    scanLoop (l ++ 10 :: more) cur acc = scanLoop more [] (finishLine (l.reverse ++ cur) :: acc) := by
  induction l with
  | nil => intro cur acc; simp [scanLoop]
  | cons c t ih =>
    intro cur acc
    obtain ⟨hc, ht⟩ := mem_cons_split h
    simp [scanLoop, hc, ih ht]

theorem scan_tail (tail : Bytes) (h : 10 ∉ tail) : ∀ cur acc,
    scanLoop tail cur acc =
      (if (tail.reverse ++ cur).isEmpty then acc else finishLine (tail.reverse ++ cur) :: acc).reverse := by
  induction tail with
  | nil => intro cur acc; simp [scanLoop]
  | cons c t ih =>
    intro cur acc
    obtain ⟨hc, ht⟩ := mem_cons_split h
    simp [scanLoop, hc, ih ht]

theorem scan_lines (ls : List Bytes) (tail : Bytes) (hls : ∀ l ∈ ls, 10 ∉ l) (ht : 10 ∉ tail) : ∀ acc,
    scanLoop (joinLF ls ++ tail) [] acc =
      acc.reverse ++ ls.map dropCR ++ (if tail = [] then [] else [dropCR tail]) := by
  induction ls with
  | nil =>
    intro acc
    rw [joinLF_nil, List.nil_append, scan_tail tail ht]
    by_cases he : tail = []
    · simp [he]
    · simp [he, finishLine_eq]
  | cons l ls ih =>
    intro acc
    have h1 := hls l (by simp)
    have ih := ih (fun l' hl' => hls l' (by simp [hl']))
    simp only [joinLF_cons, List.append_assoc, List.cons_append]
    rw [scan_line l _ h1, ih]
    simp [finishLine_eq]

/-- the accumulator model of bufio.ScanLines yields exactly the lines of the specification -/
theorem scanLines_eq_bodyLines (src : Bytes) : scanLines src = bodyLines src := by
  obtain ⟨ls, tail, hls, ht, hw, hs⟩ := exists_lines src
  unfold scanLines bodyLines
  rw [hs]
  conv => lhs; rw [hw]
  simpa using scan_lines ls tail hls ht []

theorem scanLimLoop_eq (lim : Nat) (inp : Bytes) : ∀ cur n acc, n + inp.length < lim →
    scanLimLoop lim inp cur n acc = (scanLoop inp cur acc, true) := by
  induction inp with
  | nil => intro cur n acc _; simp [scanLimLoop, scanLoop]
  | cons c t ih =>
    intro cur n acc h
    simp only [List.length_cons] at h
    by_cases hc : c = 10
    · subst hc
      simp only [scanLimLoop, scanLoop, beq_self_eq_true, if_true]
      exact ih _ _ _ (by omega)
    · have : ¬ (n + 1 ≥ lim) := by omega
      simp only [scanLimLoop, scanLoop, beq_iff_eq, hc, if_false, this]
      exact ih _ _ _ (by omega)

theorem mem_dropCR {x : Nat} {l : Bytes} (h : x ∈ dropCR l) : x ∈ l := by
  induction l with
  | nil => simp [dropCR] at h
  | cons c t ih =>
    cases t with
    | nil =>
      by_cases hc : c = 13
      · simp [dropCR, hc] at h
      · simpa [dropCR, hc] using h
    | cons d r =>
      simp only [dropCR, List.mem_cons] at h
      rcases h with h | h
      · simp [h]
      · exact List.mem_cons_of_mem _ (ih (by simpa using h))

theorem length_dropCR (l : Bytes) : (dropCR l).length ≤ l.length := by
  induction l with
  | nil => simp [dropCR]
  | cons c t ih =>
    cases t with
    | nil => by_cases hc : c = 13 <;> simp [dropCR, hc]
    | cons d r => simp only [dropCR, List.length_cons] at *; omega

theorem length_le_joinLF (ls : List Bytes) (l : Bytes) (h : l ∈ ls) : l.length < (joinLF ls).length := by
  induction ls with
  | nil => simp at h
  | cons a ls ih =>
    simp only [List.mem_cons] at h
    rcases h with rfl | h
    · simp
    · have := ih h; simp; omega

theorem bodyLines_noLF (src : Bytes) : ∀ l ∈ bodyLines src, 10 ∉ l := by
  intro l hl h10
  have hs := splitLines_noLF src
  unfold bodyLines at hl
  simp only [List.mem_append, List.mem_map] at hl
  rcases hl with ⟨l', hl', rfl⟩ | hl
  · exact hs.1 l' hl' (mem_dropCR h10)
  · split at hl
    · simp at hl
    · simp at hl; subst hl; exact hs.2 (mem_dropCR h10)

theorem bodyLines_length (src : Bytes) : ∀ l ∈ bodyLines src, l.length ≤ src.length := by
  intro l hl
  have hj := join_splitLines src
  have hlen : src.length = (joinLF (splitLines src).1).length + (splitLines src).2.length := by
    conv => lhs; rw [← hj]
    simp
  unfold bodyLines at hl
  simp only [List.mem_append, List.mem_map] at hl
  rcases hl with ⟨l', hl', rfl⟩ | hl
  · have := length_le_joinLF _ _ hl'; have := length_dropCR l'; omega
  · split at hl
    · simp at hl
    · simp at hl; subst hl; have := length_dropCR (splitLines src).2; omega

/-! ### dot-stuffing of one line -/

theorem stuff_cons_ne (c : Nat) (t : Bytes) (hc : c ≠ 46) : stuff (c :: t) = c :: t := by
  unfold stuff; split
  · rename_i h; simp at h; exact absurd h.1 hc
  · rfl

theorem dotPrefix_eq_stuff (l : Bytes) : dotPrefix l = stuff l := by
  cases l with
  | nil => rfl
  | cons c t =>
    by_cases hc : c = 46
    · subst hc; rfl
    · rw [stuff_cons_ne c t hc]
      unfold dotPrefix; split
      · rename_i h; simp at h; exact absurd h.1 hc
      · rfl

theorem unstuffLine_stuff_cr (l : Bytes) : unstuffLine (stuff l ++ [13]) = l := by
  cases l with
  | nil => simp [stuff, unstuffLine, dropDot, dropCR]
  | cons c t =>
    by_cases hc : c = 46
    · subst hc
      simp only [stuff, unstuffLine, List.cons_append, dropDot_dot]
      exact dropCR_append_13 (46 :: t)
    · rw [stuff_cons_ne c t hc]
      simp only [unstuffLine, List.cons_append, dropDot_cons_ne c _ hc]
      exact dropCR_append_13 (c :: t)

theorem isTermLine_stuff_cr (l : Bytes) : isTermLine (stuff l ++ [13]) = false := by
  cases l with
  | nil => simp [stuff, isTermLine]
  | cons c t =>
    by_cases hc : c = 46
    · subst hc; simp [stuff, isTermLine]
    · rw [stuff_cons_ne c t hc]; simp [isTermLine, hc]

theorem mem_stuff {x : Nat} {l : Bytes} (h : x ∈ stuff l) : x ∈ l := by
  cases l with
  | nil => simp [stuff] at h
  | cons c t =>
    by_cases hc : c = 46
    · subst hc; simp [stuff] at h; simp [h]
    · rwa [stuff_cons_ne c t hc] at h

theorem stuff_ne_dot (l : Bytes) : stuff l ≠ [46] := by
  cases l with
  | nil => simp [stuff]
  | cons c t =>
    by_cases hc : c = 46
    · subst hc; simp [stuff]
    · rw [stuff_cons_ne c t hc]; simp [hc]

theorem unstuff1_stuff (l : Bytes) : unstuff1 (stuff l) = l := by
  cases l with
  | nil => rfl
  | cons c t =>
    by_cases hc : c = 46
    · subst hc; rfl
    · rw [stuff_cons_ne c t hc]
      unfold unstuff1; split
      · rename_i h; simp at h; exact absurd h.1 hc
      · rfl

/-! ### an RFC client's wire text through the dot machine -/

theorem dataEncodeLines_eq (L : List Bytes) (rest : Bytes) :
    dataEncodeLines L ++ rest = joinLF (L.map (fun l => stuff l ++ [13])) ++ ([46, 13] ++ 10 :: rest) := by
  unfold dataEncodeLines
  induction L with
  | nil => simp
  | cons l L ih => simp at ih ⊢; exact ih

theorem runLines_encoded (L : List Bytes) :
    runLines false (L.map (fun l => stuff l ++ [13])) = .cont (joinLF L) false := by
  induction L with
  | nil => simp [runLines]
  | cons l L ih =>
    have hne : (stuff l ++ [13] == []) = false := by cases h : stuff l <;> simp
    simp [runLines, isTermLine_stuff_cr, unstuffLine_stuff_cr, hne, ih, Out.prepend]

/-! ### the guard -/

theorem dropCR_eq_unstuffLine (l : Bytes) (h : l.head? ≠ some 46) : dropCR l = unstuffLine l := by
  cases l with
  | nil => rfl
  | cons c t =>
    have hc : c ≠ 46 := by intro e; simp [e] at h
    simp [unstuffLine, dropDot_cons_ne c t hc]

theorem runLines_quirkFree (ls : List Bytes) (hterm : ∀ l ∈ ls, isTermLine l = false) : ∀ sh,
    quirkFree sh ls = true → runLines sh ls = .cont (joinLF (ls.map unstuffLine)) false := by
  induction ls with
  | nil => intro sh h; cases sh <;> simp_all [quirkFree, runLines]
  | cons l ls ih =>
    intro sh h
    have h1 := hterm l (by simp)
    have ih := ih (fun l' hl' => hterm l' (by simp [hl']))
    cases sh with
    | false =>
      simp only [quirkFree] at h
      simp only [runLines, h1, Bool.false_eq_true, if_false]
      rw [ih _ h]
      simp [Out.prepend]
    | true =>
      simp only [quirkFree, Bool.and_eq_true, bne_iff_ne] at h
      simp [runLines, ih _ h.2, Out.prepend, dropCR_eq_unstuffLine l h.1]

/-! ### the RFC 1939 client -/

theorem readCRLF_line (l more : Bytes) (h : 10 ∉ l) : ∀ acc,
    readCRLF (l ++ 13 :: 10 :: more) acc = some ((l.reverse ++ acc).reverse, more) := by
  induction l with
  | nil => intro acc; simp [readCRLF]
  | cons c t ih =>
    intro acc
    obtain ⟨hc, ht⟩ := mem_cons_split h
    have ih := ih ht (c :: acc)
    rw [List.cons_append, readCRLF]
    · simpa using ih
    · intro rest' _ heq
      cases t with
      | nil => simp at heq
      | cons d r =>
        obtain ⟨hd, _⟩ := mem_cons_split ht
        simp at heq; exact hd heq.1

theorem length_flatten_sendLine (L : List Bytes) : 2 * L.length ≤ ((L.map sendLine).flatten).length := by
  induction L with
  | nil => simp
  | cons l L ih => simp [sendLine] at ih ⊢; omega

theorem client_lines (L : List Bytes) (hL : ∀ l ∈ L, 10 ∉ l) : ∀ fuel acc rest, L.length < fuel →
    clientLoop fuel ((L.map sendLine).flatten ++ 46 :: 13 :: 10 :: rest) acc =
      some (((joinCRLF L).reverse ++ acc).reverse, rest) := by
  induction L with
  | nil =>
    intro fuel acc rest hf
    cases fuel with
    | zero => simp at hf
    | succ n =>
      have := readCRLF_line [46] rest (by simp) []
      simp only [List.cons_append, List.nil_append] at this
      simp [clientLoop, this]
  | cons l L ih =>
    intro fuel acc rest hf
    have h1 := hL l (by simp)
    have ih := ih (fun l' hl' => hL l' (by simp [hl']))
    cases fuel with
    | zero => simp at hf
    | succ n =>
      have hs : 10 ∉ stuff l := fun e => h1 (mem_stuff e)
      have := readCRLF_line (stuff l) ((L.map sendLine).flatten ++ 46 :: 13 :: 10 :: rest) hs []
      simp only [List.map_cons, List.flatten_cons, sendLine, dotPrefix_eq_stuff, List.append_assoc, List.cons_append,
        List.nil_append] at this ⊢
      simp only [clientLoop, this]
      have hne : (stuff l == [46]) = false := by simpa using stuff_ne_dot l
      simp only [List.append_nil, List.reverse_reverse, hne, Bool.false_eq_true, if_false, unstuff1_stuff]
      have ih := ih n (10 :: 13 :: (l.reverse ++ acc)) rest (by simp at hf; omega)
      rw [ih]
      simp [List.reverse_append]

/-! ### the guard is exact -/

/-- the machine only ever adds to what it has produced -/
theorem dotLoop_mono (inp : Bytes) : ∀ st acc d r, dotLoop inp st acc = some (d, r) → acc.length ≤ d.length := by
  induction inp with
  | nil => intro st acc d r h; simp [dotLoop] at h
  | cons c t ih =>
    intro st acc d r h
    cases st <;> by_cases h46 : c = 46 <;> by_cases h13 : c = 13 <;> by_cases h10 : c = 10 <;>
      simp [dotLoop, h46, h13, h10] at h <;>
      first
        | (have := ih _ _ _ _ h; (try simp at this); omega)
        | (rw [← h.1]; simp)
        | omega

theorem length_unstuffLine_le (l : Bytes) : (unstuffLine l).length ≤ (dropCR l).length ∧
    (l.head? = some 46 → (unstuffLine l).length < (dropCR l).length) := by
  cases l with
  | nil => simp [unstuffLine, dropDot, dropCR]
  | cons c t =>
    by_cases hc : c = 46
    · subst hc
      cases t with
      | nil => simp [unstuffLine, dropCR]
      | cons d r => simp [unstuffLine, dropCR_cons_cons]
    · simp [unstuffLine, dropDot_cons_ne c t hc, hc]

theorem runLines_len (ls : List Bytes) (hterm : ∀ l ∈ ls, isTermLine l = false) : ∀ sh,
    ∃ d sh', runLines sh ls = .cont d sh' ∧ (joinLF (ls.map unstuffLine)).length ≤ d.length ∧
      (quirkFree sh ls = false → sh' = true ∨ (joinLF (ls.map unstuffLine)).length < d.length) := by
  induction ls with
  | nil => intro sh; exact ⟨[], sh, by simp [runLines], by simp, by cases sh <;> simp [quirkFree]⟩
  | cons l ls ih =>
    intro sh
    have h1 := hterm l (by simp)
    have ih := ih (fun l' hl' => hterm l' (by simp [hl']))
    cases sh with
    | false =>
      obtain ⟨d, sh', hr, hle, hq⟩ := ih (l == [])
      refine ⟨unstuffLine l ++ [10] ++ d, sh', by simp only [runLines, h1, Bool.false_eq_true, if_false, hr, Out.prepend], by simp; omega, ?_⟩
      intro hqf
      simp only [quirkFree] at hqf
      rcases hq hqf with h | h
      · exact Or.inl h
      · right; simp; omega
    | true =>
      obtain ⟨d, sh', hr, hle, hq⟩ := ih false
      have hl := length_unstuffLine_le l
      refine ⟨dropCR l ++ [10] ++ d, sh', by simp [runLines, hr, Out.prepend], by simp; omega, ?_⟩
      intro hqf
      simp only [quirkFree, Bool.and_eq_false_iff, bne_eq_false_iff_eq] at hqf
      rcases hqf with h | h
      · right; have := hl.2 h; simp; omega
      · rcases hq h with h | h
        · exact Or.inl h
        · right; simp; omega

end Ibx.Lemmas.Dot
