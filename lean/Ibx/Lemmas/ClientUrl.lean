import Ibx.Model.ClientUrl
/- Helper lemmas about escaping, splitting and cleaning paths. -/
namespace Ibx.Lemmas.ClientUrl
open Ibx Ibx.Bytes Ibx.Model.ClientUrl

/-! ### splitSlash -/

theorem splitSlash_ne_nil (s : Bytes) : splitSlash s ≠ [] := by
  induction s with
  | nil => simp [splitSlash]
  | cons c rest ih =>
    unfold splitSlash
    split
    · simp
    · split <;> simp

theorem splitSlash_slash (r : Bytes) : splitSlash (47 :: r) = [] :: splitSlash r := by
  rw [splitSlash]; simp

theorem splitSlash_cons_ne (c : Nat) (r : Bytes) (h : c ≠ 47) (seg : Bytes) (more : List Bytes)
    (hr : splitSlash r = seg :: more) : splitSlash (c :: r) = (c :: seg) :: more := by
  rw [splitSlash]
  have : (c == 47) = false := by simp [h]
  simp [this, hr]

theorem splitSlash_append (a b : Bytes) : splitSlash (a ++ 47 :: b) = splitSlash a ++ splitSlash b := by
  induction a with
  | nil => rw [List.nil_append, splitSlash_slash]; rfl
  | cons c rest ih =>
    simp only [List.cons_append]
    by_cases hc : c = 47
    · subst hc
      rw [splitSlash_slash, splitSlash_slash, ih]; simp
    · cases h : splitSlash rest with
      | nil => exact absurd h (splitSlash_ne_nil rest)
      | cons seg more =>
        rw [splitSlash_cons_ne c rest hc seg more h,
          splitSlash_cons_ne c (rest ++ 47 :: b) hc seg (more ++ splitSlash b) (by rw [ih, h]; simp)]
        simp

theorem splitSlash_noslash (s : Bytes) (h : 47 ∉ s) : splitSlash s = [s] := by
  induction s with
  | nil => simp [splitSlash]
  | cons c rest ih =>
    simp only [List.mem_cons, not_or] at h
    unfold splitSlash
    have hc : (c == 47) = false := by simp; omega
    simp [hc, ih h.2]

theorem splitSlash_seg_render (s : Bytes) (ss : List Bytes) (hs : 47 ∉ s) (hss : ∀ t ∈ ss, 47 ∉ t) :
    splitSlash (s ++ render ss) = s :: ss := by
  induction ss generalizing s with
  | nil => simp [render, splitSlash_noslash s hs]
  | cons t ts ih =>
    have : render (t :: ts) = 47 :: (t ++ render ts) := by simp [render]
    rw [this, splitSlash_append, splitSlash_noslash s hs,
      ih t (hss t (by simp)) (fun u hu => hss u (by simp [hu]))]
    simp

theorem splitSlash_render (ss : List Bytes) (hss : ∀ t ∈ ss, 47 ∉ t) :
    splitSlash (render ss) = [] :: ss := by
  have := splitSlash_seg_render [] ss (by simp) hss
  simpa using this

/-! ### cleaning -/

theorem cleanGo_filter (st segs : List Bytes) (h : ∀ s ∈ segs, s ≠ dot ∧ s ≠ dotdot) :
    cleanGo st segs = st.reverse ++ segs.filter (fun s => !s.isEmpty) := by
  induction segs generalizing st with
  | nil => simp [cleanGo]
  | cons s rest ih =>
    have hs := h s (by simp)
    have hr : ∀ t ∈ rest, t ≠ dot ∧ t ≠ dotdot := fun t ht => h t (by simp [ht])
    rw [cleanGo]
    by_cases he : s = []
    · subst he; simp [ih st hr]
    · have h1 : (s == [] || s == dot) = false := by simp [he, hs.1]
      have h2 : (s == dotdot) = false := by simp [hs.2]
      have h3 : s.isEmpty = false := by cases s <;> simp_all
      simp only [h1, h2, Bool.false_eq_true, if_false]
      rw [ih (s :: st) hr, List.filter_cons]
      simp [h3]

theorem filter_nonempty_id (l : List Bytes) (h : ∀ s ∈ l, s ≠ []) : l.filter (fun s => !s.isEmpty) = l := by
  rw [List.filter_eq_self]
  intro s hs
  have := h s hs
  cases s <;> simp_all

/-- cleaning the segments of a clean rooted path changes nothing -/
theorem cleanGo_good (segs : List Bytes) (h : ∀ s ∈ segs, s ≠ [] ∧ s ≠ dot ∧ s ≠ dotdot) :
    cleanGo [] ([] :: segs) = segs := by
  rw [cleanGo_filter]
  · simp only [List.reverse_nil, List.nil_append]
    rw [List.filter_cons]
    simp only [List.isEmpty_nil, Bool.not_true]
    exact filter_nonempty_id segs (fun s hs => (h s hs).1)
  · intro s hs
    simp only [List.mem_cons] at hs
    rcases hs with rfl | hs
    · simp [dot, dotdot]
    · exact ⟨(h s hs).2.1, (h s hs).2.2⟩

theorem render_ne_nil (segs : List Bytes) (h : segs ≠ []) : render segs ≠ [] := by
  cases segs with
  | nil => exact absurd rfl h
  | cons s ss => simp [render]

theorem pathClean_render (segs : List Bytes) (hne : segs ≠ [])
    (h : ∀ s ∈ segs, s ≠ [] ∧ s ≠ dot ∧ s ≠ dotdot ∧ 47 ∉ s) : pathClean (render segs) = render segs := by
  unfold pathClean
  rw [splitSlash_render segs (fun t ht => (h t ht).2.2.2),
    cleanGo_good segs (fun s hs => ⟨(h s hs).1, (h s hs).2.1, (h s hs).2.2.1⟩)]
  cases segs with
  | nil => exact absurd rfl hne
  | cons s ss => rfl

theorem render_append (a b : List Bytes) : render (a ++ b) = render a ++ render b := by
  simp [render]

theorem render_getLast (segs : List Bytes) (hne : segs ≠ []) (h : ∀ s ∈ segs, s ≠ [] ∧ 47 ∉ s) :
    (render segs).getLast? ≠ some 47 := by
  induction segs with
  | nil => exact absurd rfl hne
  | cons s ss ih =>
    have hs := h s (by simp)
    by_cases hss : ss = []
    · subst hss
      simp only [render, List.flatMap_cons, List.flatMap_nil, List.append_nil]
      intro hl
      have hm : (47 : Nat) ∈ s := by
        cases s with
        | nil => exact absurd rfl hs.1
        | cons x xs =>
          rw [List.getLast?_cons_cons] at hl
          exact List.mem_of_getLast? hl
      exact hs.2 hm
    · have hr := ih hss (fun t ht => h t (by simp [ht]))
      have hrn := render_ne_nil ss hss
      have : render (s :: ss) = (47 :: s) ++ render ss := by simp [render]
      rw [this, List.getLast?_append]
      cases hx : (render ss).getLast? with
      | none => exact absurd (List.getLast?_eq_none_iff.mp hx) hrn
      | some x => rw [hx] at hr; simpa using hr

/-! ### escaping -/

theorem unescape_nil : unescape [] = some [] := rfl

theorem unescape_cons_ne (c : Nat) (rest : Bytes) (h : c ≠ 37) :
    unescape (c :: rest) = (unescape rest).map (fun t => c :: t) := by
  have : (c == 37) = false := by simp [h]
  simp [unescape, unescGo, this]

theorem unescape_lit_append (a b : Bytes) (h : 37 ∉ a) :
    unescape (a ++ b) = (unescape b).map (fun t => a ++ t) := by
  induction a with
  | nil => simp
  | cons c rest ih =>
    simp only [List.mem_cons, not_or] at h
    rw [List.cons_append, unescape_cons_ne c _ (by omega), ih h.2]
    cases unescape b <;> simp

theorem unescape_pct_raw (x y : Nat) (a b : Nat) (rest : Bytes) (ha : hexValB a = some x) (hb : hexValB b = some y) :
    unescape (37 :: a :: b :: rest) = (unescape rest).map (fun t => (x * 16 + y) :: t) := by
  simp [unescape, unescGo, ha, hb]

/-- the byte table: every byte < 256 is either kept as itself (and is neither '%' nor '/') or written %XX with
    upper-case hex digits that read back as the byte -/
theorem hex_table : ∀ c < 256,
    hexValB (upperHex (c / 16)) = some (c / 16) ∧ hexValB (upperHex (c % 16)) = some (c % 16) ∧
    upperHex (c / 16) ≠ 47 ∧ upperHex (c % 16) ≠ 47 := by decide +kernel

theorem unreserved_table : ∀ c < 256, isUnreservedB c = true → c ≠ 37 ∧ c ≠ 47 ∧ c ≠ 32 := by decide +kernel
theorem unreserved_table' : ∀ c < 256, isUnreservedB c = true → c ≠ 37 ∧ c ≠ 47 :=
  fun c hc h => ⟨(unreserved_table c hc h).1, (unreserved_table c hc h).2.1⟩
theorem pathKeep_table : ∀ c < 256, isPathSegKeepB c = true → c ≠ 37 ∧ c ≠ 47 := by decide +kernel

theorem unescape_pct (c : Nat) (hc : c < 256) (rest : Bytes) :
    unescape (pct c ++ rest) = (unescape rest).map (fun t => c :: t) := by
  have ht := hex_table c hc
  have := unescape_pct_raw (c / 16) (c % 16) (upperHex (c / 16)) (upperHex (c % 16)) rest ht.1 ht.2.1
  have hh : c / 16 * 16 + c % 16 = c := by omega
  simpa [pct, hh] using this

/-- an escaper that keeps `keep` bytes and writes the others as %XX -/
def escWith (keep : Nat → Bool) (s : Bytes) : Bytes := s.flatMap (fun c => if keep c then [c] else pct c)

theorem unescape_escWith (keep : Nat → Bool) (hk : ∀ c < 256, keep c = true → c ≠ 37 ∧ c ≠ 47)
    (s : Bytes) (hs : ∀ c ∈ s, c < 256) (rest : Bytes) :
    unescape (escWith keep s ++ rest) = (unescape rest).map (fun t => s ++ t) := by
  induction s with
  | nil => simp [escWith]
  | cons c cs ih =>
    have hc := hs c (by simp)
    have ih' := ih (fun d hd => hs d (by simp [hd]))
    have : escWith keep (c :: cs) = (if keep c then [c] else pct c) ++ escWith keep cs := by simp [escWith]
    rw [this, List.append_assoc]
    by_cases hkc : keep c = true
    · simp only [hkc, if_true, List.cons_append, List.nil_append]
      rw [unescape_cons_ne c _ (hk c hc hkc).1, ih']
      cases unescape rest <;> simp
    · have hkc' : keep c = false := by simpa using hkc
      simp only [hkc', Bool.false_eq_true, if_false]
      rw [unescape_pct c hc, ih']
      cases unescape rest <;> simp

theorem noslash_escWith (keep : Nat → Bool) (hk : ∀ c < 256, keep c = true → c ≠ 37 ∧ c ≠ 47)
    (s : Bytes) (hs : ∀ c ∈ s, c < 256) : 47 ∉ escWith keep s := by
  induction s with
  | nil => simp [escWith]
  | cons c cs ih =>
    have hc := hs c (by simp)
    have ih' := ih (fun d hd => hs d (by simp [hd]))
    have : escWith keep (c :: cs) = (if keep c then [c] else pct c) ++ escWith keep cs := by simp [escWith]
    rw [this]
    have ht := hex_table c hc
    by_cases hkc : keep c = true
    · have := (hk c hc hkc).2
      simp [hkc, ih']; omega
    · have hkc' : keep c = false := by simpa using hkc
      simp only [hkc', Bool.false_eq_true, if_false, List.mem_append, not_or]
      refine ⟨?_, ih'⟩
      simp [pct]
      exact ⟨ht.2.2.1.symm, ht.2.2.2.symm⟩

theorem queryEscape_eq (s : Bytes) (h32 : 32 ∉ s) : queryEscape s = escWith isUnreservedB s := by
  induction s with
  | nil => rfl
  | cons c cs ih =>
    simp only [List.mem_cons, not_or] at h32
    have h1 : queryEscape (c :: cs) = qEscByte c ++ queryEscape cs := by simp [queryEscape]
    have h2 : escWith isUnreservedB (c :: cs) = (if isUnreservedB c then [c] else pct c) ++ escWith isUnreservedB cs := by
      simp [escWith]
    rw [h1, h2, ih h32.2]
    have : (c == 32) = false := by simp; omega
    simp [qEscByte, this]

theorem pathEscape_eq (s : Bytes) : pathEscape s = escWith isPathSegKeepB s := rfl

/-- an escaped name is "", "." or ".." only if the name is -/
theorem escWith_ne (keep : Nat → Bool) (hk : ∀ c < 256, keep c = true → c ≠ 37 ∧ c ≠ 47)
    (s : Bytes) (hs : ∀ c ∈ s, c < 256) (t : Bytes) (ht : unescape t = some t) (hne : s ≠ t) : escWith keep s ≠ t := by
  intro h
  have h1 := unescape_escWith keep hk s hs []
  simp only [List.append_nil, unescape_nil, Option.map_some] at h1
  rw [h, ht] at h1
  exact hne (Option.some.inj h1).symm

theorem unescape_dot : unescape dot = some dot := by
  simp [dot, unescape_cons_ne, unescape_nil]
theorem unescape_dotdot : unescape dotdot = some dotdot := by
  simp [dotdot, unescape_cons_ne, unescape_nil]

end Ibx.Lemmas.ClientUrl
