import Ibx.Lemmas.ConcMem
/-
  Termination of the size enforcer's handling of one request (in particular of its eviction loop
  `for curSize > maxSize { … }`): a measure on the enforcer's own state that every enforcer step strictly
  decreases and no client step changes while a request is being served.  Every iteration of the loop pops one
  element of `all`, and clients never add to `all` (only the enforcer's `incoming` case does, once per request,
  before the loop), so the loop body runs at most `len(all)` times.
-/
namespace Ibx.Model.ConcMem

/-- steps the enforcer still has to take, at most, before it is back in its `select` -/
def emeasure (s : St) : Nat :=
  match s.epc with
  | .idle => 0
  | .fin _ => 1
  | .rem _ _ => 2
  | .loop _ => 6 * s.all.length + 2
  | .evUnlockB _ _ _ => 6 * s.all.length + 3
  | .evCrit _ _ => 6 * s.all.length + 4
  | .evLockB _ _ => 6 * s.all.length + 5
  | .evUnlockS _ _ => 6 * s.all.length + 6
  | .evLockS _ _ => 6 * s.all.length + 7
  | .inc _ _ => 6 * s.all.length + 9

/-- every step that moves the enforcer (changes its program counter) while it serves a request strictly
    decreases the measure — for the code as it is (`gone` protocol; the unguarded variant stops by crashing) -/
theorem enf_step_decreases {v c s s'} (st : Step v c s s') (hb : s.epc ≠ .idle) (hn : s'.epc ≠ s.epc) :
    emeasure s' < emeasure s := by
  cases st <;> simp_all [emeasure, evDelete, critEff, acquire, release] <;> omega

/-- every other step (client threads) leaves the enforcer's state alone: the measure and its list are
    unchanged (clients hand over a request only while the enforcer is idle, and never touch `all`) -/
theorem other_step_keeps {v c s s'} (st : Step v c s s') (hn : s'.epc = s.epc) :
    emeasure s' = emeasure s ∧ s'.all = s.all ∧ s'.cur = s.cur := by
  cases st <;> simp_all [emeasure, evDelete, critEff, acquire, release]

/-- a request is accepted only by an idle enforcer and starts with a measure linear in `len(all)` -/
theorem request_measure {v c s s'} (st : Step v c s s') (hi : s.epc = .idle) :
    emeasure s' ≤ 6 * s.all.length + 9 ∧ s'.all = s.all := by
  cases st <;> simp_all [emeasure, evDelete, critEff, acquire, release]

/-- each iteration of the eviction loop shortens `all` by one; nothing else the enforcer does in the loop
    lengthens it -/
theorem loop_shrinks {v c s s'} (st : Step v c s s') (t : Nat) (hl : s.epc = .loop t) (hn : s'.epc ≠ s.epc) :
    (∃ t', s'.epc = .fin t') ∨ s'.all.length + 1 = s.all.length := by
  cases st <;> simp_all [evDelete, critEff, acquire, release]


/-- an execution fragment during which the enforcer is never idle (it is serving ONE request), with the
    number of moves the enforcer itself made -/
inductive BusySteps (v : Variant) (c : Cfg) : St → St → Nat → Prop
  | refl (s : St) : BusySteps v c s s 0
  | step {s s' s'' : St} {n : Nat} : BusySteps v c s s' n → s'.epc ≠ .idle → Step v c s' s'' →
      BusySteps v c s s'' (n + (if s''.epc = s'.epc then 0 else 1))

/-- the enforcer's moves while serving one request are bounded by the measure at the start: whatever the
    clients do in between, it is back in its `select` after at most `emeasure s` of its own steps — at most
    `6·len(all) + 9` counted from the receipt of the request (`request_measure`) -/
theorem busy_bound {v c s s' n} (h : BusySteps v c s s' n) : n + emeasure s' ≤ emeasure s := by
  induction h with
  | refl => simp
  | step _ hb st ih =>
    split
    · rename_i he; have := (other_step_keeps st he).1; omega
    · rename_i he; have := enf_step_decreases st hb he; omega

end Ibx.Model.ConcMem
