import Ibx.Lemmas.MailArgs
import Ibx.Lemmas.SmtpEx
/-
  The session model (`Ibx.Model.Smtp`) instantiated with the concrete MAIL-argument recognisers: helper lemmas for
  `Ibx.Props.C06Args` / `Ibx.Props.C03Args` (command lines as bytes, decimal SIZE values, concrete parameter strings).
-/
namespace Ibx.Lemmas.MailArgsSmtp
open Ibx Ibx.Bytes Ibx.Model Ibx.Model.Smtp Ibx.Model.MailArgs Ibx.Spec.MailArgs
open Ibx.Lemmas.Smtp Ibx.Lemmas.MailArgs

/-- the environment computes the two expressions itself (they are no longer parameters) -/
def Concrete (e : Env) : Prop := e.mailRe = MailArgs.mailRe ∧ e.parseArgs = MailArgs.parseArgs

/-! ### command lines as bytes -/

theorem dropWhile_head {p : Nat → Bool} (l : Bytes) (h : ∀ z, l.head? = some z → p z = false) : l.dropWhile p = l := by
  cases l with
  | nil => rfl
  | cons z l => simp [h z rfl]

theorem getLast?_append_ne (a b : Bytes) (hb : b ≠ []) : (a ++ b).getLast? = b.getLast? := by
  rw [List.getLast?_append]
  cases h : b.getLast? with
  | none => rw [List.getLast?_eq_none_iff] at h; exact absurd h hb
  | some z => simp

/-- the text does not end in a space, CR or LF -/
def EndsClean (x : Bytes) : Prop := ∀ z, x.getLast? = some z → z ≠ 32 ∧ z ≠ 13 ∧ z ≠ 10

theorem mail_bytes : ofAscii "MAIL" = [77, 65, 73, 76] := by decide

/-- `MAIL ` + an argument that begins with `F`/`f`… (no space) and does not end in a space, CR or LF, + CRLF is the
    command MAIL with exactly that argument -/
theorem parseCmd_mail (x : Bytes) (hh : ∀ z, x.head? = some z → z ≠ 32) (hne : x ≠ []) (hl : EndsClean x) :
    parseCmd (ofAscii "MAIL" ++ 32 :: x ++ [13, 10]) = .cmd (ofAscii "MAIL") x := by
  have ht : Line.trimRightCRLF (ofAscii "MAIL" ++ 32 :: x ++ [13, 10]) = ofAscii "MAIL" ++ 32 :: x := by
    unfold Line.trimRightCRLF
    have : (ofAscii "MAIL" ++ 32 :: x ++ [13, 10]).reverse = 10 :: 13 :: (ofAscii "MAIL" ++ 32 :: x).reverse := by simp
    rw [this]
    simp only [List.dropWhile_cons, beq_self_eq_true, Bool.or_true, Bool.true_or, if_true]
    rw [dropWhile_head]
    · simp
    · intro z hz
      have hz' : (ofAscii "MAIL" ++ 32 :: x).getLast? = some z := by rw [← List.head?_reverse]; exact hz
      have : x.getLast? = some z := by
        have h2 : ofAscii "MAIL" ++ 32 :: x = (ofAscii "MAIL" ++ [32]) ++ x := by simp
        rw [h2, getLast?_append_ne _ _ hne] at hz'
        exact hz'
      obtain ⟨_, h13, h10⟩ := hl z this
      simp [h13, h10]
  unfold parseCmd
  rw [ht, mail_bytes]
  simp only [List.cons_append, List.nil_append, List.takeWhile_cons, bne_iff_ne, ne_eq, Nat.reduceEqDiff,
    not_false_eq_true, if_true, not_true_eq_false, Bool.false_eq_true, if_false,
    List.length_cons, List.length_nil, Nat.zero_add, Nat.reduceAdd, Nat.reduceBEq, Nat.reduceLT, List.drop_succ_cons,
    List.drop_zero]
  have hlt : 4 < x.length + 1 + 1 + 1 + 1 + 1 := by omega
  simp only [hlt, if_true]
  congr 1
  unfold trimSpaces
  rw [dropWhile_head x (fun z hz => by simpa using hh z hz), dropWhile_head]
  · simp
  · intro z hz
    have : x.getLast? = some z := by rw [← List.head?_reverse]; exact hz
    simpa using (hl z this).1

/-! ### decimal SIZE values -/

/-- a non-empty string of decimal digits -/
def Digits (ds : Bytes) : Prop := ds ≠ [] ∧ ∀ c ∈ ds, isDigitB c = true

/-- its value -/
def decVal (ds : Bytes) : Nat := ds.foldl (fun a c => a * 10 + (c - 48)) 0

theorem digitsVal_digits (ds : Bytes) (acc : Nat) (h : ∀ c ∈ ds, isDigitB c = true) :
    digitsVal ds acc = some (ds.foldl (fun a c => a * 10 + (c - 48)) acc) := by
  induction ds generalizing acc with
  | nil => rfl
  | cons c ds ih =>
    simp only [digitsVal, h c (by simp), if_true, List.foldl_cons]
    exact ih _ (fun x hx => h x (by simp [hx]))

/-- strconv.ParseInt(ds, 10, 32) on decimal digits: the value if it fits 31 bits, an error otherwise -/
theorem parseInt32_digits (ds : Bytes) (h : Digits ds) :
    parseInt32 ds = if decVal ds ≤ 2147483647 then some (decVal ds : Int) else none := by
  obtain ⟨hne, hd⟩ := h
  cases ds with
  | nil => exact absurd rfl hne
  | cons c r =>
    have hc := hd c (by simp)
    simp only [isDigitB, Bool.and_eq_true, decide_eq_true_eq] at hc
    have h43 : c ≠ 43 := by omega
    have h45 : c ≠ 45 := by omega
    unfold parseInt32
    split
    · rename_i heq
      split at heq
      · rename_i h; simp at h; exact absurd h.1 h43
      · rename_i h; simp at h; exact absurd h.1 h45
      · simp only [Prod.mk.injEq] at heq
        obtain ⟨rfl, rfl⟩ := heq
        simp only [List.isEmpty_cons, Bool.false_eq_true, if_false, digitsVal_digits _ 0 hd]
        rfl

theorem digits_word {ds : Bytes} (h : Digits ds) : Word1 ds :=
  ⟨h.1, fun c hc => by simp [isWord, h.2 c hc]⟩

theorem digits_no62 {ds : Bytes} (h : Digits ds) : 62 ∉ ds := by
  intro hc
  have := h.2 62 hc
  simp [isDigitB] at this

/-! ### concrete parameter strings -/

theorem word1_param {w : Bytes} (h : ∀ c ∈ w, isWord c = true) {t : Bytes} (ht : ParamToks t) : ParamToks (w ++ t) := by
  induction w with
  | nil => exact ht
  | cons c w ih =>
    exact .one (by simp [isParam1, h c (by simp)]) (ih (fun x hx => h x (by simp [hx])))

theorem word_no62 {w : Bytes} (h : ∀ c ∈ w, isWord c = true) : 62 ∉ w := by
  intro hc
  have := h 62 hc
  simp [isWord, isDigitB, isAlphaB, isLowerB, isUpperB] at this

/-- ` key=value` with word key and word value, followed by more parameter tokens, is a parameter token sequence -/
theorem pair_param {k v t : Bytes} (hk : ∀ c ∈ k, isWord c = true) (hv : ∀ c ∈ v, isWord c = true) (ht : ParamToks t) :
    ParamToks (32 :: (k ++ 61 :: (v ++ t))) :=
  .one (by decide) (word1_param hk (.one (by decide) (word1_param hv ht)))

/-- the pairs of ` key=value` + rest: that pair, then the pairs of the rest (the value is the whole run of word bytes) -/
theorem pairsOf_pair (k v rest : Bytes) (hk : Word1 k) (hv : (Word1 v ∧ NoWordAhead rest) ∨ v = [60, 62]) :
    pairsOf (32 :: (k ++ 61 :: (v ++ rest))) = (k, v) :: pairsOf rest := by
  show pairsS _ 0 = _ :: pairsS rest 0
  rw [pairsS_zero, (matchAt_some _ _ _).2 ⟨rest, rfl, hk, hv⟩]
  simp only []
  have := pairsS_drop (k ++ 61 :: v) rest
  simp only [List.append_assoc, List.cons_append, List.length_append, List.length_cons] at this
  rw [show k.length + v.length + 1 = k.length + (v.length + 1) by omega, this]

theorem pairsOf_nil : pairsOf [] = [] := rfl

theorem noWordAhead_nil : NoWordAhead [] := by intro c h; simp at h
theorem noWordAhead_space (r : Bytes) : NoWordAhead (32 :: r) := by
  intro c h
  simp only [List.head?_cons, Option.some.injEq] at h
  subst h
  decide

theorem parseArgs_of_pairs {p : Bytes} {ps : List (Bytes × Bytes)} (h : pairsOf p = ps) (hne : ps ≠ []) :
    MailArgs.parseArgs p = some ps := by
  unfold MailArgs.parseArgs
  rw [h]
  cases ps with
  | nil => exact absurd rfl hne
  | cons a t => rfl

/-! ### the MAIL handler when only the size check differs -/

theorem mailFrom_congr (e : Env) (s : Sess) (arg arg' addr p p' : Bytes) (acc : List Ev)
    (h1 : e.mailRe arg = some (addr, p)) (h2 : e.mailRe arg' = some (addr, p'))
    (h3 : sizeCheck e p = sizeCheck e p') : mailFrom e s arg acc = mailFrom e s arg' acc := by
  rw [mailFrom_eq, mailFrom_eq]
  have : mailSyntax e arg = mailSyntax e arg' := by simp [mailSyntax, h1, h2, h3]
  rw [this]

theorem handleLine_mail (e : Env) (s : Sess) (line arg : Bytes) (acc : List Ev) (hs : s.st = .ready)
    (hp : parseCmd line = .cmd (ofAscii "MAIL") arg) : handleLine e s line acc = mailFrom e s arg acc := by
  rw [handleLine_cmd e s line _ arg acc (by simp [hs]) (by simp [hs]) hp, handleCmd_ready_mail e s arg acc hs]

/-- `FROM:<` address `>` parameters, read as the specification reads it -/
theorem decomp_plain (a params : Bytes) (ha : AddrToks a) (hp : ParamTail params) :
    Decomp (ofAscii "FROM:<" ++ a ++ 62 :: params) a params :=
  ⟨ofAscii "FROM:", [], by simp [ofAscii], by unfold IsFrom; decide, by intro c h; simp at h, ha, hp⟩

theorem mailRe_plain (a params : Bytes) (ha : AddrToks a) (hp : ParamTail params) (h62 : 62 ∉ params) :
    MailArgs.mailRe (ofAscii "FROM:<" ++ a ++ 62 :: params) = some (a, params) :=
  mailRe_of_decomp (decomp_plain a params ha hp) h62

/-- `exEnv` (limit 20 bytes, 2 recipients) with the real recognisers in place of its stand-ins -/
def exEnvC : Env := { Ibx.Lemmas.SmtpEx.exEnv with mailRe := MailArgs.mailRe, parseArgs := MailArgs.parseArgs }

theorem exEnvC_concrete : Concrete exEnvC := ⟨rfl, rfl⟩

end Ibx.Lemmas.MailArgsSmtp
