import Ibx.Model.Addr
/- Helper lemmas about the address model. -/
namespace Ibx.Lemmas.Addr
open Ibx Ibx.Bytes Ibx.Model.Addr

/-- bytes that can occur in a domain `ValidateDomainPart`'s label loop lets through -/
def isDomByte (c : Nat) : Bool := isDomAN c || c == 45 || c == 46

theorem domLoop_bytes (l : Bytes) (st : DState) (h : domLoop l st = true) : ∀ c ∈ l, isDomByte c = true := by
  induction l generalizing st with
  | nil => simp
  | cons c rest ih =>
    unfold domLoop at h
    intro x hx
    simp only [List.mem_cons] at hx
    split at h
    · rename_i h1
      rcases hx with rfl | hx
      · simp [isDomByte, h1]
      · exact ih _ h x hx
    · split at h
      · rename_i h2
        split at h
        · simp at h
        · rcases hx with rfl | hx
          · simp [isDomByte, h2]
          · exact ih _ h x hx
      · split at h
        · rename_i h3
          split at h
          · simp at h
          · split at h
            · simp at h
            · split at h
              · simp at h
              · rcases hx with rfl | hx
                · simp [isDomByte, h3]
                · exact ih _ h x hx
        · simp at h

end Ibx.Lemmas.Addr
