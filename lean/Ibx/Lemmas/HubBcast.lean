import Ibx.Lemmas.HubRing
/-
  Lemmas.HubBcast — what one broadcast / one operation does to each single listener.
-/
namespace Ibx.Lemmas.Hub
open Ibx.Spec.HubLog Ibx.Model.Hub

/-- no listener ever panics (for the WebSocket listeners: `no_send_on_closed`) -/
def NoPanic (ls : Nat → Listener) : Prop := ∀ l n, (ls l).answer n ≠ .panic

theorem call_answer (s : Listener) (e : Ev) : (s.call e).2.answer = s.answer := by
  unfold Listener.call; split <;> rfl

theorem call_accepts (s : Listener) (e : Ev) : (s.call e).2.accepts = s.accepts := by
  unfold Listener.call; split <;> rfl

theorem call_ok {s : Listener} {e : Ev} (h : s.answer s.calls = .ok) :
    s.call e = (.ok, { s with calls := s.calls + 1, got := if s.accepts e then s.got ++ [e] else s.got }) := by
  unfold Listener.call; rw [h]

theorem call_fst (s : Listener) (e : Ev) : (s.call e).1 = s.answer s.calls := by
  unfold Listener.call; split <;> simp_all

/-- listeners outside the list are not touched -/
theorem bcast_notin (e : Ev) (regs : List Nat) (ls : Nat → Listener) (x : Nat) (hx : x ∉ regs) :
    (bcast e regs ls).2 x = ls x := by
  induction regs generalizing ls with
  | nil => rfl
  | cons l rest ih =>
    have hxl : x ≠ l := fun h => hx (h ▸ List.mem_cons_self)
    have hxr : x ∉ rest := fun h => hx (List.mem_cons_of_mem _ h)
    simp only [bcast]
    split
    · simp only []; rw [ih _ hxr]; simp [upd, hxl]
    · rw [ih _ hxr]; simp [upd, hxl]
    · simp [upd, hxl]

theorem bcast_sublist (e : Ev) (regs : List Nat) (ls : Nat → Listener) : (bcast e regs ls).1.Sublist regs := by
  induction regs generalizing ls with
  | nil => exact List.Sublist.refl _
  | cons l rest ih =>
    simp only [bcast]
    split
    · exact (ih _).cons_cons l
    · exact (ih _).cons l
    · exact List.Sublist.refl _

theorem bcast_answer (e : Ev) (regs : List Nat) (ls : Nat → Listener) (x : Nat) :
    ((bcast e regs ls).2 x).answer = (ls x).answer ∧ ((bcast e regs ls).2 x).accepts = (ls x).accepts := by
  induction regs generalizing ls with
  | nil => exact ⟨rfl, rfl⟩
  | cons l rest ih =>
    have hu : ∀ s, (ls l).call e = s → ((upd ls l s.2 x).answer = (ls x).answer ∧ (upd ls l s.2 x).accepts = (ls x).accepts) := by
      intro s hs
      unfold upd
      split
      · rename_i hxl; subst hxl; rw [← hs, call_answer, call_accepts]; exact ⟨rfl, rfl⟩
      · exact ⟨rfl, rfl⟩
    simp only [bcast]
    split
    · rename_i s hs; simp only []; rw [(ih _).1, (ih _).2]; exact hu _ hs
    · rename_i s hs; rw [(ih _).1, (ih _).2]; exact hu _ hs
    · rename_i s hs; exact hu _ hs

/-- without panics the loop is pointwise: every registered listener is called exactly once … -/
theorem bcast_ls (e : Ev) (regs : List Nat) (ls : Nat → Listener) (hn : NoPanic ls) (hd : regs.Nodup) (x : Nat) :
    (bcast e regs ls).2 x = if x ∈ regs then ((ls x).call e).2 else ls x := by
  induction regs generalizing ls with
  | nil => rfl
  | cons l rest ih =>
    rw [List.nodup_cons] at hd
    have hn' : ∀ s, (ls l).call e = s → NoPanic (upd ls l s.2) := by
      intro s hs y n
      unfold upd
      split
      · rename_i hyl; rw [← hs, call_answer]; exact hn l n
      · exact hn y n
    have hp : ((ls l).call e).1 ≠ .panic := by rw [call_fst]; exact hn l _
    simp only [bcast]
    split
    · rename_i s hs
      simp only []
      rw [ih _ (hn' _ hs) hd.2]
      by_cases hxl : x = l
      · subst hxl; simp [hd.1, upd, hs]
      · simp [hxl, upd]
    · rename_i s hs
      rw [ih _ (hn' _ hs) hd.2]
      by_cases hxl : x = l
      · subst hxl; simp [hd.1, upd, hs]
      · simp [hxl, upd]
    · rename_i s hs; rw [hs] at hp; exact absurd rfl hp

/-- … and stays registered iff it answered ok. -/
theorem bcast_regs (e : Ev) (regs : List Nat) (ls : Nat → Listener) (hn : NoPanic ls) (hd : regs.Nodup) (x : Nat) :
    x ∈ (bcast e regs ls).1 ↔ x ∈ regs ∧ ((ls x).call e).1 = .ok := by
  induction regs generalizing ls with
  | nil => simp [bcast]
  | cons l rest ih =>
    rw [List.nodup_cons] at hd
    have hn' : ∀ s, (ls l).call e = s → NoPanic (upd ls l s.2) := by
      intro s hs y n
      unfold upd
      split
      · rename_i hyl; rw [← hs, call_answer]; exact hn l n
      · exact hn y n
    have hp : ((ls l).call e).1 ≠ .panic := by rw [call_fst]; exact hn l _
    have hup : ∀ s, x ∈ rest → upd ls l s x = ls x := by
      intro s hx
      have : x ≠ l := fun h => hd.1 (h ▸ hx)
      simp [upd, this]
    simp only [bcast]
    split
    · rename_i s hs
      simp only [List.mem_cons]
      rw [ih _ (hn' _ hs) hd.2]
      constructor
      · rintro (h | ⟨h1, h2⟩)
        · subst h; exact ⟨Or.inl rfl, by rw [hs]⟩
        · rw [hup _ h1] at h2; exact ⟨Or.inr h1, h2⟩
      · rintro ⟨h1 | h1, h2⟩
        · exact Or.inl h1
        · exact Or.inr ⟨h1, by rw [hup _ h1]; exact h2⟩
    · rename_i s hs
      simp only [List.mem_cons]
      rw [ih _ (hn' _ hs) hd.2]
      constructor
      · rintro ⟨h1, h2⟩
        rw [hup _ h1] at h2; exact ⟨Or.inr h1, h2⟩
      · rintro ⟨h1 | h1, h2⟩
        · subst h1; rw [hs] at h2; cases h2
        · exact ⟨h1, by rw [hup _ h1]; exact h2⟩
    · rename_i s hs; rw [hs] at hp; exact absurd rfl hp

end Ibx.Lemmas.Hub
