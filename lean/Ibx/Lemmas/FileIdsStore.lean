import Ibx.Lemmas.FileRefine
import Ibx.Lemmas.FileIds
/-
  Lemmas.FileIdsStore — `AddMessage` with an arbitrary id (Model/FileIds.lean: `addWith`, `createRaw`) on the file-store
  model, WITHOUT any assumption about a generator: the only thing a mailbox is asked to satisfy is `BoxOK` (index ids
  pairwise different, every entry has its raw file with the recorded size), which every operation preserves.
-/
namespace Ibx.Lemmas.FileIdsStore
open Ibx Ibx.Spec.Store Ibx.Model.FileIds Ibx.Lemmas.FileRefine Ibx.Lemmas.FileIds
open Ibx.Model.FileStore (FS FEnt Dir readIndex rawOf toMsg writeIndex setDir unlinkRaw removeEnt capLoop)

/-- what a mailbox directory has to satisfy: no generator state involved -/
structure BoxOK (f : FS) (b : Bytes) : Prop where
  distinct : (readIndex f b).Pairwise (fun x y => x.id ≠ y.id)
  rawOk : ∀ e ∈ readIndex f b, ∃ src, rawOf f b e.id = some src ∧ e.size = src.length

theorem BoxOK_of_RF {f : FS} {s : Store} (h : RF f s) (b : Bytes) : BoxOK f b := by
  refine ⟨?_, ?_⟩
  · rw [readIndex_eq]; exact (h.ok b).distinct
  · intro e he
    rw [readIndex_eq] at he
    obtain ⟨src, h1, h2⟩ := (h.ok b).rawOk e he
    exact ⟨src, by rw [rawOf_eq]; exact h1, h2⟩

/-! ### removing the head of the index (one turn of the cap loop) -/

theorem readIndex_setDir_self (f : FS) (b : Bytes) (d : Option Dir) : readIndex (setDir f b d) b = ents d := by
  rw [readIndex_eq, setDir_dirs_self]

theorem rawOf_setDir_self (f : FS) (b : Bytes) (d : Option Dir) (i : Nat) : rawOf (setDir f b d) b i = rawIn d i := by
  rw [rawOf_eq, setDir_dirs_self]

theorem unlinkRaw_setDir (f : FS) (b : Bytes) (d : Dir) (i : Nat) :
    unlinkRaw (setDir f b (some d)) b i = setDir f b (some { d with raws := d.raws.filter (·.1 != i) }) := by
  simp only [unlinkRaw, setDir_dirs_self, setDir_setDir]

theorem afterRemove_head {f : FS} {b : Bytes} {e : FEnt} {rest : List FEnt} (hl : readIndex f b = e :: rest)
    (hd : (e :: rest).Pairwise (fun x y => x.id ≠ y.id)) :
    readIndex (afterRemove f b e.id) b = rest ∧
    (∀ x ∈ rest, rawOf (afterRemove f b e.id) b x.id = rawOf f b x.id) ∧
    (∀ y, y ≠ b → (afterRemove f b e.id).dirs y = f.dirs y) := by
  have hrest : (readIndex f b).filter (·.id != e.id) = rest := by
    rw [hl]; exact filter_ne_head (g := FEnt.id) hd
  unfold afterRemove
  rw [hrest]
  cases rest with
  | nil =>
    simp only [List.isEmpty_nil, if_true, writeIndex_eq]
    refine ⟨by rw [readIndex_setDir_self]; rfl, fun x hx => (by cases hx), fun y hy => setDir_dirs_ne _ _ hy⟩
  | cons r rest =>
    simp only [List.isEmpty_cons, Bool.false_eq_true, if_false, writeIndex_eq, unlinkRaw_setDir]
    refine ⟨by rw [readIndex_setDir_self]; rfl, ?_, fun y hy => setDir_dirs_ne _ _ hy⟩
    intro x hx
    rw [rawOf_setDir_self, rawOf_eq]
    have hne : x.id ≠ e.id := by
      rw [List.pairwise_cons] at hd
      exact fun h => hd.1 x hx h.symm
    cases hdb : f.dirs b with
    | none => rw [readIndex_eq, hdb] at hl; cases hl
    | some d =>
      simp only [rawIn, Option.getD_some]
      rw [find?_filter_of_imp]
      intro a ha
      have : a.1 = x.id := by simpa using ha
      simp [this, hne]

/-! ### the cap loop, from `BoxOK` alone -/

theorem capLoop_keeps (cap : Nat) (b : Bytes) : ∀ (fuel : Nat) (f : FS) (l : List FEnt) (ev : List Ev),
    l = readIndex f b → l.Pairwise (fun x y => x.id ≠ y.id) → l.length < fuel → cap > 0 →
    (capLoop cap b fuel f l ev).2.1 = l.drop (evictCount cap l.length) ∧
    readIndex (capLoop cap b fuel f l ev).1 b = (capLoop cap b fuel f l ev).2.1 ∧
    (capLoop cap b fuel f l ev).2.2 = ev.reverse ++ (l.take (evictCount cap l.length)).map (fun e => (b, e.id)) ∧
    (∀ x ∈ (capLoop cap b fuel f l ev).2.1, rawOf (capLoop cap b fuel f l ev).1 b x.id = rawOf f b x.id) ∧
    (∀ y, y ≠ b → (capLoop cap b fuel f l ev).1.dirs y = f.dirs y) := by
  intro fuel
  induction fuel with
  | zero => intro f l ev _ _ hlt; omega
  | succ fuel ih =>
    intro f l ev hl hd hlt hcap
    unfold capLoop
    by_cases hge : l.length ≥ cap
    · simp only [hge, if_true]
      cases l with
      | nil => simp at hge; omega
      | cons e rest =>
        simp only
        have hany : (readIndex f b).any (·.id == e.id) = true := by rw [← hl]; simp
        have hrest : (readIndex f b).filter (·.id != e.id) = rest := by
          rw [← hl]; exact filter_ne_head (g := FEnt.id) hd
        have hrm : removeEnt f b (e :: rest) e.id = some (afterRemove f b e.id, rest) := by
          rw [hl, removeEnt_eq, hany, hrest]; rfl
        rw [hrm]
        simp only
        obtain ⟨a1, a2, a3⟩ := afterRemove_head hl.symm hd
        have hd' : rest.Pairwise (fun x y => x.id ≠ y.id) := (List.pairwise_cons.1 hd).2
        obtain ⟨i1, i2, i3, i4, i5⟩ := ih (afterRemove f b e.id) rest ((b, e.id) :: ev) a1.symm hd'
          (by simp only [List.length_cons] at hlt; omega) hcap
        have hk : evictCount cap (e :: rest).length = evictCount cap rest.length + 1 := by
          simp only [List.length_cons] at hge
          simp only [evictCount, List.length_cons]
          rw [if_pos ⟨hcap, hge⟩]
          split <;> omega
        refine ⟨by rw [i1, hk]; rfl, i2, ?_, ?_, fun y hy => by rw [i5 y hy, a3 y hy]⟩
        · rw [i3, hk]; simp
        · intro x hx
          rw [i4 x hx]
          exact a2 x (by rw [i1] at hx; exact List.mem_of_mem_drop hx)
    · simp only [hge, if_false]
      have hk : evictCount cap l.length = 0 := by simp only [evictCount]; split <;> omega
      rw [hk]
      refine ⟨by simp, hl.symm, by simp, ?_, ?_⟩ <;> intros <;> first | rfl | trivial

/-- the loaded index after the cap loop, the state it leaves and its events, for every cap -/
theorem afterCap_facts (c : Cfg) (f : FS) (b : Bytes) (h : BoxOK f b) :
    let r := if c.cap > 0 then capLoop c.cap b ((readIndex f b).length + 1) f (readIndex f b) [] else (f, readIndex f b, [])
    r.2.1 = (readIndex f b).drop (evictCount c.cap (readIndex f b).length) ∧
    readIndex r.1 b = r.2.1 ∧
    r.2.2 = ((readIndex f b).take (evictCount c.cap (readIndex f b).length)).map (fun e => (b, e.id)) ∧
    (∀ x ∈ r.2.1, rawOf r.1 b x.id = rawOf f b x.id) ∧
    (∀ y, y ≠ b → r.1.dirs y = f.dirs y) := by
  by_cases hc : c.cap > 0
  · simp only [hc, if_true]
    have := capLoop_keeps c.cap b ((readIndex f b).length + 1) f (readIndex f b) [] rfl h.distinct (Nat.lt_succ_self _) hc
    simpa using this
  · have hk : evictCount c.cap (readIndex f b).length = 0 := by simp only [evictCount]; split <;> omega
    simp only [hc, if_false, hk]
    refine ⟨by simp, ?_, by simp, ?_, ?_⟩ <;> intros <;> first | rfl | trivial

theorem loadedAfterCap_eq (c : Cfg) (f : FS) (b : Bytes) (h : BoxOK f b) :
    loadedAfterCap c f b = (readIndex f b).drop (evictCount c.cap (readIndex f b).length) :=
  (afterCap_facts c f b h).1

/-! ### create the raw file, write the index -/

theorem find_create_ne (raws : List (Nat × Bytes)) (i j : Nat) (src : Bytes) (h : j ≠ i) :
    ((raws.filter (·.1 != i) ++ [(i, src)]).find? (·.1 == j)).map (·.2) = (raws.find? (·.1 == j)).map (·.2) := by
  rw [List.find?_append]
  rw [find?_filter_of_imp _ _ _ (by intro a ha; have : a.1 = j := by simpa using ha
                                    simp [this, h])]
  cases raws.find? (·.1 == j) with
  | some p => rfl
  | none =>
    have : ((i, src).1 == j) = false := by simpa using fun e => h e.symm
    simp [this]

theorem find_create_self (raws : List (Nat × Bytes)) (i : Nat) (src : Bytes) :
    ((raws.filter (·.1 != i) ++ [(i, src)]).find? (·.1 == i)).map (·.2) = some src := by
  rw [List.find?_append]
  have : (raws.filter (·.1 != i)).find? (·.1 == i) = none := by
    rw [List.find?_eq_none]
    intro a ha
    have := (List.mem_filter.1 ha).2
    simpa using this
  simp [this]

theorem rawOf_getD (f : FS) (b : Bytes) (j : Nat) :
    (((f.dirs b).getD { index := none, raws := [] }).raws.find? (·.1 == j)).map (·.2) = rawOf f b j := by
  rw [rawOf_eq]; cases f.dirs b <;> rfl

/-- the file system `addWith` produces from the state `f1` the cap loop left -/
theorem addWith_state (f1 : FS) (b : Bytes) (i : Nat) (src : Bytes) (l : List FEnt) (hl : l ≠ []) :
    writeIndex (createRaw f1 b i src) b l =
      setDir f1 b (some { index := some l,
                          raws := ((f1.dirs b).getD { index := none, raws := [] }).raws.filter (·.1 != i) ++ [(i, src)] }) := by
  have he : l.isEmpty = false := by cases l with
    | nil => exact absurd rfl hl
    | cons _ _ => rfl
  rw [writeIndex_eq, he]
  simp only [createRaw, Bool.false_eq_true, if_false, setDir_dirs_self, Option.getD_some, setDir_setDir]

/-- `AddMessage` with an id that is NOT listed: the index is what the cap loop left plus the new entry; every message
    that was listed and survives the cap keeps its content; the new entry reads back the delivered bytes; the
    invariant holds again; other mailboxes are not touched. -/
theorem addWith_fresh (c : Cfg) (f : FS) (b : Bytes) (hdr : Meta) (src : Bytes) (pick : List FEnt → Nat) (h : BoxOK f b)
    (hfresh : ∀ e ∈ loadedAfterCap c f b, e.id ≠ pick (loadedAfterCap c f b)) :
    let r := addWith c f b hdr src pick
    r.2.1 = pick (loadedAfterCap c f b) ∧
    readIndex r.1 b = loadedAfterCap c f b ++ [{ id := r.2.1, hdr := hdr, seen := false, size := src.length }] ∧
    (∀ e ∈ loadedAfterCap c f b, rawOf r.1 b e.id = rawOf f b e.id) ∧
    rawOf r.1 b r.2.1 = some src ∧
    r.2.2 = ((readIndex f b).take (evictCount c.cap (readIndex f b).length)).map (fun e => (b, e.id)) ∧
    BoxOK r.1 b ∧
    (∀ y, y ≠ b → r.1.dirs y = f.dirs y) := by
  obtain ⟨a1, a2, a3, a4, a5⟩ := afterCap_facts c f b h
  simp only [addWith, loadedAfterCap] at hfresh ⊢
  generalize (if c.cap > 0 then capLoop c.cap b ((readIndex f b).length + 1) f (readIndex f b) [] else (f, readIndex f b, [])) = r at *
  obtain ⟨f1, l1, ev⟩ := r
  simp only at a1 a2 a3 a4 a5 hfresh ⊢
  have hne : l1 ++ [({ id := pick l1, hdr := hdr, seen := false, size := src.length } : FEnt)] ≠ [] := by simp
  rw [addWith_state f1 b (pick l1) src _ hne]
  generalize hN : l1 ++ [({ id := pick l1, hdr := hdr, seen := false, size := src.length } : FEnt)] = L at hne ⊢
  have hkeep : ∀ e ∈ l1, rawOf (setDir f1 b (some { index := some L, raws := ((f1.dirs b).getD { index := none, raws := [] }).raws.filter (·.1 != pick l1) ++ [(pick l1, src)] })) b e.id = rawOf f b e.id := by
    intro e he
    rw [rawOf_setDir_self]
    simp only [rawIn]
    rw [find_create_ne _ _ _ _ (hfresh e he), rawOf_getD, a4 e he]
  have hself : rawOf (setDir f1 b (some { index := some L, raws := ((f1.dirs b).getD { index := none, raws := [] }).raws.filter (·.1 != pick l1) ++ [(pick l1, src)] })) b (pick l1) = some src := by
    rw [rawOf_setDir_self]
    simp only [rawIn]
    exact find_create_self _ _ _
  have hidx : readIndex (setDir f1 b (some { index := some L, raws := ((f1.dirs b).getD { index := none, raws := [] }).raws.filter (·.1 != pick l1) ++ [(pick l1, src)] })) b = L := by
    rw [readIndex_setDir_self]; rfl
  have hl1sub : ∀ e ∈ l1, e ∈ readIndex f b := fun e he => by rw [a1] at he; exact List.mem_of_mem_drop he
  refine ⟨trivial, hidx, hkeep, hself, a3, ⟨?_, ?_⟩, fun y hy => by rw [setDir_dirs_ne _ _ hy, a5 y hy]⟩
  · rw [hidx, ← hN, List.pairwise_append]
    refine ⟨by rw [a1]; exact h.distinct.sublist (List.drop_sublist _ _), by simp, ?_⟩
    intro x hx y hy
    have : y = { id := pick l1, hdr := hdr, seen := false, size := src.length } := by simpa using hy
    subst this
    exact hfresh x hx
  · intro e he
    rw [hidx, ← hN] at he
    rcases List.mem_append.1 he with he | he
    · obtain ⟨sr, hs1, hs2⟩ := h.rawOk e (hl1sub e he)
      exact ⟨sr, by rw [hkeep e he]; exact hs1, hs2⟩
    · have : e = { id := pick l1, hdr := hdr, seen := false, size := src.length } := by simpa using he
      subst this
      exact ⟨src, hself, rfl⟩

/-- `AddMessage` with an id that IS listed: `os.Create` truncates that message's raw file, so the earlier message
    reads back the later one's bytes, and the index holds two entries with one id. -/
theorem addWith_listed_overwrites (c : Cfg) (f : FS) (b : Bytes) (hdr : Meta) (src : Bytes) (pick : List FEnt → Nat) :
    let r := addWith c f b hdr src pick
    rawOf r.1 b (pick (loadedAfterCap c f b)) = some src ∧
    readIndex r.1 b = loadedAfterCap c f b ++ [{ id := pick (loadedAfterCap c f b), hdr := hdr, seen := false, size := src.length }] := by
  simp only [addWith, loadedAfterCap]
  generalize (if c.cap > 0 then capLoop c.cap b ((readIndex f b).length + 1) f (readIndex f b) [] else (f, readIndex f b, [])) = r at *
  obtain ⟨f1, l1, ev⟩ := r
  simp only
  have hne : l1 ++ [({ id := pick l1, hdr := hdr, seen := false, size := src.length } : FEnt)] ≠ [] := by simp
  rw [addWith_state f1 b (pick l1) src _ hne]
  refine ⟨?_, by rw [readIndex_setDir_self]; rfl⟩
  rw [rawOf_setDir_self]
  simp only [rawIn]
  exact find_create_self _ _ _

/-! ### ids as numbers -/

theorem toNat_ofNat (n : Nat) : (Id.ofNat n).toNat = n := by
  simp only [Id.ofNat, Id.toNat, cycle]; omega

theorem ofNat_toNat (i : Id) (h : i.ctr < cycle) : Id.ofNat i.toNat = i := by
  cases i with
  | mk s k =>
    simp only [cycle] at h
    simp only [Id.ofNat, Id.toNat, cycle, Id.mk.injEq]
    omega

theorem mem_idsOf (l : List FEnt) (i : Id) (h : i.ctr < cycle) : i ∈ idsOf l ↔ ∃ e ∈ l, e.id = i.toNat := by
  simp only [idsOf, List.mem_map]
  constructor
  · rintro ⟨e, he, rfl⟩; exact ⟨e, he, (toNat_ofNat e.id).symm⟩
  · rintro ⟨e, he, heq⟩; exact ⟨e, he, by rw [heq, ofNat_toNat i h]⟩

end Ibx.Lemmas.FileIdsStore
