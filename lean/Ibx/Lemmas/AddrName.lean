import Ibx.Model.Addr
/-
  Helper lemmas for C04, part 1: byte classes, `parseLoop` on plain (unquoted) text,
  `parseMailboxName` and its output alphabet.
-/
namespace Ibx.Lemmas.AddrName
open Ibx Ibx.Bytes Ibx.Model.Addr

/-- bytes `parseLoop` copies whatever the quoting state: letters, digits, the specials, '.' -/
def isPlainB (c : Nat) : Bool := isAlphaB c || isDigitB c || isSpecialB c || c == 46

/-- the output alphabet of `parseMailboxName`: lower-case letters, digits, the name specials
    without '+' -/
def isNameB (c : Nat) : Bool := nameCharOk c && c != 43

/-- unfold every byte-class test to linear arithmetic -/
macro "byte_cases" : tactic =>
  `(tactic| (simp only [isPlainB, isNameB, nameCharOk, isNameSpecialB, isSpecialB, isDomAN, isAlphaB,
      isLowerB, isUpperB, isDigitB, lowerB, Bool.or_eq_true, Bool.and_eq_true, Bool.not_eq_true,
      Bool.or_eq_false_iff, Bool.and_eq_false_iff, decide_eq_true_eq, decide_eq_false_iff_not,
      beq_iff_eq, bne_iff_ne, ne_eq, beq_eq_false_iff_ne, Nat.not_le, Nat.not_lt] at *))

theorem isNameB_plain {c : Nat} (h : isNameB c = true) : isPlainB c = true := by
  byte_cases; omega

theorem isNameB_lower {c : Nat} (h : isNameB c = true) : lowerB c = c := by
  byte_cases; split <;> omega

theorem isNameB_ne {c : Nat} (h : isNameB c = true) : c ≠ 43 ∧ c ≠ 64 ∧ c ≠ 91 := by
  byte_cases; omega

theorem isNameB_charOk {c : Nat} (h : isNameB c = true) : nameCharOk c = true := by
  simp only [isNameB, Bool.and_eq_true] at h; exact h.1

theorem hasDotDot_cons2 (a b : Nat) (r : Bytes) :
    hasDotDot (a :: b :: r) = ((a == 46 && b == 46) || hasDotDot (b :: r)) := by
  by_cases ha : a = 46 <;> by_cases hb : b = 46
  · subst ha; subst hb; simp [hasDotDot]
  · subst ha; rw [hasDotDot.eq_2]
    · simp [hb]
    · intro r' _ h; injection h with h1 _; exact hb h1
  · rw [hasDotDot.eq_2]
    · simp [ha]
    · intro r' h _; exact ha h
  · rw [hasDotDot.eq_2]
    · simp [ha]
    · intro r' h _; exact ha h

@[simp] theorem hasDotDot_single (a : Nat) : hasDotDot [a] = false := by
  rw [hasDotDot.eq_2]; · rfl
  · intro r' _ h; cases h

/-- one step of `parseLoop` on a plain byte: it is copied, whatever the quoting state -/
theorem parseLoop_plain_step (c : Nat) (rest : Bytes) (st : PState) (hp : isPlainB c = true)
    (hd : ¬ (st.prev = 46 ∧ c = 46)) :
    parseLoop (c :: rest) st =
      parseLoop rest { i := st.i + 1, buf := c :: st.buf, prev := c, icq := false, isq := st.isq } := by
  rw [parseLoop]
  by_cases h1 : (isAlphaB c || isDigitB c || isSpecialB c) = true
  · simp [h1]
  · have h46 : c = 46 := by
      simp only [isPlainB, Bool.or_eq_true, beq_iff_eq] at hp
      rcases hp with hp | hp
      · exact absurd (by simpa [Bool.or_eq_true] using hp) h1
      · exact hp
    have hpv : st.prev ≠ 46 := fun h => hd ⟨h, h46⟩
    simp [h46, hpv]

/-- `parseLoop` copies a plain prefix without two consecutive periods -/
theorem parseLoop_plain (s t : Bytes) (st : PState) (hp : ∀ c ∈ s, isPlainB c = true)
    (hd : hasDotDot (st.prev :: s) = false) (hq : st.icq = false) :
    parseLoop (s ++ t) st = parseLoop t
      { i := st.i + s.length, buf := s.reverse ++ st.buf, prev := (s.getLast?).getD st.prev,
        icq := false, isq := st.isq } := by
  induction s generalizing st with
  | nil => cases st; simp_all
  | cons c rest ih =>
    rw [hasDotDot_cons2] at hd
    simp only [Bool.or_eq_false_iff, Bool.and_eq_false_iff, beq_eq_false_iff_ne] at hd
    have hstep : ¬ (st.prev = 46 ∧ c = 46) := by omega
    rw [List.cons_append, parseLoop_plain_step c _ st (hp c (by simp)) hstep]
    rw [ih _ (fun x hx => hp x (by simp [hx])) hd.2 rfl]
    congr 2
    · simp; omega
    · simp
    · simp [List.getLast?_cons]

/-- a plain string without "..", to the end of the input: copied, no domain -/
theorem parseLoop_plain_end (s : Bytes) (st : PState) (hp : ∀ c ∈ s, isPlainB c = true)
    (hd : hasDotDot (st.prev :: s) = false) (hq : st.icq = false) (hs : st.isq = false) :
    parseLoop s st = some (st.buf.reverse ++ s, []) := by
  have h := parseLoop_plain s [] st hp hd hq
  rw [List.append_nil] at h
  rw [h, parseLoop]; simp [hs]

/-- a plain string followed by an unquoted '@': the loop stops there -/
theorem parseLoop_plain_at (s d : Bytes) (st : PState) (hp : ∀ c ∈ s, isPlainB c = true)
    (hd : hasDotDot (st.prev :: s) = false) (hq : st.icq = false) (hs : st.isq = false)
    (hi : st.i + s.length ≤ 128) (hl : (s.getLast?).getD st.prev ≠ 46) :
    parseLoop (s ++ 64 :: d) st = some (st.buf.reverse ++ s, d) := by
  rw [parseLoop_plain s _ st hp hd hq, parseLoop]
  have hi' : ¬ (st.i + s.length > 128) := by omega
  simp [hs, hi', hl, isAlphaB, isLowerB, isUpperB, isDigitB, isSpecialB]

theorem takeWhile_eq_self {p : Nat → Bool} (l : Bytes) (h : ∀ c ∈ l, p c = true) :
    l.takeWhile p = l := by
  induction l with
  | nil => rfl
  | cons c r ih => simp [List.takeWhile, h c (by simp), ih (fun x hx => h x (by simp [hx]))]

theorem lower_eq_self (l : Bytes) (h : ∀ c ∈ l, lowerB c = c) : lower l = l := by
  induction l with
  | nil => rfl
  | cons c r ih => simp [h c (by simp), ih (fun x hx => h x (by simp [hx]))]

/-- `parseMailboxName` is the identity on a non-empty string over its own output alphabet -/
theorem parseMailboxName_id (n : Bytes) (hne : n ≠ []) (hn : ∀ c ∈ n, isNameB c = true) :
    parseMailboxName n = some n := by
  have hl : lower n = n := lower_eq_self n (fun c hc => isNameB_lower (hn c hc))
  have hall : n.all nameCharOk = true := by
    rw [List.all_eq_true]; exact fun c hc => isNameB_charOk (hn c hc)
  have htw : n.takeWhile (· != 43) = n :=
    takeWhile_eq_self n (fun c hc => by simpa using (isNameB_ne (hn c hc)).1)
  unfold parseMailboxName
  simp [hne, hl, hall, htw]

theorem mem_takeWhile {p : Nat → Bool} {l : Bytes} {c : Nat} (h : c ∈ l.takeWhile p) :
    c ∈ l ∧ p c = true := by
  induction l with
  | nil => simp at h
  | cons a r ih =>
    rw [List.takeWhile] at h
    split at h
    · rename_i hp
      rcases List.mem_cons.mp h with rfl | h
      · exact ⟨by simp, hp⟩
      · exact ⟨by simp [(ih h).1], (ih h).2⟩
    · simp at h

theorem takeWhile_length_le {p : Nat → Bool} (l : Bytes) : (l.takeWhile p).length ≤ l.length := by
  induction l with
  | nil => simp
  | cons a r ih => rw [List.takeWhile]; split <;> simp <;> omega

/-- what `parseMailboxName` returns: the lower-cased input up to the first '+', all bytes in the
    output alphabet -/
theorem parseMailboxName_out {l n : Bytes} (h : parseMailboxName l = some n) :
    l ≠ [] ∧ n = (lower l).takeWhile (· != 43) ∧ (∀ c ∈ n, isNameB c = true) ∧ n.length ≤ l.length := by
  unfold parseMailboxName at h
  split at h
  · simp at h
  · rename_i hne
    simp only at h
    split at h
    · rename_i hall
      injection h with h
      subst h
      refine ⟨by simpa using hne, rfl, ?_, ?_⟩
      · intro c hc
        have ⟨hm, hp⟩ := mem_takeWhile hc
        rw [List.all_eq_true] at hall
        simp only [isNameB, hall c hm, Bool.true_and]; exact hp
      · exact Nat.le_trans (takeWhile_length_le _) (by simp)
    · simp at h

end Ibx.Lemmas.AddrName
