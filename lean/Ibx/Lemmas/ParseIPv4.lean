import Ibx.Model.ParseIP
/-
  Helper lemmas for the net.ParseIP model, part 3: which dotted quads `parseIPv4Fields` accepts.
-/
namespace Ibx.Lemmas.ParseIPv4
open Ibx Ibx.Bytes Ibx.Model.ParseIP

/-- decimal value of a digit string -/
def decVal (f : Bytes) : Nat := f.foldl (fun a c => a * 10 + (c - 48)) 0

/-- one IPv4 field as the code accepts it: a non-empty digit string, no leading zero unless it is "0" itself,
    value at most 255 -/
def octetB (f : Bytes) : Bool :=
  !f.isEmpty && f.all isDigitB && (f.head? != some 48 || f.length == 1) && decide (decVal f ≤ 255)

theorem decVal_snoc (a : Bytes) (c : Nat) : decVal (a ++ [c]) = decVal a * 10 + (c - 48) := by
  simp [decVal, List.foldl_append]

theorem foldl_ge (f : Bytes) (acc : Nat) : acc ≤ f.foldl (fun a c => a * 10 + (c - 48)) acc := by
  induction f generalizing acc with
  | nil => exact Nat.le_refl _
  | cons c r ih => exact Nat.le_trans (by omega) (ih (acc * 10 + (c - 48)))

/-- a field the code accepts has at most three digits -/
theorem octet_length {f : Bytes} (h : octetB f = true) : 1 ≤ f.length ∧ f.length ≤ 3 := by
  simp only [octetB, Bool.and_eq_true, Bool.or_eq_true, decide_eq_true_eq, List.all_eq_true, bne_iff_ne,
    beq_iff_eq] at h
  obtain ⟨⟨⟨hne, hd⟩, hz⟩, hv⟩ := h
  match f, hne, hd, hz, hv with
  | [], hne, _, _, _ => simp at hne
  | [_], _, _, _, _ => simp
  | [_, _], _, _, _, _ => simp
  | [_, _, _], _, _, _, _ => simp
  | c0 :: c1 :: c2 :: c3 :: r, _, hd, hz, hv =>
    exfalso
    have h0 := hd c0 (by simp)
    have h1 := hd c1 (by simp)
    have h2 := hd c2 (by simp)
    have h3 := hd c3 (by simp)
    simp only [isDigitB, Bool.and_eq_true, decide_eq_true_eq] at h0 h1 h2 h3
    have hc0 : c0 ≠ 48 := by
      rcases hz with hz | hz
      · simpa using hz
      · simp at hz
    have := foldl_ge r ((((0 * 10 + (c0 - 48)) * 10 + (c1 - 48)) * 10 + (c2 - 48)) * 10 + (c3 - 48))
    simp only [decVal, List.foldl_cons] at hv
    omega

theorem rev_ind {motive : Bytes → Prop} (nil : motive [])
    (append_singleton : ∀ a c, motive a → motive (a ++ [c])) (a : Bytes) : motive a := by
  have h : ∀ r : Bytes, motive r.reverse := by
    intro r
    induction r with
    | nil => exact nil
    | cons c r ih => rw [List.reverse_cons]; exact append_singleton _ _ ih
  rw [← List.reverse_reverse a]; exact h _

structure Fresh (st : V4St) : Prop where
  val : st.val = 0
  dig : st.digLen = 0
  prev : st.prev = none ∨ st.prev = some 46

/-- the state after the digits `a` of one field -/
def after (st : V4St) (a : Bytes) : V4St :=
  { st with val := decVal a, digLen := a.length, prev := a.getLast? }

theorem octetB_single {c : Nat} (hc : isDigitB c = true) : octetB [c] = true := by
  simp only [isDigitB, Bool.and_eq_true, decide_eq_true_eq] at hc
  simp [octetB, decVal, isDigitB]
  omega

/-- what the loop does with the digits of one field, starting from a fresh state -/
theorem v4Loop_digits (a rest : Bytes) (st : V4St) (hf : Fresh st) (ha : ∀ c ∈ a, isDigitB c = true) :
    v4Loop (a ++ rest) st =
      if a = [] then v4Loop rest st else if octetB a then v4Loop rest (after st a) else none := by
  induction a using rev_ind generalizing rest with
  | nil => simp
  | append_singleton a c ih =>
    have hc : isDigitB c = true := ha c (by simp)
    have ha' : ∀ x ∈ a, isDigitB x = true := fun x hx => ha x (by simp [hx])
    have hcr := hc
    simp only [isDigitB, Bool.and_eq_true, decide_eq_true_eq] at hcr
    rw [List.append_assoc, ih _ ha']
    simp only [List.singleton_append]
    by_cases hnil : a = []
    · subst hnil
      obtain ⟨h1, h2, _⟩ := hf
      simp only [if_true, List.nil_append, List.cons_ne_nil, if_false, octetB_single hc]
      simp only [v4Loop, hc, if_true, h1, h2]
      have : ¬ (0 * 10 + (c - 48) > 255) := by omega
      simp only [this, if_false]
      simp [after, decVal]
    · simp only [hnil, if_false, List.append_eq_nil_iff, false_and]
      by_cases ho : octetB a = true
      · simp only [ho, if_true]
        have ho' := ho
        simp only [octetB, Bool.and_eq_true, Bool.or_eq_true, decide_eq_true_eq, List.all_eq_true, bne_iff_ne,
          beq_iff_eq] at ho'
        obtain ⟨⟨⟨_, _⟩, hz⟩, hv⟩ := ho'
        simp only [v4Loop, hc, if_true, after]
        by_cases hlz : (a.length == 1 && decVal a == 0) = true
        · -- the field read so far is "0": one more digit is a leading zero
          simp only [hlz, if_true]
          have : octetB (a ++ [c]) = false := by
            simp only [Bool.and_eq_true, beq_iff_eq] at hlz
            match a, hlz with
            | [d], ⟨_, hd0⟩ =>
              have hdd := ha' d (by simp)
              simp only [isDigitB, Bool.and_eq_true, decide_eq_true_eq] at hdd
              simp only [decVal, List.foldl_cons, List.foldl_nil] at hd0
              have : d = 48 := by omega
              subst this
              simp [octetB]
          simp [this]
        · simp only [hlz, Bool.false_eq_true, if_false]
          have hsn := decVal_snoc a c
          by_cases hbig : decVal a * 10 + (c - 48) > 255
          · simp only [hbig, if_true]
            have : octetB (a ++ [c]) = false := by
              simp only [octetB, Bool.and_eq_false_iff, decide_eq_false_iff_not]
              right; omega
            simp [this]
          · simp only [hbig, if_false]
            have : octetB (a ++ [c]) = true := by
              simp only [octetB, Bool.and_eq_true, Bool.or_eq_true, decide_eq_true_eq, List.all_eq_true,
                bne_iff_ne, beq_iff_eq]
              refine ⟨⟨⟨by simp, ?_⟩, ?_⟩, by omega⟩
              · intro x hx
                rcases List.mem_append.mp hx with hx | hx
                · exact ha' x hx
                · simp at hx; subst hx; exact hc
              · left
                cases a with
                | nil => exact absurd rfl hnil
                | cons d r =>
                  simp only [List.cons_append, List.head?_cons, ne_eq, Option.some.injEq]
                  intro hd
                  subst hd
                  rcases hz with hz | hz
                  · simp at hz
                  · simp only [List.length_cons] at hz
                    have hr : r = [] := by cases r with | nil => rfl | cons _ _ => simp at hz
                    subst hr
                    simp [decVal] at hlz
            simp only [this, if_true]
            congr 1
            simp [List.getLast?_append, hsn]
      · have ho1 : octetB a = false := by simpa using ho
        simp only [ho1, Bool.false_eq_true, if_false]
        have : octetB (a ++ [c]) = false := by
          simp only [octetB, Bool.and_eq_false_iff, Bool.or_eq_false_iff, decide_eq_false_iff_not,
            bne_eq_false_iff_eq, beq_eq_false_iff_ne] at ho1 ⊢
          rcases ho1 with ((h | h) | h) | h
          · simp at h; exact absurd h hnil
          · exfalso
            have : a.all isDigitB = true := by simpa using ha'
            rw [this] at h; cases h
          · left; right
            cases a with
            | nil => exact absurd rfl hnil
            | cons d r =>
              simp only [List.cons_append, List.head?_cons, List.length_cons, List.length_append] at h ⊢
              exact ⟨h.1, by simp⟩
          · right
            rw [decVal_snoc]; omega
        simp [this]

theorem octetB_inv {a : Bytes} (h : octetB a = true) :
    a ≠ [] ∧ (∀ c ∈ a, isDigitB c = true) ∧ ∃ d, a.getLast? = some d ∧ isDigitB d = true := by
  simp only [octetB, Bool.and_eq_true, List.all_eq_true] at h
  obtain ⟨⟨⟨hne, hd⟩, _⟩, _⟩ := h
  have hne' : a ≠ [] := by intro h0; subst h0; simp at hne
  refine ⟨hne', hd, a.getLast hne', List.getLast?_eq_some_getLast hne', hd _ (List.getLast_mem hne')⟩

/-- the last field: digits, then the end of the text -/
theorem v4Loop_last (a : Bytes) (st : V4St) (hf : Fresh st) (ho : octetB a = true) :
    v4Loop a st = if st.pos < 3 then none else some (st.fields ++ [decVal a]) := by
  obtain ⟨hne, hd, _⟩ := octetB_inv ho
  have := v4Loop_digits a [] st hf hd
  rw [List.append_nil] at this
  rw [this]
  simp only [hne, if_false, ho, if_true, v4Loop, after]
  rfl

/-- a field followed by a period -/
theorem v4Loop_field (a s' : Bytes) (st : V4St) (hf : Fresh st) (ho : octetB a = true) :
    v4Loop (a ++ 46 :: s') st =
      if s'.isEmpty || st.pos == 3 then none
      else v4Loop s' { val := 0, digLen := 0, pos := st.pos + 1, prev := some 46, fields := st.fields ++ [decVal a] } := by
  obtain ⟨hne, hd, d, hl, hdd⟩ := octetB_inv ho
  rw [v4Loop_digits a _ st hf hd]
  simp only [hne, if_false, ho, if_true, v4Loop, after, hl]
  have h46 : d ≠ 46 := by
    intro h; subst h; simp [isDigitB] at hdd
  simp only [show isDigitB 46 = false from rfl, Bool.false_eq_true, if_false, beq_self_eq_true, if_true]
  have e1 : (some d == (none : Option Nat)) = false := rfl
  have e2 : (some d == some 46) = false := by simpa using h46
  simp only [e1, e2, Bool.false_or, Bool.or_false]
  cases hs : s'.isEmpty <;> simp

theorem span_digits (s : Bytes) : ∃ a rest, s = a ++ rest ∧ (∀ c ∈ a, isDigitB c = true) ∧
    (rest = [] ∨ ∃ c r, rest = c :: r ∧ isDigitB c = false) := by
  induction s with
  | nil => exact ⟨[], [], rfl, by simp, .inl rfl⟩
  | cons c r ih =>
    by_cases hc : isDigitB c = true
    · obtain ⟨a, rest, h1, h2, h3⟩ := ih
      refine ⟨c :: a, rest, by rw [h1]; rfl, ?_, h3⟩
      intro x hx
      rcases List.mem_cons.mp hx with rfl | hx
      · exact hc
      · exact h2 x hx
    · exact ⟨[], c :: r, rfl, by simp, .inr ⟨c, r, rfl, by simpa using hc⟩⟩

/-- one field of a successful run: digits forming an accepted field, then the end (fourth field) or a period
    followed by more text (first three fields) -/
theorem v4Loop_inv {s : Bytes} {st : V4St} {f : List Nat} (hf : Fresh st) (hne : s ≠ [])
    (h : v4Loop s st = some f) :
    ∃ a rest, s = a ++ rest ∧ octetB a = true ∧
      ((rest = [] ∧ 3 ≤ st.pos ∧ f = st.fields ++ [decVal a]) ∨
       (∃ s', rest = 46 :: s' ∧ s' ≠ [] ∧ st.pos ≠ 3 ∧
          v4Loop s' { val := 0, digLen := 0, pos := st.pos + 1, prev := some 46,
                      fields := st.fields ++ [decVal a] } = some f)) := by
  obtain ⟨a, rest, rfl, hd, hrest⟩ := span_digits s
  rw [v4Loop_digits a rest st hf hd] at h
  by_cases ha : a = []
  · subst ha
    simp only [if_true] at h
    exfalso
    rcases hrest with rfl | ⟨c, r, rfl, hc⟩
    · exact hne rfl
    · obtain ⟨_, _, hp⟩ := hf
      simp only [v4Loop, hc, Bool.false_eq_true, if_false] at h
      split at h
      · rcases hp with hp | hp <;> simp [hp] at h
      · cases h
  · simp only [ha, if_false] at h
    by_cases ho : octetB a = true
    · simp only [ho, if_true] at h
      refine ⟨a, rest, rfl, ho, ?_⟩
      rcases hrest with rfl | ⟨c, r, rfl, hc⟩
      · left
        simp only [v4Loop, after] at h
        by_cases hp : st.pos < 3
        · simp [hp] at h
        · simp only [hp, if_false, Option.some.injEq] at h
          exact ⟨rfl, by omega, h.symm⟩
      · right
        by_cases h46 : c = 46
        · subst h46
          have := v4Loop_field a r st hf ho
          rw [v4Loop_digits a _ st hf hd] at this
          simp only [ha, if_false, ho, if_true] at this
          rw [this] at h
          split at h
          · cases h
          · rename_i hcond
            simp only [Bool.or_eq_true, List.isEmpty_iff, beq_iff_eq, not_or] at hcond
            exact ⟨r, rfl, hcond.1, hcond.2, h⟩
        · have : (c == 46) = false := by simpa using h46
          simp [v4Loop, hc, this] at h
    · have : octetB a = false := by simpa using ho
      simp [this] at h

theorem fresh0 : Fresh {} := ⟨rfl, rfl, .inl rfl⟩

theorem freshNext (p : Nat) (fs : List Nat) :
    Fresh { val := 0, digLen := 0, pos := p, prev := some 46, fields := fs } := ⟨rfl, rfl, .inr rfl⟩

/-- exactly the dotted quads of four accepted fields parse, to the four values -/
theorem parseIPv4Fields_iff (s : Bytes) (f : List Nat) :
    parseIPv4Fields s = some f ↔
      ∃ a b c d, s = a ++ 46 :: (b ++ 46 :: (c ++ 46 :: d)) ∧ octetB a = true ∧ octetB b = true ∧
        octetB c = true ∧ octetB d = true ∧ f = [decVal a, decVal b, decVal c, decVal d] := by
  constructor
  · intro h
    unfold parseIPv4Fields at h
    have hne : s ≠ [] := by intro h0; subst h0; simp [v4Loop] at h
    obtain ⟨a, r1, rfl, ha, h1⟩ := v4Loop_inv fresh0 hne h
    rcases h1 with ⟨_, hp, _⟩ | ⟨s1, rfl, hne1, _, h1⟩
    · simp at hp
    obtain ⟨b, r2, rfl, hb, h2⟩ := v4Loop_inv (freshNext _ _) hne1 h1
    rcases h2 with ⟨_, hp, _⟩ | ⟨s2, rfl, hne2, _, h2⟩
    · simp at hp
    obtain ⟨c, r3, rfl, hc, h3⟩ := v4Loop_inv (freshNext _ _) hne2 h2
    rcases h3 with ⟨_, hp, _⟩ | ⟨s3, rfl, hne3, _, h3⟩
    · simp at hp
    obtain ⟨d, r4, rfl, hd, h4⟩ := v4Loop_inv (freshNext _ _) hne3 h3
    rcases h4 with ⟨rfl, _, hf⟩ | ⟨s4, _, _, hp, _⟩
    · exact ⟨a, b, c, d, by simp, ha, hb, hc, hd, by simpa using hf⟩
    · simp at hp
  · rintro ⟨a, b, c, d, rfl, ha, hb, hc, hd, rfl⟩
    have hb' := (octetB_inv hb).1
    have hc' := (octetB_inv hc).1
    have hd' := (octetB_inv hd).1
    have e : ∀ (x : Bytes) (n : Nat), x ≠ [] → n ≠ 3 → (x.isEmpty || n == 3) = false := by
      intro x n hx hn
      cases x with
      | nil => exact absurd rfl hx
      | cons _ _ => simpa using hn
    unfold parseIPv4Fields
    rw [v4Loop_field a _ _ fresh0 ha, e _ _ (by simp) (by decide)]
    simp only [Bool.false_eq_true, if_false]
    rw [v4Loop_field b _ _ (freshNext _ _) hb, e _ _ (by simp) (by simp)]
    simp only [Bool.false_eq_true, if_false]
    rw [v4Loop_field c _ _ (freshNext _ _) hc, e _ _ hd' (by simp)]
    simp only [Bool.false_eq_true, if_false]
    rw [v4Loop_last d _ (freshNext _ _) hd]
    simp

/-- an accepted dotted quad has at most 15 bytes, all of them digits or periods -/
theorem parseIPv4Fields_bytes {s : Bytes} {f : List Nat} (h : parseIPv4Fields s = some f) :
    s.length ≤ 15 ∧ (∀ x ∈ s, isDigitB x = true ∨ x = 46) ∧ f.length = 4 ∧ ∀ v ∈ f, v ≤ 255 := by
  obtain ⟨a, b, c, d, rfl, ha, hb, hc, hd, rfl⟩ := (parseIPv4Fields_iff s f).mp h
  have la := octet_length ha
  have lb := octet_length hb
  have lc := octet_length hc
  have ld := octet_length hd
  refine ⟨by simp; omega, ?_, rfl, ?_⟩
  · intro x hx
    simp only [List.mem_append, List.mem_cons] at hx
    rcases hx with hx | rfl | hx | rfl | hx | rfl | hx
    · exact .inl ((octetB_inv ha).2.1 x hx)
    · exact .inr rfl
    · exact .inl ((octetB_inv hb).2.1 x hx)
    · exact .inr rfl
    · exact .inl ((octetB_inv hc).2.1 x hx)
    · exact .inr rfl
    · exact .inl ((octetB_inv hd).2.1 x hx)
  · intro v hv
    simp only [octetB, Bool.and_eq_true, decide_eq_true_eq] at ha hb hc hd
    simp only [List.mem_cons, List.not_mem_nil, or_false] at hv
    rcases hv with rfl | rfl | rfl | rfl
    · exact ha.2
    · exact hb.2
    · exact hc.2
    · exact hd.2

end Ibx.Lemmas.ParseIPv4
