import Ibx.Model.Pop3Conc
import Ibx.Lemmas.Pop3
import Ibx.Lemmas.SpecStore
/-
  Helper lemmas for Props/C19Pop.lean and Props/C13Conc.lean: what `RemoveMessage`, `processDeletes` and one client
  step do to the shared store, and what one step of the composed system does to each thread.
-/
namespace Ibx.Lemmas.Pop3Conc
open Ibx Ibx.Spec.Store Ibx.Lemmas.SpecStore
open Ibx.Model Ibx.Model.Pop3Conc Ibx.Model.Shutdown

/-! ### RemoveMessage -/

/-- the message `m` is the one the id string `id` names in mailbox `u` -/
def names (e : Env) (u id : Bytes) (m : Msg) : Bool := m.box == u && e.ids.dec id == some m.id

theorem removeMessage_msgs (e : Env) (u id : Bytes) (s : Store) :
    (removeMessage e u id s).1.msgs = s.msgs.filter (fun m => !names e u id m) ∧
    (removeMessage e u id s).1.next = s.next := by
  unfold removeMessage
  cases hd : e.ids.dec id with
  | none =>
    refine ⟨?_, rfl⟩
    simp only [names, hd]
    exact (List.filter_eq_self.2 (fun _ _ => by simp)).symm
  | some n =>
    obtain ⟨h1, h2, _⟩ := step_remove_msgs e.store s u n
    refine ⟨?_, h2⟩
    simp only [h1]
    apply List.filter_congr
    intro m _
    simp only [names, hd, isMsg]
    have hc : (n == m.id) = (m.id == n) := by
      rw [Bool.eq_iff_iff, beq_iff_eq, beq_iff_eq]; exact eq_comm
    by_cases hb : m.box = u <;> simp [hb, hc]

/-- the flag a call returns: the message was there -/
theorem removeMessage_ok (e : Env) (u id : Bytes) (s : Store) :
    (removeMessage e u id s).2 = s.msgs.any (names e u id) := by
  unfold removeMessage
  cases hd : e.ids.dec id with
  | none => simp [names, hd]
  | some n =>
    have hany : s.msgs.any (names e u id) = s.msgs.any (isMsg u n) := by
      congr 1; funext m
      simp only [names, hd, isMsg]
      have hc : (n == m.id) = (m.id == n) := by
        rw [Bool.eq_iff_iff, beq_iff_eq, beq_iff_eq]; exact eq_comm
      by_cases hb : m.box = u <;> simp [hb, hc]
    rw [hany]
    by_cases h : s.msgs.any (isMsg u n) = true
    · simp only [step, h, if_true]
    · simp only [step, h]
      simp

/-! ### processDeletes -/

/-- whatever the variant: the store afterwards is the store before without the messages named by the calls that
    were MADE; the counters are untouched -/
theorem processDeletes_msgs (e : Env) (u : Bytes) (rm : List Bytes) (s : Store) :
    (processDeletes e u rm s).1.msgs =
      s.msgs.filter (fun m => !(calls (processDeletes e u rm s).2).any (fun id => names e u id m)) ∧
    (processDeletes e u rm s).1.next = s.next := by
  induction rm generalizing s with
  | nil =>
    refine ⟨?_, rfl⟩
    simp only [processDeletes, calls, List.any_nil, Bool.not_false]
    exact (List.filter_eq_self.2 (fun _ _ => rfl)).symm
  | cons id rest ih =>
    obtain ⟨h1, h2⟩ := removeMessage_msgs e u id s
    have hgo : (processDeletes e u rest (removeMessage e u id s).1).1.msgs =
        s.msgs.filter (fun m => !(id :: calls (processDeletes e u rest (removeMessage e u id s).1).2).any (fun id => names e u id m)) ∧
        (processDeletes e u rest (removeMessage e u id s).1).1.next = s.next := by
      rw [(ih _).1, (ih _).2, h1, h2, List.filter_filter]
      refine ⟨List.filter_congr ?_, rfl⟩
      intro m _
      simp only [List.any_cons, Bool.not_or, Bool.and_comm]
    simp only [processDeletes]
    split
    · simpa [calls] using hgo
    · split
      · simpa [calls] using hgo
      · refine ⟨?_, h2⟩
        simp only [calls, List.any_cons, List.any_nil, Bool.or_false]
        exact h1

/-- the calls made are a prefix of the ids handed over … -/
theorem calls_prefix (e : Env) (u : Bytes) (rm : List Bytes) (s : Store) :
    calls (processDeletes e u rm s).2 <+: rm := by
  induction rm generalizing s with
  | nil => simp [processDeletes, calls]
  | cons id rest ih =>
    simp only [processDeletes]
    split
    · simpa [calls] using ih _
    · split
      · simpa [calls] using ih _
      · simp [calls]

/-- … and ALL of them when the loop goes on after a failure -/
theorem calls_goesOn (e : Env) (he : e.loop = .goesOn) (u : Bytes) (rm : List Bytes) (s : Store) :
    calls (processDeletes e u rm s).2 = rm := by
  induction rm generalizing s with
  | nil => simp [processDeletes, calls]
  | cons id rest ih =>
    simp only [processDeletes, he]
    split <;> simp [calls, ih]

/-- `processDeletes` issues nothing but `RemoveMessage` calls -/
theorem processDeletes_outs (e : Env) (u : Bytes) (rm : List Bytes) (s : Store) :
    ∀ o ∈ (processDeletes e u rm s).2, ∃ id ok, o = .removeCall id ok ∧ id ∈ rm := by
  induction rm generalizing s with
  | nil => simp [processDeletes]
  | cons id rest ih =>
    intro o ho
    simp only [processDeletes] at ho
    split at ho
    · simp only [List.mem_cons] at ho
      rcases ho with rfl | ho
      · exact ⟨id, true, rfl, List.mem_cons_self⟩
      · obtain ⟨i, k, h1, h2⟩ := ih _ o ho
        exact ⟨i, k, h1, List.mem_cons_of_mem _ h2⟩
    · split at ho
      · simp only [List.mem_cons] at ho
        rcases ho with rfl | ho
        · exact ⟨id, false, rfl, List.mem_cons_self⟩
        · obtain ⟨i, k, h1, h2⟩ := ih _ o ho
          exact ⟨i, k, h1, List.mem_cons_of_mem _ h2⟩
      · simp only [List.mem_singleton] at ho
        exact ⟨id, false, ho, List.mem_cons_self⟩

theorem processDeletes_nil (e : Env) (u : Bytes) (s : Store) : processDeletes e u [] s = (s, []) := rfl

/-! ### one client step -/

/-- the line is a QUIT command (any letter case, any arguments) -/
def isQuitLine (l : Bytes) : Prop := ∃ args, Pop3.parseCmd l = some (Pop3.kQUIT, args)

theorem verbOf_quit (cmd : Bytes) (h : Pop3.verbOf cmd = some .quit) : cmd = Pop3.kQUIT := by
  unfold Pop3.verbOf at h
  have : ∀ (l : List (Bytes × Pop3.Verb)), l.lookup cmd = some .quit → ∃ k, (k, Pop3.Verb.quit) ∈ l ∧ cmd = k := by
    intro l
    induction l with
    | nil => simp [List.lookup]
    | cons p l ih =>
      obtain ⟨k, v⟩ := p
      simp only [List.lookup]
      split
      · rename_i hk
        intro hv
        simp at hv
        exact ⟨k, by simp [hv], by simpa using hk⟩
      · intro hv
        obtain ⟨k', h1, h2⟩ := ih hv
        exact ⟨k', List.mem_cons_of_mem _ h1, h2⟩
  obtain ⟨k, hk, rfl⟩ := this _ h
  simp [Pop3.commands] at hk
  exact hk

/-- every TRANSACTION command other than QUIT leaves the session in TRANSACTION -/
theorem transH_phase (s : Pop3.St) (v : Pop3.Verb) (args : List Bytes) (s' : Pop3.St) (r : Pop3.Reply) (rm : List Bytes)
    (h : Pop3.transH s v args = .ok s' r rm) (hv : v ≠ .quit) : s'.phase = s.phase := by
  cases v <;> simp only [Pop3.transH] at h
  case quit => exact absurd rfl hv
  case stat =>
    unfold Pop3.cmdStat at h
    split at h
    · cases h; rfl
    · split at h
      · cases h
      · cases h; rfl
  case list =>
    unfold Pop3.cmdList at h
    repeat' split at h
    all_goals first | (cases h; rfl) | cases h
  case uidl =>
    unfold Pop3.cmdUidl at h
    repeat' split at h
    all_goals first | (cases h; rfl) | cases h
  case dele =>
    unfold Pop3.cmdDele at h
    repeat' split at h
    all_goals first | (cases h; rfl) | cases h
  case retr =>
    unfold Pop3.cmdRetr at h
    repeat' split at h
    all_goals first | (cases h; rfl) | cases h
  case top =>
    unfold Pop3.cmdTop at h
    repeat' split at h
    all_goals first | (cases h; rfl) | cases h
  case noop => cases h; rfl
  case rset => cases h; rfl
  all_goals (cases h; rfl)

/-- a loop iteration that takes a session from TRANSACTION to QUIT processed a QUIT line -/
theorem trans_to_quit_is_quit (store : Bytes → List Pop3.Msg) (s : Pop3.St) (l : Bytes) (s' : Pop3.St) (r : Pop3.Reply)
    (rm : List Bytes) (hs : Pop3.step store s l = .ok s' r rm) (ht : s.phase = .trans) (hq : s'.phase = .quit) :
    isQuitLine l := by
  obtain ⟨cmd, args, hpc⟩ := Ibx.Lemmas.Pop3.parseCmd_isSome l
  unfold Pop3.step at hs
  simp only [hpc] at hs
  have no : s.phase ≠ .quit := by rw [ht]; decide
  split at hs
  · cases hs; exact absurd hq no
  · split at hs
    · cases hs; exact absurd hq no
    · cases hv : Pop3.verbOf cmd with
      | none => simp only [hv] at hs; cases hs; exact absurd hq no
      | some v =>
        simp only [hv, ht] at hs
        by_cases hvq : v = .quit
        · subst hvq
          exact ⟨args, by rw [hpc, verbOf_quit cmd hv]⟩
        · have := transH_phase s v args s' r rm hs hvq
          rw [this] at hq
          exact absurd hq no

theorem clientStep_call (e : Env) (c : Client) (s : Store) (op : Op) :
    clientStep e c s (.call op) = (c, (step e.store s op).1, [.answer (step e.store s op).2.1]) := rfl

/-- a line that arrives after the command loop has ended is never read -/
theorem clientStep_idle (e : Env) (c : Client) (s : Store) (l : Bytes) (ok : Bool)
    (h : c.over = true ∨ c.st.phase = .quit) : clientStep e c s (.line l ok) = (c, s, []) := by
  unfold clientStep
  rcases h with h | h <;> simp [h]

/-- a line read by a running session: always a reply (never a panic), and what the step is made of -/
theorem clientStep_live (e : Env) (c : Client) (s : Store) (l : Bytes) (ok : Bool) (hi : Ibx.Lemmas.Pop3.Inv c.st)
    (ho : c.over = false) (hq : c.st.phase ≠ .quit) :
    ∃ s' r rm, Pop3.step (Sys.popView e.ids s) c.st l = .ok s' r rm ∧
      ((c.st.phase = .auth ∧ Ibx.Lemmas.Pop3.AuthPost (Sys.popView e.ids s) c.st s' r rm) ∨
       (c.st.phase = .trans ∧ Ibx.Lemmas.Pop3.TransPost c.st s' r rm)) ∧
      clientStep e c s (.line l ok) =
        ({ st := s', over := !ok }, (processDeletes e s'.user rm s).1, .reply r :: (processDeletes e s'.user rm s).2) := by
  obtain ⟨s', r, rm, hs, post⟩ := Ibx.Lemmas.Pop3.step_ok (Sys.popView e.ids s) c.st hi hq l
  refine ⟨s', r, rm, hs, post, ?_⟩
  unfold clientStep
  have : (c.st.phase == Pop3.Phase.quit) = false := by simpa using hq
  simp only [ho, this, Bool.or_self, hs]
  rfl

/-! ### the composed system, one event at a time -/

theorem run_nil (e : Env) (w : World) : run e w [] = w := rfl

theorem run_cons (e : Env) (w : World) (ev : Sess.Ev) (evs : List Sess.Ev) :
    run e w (ev :: evs) = run e (Sess.exec1 (prog e) w ev) evs := rfl

theorem run_append (e : Env) (w : World) (a b : List Sess.Ev) : run e w (a ++ b) = run e (run e w a) b := by
  simp [Pop3Conc.run, Sess.exec, List.foldl_append]

theorem exec1_cancel (e : Env) (w : World) :
    (Sess.exec1 (prog e) w .cancel).store = w.store ∧ (Sess.exec1 (prog e) w .cancel).threads = w.threads := ⟨rfl, rfl⟩

theorem exec1_closeL (e : Env) (w : World) :
    (Sess.exec1 (prog e) w .closeL).store = w.store ∧ (Sess.exec1 (prog e) w .closeL).threads = w.threads := by
  simp only [Sess.exec1]; split <;> exact ⟨rfl, rfl⟩

theorem exec1_sess_none (e : Env) (w : World) (i : Nat) (h : w.threads[i]? = none) :
    (Sess.exec1 (prog e) w (.sess i)).store = w.store ∧ (Sess.exec1 (prog e) w (.sess i)).threads = w.threads := by
  simp [Sess.exec1, Sess.sessStep, h]

theorem exec1_sess_done (e : Env) (w : World) (i : Nat) (t : Thread) (h : w.threads[i]? = some t) (hin : t.input = []) :
    (Sess.exec1 (prog e) w (.sess i)).store = w.store ∧ (Sess.exec1 (prog e) w (.sess i)).threads = w.threads := by
  simp [Sess.exec1, Sess.sessStep, h, hin]

/-- client `i` does its next unit `x` -/
theorem exec1_sess_step (e : Env) (w : World) (i : Nat) (t : Thread) (x : In) (rest : List In)
    (h : w.threads[i]? = some t) (hin : t.input = x :: rest) :
    (Sess.exec1 (prog e) w (.sess i)).store = (clientStep e t.st w.store x).2.1 ∧
    (Sess.exec1 (prog e) w (.sess i)).threads =
      w.threads.set i { st := (clientStep e t.st w.store x).1, input := rest,
                        replies := t.replies ++ (clientStep e t.st w.store x).2.2 } := by
  simp [Sess.exec1, Sess.sessStep, h, hin, prog]

/-! ### the invariant of the composed system -/

/-- the ids of a logged-in session's snapshot, as the store reads them, had all been handed out when the snapshot was
    taken: none exceeds `B` -/
def SnapBelow (e : Env) (B : Nat) (s : Pop3.St) : Prop :=
  s.phase = .trans → ∀ x ∈ s.msgs, ∀ n, e.ids.dec x.id = some n → n ≤ B

/-- the store is a reachable `Spec.Store` (ids ascending per mailbox, none above the mailbox counter), every session
    satisfies the session invariant of C13, and no snapshot holds an id the store has not yet handed out -/
structure Good (e : Env) (w : World) : Prop where
  store : Ibx.Lemmas.SpecStore.Inv w.store
  sess : ∀ t ∈ w.threads, Ibx.Lemmas.Pop3.Inv t.st.st
  snap : ∀ t ∈ w.threads, SnapBelow e (w.store.next t.st.st.user) t.st.st

theorem SnapBelow.mono {e : Env} {B B' : Nat} {s : Pop3.St} (h : SnapBelow e B s) (hb : B ≤ B') : SnapBelow e B' s :=
  fun ht x hx n hn => Nat.le_trans (h ht x hx n hn) hb

theorem inv_of_sublist_msgs {s s' : Store} (h : Ibx.Lemmas.SpecStore.Inv s) (hm : s'.msgs.Sublist s.msgs)
    (hn : s'.next = s.next) : Ibx.Lemmas.SpecStore.Inv s' :=
  ⟨h.asc.sublist hm, fun x hx => by rw [hn]; exact h.bound x (hm.subset hx)⟩

theorem processDeletes_sublist (e : Env) (u : Bytes) (rm : List Bytes) (s : Store) :
    (processDeletes e u rm s).1.msgs.Sublist s.msgs := by
  rw [(processDeletes_msgs e u rm s).1]; exact List.filter_sublist

theorem good_same {e : Env} {w w' : World} (hs : w'.store = w.store) (ht : w'.threads = w.threads) (h : Good e w) :
    Good e w' :=
  ⟨by rw [hs]; exact h.store, by rw [ht]; exact h.sess, by rw [ht, hs]; exact h.snap⟩

/-- the invariant survives every event of every schedule -/
theorem good_exec1 (e : Env) (hids : ∀ n, e.ids.dec (e.ids.str n) = some n) (w : World) (h : Good e w) (ev : Sess.Ev) :
    Good e (Sess.exec1 (prog e) w ev) := by
  cases ev with
  | cancel => exact good_same (exec1_cancel e w).1 (exec1_cancel e w).2 h
  | closeL => exact good_same (exec1_closeL e w).1 (exec1_closeL e w).2 h
  | sess i =>
    cases hti : w.threads[i]? with
    | none => exact good_same (exec1_sess_none e w i hti).1 (exec1_sess_none e w i hti).2 h
    | some t =>
      have htm : t ∈ w.threads := List.mem_of_getElem? hti
      cases hin : t.input with
      | nil => exact good_same (exec1_sess_done e w i t hti hin).1 (exec1_sess_done e w i t hti hin).2 h
      | cons x rest =>
        obtain ⟨hs, hth⟩ := exec1_sess_step e w i t x rest hti hin
        cases x with
        | call op =>
          rw [clientStep_call] at hs hth
          simp only at hs hth
          refine ⟨by rw [hs]; exact inv_step _ _ _ h.store, ?_, ?_⟩
          · intro t' ht'
            rw [hth] at ht'
            rcases List.mem_or_eq_of_mem_set ht' with h1 | h1
            · exact h.sess t' h1
            · subst h1; exact h.sess t htm
          · intro t' ht'
            rw [hth] at ht'
            rw [hs]
            rcases List.mem_or_eq_of_mem_set ht' with h1 | h1
            · exact (h.snap t' h1).mono (step_next_mono _ _ _ _)
            · subst h1; exact (h.snap t htm).mono (step_next_mono _ _ _ _)
        | line l ok =>
          by_cases hidle : t.st.over = true ∨ t.st.st.phase = .quit
          · rw [clientStep_idle e t.st w.store l ok hidle] at hs hth
            simp only at hs hth
            refine ⟨by rw [hs]; exact h.store, ?_, ?_⟩
            · intro t' ht'
              rw [hth] at ht'
              rcases List.mem_or_eq_of_mem_set ht' with h1 | h1
              · exact h.sess t' h1
              · subst h1; exact h.sess t htm
            · intro t' ht'
              rw [hth] at ht'
              rw [hs]
              rcases List.mem_or_eq_of_mem_set ht' with h1 | h1
              · exact h.snap t' h1
              · subst h1; exact h.snap t htm
          · have ho : t.st.over = false := by
              cases hh : t.st.over with
              | false => rfl
              | true => exact absurd (Or.inl hh) hidle
            have hq : t.st.st.phase ≠ .quit := fun hh => hidle (Or.inr hh)
            obtain ⟨s', r, rm, _, post, heq⟩ := clientStep_live e t.st w.store l ok (h.sess t htm) ho hq
            rw [heq] at hs hth
            simp only at hs hth
            obtain ⟨_, hnext⟩ := processDeletes_msgs e s'.user rm w.store
            refine ⟨?_, ?_, ?_⟩
            · rw [hs]
              exact inv_of_sublist_msgs h.store (processDeletes_sublist e s'.user rm w.store) hnext
            · intro t' ht'
              rw [hth] at ht'
              rcases List.mem_or_eq_of_mem_set ht' with h1 | h1
              · exact h.sess t' h1
              · subst h1; exact Ibx.Lemmas.Pop3.post_inv post
            · intro t' ht'
              rw [hth] at ht'
              rw [hs, hnext]
              rcases List.mem_or_eq_of_mem_set ht' with h1 | h1
              · exact h.snap t' h1
              · subst h1
                simp only
                intro htr x hx n hn
                rcases post with ⟨_, _, _, hp⟩ | ⟨hpt, _, hmsgs, huser, hp⟩
                · rcases hp with ⟨ha, _⟩ | ⟨hq', _⟩ | ⟨_, hm, _, _⟩
                  · rw [ha] at htr; cases htr
                  · rw [hq'] at htr; cases htr
                  · rw [hm] at hx
                    simp only [Sys.popView, List.mem_map] at hx
                    obtain ⟨m, hm1, rfl⟩ := hx
                    simp only [Sys.popMsg] at hn
                    rw [hids] at hn
                    cases hn
                    simp only [listing, List.mem_filter, inBox, beq_iff_eq] at hm1
                    have := (h.store.bound m hm1.1).2
                    rw [hm1.2] at this
                    exact this
                · rw [huser]
                  rw [hmsgs] at hx
                  exact h.snap t htm hpt x hx n hn

theorem good_run (e : Env) (hids : ∀ n, e.ids.dec (e.ids.str n) = some n) (w : World) (h : Good e w)
    (evs : List Sess.Ev) : Good e (run e w evs) := by
  induction evs generalizing w with
  | nil => exact h
  | cons ev evs ih => rw [run_cons]; exact ih _ (good_exec1 e hids w h ev)

/-! ### what one event does to the store and to each client -/

theorem calls_append (a b : List Pop3Conc.Out) : calls (a ++ b) = calls a ++ calls b := by
  induction a with
  | nil => rfl
  | cons o a ih => cases o <;> simp [calls, ih]

theorem mem_calls (l : List Pop3Conc.Out) (id : Bytes) : id ∈ calls l ↔ ∃ ok, Pop3Conc.Out.removeCall id ok ∈ l := by
  induction l with
  | nil => simp [calls]
  | cons o l ih =>
    cases o with
    | removeCall i k =>
      simp only [calls, List.mem_cons, ih]
      constructor
      · rintro (rfl | ⟨ok, h⟩)
        · exact ⟨k, Or.inl rfl⟩
        · exact ⟨ok, Or.inr h⟩
      · rintro ⟨ok, h | h⟩
        · cases h; exact Or.inl rfl
        · exact Or.inr ⟨ok, h⟩
    | reply r => simp [calls, ih]
    | crashed => simp [calls, ih]
    | answer a => simp [calls, ih]

/-- a POP3 line either leaves the store alone and makes no `RemoveMessage` call, or it is a QUIT line read by a running
    session in TRANSACTION: then the session enters QUIT and the step is `processDeletes` over the ids marked now -/
theorem clientStep_line_effect (e : Env) (c : Client) (s : Store) (l : Bytes) (ok : Bool)
    (hi : Ibx.Lemmas.Pop3.Inv c.st) :
    ((clientStep e c s (.line l ok)).2.1 = s ∧ calls (clientStep e c s (.line l ok)).2.2 = []) ∨
    (c.over = false ∧ c.st.phase = .trans ∧ isQuitLine l ∧ ∃ r,
      clientStep e c s (.line l ok) =
        ({ st := { c.st with phase := .quit }, over := !ok },
         (processDeletes e c.st.user (Ibx.Lemmas.Pop3.markedIds c.st) s).1,
         .reply r :: (processDeletes e c.st.user (Ibx.Lemmas.Pop3.markedIds c.st) s).2)) := by
  by_cases hidle : c.over = true ∨ c.st.phase = .quit
  · left; rw [clientStep_idle e c s l ok hidle]; exact ⟨rfl, rfl⟩
  · have ho : c.over = false := by
      cases hh : c.over with
      | false => rfl
      | true => exact absurd (Or.inl hh) hidle
    have hq : c.st.phase ≠ .quit := fun hh => hidle (Or.inr hh)
    obtain ⟨s', r, rm, hs, post, heq⟩ := clientStep_live e c s l ok hi ho hq
    rcases post with ⟨_, _, hrm, _⟩ | ⟨ht, _, _, huser, hp⟩
    · left; subst hrm; rw [heq]; exact ⟨rfl, rfl⟩
    · rcases hp with ⟨_, hrm⟩ | ⟨hs', hrm⟩
      · left; subst hrm; rw [heq]; exact ⟨rfl, rfl⟩
      · right
        have hql : isQuitLine l := trans_to_quit_is_quit _ _ _ _ _ _ hs ht (by rw [hs'])
        refine ⟨ho, ht, hql, r, ?_⟩
        rw [heq, huser, hrm, hs']

/-- the store after an event: untouched, or what the one client that moved made of it -/
theorem exec1_store (e : Env) (w : World) (ev : Sess.Ev) :
    (Sess.exec1 (prog e) w ev).store = w.store ∨
    ∃ i t x rest, ev = .sess i ∧ w.threads[i]? = some t ∧ t.input = x :: rest ∧
      (Sess.exec1 (prog e) w ev).store = (clientStep e t.st w.store x).2.1 := by
  cases ev with
  | cancel => exact Or.inl rfl
  | closeL => exact Or.inl (exec1_closeL e w).1
  | sess i =>
    cases hti : w.threads[i]? with
    | none => exact Or.inl (exec1_sess_none e w i hti).1
    | some t =>
      cases hin : t.input with
      | nil => exact Or.inl (exec1_sess_done e w i t hti hin).1
      | cons x rest => exact Or.inr ⟨i, t, x, rest, rfl, hti, hin, (exec1_sess_step e w i t x rest hti hin).1⟩

/-- client `j` after an event: as before, or — when it is the one that moved — one unit further -/
theorem exec1_thread (e : Env) (w : World) (ev : Sess.Ev) (j : Nat) (t' : Thread)
    (h : (Sess.exec1 (prog e) w ev).threads[j]? = some t') :
    ∃ t, w.threads[j]? = some t ∧
      (t' = t ∨ (ev = .sess j ∧ ∃ x rest, t.input = x :: rest ∧
        t' = { st := (clientStep e t.st w.store x).1, input := rest,
               replies := t.replies ++ (clientStep e t.st w.store x).2.2 })) := by
  cases ev with
  | cancel => exact ⟨t', h, Or.inl rfl⟩
  | closeL => rw [(exec1_closeL e w).2] at h; exact ⟨t', h, Or.inl rfl⟩
  | sess i =>
    cases hti : w.threads[i]? with
    | none => rw [(exec1_sess_none e w i hti).2] at h; exact ⟨t', h, Or.inl rfl⟩
    | some t =>
      cases hin : t.input with
      | nil => rw [(exec1_sess_done e w i t hti hin).2] at h; exact ⟨t', h, Or.inl rfl⟩
      | cons x rest =>
        rw [(exec1_sess_step e w i t x rest hti hin).2, List.getElem?_set] at h
        by_cases hij : i = j
        · subst hij
          simp only [if_true] at h
          split at h
          · cases h
            exact ⟨t, hti, Or.inr ⟨rfl, x, rest, hin, rfl⟩⟩
          · cases h
        · simp only [hij, if_false] at h
          exact ⟨t', h, Or.inl rfl⟩

/-- the number of clients never changes -/
theorem exec1_length (e : Env) (w : World) (ev : Sess.Ev) :
    (Sess.exec1 (prog e) w ev).threads.length = w.threads.length := by
  cases ev with
  | cancel => rfl
  | closeL => rw [(exec1_closeL e w).2]
  | sess i =>
    cases hti : w.threads[i]? with
    | none => rw [(exec1_sess_none e w i hti).2]
    | some t =>
      cases hin : t.input with
      | nil => rw [(exec1_sess_done e w i t hti hin).2]
      | cons x rest => rw [(exec1_sess_step e w i t x rest hti hin).2, List.length_set]

/-! ### order and identity of the live messages -/

/-- any store call: the live messages afterwards are — as (mailbox, id) keys, in order — a sub-list of those before,
    followed by the key the call creates when it is a delivery -/
theorem step_keys_sublist (c : Cfg) (s : Store) (op : Op) :
    (keys (step c s op).1).Sublist (keys s ++ added s op) := by
  unfold keys
  cases op with
  | add b hdr src =>
    rw [step_add]
    simp only [added]
    have h1 := (limitEvict_sublist c.limit (capEvict c.cap b (s.msgs ++ [newMsg s b hdr src])).1).trans
      (capEvict_sublist c.cap b (s.msgs ++ [newMsg s b hdr src]))
    have h2 := h1.map evOf
    simpa [List.map_append, evOf, newMsg] using h2
  | get b i => rw [(step_get_state c s b i).1]; simp [added]
  | latest b => rw [(step_latest_state c s b).1]; simp [added]
  | list b => simp [step_list_eq, added]
  | seen b i =>
    rw [(step_seen_msgs c s b i).1]
    simp [added, List.map_map, Function.comp_def]
  | remove b i =>
    rw [(step_remove_msgs c s b i).1]
    simpa [added] using (List.filter_sublist (l := s.msgs)).map evOf
  | purge b =>
    rw [step_purge_eq]
    simpa [added] using (List.filter_sublist (l := s.msgs)).map evOf
  | visit => simp [step_visit_eq, added]

/-- a key that is not live and that the mailbox counter has already passed never becomes live (ids are not reused) -/
theorem step_absent_stays (c : Cfg) (s : Store) (op : Op) (k : Ev) (ha : k ∉ keys s) (hb : k.2 ≤ s.next k.1) :
    k ∉ keys (step c s op).1 ∧ k.2 ≤ (step c s op).1.next k.1 := by
  refine ⟨?_, Nat.le_trans hb (step_next_mono c s op k.1)⟩
  intro hk
  have := (step_keys_sublist c s op).subset hk
  rw [List.mem_append] at this
  rcases this with h | h
  · exact ha h
  · cases op <;> simp [added] at h
    subst h
    simp only at hb
    omega

theorem processDeletes_keys_sublist (e : Env) (u : Bytes) (rm : List Bytes) (s : Store) :
    (keys (processDeletes e u rm s).1).Sublist (keys s) :=
  (processDeletes_sublist e u rm s).map evOf

/-! ### the vocabulary of the property theorems -/

/-- client `i` is a POP3 session whose command loop is running in TRANSACTION and whose next unit is a QUIT line;
    `c` is that session as it stands -/
def QuitsAt (w : World) (i : Nat) (c : Client) : Prop :=
  ∃ t l ok rest, w.threads[i]? = some t ∧ t.input = .line l ok :: rest ∧ t.st = c ∧
    c.over = false ∧ c.st.phase = .trans ∧ isQuitLine l

/-- client `i`'s next unit is the store call `op` of some other kind of client (a delivery with whatever it evicts, a REST
    delete, a purge, a retention removal …) -/
def ForeignAt (w : World) (i : Nat) (op : Op) : Prop :=
  ∃ t rest, w.threads[i]? = some t ∧ t.input = .call op :: rest

/-- a decidable test for `QuitsAt` (for the concrete examples) -/
def quitsAtB (w : World) (i : Nat) : Bool :=
  match w.threads[i]? with
  | some t =>
    (match t.input with
     | .line l _ :: _ => !t.st.over && t.st.st.phase == .trans && (Pop3.parseCmd l).map (·.1) == some Pop3.kQUIT
     | _ => false)
  | none => false

theorem quitsAtB_sound (w : World) (i : Nat) (h : quitsAtB w i = true) :
    ∃ t, w.threads[i]? = some t ∧ QuitsAt w i t.st := by
  unfold quitsAtB at h
  split at h
  · rename_i t hti
    split at h
    · rename_i l ok rest hin
      simp only [Bool.and_eq_true, Bool.not_eq_true', beq_iff_eq] at h
      obtain ⟨⟨ho, ht⟩, hp⟩ := h
      refine ⟨t, hti, t, l, ok, rest, hti, hin, rfl, ho, ht, ?_⟩
      cases hpc : Pop3.parseCmd l with
      | none => simp [hpc] at hp
      | some p =>
        obtain ⟨cmd, args⟩ := p
        simp [hpc] at hp
        exact ⟨args, by rw [← hp]; exact hpc⟩
    · cases h
  · cases h

/-- every session satisfies the session invariant of C13 (`retain` as long as the snapshot, `msgCount` = #unmarked) -/
def SessInv (w : World) : Prop := ∀ t ∈ w.threads, Ibx.Lemmas.Pop3.Inv t.st.st

theorem Good.sessInv {e : Env} {w : World} (h : Good e w) : SessInv w := h.sess

theorem sessInv_exec1 (e : Env) (w : World) (h : SessInv w) (ev : Sess.Ev) : SessInv (Sess.exec1 (prog e) w ev) := by
  intro t' ht'
  obtain ⟨j, hj⟩ := List.getElem?_of_mem ht'
  obtain ⟨t, htj, hcase⟩ := exec1_thread e w ev j t' hj
  have htm : t ∈ w.threads := List.mem_of_getElem? htj
  rcases hcase with rfl | ⟨_, x, rest, _, rfl⟩
  · exact h _ htm
  · cases x with
    | call op => exact h t htm
    | line l ok =>
      by_cases hidle : t.st.over = true ∨ t.st.st.phase = .quit
      · rw [clientStep_idle e t.st w.store l ok hidle]; exact h t htm
      · have ho : t.st.over = false := by
          cases hh : t.st.over with
          | false => rfl
          | true => exact absurd (Or.inl hh) hidle
        have hq : t.st.st.phase ≠ .quit := fun hh => hidle (Or.inr hh)
        obtain ⟨s', r, rm, _, post, heq⟩ := clientStep_live e t.st w.store l ok (h t htm) ho hq
        rw [heq]
        exact Ibx.Lemmas.Pop3.post_inv post

theorem sessInv_run (e : Env) (w : World) (h : SessInv w) (evs : List Sess.Ev) : SessInv (run e w evs) := by
  induction evs generalizing w with
  | nil => exact h
  | cons ev evs ih => rw [run_cons]; exact ih _ (sessInv_exec1 e w h ev)

/-- fresh clients (just connected, nothing said yet) on any reachable store -/
theorem good_fresh (e : Env) (w : World) (hs : Ibx.Lemmas.SpecStore.Inv w.store)
    (hf : ∀ t ∈ w.threads, ∃ c srv, t.st.st = Pop3.St.start c srv) : Good e w := by
  refine ⟨hs, ?_, ?_⟩
  · intro t ht
    obtain ⟨c, srv, h⟩ := hf t ht
    rw [h]; simp [Ibx.Lemmas.Pop3.Inv, Pop3.St.start, Pop3.St.init]
  · intro t ht
    obtain ⟨c, srv, h⟩ := hf t ht
    intro htr
    rw [h] at htr
    simp [Pop3.St.start, Pop3.St.init] at htr

/-- the QUIT step itself -/
theorem clientStep_quit (e : Env) (c : Client) (s : Store) (l : Bytes) (ok : Bool) (hi : Ibx.Lemmas.Pop3.Inv c.st)
    (ho : c.over = false) (ht : c.st.phase = .trans) (hq : isQuitLine l) :
    clientStep e c s (.line l ok) =
      ({ st := { c.st with phase := .quit }, over := !ok },
       (processDeletes e c.st.user (Ibx.Lemmas.Pop3.markedIds c.st) s).1,
       .reply .ok :: (processDeletes e c.st.user (Ibx.Lemmas.Pop3.markedIds c.st) s).2) := by
  obtain ⟨args, hpc⟩ := hq
  have hstep : Pop3.step (Sys.popView e.ids s) c.st l =
      .ok { c.st with phase := .quit } .ok (Ibx.Lemmas.Pop3.markedIds c.st) := by
    unfold Pop3.step
    simp only [hpc]
    have h1 : (Pop3.kQUIT = Pop3.kCAPA) = False := by simp [Pop3.kQUIT, Pop3.kCAPA]
    have h2 : (Pop3.kQUIT = ([] : Bytes)) = False := by simp [Pop3.kQUIT]
    have h3 : Pop3.verbOf Pop3.kQUIT = some .quit := by decide
    simp only [h1, h2, if_false, h3, ht, Pop3.transH]
    exact Ibx.Lemmas.Pop3.cmdQuit_eq c.st hi
  unfold clientStep
  have : (c.st.phase == Pop3.Phase.quit) = false := by rw [ht]; decide
  simp only [ho, this, Bool.or_self, hstep]
  rfl

/-- whatever the session's state (even one that violates its invariant): a POP3 line only ever removes messages -/
theorem clientStep_line_sublist (e : Env) (c : Client) (s : Store) (l : Bytes) (ok : Bool) :
    (clientStep e c s (.line l ok)).2.1.msgs.Sublist s.msgs ∧ (clientStep e c s (.line l ok)).2.1.next = s.next := by
  simp only [clientStep]
  split
  · exact ⟨List.Sublist.refl _, rfl⟩
  · split
    · exact ⟨List.Sublist.refl _, rfl⟩
    · exact ⟨List.Sublist.refl _, rfl⟩
    · exact ⟨processDeletes_sublist _ _ _ _, (processDeletes_msgs _ _ _ _).2⟩

/-- one event: the live keys afterwards are a sub-list of those before, followed by the key it delivers -/
theorem exec1_keys_sublist (e : Env) (w : World) (ev : Sess.Ev) :
    (keys (Sess.exec1 (prog e) w ev).store).Sublist (keys w.store ++ arrivalAt w ev) := by
  rcases exec1_store e w ev with h | ⟨i, t, x, rest, rfl, hti, hin, h⟩
  · rw [h]; exact List.sublist_append_left _ _
  · rw [h]
    cases x with
    | call op =>
      rw [clientStep_call]
      have : arrivalAt w (.sess i) = added w.store op := by
        simp only [arrivalAt, hti, hin, Option.bind_some, List.head?_cons]
        cases op <;> rfl
      rw [this]
      exact step_keys_sublist _ _ _
    | line l ok =>
      exact ((clientStep_line_sublist e t.st w.store l ok).1.map evOf).trans (List.sublist_append_left _ _)

/-- one event: a key that is not live and that the mailbox counter has passed stays that way -/
theorem exec1_absent_stays (e : Env) (w : World) (ev : Sess.Ev) (k : Ev) (ha : k ∉ keys w.store)
    (hb : k.2 ≤ w.store.next k.1) :
    k ∉ keys (Sess.exec1 (prog e) w ev).store ∧ k.2 ≤ (Sess.exec1 (prog e) w ev).store.next k.1 := by
  rcases exec1_store e w ev with h | ⟨i, t, x, rest, rfl, hti, hin, h⟩
  · rw [h]; exact ⟨ha, hb⟩
  · rw [h]
    cases x with
    | call op => rw [clientStep_call]; exact step_absent_stays _ _ _ _ ha hb
    | line l ok =>
      obtain ⟨h1, h2⟩ := clientStep_line_sublist e t.st w.store l ok
      exact ⟨fun hk => ha ((h1.map evOf).subset hk), by rw [h2]; exact hb⟩

theorem run_absent_stays (e : Env) (w : World) (evs : List Sess.Ev) (k : Ev) (ha : k ∉ keys w.store)
    (hb : k.2 ≤ w.store.next k.1) : k ∉ keys (run e w evs).store := by
  induction evs generalizing w with
  | nil => exact ha
  | cons ev evs ih =>
    rw [run_cons]
    exact ih _ (exec1_absent_stays e w ev k ha hb).1 (exec1_absent_stays e w ev k ha hb).2

/-- a session that has reached QUIT stays there: nothing it is sent afterwards is read -/
theorem quit_phase_exec1 (e : Env) (w : World) (ev : Sess.Ev) (j : Nat)
    (h : ∀ t, w.threads[j]? = some t → t.st.st.phase = .quit) :
    ∀ t', (Sess.exec1 (prog e) w ev).threads[j]? = some t' → t'.st.st.phase = .quit := by
  intro t' ht'
  obtain ⟨t, htj, hcase⟩ := exec1_thread e w ev j t' ht'
  have hq := h t htj
  rcases hcase with rfl | ⟨_, x, rest, _, rfl⟩
  · exact hq
  · cases x with
    | call op => exact hq
    | line l ok => rw [clientStep_idle e t.st w.store l ok (Or.inr hq)]; exact hq

theorem quit_phase_run (e : Env) (w : World) (evs : List Sess.Ev) (j : Nat)
    (h : ∀ t, w.threads[j]? = some t → t.st.st.phase = .quit) :
    ∀ t', (run e w evs).threads[j]? = some t' → t'.st.st.phase = .quit := by
  induction evs generalizing w with
  | nil => exact h
  | cons ev evs ih => rw [run_cons]; exact ih _ (quit_phase_exec1 e w ev j h)

/-- the QUIT step puts the session into QUIT (either variant of the loop) -/
theorem quitsAt_then_quit (e : Env) (w : World) (hs : SessInv w) (j : Nat) (c : Client) (hq : QuitsAt w j c) :
    ∀ t', (Sess.exec1 (prog e) w (.sess j)).threads[j]? = some t' → t'.st.st.phase = .quit := by
  obtain ⟨t, l, ok, rest, hti, hin, rfl, ho, ht, hql⟩ := hq
  intro t' ht'
  rw [(exec1_sess_step e w j t (.line l ok) rest hti hin).2,
    List.getElem?_set_self (List.getElem?_eq_some_iff.1 hti).1] at ht'
  cases ht'
  rw [clientStep_quit e t.st w.store l ok (hs t (List.mem_of_getElem? hti)) ho ht hql]

/-- a marked id is the id of a snapshot entry -/
theorem marked_in_snapshot (s : Pop3.St) (id : Bytes) (h : id ∈ Ibx.Lemmas.Pop3.markedIds s) :
    ∃ x ∈ s.msgs, x.id = id := by
  unfold Ibx.Lemmas.Pop3.markedIds at h
  obtain ⟨j, m, h1, _, h3⟩ := (Ibx.Lemmas.Pop3.mem_sel _ _ _ _ _ _).1 h
  exact ⟨m, List.mem_of_getElem? h1, h3.symm⟩

/-- session `i` has logged in as `u` before, and every id of its snapshot (as the store reads it) is at most `B` -/
def SnapFrozen (e : Env) (i : Nat) (u : Bytes) (B : Nat) (w : World) : Prop :=
  ∀ t, w.threads[i]? = some t → t.st.st.phase ≠ .auth ∧
    (t.st.st.phase = .trans → t.st.st.user = u ∧ ∀ x ∈ t.st.st.msgs, ∀ n, e.ids.dec x.id = some n → n ≤ B)

theorem snapFrozen_exec1 (e : Env) (i : Nat) (u : Bytes) (B : Nat) (w : World) (hs : SessInv w)
    (h : SnapFrozen e i u B w) (ev : Sess.Ev) : SnapFrozen e i u B (Sess.exec1 (prog e) w ev) := by
  intro t' ht'
  obtain ⟨t, hti, hcase⟩ := exec1_thread e w ev i t' ht'
  have htm : t ∈ w.threads := List.mem_of_getElem? hti
  obtain ⟨hna, hfz⟩ := h t hti
  rcases hcase with rfl | ⟨_, x, rest, _, rfl⟩
  · exact ⟨hna, hfz⟩
  · cases x with
    | call op => exact ⟨hna, hfz⟩
    | line l ok =>
      by_cases hidle : t.st.over = true ∨ t.st.st.phase = .quit
      · rw [clientStep_idle e t.st w.store l ok hidle]; exact ⟨hna, hfz⟩
      · have ho : t.st.over = false := by
          cases hh : t.st.over with
          | false => rfl
          | true => exact absurd (Or.inl hh) hidle
        have hq : t.st.st.phase ≠ .quit := fun hh => hidle (Or.inr hh)
        obtain ⟨s', r, rm, _, post, heq⟩ := clientStep_live e t.st w.store l ok (hs t htm) ho hq
        rw [heq]
        simp only
        rcases post with ⟨ha, _⟩ | ⟨htr, _, hmsgs, huser, hp⟩
        · exact absurd ha hna
        · obtain ⟨hu, hb⟩ := hfz htr
          rcases hp with ⟨hph, _⟩ | ⟨hs', _⟩
          · refine ⟨by rw [hph, htr]; decide, fun _ => ⟨by rw [huser]; exact hu, ?_⟩⟩
            rw [hmsgs]; exact hb
          · rw [hs']
            exact ⟨by simp, fun hh => by cases hh⟩

theorem snapFrozen_run (e : Env) (i : Nat) (u : Bytes) (B : Nat) (w : World) (hs : SessInv w)
    (h : SnapFrozen e i u B w) (evs : List Sess.Ev) : SnapFrozen e i u B (run e w evs) := by
  induction evs generalizing w with
  | nil => exact h
  | cons ev evs ih => rw [run_cons]; exact ih _ (sessInv_exec1 e w hs ev) (snapFrozen_exec1 e i u B w hs h ev)

end Ibx.Lemmas.Pop3Conc
