import Ibx.Lemmas.ConcMem
/- Safety invariants of the interleaving model of the memory store: the critical sections form a legal
   sequential history (forward simulation), ids, results, delivered messages. -/
namespace Ibx.Model.ConcMem

theorem run_append (c : Cfg) (a : AS) (os : List Op) (o : Op) :
    Atomic.run c a (os ++ [o]) =
      ((Atomic.step c (Atomic.run c a os).1 o).1, (Atomic.run c a os).2 ++ [(Atomic.step c (Atomic.run c a os).1 o).2.1]) := by
  induction os generalizing a with
  | nil => simp [Atomic.run]
  | cons x xs ih => simp [Atomic.run, ih]

/-- the abstract (atomic) state of a concurrent state -/
def St.abs (s : St) : AS := { boxes := s.boxes, seen := s.seen }

/-- the critical sections so far are a legal sequential history of the atomic machine, with exactly the results
    the operations got, ending in the current shared state -/
def LinOK (c : Cfg) (s : St) : Prop :=
  Atomic.run c AS.empty (s.lin.map (·.2.1)) = (s.abs, s.lin.map (·.2.2))

theorem evDelete_is_remove (c : Cfg) (s : St) (k : Key) :
    Atomic.step c s.abs (.remove k.1 k.2) =
      ((evDelete s k).abs, (if evFound s k then Ret.ok else Ret.notExist), if evFound s k then [k] else []) := by
  simp only [Atomic.step, St.abs, evDelete, evFound]
  by_cases h : k.snd ∈ (s.boxes k.fst).msgs
  · simp [h]
  · simp [h]

theorem linOK_step {v c s s'} (st : Step v c s s') (h : LinOK c s) : LinOK c s' := by
  unfold LinOK at *
  cases st with
  | crit t o hp ht =>
    simp only [critEff, List.map_append, List.map_cons, List.map_nil, run_append, h]
    rfl
  | evCrit t k hp he =>
    have e := evDelete_is_remove c s k
    simp only [evDelete, List.map_append, List.map_cons, List.map_nil, run_append, h, e]
    rfl
  | _ => exact h


/-! ### ids -/

def isAddTo (b : Nat) : Op → Bool
  | .add b' _ => b' == b
  | _ => false

theorem step_last (c : Cfg) (a : AS) (o : Op) (b : Nat) :
    ((Atomic.step c a o).1.boxes b).last = if isAddTo b o then (a.boxes b).last + 1 else (a.boxes b).last := by
  cases o with
  | add b' sz =>
    by_cases e : b = b'
    · subst e; simp [Atomic.step, isAddTo]
    · have e' : ¬ b' = b := fun h => e h.symm
      simp [Atomic.step, isAddTo, upd, e, e']
  | get b' i => simp [Atomic.step, isAddTo]
  | list b' => simp [Atomic.step, isAddTo]
  | seen b' i => simp only [Atomic.step, isAddTo]; split <;> simp
  | remove b' i =>
    simp only [Atomic.step, isAddTo]
    split
    · by_cases e : b = b'
      · subst e; simp
      · simp [upd, e]
    · simp
  | purge b' =>
    by_cases e : b = b'
    · subst e; simp [Atomic.step, isAddTo]
    · simp [Atomic.step, isAddTo, upd, e]

theorem step_ret_add (c : Cfg) (a : AS) (b sz : Nat) :
    (Atomic.step c a (.add b sz)).2.1 = .id ((a.boxes b).last + 1) := by simp [Atomic.step]

/-- the id a linearisation record assigned in mailbox `b`, if it is a delivery to `b` -/
def addId (b : Nat) (e : Who × Op × Ret) : Option Nat :=
  match e.2.1, e.2.2 with
  | .add b' _, .id i => if b' = b then some i else none
  | _, _ => none

def IdInv (s : St) : Prop :=
  ∀ b, (s.lin.filterMap (addId b)).Pairwise (· < ·) ∧ ∀ i ∈ s.lin.filterMap (addId b), 1 ≤ i ∧ i ≤ (s.boxes b).last

theorem addId_step (c : Cfg) (a : AS) (w : Who) (o : Op) (b : Nat) :
    addId b (w, o, (Atomic.step c a o).2.1) = if isAddTo b o then some ((a.boxes b).last + 1) else none := by
  cases o with
  | add b' sz =>
    by_cases e : b' = b
    · subst e; simp [addId, isAddTo, Atomic.step]
    · simp [addId, isAddTo, Atomic.step, e]
  | get b' i => simp [addId, isAddTo]
  | list b' => simp [addId, isAddTo]
  | seen b' i => simp [addId, isAddTo]
  | remove b' i => simp [addId, isAddTo]
  | purge b' => simp [addId, isAddTo]

theorem idInv_step {v c s s'} (st : Step v c s s') (h : IdInv s) : IdInv s' := by
  cases st with
  | crit t o hp ht =>
    intro b
    obtain ⟨h1, h2⟩ := h b
    have hl := step_last c s.abs o b
    have ha := addId_step c s.abs (.cl t) o b
    simp only [St.abs] at hl ha
    simp only [critEff, List.filterMap_append, List.filterMap_cons, List.filterMap_nil, ha, hl]
    by_cases e : isAddTo b o = true
    · simp only [e, if_true, List.pairwise_append, List.mem_append]
      refine ⟨⟨h1, by simp, ?_⟩, ?_⟩
      · intro x hx y hy; simp at hy; subst hy; have := (h2 x hx).2; omega
      · intro i hi
        rcases hi with hi | hi
        · have := h2 i hi; omega
        · simp at hi; subst hi; omega
    · simp only [e]; simp only [Bool.false_eq_true, if_false, List.append_nil]; exact ⟨h1, h2⟩
  | evCrit t k hp he =>
    intro b
    obtain ⟨h1, h2⟩ := h b
    have hb : ((evDelete s k).boxes b).last = (s.boxes b).last := by
      simp only [evDelete]
      split
      · by_cases e : b = k.1
        · subst e; simp
        · simp [upd, e]
      · rfl
    simp only [evDelete, List.filterMap_append, List.filterMap_cons, List.filterMap_nil, addId]
    have := hb; simp only [evDelete] at this
    simp only [this, List.append_nil]
    exact ⟨h1, h2⟩
  | _ => exact h


/-! ### results come from critical sections -/

def RetInv (s : St) : Prop :=
  (∀ e ∈ s.hist, (Who.cl e.1, e.2.1, e.2.2) ∈ s.lin) ∧
  ∀ t o todo r, (s.thr t = .run o todo r ∨ s.thr t = .wait o todo r) → (Who.cl t, o, r) ∈ s.lin

theorem retInv_step {v c s s'} (st : Step v c s s') (h : RetInv s) : RetInv s' := by
  obtain ⟨h1, h2⟩ := h
  cases st with
  | crit t o hp ht =>
    refine ⟨fun e he => by simp only [critEff]; exact List.mem_append_left _ (h1 e he), ?_⟩
    intro t' o' todo r hs
    by_cases e : t' = t
    · subst e; simp [critEff] at hs; obtain ⟨rfl, _, rfl⟩ := hs; simp [critEff]
    · simp only [critEff, upd, e, if_false] at hs
      simp only [critEff]; exact List.mem_append_left _ (h2 t' o' todo r hs)
  | evCrit t k hp he =>
    refine ⟨fun e he => by simp only [evDelete]; exact List.mem_append_left _ (h1 e he), ?_⟩
    intro t' o' todo r hs
    simp only [evDelete] at hs ⊢; exact List.mem_append_left _ (h2 t' o' todo r hs)
  | finish t o r hp ht =>
    refine ⟨?_, ?_⟩
    · intro e he
      simp only [List.mem_append, List.mem_singleton] at he
      rcases he with he | he
      · exact h1 e he
      · subst he; exact h2 t o [] r (Or.inl ht)
    · intro t' o' todo r' hs
      by_cases e : t' = t
      · subst e; simp at hs
      · simp only [upd, e, if_false] at hs; exact h2 t' o' todo r' hs
  | fin t hp he =>
    refine ⟨h1, ?_⟩
    intro t' o' todo r' hs
    by_cases e : t' = t
    · subst e
      simp only [upd_same] at hs
      cases hpc : s.thr t' with
      | wait o2 td2 r2 =>
        rw [hpc] at hs; simp [resume] at hs
        obtain ⟨rfl, rfl, rfl⟩ := hs
        exact h2 t' _ _ _ (Or.inr hpc)
      | run o2 td2 r2 => rw [hpc] at hs; simp [resume] at hs; obtain ⟨rfl, rfl, rfl⟩ := hs; exact h2 t' _ _ _ (Or.inl hpc)
      | idle => rw [hpc] at hs; simp [resume] at hs
      | lockS o2 => rw [hpc] at hs; simp [resume] at hs
      | unlockS o2 => rw [hpc] at hs; simp [resume] at hs
      | lockB o2 => rw [hpc] at hs; simp [resume] at hs
      | crit o2 => rw [hpc] at hs; simp [resume] at hs
    · simp only [upd, e, if_false] at hs; exact h2 t' o' todo r' hs
  | unlockB t o todo r hp ht =>
    refine ⟨h1, ?_⟩
    intro t' o' todo' r' hs
    by_cases e : t' = t
    · subst e; simp at hs; obtain ⟨rfl, _, rfl⟩ := hs; exact h2 t' _ _ _ (Or.inl ht)
    · simp only [upd, e, if_false] at hs; exact h2 t' o' todo' r' hs
  | sendInc t o k todo r hp ht he | sendRem t o k todo r hp ht he =>
    refine ⟨h1, ?_⟩
    intro t' o' todo' r' hs
    by_cases e : t' = t
    · subst e; simp at hs; obtain ⟨rfl, _, rfl⟩ := hs; exact h2 t' _ _ _ (Or.inl ht)
    · simp only [upd, e, if_false] at hs; exact h2 t' o' todo' r' hs
  | start t o rest hp ht hpr | lockS t o hp ht hl | unlockS t o hp ht | lockB t o hp ht hl =>
    refine ⟨h1, ?_⟩
    intro t' o' todo' r' hs
    by_cases e : t' = t
    · subst e; simp at hs
    · simp only [upd, e, if_false] at hs; exact h2 t' o' todo' r' hs
  | _ => exact ⟨h1, h2⟩

/-! ### delivered messages stay until something removes them -/

theorem capLoop_keeps (cap : Nat) (i : Nat) : ∀ (fuel first : Nat) (msgs ev : List Nat), (i ∈ msgs ∨ i ∈ ev) →
    i ∈ (capLoop cap fuel first msgs ev).2.1 ∨ i ∈ (capLoop cap fuel first msgs ev).2.2 := by
  intro fuel
  induction fuel with
  | zero => intro first msgs ev h; simpa [capLoop] using h
  | succ n ih =>
    intro first msgs ev h
    simp only [capLoop]
    split
    · split
      · apply ih
        rcases h with h | h
        · by_cases e : i = first
          · right; simp [e]
          · left; simp [h, e]
        · right; simp [h]
      · exact ih _ _ _ h
    · simpa using h

theorem step_del (c : Cfg) (a : AS) (o : Op) (b i : Nat)
    (h : i ∈ (a.boxes b).msgs ∨ (isAddTo b o = true ∧ i = (a.boxes b).last + 1)) :
    i ∈ ((Atomic.step c a o).1.boxes b).msgs ∨ (b, i) ∈ (Atomic.step c a o).2.2 := by
  cases o with
  | add b' sz =>
    by_cases e : b = b'
    · subst e
      have h' : i ∈ (a.boxes b).msgs ++ [(a.boxes b).last + 1] ∨ i ∈ ([] : List Nat) := by
        rcases h with h | ⟨_, h⟩
        · left; simp [h]
        · left; simp [h]
      simp only [Atomic.step, upd_same]
      split
      · rcases capLoop_keeps c.cap i _ (a.boxes b).first _ [] h' with q | q
        · left; exact q
        · right; simp; exact q
      · left; simpa using h'
    · have e' : ¬ b' = b := fun h => e h.symm
      rcases h with h | ⟨h, _⟩
      · left; simp [Atomic.step, upd, e, h]
      · simp [isAddTo, e'] at h
  | get b' j => rcases h with h | ⟨h, _⟩ <;> simp_all [Atomic.step, isAddTo]
  | list b' => rcases h with h | ⟨h, _⟩ <;> simp_all [Atomic.step, isAddTo]
  | seen b' j =>
    rcases h with h | ⟨h, _⟩
    · left; simp only [Atomic.step]; split <;> simpa using h
    · simp [isAddTo] at h
  | remove b' j =>
    rcases h with h | ⟨h, _⟩
    · simp only [Atomic.step]
      split
      · by_cases e : b = b'
        · subst e
          by_cases ej : i = j
          · right; simp [ej]
          · left; simp [h, ej]
        · left; simp [upd, e, h]
      · left; simpa using h
    · simp [isAddTo] at h
  | purge b' =>
    rcases h with h | ⟨h, _⟩
    · by_cases e : b = b'
      · subst e; right; simp [Atomic.step, h]
      · left; simp [Atomic.step, upd, e, h]
    · simp [isAddTo] at h

def DelInv (s : St) : Prop :=
  ∀ b i, 1 ≤ i → i ≤ (s.boxes b).last → i ∈ (s.boxes b).msgs ∨ (b, i) ∈ s.removed

theorem delInv_step {v c s s'} (st : Step v c s s') (h : DelInv s) : DelInv s' := by
  cases st with
  | crit t o hp ht =>
    intro b i h1 h2
    have hl := step_last c s.abs o b
    simp only [St.abs] at hl
    simp only [critEff] at h2 ⊢
    rw [hl] at h2
    have key : i ∈ (s.boxes b).msgs ∨ (isAddTo b o = true ∧ i = (s.boxes b).last + 1) ∨ (b, i) ∈ s.removed := by
      by_cases e : isAddTo b o = true
      · simp only [e, if_true] at h2
        by_cases e2 : i = (s.boxes b).last + 1
        · exact Or.inr (Or.inl ⟨e, e2⟩)
        · rcases h b i h1 (by omega) with q | q
          · exact Or.inl q
          · exact Or.inr (Or.inr q)
      · simp only [e] at h2
        rcases h b i h1 (by simpa using h2) with q | q
        · exact Or.inl q
        · exact Or.inr (Or.inr q)
    rcases key with q | q | q
    · rcases step_del c s.abs o b i (Or.inl q) with z | z
      · exact Or.inl z
      · exact Or.inr (List.mem_append_right _ z)
    · rcases step_del c s.abs o b i (Or.inr q) with z | z
      · exact Or.inl z
      · exact Or.inr (List.mem_append_right _ z)
    · exact Or.inr (List.mem_append_left _ q)
  | evCrit t k hp he =>
    intro b i h1 h2
    simp only [evDelete] at h2 ⊢
    by_cases hf : evFound s k = true
    · simp only [hf, if_true] at h2 ⊢
      by_cases e : b = k.1
      · subst e
        simp only [upd_same] at h2 ⊢
        rcases h k.1 i h1 h2 with q | q
        · by_cases ei : i = k.2
          · right; subst ei; simp
          · left; simp [q, ei]
        · right; exact List.mem_append_left _ q
      · simp only [upd, e, if_false] at h2 ⊢
        rcases h b i h1 h2 with q | q
        · exact Or.inl q
        · exact Or.inr (List.mem_append_left _ q)
    · simp only [hf] at h2 ⊢
      exact h b i h1 h2
  | _ => exact h

end Ibx.Model.ConcMem
