import Ibx.Model.Smtp
/-
  Helper lemmas about one step of the SMTP session model (`Ibx.Model.Smtp`):
  * `send`/`say` only touch the I/O fields (`budget`, `sendErr`);
  * `handleCmd` is split into its per-state handlers (`handleCmd_eq`, by `rfl`) and characterised per
    (state, command) pair;
  * `Step` — the transition table of DESIGN.md Appendix C.1 as a relation — and `handleLine_step`:
    every command line takes one of its rows;
  * MAIL / RCPT are factored into a syntactic part (`mailSyntax`, `rcptSyntax`) and the hook / policy
    decision; one equation per outcome;
  * `erase` (forget the I/O fields) commutes with every step, so the behaviour does not depend on the
    send budget except through `sendErr`.
-/
namespace Ibx.Lemmas.Smtp
open Ibx Ibx.Bytes Ibx.Model Ibx.Model.Smtp

/-! ### command names as concrete byte lists -/

theorem n_HELO : ofAscii "HELO" = [72, 69, 76, 79] := by decide
theorem n_EHLO : ofAscii "EHLO" = [69, 72, 76, 79] := by decide
theorem n_MAIL : ofAscii "MAIL" = [77, 65, 73, 76] := by decide
theorem n_RCPT : ofAscii "RCPT" = [82, 67, 80, 84] := by decide
theorem n_DATA : ofAscii "DATA" = [68, 65, 84, 65] := by decide
theorem n_RSET : ofAscii "RSET" = [82, 83, 69, 84] := by decide
theorem n_NOOP : ofAscii "NOOP" = [78, 79, 79, 80] := by decide
theorem n_QUIT : ofAscii "QUIT" = [81, 85, 73, 84] := by decide
theorem n_VRFY : ofAscii "VRFY" = [86, 82, 70, 89] := by decide
theorem n_AUTH : ofAscii "AUTH" = [65, 85, 84, 72] := by decide
theorem n_STARTTLS : ofAscii "STARTTLS" = [83, 84, 65, 82, 84, 84, 76, 83] := by decide

/-! ### send / say -/

@[simp] theorem send_st (s : Sess) (n : Nat) : (send s n).st = s.st := by
  unfold send; split <;> (try split) <;> rfl
@[simp] theorem send_sender (s : Sess) (n : Nat) : (send s n).sender = s.sender := by
  unfold send; split <;> (try split) <;> rfl
@[simp] theorem send_rcpts (s : Sess) (n : Nat) : (send s n).rcpts = s.rcpts := by
  unfold send; split <;> (try split) <;> rfl
@[simp] theorem send_remoteDomain (s : Sess) (n : Nat) : (send s n).remoteDomain = s.remoteDomain := by
  unfold send; split <;> (try split) <;> rfl
@[simp] theorem send_tls (s : Sess) (n : Nat) : (send s n).tls = s.tls := by
  unfold send; split <;> (try split) <;> rfl

theorem send_of_budget_none (s : Sess) (n : Nat) (h : s.budget = none) : send s n = s := by
  unfold send; rw [h]

@[simp] theorem say_fst (s : Sess) (c : Nat) (acc : List Ev) : (say s c acc).1 = send s 1 := rfl
@[simp] theorem say_snd (s : Sess) (c : Nat) (acc : List Ev) : (say s c acc).2 = .reply [c] :: acc := rfl

/-- forget the I/O fields -/
def erase (s : Sess) : Sess := { s with budget := none, sendErr := false }

@[simp] theorem erase_st (s : Sess) : (erase s).st = s.st := rfl
@[simp] theorem erase_sender (s : Sess) : (erase s).sender = s.sender := rfl
@[simp] theorem erase_rcpts (s : Sess) : (erase s).rcpts = s.rcpts := rfl
@[simp] theorem erase_remoteDomain (s : Sess) : (erase s).remoteDomain = s.remoteDomain := rfl
@[simp] theorem erase_tls (s : Sess) : (erase s).tls = s.tls := rfl
@[simp] theorem erase_budget (s : Sess) : (erase s).budget = none := rfl
@[simp] theorem erase_sendErr (s : Sess) : (erase s).sendErr = false := rfl

@[simp] theorem erase_send (s : Sess) (n : Nat) : erase (send s n) = erase s := by
  unfold send; split <;> (try split) <;> rfl
@[simp] theorem send_erase (s : Sess) (n : Nat) : send (erase s) n = erase s := rfl
@[simp] theorem erase_erase (s : Sess) : erase (erase s) = erase s := rfl

theorem erase_eq_self (s : Sess) (h1 : s.budget = none) (h2 : s.sendErr = false) : erase s = s := by
  cases s; simp_all [erase]

@[simp] theorem reset_sender (s : Sess) : (reset s).sender = none := rfl
@[simp] theorem reset_rcpts (s : Sess) : (reset s).rcpts = [] := rfl
@[simp] theorem reset_remoteDomain (s : Sess) : (reset s).remoteDomain = s.remoteDomain := rfl
@[simp] theorem reset_tls (s : Sess) : (reset s).tls = s.tls := rfl
@[simp] theorem advertises_send (e : Env) (s : Sess) (n : Nat) : advertises e (send s n) = advertises e s := by
  simp [advertises]
@[simp] theorem advertises_erase (e : Env) (s : Sess) : advertises e (erase s) = advertises e s := rfl
@[simp] theorem ehloLines_erase (e : Env) (s : Sess) : ehloLines e (erase s) = ehloLines e s := rfl
theorem ehloLines_cases (e : Env) (s : Sess) : ehloLines e s = 4 ∨ ehloLines e s = 5 := by
  unfold ehloLines; split <;> simp
theorem reset_st (s : Sess) : (reset s).st = if s.st = .greet then .greet else .ready := by
  simp [reset]
theorem reset_st_of_ne (s : Sess) (h : s.st ≠ .greet) : (reset s).st = .ready := by
  simp [reset, h]
theorem reset_st_greet (s : Sess) (h : s.st = .greet) : (reset s).st = .greet := by
  simp [reset, h]
@[simp] theorem erase_reset (s : Sess) : erase (reset s) = reset (erase s) := rfl

/-! ### per-state command handlers (definitionally the branches of `handleCmd`) -/

def greetCmd (e : Env) (s : Sess) (name arg : Bytes) (acc : List Ev) : Sess × List Ev :=
  if name == Bytes.ofAscii "HELO" then
    if arg.isEmpty then say s 501 acc
    else say { s with st := .ready, remoteDomain := arg.takeWhile (· != 32) } 250 acc
  else if name == Bytes.ofAscii "EHLO" then
    if arg.isEmpty then say s 501 acc
    else ({ send s (ehloLines e s) with st := .ready, remoteDomain := arg.takeWhile (· != 32) },
          .reply (List.replicate (ehloLines e s) 250) :: acc)
  else say s 503 acc

def readyCmd (e : Env) (s : Sess) (name arg : Bytes) (acc : List Ev) : Sess × List Ev :=
  if name == Bytes.ofAscii "STARTTLS" then
    if !e.tlsEnabled then say s 454 acc
    else if s.tls then say s 454 acc
    else say { s with st := .greet, tls := true } 220 acc
  else if name == Bytes.ofAscii "AUTH" then
    let (n, method) := splitN3 arg
    if method == Bytes.ofAscii "PLAIN" then (if n != 2 then say s 500 acc else say s 235 acc)
    else if method == Bytes.ofAscii "LOGIN" then say { s with st := .login } 334 acc
    else say s 500 acc
  else if name == Bytes.ofAscii "MAIL" then mailFrom e s arg acc
  else if name == Bytes.ofAscii "EHLO" then say (reset s) 250 acc
  else say s 503 acc

def mailCmd (e : Env) (s : Sess) (name arg : Bytes) (acc : List Ev) : Sess × List Ev :=
  if name == Bytes.ofAscii "RCPT" then rcptTo e s arg acc
  else if name == Bytes.ofAscii "DATA" then
    if !arg.isEmpty then say s 501 acc
    else if s.rcpts.isEmpty then say s 503 acc
    else ({ s with st := .data }, acc)
  else if name == Bytes.ofAscii "EHLO" then say (reset s) 250 acc
  else say s 503 acc

def stateCmd (e : Env) (s : Sess) (name arg : Bytes) (acc : List Ev) : Sess × List Ev :=
  match s.st with
  | .greet => greetCmd e s name arg acc
  | .ready => readyCmd e s name arg acc
  | .mail => mailCmd e s name arg acc
  | _ => (s, acc)

/-- commands handled before the per-state dispatch -/
def anyState (name : Bytes) : Bool :=
  !commandNames.contains name || notImplemented.contains name || name == Bytes.ofAscii "VRFY" ||
  name == Bytes.ofAscii "NOOP" || name == Bytes.ofAscii "RSET" || name == Bytes.ofAscii "QUIT"

theorem handleCmd_eq (e : Env) (s : Sess) (name arg : Bytes) (acc : List Ev) :
    handleCmd e s name arg acc =
      if !commandNames.contains name then say s 500 acc
      else if notImplemented.contains name then say s 502 acc
      else if name == Bytes.ofAscii "VRFY" then say s 252 acc
      else if name == Bytes.ofAscii "NOOP" then say s 250 acc
      else if name == Bytes.ofAscii "RSET" then say (reset s) 250 acc
      else if name == Bytes.ofAscii "QUIT" then ({ send s 1 with st := .quit }, .reply [221] :: acc)
      else stateCmd e s name arg acc := rfl


/-! ### MAIL and RCPT: syntactic part, then the hook / policy decision -/

def hookAction (ans : Option HookAns) : Action :=
  match ans with | some a => a.action | none => .defer

/-- the SIZE parameter check of MAIL: `none` = fine, `some code` = refuse with that code -/
def sizeCheck (e : Env) (params : Bytes) : Option Nat :=
  if params.isEmpty then none
  else match e.parseArgs params with
    | none => some 501
    | some pairs =>
      let sz := sizeArg pairs
      if sz.isEmpty then none
      else match parseInt32 sz with
        | none => some 501
        | some n => if n > e.maxBytes then some 552 else none

/-- everything MAIL checks before hooks and policy: `.inl code` = refused, `.inr (addr, local, domain)` -/
def mailSyntax (e : Env) (arg : Bytes) : Nat ⊕ (Bytes × Bytes × Bytes) :=
  match e.mailRe arg with
  | none => .inl 501
  | some (addr, params) =>
    match sizeCheck e params with
    | some code => .inl code
    | none =>
      match Addr.parseOrigin e.ip addr with
      | none => .inl 501
      | some (l, d) => .inr (addr, l, d)

def mailDecide (e : Env) (s : Sess) (addr l d : Bytes) (acc : List Ev) : Sess × List Ev :=
  if hookAction (e.hookMail addr) == .deny then
    match e.hookMail addr with
    | some a => (send s 1, .hookReply a.code a.msg :: acc)
    | none => say s 501 acc
  else
    if hookAction (e.hookMail addr) == .defer && !Policy.shouldAcceptOrigin e.pol d then
      say { s with sender := some { addr := addr, localPart := l, domain := d } } 501 acc
    else say { s with sender := some { addr := addr, localPart := l, domain := d }, st := .mail } 250 acc

theorem mailFrom_eq (e : Env) (s : Sess) (arg : Bytes) (acc : List Ev) :
    mailFrom e s arg acc =
      match mailSyntax e arg with
      | .inl c => say s c acc
      | .inr (addr, l, d) => mailDecide e s addr l d acc := by
  unfold mailFrom mailSyntax
  cases e.mailRe arg with
  | none => rfl
  | some ap =>
    obtain ⟨addr, params⟩ := ap
    simp only []
    change (match sizeCheck e params with
      | some code => say s code acc
      | none => _) = _
    cases sizeCheck e params with
    | some c => rfl
    | none =>
      simp only []
      cases Addr.parseOrigin e.ip addr with
      | none => rfl
      | some ld => rfl


/-- everything RCPT checks before hooks and policy: the trimmed address and the recipient it names -/
def rcptSyntax (e : Env) (arg : Bytes) : Option (Bytes × Addr.Recipient) :=
  if arg.length < 4 || upper (arg.take 3) != Bytes.ofAscii "TO:" then none
  else
    match Addr.newRecipient e.ip e.naming (trimCut (fun c => c == 60 || c == 62 || c == 32) (arg.drop 3)) with
    | none => none
    | some r => some (trimCut (fun c => c == 60 || c == 62 || c == 32) (arg.drop 3), r)

/-- the answer of the BeforeRcptToAccepted hook for candidate `addr` in session `s` -/
def rcptAns (e : Env) (s : Sess) (addr : Bytes) : Option HookAns :=
  e.hookRcpt (s.sender.map (·.addr)) (s.rcpts.map (·.addr) ++ [addr])

def rcptDecide (e : Env) (s : Sess) (addr : Bytes) (r : Addr.Recipient) (acc : List Ev) : Sess × List Ev :=
  if hookAction (rcptAns e s addr) == .deny then
    match rcptAns e s addr with
    | some a => (send s 1, .hookReply a.code a.msg :: acc)
    | none => say s 501 acc
  else if hookAction (rcptAns e s addr) == .defer && !Policy.shouldAccept e.pol r.domain then say s 550 acc
  else if (s.rcpts.length : Int) ≥ e.maxRcpt then say s 552 acc
  else say { s with rcpts := s.rcpts ++ [r] } 250 acc

theorem rcptTo_eq (e : Env) (s : Sess) (arg : Bytes) (acc : List Ev) :
    rcptTo e s arg acc =
      match rcptSyntax e arg with
      | none => say s 501 acc
      | some (addr, r) => rcptDecide e s addr r acc := by
  unfold rcptTo rcptSyntax
  split
  · rfl
  · simp only []
    cases Addr.newRecipient e.ip e.naming (trimCut (fun c => c == 60 || c == 62 || c == 32) (arg.drop 3)) with
    | none => rfl
    | some r => rfl


/-! one equation per outcome of the decisions -/

theorem mailDecide_deny (e : Env) (s : Sess) (addr l d : Bytes) (acc : List Ev) (a : HookAns)
    (h : e.hookMail addr = some a) (hd : a.action = .deny) :
    mailDecide e s addr l d acc = (send s 1, .hookReply a.code a.msg :: acc) := by
  simp [mailDecide, hookAction, h, hd]

theorem mailDecide_refuse (e : Env) (s : Sess) (addr l d : Bytes) (acc : List Ev)
    (h : hookAction (e.hookMail addr) = .defer) (hp : Policy.shouldAcceptOrigin e.pol d = false) :
    mailDecide e s addr l d acc =
      say { s with sender := some { addr := addr, localPart := l, domain := d } } 501 acc := by
  simp [mailDecide, h, hp]

theorem mailDecide_accept (e : Env) (s : Sess) (addr l d : Bytes) (acc : List Ev)
    (h : hookAction (e.hookMail addr) = .allow ∨
         (hookAction (e.hookMail addr) = .defer ∧ Policy.shouldAcceptOrigin e.pol d = true)) :
    mailDecide e s addr l d acc =
      say { s with sender := some { addr := addr, localPart := l, domain := d }, st := .mail } 250 acc := by
  rcases h with h | ⟨h, hp⟩ <;> simp [mailDecide, *]

theorem hookAction_deny (ans : Option HookAns) (h : hookAction ans = .deny) :
    ∃ a, ans = some a ∧ a.action = .deny := by
  cases ans with
  | none => simp [hookAction] at h
  | some a => exact ⟨a, rfl, h⟩

theorem rcptDecide_deny (e : Env) (s : Sess) (addr : Bytes) (r : Addr.Recipient) (acc : List Ev) (a : HookAns)
    (h : rcptAns e s addr = some a) (hd : a.action = .deny) :
    rcptDecide e s addr r acc = (send s 1, .hookReply a.code a.msg :: acc) := by
  simp [rcptDecide, hookAction, h, hd]

theorem rcptDecide_550 (e : Env) (s : Sess) (addr : Bytes) (r : Addr.Recipient) (acc : List Ev)
    (h : hookAction (rcptAns e s addr) = .defer) (hp : Policy.shouldAccept e.pol r.domain = false) :
    rcptDecide e s addr r acc = say s 550 acc := by
  simp [rcptDecide, h, hp]

theorem rcptDecide_552 (e : Env) (s : Sess) (addr : Bytes) (r : Addr.Recipient) (acc : List Ev)
    (h : hookAction (rcptAns e s addr) = .allow ∨
         (hookAction (rcptAns e s addr) = .defer ∧ Policy.shouldAccept e.pol r.domain = true))
    (hl : (s.rcpts.length : Int) ≥ e.maxRcpt) :
    rcptDecide e s addr r acc = say s 552 acc := by
  rcases h with h | ⟨h, hp⟩ <;> simp [rcptDecide, *]

theorem rcptDecide_250 (e : Env) (s : Sess) (addr : Bytes) (r : Addr.Recipient) (acc : List Ev)
    (h : hookAction (rcptAns e s addr) = .allow ∨
         (hookAction (rcptAns e s addr) = .defer ∧ Policy.shouldAccept e.pol r.domain = true))
    (hl : (s.rcpts.length : Int) < e.maxRcpt) :
    rcptDecide e s addr r acc = say { s with rcpts := s.rcpts ++ [r] } 250 acc := by
  have hl' : ¬ ((s.rcpts.length : Int) ≥ e.maxRcpt) := by omega
  rcases h with h | ⟨h, hp⟩ <;> simp [rcptDecide, *]

/-- the four outcomes of MAIL's decision -/
theorem mailDecide_cases (e : Env) (addr d : Bytes) :
    (∃ a, e.hookMail addr = some a ∧ a.action = .deny) ∨
    (hookAction (e.hookMail addr) = .defer ∧ Policy.shouldAcceptOrigin e.pol d = false) ∨
    (hookAction (e.hookMail addr) = .allow ∨
      (hookAction (e.hookMail addr) = .defer ∧ Policy.shouldAcceptOrigin e.pol d = true)) := by
  cases h : hookAction (e.hookMail addr) with
  | deny => exact .inl (hookAction_deny _ h)
  | allow => simp
  | defer => cases Policy.shouldAcceptOrigin e.pol d <;> simp

/-- the outcomes of RCPT's decision (before the limit) -/
theorem rcptDecide_cases (e : Env) (s : Sess) (addr : Bytes) (r : Addr.Recipient) :
    (∃ a, rcptAns e s addr = some a ∧ a.action = .deny) ∨
    (hookAction (rcptAns e s addr) = .defer ∧ Policy.shouldAccept e.pol r.domain = false) ∨
    (hookAction (rcptAns e s addr) = .allow ∨
      (hookAction (rcptAns e s addr) = .defer ∧ Policy.shouldAccept e.pol r.domain = true)) := by
  cases h : hookAction (rcptAns e s addr) with
  | deny => exact .inl (hookAction_deny _ h)
  | allow => simp
  | defer => cases Policy.shouldAccept e.pol r.domain <;> simp

/-! ### the transition table (DESIGN.md Appendix C.1) as a relation -/

/-- `Step e s line s' evs`: the command line `line` read in session state `s` leads to `s'` and emits the
    events `evs` (newest first; at most one).  One constructor per row of the table. -/
inductive Step (e : Env) (s : Sess) (line : Bytes) : Sess → List Ev → Prop
  | login (h : s.st = .login) : Step e s line (send { s with st := .password } 1) [.reply [334]]
  | password (h : s.st = .password) : Step e s line (send { s with st := .ready } 1) [.reply [235]]
  /-- a reply without any effect on state or envelope -/
  | plain (c : Nat) (h1 : s.st ≠ .login) (h2 : s.st ≠ .password)
      (hc : c ∈ [500, 502, 252, 501, 503, 454, 235, 550, 552]) : Step e s line (send s 1) [.reply [c]]
  | noop (arg : Bytes) (hp : parseCmd line = .cmd (ofAscii "NOOP") arg) (h1 : s.st ≠ .login) (h2 : s.st ≠ .password) :
      Step e s line (send s 1) [.reply [250]]
  /-- MAIL / RCPT denied by a hook: its code and text, no effect -/
  | hook (code : Nat) (msg : Bytes) (h1 : s.st = .ready ∨ s.st = .mail) :
      Step e s line (send s 1) [.hookReply code msg]
  /-- RSET in any state, EHLO in READY / MAIL -/
  | rset (name arg : Bytes) (hp : parseCmd line = .cmd name arg) (h1 : s.st ≠ .login) (h2 : s.st ≠ .password)
      (hn : name = ofAscii "RSET" ∨ (name = ofAscii "EHLO" ∧ (s.st = .ready ∨ s.st = .mail))) :
      Step e s line (send (reset s) 1) [.reply [250]]
  | quit (arg : Bytes) (hp : parseCmd line = .cmd (ofAscii "QUIT") arg) (h1 : s.st ≠ .login) (h2 : s.st ≠ .password) :
      Step e s line { send s 1 with st := .quit } [.reply [221]]
  | helo (arg : Bytes) (hp : parseCmd line = .cmd (ofAscii "HELO") arg) (hs : s.st = .greet) (ha : arg ≠ []) :
      Step e s line (send { s with st := .ready, remoteDomain := arg.takeWhile (· != 32) } 1) [.reply [250]]
  | ehlo (arg : Bytes) (hp : parseCmd line = .cmd (ofAscii "EHLO") arg) (hs : s.st = .greet) (ha : arg ≠ []) :
      Step e s line { send s (ehloLines e s) with st := .ready, remoteDomain := arg.takeWhile (· != 32) }
        [.reply (List.replicate (ehloLines e s) 250)]
  /-- the accepted STARTTLS: "220", the connection is wrapped, tlsState recorded, back to GREET -/
  | starttls (arg : Bytes) (hp : parseCmd line = .cmd (ofAscii "STARTTLS") arg) (hs : s.st = .ready)
      (he : e.tlsEnabled = true) (ht : s.tls = false) :
      Step e s line (send { s with st := .greet, tls := true } 1) [.reply [220]]
  | authLogin (arg : Bytes) (hp : parseCmd line = .cmd (ofAscii "AUTH") arg) (hs : s.st = .ready) :
      Step e s line (send { s with st := .login } 1) [.reply [334]]
  /-- MAIL refused by the origin policy: the sender is recorded but the state stays READY -/
  | mailOrigin (arg addr l d : Bytes) (hp : parseCmd line = .cmd (ofAscii "MAIL") arg) (hs : s.st = .ready)
      (hsyn : mailSyntax e arg = .inr (addr, l, d)) :
      Step e s line (send { s with sender := some { addr := addr, localPart := l, domain := d } } 1) [.reply [501]]
  | mailOk (arg addr l d : Bytes) (hp : parseCmd line = .cmd (ofAscii "MAIL") arg) (hs : s.st = .ready)
      (hsyn : mailSyntax e arg = .inr (addr, l, d)) :
      Step e s line (send { s with sender := some { addr := addr, localPart := l, domain := d }, st := .mail } 1)
        [.reply [250]]
  | rcptOk (arg addr : Bytes) (r : Addr.Recipient) (hp : parseCmd line = .cmd (ofAscii "RCPT") arg) (hs : s.st = .mail)
      (hsyn : rcptSyntax e arg = some (addr, r)) (hl : (s.rcpts.length : Int) < e.maxRcpt) :
      Step e s line (send { s with rcpts := s.rcpts ++ [r] } 1) [.reply [250]]
  /-- the accepted DATA command: no reply yet (the 354 opens the data phase) -/
  | data (hp : parseCmd line = .cmd (ofAscii "DATA") []) (hs : s.st = .mail) (hr : s.rcpts ≠ []) :
      Step e s line { s with st := .data } []
  /-- states the command loop never dispatches from -/
  | stuck (hs : s.st = .data ∨ s.st = .quit) : Step e s line s []

theorem sizeCheck_some (e : Env) (params : Bytes) (c : Nat) (h : sizeCheck e params = some c) :
    c = 501 ∨ c = 552 := by
  unfold sizeCheck at h
  split at h
  · simp at h
  · split at h
    · simp at h; exact .inl h.symm
    · simp only [] at h
      split at h
      · simp at h
      · split at h
        · simp at h; exact .inl h.symm
        · split at h <;> simp at h
          exact .inr h.symm

theorem mailSyntax_inl (e : Env) (arg : Bytes) (c : Nat) (h : mailSyntax e arg = .inl c) :
    c = 501 ∨ c = 552 := by
  unfold mailSyntax at h
  split at h
  · simp at h; exact .inl h.symm
  · split at h
    · rename_i code hsz
      simp at h; subst h
      exact sizeCheck_some _ _ _ hsz
    · split at h
      · simp at h; exact .inl h.symm
      · simp at h

theorem mailFrom_step (e : Env) (s : Sess) (line arg : Bytes) (hp : parseCmd line = .cmd (ofAscii "MAIL") arg)
    (hs : s.st = .ready) : Step e s line (mailFrom e s arg []).1 (mailFrom e s arg []).2 := by
  have h1 : s.st ≠ .login := by simp [hs]
  have h2 : s.st ≠ .password := by simp [hs]
  rw [mailFrom_eq]
  split
  · rename_i c hc
    have : c = 501 ∨ c = 552 := mailSyntax_inl e arg c hc
    rcases this with rfl | rfl <;> exact .plain _ h1 h2 (by simp)
  · rename_i addr l d hsyn
    rcases mailDecide_cases e addr d with ⟨a, ha, hd⟩ | ⟨h, hpol⟩ | h
    · rw [mailDecide_deny _ _ _ _ _ _ a ha hd]; exact .hook _ _ (.inl hs)
    · rw [mailDecide_refuse _ _ _ _ _ _ h hpol]; exact .mailOrigin arg addr l d hp hs hsyn
    · rw [mailDecide_accept _ _ _ _ _ _ h]; exact .mailOk arg addr l d hp hs hsyn

theorem rcptTo_step (e : Env) (s : Sess) (line arg : Bytes) (hp : parseCmd line = .cmd (ofAscii "RCPT") arg)
    (hs : s.st = .mail) : Step e s line (rcptTo e s arg []).1 (rcptTo e s arg []).2 := by
  have h1 : s.st ≠ .login := by simp [hs]
  have h2 : s.st ≠ .password := by simp [hs]
  rw [rcptTo_eq]
  split
  · exact .plain _ h1 h2 (by simp)
  · rename_i addr r hsyn
    rcases rcptDecide_cases e s addr r with ⟨a, ha, hd⟩ | ⟨h, hpol⟩ | h
    · rw [rcptDecide_deny _ _ _ _ _ a ha hd]; exact .hook _ _ (.inr hs)
    · rw [rcptDecide_550 _ _ _ _ _ h hpol]; exact .plain _ h1 h2 (by simp)
    · by_cases hl : (s.rcpts.length : Int) < e.maxRcpt
      · rw [rcptDecide_250 _ _ _ _ _ h hl]; exact .rcptOk arg addr r hp hs hsyn hl
      · rw [rcptDecide_552 _ _ _ _ _ h (by omega)]; exact .plain _ h1 h2 (by simp)


/-- every command line takes one row of the transition table -/
theorem handleLine_step (e : Env) (s : Sess) (line : Bytes) :
    Step e s line (handleLine e s line []).1 (handleLine e s line []).2 := by
  unfold handleLine
  split
  · exact .login ‹_›
  · exact .password ‹_›
  · rename_i h1 h2
    have h1 : s.st ≠ .login := h1
    have h2 : s.st ≠ .password := h2
    split
    · exact .plain _ h1 h2 (by simp)
    · exact .plain _ h1 h2 (by simp)
    · rename_i name arg hp
      rw [handleCmd_eq]
      split
      · exact .plain _ h1 h2 (by simp)
      split
      · exact .plain _ h1 h2 (by simp)
      split
      · exact .plain _ h1 h2 (by simp)
      split
      · rename_i hn
        have hn : name = ofAscii "NOOP" := by simpa using hn
        subst hn
        exact .noop arg hp h1 h2
      split
      · rename_i hn
        exact .rset name arg hp h1 h2 (.inl (by simpa using hn))
      split
      · rename_i hn
        have hn : name = ofAscii "QUIT" := by simpa using hn
        subst hn
        exact .quit arg hp h1 h2
      unfold stateCmd
      split
      · rename_i hs
        unfold greetCmd
        split
        · rename_i hn
          have hn : name = ofAscii "HELO" := by simpa using hn
          subst hn
          split
          · exact .plain _ h1 h2 (by simp)
          · rename_i ha
            exact .helo arg hp hs (by simpa using ha)
        · split
          · rename_i hn
            have hn : name = ofAscii "EHLO" := by simpa using hn
            subst hn
            split
            · exact .plain _ h1 h2 (by simp)
            · rename_i ha
              exact .ehlo arg hp hs (by simpa using ha)
          · exact .plain _ h1 h2 (by simp)
      · rename_i hs
        unfold readyCmd
        split
        · rename_i hn
          have hn : name = ofAscii "STARTTLS" := by simpa using hn
          subst hn
          split
          · exact .plain _ h1 h2 (by simp)
          · split
            · exact .plain _ h1 h2 (by simp)
            · rename_i he ht
              exact .starttls arg hp hs (by simpa using he) (by simpa using ht)
        split
        · rename_i hn
          have hn : name = ofAscii "AUTH" := by simpa using hn
          subst hn
          split
          rename_i n method _
          split
          · split <;> exact .plain _ h1 h2 (by simp)
          · split
            · exact .authLogin arg hp hs
            · exact .plain _ h1 h2 (by simp)
        split
        · rename_i hn
          have hn : name = ofAscii "MAIL" := by simpa using hn
          subst hn
          exact mailFrom_step e s line arg hp hs
        split
        · rename_i hn
          exact .rset name arg hp h1 h2 (.inr ⟨by simpa using hn, .inl hs⟩)
        · exact .plain _ h1 h2 (by simp)
      · rename_i hs
        unfold mailCmd
        split
        · rename_i hn
          have hn : name = ofAscii "RCPT" := by simpa using hn
          subst hn
          exact rcptTo_step e s line arg hp hs
        split
        · rename_i hn
          have hn : name = ofAscii "DATA" := by simpa using hn
          subst hn
          split
          · exact .plain _ h1 h2 (by simp)
          · rename_i ha
            have ha : arg = [] := by simpa using ha
            subst ha
            split
            · exact .plain _ h1 h2 (by simp)
            · rename_i hr
              exact .data hp hs (by simpa using hr)
        split
        · rename_i hn
          exact .rset name arg hp h1 h2 (.inr ⟨by simpa using hn, .inr hs⟩)
        · exact .plain _ h1 h2 (by simp)
      · rename_i hg hr hm
        have : s.st = .data ∨ s.st = .quit := by
          cases hst : s.st <;> simp_all
        exact .stuck this

/-! ### accumulator independence: the events of a step are pushed onto `acc`, nothing else -/

theorem mailDecide_acc (e : Env) (s : Sess) (addr l d : Bytes) (acc : List Ev) :
    mailDecide e s addr l d acc = ((mailDecide e s addr l d []).1, (mailDecide e s addr l d []).2 ++ acc) := by
  unfold mailDecide
  repeat' split
  all_goals simp [say]

theorem mailFrom_acc (e : Env) (s : Sess) (arg : Bytes) (acc : List Ev) :
    mailFrom e s arg acc = ((mailFrom e s arg []).1, (mailFrom e s arg []).2 ++ acc) := by
  rw [mailFrom_eq, mailFrom_eq e s arg []]
  split
  · simp [say]
  · exact mailDecide_acc ..

theorem rcptDecide_acc (e : Env) (s : Sess) (addr : Bytes) (r : Addr.Recipient) (acc : List Ev) :
    rcptDecide e s addr r acc = ((rcptDecide e s addr r []).1, (rcptDecide e s addr r []).2 ++ acc) := by
  unfold rcptDecide
  repeat' split
  all_goals simp [say]

theorem rcptTo_acc (e : Env) (s : Sess) (arg : Bytes) (acc : List Ev) :
    rcptTo e s arg acc = ((rcptTo e s arg []).1, (rcptTo e s arg []).2 ++ acc) := by
  rw [rcptTo_eq, rcptTo_eq e s arg []]
  split
  · simp [say]
  · exact rcptDecide_acc ..

theorem stateCmd_acc (e : Env) (s : Sess) (name arg : Bytes) (acc : List Ev) :
    stateCmd e s name arg acc = ((stateCmd e s name arg []).1, (stateCmd e s name arg []).2 ++ acc) := by
  unfold stateCmd
  split
  · unfold greetCmd; repeat' split
    all_goals simp [say]
  · unfold readyCmd; repeat' split
    all_goals first | exact mailFrom_acc .. | simp [say]
  · unfold mailCmd; repeat' split
    all_goals first | exact rcptTo_acc .. | simp [say]
  · simp

theorem handleCmd_acc (e : Env) (s : Sess) (name arg : Bytes) (acc : List Ev) :
    handleCmd e s name arg acc = ((handleCmd e s name arg []).1, (handleCmd e s name arg []).2 ++ acc) := by
  simp only [handleCmd_eq]
  repeat' split
  all_goals first | exact stateCmd_acc .. | simp [say]

theorem handleLine_acc (e : Env) (s : Sess) (line : Bytes) (acc : List Ev) :
    handleLine e s line acc = ((handleLine e s line []).1, (handleLine e s line []).2 ++ acc) := by
  unfold handleLine
  repeat' split
  all_goals first | exact handleCmd_acc .. | simp [say]


/-! ### the I/O fields do not influence a step -/

theorem erase_upd_send (s : Sess) (n : Nat) (f : Sess → Sess) (hf : ∀ t, f (erase t) = erase (f t)) :
    send (f (erase s)) n = erase (send (f s) n) := by
  rw [hf, send_erase, erase_send]

theorem mailDecide_erase (e : Env) (s : Sess) (addr l d : Bytes) (acc : List Ev) :
    mailDecide e (erase s) addr l d acc =
      (erase (mailDecide e s addr l d acc).1, (mailDecide e s addr l d acc).2) := by
  unfold mailDecide
  repeat' split
  all_goals simp [say]
  all_goals rfl

theorem mailFrom_erase (e : Env) (s : Sess) (arg : Bytes) (acc : List Ev) :
    mailFrom e (erase s) arg acc = (erase (mailFrom e s arg acc).1, (mailFrom e s arg acc).2) := by
  rw [mailFrom_eq, mailFrom_eq e s]
  split
  · simp [say]
  · exact mailDecide_erase ..

theorem rcptDecide_erase (e : Env) (s : Sess) (addr : Bytes) (r : Addr.Recipient) (acc : List Ev) :
    rcptDecide e (erase s) addr r acc =
      (erase (rcptDecide e s addr r acc).1, (rcptDecide e s addr r acc).2) := by
  have hans : rcptAns e (erase s) addr = rcptAns e s addr := rfl
  unfold rcptDecide
  rw [hans]
  simp only [erase_rcpts]
  repeat' split
  all_goals simp_all [say]
  all_goals first | rfl | (rw [if_neg (by omega)]; rfl)

theorem rcptTo_erase (e : Env) (s : Sess) (arg : Bytes) (acc : List Ev) :
    rcptTo e (erase s) arg acc = (erase (rcptTo e s arg acc).1, (rcptTo e s arg acc).2) := by
  rw [rcptTo_eq, rcptTo_eq e s]
  split
  · simp [say]
  · exact rcptDecide_erase ..

theorem stateCmd_erase (e : Env) (s : Sess) (name arg : Bytes) (acc : List Ev) :
    stateCmd e (erase s) name arg acc = (erase (stateCmd e s name arg acc).1, (stateCmd e s name arg acc).2) := by
  unfold stateCmd
  simp only [erase_st]
  split
  · unfold greetCmd; simp only [ehloLines_erase]; repeat' split
    all_goals simp [say]
    all_goals rfl
  · unfold readyCmd; simp only [erase_tls]; repeat' split
    all_goals first | exact mailFrom_erase .. | simp_all [say]
    all_goals rfl
  · unfold mailCmd
    simp only [erase_rcpts]
    repeat' split
    all_goals first | exact rcptTo_erase .. | simp_all [say]
    all_goals rfl
  · rfl

theorem handleCmd_erase (e : Env) (s : Sess) (name arg : Bytes) (acc : List Ev) :
    handleCmd e (erase s) name arg acc = (erase (handleCmd e s name arg acc).1, (handleCmd e s name arg acc).2) := by
  simp only [handleCmd_eq]
  repeat' split
  all_goals first | exact stateCmd_erase .. | simp [say]
  all_goals rfl

/-- a step in the session with the I/O fields forgotten is the step with the I/O fields forgotten -/
theorem handleLine_erase (e : Env) (s : Sess) (line : Bytes) (acc : List Ev) :
    handleLine e (erase s) line acc = (erase (handleLine e s line acc).1, (handleLine e s line acc).2) := by
  unfold handleLine
  simp only [erase_st]
  repeat' split
  all_goals first | exact handleCmd_erase .. | simp [say]
  all_goals rfl


/-! ### characterisation per (state, command) -/

theorem handleLine_cmd (e : Env) (s : Sess) (line name arg : Bytes) (acc : List Ev)
    (h1 : s.st ≠ .login) (h2 : s.st ≠ .password) (hp : parseCmd line = .cmd name arg) :
    handleLine e s line acc = handleCmd e s name arg acc := by
  unfold handleLine
  split
  · exact absurd ‹_› h1
  · exact absurd ‹_› h2
  · rw [hp]

theorem handleCmd_rset (e : Env) (s : Sess) (arg : Bytes) (acc : List Ev) :
    handleCmd e s (ofAscii "RSET") arg acc = say (reset s) 250 acc := by
  rw [handleCmd_eq, if_neg (by decide), if_neg (by decide), if_neg (by decide), if_neg (by decide),
    if_pos (by decide)]

theorem handleCmd_quit (e : Env) (s : Sess) (arg : Bytes) (acc : List Ev) :
    handleCmd e s (ofAscii "QUIT") arg acc = ({ send s 1 with st := .quit }, .reply [221] :: acc) := by
  rw [handleCmd_eq, if_neg (by decide), if_neg (by decide), if_neg (by decide), if_neg (by decide),
    if_neg (by decide), if_pos (by decide)]

theorem handleCmd_state (e : Env) (s : Sess) (name arg : Bytes) (acc : List Ev) (h : anyState name = false) :
    handleCmd e s name arg acc = stateCmd e s name arg acc := by
  simp only [anyState, Bool.or_eq_false_iff] at h
  obtain ⟨⟨⟨⟨⟨a, b⟩, c⟩, d⟩, f⟩, g⟩ := h
  rw [handleCmd_eq, if_neg (by rw [a]; decide), if_neg (by rw [b]; decide), if_neg (by rw [c]; decide),
    if_neg (by rw [d]; decide), if_neg (by rw [f]; decide), if_neg (by rw [g]; decide)]

theorem handleCmd_ready_mail (e : Env) (s : Sess) (arg : Bytes) (acc : List Ev) (hs : s.st = .ready) :
    handleCmd e s (ofAscii "MAIL") arg acc = mailFrom e s arg acc := by
  rw [handleCmd_state _ _ _ _ _ (by decide)]
  unfold stateCmd
  rw [hs]
  simp only []
  unfold readyCmd
  rw [if_neg (by decide), if_neg (by decide), if_pos (by decide)]

theorem handleCmd_mail_rcpt (e : Env) (s : Sess) (arg : Bytes) (acc : List Ev) (hs : s.st = .mail) :
    handleCmd e s (ofAscii "RCPT") arg acc = rcptTo e s arg acc := by
  rw [handleCmd_state _ _ _ _ _ (by decide)]
  unfold stateCmd
  rw [hs]
  simp only []
  unfold mailCmd
  rw [if_pos (by decide)]

theorem handleCmd_mail_data (e : Env) (s : Sess) (acc : List Ev) (hs : s.st = .mail) (hr : s.rcpts ≠ []) :
    handleCmd e s (ofAscii "DATA") [] acc = ({ s with st := .data }, acc) := by
  rw [handleCmd_state _ _ _ _ _ (by decide)]
  unfold stateCmd
  rw [hs]
  simp only []
  unfold mailCmd
  rw [if_neg (by decide), if_pos (by decide), if_neg (by decide), if_neg (by simpa using hr)]

theorem handleCmd_ehlo_reset (e : Env) (s : Sess) (arg : Bytes) (acc : List Ev) (hs : s.st = .ready ∨ s.st = .mail) :
    handleCmd e s (ofAscii "EHLO") arg acc = say (reset s) 250 acc := by
  rw [handleCmd_state _ _ _ _ _ (by decide)]
  unfold stateCmd
  rcases hs with hs | hs <;> rw [hs] <;> simp only []
  · unfold readyCmd
    rw [if_neg (by decide), if_neg (by decide), if_neg (by decide), if_pos (by decide)]
  · unfold mailCmd
    rw [if_neg (by decide), if_neg (by decide), if_pos (by decide)]

theorem handleCmd_greet_helo (e : Env) (s : Sess) (arg : Bytes) (acc : List Ev) (hs : s.st = .greet) (ha : arg ≠ []) :
    handleCmd e s (ofAscii "HELO") arg acc =
      say { s with st := .ready, remoteDomain := arg.takeWhile (· != 32) } 250 acc := by
  rw [handleCmd_state _ _ _ _ _ (by decide)]
  unfold stateCmd
  rw [hs]
  simp only []
  unfold greetCmd
  rw [if_pos (by decide), if_neg (by simpa using ha)]

/-! ### Deliver and the data phase -/

@[simp] theorem traceHeaders_send (e : Env) (s : Sess) (n : Nat) (mb : Bytes) :
    traceHeaders e (send s n) mb = traceHeaders e s mb := by
  simp [traceHeaders]

@[simp] theorem traceHeaders_erase (e : Env) (s : Sess) (mb : Bytes) :
    traceHeaders e (erase s) mb = traceHeaders e s mb := rfl

/-- the event of one successful AddMessage -/
def storedEv (e : Env) (s : Sess) (ib : Inbound) (date : Int) (data mb : Bytes) : Ev :=
  .stored { mailbox := mb, hdr := { sender := ib.sender, rcpts := ib.rcpts, subject := ib.subject, date := date },
            source := traceHeaders e s mb ++ data }

theorem storeLoop_acc (e : Env) (s : Sess) (ib : Inbound) (date : Int) (data : Bytes) (mbs : List Bytes) (acc : List Ev) :
    storeLoop e s ib date data mbs acc =
      ((storeLoop e s ib date data mbs []).1, (storeLoop e s ib date data mbs []).2 ++ acc) := by
  induction mbs generalizing acc with
  | nil => simp [storeLoop]
  | cons mb rest ih =>
    unfold storeLoop
    split
    · simp
    · simp only []
      rw [ih, ih [_]]
      simp

/-- all mailboxes writable: one stored event per mailbox, in order -/
theorem storeLoop_all_ok (e : Env) (s : Sess) (ib : Inbound) (date : Int) (data : Bytes) (mbs : List Bytes)
    (acc : List Ev) (h : ∀ mb ∈ mbs, e.storeFails mb = false) :
    storeLoop e s ib date data mbs acc = (true, (mbs.map (storedEv e s ib date data)).reverse ++ acc) := by
  induction mbs generalizing acc with
  | nil => simp [storeLoop]
  | cons mb rest ih =>
    unfold storeLoop
    rw [if_neg (by simp [h mb (by simp)])]
    simp only []
    rw [ih _ (fun x hx => h x (by simp [hx]))]
    simp [storedEv]

/-- the first failing mailbox stops the loop: the copies before it remain, nothing after it is written -/
theorem storeLoop_fail (e : Env) (s : Sess) (ib : Inbound) (date : Int) (data : Bytes) (pre : List Bytes) (mb : Bytes)
    (post : List Bytes) (acc : List Ev) (hpre : ∀ x ∈ pre, e.storeFails x = false) (hmb : e.storeFails mb = true) :
    storeLoop e s ib date data (pre ++ mb :: post) acc =
      (false, .deliverFailed :: ((pre.map (storedEv e s ib date data)).reverse ++ acc)) := by
  induction pre generalizing acc with
  | nil => simp [storeLoop, hmb]
  | cons x rest ih =>
    simp only [List.cons_append]
    unfold storeLoop
    rw [if_neg (by simp [hpre x (by simp)])]
    simp only []
    rw [ih _ (fun y hy => hpre y (by simp [hy]))]
    simp [storedEv]

/-- shape of the loop's events in general: stored events for a prefix of the mailboxes, then possibly one failure -/
theorem storeLoop_shape (e : Env) (s : Sess) (ib : Inbound) (date : Int) (data : Bytes) (mbs : List Bytes) (acc : List Ev) :
    ∃ pre, pre <+: mbs ∧
      ((storeLoop e s ib date data mbs acc = (true, (pre.map (storedEv e s ib date data)).reverse ++ acc) ∧ pre = mbs) ∨
       storeLoop e s ib date data mbs acc =
         (false, .deliverFailed :: ((pre.map (storedEv e s ib date data)).reverse ++ acc))) := by
  induction mbs generalizing acc with
  | nil => exact ⟨[], by simp, .inl (by simp [storeLoop])⟩
  | cons mb rest ih =>
    unfold storeLoop
    by_cases hf : e.storeFails mb = true
    · exact ⟨[], by simp, .inr (by simp [hf])⟩
    · rw [if_neg hf]
      simp only []
      obtain ⟨pre, hpre, h⟩ := ih (.stored { mailbox := mb, hdr := { sender := ib.sender, rcpts := ib.rcpts, subject := ib.subject, date := date }, source := traceHeaders e s mb ++ data } :: acc)
      refine ⟨mb :: pre, ?_, ?_⟩
      · obtain ⟨t, rfl⟩ := hpre; exact ⟨t, by simp⟩
      · rcases h with ⟨h, rfl⟩ | h
        · exact .inl ⟨by rw [h]; simp [storedEv], rfl⟩
        · exact .inr (by rw [h]; simp [storedEv])

/-- the inbound message Deliver builds from the envelope and the parsed headers -/
def inbound (s : Sess) (h : HdrInfo) : Inbound :=
  { mailboxes := s.rcpts.map (·.mailbox),
    sender := h.sender.getD (match s.sender with | some o => o.addr | none => []),
    rcpts := h.rcpts.getD (s.rcpts.map (·.addr)), subject := h.subject }

/-- after the BeforeMessageStored hook, or else the store policy -/
def finalInbound (e : Env) (s : Sess) (h : HdrInfo) : Inbound :=
  match e.hookStored (inbound s h) with
  | some r => r
  | none => { inbound s h with
              mailboxes := (s.rcpts.filter (fun r => Policy.shouldStore e.pol r.domain)).map (·.mailbox) }

theorem deliver_hdr_none (e : Env) (s : Sess) (data : Bytes) (acc : List Ev) (h : e.hdr data = none) :
    deliver e s data acc = (false, .deliverFailed :: acc) := by
  simp [deliver, h]

theorem deliver_hdr_some (e : Env) (s : Sess) (data : Bytes) (acc : List Ev) (h : HdrInfo) (hh : e.hdr data = some h) :
    deliver e s data acc =
      storeLoop e s (finalInbound e s h) 0 data (finalInbound e s h).mailboxes acc := by
  unfold deliver
  rw [hh]
  simp only [finalInbound, inbound]
  cases e.hookStored _ <;> rfl

theorem deliver_acc (e : Env) (s : Sess) (data : Bytes) (acc : List Ev) :
    deliver e s data acc = ((deliver e s data []).1, (deliver e s data []).2 ++ acc) := by
  cases hh : e.hdr data with
  | none => simp [deliver_hdr_none _ _ _ _ hh]
  | some h => rw [deliver_hdr_some _ _ _ _ h hh, deliver_hdr_some _ _ _ _ h hh]; exact storeLoop_acc ..

theorem handleData_acc (e : Env) (s : Sess) (block : Bytes) (acc : List Ev) :
    handleData e s block acc = ((handleData e s block []).1, (handleData e s block []).2 ++ acc) := by
  unfold handleData
  split
  · simp [say]
  · rw [deliver_acc]
    simp only []
    split <;> simp [say]

@[simp] theorem handleData_fst (e : Env) (s : Sess) (block : Bytes) (acc : List Ev) :
    (handleData e s block acc).1 = send (reset s) 1 := by
  unfold handleData
  split
  · rfl
  · simp only []
    split <;> rfl

/-- an event the data phase may emit before its reply: a failed delivery, or one stored copy of exactly this
    block (within the size limit) behind the trace headers -/
def IsDel (e : Env) (s : Sess) (block : Bytes) (ev : Ev) : Prop :=
  ev = .deliverFailed ∨
  ∃ st, ev = .stored st ∧ st.source = traceHeaders e s st.mailbox ++ block ∧ (block.length : Int) ≤ e.maxBytes

theorem deliver_dels (e : Env) (s : Sess) (block : Bytes) (hsz : (block.length : Int) ≤ e.maxBytes) :
    ∀ ev ∈ (deliver e s block []).2, IsDel e s block ev := by
  cases hh : e.hdr block with
  | none => simp [deliver_hdr_none _ _ _ _ hh, IsDel]
  | some h =>
    rw [deliver_hdr_some _ _ _ _ h hh]
    obtain ⟨pre, _, hsh⟩ := storeLoop_shape e s (finalInbound e s h) 0 block (finalInbound e s h).mailboxes []
    have key : ∀ ev ∈ (pre.map (storedEv e s (finalInbound e s h) 0 block)).reverse, IsDel e s block ev := by
      intro ev hev
      simp only [List.mem_reverse, List.mem_map] at hev
      obtain ⟨mb, _, rfl⟩ := hev
      exact .inr ⟨_, rfl, rfl, hsz⟩
    rcases hsh with ⟨hsh, _⟩ | hsh <;> rw [hsh] <;> intro ev hev
    · exact key ev (by simpa using hev)
    · simp only [List.append_nil, List.mem_cons] at hev
      rcases hev with rfl | hev
      · exact .inl rfl
      · exact key ev hev

/-- the data phase emits deliveries of this very block (never when it is over the limit), then ONE reply -/
theorem handleData_shape (e : Env) (s : Sess) (block : Bytes) :
    ∃ dels c, (handleData e s block []).2 = .reply [c] :: dels ∧ (c = 250 ∨ c = 451 ∨ c = 552) ∧
      (∀ ev ∈ dels, IsDel e s block ev) ∧ (c = 552 → dels = []) := by
  unfold handleData
  split
  · exact ⟨[], 552, rfl, by simp, by simp, fun _ => rfl⟩
  · rename_i hsz
    have hsz : (block.length : Int) ≤ e.maxBytes := by omega
    simp only []
    split
    · exact ⟨_, 250, rfl, by simp, deliver_dels e s block hsz, by simp⟩
    · exact ⟨_, 451, rfl, by simp, deliver_dels e s block hsz, by simp⟩

theorem storeLoop_erase (e : Env) (s : Sess) (ib : Inbound) (date : Int) (data : Bytes) (mbs : List Bytes) (acc : List Ev) :
    storeLoop e (erase s) ib date data mbs acc = storeLoop e s ib date data mbs acc := by
  induction mbs generalizing acc with
  | nil => rfl
  | cons mb rest ih =>
    unfold storeLoop
    split
    · rfl
    · simp only [traceHeaders_erase]; exact ih _

theorem deliver_erase (e : Env) (s : Sess) (data : Bytes) (acc : List Ev) :
    deliver e (erase s) data acc = deliver e s data acc := by
  cases hh : e.hdr data with
  | none => simp [deliver_hdr_none _ _ _ _ hh]
  | some h =>
    rw [deliver_hdr_some _ _ _ _ h hh, deliver_hdr_some _ _ _ _ h hh]
    exact storeLoop_erase ..

theorem handleData_erase (e : Env) (s : Sess) (block : Bytes) (acc : List Ev) :
    handleData e (erase s) block acc = (erase (handleData e s block acc).1, (handleData e s block acc).2) := by
  unfold handleData
  rw [deliver_erase]
  split
  · simp [say]; rfl
  · simp only []
    split <;> (simp [say]; rfl)

end Ibx.Lemmas.Smtp
