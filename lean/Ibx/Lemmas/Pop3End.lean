import Ibx.Lemmas.Pop3
/-
  Lemmas for C13End: a RETR / TOP reply leaves the session state alone.
-/
namespace Ibx.Lemmas.Pop3End
open Ibx Ibx.Model.Pop3 Ibx.Lemmas.Pop3
theorem authH_not_retr (store : Bytes → List Msg) (s : St) (v : Verb) (args : List Bytes) (s' : St) (r : Reply) (rm : List Bytes)
    (h : authH store s v args = .ok s' r rm) : (∀ z ls, r ≠ .okRetr z ls) ∧ (∀ ls, r ≠ .okTop ls) := by
  cases v <;> simp only [authH] at h <;> (repeat' split at h) <;> simp_all <;> (obtain ⟨_, rfl, _⟩ := h <;> simp)

theorem transH_retr_same (s : St) (v : Verb) (args : List Bytes) (s' : St) (r : Reply) (rm : List Bytes)
    (h : transH s v args = .ok s' r rm) (hr : (∃ z ls, r = .okRetr z ls) ∨ (∃ ls, r = .okTop ls)) : s' = s ∧ rm = [] := by
  cases v <;> simp only [transH, cmdStat, cmdList, cmdUidl, cmdDele, cmdRetr, cmdTop, cmdQuit] at h <;> (repeat' split at h) <;>
    simp_all <;> (obtain ⟨rfl, rfl, rfl⟩ := h <;> simp_all)

theorem step_retr_same (store : Bytes → List Msg) (s : St) (line : Bytes) (s' : St) (r : Reply) (rm : List Bytes)
    (h : step store s line = .ok s' r rm) (hr : (∃ z ls, r = .okRetr z ls) ∨ (∃ ls, r = .okTop ls)) :
    s' = s ∧ rm = [] ∧ s.phase = .trans := by
  unfold step at h
  split at h
  · simp at h
  · split at h
    · simp only [Outcome.ok.injEq] at h
      obtain ⟨_, rfl, _⟩ := h
      rcases hr with ⟨_, _, hr⟩ | ⟨_, hr⟩ <;> simp at hr
    · split at h
      · simp only [Outcome.ok.injEq] at h
        obtain ⟨_, rfl, _⟩ := h
        rcases hr with ⟨_, _, hr⟩ | ⟨_, hr⟩ <;> simp at hr
      · split at h
        · simp only [Outcome.ok.injEq] at h
          obtain ⟨_, rfl, _⟩ := h
          rcases hr with ⟨_, _, hr⟩ | ⟨_, hr⟩ <;> simp at hr
        · split at h
          · have := authH_not_retr _ _ _ _ _ _ _ h
            rcases hr with ⟨z, ls, hr⟩ | ⟨ls, hr⟩
            · exact absurd hr (this.1 z ls)
            · exact absurd hr (this.2 ls)
          · rename_i hph
            obtain ⟨h1, h2⟩ := transH_retr_same _ _ _ _ _ _ h hr
            exact ⟨h1, h2, hph⟩
          · simp at h

end Ibx.Lemmas.Pop3End
