import Ibx.Lemmas.AddrExtract
/-
  Helper lemmas for C04, part 5: letter case and '+extension'.
-/
namespace Ibx.Lemmas.AddrCase
open Ibx Ibx.Bytes Ibx.Model.Addr Ibx.Lemmas.AddrName Ibx.Lemmas.AddrLoop Ibx.Lemmas.AddrDom
  Ibx.Lemmas.AddrExtract Ibx.Lemmas.Addr

/-- bytes of a textual IP address: digits, hex letters, '.', ':' -/
def isIpByte (c : Nat) : Bool :=
  isDigitB c || (97 ≤ c && c ≤ 102) || (65 ≤ c && c ≤ 70) || c == 46 || c == 58

/-- hypothesis on the `net.ParseIP` parameter: the answer does not depend on letter case -/
def IpCaseInsensitive (ip : Bytes → Bool) : Prop := ∀ s, ip (lower s) = ip s

/-- hypothesis on the `net.ParseIP` parameter: only strings of digits, hex letters, '.', ':' parse -/
def IpAlphabet (ip : Bytes → Bool) : Prop := ∀ s, ip s = true → ∀ c ∈ s, isIpByte c = true

/-- `parseMailboxName` only looks at the lower-cased local part -/
theorem parseMailboxName_lower (l : Bytes) : parseMailboxName (lower l) = parseMailboxName l := by
  unfold parseMailboxName
  rw [isEmpty_lower, lower_idem]

/-- two addresses equal up to letter case split into parts equal up to letter case -/
theorem pea_case {a a' l d l' d' : Bytes} (hl : lower a = lower a')
    (hp : parseEmailAddress a = some (l, d)) (hp' : parseEmailAddress a' = some (l', d')) :
    lower l = lower l' ∧ lower d = lower d' := by
  have h1 := parseEmailAddress_lower a
  have h2 := parseEmailAddress_lower a'
  rw [hp] at h1; rw [hp', ← hl, h1] at h2
  simp only [Option.map_some, lower2, Option.some.injEq, Prod.mk.injEq] at h2
  exact h2

theorem parseMailboxName_case {l l' : Bytes} (h : lower l = lower l') :
    parseMailboxName l = parseMailboxName l' := by
  rw [← parseMailboxName_lower l, h, parseMailboxName_lower]

/-- a valid domain whose lower-casing starts with "[ipv6:" carries the tag exactly as "[IPv6:":
    any other spelling would put a 'p' into the string handed to `ParseIP` -/
theorem tag_forced {ip : Bytes → Bool} (halpha : IpAlphabet ip) {t d' : Bytes}
    (hl : lower d' = lower (ipv6Open ++ t)) (hv : validateDomainPart ip d' = true) :
    ipv6Open.isPrefixOf d' = true := by
  match d', hl with
  | c0 :: c1 :: c2 :: c3 :: c4 :: c5 :: r, hl =>
    simp only [ipv6Open, ipv6Tag, lower_cons, List.cons_append, List.cons.injEq] at hl
    obtain ⟨h0, _, h2, _, _, _, _⟩ := hl
    have e0 : c0 = 91 := by
      rcases lowerB_cases c0 with ⟨h, _, _⟩ | ⟨h, _⟩ <;> rw [h] at h0 <;> simp [lowerB] at h0 <;> omega
    subst e0
    rw [open_prefix_cons]
    simp only [beq_self_eq_true, Bool.true_and]
    cases htag : ipv6Tag.isPrefixOf (c1 :: c2 :: c3 :: c4 :: c5 :: r) with
    | true => rfl
    | false =>
      exfalso
      have hc2 : c2 = 80 ∨ c2 = 112 := by
        rcases lowerB_cases c2 with ⟨h, _, _⟩ | ⟨h, _⟩ <;> rw [h] at h2 <;> simp [lowerB] at h2 <;> omega
      rcases (vdp_inv hv).2.2 with ⟨_, hip⟩ | ⟨_, hdl⟩
      · have hmem : c2 ∈ ipArg (91 :: c1 :: c2 :: c3 :: c4 :: c5 :: r) := by
          simp [ipArg, htag, List.dropLast]
        have := halpha _ hip c2 hmem
        rcases hc2 with rfl | rfl <;> simp [isIpByte, isDigitB] at this
      · have := (label_props hdl).1 91 (by simp)
        simp [isDomByte, isDomAN, isAlphaB, isLowerB, isUpperB, isDigitB] at this
  | [], hl => simp [ipv6Open, ipv6Tag] at hl
  | [_], hl => simp [ipv6Open, ipv6Tag] at hl
  | [_, _], hl => simp [ipv6Open, ipv6Tag] at hl
  | [_, _, _], hl => simp [ipv6Open, ipv6Tag] at hl
  | [_, _, _, _], hl => simp [ipv6Open, ipv6Tag] at hl
  | [_, _, _, _, _], hl => simp [ipv6Open, ipv6Tag] at hl

/-- two valid spellings of one domain (equal up to letter case) have the same canonical form -/
theorem cd_case_eq {ip : Bytes → Bool} (halpha : IpAlphabet ip) {d d' : Bytes}
    (hl : lower d = lower d') (hv : validateDomainPart ip d = true)
    (hv' : validateDomainPart ip d' = true) : canonicalDomain d = canonicalDomain d' := by
  rcases cd_cases d with ⟨t, rfl, h⟩ | ⟨hf, h⟩ <;> rcases cd_cases d' with ⟨t', rfl, h'⟩ | ⟨hf', h'⟩
  · rw [h, h']
    simp only [lower_append] at hl
    rw [List.append_cancel_left hl]
  · have := tag_forced halpha (t := t) hl.symm hv'
    rw [hf'] at this; cases this
  · have := tag_forced halpha (t := t') hl hv
    rw [hf] at this; cases this
  · rw [h, h', hl]

theorem takeWhile_append_stop (p : Nat → Bool) (x y : Bytes) (c : Nat) (hc : p c = false) :
    (x ++ c :: y).takeWhile p = x.takeWhile p := by
  induction x with
  | nil => simp [List.takeWhile, hc]
  | cons a r ih => simp only [List.cons_append, List.takeWhile]; split <;> simp [ih]

/-- at the level of `parseMailboxName`: a '+extension' does not change the name -/
theorem parseMailboxName_plus {l e n n' : Bytes} (h : parseMailboxName (l ++ 43 :: e) = some n)
    (h' : parseMailboxName l = some n') : n = n' := by
  rw [(parseMailboxName_out h).2.1, (parseMailboxName_out h').2.1, lower_append, lower_cons]
  exact takeWhile_append_stop _ _ _ _ (by simp [lowerB])

/-- `parseLoop` over a plain prefix: fails on "..", otherwise copies -/
theorem parseLoop_plain' (s t : Bytes) (st : PState) (hp : ∀ c ∈ s, isPlainB c = true)
    (hq : st.icq = false) :
    parseLoop (s ++ t) st = if hasDotDot (st.prev :: s) then none else parseLoop t
      { i := st.i + s.length, buf := s.reverse ++ st.buf, prev := (s.getLast?).getD st.prev,
        icq := false, isq := st.isq } := by
  induction s generalizing st with
  | nil => cases st; simp_all
  | cons c rest ih =>
    rw [hasDotDot_cons2]
    by_cases hdd : st.prev = 46 ∧ c = 46
    · obtain ⟨h1, h2⟩ := hdd
      subst h2
      rw [List.cons_append, parseLoop]
      simp [h1, isAlphaB, isLowerB, isUpperB, isDigitB, isSpecialB]
    · rw [List.cons_append, parseLoop_plain_step c _ st (hp c (by simp)) hdd,
        ih _ (fun x hx => hp x (by simp [hx])) rfl]
      have : (st.prev == 46 && c == 46) = false := by
        simp only [Bool.and_eq_false_iff, beq_eq_false_iff_ne]; omega
      simp only [this, Bool.false_or]
      split
      · rfl
      · congr 2
        · simp; omega
        · simp
        · simp [List.getLast?_cons]

/-- a plain local part followed by '@': what `parseEmailAddress` returns, if anything -/
theorem pea_plain_at {l d L D : Bytes} (hl : ∀ c ∈ l, isPlainB c = true) (hne : l ≠ [])
    (h : parseEmailAddress (l ++ 64 :: d) = some (L, D)) : L = l ∧ D = d := by
  obtain ⟨_, _, b, hs, _, hp⟩ := pea_inv h
  have h64 : (l ++ 64 :: d).head? ≠ some 64 := by
    cases l with
    | nil => exact absurd rfl hne
    | cons c r =>
      intro hc; simp at hc
      have := hl c (by simp); rw [hc] at this
      simp [isPlainB, isAlphaB, isLowerB, isUpperB, isDigitB, isSpecialB] at this
  rw [(stripRoute_some hs).2.1 h64] at hp
  rw [parseLoop_plain' l _ initSt hl rfl] at hp
  split at hp
  · simp at hp
  · rw [parseLoop] at hp
    simp only [isAlphaB, isLowerB, isUpperB, isDigitB, isSpecialB, initSt] at hp
    simp at hp
    exact ⟨hp.2.2.1.symm, hp.2.2.2.symm⟩

/-- a plain local part, a '+', then anything: the local part `parseEmailAddress` returns starts with
    `l+` -/
theorem pea_plain_plus {l t L D : Bytes} (hl : ∀ c ∈ l, isPlainB c = true) (hne : l ≠ [])
    (h : parseEmailAddress (l ++ 43 :: t) = some (L, D)) : ∃ E, L = l ++ 43 :: E := by
  obtain ⟨_, _, b, hs, _, hp⟩ := pea_inv h
  have h64 : (l ++ 43 :: t).head? ≠ some 64 := by
    cases l with
    | nil => exact absurd rfl hne
    | cons c r =>
      intro hc; simp at hc
      have := hl c (by simp); rw [hc] at this
      simp [isPlainB, isAlphaB, isLowerB, isUpperB, isDigitB, isSpecialB] at this
  rw [(stripRoute_some hs).2.1 h64, parseLoop_plain' l _ initSt hl rfl] at hp
  split at hp
  · simp at hp
  · rw [parseLoop_plain_step 43 t _ (by decide) (by simp)] at hp
    obtain ⟨E, hE⟩ := parseLoop_prefix hp
    exact ⟨E, by rw [hE]; simp [initSt]⟩

end Ibx.Lemmas.AddrCase
