import Ibx.Spec.San
/- Helper lemmas for C18, text side (escaping, newline replacer, tag stripping, span cutting). -/
namespace Ibx.Lemmas.SanText
open Ibx Ibx.Model.TextHtml Ibx.Spec.San

/-! ### escape -/

theorem escape_cons (c : Nat) (t : Bytes) : escape (c :: t) = escB c ++ escape t := by
  simp [escape]

theorem escB_no_markup (a c : Nat) (h : c ∈ escB a) : isMarkup c = false := by
  unfold escB at h
  repeat' split at h
  all_goals simp [amp, apos, lt, gt, quot] at h
  all_goals simp [isMarkup]; omega

theorem escape_no_markup (t : Bytes) : ∀ c ∈ escape t, isMarkup c = false := by
  intro c hc
  simp only [escape, List.mem_flatMap] at hc
  obtain ⟨a, _, h⟩ := hc
  exact escB_no_markup a c h

theorem ampOK_escape (t : Bytes) : ampOK (escape t) = true := by
  induction t with
  | nil => simp [escape, ampOK]
  | cons c t ih =>
    rw [escape_cons]
    unfold escB
    repeat' split
    all_goals simp_all [amp, apos, lt, gt, quot, ampOK, entTails, List.isPrefixOf]

theorem ampOK_split (pre suf : Bytes) (h : ampOK (pre ++ 38 :: suf) = true) :
    ∃ e ∈ entTails, e <+: suf := by
  induction pre with
  | nil =>
    simp only [List.nil_append, ampOK, bne_self_eq_false, Bool.false_or, Bool.and_eq_true, List.any_eq_true] at h
    obtain ⟨⟨e, he, hp⟩, _⟩ := h
    exact ⟨e, he, List.isPrefixOf_iff_prefix.mp hp⟩
  | cons c pre ih =>
    simp only [List.cons_append, ampOK, Bool.and_eq_true] at h
    exact ih h.2

theorem unescape5_escape (t : Bytes) : unescape5 (escape t) = t := by
  induction t with
  | nil => simp [escape, unescape5]
  | cons c t ih =>
    rw [escape_cons]
    unfold escB
    repeat' split
    all_goals try (subst_vars; simp [amp, apos, lt, gt, quot, unescape5, ih])
    rename_i h1 h2 h3 h4 h5
    show unescape5 (c :: escape t) = c :: t
    rw [unescape5.eq_def]
    split <;> simp_all

/-! ### unamp -/

theorem mem_unamp (u : Bytes) : ∀ c ∈ unamp u, c ∈ u := by
  fun_induction unamp u with
  | case1 r ih => intro c hc; simp at hc ⊢; rcases hc with rfl | hc; simp; exact Or.inr (Or.inr (Or.inr (Or.inr (Or.inr (ih c hc)))))
  | case2 c r _ ih => intro x hx; simp at hx ⊢; rcases hx with rfl | hx; simp; exact Or.inr (ih x hx)
  | case3 => simp

/-! ### the newline replacer -/

def NoNL (x : Bytes) : Prop := ∀ c ∈ x, c ≠ 10 ∧ c ≠ 13

theorem nl_append_of_NoNL (x r : Bytes) (h : NoNL x) : nl (x ++ r) = x ++ nl r := by
  induction x with
  | nil => simp
  | cons c x ih =>
    have hc := h c (by simp)
    have hx : NoNL x := fun a ha => h a (by simp [ha])
    simp only [List.cons_append]
    rw [nl.eq_def]
    split <;> simp_all

theorem nl_append_of_head (a b : Bytes) (hb : b.head? ≠ some 10) : nl (a ++ b) = nl a ++ nl b := by
  fun_induction nl a with
  | case1 r ih => simp [nl, ih]
  | case2 r hr ih =>
    have : ∀ r', r ++ b = 10 :: r' → False := by
      intro r' h
      cases r with
      | nil => simp at h; simp [h] at hb
      | cons x r => simp at h; exact hr r (by simp [h.1])
    rw [List.cons_append, nl.eq_def]
    split
    · rename_i heq; simp at heq; exact absurd heq (this _)
    · simp_all
    · simp_all
    · simp_all
    · simp_all
  | case3 r ih => simp [nl, ih]
  | case4 c r h1 h2 h3 ih =>
    rw [List.cons_append, nl.eq_def]
    split <;> simp_all
  | case5 => simp

theorem normNL_append_of_NoNL (x r : Bytes) (h : NoNL x) : normNL (x ++ r) = x ++ normNL r := by
  induction x with
  | nil => simp
  | cons c x ih =>
    have hc := h c (by simp)
    have hx : NoNL x := fun a ha => h a (by simp [ha])
    simp only [List.cons_append]
    rw [normNL.eq_def]
    split <;> simp_all

theorem normNL_append_of_head (a b : Bytes) (hb : b.head? ≠ some 10) :
    normNL (a ++ b) = normNL a ++ normNL b := by
  fun_induction normNL a with
  | case1 r ih => simp [normNL, ih]
  | case2 r hr ih =>
    have : ∀ r', r ++ b = 10 :: r' → False := by
      intro r' h
      cases r with
      | nil => simp at h; simp [h] at hb
      | cons x r => simp at h; exact hr r (by simp [h.1])
    rw [List.cons_append, normNL.eq_def]
    split
    · rename_i heq; simp at heq; exact absurd heq (this _)
    · simp_all
    · simp_all
    · simp_all
  | case3 c r h1 h2 ih =>
    rw [List.cons_append, normNL.eq_def]
    split <;> simp_all
  | case4 => simp

/-! ### tag stripping -/

def NoAngle (x : Bytes) : Prop := ∀ c ∈ x, c ≠ 60 ∧ c ≠ 62

theorem strip_text (x r : Bytes) (h : ∀ c ∈ x, c ≠ 60) : stripTags false (x ++ r) = x ++ stripTags false r := by
  induction x with
  | nil => simp
  | cons c x ih =>
    have hc := h c (by simp)
    simp [stripTags, hc, ih (fun a ha => h a (by simp [ha]))]

theorem strip_in_tag (x r : Bytes) (h : ∀ c ∈ x, c ≠ 62) : stripTags true (x ++ 62 :: r) = stripTags false r := by
  induction x with
  | nil => simp [stripTags]
  | cons c x ih =>
    have hc := h c (by simp)
    simp [stripTags, hc, ih (fun a ha => h a (by simp [ha]))]

/-- stripping the server's anchor leaves the URL text -/
theorem strip_anchor (u r : Bytes) (hu : NoAngle u) :
    stripTags false (aOpen ++ unamp u ++ aMid ++ u ++ aClose ++ r) = u ++ stripTags false r := by
  have h1 : ∀ c ∈ ([97, 32, 104, 114, 101, 102, 61, 34] : Bytes) ++ unamp u ++
      [34, 32, 116, 97, 114, 103, 101, 116, 61, 34, 95, 98, 108, 97, 110, 107, 34], c ≠ 62 := by
    intro c hc
    simp only [List.mem_append] at hc
    rcases hc with (hc | hc) | hc
    · simp at hc; omega
    · exact (hu c (mem_unamp u c hc)).2
    · simp at hc; omega
  have e1 : aOpen ++ unamp u ++ aMid ++ u ++ aClose ++ r =
      60 :: ((([97, 32, 104, 114, 101, 102, 61, 34] : Bytes) ++ unamp u ++
        [34, 32, 116, 97, 114, 103, 101, 116, 61, 34, 95, 98, 108, 97, 110, 107, 34]) ++ 62 :: (u ++ aClose ++ r)) := by
    simp [aOpen, aMid]
  rw [e1]
  simp only [stripTags, if_true]
  rw [strip_in_tag _ _ h1, List.append_assoc, strip_text u _ (fun c hc => (hu c hc).1)]
  simp [aClose, stripTags]

theorem strip_wrap (u r : Bytes) (hu : NoAngle u) :
    stripTags false (wrapURL u ++ r) = u ++ stripTags false r := by
  unfold wrapURL anchor
  split
  · exact strip_anchor u r hu
  · exact strip_text u r (fun c hc => (hu c hc).1)

/-- stripping the `<br/>` tags of a stretch of escaped text leaves the text with normalised newlines -/
theorem strip_nl (a r : Bytes) (h : NoAngle a) :
    stripTags false (nl a ++ r) = normNL a ++ stripTags false r := by
  fun_induction nl a with
  | case1 x ih =>
    have hx : NoAngle x := fun c hc => h c (by simp [hc])
    simp [br, stripTags, normNL, ih hx]
  | case2 x hx' ih =>
    have hx : NoAngle x := fun c hc => h c (by simp [hc])
    rw [normNL.eq_def]
    split
    · rename_i heq; simp at heq; exact absurd heq (hx' _)
    · rename_i heq; simp at heq; subst heq; simp [br, stripTags, ih hx]
    · simp_all
    · simp_all
  | case3 x ih =>
    have hx : NoAngle x := fun c hc => h c (by simp [hc])
    simp [br, stripTags, normNL, ih hx]
  | case4 c x h1 h2 h3 ih =>
    have hx : NoAngle x := fun a ha => h a (by simp [ha])
    have hc := h c (by simp)
    rw [normNL.eq_def]
    split
    · simp_all
    · simp_all
    · rename_i heq; simp at heq; obtain ⟨rfl, rfl⟩ := heq
      simp [stripTags, hc.1, ih hx]
    · simp_all
  | case5 => simp [normNL]

/-! ### cutting at the spans -/

theorem seg_mem (e : Bytes) (pos : Nat) (spans : List (Nat × Nat)) :
    ∀ seg ∈ segsOf e pos spans, ∀ c ∈ seg.raw, c ∈ e := by
  induction spans generalizing e pos with
  | nil => intro seg h c hc; simp [segsOf] at h; subst h; exact hc
  | cons st more ih =>
    obtain ⟨s, t⟩ := st
    intro seg h c hc
    simp only [segsOf, List.mem_cons] at h
    rcases h with rfl | rfl | h
    · exact List.mem_of_mem_take hc
    · exact List.mem_of_mem_drop (List.mem_of_mem_take hc)
    · exact List.mem_of_mem_drop (ih _ _ seg h c hc)

theorem segs_raw (n : Nat) (e : Bytes) (pos : Nat) (spans : List (Nat × Nat)) (h : spansOK n pos spans = true) :
    (segsOf e pos spans).flatMap Seg.raw = e := by
  induction spans generalizing e pos with
  | nil => simp [segsOf, Seg.raw]
  | cons st more ih =>
    obtain ⟨s, t⟩ := st
    simp only [spansOK, Bool.and_eq_true, decide_eq_true_eq] at h
    obtain ⟨⟨⟨h1, h2⟩, _⟩, h4⟩ := h
    simp only [segsOf, List.flatMap_cons, Seg.raw, ih _ _ h4]
    have : t - pos = (s - pos) + (t - s) := by omega
    rw [this, ← List.drop_drop, ← List.append_assoc]
    rw [List.append_assoc, List.take_append_drop, List.take_append_drop]

theorem NoNL_wrap (u : Bytes) (h : NoNL u) : NoNL (wrapURL u) := by
  unfold wrapURL anchor
  split
  case isFalse => exact h
  intro c hc
  simp only [List.mem_append] at hc
  rcases hc with (((hc | hc) | hc) | hc) | hc
  · simp [aOpen] at hc; omega
  · exact h c (mem_unamp u c hc)
  · simp [aMid] at hc; omega
  · exact h c hc
  · simp [aClose] at hc; omega

theorem lastAmp_append (m a b : Bytes) (h : lastAmp m = some (a, b)) : a ++ b = m := by
  induction m generalizing a b with
  | nil => simp [lastAmp] at h
  | cons c r ih =>
    unfold lastAmp at h
    split at h
    · rename_i a' b' heq
      simp at h; obtain ⟨rfl, rfl⟩ := h
      simp [ih a' b' heq]
    · split at h
      · simp at h; obtain ⟨rfl, rfl⟩ := h; simp
      · simp at h

theorem cutMatch_append (m : Bytes) : (cutMatch m).1 ++ (cutMatch m).2 = m := by
  unfold cutMatch
  split
  · rename_i a b heq
    split
    · exact lastAmp_append m a b heq
    · simp
  · simp

theorem cutMatch_mem1 (m : Bytes) : ∀ c ∈ (cutMatch m).1, c ∈ m := by
  intro c hc
  have := cutMatch_append m
  rw [← this]; simp [hc]

theorem cutMatch_mem2 (m : Bytes) : ∀ c ∈ (cutMatch m).2, c ∈ m := by
  intro c hc
  have := cutMatch_append m
  rw [← this]; simp [hc]

theorem NoNL_wrapMatch (m : Bytes) (h : NoNL m) : NoNL (wrapMatch m) := by
  intro c hc
  simp only [wrapMatch, List.mem_append] at hc
  rcases hc with hc | hc
  · exact NoNL_wrap _ (fun x hx => h x (cutMatch_mem1 m x hx)) c hc
  · exact h c (cutMatch_mem2 m c hc)

theorem wrapSpans_cons (e : Bytes) (pos s t : Nat) (more : List (Nat × Nat)) :
    wrapSpans e pos ((s, t) :: more) =
      e.take (s - pos) ++ (wrapMatch ((e.drop (s - pos)).take (t - s)) ++
        wrapSpans (e.drop (t - pos)) t more) := by
  simp [wrapSpans]

theorem linkable_nil : linkable [] = true := by simp [linkable, cutDelim]

theorem wrap_head (u W : Bytes) (h : NoNL u) : (wrapURL u ++ W).head? ≠ some 10 := by
  unfold wrapURL anchor
  split
  · simp [aOpen]
  · rename_i hl
    cases u with
    | nil => exact absurd linkable_nil hl
    | cons c r => have := h c (by simp); simp; exact this.1

theorem cutDelim_unamp (u : Bytes) : cutDelim (unamp u) = cutDelim u := by
  fun_induction unamp u with
  | case1 r ih => simp [cutDelim, delims]
  | case2 c r _ ih => simp [cutDelim, ih]
  | case3 => rfl

theorem linkable_unamp (u : Bytes) : linkable (unamp u) = linkable u := by
  simp [linkable, cutDelim_unamp]

theorem cutDelim_delim (u : Bytes) : ∀ d, (cutDelim u).2 = some d → d ∈ delims := by
  induction u with
  | nil => simp [cutDelim]
  | cons c r ih =>
    intro d h
    unfold cutDelim at h
    split at h
    · rename_i hc; simp at h; subst h; simpa using hc
    · exact ih d h

theorem hrefSafe_of_linkable (u : Bytes) (h : linkable u = true) : HrefSafe (unamp u) := by
  unfold HrefSafe
  rw [cutDelim_unamp]
  unfold linkable at h
  split at h
  · rename_i heq; simp [heq]
  · rename_i p d heq
    have hd := cutDelim_delim u d (by simp [heq])
    simp only [heq]
    split at h
    · rename_i h58; subst h58
      split at h
      · rename_i l hl
        right; right; right; right
        exact ⟨rfl, l, hl, by simpa using h⟩
      · simp at h
    · split at h
      · simp at h
      · simp [delims] at hd
        rcases hd with rfl | rfl | rfl | rfl | rfl <;> simp_all

theorem wrapMatch_head (m W : Bytes) (h : NoNL m) : (wrapMatch m ++ W).head? ≠ some 10 := by
  unfold wrapMatch
  rw [List.append_assoc]
  by_cases h1 : (cutMatch m).1 = []
  · rw [h1]; simp [wrapURL, linkable_nil, anchor, aOpen]
  · cases hu : (cutMatch m).1 with
    | nil => exact absurd hu h1
    | cons c r =>
      have hN : NoNL (c :: r) := fun x hx => h x (cutMatch_mem1 m x (hu ▸ hx))
      exact wrap_head (c :: r) _ hN

theorem strip_wrapMatch (m r : Bytes) (hm : NoAngle m) :
    stripTags false (wrapMatch m ++ r) = m ++ stripTags false r := by
  unfold wrapMatch
  rw [List.append_assoc, strip_wrap _ _ (fun c hc => hm c (cutMatch_mem1 m c hc)),
    strip_text _ _ (fun c hc => (hm c (cutMatch_mem2 m c hc)).1), ← List.append_assoc, cutMatch_append]

theorem nl_wrapSpans (e : Bytes) (pos : Nat) (spans : List (Nat × Nat))
    (h : ∀ u, Seg.link u ∈ segsOf e pos spans → NoNL u) :
    nl (wrapSpans e pos spans) = (segsOf e pos spans).flatMap Seg.render := by
  induction spans generalizing e pos with
  | nil => simp [wrapSpans, segsOf, Seg.render]
  | cons st more ih =>
    obtain ⟨s, t⟩ := st
    have hu : NoNL ((e.drop (s - pos)).take (t - s)) := h _ (by simp [segsOf])
    have hm : ∀ u, Seg.link u ∈ segsOf (e.drop (t - pos)) t more → NoNL u :=
      fun u hu => h u (by simp [segsOf, hu])
    rw [wrapSpans_cons, nl_append_of_head _ _ (wrapMatch_head _ _ hu), nl_append_of_NoNL _ _ (NoNL_wrapMatch _ hu), ih _ _ hm]
    simp [segsOf, Seg.render, wrapMatch, wrapURL, anchor]

theorem strip_wrapSpans (e : Bytes) (pos : Nat) (spans : List (Nat × Nat))
    (hs : spansOK (pos + e.length) pos spans = true)
    (h : ∀ u, Seg.link u ∈ segsOf e pos spans → NoNL u) (ha : NoAngle e) :
    stripTags false (nl (wrapSpans e pos spans)) = normNL e := by
  induction spans generalizing e pos with
  | nil => simpa [wrapSpans, stripTags] using strip_nl e [] ha
  | cons st more ih =>
    obtain ⟨s, t⟩ := st
    simp only [spansOK, Bool.and_eq_true, decide_eq_true_eq] at hs
    obtain ⟨⟨⟨h1, h2⟩, h3⟩, h4⟩ := hs
    have hu : NoNL ((e.drop (s - pos)).take (t - s)) := h _ (by simp [segsOf])
    have hm : ∀ u, Seg.link u ∈ segsOf (e.drop (t - pos)) t more → NoNL u :=
      fun u hu => h u (by simp [segsOf, hu])
    have haA : NoAngle (e.take (s - pos)) := fun c hc => ha c (List.mem_of_mem_take hc)
    have haU : NoAngle ((e.drop (s - pos)).take (t - s)) :=
      fun c hc => ha c (List.mem_of_mem_drop (List.mem_of_mem_take hc))
    have haE : NoAngle (e.drop (t - pos)) := fun c hc => ha c (List.mem_of_mem_drop hc)
    have hlen : t + (e.drop (t - pos)).length = pos + e.length := by simp; omega
    have ih' := ih (e.drop (t - pos)) t (by rw [hlen]; exact h4) hm haE
    rw [wrapSpans_cons, nl_append_of_head _ _ (wrapMatch_head _ _ hu), nl_append_of_NoNL _ _ (NoNL_wrapMatch _ hu),
      strip_nl _ _ haA, strip_wrapMatch _ _ haU, ih']
    -- e = A ++ U ++ E'
    have hsplit : e = e.take (s - pos) ++ ((e.drop (s - pos)).take (t - s) ++ e.drop (t - pos)) := by
      have : t - pos = (s - pos) + (t - s) := by omega
      rw [this, ← List.drop_drop, List.take_append_drop, List.take_append_drop]
    have hne : ((e.drop (s - pos)).take (t - s)) ≠ [] := by
      intro h0
      have := congrArg List.length h0
      simp at this
      omega
    have hhead : ((e.drop (s - pos)).take (t - s) ++ e.drop (t - pos)).head? ≠ some 10 := by
      cases hU : (e.drop (s - pos)).take (t - s) with
      | nil => exact absurd hU hne
      | cons c r =>
        have := hu c (by simp [hU])
        simp; exact this.1
    conv => rhs; rw [hsplit]
    rw [normNL_append_of_head _ _ hhead, normNL_append_of_NoNL _ _ hu]

end Ibx.Lemmas.SanText
