import Ibx.Model.ConcMem
/- Invariants of the interleaving model of the memory store (lock ownership, todo-list shape, progress). -/
namespace Ibx.Model.ConcMem

def holding : PC → Option (Nat × Bool)
  | .crit o => some (o.box, o.isWrite)
  | .run o todo _ => if Instr.unlock ∈ todo then some (o.box, o.isWrite) else none
  | .wait o todo _ => if Instr.unlock ∈ todo then some (o.box, o.isWrite) else none
  | _ => none

def served : EPC → Option Nat
  | .idle => none
  | .inc t _ | .loop t | .evLockS t _ | .evUnlockS t _ | .evLockB t _ | .evCrit t _ | .evUnlockB t _ _
  | .rem t _ | .fin t => some t

structure LockInv (s : St) : Prop where
  sl_cl : ∀ t, s.slock = some (.cl t) → ∃ o, s.thr t = .unlockS o
  sl_enf : s.slock = some .enf → ∃ t k, s.epc = .evUnlockS t k
  wl_cl : ∀ b t, s.wlock b = some (.cl t) → holding (s.thr t) = some (b, true)
  rl_cl : ∀ b t, s.rlock b t = true → holding (s.thr t) = some (b, false)
  wl_enf : ∀ b, s.wlock b = some .enf → ∃ t k, k.1 = b ∧ (s.epc = .evCrit t k ∨ ∃ f, s.epc = .evUnlockB t k f)
  wt : ∀ t o todo r, s.thr t = .wait o todo r → served s.epc = some t

theorem lockInv_init (p) : LockInv (init p) := by
  constructor <;> simp [init, holding]

theorem unlock_mem_todoOf (v : Variant) (c : Cfg) (o : Op) (r : Ret) (del : List Key) :
    Instr.unlock ∈ todoOf v c o r del := by
  unfold todoOf
  split
  · simp
  · split
    · split <;> simp
    · split <;> simp
    · simp

theorem hold_upd {thr : Nat → PC} {t0 : Nat} {pc : PC} (hh : holding pc = holding (thr t0)) (t : Nat) :
    holding (upd thr t0 pc t) = holding (thr t) := by
  by_cases e : t = t0
  · subst e; simp [hh]
  · simp [upd, e]

@[simp] theorem holding_idle : holding .idle = none := rfl
@[simp] theorem holding_lockS (o) : holding (.lockS o) = none := rfl
@[simp] theorem holding_unlockS (o) : holding (.unlockS o) = none := rfl
@[simp] theorem holding_lockB (o) : holding (.lockB o) = none := rfl
@[simp] theorem holding_crit (o) : holding (.crit o) = some (o.box, o.isWrite) := rfl
@[simp] theorem holding_run (o todo r) : holding (.run o todo r) = if Instr.unlock ∈ todo then some (o.box, o.isWrite) else none := rfl
@[simp] theorem holding_wait (o todo r) : holding (.wait o todo r) = if Instr.unlock ∈ todo then some (o.box, o.isWrite) else none := rfl
@[simp] theorem served_idle : served .idle = none := rfl
@[simp] theorem served_inc (t k) : served (.inc t k) = some t := rfl
@[simp] theorem served_loop (t) : served (.loop t) = some t := rfl
@[simp] theorem served_evLockS (t k) : served (.evLockS t k) = some t := rfl
@[simp] theorem served_evUnlockS (t k) : served (.evUnlockS t k) = some t := rfl
@[simp] theorem served_evLockB (t k) : served (.evLockB t k) = some t := rfl
@[simp] theorem served_evCrit (t k) : served (.evCrit t k) = some t := rfl
@[simp] theorem served_evUnlockB (t k f) : served (.evUnlockB t k f) = some t := rfl
@[simp] theorem served_rem (t k) : served (.rem t k) = some t := rfl
@[simp] theorem served_fin (t) : served (.fin t) = some t := rfl

theorem evDelete_thr (s : St) (k : Key) : (evDelete s k).thr = s.thr := rfl
theorem evDelete_slock (s : St) (k : Key) : (evDelete s k).slock = s.slock := rfl
theorem evDelete_wlock (s : St) (k : Key) : (evDelete s k).wlock = s.wlock := rfl
theorem evDelete_rlock (s : St) (k : Key) : (evDelete s k).rlock = s.rlock := rfl

@[simp] theorem holding_resume (pc : PC) : holding (resume pc) = holding pc := by cases pc <;> rfl
@[simp] theorem resume_ne_wait (pc : PC) (o todo r) : resume pc ≠ .wait o todo r := by cases pc <;> simp [resume]
@[simp] theorem resume_eq_unlockS (pc : PC) (o) : resume pc = .unlockS o ↔ pc = .unlockS o := by cases pc <;> simp [resume]

syntax "lkstep " term : tactic
macro_rules
  | `(tactic| lkstep $t) => `(tactic| (
    refine ⟨?_, ?_, ?_, ?_, ?_, ?_⟩
    · intro t' hs; have q := ‹∀ t, _ = some (Who.cl t) → ∃ o, _› t'; by_cases e : t' = $t <;> simp_all [upd, acquire, release, critEff, evDelete, unlock_mem_todoOf, resume]
    · simp_all [upd, acquire, release, critEff, evDelete, unlock_mem_todoOf, resume]
    · intro b t' hs; have q := ‹∀ b t, _ = some (Who.cl t) → _› b t'; by_cases e : t' = $t <;> simp_all [upd, acquire, release, critEff, evDelete, unlock_mem_todoOf, resume]
    · intro b t' hs; have q := ‹∀ b t, _ = true → _› b t'; by_cases e : t' = $t <;> simp_all [upd, acquire, release, critEff, evDelete, unlock_mem_todoOf, resume]
    · simp_all [upd, acquire, release, critEff, evDelete, unlock_mem_todoOf, resume]
    · intro t' o' todo r hs; have q := ‹∀ t o todo r, _ = PC.wait o todo r → _› t'; by_cases e : t' = $t <;> simp_all [upd, acquire, release, critEff, evDelete, unlock_mem_todoOf, resume]))

theorem lockInv_step {v c s s'} (st : Step v c s s') (h : LockInv s) : LockInv s' := by
  obtain ⟨h1, h2, h3, h4, h5, h6⟩ := h
  cases st with
  | start t o rest hp ht hpr => lkstep t
  | lockS t o hp ht hl => lkstep t
  | unlockS t o hp ht => lkstep t
  | lockB t o hp ht hl =>
    obtain ⟨hl1, hl2⟩ := hl
    cases hw : o.isWrite
    · refine ⟨?_, ?_, ?_, ?_, ?_, ?_⟩
      · intro t' hs; have q := h1 t'; by_cases e : t' = t <;> simp_all [upd, acquire]
      · simp_all [upd, acquire]
      · intro b t' hs; have q := h3 b t'; by_cases e : t' = t <;> simp_all [upd, acquire]
      · intro b t' hs; have q := h4 b t'
        by_cases e : t' = t
        · subst e
          by_cases eb : b = o.box
          · simp_all [upd, acquire]
          · simp_all [upd, acquire]
        · by_cases eb : b = o.box <;> simp_all [upd, acquire]
      · simp_all [upd, acquire]
      · intro t' o' todo r hs; have q := h6 t'; by_cases e : t' = t <;> simp_all [upd, acquire]
    · refine ⟨?_, ?_, ?_, ?_, ?_, ?_⟩
      · intro t' hs; have q := h1 t'; by_cases e : t' = t <;> simp_all [upd, acquire]
      · simp_all [upd, acquire]
      · intro b t' hs; have q := h3 b t'
        by_cases e : t' = t
        · subst e
          by_cases eb : b = o.box
          · simp_all [upd, acquire]
          · simp_all [upd, acquire]
        · by_cases eb : b = o.box <;> simp_all [upd, acquire]
      · intro b t' hs; have q := h4 b t'; by_cases e : t' = t <;> simp_all [upd, acquire]
      · intro b hs; have q := h5 b; by_cases eb : b = o.box <;> simp_all [upd, acquire]
      · intro t' o' todo r hs; have q := h6 t'; by_cases e : t' = t <;> simp_all [upd, acquire]
  | crit t o hp ht => lkstep t
  | unlockB t o todo r hp ht =>
    cases hw : o.isWrite
    · refine ⟨?_, ?_, ?_, ?_, ?_, ?_⟩
      · intro t' hs; have q := h1 t'; by_cases e : t' = t <;> simp_all [upd, release]
      · simp_all [upd, release]
      · intro b t' hs; have q := h3 b t'; by_cases e : t' = t <;> simp_all [upd, release]
      · intro b t' hs; have q := h4 b t'
        by_cases e : t' = t
        · subst e
          by_cases eb : b = o.box
          · simp_all [upd, release]
          · simp_all [upd, release]
        · by_cases eb : b = o.box <;> simp_all [upd, release]
      · simp_all [upd, release]
      · intro t' o' todo r hs; have q := h6 t'; by_cases e : t' = t <;> simp_all [upd, release]
    · refine ⟨?_, ?_, ?_, ?_, ?_, ?_⟩
      · intro t' hs; have q := h1 t'; by_cases e : t' = t <;> simp_all [upd, release]
      · simp_all [upd, release]
      · intro b t' hs; have q := h3 b t'
        by_cases e : t' = t
        · subst e
          by_cases eb : b = o.box
          · simp_all [upd, release]
          · simp_all [upd, release]
        · by_cases eb : b = o.box <;> simp_all [upd, release]
      · intro b t' hs; have q := h4 b t'; by_cases e : t' = t <;> simp_all [upd, release]
      · intro b hs; have q := h5 b; by_cases eb : b = o.box <;> simp_all [upd, release]
      · intro t' o' todo r hs; have q := h6 t'; by_cases e : t' = t <;> simp_all [upd, release]
  | sendInc t o k todo r hp ht he => lkstep t
  | sendRem t o k todo r hp ht he => lkstep t
  | finish t o r hp ht => lkstep t
  | incGone t k hp he hg => lkstep t
  | incReg t k hp he hg => lkstep t
  | loopDone t hp he hc => lkstep t
  | loopEmpty t hp he hc ha => lkstep t
  | loopEvict t k rest hp he hc ha => lkstep t
  | evLockS t k hp he hl => lkstep t
  | evUnlockS t k hp he => lkstep t
  | evLockB t k hp he hl hr =>
    refine ⟨?_, ?_, ?_, ?_, ?_, ?_⟩
    · simpa using h1
    · intro hs; have q := h2 hs; simp_all
    · intro b t' hs; have q := h3 b t'; by_cases eb : b = k.1 <;> simp_all [upd]
    · simpa using h4
    · intro b hs; by_cases eb : b = k.1
      · exact ⟨t, k, eb.symm, Or.inl rfl⟩
      · have q := h5 b; simp_all [upd]
    · intro t' o' todo r hs; have q := h6 t' o' todo r hs; simp_all
  | evCrit t k hp he =>
    refine ⟨?_, ?_, ?_, ?_, ?_, ?_⟩
    · simpa [evDelete] using h1
    · intro hs; have q := h2 hs; simp_all [evDelete]
    · simpa [evDelete] using h3
    · simpa [evDelete] using h4
    · intro b hs
      obtain ⟨t', k', hk, hq⟩ := h5 b hs
      rw [he] at hq
      rcases hq with hq | ⟨f, hq⟩
      · injection hq with e1 e2; subst e1; subst e2
        exact ⟨t, k, hk, Or.inr ⟨_, rfl⟩⟩
      · cases hq
    · intro t' o' todo r hs; have q := h6 t' o' todo r hs; simp_all [evDelete]
  | evUnlockB t k f hp he =>
    refine ⟨?_, ?_, ?_, ?_, ?_, ?_⟩
    · simpa using h1
    · intro hs; have q := h2 hs; simp_all
    · intro b t' hs; have q := h3 b t'; by_cases eb : b = k.1 <;> simp_all [upd]
    · simpa using h4
    · intro b hs
      by_cases eb : b = k.1
      · simp_all [upd]
      · have hs' : s.wlock b = some Who.enf := by simpa [upd, eb] using hs
        obtain ⟨t', k', hk, hq⟩ := h5 b hs'
        rw [he] at hq
        rcases hq with hq | ⟨f', hq⟩
        · cases hq
        · injection hq with e1 e2 e3; subst e2; exact absurd hk.symm eb
    · intro t' o' todo r hs; have q := h6 t' o' todo r hs; simp_all
  | remGone t k hp he hel hv => lkstep t
  | remPanic t k hp he hel hv => lkstep t
  | remUnlink t k hp he hel => lkstep t
  | fin t hp he =>
    refine ⟨?_, ?_, ?_, ?_, ?_, ?_⟩
    · intro t' hs; have q := h1 t' hs
      by_cases e : t' = t
      · subst e; simpa [upd] using q
      · simpa [upd, e] using q
    · intro hs; have q := h2 hs; simp_all
    · intro b t' hs; have q := h3 b t' hs
      by_cases e : t' = t
      · subst e; simpa [upd] using q
      · simpa [upd, e] using q
    · intro b t' hs; have q := h4 b t' hs
      by_cases e : t' = t
      · subst e; simpa [upd] using q
      · simpa [upd, e] using q
    · intro b hs; have q := h5 b hs; simp_all
    · intro t' o' todo r hs
      by_cases e : t' = t
      · subst e; simp [upd] at hs
      · have hs' : s.thr t' = .wait o' todo r := by simpa [upd, e] using hs
        have q := h6 t' o' todo r hs'
        rw [he] at q; simp at q; exact absurd q.symm e
/-- outsideLock: the mailbox unlock is the first thing left to do, never behind a rendezvous -/
def shapeOK : PC → Prop
  | .run _ todo _ => Instr.unlock ∉ todo.tail
  | .wait _ todo _ => Instr.unlock ∉ todo
  | _ => True

theorem todoOf_shape (v : Variant) (c : Cfg) (o : Op) (r : Ret) (del : List Key) (hv : v.site = .outsideLock) :
    Instr.unlock ∉ (todoOf v c o r del).tail := by
  unfold todoOf
  split
  · simp
  · split
    · simp [hv]
    · simp [hv]
    · simp

theorem shape_step {v c s s'} (hv : v.site = .outsideLock) (st : Step v c s s') (h : ∀ t, shapeOK (s.thr t)) :
    ∀ t, shapeOK (s'.thr t) := by
  intro t'
  have q := h t'
  cases st with
  | crit t o hp ht =>
    by_cases e : t' = t
    · subst e; simp [critEff, shapeOK]; exact todoOf_shape _ _ _ _ _ hv
    · simpa [critEff, upd, e] using q
  | fin t hp he =>
    by_cases e : t' = t
    · subst e
      simp only [upd_same]
      cases hpc : s.thr t' <;> simp_all [resume, shapeOK]
      exact fun hm => q (List.mem_of_mem_tail hm)
    · simpa [upd, e] using q
  | unlockB t o todo r hp ht =>
    by_cases e : t' = t
    · subst e; simp_all [shapeOK]
      exact fun hm => q (List.mem_of_mem_tail hm)
    · simpa [upd, e] using q
  | lockB t o hp ht hl =>
    by_cases e : t' = t
    · subst e; simp [shapeOK]
    · simpa [upd, e] using q
  | evCrit t k hp he => simpa [evDelete] using q
  | start t o rest hp ht hpr | lockS t o hp ht hl | unlockS t o hp ht | finish t o r hp ht =>
    by_cases e : t' = t
    · subst e; simp [upd, shapeOK]
    · simpa [upd, e] using q
  | sendInc t o k todo r hp ht he | sendRem t o k todo r hp ht he =>
    by_cases e : t' = t
    · subst e; simp_all [upd, shapeOK]
    · simpa [upd, e] using q
  | _ => simpa using q


theorem holder_step {v c} {s : St} (hp : s.panic = false) (t : Nat) (bw : Nat × Bool)
    (hS : shapeOK (s.thr t)) (hh : holding (s.thr t) = some bw) : ∃ s', Step v c s s' := by
  cases hpc : s.thr t with
  | crit o => exact ⟨_, Step.crit t o hp hpc⟩
  | run o todo r =>
    rw [hpc] at hh hS
    cases todo with
    | nil => simp at hh
    | cons x rest =>
      cases x with
      | unlock => exact ⟨_, Step.unlockB t o rest r hp hpc⟩
      | inc k => simp [shapeOK] at hS; simp [hS] at hh
      | rem k => simp [shapeOK] at hS; simp [hS] at hh
  | wait o todo r => rw [hpc] at hh hS; simp [shapeOK] at hS; simp [hS] at hh
  | idle => rw [hpc] at hh; simp at hh
  | lockS o => rw [hpc] at hh; simp at hh
  | unlockS o => rw [hpc] at hh; simp at hh
  | lockB o => rw [hpc] at hh; simp at hh

theorem slock_free_or_step {v c} {s : St} (hp : s.panic = false) (hL : LockInv s) :
    s.slock = none ∨ ∃ s', Step v c s s' := by
  cases hs : s.slock with
  | none => exact Or.inl rfl
  | some w =>
    right
    cases w with
    | cl t => obtain ⟨o, ho⟩ := hL.sl_cl t hs; exact ⟨_, Step.unlockS t o hp ho⟩
    | enf => obtain ⟨t, k, he⟩ := hL.sl_enf hs; exact ⟨_, Step.evUnlockS t k hp he⟩

theorem box_free_or_step {v c} {s : St} (hp : s.panic = false) (hL : LockInv s) (hS : ∀ t, shapeOK (s.thr t))
    (b : Nat) : (s.wlock b = none ∧ ∀ t, s.rlock b t = false) ∨ ∃ s', Step v c s s' := by
  cases hw : s.wlock b with
  | some w =>
    right
    cases w with
    | cl t => exact holder_step hp t _ (hS t) (hL.wl_cl b t hw)
    | enf =>
      obtain ⟨t, k, _, he | ⟨f, he⟩⟩ := hL.wl_enf b hw
      · exact ⟨_, Step.evCrit t k hp he⟩
      · exact ⟨_, Step.evUnlockB t k f hp he⟩
  | none =>
    by_cases hr : ∀ t, s.rlock b t = false
    · exact Or.inl ⟨rfl, hr⟩
    · right
      have ⟨t, ht⟩ : ∃ t, s.rlock b t = true := by
        apply Classical.byContradiction
        intro hn; apply hr; intro t
        cases h : s.rlock b t
        · rfl
        · exact absurd ⟨t, h⟩ hn
      exact holder_step hp t _ (hS t) (hL.rl_cl b t ht)

/-- progress: in the outsideLock variant every reachable-like state (lock invariant + todo shape) that is not
    final and has not crashed has an enabled step -/
theorem progress {v c} {s : St} (hp : s.panic = false) (hL : LockInv s) (hS : ∀ t, shapeOK (s.thr t))
    (hnf : ¬ Final s) : ∃ s', Step v c s s' := by
  cases he : s.epc with
  | idle =>
    have ⟨t, ht⟩ : ∃ t, ¬ (s.thr t = .idle ∧ s.prog t = []) := by
      apply Classical.byContradiction
      intro hn; apply hnf; intro t
      apply Classical.byContradiction
      intro h; exact hn ⟨t, h⟩
    cases hpc : s.thr t with
    | idle =>
      cases hpr : s.prog t with
      | nil => exact absurd ⟨hpc, hpr⟩ ht
      | cons o rest => exact ⟨_, Step.start t o rest hp hpc hpr⟩
    | lockS o =>
      rcases slock_free_or_step (v := v) (c := c) hp hL with h | h
      · exact ⟨_, Step.lockS t o hp hpc h⟩
      · exact h
    | unlockS o => exact ⟨_, Step.unlockS t o hp hpc⟩
    | lockB o =>
      rcases box_free_or_step (v := v) (c := c) hp hL hS o.box with h | h
      · exact ⟨_, Step.lockB t o hp hpc ⟨h.1, fun _ => h.2⟩⟩
      · exact h
    | crit o => exact ⟨_, Step.crit t o hp hpc⟩
    | run o todo r =>
      cases todo with
      | nil => exact ⟨_, Step.finish t o r hp hpc⟩
      | cons x rest =>
        cases x with
        | unlock => exact ⟨_, Step.unlockB t o rest r hp hpc⟩
        | inc k => exact ⟨_, Step.sendInc t o k rest r hp hpc he⟩
        | rem k => exact ⟨_, Step.sendRem t o k rest r hp hpc he⟩
    | wait o todo r =>
      have := hL.wt t o todo r hpc
      rw [he] at this; simp at this
  | inc t k =>
    cases hg : s.gone k
    · exact ⟨_, Step.incReg t k hp he hg⟩
    · exact ⟨_, Step.incGone t k hp he hg⟩
  | loop t =>
    by_cases hc : s.cur > (c.limit : Int)
    · cases ha : s.all with
      | nil => exact ⟨_, Step.loopEmpty t hp he hc ha⟩
      | cons k rest => exact ⟨_, Step.loopEvict t k rest hp he hc ha⟩
    · exact ⟨_, Step.loopDone t hp he hc⟩
  | evLockS t k =>
    rcases slock_free_or_step (v := v) (c := c) hp hL with h | h
    · exact ⟨_, Step.evLockS t k hp he h⟩
    · exact h
  | evUnlockS t k => exact ⟨_, Step.evUnlockS t k hp he⟩
  | evLockB t k =>
    rcases box_free_or_step (v := v) (c := c) hp hL hS k.1 with h | h
    · exact ⟨_, Step.evLockB t k hp he h.1 h.2⟩
    · exact h
  | evCrit t k => exact ⟨_, Step.evCrit t k hp he⟩
  | evUnlockB t k f => exact ⟨_, Step.evUnlockB t k f hp he⟩
  | rem t k =>
    cases hel : s.el k
    · cases hv : v.remove
      · exact ⟨_, Step.remPanic t k hp he hel hv⟩
      · exact ⟨_, Step.remGone t k hp he hel hv⟩
    · exact ⟨_, Step.remUnlink t k hp he hel⟩
  | fin t => exact ⟨_, Step.fin t hp he⟩

end Ibx.Model.ConcMem
