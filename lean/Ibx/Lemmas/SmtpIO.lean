import Ibx.Model.Line
import Ibx.Model.Dot
/-
  Lemmas about the two input readers of the SMTP session (`Line.readLine`, `Dot.dotDecode`):
  both consume a non-empty prefix of the input and return the rest as a suffix; a complete unit
  (line ending in LF, dot block ending in its terminator) is read identically whatever follows.
-/
namespace Ibx.Lemmas.SmtpIO
open Ibx Ibx.Model

/-! ### splitLF -/

theorem splitLF_some (inp acc l rest : Bytes) (h : Line.splitLF inp acc = some (l, rest)) :
    ∃ pre, inp = pre ++ 10 :: rest ∧ 10 ∉ pre ∧ l = acc.reverse ++ pre := by
  induction inp generalizing acc with
  | nil => simp [Line.splitLF] at h
  | cons c cs ih =>
    unfold Line.splitLF at h
    split at h
    · rename_i hc
      simp at hc
      simp at h
      obtain ⟨rfl, rfl⟩ := h
      exact ⟨[], by simp [hc]⟩
    · rename_i hc
      simp at hc
      obtain ⟨pre, h1, h2, h3⟩ := ih _ h
      refine ⟨c :: pre, by simp [h1], ?_, by simp [h3]⟩
      simp [h2]; exact fun h => hc h.symm

theorem splitLF_none (inp acc : Bytes) : Line.splitLF inp acc = none ↔ 10 ∉ inp := by
  induction inp generalizing acc with
  | nil => simp [Line.splitLF]
  | cons c cs ih =>
    unfold Line.splitLF
    by_cases hc : c = 10
    · simp [hc]
    · have hc' : ¬ (10 = c) := fun h => hc h.symm
      simp [hc, hc', ih]

theorem splitLF_append (p q acc l r : Bytes) (h : Line.splitLF p acc = some (l, r)) :
    Line.splitLF (p ++ q) acc = some (l, r ++ q) := by
  induction p generalizing acc with
  | nil => simp [Line.splitLF] at h
  | cons c cs ih =>
    simp only [List.cons_append]
    unfold Line.splitLF at h ⊢
    by_cases hc : c = 10
    · simp [hc] at h ⊢; obtain ⟨rfl, rfl⟩ := h; simp
    · simp [hc] at h ⊢; exact ih _ h

/-! ### readLine -/

theorem readLine_nil : Line.readLine [] = none := by simp [Line.readLine]

theorem readLine_none_iff (inp : Bytes) : Line.readLine inp = none ↔ inp = [] := by
  constructor
  · intro h
    unfold Line.readLine at h
    split at h
    · rename_i he; simpa using he
    · split at h <;> simp at h
  · rintro rfl; exact readLine_nil

/-- the consumed part is non-empty and the rest is a suffix -/
theorem readLine_split (inp l rest : Bytes) (h : Line.readLine inp = some (l, rest)) :
    ∃ pre, pre ≠ [] ∧ inp = pre ++ rest := by
  unfold Line.readLine at h
  split at h
  · simp at h
  · rename_i hne
    split at h
    · rename_i l' rest' hs
      simp at h
      obtain ⟨_, rfl⟩ := h
      obtain ⟨pre, h1, _, _⟩ := splitLF_some _ _ _ _ hs
      exact ⟨pre ++ [10], by simp, by simp [h1]⟩
    · simp at h
      obtain ⟨_, rfl⟩ := h
      exact ⟨inp, by simpa using hne, by simp⟩

theorem readLine_rest_lt (inp l rest : Bytes) (h : Line.readLine inp = some (l, rest)) :
    rest.length < inp.length := by
  obtain ⟨pre, hne, rfl⟩ := readLine_split _ _ _ h
  have : 0 < pre.length := List.length_pos_iff.mpr hne
  simp; omega

/-- a complete line (terminated by LF inside p) is read identically whatever follows -/
theorem readLine_append_of_lf (p q l r : Bytes) (h : Line.readLine p = some (l, r)) (hlf : 10 ∈ p) :
    Line.readLine (p ++ q) = some (l, r ++ q) := by
  unfold Line.readLine at h ⊢
  have hp : p ≠ [] := by rintro rfl; simp at hlf
  have hpe : p.isEmpty = false := by simpa using hp
  have hpq : (p ++ q).isEmpty = false := by simp [hp]
  rw [hpe] at h
  rw [hpq]
  simp only [Bool.false_eq_true, if_false] at h ⊢
  cases hs : Line.splitLF p [] with
  | none => exact absurd hlf ((splitLF_none _ _).mp hs)
  | some lr =>
    obtain ⟨l', r'⟩ := lr
    rw [hs] at h
    rw [splitLF_append p q [] l' r' hs]
    simp at h ⊢
    exact ⟨h.1, by rw [h.2]⟩

/-- a non-empty input without LF is one partial last line -/
theorem readLine_no_lf (p : Bytes) (hp : p ≠ []) (h : 10 ∉ p) : Line.readLine p = some (p, []) := by
  unfold Line.readLine
  have hpe : p.isEmpty = false := by simpa using hp
  rw [hpe, (splitLF_none p []).mpr h]
  simp

/-! ### dotDecode -/

theorem dotLoop_split (inp : Bytes) (st : Dot.DState) (acc b rest : Bytes)
    (h : Dot.dotLoop inp st acc = some (b, rest)) : ∃ pre, pre ≠ [] ∧ inp = pre ++ rest := by
  induction inp generalizing st acc with
  | nil => simp [Dot.dotLoop] at h
  | cons c cs ih =>
    have key : ∀ st' acc', Dot.dotLoop cs st' acc' = some (b, rest) → ∃ pre, pre ≠ [] ∧ c :: cs = pre ++ rest := by
      intro st' acc' h'
      obtain ⟨pre, _, h2⟩ := ih st' acc' h'
      exact ⟨c :: pre, by simp, by simp [h2]⟩
    have fin : cs = rest → ∃ pre, pre ≠ [] ∧ c :: cs = pre ++ rest := by
      rintro rfl; exact ⟨[c], by simp, by simp⟩
    unfold Dot.dotLoop at h
    cases st <;> simp only at h <;> (repeat' split at h) <;>
      first
        | exact key _ _ h
        | (simp at h; exact fin h.2)

theorem dotLoop_append (p q : Bytes) (st : Dot.DState) (acc b r : Bytes)
    (h : Dot.dotLoop p st acc = some (b, r)) : Dot.dotLoop (p ++ q) st acc = some (b, r ++ q) := by
  induction p generalizing st acc with
  | nil => simp [Dot.dotLoop] at h
  | cons c cs ih =>
    simp only [List.cons_append]
    unfold Dot.dotLoop at h ⊢
    cases st <;> simp only at h ⊢ <;> (repeat' split at h) <;> simp_all

theorem dotDecode_nil : Dot.dotDecode [] = none := by simp [Dot.dotDecode, Dot.dotLoop]

theorem dotDecode_split (inp b rest : Bytes) (h : Dot.dotDecode inp = some (b, rest)) :
    ∃ pre, pre ≠ [] ∧ inp = pre ++ rest := dotLoop_split _ _ _ _ _ h

theorem dotDecode_rest_lt (inp b rest : Bytes) (h : Dot.dotDecode inp = some (b, rest)) :
    rest.length < inp.length := by
  obtain ⟨pre, hne, rfl⟩ := dotDecode_split _ _ _ h
  have : 0 < pre.length := List.length_pos_iff.mpr hne
  simp; omega

/-- a complete dot block is decoded identically whatever follows -/
theorem dotDecode_append (p q b r : Bytes) (h : Dot.dotDecode p = some (b, r)) :
    Dot.dotDecode (p ++ q) = some (b, r ++ q) := dotLoop_append _ _ _ _ _ _ h

end Ibx.Lemmas.SmtpIO
