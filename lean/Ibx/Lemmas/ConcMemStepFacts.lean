import Ibx.Lemmas.ConcMemLin
/- Purely functional facts about one critical section of the memory store (`Atomic.step`): what it does to the
   mailbox maps, which keys it deletes, which key it creates. -/
namespace Ibx.Model.ConcMem

/-- message `k` is in its mailbox map -/
def live (a : AS) (k : Key) : Prop := k.2 ∈ (a.boxes k.1).msgs

/-- ids in a mailbox map are distinct, positive and at most the counter -/
def BoxOK (a : AS) : Prop := ∀ b, (a.boxes b).msgs.Nodup ∧ ∀ j ∈ (a.boxes b).msgs, 1 ≤ j ∧ j ≤ (a.boxes b).last

/-- the key a delivery creates -/
def newKey (a : AS) : Op → Option Key
  | .add b _ => some (b, (a.boxes b).last + 1)
  | _ => none

theorem boxOK_empty : BoxOK AS.empty := by
  intro b; simp [AS.empty]

theorem nodup_filter_ne (l : List Nat) (x : Nat) (h : l.Nodup) : (l.filter (· != x)).Nodup := by
  induction l with
  | nil => simp
  | cons y ys ih =>
    rw [List.nodup_cons] at h
    simp only [List.filter_cons]
    split
    · rw [List.nodup_cons]
      refine ⟨fun hm => h.1 (List.mem_filter.mp hm).1, ih h.2⟩
    · exact ih h.2

theorem nodup_rev (l : List Nat) (h : l.Nodup) : l.reverse.Nodup := by
  unfold List.Nodup at *
  rw [List.pairwise_reverse]
  exact h.imp (fun q => fun e => q e.symm)

theorem nodup_map_key (b : Nat) (l : List Nat) (h : l.Nodup) : (l.map (fun j => ((b, j) : Key))).Nodup := by
  induction l with
  | nil => simp
  | cons y ys ih =>
    rw [List.nodup_cons] at h
    simp only [List.map_cons]
    rw [List.nodup_cons]
    refine ⟨?_, ih h.2⟩
    intro hm
    simp only [List.mem_map, Prod.mk.injEq, true_and] at hm
    obtain ⟨j, hj, e⟩ := hm
    subst e
    exact h.1 hj

theorem capLoop_props (cap : Nat) : ∀ (fuel first : Nat) (msgs ev : List Nat), (msgs ++ ev).Nodup →
    ((capLoop cap fuel first msgs ev).2.1 ++ (capLoop cap fuel first msgs ev).2.2).Nodup ∧
    (∀ j, (j ∈ (capLoop cap fuel first msgs ev).2.1 ∨ j ∈ (capLoop cap fuel first msgs ev).2.2) ↔ (j ∈ msgs ∨ j ∈ ev)) ∧
    (∀ j ∈ (capLoop cap fuel first msgs ev).2.1, j ∈ msgs) := by
  intro fuel
  induction fuel with
  | zero =>
    intro first msgs ev h
    simp only [capLoop]
    refine ⟨?_, ?_, ?_⟩
    · rw [List.nodup_append] at h ⊢
      refine ⟨h.1, nodup_rev _ h.2.1, ?_⟩
      intro x hx y hy
      exact h.2.2 x hx y (List.mem_reverse.mp hy)
    · intro j; simp
    · intro j hj; exact hj
  | succ n ih =>
    intro first msgs ev h
    simp only [capLoop]
    split
    · split
      · rename_i hc
        have hf : first ∈ msgs := by simpa using hc
        have hnd : (msgs.filter (· != first) ++ first :: ev).Nodup := by
          rw [List.nodup_append] at h ⊢
          refine ⟨nodup_filter_ne _ _ h.1, ?_, ?_⟩
          · rw [List.nodup_cons]
            exact ⟨fun hm => h.2.2 first hf first hm rfl, h.2.1⟩
          · intro x hx y hy
            have hx' := List.mem_filter.mp hx
            rcases List.mem_cons.mp hy with e | hy'
            · subst e; simpa using hx'.2
            · exact h.2.2 x hx'.1 y hy'
        obtain ⟨p1, p2, p3⟩ := ih (first + 1) (msgs.filter (· != first)) (first :: ev) hnd
        refine ⟨p1, ?_, ?_⟩
        · intro j
          rw [p2 j]
          simp only [List.mem_filter, List.mem_cons, bne_iff_ne, ne_eq]
          constructor
          · rintro (⟨q, _⟩ | q | q)
            · exact Or.inl q
            · subst q; exact Or.inl hf
            · exact Or.inr q
          · rintro (q | q)
            · by_cases e : j = first
              · exact Or.inr (Or.inl e)
              · exact Or.inl ⟨q, e⟩
            · exact Or.inr (Or.inr q)
        · intro j hj
          exact (List.mem_filter.mp (p3 j hj)).1
      · exact ih _ _ _ h
    · refine ⟨?_, ?_, ?_⟩
      · rw [List.nodup_append] at h ⊢
        refine ⟨h.1, nodup_rev _ h.2.1, ?_⟩
        intro x hx y hy
        exact h.2.2 x hx y (List.mem_reverse.mp hy)
      · intro j; simp
      · intro j hj; exact hj

/-- the shape of a delivery's critical section -/
theorem add_step_shape (c : Cfg) (a : AS) (b sz : Nat) (h : BoxOK a) :
    ∃ r : Nat × List Nat × List Nat,
      Atomic.step c a (.add b sz) =
        ({ a with boxes := upd a.boxes b { first := r.1, last := (a.boxes b).last + 1, msgs := r.2.1 } },
         .id ((a.boxes b).last + 1), r.2.2.map (fun j => (b, j))) ∧
      (r.2.1 ++ r.2.2).Nodup ∧
      (∀ j, (j ∈ r.2.1 ∨ j ∈ r.2.2) ↔ (j ∈ (a.boxes b).msgs ∨ j = (a.boxes b).last + 1)) := by
  obtain ⟨hn, hb⟩ := h b
  have hnd : (((a.boxes b).msgs ++ [(a.boxes b).last + 1]) ++ ([] : List Nat)).Nodup := by
    rw [List.append_nil, List.nodup_append]
    refine ⟨hn, by simp, ?_⟩
    intro x hx y hy
    simp only [List.mem_singleton] at hy
    have := (hb x hx).2
    omega
  refine ⟨if c.cap > 0 then capLoop c.cap ((a.boxes b).last + 1 + 1 - (a.boxes b).first) (a.boxes b).first
            ((a.boxes b).msgs ++ [(a.boxes b).last + 1]) [] else ((a.boxes b).first, (a.boxes b).msgs ++ [(a.boxes b).last + 1], []),
          by simp only [Atomic.step], ?_⟩
  split
  · obtain ⟨p1, p2, _⟩ := capLoop_props c.cap ((a.boxes b).last + 1 + 1 - (a.boxes b).first) (a.boxes b).first _ _ hnd
    refine ⟨p1, ?_⟩
    intro j; rw [p2 j]; simp
  · refine ⟨by simpa using hnd, ?_⟩
    intro j; simp

structure StepFacts (c : Cfg) (a : AS) (o : Op) : Prop where
  ok : BoxOK (Atomic.step c a o).1
  nodup : (Atomic.step c a o).2.2.Nodup
  del : ∀ k ∈ (Atomic.step c a o).2.2, ¬ live (Atomic.step c a o).1 k ∧ (live a k ∨ newKey a o = some k)
  born : ∀ k, live (Atomic.step c a o).1 k → live a k ∨ newKey a o = some k
  stays : ∀ k, live a k → live (Atomic.step c a o).1 k ∨ k ∈ (Atomic.step c a o).2.2
  last_mono : ∀ b, (a.boxes b).last ≤ ((Atomic.step c a o).1.boxes b).last
  new : ∀ k, newKey a o = some k →
          k.2 = ((Atomic.step c a o).1.boxes k.1).last ∧ (a.boxes k.1).last < k.2 ∧
          (live (Atomic.step c a o).1 k ∨ k ∈ (Atomic.step c a o).2.2) ∧ (Atomic.step c a o).2.1 = .id k.2
  ret_id : ∀ i, (Atomic.step c a o).2.1 = .id i → newKey a o = some (o.box, i)
  bounded : ∀ k ∈ (Atomic.step c a o).2.2, k.2 ≤ ((Atomic.step c a o).1.boxes k.1).last

/-- facts when the step leaves the maps alone and deletes nothing -/
theorem facts_noop (c : Cfg) (a : AS) (o : Op) (h : BoxOK a) (hk : newKey a o = none)
    (hb : (Atomic.step c a o).1.boxes = a.boxes) (hd : (Atomic.step c a o).2.2 = [])
    (hr : ∀ i, (Atomic.step c a o).2.1 ≠ .id i) : StepFacts c a o := by
  have hl : ∀ k, live (Atomic.step c a o).1 k ↔ live a k := by intro k; simp [live, hb]
  refine ⟨?_, ?_, ?_, ?_, ?_, ?_, ?_, ?_, ?_⟩
  · intro b; rw [hb]; exact h b
  · rw [hd]; simp
  · rw [hd]; simp
  · intro k q; exact Or.inl ((hl k).mp q)
  · intro k q; exact Or.inl ((hl k).mpr q)
  · intro b; rw [hb]; exact Nat.le_refl _
  · intro k q; rw [hk] at q; cases q
  · intro i q; exact absurd q (hr i)
  · rw [hd]; simp

theorem step_facts (c : Cfg) (a : AS) (o : Op) (h : BoxOK a) : StepFacts c a o := by
  cases o with
  | get b i => exact facts_noop c a _ h rfl (by simp [Atomic.step]) (by simp [Atomic.step]) (by intro j; simp only [Atomic.step]; split <;> simp)
  | list b => exact facts_noop c a _ h rfl (by simp [Atomic.step]) (by simp [Atomic.step]) (by intro j; simp [Atomic.step])
  | seen b i =>
    refine facts_noop c a _ h rfl ?_ ?_ ?_
    · simp only [Atomic.step]; split <;> rfl
    · simp only [Atomic.step]; split <;> rfl
    · intro j; simp only [Atomic.step]; split <;> simp
  | remove b i =>
    by_cases hc : (a.boxes b).msgs.contains i = true
    · have e : Atomic.step c a (.remove b i) =
          ({ a with boxes := upd a.boxes b { a.boxes b with msgs := (a.boxes b).msgs.filter (· != i) } }, .ok, [(b, i)]) := by
        simp only [Atomic.step, hc, if_true]
      have hi : i ∈ (a.boxes b).msgs := by simpa using hc
      obtain ⟨hn, hbd⟩ := h b
      refine ⟨?_, ?_, ?_, ?_, ?_, ?_, ?_, ?_, ?_⟩
      · rw [e]; intro b'
        by_cases eb : b' = b
        · subst eb
          simp only [upd_same]
          refine ⟨nodup_filter_ne _ _ hn, ?_⟩
          intro j hj; exact hbd j (List.mem_filter.mp hj).1
        · simp only [upd, eb, if_false]; exact h b'
      · rw [e]; simp
      · rw [e]; intro k hk
        simp only [List.mem_singleton] at hk
        subst hk
        simp [live, hi]
      · rw [e]; intro k hk
        left
        obtain ⟨kb, kj⟩ := k
        simp only [live] at hk ⊢
        by_cases eb : kb = b
        · subst eb; simp only [upd_same] at hk; exact (List.mem_filter.mp hk).1
        · simpa [upd, eb] using hk
      · rw [e]; intro k hk
        obtain ⟨kb, kj⟩ := k
        simp only [live] at hk ⊢
        by_cases eb : kb = b
        · subst eb
          by_cases ej : kj = i
          · subst ej; right; simp
          · left; simp [hk, ej]
        · left; simpa [upd, eb] using hk
      · rw [e]; intro b'
        by_cases eb : b' = b
        · subst eb; simp
        · simp [upd, eb]
      · intro k hk; simp [newKey] at hk
      · rw [e]; intro j hj; simp at hj
      · rw [e]; intro k hk
        simp only [List.mem_singleton] at hk
        subst hk
        simp only [upd_same]
        exact (hbd i hi).2
    · refine facts_noop c a _ h rfl ?_ ?_ ?_
      · simp only [Atomic.step, hc]; rfl
      · simp only [Atomic.step, hc]; rfl
      · intro j; simp only [Atomic.step, hc]; simp
  | purge b =>
    have e : Atomic.step c a (.purge b) =
        ({ a with boxes := upd a.boxes b { a.boxes b with msgs := [] } }, .ok, (a.boxes b).msgs.map (fun j => (b, j))) := by
      simp only [Atomic.step]
    obtain ⟨hn, hbd⟩ := h b
    refine ⟨?_, ?_, ?_, ?_, ?_, ?_, ?_, ?_, ?_⟩
    · rw [e]; intro b'
      by_cases eb : b' = b
      · subst eb; simp
      · simp only [upd, eb, if_false]; exact h b'
    · rw [e]; exact nodup_map_key b _ hn
    · rw [e]; intro k hk
      simp only [List.mem_map] at hk
      obtain ⟨j, hj, rfl⟩ := hk
      simp [live, hj]
    · rw [e]; intro k hk
      left
      obtain ⟨kb, kj⟩ := k
      simp only [live] at hk ⊢
      by_cases eb : kb = b
      · subst eb; simp at hk
      · simpa [upd, eb] using hk
    · rw [e]; intro k hk
      obtain ⟨kb, kj⟩ := k
      simp only [live] at hk ⊢
      by_cases eb : kb = b
      · subst eb; right; simp [hk]
      · left; simpa [upd, eb] using hk
    · rw [e]; intro b'
      by_cases eb : b' = b
      · subst eb; simp
      · simp [upd, eb]
    · intro k hk; simp [newKey] at hk
    · rw [e]; intro j hj; simp at hj
    · rw [e]; intro k hk
      simp only [List.mem_map] at hk
      obtain ⟨j, hj, rfl⟩ := hk
      simp only [upd_same]
      exact (hbd j hj).2
  | add b sz =>
    obtain ⟨r, e, hnd, hmem⟩ := add_step_shape c a b sz h
    obtain ⟨hn, hbd⟩ := h b
    rw [List.nodup_append] at hnd
    obtain ⟨hn1, hn2, hdis⟩ := hnd
    refine ⟨?_, ?_, ?_, ?_, ?_, ?_, ?_, ?_, ?_⟩
    · rw [e]; intro b'
      by_cases eb : b' = b
      · subst eb
        simp only [upd_same]
        refine ⟨hn1, ?_⟩
        intro j hj
        rcases (hmem j).mp (Or.inl hj) with q | q
        · have := hbd j q; omega
        · omega
      · simp only [upd, eb, if_false]; exact h b'
    · rw [e]; exact nodup_map_key b _ hn2
    · rw [e]; intro k hk
      simp only [List.mem_map] at hk
      obtain ⟨j, hj, rfl⟩ := hk
      refine ⟨?_, ?_⟩
      · simp only [live, upd_same]
        intro hj'
        exact hdis j hj' j hj rfl
      · rcases (hmem j).mp (Or.inr hj) with q | q
        · exact Or.inl q
        · right; simp [newKey, q]
    · rw [e]; intro k hk
      obtain ⟨kb, kj⟩ := k
      simp only [live] at hk ⊢
      by_cases eb : kb = b
      · subst eb
        simp only [upd_same] at hk
        rcases (hmem kj).mp (Or.inl hk) with q | q
        · exact Or.inl q
        · right; simp [newKey, q]
      · left; simpa [upd, eb] using hk
    · rw [e]; intro k hk
      obtain ⟨kb, kj⟩ := k
      simp only [live] at hk ⊢
      by_cases eb : kb = b
      · subst eb
        simp only [upd_same]
        rcases (hmem kj).mpr (Or.inl hk) with q | q
        · exact Or.inl q
        · right; simp [q]
      · left; simpa [upd, eb] using hk
    · rw [e]; intro b'
      by_cases eb : b' = b
      · subst eb; simp
      · simp [upd, eb]
    · rw [e]; intro k hk
      simp only [newKey, Option.some.injEq] at hk
      subst hk
      simp only [upd_same, live]
      refine ⟨trivial, Nat.lt_succ_self _, ?_, trivial⟩
      rcases (hmem ((a.boxes b).last + 1)).mpr (Or.inr rfl) with q | q
      · exact Or.inl q
      · right; simp [q]
    · rw [e]; intro j hj
      simp only [Ret.id.injEq] at hj
      subst hj
      simp [newKey, Op.box]
    · rw [e]; intro k hk
      simp only [List.mem_map] at hk
      obtain ⟨j, hj, rfl⟩ := hk
      simp only [upd_same]
      rcases (hmem j).mp (Or.inr hj) with q | q
      · have := hbd j q; omega
      · omega

end Ibx.Model.ConcMem
