import Ibx.Model.EmitLock
/-
  Helper lemmas for Props/C09Wedge.lean, part (b): the invariant of the composed machine and its termination measure.
-/
namespace Ibx.Lemmas.EmitLock
open Ibx.Model Ibx.Model.EmitLock
open Ibx.Model.Broker (Ev)

/-- who holds the lock is who says so; the listener is serial; the events emitted so far are 0 … next-1 and the operation's
    phase accounts for the rest of its k -/
structure Inv (k : Nat) (s : St) : Prop where
  reg : s.b.registered = true
  opHolds : s.lock = .op ↔ ∃ j, s.op = .emitting j
  nbHolds : s.lock = .nb ↔ s.nb = .inside
  lisHolds : s.lock = .lis → (∃ e, s.b.running = [e]) ∧ 0 < s.lisTodo
  serial : s.b.running.length ≤ 1
  emitted : s.b.emitted = List.range s.next
  phase : match s.op with
    | .waiting k' => k' = k ∧ s.next = 0
    | .emitting j => s.next + j = k
    | .returned => s.next = k

theorem inv_init (k : Nat) (nb : NbPhase) (hnb : nb ≠ .inside) : Inv k (St.init k nb) := by
  constructor <;> simp [St.init, Broker.St.init, hnb]

theorem inv_step {v : QueueVar} {beh : Beh} {k : Nat} {s t : St} (h : Inv k s) (st : Step v beh s t) : Inv k t := by
  obtain ⟨h1, h2, h3, h4, h5, h6, h7⟩ := h
  cases st with
  | opLock k' ho hl =>
    rw [ho] at h7
    constructor <;> simp_all
  | opEmit j ho hc =>
    rw [ho] at h7
    have hl : s.lock = .op := h2.2 ⟨_, ho⟩
    constructor <;> simp_all [List.range_succ]
    omega
  | opUnlock ho =>
    rw [ho] at h7
    have hl : s.lock = .op := h2.2 ⟨_, ho⟩
    constructor <;> simp_all
  | lisStart e q hp hr =>
    have hl : s.lock ≠ .lis := by
      intro hl; obtain ⟨⟨e', he'⟩, _⟩ := h4 hl; simp [hr] at he'
    constructor <;> simp_all
  | lisLock e j hr ht hl =>
    constructor <;> simp_all
  | lisUnlock hl =>
    constructor <;> simp_all
  | lisFinish e hr ht hs =>
    have hl : s.lock ≠ .lis := by
      intro hl; have := (h4 hl).2; omega
    constructor <;> simp_all
  | nbLock hn hl =>
    constructor <;> simp_all
  | nbUnlock hn =>
    have hl : s.lock = .nb := h3.2 hn
    constructor <;> simp_all

theorem inv_reach {v : QueueVar} {beh : Beh} {k : Nat} {nb : NbPhase} (hnb : nb ≠ .inside) {s : St}
    (h : Reach v beh k nb s) : Inv k s := by
  induction h with
  | init => exact inv_init k nb hnb
  | step _ st ih => exact inv_step ih st

/-! ### the termination measure -/

/-- what a queued event still costs: pop, `calls e` times lock + unlock, return -/
def w (beh : Beh) (e : Ev) : Nat := 2 * beh.calls e + 2

/-- the events `start … start+len-1`, each with one Emit step -/
def futureW (beh : Beh) : Nat → Nat → Nat
  | _, 0 => 0
  | start, len + 1 => w beh start + 1 + futureW beh (start + 1) len

def pendW (beh : Beh) (q : List Ev) : Nat := (q.map (w beh)).sum

def opW (beh : Beh) (s : St) : Nat :=
  match s.op with
  | .waiting k => 2 + futureW beh s.next k
  | .emitting j => 1 + futureW beh s.next j
  | .returned => 0

def nbW : NbPhase → Nat
  | .waiting => 2 | .inside => 1 | .done => 0 | .absent => 0

def lisW (s : St) : Nat :=
  match s.b.running with
  | [] => 0
  | _ :: _ => 2 * s.lisTodo + 1 - (if s.lock = .lis then 1 else 0)

/-- the number of steps the whole machine can still make at most -/
def measure (beh : Beh) (s : St) : Nat := opW beh s + nbW s.nb + pendW beh s.b.pending + lisW s

theorem pendW_append (beh : Beh) (q : List Ev) (e : Ev) : pendW beh (q ++ [e]) = pendW beh q + w beh e := by
  simp [pendW]

theorem measure_step {v : QueueVar} {beh : Beh} {k : Nat} {s t : St} (h : Inv k s) (st : Step v beh s t) :
    measure beh t + 1 = measure beh s := by
  obtain ⟨h1, h2, h3, h4, h5, h6, h7⟩ := h
  cases st with
  | opLock k' ho hl =>
    simp only [measure, opW, lisW, ho, hl]
    have : (Holder.op = Holder.lis) = False := by simp
    have : (Holder.free = Holder.lis) = False := by simp
    simp only [*, if_false]
    omega
  | opEmit j ho hc =>
    have hl : s.lock = .op := h2.2 ⟨_, ho⟩
    simp only [measure, opW, lisW, ho, futureW, pendW_append]
    omega
  | opUnlock ho =>
    have hl : s.lock = .op := h2.2 ⟨_, ho⟩
    simp only [measure, opW, lisW, ho, hl, futureW]
    have : (Holder.op = Holder.lis) = False := by simp
    have : (Holder.free = Holder.lis) = False := by simp
    simp only [*, if_false]
    omega
  | lisStart e q hp hr =>
    have hl : s.lock ≠ .lis := by
      intro hl; obtain ⟨⟨e', he'⟩, _⟩ := h4 hl; simp [hr] at he'
    simp only [measure, opW, lisW, hp, hr, pendW, List.map_cons, List.sum_cons, w, hl, if_false]
    omega
  | lisLock e j hr ht hl =>
    simp only [measure, opW, lisW, hr, ht, hl]
    have : (Holder.free = Holder.lis) = False := by simp
    simp only [*, if_false, if_true]
    omega
  | lisUnlock hl =>
    obtain ⟨⟨e, he⟩, hpos⟩ := h4 hl
    simp only [measure, opW, lisW, he, hl]
    have : (Holder.free = Holder.lis) = False := by simp
    simp only [*, if_false, if_true]
    omega
  | lisFinish e hr ht hs =>
    have hl : s.lock ≠ .lis := by
      intro hl; have := (h4 hl).2; omega
    simp only [measure, opW, lisW, hr, ht, hl, if_false]
  | nbLock hn hl =>
    simp only [measure, opW, lisW, hn, hl, nbW]
    have : (Holder.nb = Holder.lis) = False := by simp
    have : (Holder.free = Holder.lis) = False := by simp
    simp only [*, if_false]
    omega
  | nbUnlock hn =>
    have hl : s.lock = .nb := h3.2 hn
    simp only [measure, opW, lisW, hn, hl, nbW]
    have : (Holder.nb = Holder.lis) = False := by simp
    have : (Holder.free = Holder.lis) = False := by simp
    simp only [*, if_false]
    omega

end Ibx.Lemmas.EmitLock
