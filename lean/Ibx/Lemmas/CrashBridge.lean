import Ibx.Props.C11
import Ibx.Lemmas.FileRefine
/-
  CrashBridge — connects the two developments about the file store:

    * the CRASH model (Ibx/Model/FsSteps.lean, Ibx/Lemmas/Crash.lean, Ibx/Props/C11.lean): an operation is the list of
      file-system primitives the code issues; what a reader sees is `view` (index entries with the contents of their raw
      files); the operation's effect is described by `unitViews`;
    * the SEQUENTIAL model (Ibx/Model/FileStore.lean) and its refinement of the ordered-mailbox spec
      (Ibx/Lemmas/FileRefine.lean: `RF`, `file_refines_step`).

  The abstraction is the relation `Abs C ρ s f`: every mailbox of the step-level file system `s` reads (through `view`)
  exactly what the sequential file system `f` lists (`readIndex` + `toMsg`), ids translated by the renaming
  `ρ : mailbox → concrete id → rank`.  It deliberately looks at `s` only through `view`, so everything crashes leave
  behind (tmp files, orphan raws, empty directories) is abstracted away — that is `residue_invisible` of C11.

  IDS.  The crash model takes the id of a delivery as a parameter of the operation (the code: wall-clock second +
  process counter, re-drawn while the mailbox lists it); the sequential model and the spec hand out `next b + 1`.
  `ρ` translates: it is injective per mailbox, and a delivery of concrete id `id` moves to `renFor … = renUpd ρ b id
  (next b + 1)`, which gives `id` the rank `next b + 1` and changes no id whose rank is `≤ next b` other than `id`
  itself.  The ONLY generator hypothesis used is C11's `Fresh` (the id is not LISTED in the mailbox — what the F-10 fix
  guarantees for any generator).  If moreover the id was never handed out before (`ρ b id = next b + 1` already: ranks
  of first appearance — the hypothesis of C10, finding F-10b is its failure), then `renUpd` is the identity
  (`renUpd_self`) and ONE renaming serves the whole history.
-/
namespace Ibx.Lemmas.CrashBridge
open Ibx Ibx.Model.FsSteps Ibx.Lemmas.Crash Ibx.Lemmas.FileRefine
open Ibx.Spec.Store (Meta Msg Store Cfg Out Ev inBox isMsg evOf)
open Ibx.Model.FileStore (FEnt readIndex rawOf toMsg)

/-- step-level (crash model) file system / operation -/
abbrev SFS := Ibx.Model.FsSteps.FS
abbrev SOp := Ibx.Model.FsSteps.Op
/-- sequential model's file system -/
abbrev QFS := Ibx.Model.FileStore.FS
/-- operation of the spec (and of the sequential model) -/
abbrev AOp := Ibx.Spec.Store.Op
abbrev slisting := Ibx.Spec.Store.listing
abbrev noLimit (c : Cfg) : Cfg := { c with limit := 0 }

/-! ### renamings of ids -/

/-- per mailbox: concrete id (what the generator produced) ↦ rank (the id of the sequential model / spec) -/
abbrev Ren := Bytes → Nat → Nat

def RenInj (ρ : Ren) : Prop := ∀ b i j, ρ b i = ρ b j → i = j

/-- give `id` the rank `n` in mailbox `b`; whoever held rank `n` gets the old rank of `id` (a transposition, so
    injectivity is kept) -/
def renUpd (ρ : Ren) (b : Bytes) (id n : Nat) : Ren :=
  fun x j => if x = b then (if j = id then n else if ρ b j = n then ρ b id else ρ b j) else ρ x j

theorem renUpd_inj {ρ : Ren} (h : RenInj ρ) (b : Bytes) (id n : Nat) : RenInj (renUpd ρ b id n) := by
  intro x i j hij
  simp only [renUpd] at hij
  by_cases hx : x = b
  · subst hx
    simp only [if_true] at hij
    by_cases hi : i = id <;> by_cases hj : j = id
    · rw [hi, hj]
    · simp only [hi, if_true, hj, if_false] at hij
      by_cases hjn : ρ x j = n
      · simp only [hjn, if_true] at hij
        exact absurd (h x j id (hjn.trans hij)) hj
      · simp only [hjn, if_false] at hij
        exact absurd hij.symm hjn
    · simp only [hj, if_true, hi, if_false] at hij
      by_cases hin : ρ x i = n
      · simp only [hin, if_true] at hij
        exact absurd (h x i id (hin.trans hij.symm)) hi
      · simp only [hin, if_false] at hij
    · simp only [hi, hj, if_false] at hij
      by_cases hin : ρ x i = n <;> by_cases hjn : ρ x j = n
      · exact h x i j (hin.trans hjn.symm)
      · simp only [hin, hjn, if_true, if_false] at hij
        exact absurd (h x id j hij).symm hj
      · simp only [hin, hjn, if_true, if_false] at hij
        exact absurd (h x i id hij) hi
      · simp only [hin, hjn, if_false] at hij
        exact h x i j hij
  · simp only [hx, if_false] at hij
    exact h x i j hij

theorem renUpd_same (ρ : Ren) (b : Bytes) (id n : Nat) : renUpd ρ b id n b id = n := by simp [renUpd]

theorem renUpd_other_box (ρ : Ren) (b : Bytes) (id n : Nat) {x : Bytes} (hx : x ≠ b) (j : Nat) : renUpd ρ b id n x j = ρ x j := by
  simp [renUpd, hx]

/-- ids that already have a rank below `n` keep it -/
theorem renUpd_keep (ρ : Ren) (b : Bytes) (id n : Nat) {j : Nat} (hj : j ≠ id) (hn : ρ b j ≠ n) : renUpd ρ b id n b j = ρ b j := by
  simp [renUpd, hj, hn]

/-- ranks of first appearance: an id that already has the rank it is given changes nothing -/
theorem renUpd_self (ρ : Ren) (b : Bytes) (id : Nat) : renUpd ρ b id (ρ b id) = ρ := by
  funext x j
  simp only [renUpd]
  by_cases hx : x = b
  · subst hx
    by_cases hj : j = id
    · simp [hj]
    · by_cases hn : ρ x j = ρ x id <;> simp [hj, hn]
  · simp [hx]

/-! ### views as spec messages -/

/-- what a reader of the step-level store gets for one listed entry, as a message of the spec -/
def msgOfV (ρ : Ren) (b : Bytes) (p : FEnt × Option Bytes) : Msg :=
  { box := b, id := ρ b p.1.id, hdr := p.1.hdr, seen := p.1.seen, source := p.2.getD [] }

/-- the operation of the crash model as an operation of the sequential model / spec -/
def toSpec (ρ : Ren) : SOp → AOp
  | .add b _ hdr src => .add b hdr src
  | .seen b id => .seen b (ρ b id)
  | .remove b id => .remove b (ρ b id)
  | .purge b => .purge b

/-- the renaming after the operation: a delivery gives its id the next rank -/
def renFor (ρ : Ren) (nx : Bytes → Nat) : SOp → Ren
  | .add b id _ _ => renUpd ρ b id (nx b + 1)
  | _ => ρ

/-- the last unit view, in closed form -/
def finalView (cap : Nat) (V : View) : SOp → View
  | .add _ id hdr src => V.drop (if cap > 0 then nEvict cap (V.map (·.1)) else 0) ++ [(newEnt id hdr src, some src)]
  | .seen _ id => markFirstV id V
  | .remove _ id => eraseFirstV id V
  | .purge _ => []

/-- number of evictions of the operation -/
def nEvOf (cap : Nat) (V : View) : SOp → Nat
  | .add _ _ _ _ => if cap > 0 then nEvict cap (V.map (·.1)) else 0
  | _ => 0

theorem markFirstV_none (id : Nat) : ∀ V : View, (∀ p ∈ V, p.1.id ≠ id) → markFirstV id V = V
  | [], _ => rfl
  | (e, c) :: V, h => by
    have h1 : e.id ≠ id := h (e, c) (by simp)
    simp only [markFirstV, h1, if_false]
    rw [markFirstV_none id V (fun p hp => h p (by simp [hp]))]

theorem eraseFirstV_none (id : Nat) : ∀ V : View, (∀ p ∈ V, p.1.id ≠ id) → eraseFirstV id V = V
  | [], _ => rfl
  | (e, c) :: V, h => by
    have h1 : e.id ≠ id := h (e, c) (by simp)
    simp only [eraseFirstV, h1, if_false]
    rw [eraseFirstV_none id V (fun p hp => h p (by simp [hp]))]

theorem markFirstV_seen (id : Nat) : ∀ (V : View) (p : FEnt × Option Bytes), V.find? (fun p => p.1.id = id) = some p → p.1.seen = true →
    markFirstV id V = V
  | [], _, h, _ => by simp at h
  | (e, c) :: V, p, h, hs => by
    simp only [List.find?_cons] at h
    by_cases he : e.id = id
    · subst he
      simp only [decide_true] at h
      cases h
      have : ({ e with seen := true } : FEnt) = e := by cases e; simp_all
      simp [markFirstV, this]
    · simp only [he, decide_false] at h
      simp only [markFirstV, he, if_false]
      rw [markFirstV_seen id V p h hs]

theorem unitViews_last (cap : Nat) (V : View) (op : SOp) : (unitViews cap V op).getLast? = some (finalView cap V op) := by
  cases op with
  | add b id hdr src => simp [unitViews, finalView]
  | seen b id =>
    simp only [unitViews, finalView]
    cases hf : V.find? (fun p => p.1.id = id) with
    | none =>
      have : ∀ p ∈ V, p.1.id ≠ id := by
        intro p hp; have := List.find?_eq_none.1 hf p hp; simpa using this
      simp [markFirstV_none id V this]
    | some p =>
      by_cases hs : p.1.seen = true
      · simp [hs, markFirstV_seen id V p hf hs]
      · simp [hs]
  | remove b id =>
    simp only [unitViews, finalView]
    by_cases h : V.any (fun p => p.1.id = id) = true
    · simp [h]
    · have : ∀ p ∈ V, p.1.id ≠ id := by
        intro p hp hid; apply h; simp only [List.any_eq_true]; exact ⟨p, hp, by simpa using hid⟩
      simp [h, eraseFirstV_none id V this]
  | purge b => simp [unitViews, finalView]

/-- every unit view is the view before with `j ≤ nEvOf` oldest messages gone, or the final view -/
theorem mem_unitViews (cap : Nat) (V0 V : View) (op : SOp) (h : V ∈ unitViews cap V0 op) :
    (∃ j, j ≤ nEvOf cap V0 op ∧ V = V0.drop j) ∨ V = finalView cap V0 op := by
  cases op with
  | add b id hdr src =>
    simp only [unitViews, List.mem_append, List.mem_map, List.mem_range, List.mem_singleton] at h
    rcases h with ⟨j, hj, rfl⟩ | h
    · exact Or.inl ⟨j, by simp only [nEvOf]; omega, rfl⟩
    · exact Or.inr h
  | seen b id =>
    have hl := unitViews_last cap V0 (.seen b id)
    simp only [unitViews] at h hl
    split at h
    · split at h
      · simp only [List.mem_singleton] at h; exact Or.inl ⟨0, Nat.zero_le _, by simpa using h⟩
      · simp only [List.mem_cons, List.not_mem_nil, or_false] at h
        rcases h with h | h
        · exact Or.inl ⟨0, Nat.zero_le _, by simpa using h⟩
        · exact Or.inr h
    · simp only [List.mem_singleton] at h; exact Or.inl ⟨0, Nat.zero_le _, by simpa using h⟩
  | remove b id =>
    simp only [unitViews] at h
    split at h
    · simp only [List.mem_cons, List.not_mem_nil, or_false] at h
      rcases h with h | h
      · exact Or.inl ⟨0, Nat.zero_le _, by simpa using h⟩
      · exact Or.inr h
    · simp only [List.mem_singleton] at h; exact Or.inl ⟨0, Nat.zero_le _, by simpa using h⟩
  | purge b =>
    simp only [unitViews, List.mem_cons, List.not_mem_nil, or_false] at h
    rcases h with h | h
    · exact Or.inl ⟨0, Nat.zero_le _, by simpa using h⟩
    · exact Or.inr h

/-! ### what one spec operation does to the listings (all mailboxes), its answer and its events -/

theorem spec_any (σ : Store) (b : Bytes) (i : Nat) : σ.msgs.any (isMsg b i) = (slisting σ b).any (fun m => m.id == i) := by
  simp only [slisting, Spec.Store.listing, List.any_filter]
  rfl

theorem spec_seen (c : Cfg) (σ : Store) (b : Bytes) (i : Nat) :
    (∀ x, slisting (sstep c σ (.seen b i)).1 x = if x = b then (slisting σ b).map (markSeen b i) else slisting σ x) ∧
    (sstep c σ (.seen b i)).2 = (if (slisting σ b).any (fun m => m.id == i) then Out.ok else Out.notExist, []) ∧
    (sstep c σ (.seen b i)).1.next = σ.next := by
  simp only [sstep, Spec.Store.step, ← spec_any]
  by_cases h : σ.msgs.any (isMsg b i) = true
  · simp only [h, if_true, and_true]
    intro x
    show (σ.msgs.map (markSeen b i)).filter (inBox x) = _
    by_cases hx : x = b
    · subst hx; simp only [if_true]; exact listing_map x _ (markSeen_box x i) _
    · simp only [hx, if_false]; exact listing_seen_other hx i _
  · simp only [h, Bool.false_eq_true, if_false, and_true]
    intro x
    by_cases hx : x = b
    · subst hx
      simp only [if_true]
      have : ∀ m ∈ slisting σ x, markSeen x i m = id m := by
        intro m hm
        have hm' := (List.mem_filter.1 hm).1
        have : isMsg x i m = false := by
          cases hq : isMsg x i m with
          | false => rfl
          | true => exact absurd (List.any_eq_true.2 ⟨m, hm', hq⟩) h
        simp [markSeen, this]
      exact ((List.map_congr_left this).trans (List.map_id _)).symm
    · simp only [hx, if_false]

theorem spec_remove (c : Cfg) (σ : Store) (b : Bytes) (i : Nat) :
    (∀ x, slisting (sstep c σ (.remove b i)).1 x = if x = b then (slisting σ b).filter (fun m => m.id != i) else slisting σ x) ∧
    (sstep c σ (.remove b i)).2 = (if (slisting σ b).any (fun m => m.id == i) then (Out.ok, [(b, i)]) else (Out.notExist, [])) ∧
    (sstep c σ (.remove b i)).1.next = σ.next := by
  simp only [sstep, Spec.Store.step, ← spec_any]
  by_cases h : σ.msgs.any (isMsg b i) = true
  · simp only [h, if_true, and_true]
    intro x
    show (σ.msgs.filter _).filter (inBox x) = _
    by_cases hx : x = b
    · subst hx; simp only [if_true]; exact listing_remove_self x i _
    · simp only [hx, if_false]; exact listing_remove_other hx i _
  · simp only [h, Bool.false_eq_true, if_false, and_true]
    intro x
    by_cases hx : x = b
    · subst hx
      simp only [if_true]
      symm
      rw [List.filter_eq_self]
      intro m hm
      have hm' := List.mem_filter.1 hm
      cases hq : (m.id == i) with
      | false => simp [bne, hq]
      | true =>
        have : isMsg x i m = true := by rw [isMsg_eq, hm'.2, hq]; rfl
        exact absurd (List.any_eq_true.2 ⟨m, hm'.1, this⟩) h
    · simp only [hx, if_false]

theorem spec_purge (c : Cfg) (σ : Store) (b : Bytes) :
    (∀ x, slisting (sstep c σ (.purge b)).1 x = if x = b then [] else slisting σ x) ∧
    (sstep c σ (.purge b)).2 = (Out.ok, (slisting σ b).map evOf) ∧
    (sstep c σ (.purge b)).1.next = σ.next := by
  simp only [sstep, Spec.Store.step, and_true]
  intro x
  show (σ.msgs.filter _).filter (inBox x) = _
  by_cases hx : x = b
  · subst hx; simp only [if_true]; exact listing_purge_self x _
  · simp only [hx, if_false]; exact listing_purge_other hx _

theorem spec_add (c : Cfg) (σ : Store) (b : Bytes) (hdr : Meta) (src : Bytes) :
    (∀ x, slisting (sstep (noLimit c) σ (.add b hdr src)).1 x =
      if x = b then (slisting σ b).drop (evictCount c.cap (slisting σ b).length) ++ [newMsg σ b hdr src] else slisting σ x) ∧
    (sstep (noLimit c) σ (.add b hdr src)).2 =
      (Out.id (σ.next b + 1), ((slisting σ b).take (evictCount c.cap (slisting σ b).length)).map evOf) ∧
    (sstep (noLimit c) σ (.add b hdr src)).1.next = bump σ.next b := by
  have hm : inBox b (newMsg σ b hdr src) = true := by simp [inBox, newMsg]
  refine ⟨fun x => ?_, ?_, ?_⟩
  · by_cases hx : x = b
    · subst hx; simp only [if_true]; exact add_listing c σ x hdr src
    · simp only [hx, if_false]
      show slisting (sstep { c with limit := 0 } σ (.add b hdr src)).1 x = _
      rw [sstep_add_eq]
      show List.filter (inBox x) _ = _
      rw [(capEvict_append c.cap b σ.msgs _ hm).2 x, List.filter_append, dropOldest_fst_other b x hx]
      have : inBox x (newMsg σ b hdr src) = false := by
        simp only [inBox, newMsg, beq_eq_false_iff_ne]; exact fun e => hx e.symm
      simp [this, slisting, Spec.Store.listing]
  · show (sstep { c with limit := 0 } σ (.add b hdr src)).2 = _
    rw [sstep_add_eq]
    simp only [(capEvict_append c.cap b σ.msgs _ hm).1, dropOldest_snd]
    rfl
  · show (sstep { c with limit := 0 } σ (.add b hdr src)).1.next = _
    rw [sstep_add_eq]

/-! ### the unit views through the renaming -/

theorem msgOfV_isMsg {ρ : Ren} (hρ : RenInj ρ) (b : Bytes) (p : FEnt × Option Bytes) (id : Nat) :
    isMsg b (ρ b id) (msgOfV ρ b p) = decide (p.1.id = id) := by
  by_cases h : p.1.id = id
  · simp [isMsg, msgOfV, h]
  · have : ρ b p.1.id ≠ ρ b id := fun e => h (hρ b _ _ e)
    simp [isMsg, msgOfV, h, this]

theorem msgOfV_id {ρ : Ren} (hρ : RenInj ρ) (b : Bytes) (p : FEnt × Option Bytes) (id : Nat) :
    ((msgOfV ρ b p).id == ρ b id) = decide (p.1.id = id) := by
  by_cases h : p.1.id = id
  · simp [msgOfV, h]
  · have : ρ b p.1.id ≠ ρ b id := fun e => h (hρ b _ _ e)
    simp [msgOfV, h, this]

theorem map_msgOfV_congr (ρ ρ' : Ren) (b : Bytes) (V : View) (h : ∀ p ∈ V, ρ' b p.1.id = ρ b p.1.id) :
    V.map (msgOfV ρ' b) = V.map (msgOfV ρ b) := by
  apply List.map_congr_left
  intro p hp
  simp [msgOfV, h p hp]

theorem any_msgOfV {ρ : Ren} (hρ : RenInj ρ) (b : Bytes) (V : View) (id : Nat) :
    (V.map (msgOfV ρ b)).any (fun m => m.id == ρ b id) = V.any (fun p => p.1.id = id) := by
  induction V with
  | nil => rfl
  | cons p V ih => simp only [List.map_cons, List.any_cons, ih, msgOfV_id hρ]

theorem map_markFirstV {ρ : Ren} (hρ : RenInj ρ) (b : Bytes) (id : Nat) : ∀ V : View, (V.map (·.1.id)).Nodup →
    (markFirstV id V).map (msgOfV ρ b) = (V.map (msgOfV ρ b)).map (markSeen b (ρ b id))
  | [], _ => rfl
  | (e, c) :: V, h => by
    simp only [List.map_cons, List.nodup_cons] at h
    by_cases he : e.id = id
    · have ht : ∀ p ∈ V, markSeen b (ρ b id) (msgOfV ρ b p) = msgOfV ρ b p := by
        intro p hp
        have : p.1.id ≠ id := fun hh => h.1 (by rw [he, ← hh]; exact List.mem_map.2 ⟨p, hp, rfl⟩)
        simp [markSeen, msgOfV_isMsg hρ, this]
      simp only [markFirstV, he, if_true, List.map_cons, List.map_map]
      congr 1
      · subst he; simp [markSeen, msgOfV_isMsg hρ]; simp [msgOfV]
      · apply List.map_congr_left
        intro p hp
        simp [ht p hp]
    · simp only [markFirstV, he, if_false, List.map_cons]
      rw [map_markFirstV hρ b id V h.2]
      congr 1
      simp [markSeen, msgOfV_isMsg hρ, he]

theorem map_eraseFirstV {ρ : Ren} (hρ : RenInj ρ) (b : Bytes) (id : Nat) : ∀ V : View, (V.map (·.1.id)).Nodup →
    (eraseFirstV id V).map (msgOfV ρ b) = (V.map (msgOfV ρ b)).filter (fun m => m.id != ρ b id)
  | [], _ => rfl
  | (e, c) :: V, h => by
    simp only [List.map_cons, List.nodup_cons] at h
    by_cases he : e.id = id
    · have ht : ∀ m ∈ V.map (msgOfV ρ b), (m.id != ρ b id) = true := by
        intro m hm
        obtain ⟨p, hp, rfl⟩ := List.mem_map.1 hm
        have : p.1.id ≠ id := fun hh => h.1 (by rw [he, ← hh]; exact List.mem_map.2 ⟨p, hp, rfl⟩)
        simp [bne, msgOfV_id hρ, this]
      simp only [eraseFirstV, he, if_true, List.map_cons, List.filter_cons]
      have h0 : ((msgOfV ρ b (e, c)).id != ρ b id) = false := by simp [bne, msgOfV_id hρ, he]
      simp only [h0, Bool.false_eq_true, if_false]
      exact (List.filter_eq_self.2 ht).symm
    · simp only [eraseFirstV, he, if_false, List.map_cons, List.filter_cons]
      have h0 : ((msgOfV ρ b (e, c)).id != ρ b id) = true := by simp [bne, msgOfV_id hρ, he]
      simp only [h0, if_true]
      rw [map_eraseFirstV hρ b id V h.2]

theorem nEv_eq (cap : Nat) (l : List FEnt) : (if cap > 0 then nEvict cap l else 0) = evictCount cap l.length := by
  unfold evictCount
  by_cases hc : cap > 0
  · simp only [hc, if_true, true_and]
    rw [nEvict_closed cap hc l]
    split <;> omega
  · simp [hc]

/-! ### answers and events of the step-level operations (what the Go calls return / publish, concrete ids) -/

inductive Ans
  | id (i : Nat)
  | ok
  | notExist
  deriving DecidableEq, Repr

/-- AddMessage returns the id; MarkSeen / RemoveMessage return nil or ErrNotExist; PurgeMessages nil -/
def opAns (V : View) : SOp → Ans
  | .add _ id _ _ => .id id
  | .seen _ id => if V.any (fun p => p.1.id = id) then .ok else .notExist
  | .remove _ id => if V.any (fun p => p.1.id = id) then .ok else .notExist
  | .purge _ => .ok

def renAns (ρ : Ren) (b : Bytes) : Ans → Out
  | .id i => .id (ρ b i)
  | .ok => .ok
  | .notExist => .notExist

/-- the `deleted` events: the evicted messages oldest first, the removed message, all purged messages -/
def opEvs (cap : Nat) (V : View) : SOp → List (Bytes × Nat)
  | .add b _ _ _ => (V.take (if cap > 0 then nEvict cap (V.map (·.1)) else 0)).map (fun p => (b, p.1.id))
  | .seen _ _ => []
  | .remove b id => if V.any (fun p => p.1.id = id) then [(b, id)] else []
  | .purge b => V.map (fun p => (b, p.1.id))

def renEv (ρ : Ren) (e : Bytes × Nat) : Ev := (e.1, ρ e.1 e.2)

theorem renFor_other_box (ρ : Ren) (nx : Bytes → Nat) (op : SOp) {x : Bytes} (hx : x ≠ op.box) (j : Nat) : renFor ρ nx op x j = ρ x j := by
  cases op <;> simp only [renFor]
  exact renUpd_other_box ρ _ _ _ hx j

theorem renFor_inj {ρ : Ren} (hρ : RenInj ρ) (nx : Bytes → Nat) (op : SOp) : RenInj (renFor ρ nx op) := by
  cases op <;> simp only [renFor] <;> first | exact hρ | exact renUpd_inj hρ _ _ _

/-- **the complete operation against the spec, on lists**: if the mailbox's view, renamed, is the spec's listing, then the
    spec operation produces the renamed LAST unit view, touches no other mailbox, returns the renamed answer and
    publishes the renamed events -/
theorem spec_unit_final (c : Cfg) (σ : Store) {ρ : Ren} (hρ : RenInj ρ) (op : SOp) (V0 : View)
    (hV : V0.map (msgOfV ρ op.box) = slisting σ op.box) (hnd : (V0.map (·.1.id)).Nodup)
    (hle : ∀ m ∈ slisting σ op.box, m.id ≤ σ.next op.box)
    (hfr : ∀ id hdr src, op = .add op.box id hdr src → id ∉ V0.map (·.1.id)) :
    slisting (sstep (noLimit c) σ (toSpec ρ op)).1 op.box = (finalView c.cap V0 op).map (msgOfV (renFor ρ σ.next op) op.box) ∧
    (∀ x, x ≠ op.box → slisting (sstep (noLimit c) σ (toSpec ρ op)).1 x = slisting σ x) ∧
    (sstep (noLimit c) σ (toSpec ρ op)).2.1 = renAns (renFor ρ σ.next op) op.box (opAns V0 op) ∧
    (sstep (noLimit c) σ (toSpec ρ op)).2.2 = (opEvs c.cap V0 op).map (renEv (renFor ρ σ.next op)) ∧
    (∀ p ∈ V0, renFor ρ σ.next op op.box p.1.id = ρ op.box p.1.id) := by
  cases op with
  | add b id hdr src =>
    simp only [Op.box] at hV hle hfr
    obtain ⟨h1, h2, _⟩ := spec_add c σ b hdr src
    have hk : ∀ p ∈ V0, renUpd ρ b id (σ.next b + 1) b p.1.id = ρ b p.1.id := by
      intro p hp
      apply renUpd_keep
      · intro e
        exact hfr id hdr src rfl (List.mem_map.2 ⟨p, hp, e⟩)
      · have hm : msgOfV ρ b p ∈ slisting σ b := by rw [← hV]; exact List.mem_map.2 ⟨p, hp, rfl⟩
        have := hle _ hm
        simp only [msgOfV] at this
        omega
    have hlen : (slisting σ b).length = V0.length := by rw [← hV, List.length_map]
    have hn : (if c.cap > 0 then nEvict c.cap (V0.map (·.1)) else 0) = evictCount c.cap (slisting σ b).length := by
      rw [nEv_eq, List.length_map, hlen]
    simp only [toSpec, Op.box, renFor, finalView, opAns, opEvs, hn]
    refine ⟨?_, ?_, ?_, ?_, hk⟩
    · rw [h1 b]
      simp only [if_true, List.map_append, List.map_cons, List.map_nil]
      congr 1
      · rw [← hV, ← List.map_drop]
        exact (map_msgOfV_congr ρ _ b _ (fun p hp => hk p (List.mem_of_mem_drop hp))).symm
      · simp [msgOfV, newMsg, newEnt, renUpd_same]
    · intro x hx; rw [h1 x]; simp [hx]
    · rw [h2]; simp [renAns, renUpd_same]
    · rw [h2]
      simp only [← hV, ← List.map_take, List.map_map]
      apply List.map_congr_left
      intro p hp
      simp [evOf, msgOfV, renEv, hk p (List.mem_of_mem_take hp)]
  | seen b id =>
    simp only [Op.box] at hV
    obtain ⟨h1, h2, _⟩ := spec_seen (noLimit c) σ b (ρ b id)
    simp only [toSpec, Op.box, renFor, finalView, opAns, opEvs]
    refine ⟨?_, ?_, ?_, ?_, by intros; trivial⟩
    · rw [h1 b]; simp only [if_true]; rw [← hV]; exact (map_markFirstV hρ b id V0 hnd).symm
    · intro x hx; rw [h1 x]; simp [hx]
    · rw [h2, ← hV, any_msgOfV hρ]; split <;> rfl
    · rw [h2]; rfl
  | remove b id =>
    simp only [Op.box] at hV
    obtain ⟨h1, h2, _⟩ := spec_remove (noLimit c) σ b (ρ b id)
    simp only [toSpec, Op.box, renFor, finalView, opAns, opEvs]
    refine ⟨?_, ?_, ?_, ?_, by intros; trivial⟩
    · rw [h1 b]; simp only [if_true]; rw [← hV]; exact (map_eraseFirstV hρ b id V0 hnd).symm
    · intro x hx; rw [h1 x]; simp [hx]
    · rw [h2, ← hV, any_msgOfV hρ]; split <;> rfl
    · rw [h2, ← hV, any_msgOfV hρ]; split <;> rfl
  | purge b =>
    simp only [Op.box] at hV
    obtain ⟨h1, h2, _⟩ := spec_purge (noLimit c) σ b
    simp only [toSpec, Op.box, renFor, finalView, opAns, opEvs]
    refine ⟨?_, ?_, ?_, ?_, by intros; trivial⟩
    · rw [h1 b]; simp
    · intro x hx; rw [h1 x]; simp [hx]
    · rw [h2]; rfl
    · rw [h2, ← hV, List.map_map, List.map_map]
      show List.map _ V0 = List.map _ V0
      apply List.map_congr_left
      intro p _
      simp [evOf, msgOfV, renEv]

/-! ### the abstraction -/

/-- **the abstraction relation** between the step-level file system of the crash model and the file system of the
    sequential model: every mailbox READS the same — the entries `view` yields (decoded index + contents of the raw
    files), ids renamed by `ρ`, are the messages the sequential model lists.  Tmp files, orphan raws and empty
    directories of `s` are not visible to it (C11 `residue_invisible`). -/
def Abs (C : Codec) (ρ : Ren) (s : SFS) (f : QFS) : Prop :=
  ∀ b, ∃ V, view C s b = some V ∧ V.map (msgOfV ρ b) = (readIndex f b).map (toMsg f b)

/-- the same, directly against the spec state -/
def AbsS (C : Codec) (ρ : Ren) (s : SFS) (σ : Store) : Prop :=
  ∀ b, ∃ V, view C s b = some V ∧ V.map (msgOfV ρ b) = slisting σ b

theorem abs_iff {C : Codec} {ρ : Ren} {s : SFS} {f : QFS} {σ : Store} (hrf : RF f σ) : Abs C ρ s f ↔ AbsS C ρ s σ := by
  constructor
  · intro h b
    obtain ⟨V, h1, h2⟩ := h b
    exact ⟨V, h1, by rw [h2]; exact hrf.view b⟩
  · intro h b
    obtain ⟨V, h1, h2⟩ := h b
    exact ⟨V, h1, by rw [h2]; exact (hrf.view b).symm⟩

theorem abs_init (C : Codec) (ρ : Ren) : Abs C ρ FS.init Ibx.Model.FileStore.empty :=
  fun _ => ⟨[], rfl, rfl⟩

open Ibx.Props.C11 (WF Fresh)

theorem wf_view_nodup {C : Codec} {s : SFS} (hwf : WF C s) {b : Bytes} {V : View} (hv : view C s b = some V) :
    (V.map (·.1.id)).Nodup := by
  obtain ⟨l, hg⟩ := hwf b
  rw [view, good_view hg] at hv
  cases hv
  have : (viewOf (s.dirs b) l).map (·.1.id) = l.map (·.id) := by
    simp [viewOf, Function.comp_def]
  rw [this]
  exact good_nodup hg

theorem fresh_view {C : Codec} {s : SFS} {b : Bytes} {id : Nat} {hdr : Meta} {src : Bytes} (hf : Fresh C s (.add b id hdr src))
    {V : View} (hv : view C s b = some V) : id ∉ V.map (·.1.id) := by
  simp only [view, dview] at hv
  cases hl : dlisting C (s.dirs b) with
  | none => simp [hl] at hv
  | some l =>
    simp only [hl, Option.map_some] at hv
    cases hv
    have := hf l hl
    simpa [viewOf, Function.comp_def] using this

/-- re-establishing the abstraction after a change confined to mailbox `b` -/
theorem absS_frame {C : Codec} {ρ ρ' : Ren} {s s' : SFS} {σ σ' : Store} (b : Bytes) (habs : AbsS C ρ s σ)
    (hd : ∀ x, x ≠ b → s'.dirs x = s.dirs x) (hr : ∀ x, x ≠ b → ∀ j, ρ' x j = ρ x j)
    (hl : ∀ x, x ≠ b → slisting σ' x = slisting σ x)
    (hb : ∃ V, view C s' b = some V ∧ V.map (msgOfV ρ' b) = slisting σ' b) : AbsS C ρ' s' σ' := by
  intro x
  by_cases hx : x = b
  · subst hx; exact hb
  · obtain ⟨V, h1, h2⟩ := habs x
    refine ⟨V, by simpa [view, hd x hx] using h1, ?_⟩
    rw [hl x hx, ← h2]
    exact map_msgOfV_congr ρ ρ' x V (fun p _ => hr x hx _)

/-! ### the abstraction as a function -/

/-- the sequential model's directory for a mailbox that reads `V`: no directory when it reads empty, else the renamed
    index and exactly the raw files of the listed entries (crash residue is dropped) -/
def absDir (ρ : Ren) (b : Bytes) (V : View) : Option Ibx.Model.FileStore.Dir :=
  if V = [] then none
  else some { index := some (V.map (fun p => { p.1 with id := ρ b p.1.id })),
              raws := V.filterMap (fun p => p.2.map (fun c => (ρ b p.1.id, c))) }

/-- **absFs**: the canonical sequential file system a step-level state abstracts to (the walk order `names` and the
    generator state `nx` are not determined by the directory tree and are parameters) -/
def absFs (C : Codec) (ρ : Ren) (names : List Bytes) (nx : Bytes → Nat) (s : SFS) : QFS :=
  { dirs := fun b => absDir ρ b ((view C s b).getD []), names := names, next := nx }

theorem find_absRaws {ρ : Ren} (hρ : RenInj ρ) (b : Bytes) : ∀ V : View, (V.map (·.1.id)).Nodup → (∀ p ∈ V, ∃ r, p.2 = some r) →
    ∀ p ∈ V, ((V.filterMap (fun p => p.2.map (fun c => (ρ b p.1.id, c)))).find? (·.1 == ρ b p.1.id)).map (·.2) = p.2
  | [], _, _, p, hp => by simp at hp
  | q :: V, hnd, hc, p, hp => by
    simp only [List.map_cons, List.nodup_cons] at hnd
    obtain ⟨r, hr⟩ := hc q (by simp)
    simp only [List.filterMap_cons, hr, Option.map_some, List.find?_cons]
    by_cases he : ρ b q.1.id = ρ b p.1.id
    · have hid := hρ b _ _ he
      have hpq : p = q := by
        rcases List.mem_cons.1 hp with h | h
        · exact h
        · exact absurd (List.mem_map.2 ⟨p, h, hid.symm⟩) hnd.1
      subst hpq
      simp [hr]
    · have hpq : p ∈ V := by
        rcases List.mem_cons.1 hp with h | h
        · subst h; exact absurd rfl he
        · exact h
      have : (ρ b q.1.id == ρ b p.1.id) = false := by simpa using he
      simp only [this]
      exact find_absRaws hρ b V hnd.2 (fun x hx => hc x (by simp [hx])) p hpq

open Ibx.Props.C11 (listed_complete) in
/-- a well-formed step-level state abstracts to its `absFs` -/
theorem abs_absFs (C : Codec) {ρ : Ren} (hρ : RenInj ρ) (names : List Bytes) (nx : Bytes → Nat) (s : SFS) (hwf : WF C s) :
    Abs C ρ s (absFs C ρ names nx s) := by
  intro b
  obtain ⟨l, hg⟩ := hwf b
  have hv : view C s b = some (viewOf (s.dirs b) l) := good_view hg
  refine ⟨_, hv, ?_⟩
  have hnd := wf_view_nodup hwf hv
  have hc := listed_complete C s hwf b _ hv
  generalize viewOf (s.dirs b) l = V at hv hnd hc
  have hdir : (absFs C ρ names nx s).dirs b = absDir ρ b V := by simp [absFs, hv]
  by_cases hV : V = []
  · subst hV
    simp [readIndex, hdir, absDir]
  · have hri : readIndex (absFs C ρ names nx s) b = V.map (fun p => { p.1 with id := ρ b p.1.id }) := by
      simp [readIndex, hdir, absDir, hV]
    rw [hri, List.map_map]
    apply List.map_congr_left
    intro p hp
    have hraw : rawOf (absFs C ρ names nx s) b (ρ b p.1.id) = p.2 := by
      simp only [rawOf, hdir, absDir, hV, if_false]
      exact find_absRaws hρ b V hnd (fun q hq => by obtain ⟨r, h1, _⟩ := hc q hq; exact ⟨r, h1⟩) p hp
    simp [msgOfV, toMsg, hraw]

/-! ### the atomic units of an operation, as spec operations -/

/-- a capped delivery is several atomic units: each eviction is one `remove` of the oldest message of the mailbox (with its
    own `deleted` event), then the add; every other operation is one unit -/
def unitOps (c : Cfg) (σ : Store) : AOp → List AOp
  | .add b hdr src =>
    ((slisting σ b).take (evictCount c.cap (slisting σ b).length)).map (fun m => Ibx.Spec.Store.Op.remove b m.id) ++ [.add b hdr src]
  | op => [op]

theorem srun_append (c : Cfg) : ∀ (a b : List AOp) (σ : Store),
    Spec.Store.run c σ (a ++ b) =
      ((Spec.Store.run c (Spec.Store.run c σ a).1 b).1, (Spec.Store.run c σ a).2 ++ (Spec.Store.run c (Spec.Store.run c σ a).1 b).2)
  | [], b, σ => by simp [Spec.Store.run]
  | op :: a, b, σ => by
    rw [List.cons_append, srun_cons, srun_cons, srun_append c a b]
    simp

theorem frun_append (c : Cfg) : ∀ (a b : List AOp) (f : QFS),
    (frun c f (a ++ b)).1 = (frun c (frun c f a).1 b).1
  | [], b, f => by simp [frun]
  | op :: a, b, f => by
    simp only [List.cons_append, frun]
    exact frun_append c a b _

/-- removing the `j` oldest messages of a mailbox one by one -/
theorem run_removes (c : Cfg) (b : Bytes) : ∀ (j : Nat) (L : List Msg) (σ : Store), slisting σ b = L →
    L.Pairwise (fun x y => x.id ≠ y.id) →
    slisting (Spec.Store.run c σ ((L.take j).map (fun m => Ibx.Spec.Store.Op.remove b m.id))).1 b = L.drop j ∧
    (∀ x, x ≠ b → slisting (Spec.Store.run c σ ((L.take j).map (fun m => Ibx.Spec.Store.Op.remove b m.id))).1 x = slisting σ x) ∧
    (Spec.Store.run c σ ((L.take j).map (fun m => Ibx.Spec.Store.Op.remove b m.id))).1.next = σ.next ∧
    (Spec.Store.run c σ ((L.take j).map (fun m => Ibx.Spec.Store.Op.remove b m.id))).2 = (L.take j).map (fun m => (Out.ok, [(b, m.id)]))
  | 0, L, σ, hL, _ => by simp [Spec.Store.run, hL]
  | j + 1, [], σ, hL, _ => by simp [Spec.Store.run, hL]
  | j + 1, m :: L, σ, hL, hp => by
    obtain ⟨h1, h2, h3⟩ := spec_remove c σ b m.id
    have hany : (slisting σ b).any (fun x => x.id == m.id) = true := by rw [hL]; simp
    have hL1 : slisting (sstep c σ (.remove b m.id)).1 b = L := by
      rw [h1 b, hL]; simp only [if_true]
      exact filter_ne_head (g := Msg.id) hp
    obtain ⟨i1, i2, i3, i4⟩ := run_removes c b j L (sstep c σ (.remove b m.id)).1 hL1 (List.pairwise_cons.1 hp).2
    simp only [List.take_succ_cons, List.map_cons, srun_cons, List.drop_succ_cons]
    refine ⟨i1, ?_, ?_, ?_⟩
    · intro x hx; rw [i2 x hx, h1 x]; simp [hx]
    · rw [i3, h3]
    · rw [i4, h2, hany]; rfl

theorem evictCount_le (cap n : Nat) : evictCount cap n ≤ n := by
  unfold evictCount; split <;> omega

theorem evictCount_after (cap n : Nat) : evictCount cap (n - evictCount cap n) = 0 := by
  unfold evictCount
  split
  · rename_i h
    have : ¬ (cap > 0 ∧ n - (n + 1 - cap) ≥ cap) := by omega
    simp [this]
  · rename_i h; simp [h]

/-- **running all units = the operation**: same listing of every mailbox, same generator, same events (each eviction
    publishes its own) -/
theorem unitOps_complete (c : Cfg) (σ : Store) (op : AOp) (hp : ∀ b, (slisting σ b).Pairwise (fun x y => x.id ≠ y.id)) :
    (∀ x, slisting (Spec.Store.run (noLimit c) σ (unitOps c σ op)).1 x = slisting (sstep (noLimit c) σ op).1 x) ∧
    (Spec.Store.run (noLimit c) σ (unitOps c σ op)).1.next = (sstep (noLimit c) σ op).1.next ∧
    ((Spec.Store.run (noLimit c) σ (unitOps c σ op)).2.map (·.2)).flatten = (sstep (noLimit c) σ op).2.2 := by
  have single : ∀ (τ : Store) (o : AOp), Spec.Store.run (noLimit c) τ [o] = ((sstep (noLimit c) τ o).1, [((sstep (noLimit c) τ o).2.1, (sstep (noLimit c) τ o).2.2)]) := by
    intro τ o; rw [srun_cons]; rfl
  cases op with
  | add b hdr src =>
    simp only [unitOps]
    rw [srun_append]
    obtain ⟨r1, r2, r3, r4⟩ := run_removes (noLimit c) b (evictCount c.cap (slisting σ b).length) (slisting σ b) σ rfl (hp b)
    generalize Spec.Store.run (noLimit c) σ (((slisting σ b).take (evictCount c.cap (slisting σ b).length)).map (fun m => Ibx.Spec.Store.Op.remove b m.id)) = R at r1 r2 r3 r4 ⊢
    rw [single]
    obtain ⟨a1, a2, a3⟩ := spec_add c R.1 b hdr src
    obtain ⟨b1, b2, b3⟩ := spec_add c σ b hdr src
    have hnm : newMsg R.1 b hdr src = newMsg σ b hdr src := by simp [newMsg, r3]
    have hz : evictCount c.cap (slisting R.1 b).length = 0 := by
      rw [r1, List.length_drop]; exact evictCount_after _ _
    refine ⟨fun x => ?_, ?_, ?_⟩
    · show slisting (sstep (noLimit c) R.1 (.add b hdr src)).1 x = _
      rw [a1 x, b1 x]
      by_cases hx : x = b
      · subst hx; simp only [if_true]; rw [hz, r1, hnm]; rfl
      · simp only [hx, if_false]; exact r2 x hx
    · show (sstep (noLimit c) R.1 (.add b hdr src)).1.next = _
      rw [a3, b3, r3]
    · show ((R.2 ++ [((sstep (noLimit c) R.1 (.add b hdr src)).2.1, (sstep (noLimit c) R.1 (.add b hdr src)).2.2)]).map (·.2)).flatten = _
      rw [a2, b2, r4, hz]
      simp only [List.map_append, List.map_map, List.map_cons, List.map_nil, List.take_zero, List.flatten_append, List.flatten_cons,
        List.flatten_nil, List.append_nil]
      have : ∀ m ∈ (slisting σ b).take (evictCount c.cap (slisting σ b).length), [(b, m.id)] = [evOf m] := by
        intro m hm
        have := (List.mem_filter.1 (List.mem_of_mem_take hm)).2
        simp only [inBox, beq_iff_eq] at this
        simp [evOf, this]
      generalize (slisting σ b).take (evictCount c.cap (slisting σ b).length) = T at this
      induction T with
      | nil => rfl
      | cons m T ih =>
        have h1 := this m (by simp)
        have h2 := ih (fun m hm => this m (by simp [hm]))
        simp only [List.map_cons, List.flatten_cons, Function.comp] at h2 ⊢
        rw [h2, h1]; rfl
  | get b i => simp only [unitOps, single]; simp
  | latest b => simp only [unitOps, single]; simp
  | list b => simp only [unitOps, single]; simp
  | seen b i => simp only [unitOps, single]; simp
  | remove b i => simp only [unitOps, single]; simp
  | purge b => simp only [unitOps, single]; simp
  | visit => simp only [unitOps, single]; simp

theorem removes_prefix (c : Cfg) (σ : Store) (b : Bytes) (hdr : Meta) (src : Bytes) (j : Nat)
    (hj : j ≤ evictCount c.cap (slisting σ b).length) :
    ((slisting σ b).take j).map (fun m => Ibx.Spec.Store.Op.remove b m.id) <+: unitOps c σ (.add b hdr src) := by
  have : (slisting σ b).take j = ((slisting σ b).take (evictCount c.cap (slisting σ b).length)).take j := by
    rw [List.take_take, Nat.min_eq_left hj]
  simp only [unitOps]
  rw [this, List.map_take]
  exact (List.take_prefix _ _).trans (List.prefix_append _ _)

open Ibx.Props.C11 (crash_atomic op_complete)

/-- **a crash image against the spec** (the core of `crash_atomic_spec`): after any prefix of the step program, the whole
    store reads as the spec state reached from `σ` by a PREFIX `us` of the operation's atomic units -/
theorem crash_units (C : Codec) (ch : Chooser) (lay : Layout) (c : Cfg) (s : SFS) (op : SOp) (k : Nat) {ρ : Ren} (hρ : RenInj ρ)
    {f : QFS} {σ : Store} (hwf : WF C s) (hfresh : Fresh C s op) (habs : Abs C ρ s f) (hrf : RF f σ) :
    ∃ (us : List AOp) (ρ' : Ren), us <+: unitOps c σ (toSpec ρ op) ∧ (ρ' = ρ ∨ ρ' = renFor ρ σ.next op) ∧ RenInj ρ' ∧
      AbsS C ρ' (runPrefix k op.box (program C Variant.safe ch lay c.cap op s) s) (Spec.Store.run (noLimit c) σ us).1 := by
  have habsS := (abs_iff hrf).1 habs
  obtain ⟨_, _, hd, V0, V, hv0, hv, hmem⟩ := crash_atomic C ch lay c.cap s op k hwf hfresh
  obtain ⟨V0', hv0', hV⟩ := habsS op.box
  rw [hv0] at hv0'
  cases hv0'
  have hnd := wf_view_nodup hwf hv0
  have hp := RF_listing_distinct hrf
  have hle : ∀ m ∈ slisting σ op.box, m.id ≤ σ.next op.box := fun m hm => (RF_listing_le hrf op.box m hm).2
  have hfr : ∀ id hdr src, op = .add op.box id hdr src → id ∉ V0.map (·.1.id) := by
    intro id hdr src h
    have hf' : Fresh C s (.add op.box id hdr src) := h ▸ hfresh
    exact fresh_view hf' hv0
  rcases mem_unitViews c.cap V0 V op hmem with ⟨j, hj, rfl⟩ | rfl
  · obtain ⟨r1, r2, _, _⟩ := run_removes (noLimit c) op.box j (slisting σ op.box) σ rfl (hp op.box)
    refine ⟨((slisting σ op.box).take j).map (fun m => Ibx.Spec.Store.Op.remove op.box m.id), ρ, ?_, Or.inl rfl, hρ, ?_⟩
    · cases op with
      | add b id hdr src =>
        simp only [Op.box] at hV ⊢
        apply removes_prefix
        simp only [nEvOf, nEv_eq, List.length_map] at hj
        have : (slisting σ b).length = V0.length := by rw [← hV, List.length_map]
        rw [this]; exact hj
      | seen b id => simp only [nEvOf, Nat.le_zero_eq] at hj; subst hj; simp
      | remove b id => simp only [nEvOf, Nat.le_zero_eq] at hj; subst hj; simp
      | purge b => simp only [nEvOf, Nat.le_zero_eq] at hj; subst hj; simp
    · exact absS_frame op.box habsS hd (fun _ _ _ => rfl) r2 ⟨V0.drop j, hv, by rw [List.map_drop, hV, r1]⟩
  · obtain ⟨u1, _, _⟩ := unitOps_complete c σ (toSpec ρ op) hp
    obtain ⟨f1, f2, _, _, _⟩ := spec_unit_final c σ hρ op V0 hV hnd hle hfr
    refine ⟨unitOps c σ (toSpec ρ op), renFor ρ σ.next op, List.prefix_refl _, Or.inr rfl, renFor_inj hρ _ _, ?_⟩
    exact absS_frame op.box habsS hd (fun x hx j => renFor_other_box ρ σ.next op hx j) (fun x hx => (u1 x).trans (f2 x hx))
      ⟨_, hv, by rw [u1 op.box, f1]⟩

/-- **the complete operation against the spec**: every mailbox of the store after `runOp` reads as the spec state after the
    operation; the mailbox shows the final unit view; the spec's answer and events are the renamed ones of the step level -/
theorem complete_units (C : Codec) (ch : Chooser) (lay : Layout) (c : Cfg) (s : SFS) (op : SOp) {ρ : Ren} (hρ : RenInj ρ)
    {f : QFS} {σ : Store} (hwf : WF C s) (hfresh : Fresh C s op) (habs : Abs C ρ s f) (hrf : RF f σ) :
    ∃ V0, view C s op.box = some V0 ∧
      view C (runOp C Variant.safe ch lay c.cap op s) op.box = some (finalView c.cap V0 op) ∧
      AbsS C (renFor ρ σ.next op) (runOp C Variant.safe ch lay c.cap op s) (sstep (noLimit c) σ (toSpec ρ op)).1 ∧
      (sstep (noLimit c) σ (toSpec ρ op)).2.1 = renAns (renFor ρ σ.next op) op.box (opAns V0 op) ∧
      (sstep (noLimit c) σ (toSpec ρ op)).2.2 = (opEvs c.cap V0 op).map (renEv (renFor ρ σ.next op)) := by
  have habsS := (abs_iff hrf).1 habs
  obtain ⟨_, _, V0, V, hv0, hv, hlast⟩ := op_complete C ch lay c.cap s op hwf hfresh
  rw [unitViews_last] at hlast
  cases hlast
  have hd : ∀ x, x ≠ op.box → (runOp C Variant.safe ch lay c.cap op s).dirs x = s.dirs x := by
    have := (crash_atomic C ch lay c.cap s op (program C Variant.safe ch lay c.cap op s).length hwf hfresh).2.2.1
    simpa [runPrefix, runOp] using this
  obtain ⟨V0', hv0', hV⟩ := habsS op.box
  rw [hv0] at hv0'
  cases hv0'
  have hnd := wf_view_nodup hwf hv0
  have hle : ∀ m ∈ slisting σ op.box, m.id ≤ σ.next op.box := fun m hm => (RF_listing_le hrf op.box m hm).2
  have hfr : ∀ id hdr src, op = .add op.box id hdr src → id ∉ V0.map (·.1.id) := by
    intro id hdr src h
    have hf' : Fresh C s (.add op.box id hdr src) := h ▸ hfresh
    exact fresh_view hf' hv0
  obtain ⟨f1, f2, f3, f4, _⟩ := spec_unit_final c σ hρ op V0 hV hnd hle hfr
  refine ⟨V0, hv0, hv, ?_, f3, f4⟩
  exact absS_frame op.box habsS hd (fun x hx j => renFor_other_box ρ σ.next op hx j) f2 ⟨_, hv, f1.symm⟩

/-! ### histories with crashes -/

/-- one event of a history of the step-level store: an operation that ran to completion, or one that was cut short
    after `k` primitives by a process crash (followed by a restart: the next event starts from the crash image) -/
inductive HEv
  | done (op : SOp) (ch : Chooser)
  | crashed (op : SOp) (ch : Chooser) (k : Nat)

def HEv.op : HEv → SOp
  | .done op _ => op
  | .crashed op _ _ => op

def stepH (C : Codec) (lay : Layout) (cap : Nat) (s : SFS) : HEv → SFS
  | .done op ch => runOp C Variant.safe ch lay cap op s
  | .crashed op ch k => runPrefix k op.box (program C Variant.safe ch lay cap op s) s

def runH (C : Codec) (lay : Layout) (cap : Nat) : SFS → List HEv → SFS
  | s, [] => s
  | s, e :: h => runH C lay cap (stepH C lay cap s e) h

/-- the generator hypothesis along a history: the id of every delivery is not LISTED in its mailbox at that moment -/
def FreshH (C : Codec) (lay : Layout) (cap : Nat) : SFS → List HEv → Prop
  | _, [] => True
  | s, e :: h => Fresh C s e.op ∧ FreshH C lay cap (stepH C lay cap s e) h

/-- `Explains c ρ σ h ρ' σ' ops`: the spec history `ops` explains the step-level history `h` started in spec state `σ`
    under renaming `ρ` — a completed operation contributes itself (renamed), a crashed one a PREFIX of its atomic
    units — and ends in `σ'` under `ρ'`.  The renaming changes only at deliveries (`renFor`). -/
inductive Explains (c : Cfg) : Ren → Store → List HEv → Ren → Store → List AOp → Prop
  | nil (ρ : Ren) (σ : Store) : Explains c ρ σ [] ρ σ []
  | done {ρ : Ren} {σ : Store} {op : SOp} {ch : Chooser} {h : List HEv} {ρ' : Ren} {σ' : Store} {ops : List AOp} :
      Explains c (renFor ρ σ.next op) (sstep (noLimit c) σ (toSpec ρ op)).1 h ρ' σ' ops →
      Explains c ρ σ (.done op ch :: h) ρ' σ' (toSpec ρ op :: ops)
  | crashed {ρ ρ1 : Ren} {σ : Store} {op : SOp} {ch : Chooser} {k : Nat} {h : List HEv} {ρ' : Ren} {σ' : Store} {us ops : List AOp} :
      us <+: unitOps c σ (toSpec ρ op) → (ρ1 = ρ ∨ ρ1 = renFor ρ σ.next op) →
      Explains c ρ1 (Spec.Store.run (noLimit c) σ us).1 h ρ' σ' ops →
      Explains c ρ σ (.crashed op ch k :: h) ρ' σ' (us ++ ops)

theorem explains_run {c : Cfg} {ρ ρ' : Ren} {σ σ' : Store} {h : List HEv} {ops : List AOp} (e : Explains c ρ σ h ρ' σ' ops) :
    σ' = (Spec.Store.run (noLimit c) σ ops).1 := by
  induction e with
  | nil => rfl
  | done _ ih => rw [srun_cons]; exact ih
  | crashed _ _ _ ih => rw [srun_append]; exact ih

/-- **the invariant goes through every history**: completed operations by `complete_units` + `file_refines_step`,
    crashes by `crash_units` + `file_refines_run` -/
theorem history_explained (C : Codec) (lay : Layout) (c : Cfg) : ∀ (h : List HEv) (s : SFS) (ρ : Ren) (f : QFS) (σ : Store),
    RenInj ρ → WF C s → Abs C ρ s f → RF f σ → FreshH C lay c.cap s h →
    ∃ (ρ' : Ren) (σ' : Store) (ops : List AOp) (f' : QFS), Explains c ρ σ h ρ' σ' ops ∧ RenInj ρ' ∧
      WF C (runH C lay c.cap s h) ∧ Abs C ρ' (runH C lay c.cap s h) f' ∧ RF f' σ'
  | [], s, ρ, f, σ, hρ, hwf, habs, hrf, _ => ⟨ρ, σ, [], f, .nil ρ σ, hρ, hwf, habs, hrf⟩
  | .done op ch :: h, s, ρ, f, σ, hρ, hwf, habs, hrf, hfr => by
    obtain ⟨_, _, _, hS, _, _⟩ := complete_units C ch lay c s op hρ hwf hfr.1 habs hrf
    have hrf1 := (Lemmas.FileRefine.file_refines_step c hrf (toSpec ρ op)).2.2
    have hwf1 := (op_complete C ch lay c.cap s op hwf hfr.1).2.1
    obtain ⟨ρ', σ', ops, f', he, h1, h2, h3, h4⟩ := history_explained C lay c h _ _ _ _ (renFor_inj hρ σ.next op) hwf1
      ((abs_iff hrf1).2 hS) hrf1 hfr.2
    exact ⟨ρ', σ', _, f', .done he, h1, h2, h3, h4⟩
  | .crashed op ch k :: h, s, ρ, f, σ, hρ, hwf, habs, hrf, hfr => by
    obtain ⟨us, ρ1, hpre, hor, hρ1, hS⟩ := crash_units C ch lay c s op k hρ hwf hfr.1 habs hrf
    have hrf1 := (Lemmas.FileRefine.file_refines_run c us hrf).2
    have hwf1 := (crash_atomic C ch lay c.cap s op k hwf hfr.1).1
    obtain ⟨ρ', σ', ops, f', he, h1, h2, h3, h4⟩ := history_explained C lay c h _ _ _ _ hρ1 hwf1 ((abs_iff hrf1).2 hS) hrf1 hfr.2
    exact ⟨ρ', σ', _, f', .crashed hpre hor he, h1, h2, h3, h4⟩

end Ibx.Lemmas.CrashBridge
