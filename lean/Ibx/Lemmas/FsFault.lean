import Ibx.Model.FsFault
import Ibx.Lemmas.Crash
/-
  Lemmas for C16Fault: the fault model of the file store (Ibx/Model/FsFault.lean), per mailbox directory.
  What every block of hooked calls (`writeIndexF`, `removeDirF`, `removeFoundF`, the cap loop, the stages of `addF`)
  leaves behind, for EVERY fault set `F`; Props/C16Fault.lean lifts the results to the whole file system.
-/
namespace Ibx.Lemmas.FsFault
open Ibx Ibx.Spec.Store Ibx.Model.FsSteps Ibx.Model.FsFault Ibx.Lemmas.Crash
open Ibx.Model.FileStore (FEnt)

/-- a hook call with index in `[a, c)` is refused -/
def FaultIn (F : Nat → Bool) (a c : Nat) : Prop := ∃ j, a ≤ j ∧ j < c ∧ F j = true

theorem faultIn_mono {F : Nat → Bool} {a c a' c' : Nat} (h : FaultIn F a c) (ha : a' ≤ a) (hc : c ≤ c') : FaultIn F a' c' := by
  obtain ⟨j, h1, h2, h3⟩ := h
  exact ⟨j, by omega, by omega, h3⟩

theorem fi {F : Nat → Bool} {a c j : Nat} (h : F j = true) (h1 : a ≤ j) (h2 : j < c) : FaultIn F a c := ⟨j, h1, h2, h⟩

open Lean in
/-- `pick_fault h0 h1 …`: the first of the hypotheses `hi : F _ = true` that lies in the range proves `FaultIn` -/
macro "pick_fault" hs:ident* : tactic => do
  let mut t ← `(tactic| fail "no refused call in range")
  for h in hs.reverse do
    t ← `(tactic| first | exact fi $h (by omega) (by omega) | ($t:tactic))
  return t

syntax "close_stage" ident* : tactic
macro_rules
  | `(tactic| close_stage $hs*) => `(tactic|
      first
        | omega
        | rfl
        | exact ⟨_, rfl⟩
        | exact Or.inl rfl
        | exact Or.inr rfl
        | pick_fault $hs*
        | (refine ⟨?_, ?_⟩ <;> close_stage $hs*))

/-- the directory (created if missing) with another temporary index file -/
def withTmp (d : Option MDir) (t : Option Bytes) : Option MDir := some { (d.getD MDir.empty) with tmp := t }
/-- the directory (created if missing) after a complete index write -/
def written (d : Option MDir) (e : Bytes) : Option MDir := some { (d.getD MDir.empty) with index := some e, tmp := none }

theorem okAll_of_safe {R : Option MDir → Prop} : ∀ (L : List FsStep) (d : Option MDir), Safe R d L → okAll d L = true
  | [], _, _ => rfl
  | st :: L, d, h => by simp [okAll, h.2.1, okAll_of_safe L _ h.2.2]

section
variable (C : Codec) (F : Nat → Bool) (b : Bytes)

/-! ### single calls and the parents -/

theorem call_spec (r : Run) (h : Hook) (p : Bytes) :
    (call F r h p).1.events = r.events ∧ (call F r h p).1.k = r.k + 1 ∧
    ((call F r h p).1.d = r.d ∨ (call F r h p).1.d = runDir r.d (h.steps r.d p)) := by
  by_cases hg : (!F r.k && okAll r.d (h.steps r.d p)) = true <;> simp [call, hg]

theorem calls_parent : ∀ (L : List (Hook × Bytes)) (r : Run), (∀ hp ∈ L, ∃ lv, hp = (Hook.rmdirParent lv, [])) →
    (calls F r L).1.d = r.d ∧ (calls F r L).1.events = r.events ∧ r.k ≤ (calls F r L).1.k
  | [], r, _ => ⟨rfl, rfl, Nat.le_refl _⟩
  | (h, p) :: L, r, hL => by
    obtain ⟨lv, hlv⟩ := hL (h, p) (by simp)
    cases hlv
    have hd : (call F r (.rmdirParent lv) []).1.d = r.d := by
      simp [call, Hook.steps, runDir, applyDir]
    obtain ⟨he, hk, _⟩ := call_spec F r (.rmdirParent lv) []
    simp only [calls]
    split
    · obtain ⟨i1, i2, i3⟩ := calls_parent L (call F r (.rmdirParent lv) []).1 (fun hp h => hL hp (by simp [h]))
      exact ⟨by rw [i1, hd], by rw [i2, he], by omega⟩
    · refine ⟨hd, he, ?_⟩
      show r.k ≤ (call F r (.rmdirParent lv) []).1.k
      omega

theorem parentHooks_shape (par : List FsStep) : ∀ hp ∈ parentHooks par, ∃ lv, hp = (Hook.rmdirParent lv, []) := by
  intro hp h
  simp only [parentHooks, List.mem_filterMap] at h
  obtain ⟨st, _, hst⟩ := h
  cases st <;> simp at hst
  exact ⟨_, hst.symm⟩

/-! ### mbox.writeIndex -/

theorem writeIndexF_some (x : MDir) (l : List FEnt) (r : Run) (hr : r.d = some x) :
    (writeIndexF C F b l r).1.events = r.events ∧ r.k ≤ (writeIndexF C F b l r).1.k ∧
    ((writeIndexF C F b l r).2 = true → (writeIndexF C F b l r).1.d = some { x with index := some (C.enc (b, l)), tmp := none }) ∧
    ((writeIndexF C F b l r).2 = false →
      (∃ t, (writeIndexF C F b l r).1.d = some { x with tmp := t }) ∧ FaultIn F r.k (writeIndexF C F b l r).1.k) := by
  obtain ⟨d, k, tr, ev⟩ := r
  simp only at hr
  subst hr
  cases h0 : F k <;> cases h1 : F (k + 1) <;> cases h2 : F (k + 2) <;> cases h3 : F (k + 3) <;>
    simp [writeIndexF, createDirH, calls, call, Hook.steps, okAll, okDir, applyDir, onDir, runDir, h0, h1, h2, h3] <;>
    close_stage h0 h1 h2 h3

theorem writeIndexF_none (l : List FEnt) (r : Run) (hr : r.d = none) :
    (writeIndexF C F b l r).1.events = r.events ∧ r.k ≤ (writeIndexF C F b l r).1.k ∧
    ((writeIndexF C F b l r).2 = true → (writeIndexF C F b l r).1.d = some { MDir.empty with index := some (C.enc (b, l)), tmp := none }) ∧
    ((writeIndexF C F b l r).2 = false →
      ((writeIndexF C F b l r).1.d = none ∨ ∃ t, (writeIndexF C F b l r).1.d = some { MDir.empty with tmp := t }) ∧
      FaultIn F r.k (writeIndexF C F b l r).1.k) := by
  obtain ⟨d, k, tr, ev⟩ := r
  simp only at hr
  subst hr
  cases h0 : F k <;> cases h1 : F (k + 1) <;> cases h2 : F (k + 2) <;> cases h3 : F (k + 3) <;> cases h4 : F (k + 4) <;>
    simp [writeIndexF, createDirH, calls, call, Hook.steps, okAll, okDir, applyDir, onDir, runDir, MDir.empty, h0, h1, h2, h3, h4] <;>
    close_stage h0 h1 h2 h3 h4

/-- a complete index write leaves the new index and no temporary file; a failed one changes nothing but the temporary
    file (and may have created the directory) — and a failure means a refused call -/
theorem writeIndexF_spec (l : List FEnt) (r : Run) :
    (writeIndexF C F b l r).1.events = r.events ∧ r.k ≤ (writeIndexF C F b l r).1.k ∧
    ((writeIndexF C F b l r).2 = true → (writeIndexF C F b l r).1.d = written r.d (C.enc (b, l))) ∧
    ((writeIndexF C F b l r).2 = false →
      ((writeIndexF C F b l r).1.d = r.d ∨ ∃ t, (writeIndexF C F b l r).1.d = withTmp r.d t) ∧
      FaultIn F r.k (writeIndexF C F b l r).1.k) := by
  cases hd : r.d with
  | none =>
    obtain ⟨h1, h2, h3, h4⟩ := writeIndexF_none C F b l r hd
    refine ⟨h1, h2, fun h => by rw [h3 h]; rfl, fun h => ?_⟩
    obtain ⟨h5, h6⟩ := h4 h
    refine ⟨?_, h6⟩
    rcases h5 with h5 | ⟨t, h5⟩
    · exact Or.inl h5
    · exact Or.inr ⟨t, by rw [h5]; rfl⟩
  | some x =>
    obtain ⟨h1, h2, h3, h4⟩ := writeIndexF_some C F b x l r hd
    refine ⟨h1, h2, fun h => by rw [h3 h]; rfl, fun h => ?_⟩
    obtain ⟨⟨t, h5⟩, h6⟩ := h4 h
    exact ⟨Or.inr ⟨t, by rw [h5]; rfl⟩, h6⟩

/-! ### mbox.removeDir -/

theorem removeAll_ok : ∀ d : Option MDir, (∀ x, d = some x → x.index = none) →
    okAll d (removeAllP Chooser.whole d) = true ∧ runDir d (removeAllP Chooser.whole d) = none
  | none, _ => by simp [removeAllP, okAll, okDir, runDir, applyDir]
  | some x, h => by
    have hx := h x rfl
    have := removeAll_block (R := fun _ => True) (fun _ _ => trivial) trivial (Chooser.whole.order (entries x)) x hx
      (fun e he => (Chooser.whole.order_perm _).mem_iff.mpr he)
    exact ⟨okAll_of_safe _ _ this.1, this.2⟩

/-- removeDir: all gone; or refused at the index (nothing happened) or at RemoveAll (only the index went) -/
theorem removeDirF_spec (par : List FsStep) (r : Run) :
    (removeDirF F par r).1.events = r.events ∧ r.k ≤ (removeDirF F par r).1.k ∧
    ((removeDirF F par r).2 = true → (removeDirF F par r).1.d = none) ∧
    ((removeDirF F par r).2 = false →
      ((removeDirF F par r).1.d = r.d ∨ (removeDirF F par r).1.d = r.d.map (fun x => { x with index := none })) ∧
      FaultIn F r.k (removeDirF F par r).1.k) := by
  obtain ⟨d, k, tr, ev⟩ := r
  have hidx : ∀ x, d.map (fun x : MDir => { x with index := none }) = some x → x.index = none := by
    intro x hx
    cases d with
    | none => simp at hx
    | some y => simp at hx; rw [← hx]
  obtain ⟨hok, hrun⟩ := removeAll_ok _ hidx
  have hu : applyDir d .unlinkIndex = d.map (fun x : MDir => { x with index := none }) := by simp [applyDir, onDir]
  have hshape : ∀ hp ∈ (if d.isSome then parentHooks par else []), ∃ lv, hp = (Hook.rmdirParent lv, []) := by
    split
    · exact parentHooks_shape par
    · simp
  cases h0 : F k <;> cases h1 : F (k + 1)
  · -- both carried out, then the parents
    have hc : calls F { d := d, k := k, trace := tr, events := ev } [(.unlinkIndex, []), (.removeAll, [])] =
        ({ d := none, k := k + 2, trace := tr ++ [.unlinkIndex] ++ [.removeAll], events := ev }, true) := by
      simp [calls, call, Hook.steps, okAll, okDir, runDir, h0, h1, hu, hok]
      simpa [runDir] using hrun
    obtain ⟨p1, p2, p3⟩ := calls_parent F (if d.isSome then parentHooks par else [])
      { d := none, k := k + 2, trace := tr ++ [.unlinkIndex] ++ [.removeAll], events := ev } hshape
    simp only [removeDirF, hc, if_true]
    refine ⟨p2, ?_, fun _ => p1, fun h => by simp at h⟩
    simp only at p3 ⊢
    omega
  · have hc : calls F { d := d, k := k, trace := tr, events := ev } [(.unlinkIndex, []), (.removeAll, [])] =
        ({ d := d.map (fun x : MDir => { x with index := none }), k := k + 2, trace := tr ++ [.unlinkIndex] ++ [.removeAll], events := ev }, false) := by
      simp [calls, call, Hook.steps, okAll, okDir, runDir, h0, h1, hu]
    simp only [removeDirF, hc]
    exact ⟨rfl, by simp, fun h => by simp at h, fun _ => ⟨Or.inr rfl, k + 1, by simp, by simp, h1⟩⟩
  all_goals
    have hc : calls F { d := d, k := k, trace := tr, events := ev } [(.unlinkIndex, []), (.removeAll, [])] =
        ({ d := d, k := k + 1, trace := tr ++ [.unlinkIndex], events := ev }, false) := by
      simp [calls, call, h0]
    simp only [removeDirF, hc]
    exact ⟨rfl, by simp, fun h => by simp at h, fun _ => ⟨Or.inl rfl, k, by simp, by simp, h0⟩⟩

/-! ### `Good` under the changes a failed block leaves -/

theorem good_withTmp {l : List FEnt} {d : Option MDir} (h : Good C b l d) (t : Option Bytes) : Good C b l (withTmp d t) := by
  cases d with
  | none =>
    have hl : l = [] := h
    subst hl
    simp [withTmp, Good, MDir.empty]
  | some x => exact h

theorem dcontent_withTmp (d : Option MDir) (t : Option Bytes) (i : Nat) : dcontent (withTmp d t) i = dcontent d i := by
  cases d <;> simp [withTmp, dcontent, MDir.empty, rawGet]

theorem dcontent_written (d : Option MDir) (e : Bytes) (i : Nat) : dcontent (written d e) i = dcontent d i := by
  cases d <;> simp [written, dcontent, MDir.empty, rawGet]

theorem good_written {l : List FEnt} (d : Option MDir) (hnd : (l.map (·.id)).Nodup)
    (hraw : ∀ e ∈ l, ∃ r, dcontent d e.id = some r ∧ r.length = e.size) : Good C b l (written d (C.enc (b, l))) := by
  refine ⟨Or.inr rfl, hnd, fun e he => ?_⟩
  have := hraw e he
  rw [← dcontent_written d (C.enc (b, l))] at this
  exact this

theorem good_unlinkIndex {l : List FEnt} {d : Option MDir} (_h : Good C b l d) : Good C b [] (d.map (fun x => { x with index := none })) := by
  cases d with
  | none => rfl
  | some x => simp [Good]

/-- the raw files named by `l` are the same in `d'` as in `d`, everything else but the raws is the same: `Good` carries over -/
theorem good_raws {l : List FEnt} {x : MDir} (raws' : List (Nat × Bytes)) (hg : Good C b l (some x))
    (h : ∀ e ∈ l, rawGet raws' e.id = rawGet x.raws e.id) : Good C b l (some { x with raws := raws' }) :=
  (good_raws_change C b raws' hg h).1

/-! ### mbox.removeMessage of a listed entry -/

/-- `removeFoundF` from a directory that lists `ld`, the in-memory list becoming `l'` (a sublist of `ld` without `id`):
    the event is emitted in every case; EITHER the index now lists `l'` (the raw of `id` possibly still there), every raw
    `l'` names untouched, OR the index write was refused: the directory lists `ld` as before, every raw untouched,
    the call returns the error — and a call was refused. -/
theorem removeFoundF_spec (par : List FsStep) (ld l' : List FEnt) (id : Nat) (r : Run)
    (hg : Good C b ld r.d) (hsub : l'.Sublist ld) (hid : id ∉ l'.map (·.id)) :
    (removeFoundF C F b par l' id r).1.events = r.events ++ [id] ∧ r.k ≤ (removeFoundF C F b par l' id r).1.k ∧
    ((Good C b l' (removeFoundF C F b par l' id r).1.d ∧
        ∀ e ∈ l', dcontent (removeFoundF C F b par l' id r).1.d e.id = dcontent r.d e.id) ∨
     (Good C b ld (removeFoundF C F b par l' id r).1.d ∧
        (∀ i, dcontent (removeFoundF C F b par l' id r).1.d i = dcontent r.d i) ∧
        FaultIn F r.k (removeFoundF C F b par l' id r).1.k ∧ (removeFoundF C F b par l' id r).2 = false)) := by
  have hem : (emit r id).d = r.d ∧ (emit r id).k = r.k ∧ (emit r id).events = r.events ++ [id] := ⟨rfl, rfl, rfl⟩
  by_cases hl : l' = []
  · subst hl
    have e : removeFoundF C F b par [] id r = removeDirF F par (emit r id) := by
      simp only [removeFoundF, writeIndexAnyF, if_true]
      rcases removeDirF F par (emit r id) with ⟨r', ok⟩
      cases ok <;> rfl
    rw [e]
    obtain ⟨h1, h2, h3, h4⟩ := removeDirF_spec F par (emit r id)
    refine ⟨by rw [h1, hem.2.2], by rw [← hem.2.1]; exact h2, ?_⟩
    cases hok : (removeDirF F par (emit r id)).2
    · obtain ⟨h5, h6⟩ := h4 hok
      rcases h5 with h5 | h5
      · right
        rw [h5]
        exact ⟨hg, fun _ => rfl, by rw [← hem.2.1]; exact h6, rfl⟩
      · left
        rw [h5]
        exact ⟨good_unlinkIndex C b hg, by simp⟩
    · left
      rw [h3 hok]
      exact ⟨rfl, by simp⟩
  · have hldne : ld ≠ [] := by
      intro h; subst h; exact hl (List.sublist_nil.mp hsub)
    obtain ⟨x, hx⟩ := good_some_of_ne hg hldne
    obtain ⟨h1, h2, h3, h4⟩ := writeIndexF_some C F b x l' (emit r id) (by rw [hem.1, hx])
    have hgx : Good C b ld (some x) := by rw [← hx]; exact hg
    cases hok : (writeIndexF C F b l' (emit r id)).2
    · have e : removeFoundF C F b par l' id r = ((writeIndexF C F b l' (emit r id)).1, false) := by
        simp [removeFoundF, writeIndexAnyF, hl, hok]
      rw [e]
      obtain ⟨⟨t, h5⟩, h6⟩ := h4 hok
      refine ⟨by rw [h1, hem.2.2], by rw [← hem.2.1]; exact h2, Or.inr ⟨?_, ?_, by rw [← hem.2.1]; exact h6, rfl⟩⟩
      · show Good C b ld (writeIndexF C F b l' (emit r id)).1.d
        rw [h5]; exact hgx
      · intro i
        show dcontent (writeIndexF C F b l' (emit r id)).1.d i = dcontent r.d i
        rw [h5, hx]; rfl
    · have e : removeFoundF C F b par l' id r = call F (writeIndexF C F b l' (emit r id)).1 (.unlinkRaw id) [] := by
        simp [removeFoundF, writeIndexAnyF, hl, hok]
      rw [e]
      have hd1 := h3 hok
      have hnd : (l'.map (·.id)).Nodup := (hgx.2.1).sublist (hsub.map _)
      have hraw : ∀ e ∈ l', ∃ rr, rawGet x.raws e.id = some rr ∧ rr.length = e.size := fun e he => hgx.2.2 e (hsub.subset he)
      have hg1 : Good C b l' (some { x with index := some (C.enc (b, l')), tmp := none }) := ⟨Or.inr rfl, hnd, hraw⟩
      have hne : ∀ e ∈ l', e.id ≠ id := fun e he h => hid (by simp only [List.mem_map]; exact ⟨e, he, h⟩)
      obtain ⟨c1, c2, c3⟩ := call_spec F (writeIndexF C F b l' (emit r id)).1 (.unlinkRaw id) []
      refine ⟨by rw [c1, h1, hem.2.2], by rw [c2]; have := hem.2.1; omega, Or.inl ?_⟩
      rcases c3 with c3 | c3
      · rw [c3, hd1]
        exact ⟨hg1, fun e _ => by rw [hx]; rfl⟩
      · rw [c3, hd1]
        simp only [Hook.steps, runDir, List.foldl_cons, List.foldl_nil, applyDir, onDir, Option.map_some]
        refine ⟨good_raws C b (rawDel x.raws id) hg1 (fun e he => rawGet_del_ne _ _ _ (hne e he)), fun e he => ?_⟩
        rw [hx]
        simp only [dcontent]
        exact rawGet_del_ne _ _ _ (hne e he)

/-! ### the cap loop -/

/-- the invariant of an operation in progress on mailbox `b`: the directory lists some well-formed `ld` of which the
    in-memory list `lm` is a suffix — the two differ only after a refused call —, the ids of `ld` are among `S` (the ids
    listed when the operation began), and the raws `lm` names are those of the directory `d0` the operation began in -/
def Inv (S : List Nat) (d0 : Option MDir) (r : Run) (lm : List FEnt) : Prop :=
  ∃ ld, Good C b ld r.d ∧ lm <:+ ld ∧ (∀ e ∈ ld, e.id ∈ S) ∧ (ld ≠ lm → FaultIn F 0 r.k) ∧
    ∀ e ∈ lm, dcontent r.d e.id = dcontent d0 e.id

theorem evict_step (par : List FsStep) (S : List Nat) (d0 : Option MDir) (e : FEnt) (l : List FEnt) (r : Run)
    (h : Inv C F b S d0 r (e :: l)) :
    Inv C F b S d0 (removeFoundF C F b par l e.id r).1 l ∧
    (removeFoundF C F b par l e.id r).1.events = r.events ++ [e.id] ∧ r.k ≤ (removeFoundF C F b par l e.id r).1.k := by
  obtain ⟨ld, hg, hsuf, hS, hflt, hcont⟩ := h
  have hsuf' : l <:+ ld := (List.suffix_cons e l).trans hsuf
  have hnd : ((e :: l).map (·.id)).Nodup := (good_nodup hg).sublist (hsuf.sublist.map _)
  have hid : e.id ∉ l.map (·.id) := by
    simp only [List.map_cons, List.nodup_cons] at hnd
    exact hnd.1
  obtain ⟨h1, h2, h3⟩ := removeFoundF_spec C F b par ld l e.id r hg hsuf'.sublist hid
  refine ⟨?_, h1, h2⟩
  rcases h3 with ⟨g1, g2⟩ | ⟨g1, g2, g3, _⟩
  · exact ⟨l, g1, List.suffix_refl l, fun e' he' => hS e' (hsuf'.subset he'), fun hne => absurd rfl hne,
      fun e' he' => by rw [g2 e' he']; exact hcont e' (by simp [he'])⟩
  · exact ⟨ld, g1, hsuf', hS, fun _ => faultIn_mono g3 (Nat.zero_le _) (Nat.le_refl _),
      fun e' he' => by rw [g2]; exact hcont e' (by simp [he'])⟩

theorem evictF_inv (par : List FsStep) (cap : Nat) (S : List Nat) (d0 : Option MDir) : ∀ (lm : List FEnt) (r : Run),
    Inv C F b S d0 r lm →
    Inv C F b S d0 (evictF C F b par cap r lm) (evictRest cap lm) ∧
    (evictF C F b par cap r lm).events = r.events ++ (lm.take (nEvict cap lm)).map (·.id) ∧
    r.k ≤ (evictF C F b par cap r lm).k
  | [], r, h => by simpa [evictF, evictRest, nEvict] using h
  | e :: l, r, h => by
    simp only [evictF, evictRest, nEvict]
    split
    · obtain ⟨s1, s2, s3⟩ := evict_step C F b par S d0 e l r h
      obtain ⟨i1, i2, i3⟩ := evictF_inv par cap S d0 l _ s1
      refine ⟨i1, ?_, by omega⟩
      rw [i2, s2]
      simp
    · exact ⟨h, by simp, Nat.le_refl _⟩

/-! ### the stages of Store.AddMessage -/

/-- createDir + os.Create(raw) -/
theorem stage_create (id : Nat) (r : Run) :
    (calls F r (createDirH r.d ++ [(.createRaw id, [])])).1.events = r.events ∧
    r.k ≤ (calls F r (createDirH r.d ++ [(.createRaw id, [])])).1.k ∧
    ((calls F r (createDirH r.d ++ [(.createRaw id, [])])).2 = true →
      (calls F r (createDirH r.d ++ [(.createRaw id, [])])).1.d =
        some { (r.d.getD MDir.empty) with raws := rawSet (r.d.getD MDir.empty).raws id [] }) ∧
    ((calls F r (createDirH r.d ++ [(.createRaw id, [])])).2 = false →
      ((calls F r (createDirH r.d ++ [(.createRaw id, [])])).1.d = r.d ∨
       (calls F r (createDirH r.d ++ [(.createRaw id, [])])).1.d = some (r.d.getD MDir.empty)) ∧
      FaultIn F r.k (calls F r (createDirH r.d ++ [(.createRaw id, [])])).1.k) := by
  obtain ⟨d, k, tr, ev⟩ := r
  cases d with
  | none =>
    cases h0 : F k <;> cases h1 : F (k + 1) <;>
      simp [createDirH, calls, call, Hook.steps, okAll, okDir, applyDir, onDir, runDir, MDir.empty, h0, h1] <;>
      close_stage h0 h1
  | some x =>
    cases h0 : F k <;>
      simp [createDirH, calls, call, Hook.steps, okAll, okDir, applyDir, onDir, runDir, h0] <;>
      close_stage h0

/-- io.Copy, Flush, Close of the raw file just created (empty) -/
theorem stage_copy (y : MDir) (id : Nat) (src : Bytes) (r : Run) (hr : r.d = some { y with raws := rawSet y.raws id [] }) :
    (calls F r [(.copyRaw id, src), (.flushRaw id, []), (.closeRaw id, [])]).1.events = r.events ∧
    r.k ≤ (calls F r [(.copyRaw id, src), (.flushRaw id, []), (.closeRaw id, [])]).1.k ∧
    ((calls F r [(.copyRaw id, src), (.flushRaw id, []), (.closeRaw id, [])]).2 = true →
      (calls F r [(.copyRaw id, src), (.flushRaw id, []), (.closeRaw id, [])]).1.d = some { y with raws := rawSet y.raws id src }) ∧
    ((calls F r [(.copyRaw id, src), (.flushRaw id, []), (.closeRaw id, [])]).2 = false →
      (∃ c, (calls F r [(.copyRaw id, src), (.flushRaw id, []), (.closeRaw id, [])]).1.d = some { y with raws := rawSet y.raws id c }) ∧
      FaultIn F r.k (calls F r [(.copyRaw id, src), (.flushRaw id, []), (.closeRaw id, [])]).1.k) := by
  obtain ⟨d, k, tr, ev⟩ := r
  simp only at hr
  subst hr
  cases h0 : F k <;> cases h1 : F (k + 1) <;> cases h2 : F (k + 2) <;>
    simp [calls, call, Hook.steps, okAll, okDir, applyDir, onDir, runDir, rawGet_set_same, rawSet_set, h0, h1, h2] <;>
    close_stage h0 h1 h2

theorem silentUnlink_set (y : MDir) (id : Nat) (c : Bytes) (r : Run) (hr : r.d = some { y with raws := rawSet y.raws id c }) :
    (silentUnlinkRaw r id).d = some { y with raws := rawDel y.raws id } ∧ (silentUnlinkRaw r id).events = r.events := by
  simp [silentUnlinkRaw, hr, applyDir, onDir, rawDel_set]

/-- AddMessage after the cap loop, from the loop's invariant, for EVERY fault set: the events are those of the loop; the
    directory is well-formed and lists `l1` + the new entry with its content (answer ok), or a list of which `l1` is a
    suffix (answer err) — then a call with index ≥ `ks` was refused, and the list is `l1` itself unless a call with
    index < `ks` was refused as well (in any case it names only ids that were listed when the operation began); the raws
    `l1` names are untouched -/
theorem addTail_spec (S : List Nat) (d0 : Option MDir) (l1 : List FEnt) (id : Nat) (hdr : Meta) (src : Bytes) (r1 : Run)
    (hinv : Inv C F b S d0 r1 l1) (hfresh : id ∉ S) :
    (addTail C F b l1 id hdr src r1).events = r1.events ∧
    ∃ ld, Good C b ld (addTail C F b l1 id hdr src r1).d ∧
      (∀ e ∈ l1, dcontent (addTail C F b l1 id hdr src r1).d e.id = dcontent d0 e.id) ∧
      (((addTail C F b l1 id hdr src r1).res = .ok ∧ ld = l1 ++ [newEnt id hdr src] ∧
          dcontent (addTail C F b l1 id hdr src r1).d id = some src) ∨
       ((addTail C F b l1 id hdr src r1).res = .err ∧ l1 <:+ ld ∧
          ∃ ks, (∃ j, ks ≤ j ∧ F j = true) ∧ (ld ≠ l1 → FaultIn F 0 ks) ∧ ∀ e ∈ ld, e.id ∈ S)) := by
  obtain ⟨ld, hg, hsuf, hS, hflt, hcont⟩ := hinv
  have hgy : Good C b ld (some (r1.d.getD MDir.empty)) := by
    cases hd : r1.d with
    | none =>
      rw [hd] at hg
      have : ld = [] := hg
      subst this
      simp [Good, MDir.empty]
    | some x => rw [hd] at hg; exact hg
  have hcy : ∀ i, dcontent (some (r1.d.getD MDir.empty)) i = dcontent r1.d i := by
    intro i; cases r1.d <;> simp [dcontent, MDir.empty, rawGet]
  have hneS : ∀ e ∈ ld, e.id ≠ id := fun e he h => hfresh (h ▸ hS e he)
  have hfault : ∀ {a c}, FaultIn F a c → r1.k ≤ a → ∃ j, r1.k ≤ j ∧ F j = true := by
    intro a c h ha
    obtain ⟨j, h1, _, h3⟩ := h
    exact ⟨j, by omega, h3⟩
  obtain ⟨s1, s2, s3, s4⟩ := stage_create F id r1
  cases hok2 : (calls F r1 (createDirH r1.d ++ [(.createRaw id, [])])).2
  · -- createDir or os.Create refused
    have e : addTail C F b l1 id hdr src r1 = Out.of .err (calls F r1 (createDirH r1.d ++ [(.createRaw id, [])])).1 := by
      simp [addTail, hok2]
    rw [e]
    obtain ⟨s5, s6⟩ := s4 hok2
    refine ⟨s1, ld, ?_, ?_, Or.inr ⟨rfl, hsuf, r1.k, hfault s6 (Nat.le_refl _), hflt, hS⟩⟩
    · show Good C b ld (calls F r1 (createDirH r1.d ++ [(.createRaw id, [])])).1.d
      rcases s5 with s5 | s5 <;> rw [s5]
      · exact hg
      · exact hgy
    · intro e' he'
      show dcontent (calls F r1 (createDirH r1.d ++ [(.createRaw id, [])])).1.d e'.id = _
      rcases s5 with s5 | s5 <;> rw [s5]
      · exact hcont e' he'
      · rw [hcy]; exact hcont e' he'
  · have hd2 := s3 hok2
    obtain ⟨t1, t2, t3, t4⟩ := stage_copy F (r1.d.getD MDir.empty) id src _ hd2
    cases hok3 : (calls F (calls F r1 (createDirH r1.d ++ [(.createRaw id, [])])).1
        [(.copyRaw id, src), (.flushRaw id, []), (.closeRaw id, [])]).2
    · -- io.Copy, Flush or Close refused: the raw file is removed again
      have e : addTail C F b l1 id hdr src r1 = Out.of .err (silentUnlinkRaw (calls F (calls F r1 (createDirH r1.d ++ [(.createRaw id, [])])).1
          [(.copyRaw id, src), (.flushRaw id, []), (.closeRaw id, [])]).1 id) := by
        simp [addTail, hok2, hok3]
      rw [e]
      obtain ⟨⟨c, t5⟩, t6⟩ := t4 hok3
      obtain ⟨u1, u2⟩ := silentUnlink_set (r1.d.getD MDir.empty) id c _ t5
      refine ⟨by simp only [Out.of]; rw [u2, t1, s1], ld, ?_, ?_,
        Or.inr ⟨rfl, hsuf, r1.k, hfault t6 s2, hflt, hS⟩⟩
      · simp only [Out.of]
        rw [u1]
        exact good_raws C b _ hgy (fun e' he' => rawGet_del_ne _ _ _ (hneS e' he'))
      · intro e' he'
        simp only [Out.of]
        rw [u1, ← hcont e' he', ← hcy]
        simp only [dcontent]
        exact rawGet_del_ne _ _ _ (hneS e' (hsuf.subset he'))
    · have hd3 := t3 hok3
      obtain ⟨w1, w2, w3, w4⟩ := writeIndexF_some C F b _ (l1 ++ [newEnt id hdr src]) _ hd3
      cases hok4 : (writeIndexF C F b (l1 ++ [newEnt id hdr src]) (calls F (calls F r1 (createDirH r1.d ++ [(.createRaw id, [])])).1
          [(.copyRaw id, src), (.flushRaw id, []), (.closeRaw id, [])]).1).2
      · -- the delivery's own index write refused: the raw file is removed again
        have e : addTail C F b l1 id hdr src r1 = Out.of .err (silentUnlinkRaw (writeIndexF C F b (l1 ++ [newEnt id hdr src])
            (calls F (calls F r1 (createDirH r1.d ++ [(.createRaw id, [])])).1 [(.copyRaw id, src), (.flushRaw id, []), (.closeRaw id, [])]).1).1 id) := by
          simp [addTail, hok2, hok3, hok4]
        rw [e]
        obtain ⟨⟨t, w5⟩, w6⟩ := w4 hok4
        obtain ⟨u1, u2⟩ := silentUnlink_set { (r1.d.getD MDir.empty) with tmp := t } id src _ w5
        refine ⟨by simp only [Out.of]; rw [u2, w1, t1, s1], ld, ?_, ?_,
          Or.inr ⟨rfl, hsuf, r1.k, hfault w6 (by omega), hflt, hS⟩⟩
        · simp only [Out.of]
          rw [u1]
          have hgt : Good C b ld (some { (r1.d.getD MDir.empty) with tmp := t }) := hgy
          exact good_raws C b _ hgt (fun e' he' => rawGet_del_ne _ _ _ (hneS e' he'))
        · intro e' he'
          simp only [Out.of]
          rw [u1, ← hcont e' he', ← hcy]
          simp only [dcontent]
          exact rawGet_del_ne _ _ _ (hneS e' (hsuf.subset he'))
      · -- everything carried out
        have e : addTail C F b l1 id hdr src r1 = Out.of .ok (writeIndexF C F b (l1 ++ [newEnt id hdr src])
            (calls F (calls F r1 (createDirH r1.d ++ [(.createRaw id, [])])).1 [(.copyRaw id, src), (.flushRaw id, []), (.closeRaw id, [])]).1).1 := by
          simp [addTail, hok2, hok3, hok4]
        rw [e]
        have hd4 := w3 hok4
        have hnd1 : (l1.map (·.id)).Nodup := (good_nodup hg).sublist (hsuf.sublist.map _)
        have hnd : ((l1 ++ [newEnt id hdr src]).map (·.id)).Nodup := by
          simp only [List.map_append, List.map_cons, List.map_nil]
          rw [List.nodup_append]
          refine ⟨hnd1, by simp, ?_⟩
          intro a ha b' hb
          simp only [List.mem_singleton] at hb
          subst hb
          intro h; subst h
          simp only [List.mem_map] at ha
          obtain ⟨e', he', hid⟩ := ha
          exact hneS e' (hsuf.subset he') (by simpa [newEnt] using hid)
        have hraw1 : ∀ e' ∈ l1, rawGet (rawSet (r1.d.getD MDir.empty).raws id src) e'.id = rawGet (r1.d.getD MDir.empty).raws e'.id :=
          fun e' he' => rawGet_set_ne _ _ _ _ (hneS e' (hsuf.subset he'))
        refine ⟨by show (writeIndexF _ _ _ _ _).1.events = _; rw [w1, t1, s1], l1 ++ [newEnt id hdr src], ?_, ?_, Or.inl ⟨rfl, rfl, ?_⟩⟩
        · show Good C b _ (writeIndexF _ _ _ _ _).1.d
          rw [hd4]
          refine ⟨Or.inr rfl, hnd, fun e' he' => ?_⟩
          rcases List.mem_append.mp he' with he' | he'
          · show ∃ r, rawGet (rawSet (r1.d.getD MDir.empty).raws id src) e'.id = some r ∧ r.length = e'.size
            rw [hraw1 e' he']
            exact hgy.2.2 e' (hsuf.subset he')
          · simp only [List.mem_singleton] at he'
            subst he'
            exact ⟨src, by simp [newEnt, rawGet_set_same], by simp [newEnt]⟩
        · intro e' he'
          show dcontent (writeIndexF _ _ _ _ _).1.d e'.id = _
          rw [hd4, ← hcont e' he', ← hcy]
          simp only [dcontent]
          exact hraw1 e' he'
        · show dcontent (writeIndexF _ _ _ _ _).1.d id = some src
          rw [hd4]
          simp [dcontent, rawGet_set_same]

/-- Store.AddMessage from a well-formed directory, for EVERY fault set -/
theorem addF_spec (par : List FsStep) (cap : Nat) (d : Option MDir) (l0 : List FEnt) (id : Nat) (hdr : Meta) (src : Bytes)
    (hg : Good C b l0 d) (hfresh : id ∉ l0.map (·.id)) :
    (addF C F b par cap d id hdr src).events = (l0.take (if cap > 0 then nEvict cap l0 else 0)).map (·.id) ∧
    ∃ ld, Good C b ld (addF C F b par cap d id hdr src).d ∧
      (∀ e ∈ l0.drop (if cap > 0 then nEvict cap l0 else 0), dcontent (addF C F b par cap d id hdr src).d e.id = dcontent d e.id) ∧
      (((addF C F b par cap d id hdr src).res = .ok ∧ ld = l0.drop (if cap > 0 then nEvict cap l0 else 0) ++ [newEnt id hdr src] ∧
          dcontent (addF C F b par cap d id hdr src).d id = some src) ∨
       ((addF C F b par cap d id hdr src).res = .err ∧ l0.drop (if cap > 0 then nEvict cap l0 else 0) <:+ ld ∧
          ∃ ks, (∃ j, ks ≤ j ∧ F j = true) ∧ (ld ≠ l0.drop (if cap > 0 then nEvict cap l0 else 0) → FaultIn F 0 ks) ∧
            ∀ e ∈ ld, e.id ∈ l0.map (·.id))) := by
  have h0 : Inv C F b (l0.map (·.id)) d (Run.start d) l0 :=
    ⟨l0, hg, List.suffix_refl _, fun e he => List.mem_map_of_mem he, fun h => absurd rfl h, fun _ _ => rfl⟩
  simp only [addF, good_listing hg]
  by_cases hc : cap > 0
  · simp only [hc, if_true]
    obtain ⟨i1, i2, _⟩ := evictF_inv C F b par cap (l0.map (·.id)) d l0 (Run.start d) h0
    rw [evictRest_eq] at i1 ⊢
    obtain ⟨a1, a2⟩ := addTail_spec C F b (l0.map (·.id)) d _ id hdr src _ i1 hfresh
    refine ⟨by rw [a1, i2]; simp [Run.start], a2⟩
  · simp only [hc, if_false, List.drop_zero, List.take_zero, List.map_nil]
    obtain ⟨a1, a2⟩ := addTail_spec C F b (l0.map (·.id)) d _ id hdr src _ h0 hfresh
    exact ⟨by rw [a1]; rfl, a2⟩

/-- every operation, every fault set: the operation's directory is well-formed afterwards -/
theorem opD_good (par : List FsStep) (cap : Nat) (d : Option MDir) (l0 : List FEnt) (op : Ibx.Model.FsSteps.Op) (hb : op.box = b)
    (hg : Good C b l0 d) (hfresh : ∀ id hdr src, op = .add b id hdr src → id ∉ l0.map (·.id)) :
    ∃ ld, Good C b ld (opD C F par cap d op).d := by
  cases op with
  | add b' id hdr src =>
    simp only [Ibx.Model.FsSteps.Op.box] at hb; subst hb
    obtain ⟨_, ld, h, _⟩ := addF_spec C F b' par cap d l0 id hdr src hg (hfresh id hdr src rfl)
    exact ⟨ld, h⟩
  | seen b' id =>
    simp only [Ibx.Model.FsSteps.Op.box] at hb; subst hb
    simp only [opD, seenF, good_listing hg]
    cases hf : l0.find? (fun e => e.id = id) with
    | none => exact ⟨l0, hg⟩
    | some e =>
      by_cases hs : e.seen = true
      · simp only [hs, if_true]; exact ⟨l0, hg⟩
      · simp only [hs, Bool.false_eq_true, if_false]
        have hlne : l0 ≠ [] := by intro h; simp [h] at hf
        obtain ⟨x, rfl⟩ := good_some_of_ne hg hlne
        obtain ⟨_, _, w3, w4⟩ := writeIndexF_some C F b' x (markFirst id l0) (Run.start (some x)) rfl
        show ∃ ld, Good C b' ld (writeIndexF C F b' (markFirst id l0) (Run.start (some x))).1.d
        cases hok : (writeIndexF C F b' (markFirst id l0) (Run.start (some x))).2
        · obtain ⟨⟨t, w5⟩, _⟩ := w4 hok
          rw [w5]; exact ⟨l0, hg⟩
        · rw [w3 hok]
          refine ⟨markFirst id l0, Or.inr rfl, by rw [markFirst_ids]; exact hg.2.1, fun e' he' => ?_⟩
          obtain ⟨e'', h1, h2, h3⟩ := markFirst_mem id l0 e' he'
          rw [← h2, ← h3]; exact hg.2.2 e'' h1
  | remove b' id =>
    simp only [Ibx.Model.FsSteps.Op.box] at hb; subst hb
    simp only [opD, removeF, good_listing hg]
    by_cases hin : l0.any (fun e => e.id = id) = true
    · simp only [hin, if_true]
      obtain ⟨_, _, h3⟩ := removeFoundF_spec C F b' par l0 (eraseFirst id l0) id (Run.start d) hg (eraseFirst_sublist id l0)
        (not_mem_ids_eraseFirst id l0 (good_nodup hg))
      show ∃ ld, Good C b' ld (removeFoundF C F b' par (eraseFirst id l0) id (Run.start d)).1.d
      rcases h3 with ⟨g, _⟩ | ⟨g, _⟩
      · exact ⟨_, g⟩
      · exact ⟨_, g⟩
    · simp only [hin, Bool.false_eq_true, if_false]; exact ⟨l0, hg⟩
  | purge b' =>
    simp only [Ibx.Model.FsSteps.Op.box] at hb; subst hb
    simp only [opD, purgeF, good_listing hg]
    obtain ⟨_, _, p3, p4⟩ := removeDirF_spec F par { Run.start d with events := l0.map (·.id) }
    show ∃ ld, Good C b' ld (removeDirF F par { Run.start d with events := l0.map (·.id) }).1.d
    cases hok : (removeDirF F par { Run.start d with events := l0.map (·.id) }).2
    · obtain ⟨p5, _⟩ := p4 hok
      rcases p5 with p5 | p5 <;> rw [p5]
      · exact ⟨l0, hg⟩
      · exact ⟨[], good_unlinkIndex C b' hg⟩
    · rw [p3 hok]; exact ⟨[], rfl⟩

/-! ### an error means a refused call -/

theorem call_fail (r : Run) (h : Hook) (p : Bytes) (hf : (call F r h p).2 = false) (hok : okAll r.d (h.steps r.d p) = true) :
    F r.k = true := by
  simp only [call, hok, Bool.and_true, Bool.not_eq_eq_eq_not, Bool.not_false] at hf
  exact hf

/-- RemoveMessage of a LISTED message answers an error only when a call was refused -/
theorem removeFoundF_err_fault (par : List FsStep) (ld l' : List FEnt) (id : Nat) (r : Run)
    (hg : Good C b ld r.d) (hin : ∃ e ∈ ld, e.id = id)
    (hf : (removeFoundF C F b par l' id r).2 = false) : ∃ j, F j = true := by
  by_cases hl : l' = []
  · subst hl
    have e : removeFoundF C F b par [] id r = removeDirF F par (emit r id) := by
      simp only [removeFoundF, writeIndexAnyF, if_true]
      rcases removeDirF F par (emit r id) with ⟨r', ok⟩
      cases ok <;> rfl
    rw [e] at hf
    obtain ⟨_, _, _, h4⟩ := removeDirF_spec F par (emit r id)
    obtain ⟨_, j, _, _, hj⟩ := h4 hf
    exact ⟨j, hj⟩
  · obtain ⟨e0, he0, hid⟩ := hin
    have hldne : ld ≠ [] := by intro h; subst h; simp at he0
    obtain ⟨x, hx⟩ := good_some_of_ne hg hldne
    obtain ⟨_, _, h3, h4⟩ := writeIndexF_some C F b x l' (emit r id) (by show r.d = some x; exact hx)
    cases hok : (writeIndexF C F b l' (emit r id)).2
    · obtain ⟨_, j, _, _, hj⟩ := h4 hok
      exact ⟨j, hj⟩
    · have e : removeFoundF C F b par l' id r = call F (writeIndexF C F b l' (emit r id)).1 (.unlinkRaw id) [] := by
        simp [removeFoundF, writeIndexAnyF, hl, hok]
      rw [e] at hf
      refine ⟨_, call_fail F _ _ _ hf ?_⟩
      rw [h3 hok]
      rw [hx] at hg
      obtain ⟨rr, hr1, _⟩ := hg.2.2 e0 he0
      simp [Hook.steps, okAll, okDir, ← hid, hr1]

/-- every operation from a well-formed directory: the answer `err` means that a hook call was refused (no system call
    fails by itself) -/
theorem opD_err_fault (par : List FsStep) (cap : Nat) (d : Option MDir) (l0 : List FEnt) (op : Ibx.Model.FsSteps.Op) (hb : op.box = b)
    (hg : Good C b l0 d) (hfresh : ∀ id hdr src, op = .add b id hdr src → id ∉ l0.map (·.id))
    (herr : (opD C F par cap d op).res = .err) : ∃ j, F j = true := by
  cases op with
  | add b' id hdr src =>
    simp only [Ibx.Model.FsSteps.Op.box] at hb; subst hb
    obtain ⟨_, ld, _, _, hcase⟩ := addF_spec C F b' par cap d l0 id hdr src hg (hfresh id hdr src rfl)
    simp only [opD] at herr
    rcases hcase with ⟨hres, _⟩ | ⟨_, _, ks, ⟨j, _, hj⟩, _⟩
    · rw [hres] at herr; cases herr
    · exact ⟨j, hj⟩
  | seen b' id =>
    simp only [Ibx.Model.FsSteps.Op.box] at hb; subst hb
    simp only [opD, seenF, good_listing hg] at herr
    cases hf : l0.find? (fun e => e.id = id) with
    | none => simp [hf, Out.of] at herr
    | some e =>
      simp only [hf] at herr
      by_cases hs : e.seen = true
      · simp [hs, Out.of] at herr
      · simp only [hs, Bool.false_eq_true, if_false] at herr
        have hlne : l0 ≠ [] := by intro h; simp [h] at hf
        obtain ⟨x, rfl⟩ := good_some_of_ne hg hlne
        obtain ⟨_, _, _, w4⟩ := writeIndexF_some C F b' x (markFirst id l0) (Run.start (some x)) rfl
        cases hok : (writeIndexF C F b' (markFirst id l0) (Run.start (some x))).2
        · obtain ⟨_, j, _, _, hj⟩ := w4 hok
          exact ⟨j, hj⟩
        · simp [hok, Out.of] at herr
  | remove b' id =>
    simp only [Ibx.Model.FsSteps.Op.box] at hb; subst hb
    simp only [opD, removeF, good_listing hg] at herr
    by_cases hin : l0.any (fun e => e.id = id) = true
    · simp only [hin, if_true] at herr
      cases hok : (removeFoundF C F b' par (eraseFirst id l0) id (Run.start d)).2
      · exact removeFoundF_err_fault C F b' par l0 _ id _ hg (exists_of_any id l0 hin) hok
      · simp [hok, Out.of] at herr
    · simp [hin, Out.of] at herr
  | purge b' =>
    simp only [Ibx.Model.FsSteps.Op.box] at hb; subst hb
    simp only [opD, purgeF, good_listing hg] at herr
    obtain ⟨_, _, _, p4⟩ := removeDirF_spec F par { Run.start d with events := l0.map (·.id) }
    cases hok : (removeDirF F par { Run.start d with events := l0.map (·.id) }).2
    · obtain ⟨_, j, _, _, hj⟩ := p4 hok
      exact ⟨j, hj⟩
    · simp [hok, Out.of] at herr

end

end Ibx.Lemmas.FsFault
