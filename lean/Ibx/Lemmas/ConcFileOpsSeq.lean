import Ibx.Lemmas.ConcFileOps
import Ibx.Lemmas.Crash
/-
  Lemmas for Props/C16File.lean, part 2: the SEQUENTIAL meaning of a history of the one-mailbox model.
  `seqStep` issues exactly the file-system primitives of the crash model's step program (`progD` of FsSteps, the object of
  C11's theorems and of the T3 trace comparison) and emits exactly `eventsOf`; from a well-formed mailbox directory it
  leaves a well-formed one listing `listAfter`; over any history the ids that were there or came in are a permutation of
  the ids still listed plus the `deleted` events.
-/
namespace Ibx.Lemmas.ConcFileOps
open Ibx Ibx.Model.FsSteps Ibx.Model.ConcFileOps Ibx.Lemmas.Crash
open Ibx.Spec.Store (Meta)
open Ibx.Model.FileStore (FEnt)

/-! ### moves = primitives + events -/

@[simp] theorem fsOf_fsA (l : List FsStep) : fsOf (fsA l) = l := by
  induction l with
  | nil => rfl
  | cons x l ih => simp [fsA, fsOf] at ih ⊢; exact ih

@[simp] theorem evOf_fsA (l : List FsStep) : evOf (fsA l) = [] := by
  induction l with
  | nil => rfl
  | cons x l ih => simp [fsA, evOf] at ih ⊢; exact ih

theorem fsOf_append (l1 l2 : List Act) : fsOf (l1 ++ l2) = fsOf l1 ++ fsOf l2 := by
  induction l1 with
  | nil => rfl
  | cons a l ih => cases a <;> simp [fsOf, ih]

theorem evOf_append (l1 l2 : List Act) : evOf (l1 ++ l2) = evOf l1 ++ evOf l2 := by
  induction l1 with
  | nil => rfl
  | cons a l ih => cases a <;> simp [evOf, ih]

theorem fsOf_emits (l : List FEnt) : fsOf (l.map (fun e => Act.emit e.id)) = [] := by
  induction l with
  | nil => rfl
  | cons x l ih => simp [fsOf, ih]

theorem evOf_emits (l : List FEnt) : evOf (l.map (fun e => Act.emit e.id)) = l.map (·.id) := by
  induction l with
  | nil => rfl
  | cons x l ih => simp [evOf, ih]

theorem runActs_split : ∀ (acts : List Act) (q : Model.ConcFileOps.Seq), runActs q acts = (runDir q.1 (fsOf acts), q.2 ++ evOf acts)
  | [], q => by simp [runActs, fsOf, evOf, runDir]
  | a :: l, q => by
    have ih := runActs_split l (runAct q a)
    simp only [runActs, List.foldl_cons] at ih ⊢
    rw [ih]
    cases a <;> simp [runAct, fsOf, evOf, runDir]

/-! ### the step programs are those of the crash model -/

/-- the operation of the crash model (none for reads) -/
def toFs (b : Bytes) : COp → Option Model.FsSteps.Op
  | .add id hdr src => some (.add b id hdr src)
  | .remove id => some (.remove b id)
  | .purge => some (.purge b)
  | .seen id => some (.seen b id)
  | .get _ | .list => none

theorem fsOf_evictA (c : Cfg) (cap : Nat) : ∀ (l : List FEnt) (d : Option MDir),
    fsOf (evictA c cap d l) = evictP c.C Variant.safe c.ch c.par cap c.b d l
  | [], d => by simp [evictA, evictP, fsOf]
  | e :: l, d => by
    simp only [evictA, evictP]
    split
    · simp [removeFoundA, fsOf_append, fsOf, fsOf_evictA c cap l]
    · rfl

/-- the ids the cap loop announces: the first `nEvict` entries -/
theorem evOf_evictA (c : Cfg) (cap : Nat) : ∀ (l : List FEnt) (d : Option MDir),
    evOf (evictA c cap d l) = (l.take (nEvict cap l)).map (·.id)
  | [], d => by simp [evictA, evOf]
  | e :: l, d => by
    simp only [evictA, nEvict]
    split
    · simp [removeFoundA, evOf_append, evOf, evOf_evictA c cap l]
    · simp [evOf]

/-- the `deleted` events of an operation on a mailbox listing `l` -/
def eventsOf (cap : Nat) (l : List FEnt) : COp → List Nat
  | .add _ _ _ => if cap > 0 then (l.take (nEvict cap l)).map (·.id) else []
  | .remove id => if l.any (fun e => e.id = id) then [id] else []
  | .purge => l.map (·.id)
  | _ => []

/-- the listing after an operation on a mailbox listing `l` -/
def listAfter (cap : Nat) (l : List FEnt) : COp → List FEnt
  | .add id hdr src => (if cap > 0 then evictRest cap l else l) ++ [newEnt id hdr src]
  | .remove id => if l.any (fun e => e.id = id) then eraseFirst id l else l
  | .purge => []
  | .seen id =>
    match l.find? (fun e => e.id = id) with
    | some e => if e.seen then l else markFirst id l
    | none => l
  | .get _ | .list => l

theorem fsOf_loadW (c : Cfg) (d : Option MDir) (op : COp) (fop : Model.FsSteps.Op) (h : toFs c.b op = some fop) :
    fsOf (loadW c d op).acts = progD c.C Variant.safe c.ch c.par c.cap d fop := by
  cases hl : dlisting c.C d with
  | none =>
    cases op with
    | get id => simp [toFs] at h
    | list => simp [toFs] at h
    | add id hdr src => simp only [toFs, Option.some.injEq] at h; subst h; simp [loadW, progD, addP, hl, fsOf]
    | remove id => simp only [toFs, Option.some.injEq] at h; subst h; simp [loadW, progD, removeP, hl, fsOf]
    | purge => simp only [toFs, Option.some.injEq] at h; subst h; simp [loadW, progD, purgeP, hl, fsOf]
    | seen id => simp only [toFs, Option.some.injEq] at h; subst h; simp [loadW, progD, seenP, hl, fsOf]
  | some l =>
    cases op with
    | add id hdr src =>
      simp only [toFs, Option.some.injEq] at h; subst h
      simp only [loadW, progD, addP, hl, capA, capRest]
      by_cases hc : c.cap > 0
      · simp [hc, fsOf_append, fsOf_evictA]
      · simp [hc, fsOf_append, fsOf]
    | remove id =>
      simp only [toFs, Option.some.injEq] at h; subst h
      simp only [loadW, progD, removeP, hl]
      by_cases ha : l.any (fun e => e.id = id) = true
      · simp only [ha, if_true, removeFoundA, fsOf, fsOf_fsA]
      · simp only [ha]; rfl
    | purge =>
      simp only [toFs, Option.some.injEq] at h; subst h
      simp [loadW, progD, purgeP, hl, fsOf_append, fsOf_emits]
    | seen id =>
      simp only [toFs, Option.some.injEq] at h; subst h
      simp only [loadW, progD, seenP, hl]
      cases hf : l.find? (fun e => e.id = id) with
      | none => simp [fsOf]
      | some e =>
        by_cases hs : e.seen = true
        · simp [hs, fsOf]
        · simp [hs]
    | get id => simp [toFs] at h
    | list => simp [toFs] at h

theorem evOf_loadW (c : Cfg) (d : Option MDir) (l : List FEnt) (op : COp) (h : dlisting c.C d = some l) :
    evOf (loadW c d op).acts = eventsOf c.cap l op := by
  cases op with
  | add id hdr src =>
    simp only [loadW, h, eventsOf, capA]
    by_cases hc : c.cap > 0
    · simp [hc, evOf_append, evOf_evictA]
    · simp [hc, evOf_append]
  | remove id =>
    simp only [loadW, h, eventsOf]
    split
    · simp [removeFoundA, evOf]
    · rfl
  | purge => simp [loadW, h, eventsOf, evOf_append, evOf_emits]
  | seen id =>
    simp only [loadW, h, eventsOf]
    split
    · rfl
    · split <;> simp [evOf]
  | get id =>
    simp only [loadW, h, eventsOf]
    split <;> rfl
  | list => simp [loadW, h, eventsOf, evOf]

/-! ### one operation from a well-formed mailbox -/

theorem getLast?_two {α : Type} (a b : α) : [a, b].getLast? = some b := rfl

private theorem last_fst_add (cap : Nat) (d : Option MDir) (l0 : List FEnt) (id : Nat) (hdr : Meta) (src : Bytes) (V : View)
    (h : (unitViews cap (viewOf d l0) (.add [] id hdr src)).getLast? = some V) :
    V.map (·.1) = (if cap > 0 then evictRest cap l0 else l0) ++ [newEnt id hdr src] := by
  simp only [unitViews, viewOf_fst] at h
  rw [List.getLast?_append] at h
  simp only [List.getLast?_singleton, Option.some_or, Option.some.injEq] at h
  subst h
  by_cases hc : cap > 0
  · simp [hc, evictRest_eq, ← viewOf_drop, viewOf_fst]
  · simp [hc, viewOf_fst]

/-- the step program of any operation, run from a well-formed mailbox directory listing `l0`: every system call succeeds and
    the directory is well-formed again, listing `listAfter` -/
theorem seqStep_good (c : Cfg) (hpar : ∀ st ∈ c.par, ∃ lv, st = .rmdirParent lv) (d : Option MDir) (ev : List Nat) (l0 : List FEnt)
    (op : COp) (hg : Good c.C c.b l0 d) (hfresh : ∀ i ∈ op.addId, i ∉ l0.map (·.id)) :
    Good c.C c.b (listAfter c.cap l0 op) (seqStep c (d, ev) op).1 ∧
    (seqStep c (d, ev) op).2 = ev ++ eventsOf c.cap l0 op ∧
    Safe (fun _ => True) d (fsOf (loadW c d op).acts) ∧
    (loadW c d op).res ≠ .err := by
  have hl := good_listing hg
  have hev : (seqStep c (d, ev) op).2 = ev ++ eventsOf c.cap l0 op := by
    simp [seqStep, runActs_split, evOf_loadW c d l0 op hl]
  have hdir : (seqStep c (d, ev) op).1 = runDir d (fsOf (loadW c d op).acts) := by simp [seqStep, runActs_split]
  cases hop : toFs c.b op with
  | none =>
    -- reads
    have hacts : (loadW c d op).acts = [] := by
      cases op <;> simp [toFs] at hop
      · simp only [loadW, hl]; split <;> rfl
      · simp [loadW, hl]
    have hla : listAfter c.cap l0 op = l0 := by cases op <;> simp [toFs] at hop <;> rfl
    refine ⟨by rw [hdir, hacts, hla]; exact hg, hev, by rw [hacts]; exact trivial, ?_⟩
    cases op <;> simp [toFs] at hop
    · simp only [loadW, hl]; split <;> simp
    · simp [loadW, hl]
  | some fop =>
    have hb : fop.box = c.b := by cases op <;> simp [toFs] at hop <;> subst hop <;> rfl
    have hfr : ∀ id hdr src, fop = .add c.b id hdr src → id ∉ l0.map (·.id) := by
      intro id hdr src hf
      subst hf
      cases op <;> simp [toFs] at hop
      obtain ⟨rfl, rfl, rfl⟩ := hop
      exact hfresh _ (by simp [COp.addId])
    obtain ⟨hsafe, l2, hg2, hv2⟩ := prog_safe c.C c.ch c.par c.b c.cap d l0 fop hb hg hfr hpar
    rw [← fsOf_loadW c d op fop hop] at hsafe hg2 hv2
    have hl2 : l2 = listAfter c.cap l0 op := by
      have h1 := viewOf_fst (runDir d (fsOf (loadW c d op).acts)) l2
      cases op with
      | add id hdr src =>
        simp only [toFs, Option.some.injEq] at hop; subst hop
        have := last_fst_add c.cap d l0 id hdr src _ (by simpa [unitViews] using hv2)
        rw [h1] at this; exact this
      | remove id =>
        simp only [toFs, Option.some.injEq] at hop; subst hop
        simp only [unitViews, any_viewOf] at hv2
        simp only [listAfter]
        by_cases ha : l0.any (fun e => e.id = id) = true
        · rw [if_pos ha] at hv2 ⊢
          simp only [getLast?_two, Option.some.injEq] at hv2
          rw [← viewOf_eraseFirst] at hv2
          rw [← hv2, viewOf_fst] at h1
          exact h1.symm
        · rw [if_neg ha] at hv2 ⊢
          simp only [List.getLast?_singleton, Option.some.injEq] at hv2
          rw [← hv2, viewOf_fst] at h1
          exact h1.symm
      | purge =>
        simp only [toFs, Option.some.injEq] at hop; subst hop
        simp only [unitViews, getLast?_two, Option.some.injEq] at hv2
        rw [← hv2] at h1
        simpa [listAfter] using h1.symm
      | seen id =>
        simp only [toFs, Option.some.injEq] at hop; subst hop
        simp only [unitViews, find_viewOf] at hv2
        simp only [listAfter]
        cases hf : l0.find? (fun e => e.id = id) with
        | none =>
          simp only [hf, Option.map_none, List.getLast?_singleton, Option.some.injEq] at hv2
          rw [← hv2, viewOf_fst] at h1
          exact h1.symm
        | some e =>
          simp only [hf, Option.map_some] at hv2
          cases hs : e.seen with
          | true =>
            simp only [hs, if_true, List.getLast?_singleton, Option.some.injEq] at hv2
            rw [← hv2, viewOf_fst] at h1
            simp only [hs, if_true]; exact h1.symm
          | false =>
            simp only [hs, Bool.false_eq_true, if_false, getLast?_two, Option.some.injEq] at hv2
            rw [← viewOf_markFirst] at hv2
            rw [← hv2, viewOf_fst] at h1
            simp only [hs, Bool.false_eq_true, if_false]; exact h1.symm
      | get id => simp [toFs] at hop
      | list => simp [toFs] at hop
    refine ⟨by rw [hdir, ← hl2]; exact hg2, hev, safe_ok _ _ hsafe, ?_⟩
    cases op with
    | add id hdr src => simp [loadW, hl]
    | remove id => simp only [loadW, hl]; split <;> simp
    | purge => simp [loadW, hl]
    | seen id =>
      simp only [loadW, hl]
      split
      · simp
      · split <;> simp
    | get id => simp [toFs] at hop
    | list => simp [toFs] at hop

/-! ### the accounting of ids -/

theorem eraseFirst_ids (id : Nat) : ∀ l : List FEnt, (eraseFirst id l).map (·.id) = (l.map (·.id)).erase id
  | [] => rfl
  | e :: l => by
    simp only [eraseFirst, List.map_cons]
    by_cases h : e.id = id
    · simp [h]
    · simp [h, List.erase_cons_tail, eraseFirst_ids id l]

/-- one operation: the ids listed before plus the id a delivery brings in are a permutation of the ids listed after plus the
    `deleted` events -/
theorem step_perm (cap : Nat) (l : List FEnt) (op : COp) :
    (l.map (·.id) ++ op.addId).Perm ((listAfter cap l op).map (·.id) ++ eventsOf cap l op) := by
  cases op with
  | add id hdr src =>
    simp only [COp.addId, listAfter, eventsOf]
    by_cases hc : cap > 0
    · simp only [hc, if_true, evictRest_eq, List.map_append, List.map_cons, List.map_nil, newEnt]
      have h1 : (l.map (·.id)).Perm ((l.drop (nEvict cap l)).map (·.id) ++ (l.take (nEvict cap l)).map (·.id)) := by
        rw [← List.map_append]
        exact (List.perm_append_comm.trans (by rw [List.take_append_drop])).symm.map _
      refine (h1.append_right [id]).trans ?_
      rw [List.append_assoc, List.append_assoc]
      exact List.Perm.append_left _ List.perm_append_comm
    · simp [hc, newEnt]
  | remove id =>
    simp only [COp.addId, listAfter, eventsOf, List.append_nil]
    split
    · next ha =>
      rw [eraseFirst_ids]
      have hm : id ∈ l.map (·.id) := by
        obtain ⟨e, he, hid⟩ := exists_of_any id l ha
        exact List.mem_map.2 ⟨e, he, hid⟩
      exact (List.perm_cons_erase hm).trans (List.perm_append_comm (l₁ := [id]))
    · simp
  | purge => simp [COp.addId, listAfter, eventsOf]
  | seen id =>
    simp only [COp.addId, listAfter, eventsOf, List.append_nil]
    split
    · split
      · exact List.Perm.refl _
      · rw [markFirst_ids]
    · exact List.Perm.refl _
  | get id => simp [COp.addId, listAfter, eventsOf]
  | list => simp [COp.addId, listAfter, eventsOf]

/-- the ids a history brings in -/
def addIds (ops : List COp) : List Nat := ops.flatMap COp.addId

theorem addIds_append (l1 l2 : List COp) : addIds (l1 ++ l2) = addIds l1 ++ addIds l2 := by simp [addIds]

/-- the generator's contract over a history: no id is handed out twice, none that the mailbox holds at the start -/
def FreshIds (l0 : List FEnt) (ops : List COp) : Prop := (l0.map (·.id) ++ addIds ops).Nodup

/-- a history from a well-formed mailbox listing `l0`, with fresh ids: the directory stays well-formed, and the ids that
    were listed or came in are a permutation of the ids listed at the end plus the `deleted` events -/
theorem seqRun_good (c : Cfg) (hpar : ∀ st ∈ c.par, ∃ lv, st = .rmdirParent lv) : ∀ (ops : List COp) (d : Option MDir) (ev : List Nat) (l0 : List FEnt),
    Good c.C c.b l0 d → (l0.map (·.id) ++ ev ++ addIds ops).Nodup →
    ∃ l, Good c.C c.b l (seqRun c (d, ev) ops).1 ∧
      (l0.map (·.id) ++ ev ++ addIds ops).Perm (l.map (·.id) ++ (seqRun c (d, ev) ops).2) ∧
      (∀ r ∈ seqRes c (d, ev) ops, r ≠ .err)
  | [], d, ev, l0, hg, _ => ⟨l0, hg, by simp [seqRun, addIds], by simp [seqRes]⟩
  | op :: ops, d, ev, l0, hg, hnd => by
    have hfresh : ∀ i ∈ op.addId, i ∉ l0.map (·.id) := by
      intro i hi hin
      have : (l0.map (·.id) ++ (ev ++ (op.addId ++ addIds ops))).Nodup := by simpa [addIds] using hnd
      rw [List.nodup_append] at this
      exact this.2.2 i hin i (by simp [hi]) rfl
    obtain ⟨hg1, hev1, _, hres⟩ := seqStep_good c hpar d ev l0 op hg hfresh
    have hp := step_perm c.cap l0 op
    -- what is known after the first operation
    have hp1 : (l0.map (·.id) ++ ev ++ addIds (op :: ops)).Perm
        ((listAfter c.cap l0 op).map (·.id) ++ (ev ++ eventsOf c.cap l0 op) ++ addIds ops) := by
      have e1 : l0.map (·.id) ++ ev ++ addIds (op :: ops) = (l0.map (·.id) ++ (ev ++ op.addId)) ++ addIds ops := by
        simp [addIds]
      rw [e1]
      refine List.Perm.append_right _ ?_
      refine (List.Perm.append_left _ (List.perm_append_comm (l₁ := ev) (l₂ := op.addId))).trans ?_
      rw [← List.append_assoc]
      refine (hp.append_right ev).trans ?_
      rw [List.append_assoc]
      exact List.Perm.append_left _ List.perm_append_comm
    have hnd1 := hp1.nodup_iff.1 hnd
    have hq : seqStep c (d, ev) op = ((seqStep c (d, ev) op).1, ev ++ eventsOf c.cap l0 op) := by rw [← hev1]
    obtain ⟨l, hg2, hp2, hr2⟩ := seqRun_good c hpar ops (seqStep c (d, ev) op).1 (ev ++ eventsOf c.cap l0 op) _ hg1 hnd1
    rw [← hq] at hg2 hp2 hr2
    refine ⟨l, by simpa [seqRun] using hg2, hp1.trans (by simpa [seqRun] using hp2), ?_⟩
    intro r hr
    simp only [seqRes, List.mem_cons] at hr
    rcases hr with rfl | hr
    · exact hres
    · exact hr2 r hr

end Ibx.Lemmas.ConcFileOps
