import Ibx.Bytes
/-
  Executable model of ONE POP3 session of pkg/server/pop3/handler.go, and (at the end) of the sessions of one server
  one after the other as far as they share the server's `tlsState`.

  TLS.  `Cfg.tlsEnabled` is config.POP3.TLSEnabled (NewServer then holds a loaded key pair, tlsConfig != nil; otherwise
  tlsConfig == nil), `Cfg.forceTLS` is config.POP3.ForceTLS, `St.tls` is `s.tlsState != nil` as the session sees it.
  In the pinned source `tlsState` is a field of *Server* (`Cfg.scope = .perServer`, fact Gen.Pop3.tlsStateScope), so
  the flag a new session finds is the one earlier sessions left; `.perSession` is the repaired variant.  The session
  sees the lines its reader hands out, whether they arrived in the clear or inside TLS records; what an accepted STLS
  does to the bytes on the wire is `sessionWire` at the end of this file.

  The session is a state machine over the input LINES that `readLine` (bufio.Reader.ReadString('\n'))
  hands to `parseCmd`, plus the way the input ends.  The message store enters in two places only:
    (a) `loadMailbox` (PASS / APOP): the list `GetMessages(user)` returns at that moment — the parameter `store`;
    (b) `processDeletes` (QUIT in TRANSACTION): the list of `RemoveMessage(user, id)` calls — the `removed` output.
  Every Go index expression (`words[0]`, `args[0]`, `args[1]`, `s.retain[i]`, `s.retain[msgNum-1]`,
  `s.messages[msgNum-1]`) is a checked lookup whose failure is the explicit outcome `panic`.
  Names follow the Go functions.  Core Lean only (linked into the driver).
-/
namespace Ibx.Model.Pop3
open Ibx Ibx.Bytes

/-- what the session sees of a `storage.Message`: `ID()`, `Size()`, the bytes of `Source()` -/
structure Msg where
  id : Bytes
  size : Nat
  src : Bytes
deriving DecidableEq, Repr

/-- `type State int` -/
inductive Phase | auth | trans | quit
deriving DecidableEq, Repr

/-- where `tlsState` is declared: in `Server` (one flag for every session of the process — the pinned source, finding
    F-13tls) or in `Session` (the repair) -/
inductive TlsScope | perServer | perSession
deriving DecidableEq, Repr

/-- the variant the pinned source has (pinned by `Tie.Pop3.tls_scope_tie`) -/
def sourceScope : TlsScope := .perServer

/-- what the handlers read of the embedded `*Server` -/
structure Cfg where
  tlsEnabled : Bool := false    -- config.TLSEnabled; NewServer: tlsConfig != nil iff this is set (else it returns an error)
  forceTLS : Bool := false      -- config.ForceTLS: startSession wraps every accepted connection in tls.Server
  scope : TlsScope := .perServer
deriving DecidableEq, Repr

/-- the fields of `Session` (and of the `*Server` embedded in it) that the handlers read or write -/
structure St where
  phase : Phase
  user : Bytes
  msgs : List Msg        -- `messages`: the snapshot taken at login
  retain : List Bool     -- `retain`
  msgCount : Int         -- `msgCount` (a Go int: a wrong decrement would show as a negative number)
  cfg : Cfg := {}        -- `s.Server.config`, `s.Server.tlsConfig`
  tls : Bool := false    -- `s.tlsState != nil`
deriving DecidableEq, Repr

/-- `NewSession` on a server without TLS -/
def St.init : St := { phase := .auth, user := [], msgs := [], retain := [], msgCount := 0 }

/-- `NewSession` on a server configured `c` whose `tlsState` is non-nil iff `srvTls` (what earlier sessions left;
    meaningless when the flag is per session).  Under ForceTLS startSession records the state before the session starts. -/
def St.start (c : Cfg) (srvTls : Bool) : St :=
  { St.init with cfg := c, tls := c.forceTLS || (c.scope == .perServer && srvTls) }

/-- CAPA lists STLS: `s.tlsConfig != nil && s.tlsState == nil && !s.config.ForceTLS` -/
def offersStls (s : St) : Bool := s.cfg.tlsEnabled && !s.tls && !s.cfg.forceTLS

/-- STLS in AUTHORIZATION is accepted: neither `!TLSEnabled || ForceTLS` nor `tlsState != nil` -/
def acceptsStls (s : St) : Bool := s.cfg.tlsEnabled && !s.cfg.forceTLS && !s.tls

/-! ### parseCmd -/

/-- `strings.TrimRight(line, "\r\n")` -/
def trimRightCRLF (l : Bytes) : Bytes :=
  (l.reverse.dropWhile (fun c => c == 13 || c == 10)).reverse

def splitAux : Bytes → Bytes → List Bytes → List Bytes
  | [], cur, acc => (cur.reverse :: acc).reverse
  | c :: cs, cur, acc =>
    if c = 32 then splitAux cs [] (cur.reverse :: acc) else splitAux cs (c :: cur) acc

/-- `strings.Split(line, " ")`: one more field than there are spaces, empty fields kept -/
def splitSpaces (l : Bytes) : List Bytes := splitAux l [] []

/-- `strings.ToUpper` as far as the command test can see it: ASCII letters, plus the only two non-ASCII
    runes whose upper case is ASCII (U+0131 dotless i = C4 B1 ↦ 'I', U+017F long s = C5 BF ↦ 'S'); every other
    non-ASCII byte stays non-ASCII (in Go too), so the word is no command key on either side. -/
def upperCmd : Bytes → Bytes
  | 0xC4 :: 0xB1 :: rest => 73 :: upperCmd rest
  | 0xC5 :: 0xBF :: rest => 83 :: upperCmd rest
  | c :: rest => upperB c :: upperCmd rest
  | [] => []

/-- `parseCmd`: `none` = `words[0]` out of range.  The empty line yields `("", nil)`. -/
def parseCmd (line : Bytes) : Option (Bytes × List Bytes) :=
  let l := trimRightCRLF line
  if l = [] then some ([], [])
  else match splitSpaces l with
    | [] => none
    | w :: args => some (upperCmd w, args)

/-! ### the `commands` map and the two `switch cmd` statements -/

inductive Verb | quit | stat | list | retr | dele | noop | rset | top | uidl | user | pass | apop | capa | stls
deriving DecidableEq, Repr

def kQUIT : Bytes := [81, 85, 73, 84]
def kSTAT : Bytes := [83, 84, 65, 84]
def kLIST : Bytes := [76, 73, 83, 84]
def kRETR : Bytes := [82, 69, 84, 82]
def kDELE : Bytes := [68, 69, 76, 69]
def kNOOP : Bytes := [78, 79, 79, 80]
def kRSET : Bytes := [82, 83, 69, 84]
def kTOP : Bytes := [84, 79, 80]
def kUIDL : Bytes := [85, 73, 68, 76]
def kUSER : Bytes := [85, 83, 69, 82]
def kPASS : Bytes := [80, 65, 83, 83]
def kAPOP : Bytes := [65, 80, 79, 80]
def kCAPA : Bytes := [67, 65, 80, 65]
def kSTLS : Bytes := [83, 84, 76, 83]

/-- `var commands = map[string]bool{…}` (all values true), in source order -/
def commands : List (Bytes × Verb) :=
  [(kQUIT, .quit), (kSTAT, .stat), (kLIST, .list), (kRETR, .retr), (kDELE, .dele), (kNOOP, .noop),
   (kRSET, .rset), (kTOP, .top), (kUIDL, .uidl), (kUSER, .user), (kPASS, .pass), (kAPOP, .apop),
   (kCAPA, .capa), (kSTLS, .stls)]

def verbOf (cmd : Bytes) : Option Verb := commands.lookup cmd

/-- the `case` labels of `authorizationHandler` / `transactionHandler` (everything else is `default`) -/
def authCases : List Verb := [.quit, .stls, .user, .pass, .apop]
def transCases : List Verb := [.stat, .list, .uidl, .dele, .retr, .top, .quit, .noop, .rset]

/-! ### strconv.ParseInt(s, 10, 32) -/

def digitsVal : Bytes → Nat → Option Nat
  | [], acc => some acc
  | c :: cs, acc => if 48 ≤ c ∧ c ≤ 57 then digitsVal cs (acc * 10 + (c - 48)) else none

/-- `none` = any error (syntax: empty, sign only, a non-digit; range: outside [-2^31, 2^31-1]) -/
def parseInt32 (s : Bytes) : Option Int :=
  match s with
  | [] => none
  | c :: rest =>
    let neg := c == 45
    let ds := if c = 43 ∨ c = 45 then rest else s
    match ds with
    | [] => none
    | _ =>
      match digitsVal ds 0 with
      | none => none
      | some v =>
        if neg then (if v > 2147483648 then none else some (-(v : Int)))
        else (if v ≥ 2147483648 then none else some (v : Int))

/-! ### message output: bufio.Scanner(ScanLines), dot-stuffing, TOP -/

/-- `dropCR` -/
def dropCR (l : Bytes) : Bytes := if l.getLast? = some 13 then l.dropLast else l

def scanAux : Bytes → Bytes → List Bytes → List Bytes
  | [], cur, acc => (if cur.isEmpty then acc else dropCR cur.reverse :: acc).reverse
  | c :: rest, cur, acc =>
    if c = 10 then scanAux rest [] (dropCR cur.reverse :: acc) else scanAux rest (c :: cur) acc

/-- the tokens of `bufio.ScanLines` over the whole source: split at LF, one trailing CR dropped per line,
    a final unterminated non-empty rest is a line too -/
def scanLines (src : Bytes) : List Bytes := scanAux src [] []

/-- `if strings.HasPrefix(line, ".") { line = "." + line }` -/
def dotStuff (l : Bytes) : Bytes := if l.head? = some 46 then 46 :: l else l

/-- lines `sendMessage` sends between the status line and the final "." -/
def retrLines (src : Bytes) : List Bytes := (scanLines src).map dotStuff

/-- the loop of `sendMessageTop`: headers, the blank line, then at most `k` body lines.
    (`line == ""` is tested after dot-prefixing, which never changes emptiness.) -/
def topLoop : List Bytes → Bool → Nat → List Bytes → List Bytes
  | [], _, _, acc => acc.reverse
  | l :: ls, inBody, k, acc =>
    let l' := dotStuff l
    if inBody then
      (if k < 1 then acc.reverse else topLoop ls true (k - 1) (l' :: acc))
    else topLoop ls (l' == []) k (l' :: acc)

def topLines (src : Bytes) (k : Nat) : List Bytes := topLoop (scanLines src) false k []

/-! ### replies -/

/-- reply of one command: the class and the protocol payload (never the wording).  The multi-line kinds
    are followed on the wire by their lines and a final "." line. -/
inductive Reply
  | err                                                  -- "-ERR …"
  | ok                                                   -- "+OK …" without payload
  | okLogin (count : Int)                                -- "+OK Found <msgCount> messages for <user>"
  | okStat (count size : Nat)                            -- "+OK <count> <size>"
  | okListOne (num : Int) (size : Nat)                   -- "+OK <n> <size>"
  | okUidlOne (num : Int) (id : Bytes)                   -- "+OK <n> <id>"
  | okList (count : Int) (entries : List (Nat × Nat))    -- "+OK Listing <msgCount> messages", "<n> <size>"…, "."
  | okUidl (count : Int) (entries : List (Nat × Bytes))  -- same with ids
  | okDele (num : Int)                                   -- "+OK Deleted message <n>"
  | okRetr (size : Nat) (lines : List Bytes)             -- "+OK <size> bytes follows", lines, "."
  | okTop (lines : List Bytes)                           -- "+OK Top of message follows", lines, "."
  | capa (lines : List Bytes)                            -- "+OK Capability list follows", lines, "."
  | stlsBegin                                            -- "+OK Begin TLS Negotiation", then tls.Server + Handshake()
deriving DecidableEq, Repr

inductive Outcome
  | ok (st : St) (reply : Reply) (removed : List Bytes)  -- `removed`: ids passed to RemoveMessage(user, ·), in order
  | panic                                                -- a Go run-time panic (index out of range)
  | badState                                             -- "Session entered unexpected state": loop left without reply
deriving DecidableEq, Repr

def capaLines : List Bytes :=
  [[84, 79, 80], [85, 83, 69, 82], [85, 73, 68, 76],
   [73, 77, 80, 76, 69, 77, 69, 78, 84, 65, 84, 73, 79, 78, 32, 73, 110, 98, 117, 99, 107, 101, 116]]

/-! ### the handlers -/

/-- `for i, msg := range msgs { if retain[i] == want { emit (f i msg) } }` starting at index `i`;
    `none` = `retain[i]` out of range -/
def rangeSel {β : Type} (retain : List Bool) (want : Bool) (f : Nat → Msg → β) : List Msg → Nat → Option (List β)
  | [], _ => some []
  | m :: ms, i =>
    match retain[i]?, rangeSel retain want f ms (i + 1) with
    | some r, some es => some (if r = want then f i m :: es else es)
    | _, _ => none

/-- `l[n-1]` for an int64 `n` (Go panics when the index is negative or too large) -/
def idx? {α : Type} (l : List α) (n : Int) : Option α :=
  if n - 1 < 0 then none else l[(n - 1).toNat]?

/-- the argument checks shared by LIST n / UIDL n / DELE / RETR / TOP: ParseInt error, `< 1`,
    `> len(s.messages)`; `none` = one of the three "-ERR" exits -/
def msgArg (s : St) (a : Bytes) : Option Int :=
  match parseInt32 a with
  | none => none
  | some n => if n < 1 then none else if n > (s.msgs.length : Int) then none else some n

/-- `retainAll` -/
def retainAll (s : St) : St :=
  { s with retain := List.replicate s.msgs.length true, msgCount := (s.msgs.length : Int) }

/-- `loadMailbox`: `store` = what `GetMessages` returns now (an error is the empty list) -/
def loadMailbox (store : Bytes → List Msg) (s : St) : St :=
  retainAll { s with msgs := store s.user }

/-- `authorizationHandler`.  STLS: the two refusals, else "+OK Begin TLS Negotiation", the handshake, a NEW bufio.Reader
    on the tls.Conn and tlsState recorded; state and `user` are left as they are. -/
def authH (store : Bytes → List Msg) (s : St) (v : Verb) (args : List Bytes) : Outcome :=
  match v with
  | .quit => .ok { s with phase := .quit } .ok []
  | .stls =>
    if !s.cfg.tlsEnabled || s.cfg.forceTLS then .ok s .err []
    else if s.tls then .ok s .err []
    else .ok { s with tls := true } .stlsBegin []
  | .user =>
    if args.length > 0 then
      match args with
      | [] => .panic
      | a :: _ => .ok { s with user := a } .ok []
    else .ok s .err []
  | .pass =>
    if s.user = [] then .ok s .err []
    else
      let s' := loadMailbox store s
      .ok { s' with phase := .trans } (.okLogin s'.msgCount) []
  | .apop =>
    if args.length ≠ 2 then .ok s .err []
    else
      match args with
      | [] => .panic
      | a :: _ =>
        let s' := loadMailbox store { s with user := a }
        .ok { s' with phase := .trans } (.okLogin s'.msgCount) []
  | _ => .ok s .err []

def cmdStat (s : St) (args : List Bytes) : Outcome :=
  if args.length ≠ 0 then .ok s .err []
  else
    match rangeSel s.retain true (fun _ m => m.size) s.msgs 0 with
    | none => .panic
    | some zs => .ok s (.okStat zs.length zs.sum) []

def cmdList (s : St) (args : List Bytes) : Outcome :=
  if args.length > 1 then .ok s .err []
  else if args.length = 1 then
    match args with
    | [] => .panic
    | a :: _ =>
      match msgArg s a with
      | none => .ok s .err []
      | some n =>
        match idx? s.retain n with
        | none => .panic
        | some false => .ok s .err []
        | some true =>
          match idx? s.msgs n with
          | none => .panic
          | some m => .ok s (.okListOne n m.size) []
  else
    match rangeSel s.retain true (fun i m => (i + 1, m.size)) s.msgs 0 with
    | none => .panic
    | some es => .ok s (.okList s.msgCount es) []

def cmdUidl (s : St) (args : List Bytes) : Outcome :=
  if args.length > 1 then .ok s .err []
  else if args.length = 1 then
    match args with
    | [] => .panic
    | a :: _ =>
      match msgArg s a with
      | none => .ok s .err []
      | some n =>
        match idx? s.retain n with
        | none => .panic
        | some false => .ok s .err []
        | some true =>
          match idx? s.msgs n with
          | none => .panic
          | some m => .ok s (.okUidlOne n m.id) []
  else
    match rangeSel s.retain true (fun i m => (i + 1, m.id)) s.msgs 0 with
    | none => .panic
    | some es => .ok s (.okUidl s.msgCount es) []

def cmdDele (s : St) (args : List Bytes) : Outcome :=
  if args.length ≠ 1 then .ok s .err []
  else
    match args with
    | [] => .panic
    | a :: _ =>
      match msgArg s a with
      | none => .ok s .err []
      | some n =>
        match idx? s.retain n with
        | none => .panic
        | some true =>
          .ok { s with retain := s.retain.set (n - 1).toNat false, msgCount := s.msgCount - 1 } (.okDele n) []
        | some false => .ok s .err []

/-- RETR does not look at `retain` (a message marked deleted is still sent) -/
def cmdRetr (s : St) (args : List Bytes) : Outcome :=
  if args.length ≠ 1 then .ok s .err []
  else
    match args with
    | [] => .panic
    | a :: _ =>
      match msgArg s a with
      | none => .ok s .err []
      | some n =>
        match idx? s.msgs n with
        | none => .panic
        | some m => .ok s (.okRetr m.size (retrLines m.src)) []

def cmdTop (s : St) (args : List Bytes) : Outcome :=
  if args.length ≠ 2 then .ok s .err []
  else
    match args with
    | a :: b :: _ =>
      match msgArg s a with
      | none => .ok s .err []
      | some n =>
        match parseInt32 b with
        | none => .ok s .err []
        | some k =>
          if k < 0 then .ok s .err []
          else
            match idx? s.msgs n with
            | none => .panic
            | some m => .ok s (.okTop (topLines m.src k.toNat)) []
    | _ => .panic

/-- QUIT in TRANSACTION: "+OK", then `processDeletes`, then state QUIT -/
def cmdQuit (s : St) : Outcome :=
  match rangeSel s.retain false (fun _ m => m.id) s.msgs 0 with
  | none => .panic
  | some ids => .ok { s with phase := .quit } .ok ids

/-- `transactionHandler` -/
def transH (s : St) (v : Verb) (args : List Bytes) : Outcome :=
  match v with
  | .stat => cmdStat s args
  | .list => cmdList s args
  | .uidl => cmdUidl s args
  | .dele => cmdDele s args
  | .retr => cmdRetr s args
  | .top => cmdTop s args
  | .quit => cmdQuit s
  | .noop => .ok s .ok []
  | .rset => .ok (retainAll s) .ok []
  | _ => .ok s .err []

/-- one pass of the command loop of `startSession` for a line that was read without error -/
def step (store : Bytes → List Msg) (s : St) (line : Bytes) : Outcome :=
  match parseCmd line with
  | none => .panic
  | some (cmd, args) =>
    if cmd = kCAPA then .ok s (.capa (if offersStls s then capaLines ++ [kSTLS] else capaLines)) []
    else if cmd = [] then .ok s .err []
    else
      match verbOf cmd with
      | none => .ok s .err []
      | some v =>
        match s.phase with
        | .auth => authH store s v args
        | .trans => transH s v args
        | .quit => .badState

/-! ### a whole session -/

/-- one loop iteration as the environment shapes it -/
structure Ev where
  store : Bytes → List Msg   -- what `GetMessages` would return at this moment (other clients may have changed it)
  line : Bytes               -- the line `readLine` returns (ends with LF)
  sendOk : Bool              -- false: writing the reply fails (client gone) — `sendError` ends the loop afterwards

/-- how the input ends when the loop is still running: `ReadString` fails with EOF (also: a last line without
    LF), or with another error / the idle timeout (one "-ERR" line is sent) -/
inductive Term | eof | readError
deriving DecidableEq, Repr

inductive End | quit | eof | readError | sendError | panic | badState | tlsFail
deriving DecidableEq, Repr

structure Trace where
  replies : List Reply
  removed : List Bytes
  ending : End
  final : St

/-- the loop `for ssn.state != QUIT && ssn.sendError == nil` -/
def run (term : Term) : St → List Ev → Trace
  | s, [] =>
    if s.phase = .quit then ⟨[], [], .quit, s⟩
    else match term with
      | .eof => ⟨[], [], .eof, s⟩
      | .readError => ⟨[.err], [], .readError, s⟩
  | s, ev :: evs =>
    if s.phase = .quit then ⟨[], [], .quit, s⟩
    else
      match step ev.store s ev.line with
      | .panic => ⟨[], [], .panic, s⟩
      | .badState => ⟨[], [], .badState, s⟩
      | .ok s' r rm =>
        if ev.sendOk then
          let t := run term s' evs
          ⟨r :: t.replies, rm ++ t.removed, t.ending, t.final⟩
        else ⟨[r], rm, .sendError, s'⟩

/-- greeting, then the loop -/
def session (term : Term) (evs : List Ev) : Trace :=
  let t := run term St.init evs
  ⟨.ok :: t.replies, t.removed, t.ending, t.final⟩

/-- the raw input stream as `ReadString('\n')` cuts it: complete lines (each with its LF) and the rest -/
def cutAux : Bytes → Bytes → List Bytes → List Bytes × Bytes
  | [], cur, acc => (acc.reverse, cur.reverse)
  | c :: cs, cur, acc =>
    if c = 10 then cutAux cs [] ((c :: cur).reverse :: acc) else cutAux cs (c :: cur) acc

def cutLines (stream : Bytes) : List Bytes × Bytes := cutAux stream [] []

/-! ### C13End: read failures by kind; failures of `Message.Source()` and of the scanner

  `readLine` sets a read deadline of `config.POP3.Timeout` before every read and uses `ReadString('\n')`, which returns
  the error together with the partial bytes; `readLine` drops those bytes.  So — unlike the SMTP session — a partial
  line is never a command, whatever the error.  startSession then sends nothing (io.EOF), "-ERR Idle timeout, bye bye"
  (net.Error with Timeout()) or "-ERR Connection error, sorry" (anything else), and the loop ends; `processDeletes` is
  called from the QUIT case of `transactionHandler` only. -/

/-- how the input ends, by kind (`Term.readError` covers the last two) -/
inductive TermX | eof | timeout | neterr
deriving DecidableEq, Repr

def TermX.toTerm : TermX → Term
  | .eof => .eof
  | .timeout => .readError
  | .neterr => .readError

inductive Bye | idle | connErr
deriving DecidableEq, Repr

/-- the exact last lines (without CRLF) -/
def byeText : Bye → Bytes
  | .idle => [45, 69, 82, 82, 32, 73, 100, 108, 101, 32, 116, 105, 109, 101, 111, 117, 116, 44, 32, 98, 121, 101, 32, 98, 121, 101]
  | .connErr => [45, 69, 82, 82, 32, 67, 111, 110, 110, 101, 99, 116, 105, 111, 110, 32, 101, 114, 114, 111, 114, 44, 32, 115, 111, 114, 114, 121]

def byeOf (t : TermX) (en : End) : Option Bye :=
  match en, t with
  | .readError, .timeout => some .idle
  | .readError, .neterr => some .connErr
  | _, _ => none

/-- what `msg.Source()` and reading from the returned reader do for one message.  `readFails k`: the reader hands out
    `k` bytes without error and fails (not with EOF) when asked for more — the io.Reader discipline of os.File and of
    every reader that returns data and error in separate calls. -/
inductive SrcFault
  | none
  | openFails
  | readFails (k : Nat)
deriving DecidableEq, Repr

/-- how sendMessage / sendMessageTop finish after the status line "+OK …" has ALREADY been sent:
    `dot`: "."                                   (normal)
    `dotErr`: ".", then "-ERR Failed to RETR that message, internal error"   (scanner.Err() != nil)
    `err`: "-ERR Failed to RETR …" alone, NO "." (Source() failed) -/
inductive Tail | dot | dotErr | err
deriving DecidableEq, Repr

structure FaultReply where
  lines : List Bytes
  tail : Tail
deriving DecidableEq, Repr

/-- the input ends with a non-empty unterminated line -/
def unterminated (b : Bytes) : Bool :=
  match b.getLast? with
  | some c => c != 10
  | none => false

/-- `sendMessage`: every scanned token is sent (the unterminated rest before the failure too: bufio.Scanner splits what
    it has with atEOF = true once the reader has failed), then ".", then the -ERR line -/
def sendMessageF (f : SrcFault) (src : Bytes) : FaultReply :=
  match f with
  | .none => ⟨retrLines src, .dot⟩
  | .openFails => ⟨[], .err⟩
  | .readFails k => ⟨retrLines (src.take k), .dotErr⟩

/-- `topLoop` that also tells whether the loop was left by `break` and which tokens were still unscanned then -/
def topLoopB : List Bytes → Bool → Nat → List Bytes → List Bytes × Bool × List Bytes
  | [], _, _, acc => (acc.reverse, false, [])
  | l :: ls, inBody, k, acc =>
    let l' := dotStuff l
    if inBody then
      (if k < 1 then (acc.reverse, true, ls) else topLoopB ls true (k - 1) (l' :: acc))
    else topLoopB ls (l' == []) k (l' :: acc)

/-- `sendMessageTop`: after `break` the scanner's error is set only if the token it had just scanned was the
    unterminated rest in front of the failure (scanning it needed the read that failed); without `break` the loop
    ends by the failure itself -/
def sendMessageTopF (f : SrcFault) (src : Bytes) (n : Nat) : FaultReply :=
  match f with
  | .none => ⟨topLines src n, .dot⟩
  | .openFails => ⟨[], .err⟩
  | .readFails k =>
    let r := topLoopB (scanLines (src.take k)) false n []
    ⟨r.1, if r.2.1 then (if r.2.2.isEmpty && unterminated (src.take k) then .dotErr else .dot) else .dotErr⟩

/-- the message a RETR / TOP line addresses (after all argument checks), with TOP's line count -/
def target (s : St) (line : Bytes) : Option (Msg × Option Nat) :=
  match parseCmd line with
  | none => none
  | some (cmd, args) =>
    match verbOf cmd, args with
    | some .retr, [a] => (msgArg s a).bind (fun n => (idx? s.msgs n).map (fun m => (m, none)))
    | some .top, [a, b] =>
      match msgArg s a, parseInt32 b with
      | some n, some k => if k < 0 then none else (idx? s.msgs n).map (fun m => (m, some k.toNat))
      | _, _ => none
    | _, _ => none

/-- `some`: the status line of the reply is followed by these lines and this tail instead of the reply's own -/
def faultOf (flt : Bytes → SrcFault) (s : St) (line : Bytes) (o : Outcome) : Option FaultReply :=
  match o with
  | .ok _ (.okRetr _ _) _ =>
    (match target s line with
     | some (m, _) => if flt m.id = .none then none else some (sendMessageF (flt m.id) m.src)
     | none => none)
  | .ok _ (.okTop _) _ =>
    (match target s line with
     | some (m, some n) => if flt m.id = .none then none else some (sendMessageTopF (flt m.id) m.src n)
     | _ => none)
  | _ => none

structure OutF where
  out : Outcome                 -- exactly `step`: state, reply class and payload, removals
  fault : Option FaultReply
deriving Repr

/-- one loop iteration when `Source()` of some messages misbehaves: the state machine does not notice -/
def stepF (flt : Bytes → SrcFault) (store : Bytes → List Msg) (s : St) (line : Bytes) : OutF :=
  let o := step store s line
  ⟨o, faultOf flt s line o⟩

/-- the fault replies along a session, one entry per processed line -/
def faultsAlong (flt : Bytes → SrcFault) : St → List Ev → List (Option FaultReply)
  | _, [] => []
  | s, ev :: evs =>
    if s.phase = .quit then []
    else
      match step ev.store s ev.line with
      | .ok s' _ _ => (stepF flt ev.store s ev.line).fault :: (if ev.sendOk then faultsAlong flt s' evs else [])
      | _ => []

structure TraceX where
  base : Trace                          -- `session` with the read failure kinds merged
  faults : List (Option FaultReply)
  bye : Option Bye

/-- a whole session with the kind of read failure and the source faults -/
def sessionX (t : TermX) (flt : Bytes → SrcFault) (evs : List Ev) : TraceX :=
  let tr := session t.toTerm evs
  ⟨tr, faultsAlong flt St.init evs, byeOf t tr.ending⟩

/-! ### TLS: sessions of one server, and what is on the wire

  `startSession` under ForceTLS: `tls.Server(conn, s.tlsConfig)` and `tlsConn.ConnectionState()` BEFORE anything else.
  With ForceTLS set and TLSEnabled unset `tlsConfig` is nil and that call dereferences it: a run-time panic in the
  session goroutine on every connection (finding F-13tls2) — the explicit outcome `panic` below.

  STLS: "+OK Begin TLS Negotiation" is written in the clear, then `tls.Server(s.conn, …).Handshake()` runs at once and
  the session gets a NEW bufio.Reader on the tls.Conn.  Bytes the client sent behind the STLS line without waiting:
  those the old reader had already buffered are thrown away with it; those still in the socket are read by the handshake
  and make it fail.  After a failed handshake the handler writes "-ERR Command STLS is out of sequence" in the clear,
  STILL installs the broken tls.Conn and records tlsState; the next read fails and so does the "-ERR" that reports it:
  the session ends (nothing can be removed: it is in AUTHORIZATION). -/

/-- one session of a server configured `c` whose tlsState is non-nil iff `srvTls`: greeting, then the loop -/
def sessionTls (c : Cfg) (srvTls : Bool) (term : Term) (evs : List Ev) : Trace :=
  if c.forceTLS && !c.tlsEnabled then ⟨[], [], .panic, St.start c srvTls⟩
  else
    let t := run term (St.start c srvTls) evs
    ⟨.ok :: t.replies, t.removed, t.ending, t.final⟩

/-- the server's flag after a session that ended in state `final` -/
def serverTlsAfter (c : Cfg) (srvTls : Bool) (final : St) : Bool :=
  match c.scope with
  | .perServer => srvTls || final.tls
  | .perSession => false

/-- the sessions of one server process, one after the other (first session: tlsState == nil) -/
def serve (c : Cfg) : Bool → List (Term × List Ev) → List Trace
  | _, [] => []
  | srv, (t, evs) :: rest =>
    let tr := sessionTls c srv t evs
    tr :: serve c (serverTlsAfter c srv tr.final) rest

/-- `ReadString('\n')`: the next complete line (with its LF) and what follows; `none` = no LF left -/
def takeLine (b : Bytes) : Option (Bytes × Bytes) :=
  if b.contains 10 then some (b.takeWhile (· != 10) ++ [10], (b.dropWhile (· != 10)).drop 1) else none

/-- the input left behind the line whose STLS was accepted -/
def switchRest (store : Bytes → List Msg) : Nat → St → Bytes → Option Bytes
  | 0, _, _ => none
  | fuel + 1, s, inp =>
    if s.phase = .quit then none
    else
      match takeLine inp with
      | none => none
      | some (line, rest) =>
        match step store s line with
        | .ok s' r _ => if r = .stlsBegin then some rest else switchRest store fuel s' rest
        | _ => none

/-- the connection as the network sees it (as `Ibx.Model.Smtp.Wire`) -/
structure Wire where
  pre : Bytes                       -- what the client sends before / instead of a TLS handshake
  buffered : Nat                    -- bytes behind the accepted STLS line that the old reader had already buffered
  tlsOpen : Bytes → Option Bytes    -- crypto/tls: raw bytes reaching tls.Server ↦ the plaintext it yields; none = handshake fails

/-- the loop iterations a byte stream gives rise to (the store does not change meanwhile; every reply can be written) -/
def evsOf (store : Bytes → List Msg) (b : Bytes) : List Ev :=
  (cutLines b).1.map (fun l => { store := store, line := l, sendOk := true })

/-- a whole session from the bytes on the wire -/
def sessionWire (c : Cfg) (srvTls : Bool) (term : Term) (store : Bytes → List Msg) (w : Wire) : Trace :=
  if c.forceTLS then
    match w.tlsOpen w.pre with
    | none => ⟨[], [], (if c.tlsEnabled then .tlsFail else .panic), St.start c srvTls⟩
    | some q => sessionTls c srvTls term (evsOf store q)
  else
    match switchRest store (w.pre.length + 1) (St.start c srvTls) w.pre with
    | none => sessionTls c srvTls term (evsOf store w.pre)
    | some rest =>
      let consumed := w.pre.take (w.pre.length - rest.length)
      match w.tlsOpen (rest.drop w.buffered) with
      | none =>
        let t := sessionTls c srvTls .eof (evsOf store consumed)
        ⟨t.replies ++ [.err], t.removed, .tlsFail, t.final⟩
      | some q => sessionTls c srvTls term (evsOf store (consumed ++ q))

end Ibx.Model.Pop3
