import Ibx.Model.FsSteps
/-
  ConcFileOps — the file store's operations on ONE mailbox, interleaved (pkg/storage/file/{fstore,mbox,fmessage}.go).

  `Ibx.Model.FsSteps` gives each mutating operation as the list of file-system primitives it issues, computed from the
  directory state at the START of the operation — which is only what happens when nobody else changes the mailbox in
  between.  Here any number of client threads run any sequences of operations on the same mailbox and the scheduler
  picks who makes the next move; what keeps them apart is the mailbox (bucket) lock, exactly as far as the code takes it.

  One move of a thread is one of:
      Lock / RLock           (enabled only when the sync.RWMutex lets it in)
      load                   mbox.readIndex: the index is decoded into the thread's private `mb.messages`; from it and
                             the directory the thread derives what it is going to do (its private continuation)
      one file-system primitive of FsSteps (mkdirAll, create, one write(2), close, rename, unlink, …)
      one `deleted` event     (emitted where the code emits it: mbox.removeMessage BEFORE its writeIndex, PurgeMessages for
                             every listed message BEFORE anything is removed, the cap loop per evicted message)
      Unlock / RUnlock
      the `stored` event      (message.StoreManager.Deliver, AFTER Store.AddMessage has returned, outside any lock)

  The LOCK SCOPE of `Store.AddMessage` is a parameter regenerated from the source (Tie/FileLock.lean):
      wholeOp          Lock … deferred Unlock around the whole method: readIndex, cap loop, new id, createDir, raw file,
                       append to the in-memory list, writeIndex.  (The code as it is.)
      splitAroundCopy  Lock; readIndex, cap loop, new id, createDir; Unlock.  The body is copied WITHOUT the lock.  Lock again;
                       append to the in-memory list loaded BEFORE the copy; writeIndex; Unlock.
  RemoveMessage, PurgeMessages, MarkSeen hold the write lock, GetMessage / GetMessages the read lock, from start to end.

  What a thread does under the lock is computed from the directory it reads at `load` and is then carried out step by
  step against the SHARED directory, whatever that has become: the model does not assume the critical section is atomic,
  it lets other threads move between any two steps (they cannot, under `wholeOp`, and that is a theorem: Lemmas/ConcFileOps).

  A system call that cannot succeed in the directory it meets leaves it unchanged (`applyDir`) and is counted in
  `failed`; under `wholeOp` from a well-formed mailbox the count stays 0 (theorem), the counter-witnesses of
  `splitAroundCopy` reach their states with count 0 too.  Ids are handed out by the generator (time stamp + counter) and
  are a parameter of `add`, as in FsSteps.  The two parent directory levels are not part of the state (`par`, as in FsSteps).
-/
namespace Ibx.Model.ConcFileOps
open Ibx Ibx.Spec.Store Ibx.Model.FsSteps
open Ibx.Model.FileStore (FEnt)

/-- how far `Store.AddMessage` holds the mailbox lock -/
inductive LockScope
  | wholeOp
  | splitAroundCopy
  deriving DecidableEq, Repr

/-- a client operation on the mailbox -/
inductive COp
  | add (id : Nat) (hdr : Meta) (src : Bytes)
  | remove (id : Nat)
  | purge
  | seen (id : Nat)
  | get (id : Nat)
  | list
  deriving DecidableEq, Repr

/-- GetMessage / GetMessages take the read lock -/
def COp.isRead : COp → Bool
  | .get _ | .list => true
  | _ => false

/-- the id a delivery brings in -/
def COp.addId : COp → List Nat
  | .add id _ _ => [id]
  | _ => []

inductive Ev
  | stored (id : Nat)
  | deleted (id : Nat)
  deriving DecidableEq, Repr

/-- one move inside an operation -/
inductive Act
  | fs (st : FsStep)
  | emit (id : Nat)          -- AfterMessageDeleted.Emit
  deriving DecidableEq, Repr

/-- what an operation answers -/
inductive Res
  | ok
  | notExist
  | err
  | id (i : Nat)
  | ent (e : FEnt)
  | ents (l : List FEnt)
  deriving DecidableEq, Repr

structure Cfg where
  C : Codec
  ch : Chooser
  par : List FsStep           -- the rmdir-parent steps of this mailbox's layout (`parentSteps`)
  b : Bytes                   -- the mailbox
  cap : Nat                   -- MailboxMsgCap, 0 = none
  scope : LockScope

def fsA (l : List FsStep) : List Act := l.map .fs

/-- the file-system primitives among the moves -/
def fsOf : List Act → List FsStep
  | [] => []
  | .fs st :: l => st :: fsOf l
  | .emit _ :: l => fsOf l

/-- the `deleted` events among the moves -/
def evOf : List Act → List Nat
  | [] => []
  | .fs _ :: l => evOf l
  | .emit id :: l => id :: evOf l

/-- what is still to be done once the moves under the lock are finished -/
inductive Next
  | ret (stored : Option Nat)                          -- deferred Unlock, return; after a delivery the manager emits `stored`
  | copy (id : Nat) (src : Bytes) (stale : List FEnt)    -- splitAroundCopy: Unlock, copy the body, Lock again
  | append (id : Nat) (stale : List FEnt)                -- body copied: Lock, write the list loaded before the copy
  deriving DecidableEq, Repr

structure Loaded where
  acts : List Act
  next : Next
  res : Res
  deriving DecidableEq, Repr

section Programs
variable (c : Cfg)

/-- mbox.removeMessage of an entry that was found (`l'` = the in-memory list without it): emit, writeIndex, unlink the raw -/
def removeFoundA (d : Option MDir) (l' : List FEnt) (id : Nat) : List Act :=
  .emit id :: fsA (removeFoundP c.C Variant.safe c.ch c.par c.b d l' id)

/-- the cap loop of mbox.newMessage (`evictP` with its events) -/
def evictA (cap : Nat) : Option MDir → List FEnt → List Act
  | _, [] => []
  | d, e :: l =>
    if (e :: l).length ≥ cap then
      removeFoundA c d l e.id ++ evictA cap (runDir d (removeFoundP c.C Variant.safe c.ch c.par c.b d l e.id)) l
    else []

/-- the moves of the cap loop as a whole (none without a cap) -/
def capA (d : Option MDir) (l0 : List FEnt) : List Act := if c.cap > 0 then evictA c c.cap d l0 else []

/-- the in-memory list the cap loop leaves -/
def capRest (l0 : List FEnt) : List FEnt := if c.cap > 0 then evictRest c.cap l0 else l0

/-- io.Copy into `<id>.raw` after os.Create, Flush, Close -/
def copyA (id : Nat) (src : Bytes) : List Act :=
  fsA ([.createRaw id] ++ (c.ch.chunks src).map (.appendRaw id) ++ [.closeRaw id])

/-- what an operation does and answers, read off the directory the thread sees at `load`, with the lock held from start
    to end (`addP`, `seenP`, `removeP`, `purgeP` of FsSteps with the events in their places) -/
def loadW (d : Option MDir) : COp → Loaded
  | .add id hdr src =>
    match dlisting c.C d with
    | none => { acts := [], next := .ret none, res := .err }
    | some l0 =>
      let ev := capA c d l0
      let d1 := runDir d (fsOf ev)
      let w := writeRawP c.ch d1 id src
      { acts := ev ++ fsA w ++ fsA (writeIndexP c.C Variant.safe c.ch c.b (runDir d1 w) (capRest c l0 ++ [newEnt id hdr src])),
        next := .ret (some id), res := .id id }
  | .remove id =>
    match dlisting c.C d with
    | none => { acts := [], next := .ret none, res := .err }
    | some l =>
      if l.any (fun e => e.id = id) then { acts := removeFoundA c d (eraseFirst id l) id, next := .ret none, res := .ok }
      else { acts := [], next := .ret none, res := .notExist }
  | .purge =>
    match dlisting c.C d with
    | none => { acts := [], next := .ret none, res := .err }
    | some l => { acts := l.map (fun e => .emit e.id) ++ fsA (removeDirP Variant.safe c.ch c.par d), next := .ret none, res := .ok }
  | .seen id =>
    match dlisting c.C d with
    | none => { acts := [], next := .ret none, res := .err }
    | some l =>
      match l.find? (fun e => e.id = id) with
      | none => { acts := [], next := .ret none, res := .notExist }
      | some e =>
        if e.seen then { acts := [], next := .ret none, res := .ok }
        else { acts := fsA (writeIndexP c.C Variant.safe c.ch c.b d (markFirst id l)), next := .ret none, res := .ok }
  | .get id =>
    match dlisting c.C d with
    | none => { acts := [], next := .ret none, res := .err }
    | some l =>
      match l.find? (fun e => e.id = id) with
      | none => { acts := [], next := .ret none, res := .notExist }
      | some e => { acts := [], next := .ret none, res := .ent e }
  | .list =>
    match dlisting c.C d with
    | none => { acts := [], next := .ret none, res := .err }
    | some l => { acts := [], next := .ret none, res := .ents l }

/-- the same with `AddMessage` split around the copy: under the first lock only the cap loop and createDir; the list the
    cap loop left is remembered -/
def loadS (d : Option MDir) : COp → Loaded
  | .add id hdr src =>
    match dlisting c.C d with
    | none => { acts := [], next := .ret none, res := .err }
    | some l0 =>
      let ev := capA c d l0
      let d1 := runDir d (fsOf ev)
      { acts := ev ++ fsA (if d1.isNone then [.mkdirAll] else []),
        next := .copy id src (capRest c l0 ++ [newEnt id hdr src]), res := .id id }
  | op => loadW c d op

def load (d : Option MDir) (op : COp) : Loaded :=
  match c.scope with
  | .wholeOp => loadW c d op
  | .splitAroundCopy => loadS c d op

end Programs

/-! ### threads and the shared state -/

inductive PC
  | idle                                    -- between two operations
  | locked (op : COp)                       -- Lock() has returned, the index is not loaded yet
  | crit (acts : List Act) (n : Next)       -- believes it holds the write lock; `acts` still to do
  | free (acts : List Act) (n : Next)       -- holds no lock; `acts` still to do (the unlocked copy)
  | returned (stored : Option Nat)          -- the store method has returned; the manager's `stored` event is due
  | rlocked (op : COp)                      -- RLock() has returned
  | rdone                                   -- the read is done, RUnlock is due
  deriving DecidableEq, Repr

structure Thr where
  todo : List COp
  pc : PC
  deriving DecidableEq, Repr

structure St where
  dir : Option MDir                         -- the mailbox directory
  writer : Option Nat                       -- the sync.RWMutex: who holds it for writing
  readers : List Nat                        -- … and who for reading
  events : List (Nat × Ev)                  -- the emission sequence (with the emitting thread)
  log : List (Nat × COp × Res)              -- ghost: (thread, operation, answer) in the order of the index loads
  failed : Nat                              -- ghost: system calls that could not succeed
  thr : Nat → Thr

def setThr (s : St) (t : Nat) (x : Thr) : St := { s with thr := fun u => if u = t then x else s.thr u }

/-- one move of an operation, made by thread `t` against the shared state -/
def applyAct (s : St) (t : Nat) : Act → St
  | .fs st => { s with dir := applyDir s.dir st, failed := if okDir s.dir st then s.failed else s.failed + 1 }
  | .emit id => { s with events := s.events ++ [(t, .deleted id)] }

/-- the RWMutex lets a writer in -/
def lockFree (s : St) : Prop := s.writer = none ∧ s.readers = []

instance (s : St) : Decidable (lockFree s) := by unfold lockFree; infer_instance

/-- the interleaving semantics: `Step c s s'` — some thread makes its next move -/
inductive Step (c : Cfg) : St → St → Prop
  | lock (t : Nat) (op : COp) (rest : List COp) {s : St} :
      s.thr t = ⟨op :: rest, .idle⟩ → op.isRead = false → lockFree s →
      Step c s (setThr { s with writer := some t } t ⟨rest, .locked op⟩)
  | load (t : Nat) (op : COp) (todo : List COp) {s : St} :
      s.thr t = ⟨todo, .locked op⟩ →
      Step c s (setThr { s with log := s.log ++ [(t, op, (load c s.dir op).res)] } t
        ⟨todo, .crit (load c s.dir op).acts (load c s.dir op).next⟩)
  | act (t : Nat) (a : Act) (as : List Act) (n : Next) (todo : List COp) {s : St} :
      s.thr t = ⟨todo, .crit (a :: as) n⟩ →
      Step c s (setThr (applyAct s t a) t ⟨todo, .crit as n⟩)
  | unlockRet (t : Nat) (st : Option Nat) (todo : List COp) {s : St} :
      s.thr t = ⟨todo, .crit [] (.ret st)⟩ →
      Step c s (setThr { s with writer := none } t ⟨todo, .returned st⟩)
  | unlockCopy (t : Nat) (id : Nat) (src : Bytes) (stale : List FEnt) (todo : List COp) {s : St} :
      s.thr t = ⟨todo, .crit [] (.copy id src stale)⟩ →
      Step c s (setThr { s with writer := none } t ⟨todo, .free (copyA c id src) (.append id stale)⟩)
  | freeAct (t : Nat) (a : Act) (as : List Act) (n : Next) (todo : List COp) {s : St} :
      s.thr t = ⟨todo, .free (a :: as) n⟩ →
      Step c s (setThr (applyAct s t a) t ⟨todo, .free as n⟩)
  | relock (t : Nat) (id : Nat) (stale : List FEnt) (todo : List COp) {s : St} :
      s.thr t = ⟨todo, .free [] (.append id stale)⟩ → lockFree s →
      Step c s (setThr { s with writer := some t } t
        ⟨todo, .crit (fsA (writeIndexP c.C Variant.safe c.ch c.b s.dir stale)) (.ret (some id))⟩)
  | stored (t : Nat) (st : Option Nat) (todo : List COp) {s : St} :
      s.thr t = ⟨todo, .returned st⟩ →
      Step c s (setThr { s with events := s.events ++ st.toList.map (fun i => (t, .stored i)) } t ⟨todo, .idle⟩)
  | rlock (t : Nat) (op : COp) (rest : List COp) {s : St} :
      s.thr t = ⟨op :: rest, .idle⟩ → op.isRead = true → s.writer = none →
      Step c s (setThr { s with readers := t :: s.readers } t ⟨rest, .rlocked op⟩)
  | rload (t : Nat) (op : COp) (todo : List COp) {s : St} :
      s.thr t = ⟨todo, .rlocked op⟩ →
      Step c s (setThr { s with log := s.log ++ [(t, op, (load c s.dir op).res)] } t ⟨todo, .rdone⟩)
  | runlock (t : Nat) (todo : List COp) {s : St} :
      s.thr t = ⟨todo, .rdone⟩ →
      Step c s (setThr { s with readers := s.readers.erase t } t ⟨todo, .idle⟩)

/-- nothing has happened yet: mailbox directory `d0`, lock free, every thread between operations with its program -/
def Init (d0 : Option MDir) (s : St) : Prop :=
  s.dir = d0 ∧ s.writer = none ∧ s.readers = [] ∧ s.events = [] ∧ s.log = [] ∧ s.failed = 0 ∧ ∀ t, (s.thr t).pc = .idle

inductive Reach (c : Cfg) (d0 : Option MDir) : St → Prop
  | init {s : St} : Init d0 s → Reach c d0 s
  | step {s s' : St} : Reach c d0 s → Step c s s' → Reach c d0 s'

/-- nobody is inside an operation (in particular: every program may have run to its end) -/
def Quiescent (s : St) : Prop := ∀ t, (s.thr t).pc = .idle

/-- every thread has finished its program -/
def Finished (s : St) : Prop := ∀ t, s.thr t = ⟨[], .idle⟩

/-! ### the same semantics as a function: thread `t` makes its next move (none = `t` cannot move now) -/

def stepFn (c : Cfg) (s : St) (t : Nat) : Option St :=
  match s.thr t with
  | ⟨op :: rest, .idle⟩ =>
    if op.isRead then
      if s.writer = none then some (setThr { s with readers := t :: s.readers } t ⟨rest, .rlocked op⟩) else none
    else if lockFree s then some (setThr { s with writer := some t } t ⟨rest, .locked op⟩) else none
  | ⟨[], .idle⟩ => none
  | ⟨todo, .locked op⟩ =>
    some (setThr { s with log := s.log ++ [(t, op, (load c s.dir op).res)] } t
      ⟨todo, .crit (load c s.dir op).acts (load c s.dir op).next⟩)
  | ⟨todo, .crit (a :: as) n⟩ => some (setThr (applyAct s t a) t ⟨todo, .crit as n⟩)
  | ⟨todo, .crit [] (.ret st)⟩ => some (setThr { s with writer := none } t ⟨todo, .returned st⟩)
  | ⟨todo, .crit [] (.copy id src stale)⟩ =>
    some (setThr { s with writer := none } t ⟨todo, .free (copyA c id src) (.append id stale)⟩)
  | ⟨_, .crit [] (.append _ _)⟩ => none
  | ⟨todo, .free (a :: as) n⟩ => some (setThr (applyAct s t a) t ⟨todo, .free as n⟩)
  | ⟨todo, .free [] (.append id stale)⟩ =>
    if lockFree s then
      some (setThr { s with writer := some t } t
        ⟨todo, .crit (fsA (writeIndexP c.C Variant.safe c.ch c.b s.dir stale)) (.ret (some id))⟩)
    else none
  | ⟨_, .free [] _⟩ => none
  | ⟨todo, .returned st⟩ =>
    some (setThr { s with events := s.events ++ st.toList.map (fun i => (t, .stored i)) } t ⟨todo, .idle⟩)
  | ⟨todo, .rlocked op⟩ => some (setThr { s with log := s.log ++ [(t, op, (load c s.dir op).res)] } t ⟨todo, .rdone⟩)
  | ⟨todo, .rdone⟩ => some (setThr { s with readers := s.readers.erase t } t ⟨todo, .idle⟩)

/-- a schedule: the threads that move, in order; a thread that cannot move when its turn comes is a schedule the run rejects -/
def runSched (c : Cfg) : St → List Nat → Option St
  | s, [] => some s
  | s, t :: ts =>
    match stepFn c s t with
    | some s' => runSched c s' ts
    | none => none

/-- the start state for the given client programs (thread i runs `progs[i]`) on mailbox directory `d0` -/
def start (d0 : Option MDir) (progs : List (List COp)) : St :=
  { dir := d0, writer := none, readers := [], events := [], log := [], failed := 0,
    thr := fun t => ⟨progs.getD t [], .idle⟩ }

/-! ### the sequential meaning of a history -/

/-- directory and `deleted` events -/
abbrev Seq := Option MDir × List Nat

def runAct (q : Seq) : Act → Seq
  | .fs st => (applyDir q.1 st, q.2)
  | .emit id => (q.1, q.2 ++ [id])

def runActs (q : Seq) (l : List Act) : Seq := l.foldl runAct q

/-- one operation run alone, from start to end -/
def seqStep (c : Cfg) (q : Seq) (op : COp) : Seq := runActs q (loadW c q.1 op).acts

def seqRun (c : Cfg) (q : Seq) (ops : List COp) : Seq := ops.foldl (seqStep c) q

/-- the answers of a history run sequentially -/
def seqRes (c : Cfg) : Seq → List COp → List Res
  | _, [] => []
  | q, op :: ops => (loadW c q.1 op).res :: seqRes c (seqStep c q op) ops

/-- the `deleted` events of an emission sequence -/
def dels : List (Nat × Ev) → List Nat
  | [] => []
  | (_, .deleted id) :: l => id :: dels l
  | (_, .stored _) :: l => dels l

/-- the `stored` events thread `t` emitted -/
def storedBy (t : Nat) : List (Nat × Ev) → List Nat
  | [] => []
  | (u, .stored id) :: l => if u = t then id :: storedBy t l else storedBy t l
  | (_, .deleted _) :: l => storedBy t l

/-- what the state shows of the sequential components -/
def cur (s : St) : Seq := (s.dir, dels s.events)

def logOps (s : St) : List COp := s.log.map (·.2.1)
def logRes (s : St) : List Res := s.log.map (·.2.2)

end Ibx.Model.ConcFileOps
