/-
  ConcFile — the file store's VisitMailboxes racing with mutations (pkg/storage/file/fstore.go, mbox.go).

  Every other operation of the file store runs from start to end under its bucket lock (T1 fact
  `fileOpsHoldBucketLock`); the bucket is the first 12 bits of the mailbox hash, which is also the level-1
  directory (`fileBucketIsLevel1Dir`), so everything below one level-1 directory is guarded by one lock.
  VisitMailboxes is the exception: three UNLOCKED readdirs (root, level 1, level 2) and one locked read per
  mailbox.  Unlocked readdirs see the directory tree between the file-system calls of a mutator, so the
  mutators are modelled at that grain: while holding bucket lock d1 the environment may create / remove the
  level-1 directory, level-2 directories, mailbox directories and index files below d1, in any order that the
  file system allows (mkdir needs the parent, rmdir needs an empty directory).  `keep` marks mailboxes the
  environment never removes (used to state "a mailbox that exists during the whole visit is reported").

  Variant `fatal` = the original code (any readdir error aborts the walk), `tolerated` = ENOENT means
  "removed since its parent was listed: no mailboxes here".
-/
namespace Ibx.Model.ConcFile

inductive EnoentVar | tolerated | fatal
  deriving DecidableEq, Repr

structure Mb where
  d1 : Nat
  d2 : Nat
  h : Nat
  deriving DecidableEq, Repr

structure Fs where
  d1s : List Nat
  d2s : List (Nat × Nat)
  mbs : List Mb
  idx : List Mb            -- mailboxes whose index file exists (= non-empty mailboxes)

inductive VPC
  | start
  | l1 (rem1 : List Nat)
  | l2 (d1 : Nat) (rem2 : List Nat) (rem1 : List Nat)
  | l3 (d1 d2 : Nat) (rem3 : List Mb) (rem2 : List Nat) (rem1 : List Nat)
  | done
  | failed
  deriving DecidableEq, Repr

structure St where
  fs : Fs
  wl : List Nat                   -- bucket locks held (for writing) by mutators
  vpc : VPC
  reported : List (Mb × Bool)     -- callback invocations: mailbox, "has messages"

def onFail (v : EnoentVar) (cont : VPC) : VPC := if v = .tolerated then cont else .failed

inductive Step (v : EnoentVar) (keep : Mb → Bool) : St → St → Prop
  -- the visitor
  | vRoot {s : St} : s.vpc = .start → Step v keep s { s with vpc := .l1 s.fs.d1s }
  | vL1done {s : St} : s.vpc = .l1 [] → Step v keep s { s with vpc := .done }
  | vL1ok (a : Nat) (r : List Nat) {s : St} : s.vpc = .l1 (a :: r) → a ∈ s.fs.d1s →
      Step v keep s { s with vpc := .l2 a ((s.fs.d2s.filter (·.1 == a)).map (·.2)) r }
  | vL1enoent (a : Nat) (r : List Nat) {s : St} : s.vpc = .l1 (a :: r) → a ∉ s.fs.d1s →
      Step v keep s { s with vpc := onFail v (.l1 r) }
  | vL2done (d1 : Nat) (r1 : List Nat) {s : St} : s.vpc = .l2 d1 [] r1 → Step v keep s { s with vpc := .l1 r1 }
  | vL2ok (d1 b : Nat) (r2 r1 : List Nat) {s : St} : s.vpc = .l2 d1 (b :: r2) r1 → (d1, b) ∈ s.fs.d2s →
      Step v keep s { s with vpc := .l3 d1 b (s.fs.mbs.filter (fun m => m.d1 == d1 && m.d2 == b)) r2 r1 }
  | vL2enoent (d1 b : Nat) (r2 r1 : List Nat) {s : St} : s.vpc = .l2 d1 (b :: r2) r1 → (d1, b) ∉ s.fs.d2s →
      Step v keep s { s with vpc := onFail v (.l2 d1 r2 r1) }
  | vL3done (d1 d2 : Nat) (r2 r1 : List Nat) {s : St} : s.vpc = .l3 d1 d2 [] r2 r1 →
      Step v keep s { s with vpc := .l2 d1 r2 r1 }
  | vRead (d1 d2 : Nat) (m : Mb) (r3 : List Mb) (r2 r1 : List Nat) {s : St} : s.vpc = .l3 d1 d2 (m :: r3) r2 r1 →
      m.d1 ∉ s.wl →
      Step v keep s { s with vpc := .l3 d1 d2 r3 r2 r1, reported := s.reported ++ [(m, decide (m ∈ s.fs.idx))] }
  -- mutators (any number of threads, each inside an operation holding its bucket lock)
  | eLock (d : Nat) {s : St} : d ∉ s.wl → Step v keep s { s with wl := d :: s.wl }
  | eUnlock (d : Nat) {s : St} : d ∈ s.wl → Step v keep s { s with wl := s.wl.erase d }
  | eMkD1 (d : Nat) {s : St} : d ∈ s.wl → d ∉ s.fs.d1s → Step v keep s { s with fs := { s.fs with d1s := d :: s.fs.d1s } }
  | eMkD2 (d b : Nat) {s : St} : d ∈ s.wl → d ∈ s.fs.d1s → (d, b) ∉ s.fs.d2s →
      Step v keep s { s with fs := { s.fs with d2s := (d, b) :: s.fs.d2s } }
  | eMkMb (m : Mb) {s : St} : m.d1 ∈ s.wl → (m.d1, m.d2) ∈ s.fs.d2s → m ∉ s.fs.mbs →
      Step v keep s { s with fs := { s.fs with mbs := m :: s.fs.mbs } }
  | eWriteIdx (m : Mb) {s : St} : m.d1 ∈ s.wl → m ∈ s.fs.mbs → m ∉ s.fs.idx →
      Step v keep s { s with fs := { s.fs with idx := m :: s.fs.idx } }
  | eRmIdx (m : Mb) {s : St} : m.d1 ∈ s.wl → keep m = false →
      Step v keep s { s with fs := { s.fs with idx := s.fs.idx.filter (· != m) } }
  | eRmMb (m : Mb) {s : St} : m.d1 ∈ s.wl → keep m = false →
      Step v keep s { s with fs := { s.fs with mbs := s.fs.mbs.filter (· != m), idx := s.fs.idx.filter (· != m) } }
  | eRmD2 (d b : Nat) {s : St} : d ∈ s.wl → (∀ m ∈ s.fs.mbs, ¬ (m.d1 = d ∧ m.d2 = b)) →
      Step v keep s { s with fs := { s.fs with d2s := s.fs.d2s.filter (· != (d, b)) } }
  | eRmD1 (d : Nat) {s : St} : d ∈ s.wl → (∀ p ∈ s.fs.d2s, p.1 ≠ d) →
      Step v keep s { s with fs := { s.fs with d1s := s.fs.d1s.filter (· != d) } }

def start (fs : Fs) : St := { fs := fs, wl := [], vpc := .start, reported := [] }

inductive Reach (v : EnoentVar) (keep : Mb → Bool) (fs : Fs) : St → Prop
  | init : Reach v keep fs (start fs)
  | step {s s' : St} : Reach v keep fs s → Step v keep s s' → Reach v keep fs s'

/-- the tree is well formed: no duplicate entries, every directory has its parent, a mailbox sits under the
    directories its hash prescribes -/
structure Fs.WF (fs : Fs) : Prop where
  nd1 : fs.d1s.Nodup
  nd2 : fs.d2s.Nodup
  nd3 : fs.mbs.Nodup
  p2 : ∀ p ∈ fs.d2s, p.1 ∈ fs.d1s
  p3 : ∀ m ∈ fs.mbs, (m.d1, m.d2) ∈ fs.d2s
  pi : ∀ m ∈ fs.idx, m ∈ fs.mbs

end Ibx.Model.ConcFile
