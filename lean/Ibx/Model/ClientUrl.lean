import Ibx.Bytes
/-
  Model.ClientUrl — the LOGIC between a call of pkg/rest/client and the handler the server runs:

    client   uri   = "/api/v1/mailbox/" + url.QueryEscape(name) [+ "/" + id [+ "/source"]]        (apiv1_client.go)
             wire  = baseURL.JoinPath(uri)  = path.Clean(base + "/" + uri) (+ "/" if uri ends in one)   (rest.go, net/url)
    server   path  = one percent-decode of the request path (net/http, url.ParseRequestURI: URL.Path)
             mux   : cleanPath(path) ≠ path → 301;  otherwise the first route whose template matches the
                     '/'-separated segments of `path` (a `{var}` is the regexp `[^/]+` = one non-empty segment)
                     and whose method matches; nothing → 404 (also when only the method differs: observed on the
                     real router — the sub-routers carry no MethodNotAllowedHandler — and checked by T2).
  Route templates are those of pkg/rest/routes.go and pkg/webui/routes.go under the prefixes of
  pkg/server/lifecycle.go (tied by Ibx/Tie/Rest.lean to the regenerated table).
-/
namespace Ibx.Model.ClientUrl
open Ibx Ibx.Bytes

/-! ### escaping (net/url) -/

/-- RFC 3986 unreserved: the bytes `shouldEscape(c, encodeQueryComponent)` lets through -/
def isUnreservedB (c : Nat) : Bool :=
  isAlphaB c || isDigitB c || c == 45 || c == 95 || c == 46 || c == 126

/-- `"0123456789ABCDEF"[n]` -/
def upperHex (n : Nat) : Nat := if n < 10 then 48 + n else 55 + n

def pct (c : Nat) : Bytes := [37, upperHex (c / 16), upperHex (c % 16)]

/-- url.QueryEscape, per byte: unreserved kept, space becomes '+', everything else %XX -/
def qEscByte (c : Nat) : Bytes :=
  if isUnreservedB c then [c] else if c == 32 then [43] else pct c

def queryEscape (s : Bytes) : Bytes := s.flatMap qEscByte

/-- bytes url.PathEscape keeps in addition to the unreserved ones: dollar amp plus equals colon at -/
def isPathSegKeepB (c : Nat) : Bool :=
  isUnreservedB c || c == 36 || c == 38 || c == 43 || c == 61 || c == 58 || c == 64

/-- url.PathEscape (RFC 3986 path-segment escaping), per byte -/
def pEscByte (c : Nat) : Bytes := if isPathSegKeepB c then [c] else pct c

def pathEscape (s : Bytes) : Bytes := s.flatMap pEscByte

/-- net/url `unhex` (both cases) -/
def hexValB (c : Nat) : Option Nat :=
  if 48 ≤ c ∧ c ≤ 57 then some (c - 48)
  else if 97 ≤ c ∧ c ≤ 102 then some (c - 87)
  else if 65 ≤ c ∧ c ≤ 70 then some (c - 55)
  else none

/-- scanner state of `unescape`: plain text, after '%', after '%' and one hex digit -/
inductive USt | plain | p1 | p2 (hi : Nat)

def unescGo : USt → Bytes → Option Bytes
  | .plain, [] => some []
  | _, [] => none
  | .plain, c :: r => if c == 37 then unescGo .p1 r else (unescGo .plain r).map (fun t => c :: t)
  | .p1, c :: r => match hexValB c with | some x => unescGo (.p2 x) r | none => none
  | .p2 x, c :: r => match hexValB c with | some y => (unescGo .plain r).map (fun t => (x * 16 + y) :: t) | none => none

/-- net/url `unescape(s, encodePath)`: every %XX decoded once, '+' untouched; `none` = EscapeError -/
def unescape (s : Bytes) : Option Bytes := unescGo .plain s

/-! ### paths as segment lists -/

/-- strings.Split(s, "/") -/
def splitSlash : Bytes → List Bytes
  | [] => [[]]
  | c :: rest =>
    if c == 47 then [] :: splitSlash rest
    else
      match splitSlash rest with
      | seg :: more => (c :: seg) :: more
      | [] => [[c]]

/-- "/" ++ s₁ ++ "/" ++ s₂ … -/
def render (segs : List Bytes) : Bytes := segs.flatMap (fun s => 47 :: s)

def dot : Bytes := [46]
def dotdot : Bytes := [46, 46]

/-- the segment stack of path.Clean on a ROOTED path: "" and "." dropped, ".." pops (and is dropped at the root) -/
def cleanGo : List Bytes → List Bytes → List Bytes
  | st, [] => st.reverse
  | st, s :: rest =>
    if s == [] || s == dot then cleanGo st rest
    else if s == dotdot then cleanGo st.tail rest
    else cleanGo (s :: st) rest

/-- path.Clean for a rooted path -/
def pathClean (p : Bytes) : Bytes :=
  match cleanGo [] (splitSlash p) with
  | [] => [47]
  | segs => render segs

/-- gorilla/mux cleanPath: path.Clean, trailing slash put back -/
def muxCleanPath (p : Bytes) : Bytes :=
  let p := if p.head? == some 47 then p else 47 :: p
  let np := pathClean p
  if p.getLast? == some 47 && np != [47] then np ++ [47] else np

/-! ### the client -/

def sApi : Bytes := [97, 112, 105]
def sServe : Bytes := [115, 101, 114, 118, 101]
def sV1 : Bytes := [118, 49]
def sV2 : Bytes := [118, 50]
def sMailbox : Bytes := [109, 97, 105, 108, 98, 111, 120]
def sSource : Bytes := [115, 111, 117, 114, 99, 101]
def sHtml : Bytes := [104, 116, 109, 108]
def sAttach : Bytes := [97, 116, 116, 97, 99, 104]
def sMonitor : Bytes := [109, 111, 110, 105, 116, 111, 114]
def sMessages : Bytes := [109, 101, 115, 115, 97, 103, 101, 115]
def sGreeting : Bytes := [103, 114, 101, 101, 116, 105, 110, 103]
def sStatus : Bytes := [115, 116, 97, 116, 117, 115]

/-- "/api/v1/mailbox/" -/
def uriPrefix : Bytes := 47 :: sApi ++ 47 :: sV1 ++ 47 :: sMailbox ++ [47]

/-- the three URI shapes of apiv1_client.go -/
inductive Shape | box | msg | source
  deriving DecidableEq, Repr

def clientUri (sh : Shape) (name id : Bytes) : Bytes :=
  match sh with
  | .box => uriPrefix ++ queryEscape name
  | .msg => uriPrefix ++ queryEscape name ++ 47 :: id
  | .source => uriPrefix ++ queryEscape name ++ 47 :: id ++ 47 :: sSource

/-- `baseURL.JoinPath(uri)`: the escaped path that goes on the wire.  `base` = the segments of the base URL's
    path (empty for "http://host" and "http://host/"). -/
def joinPath (base : List Bytes) (uri : Bytes) : Bytes :=
  let b := if base.isEmpty then [47] else render base
  let p := pathClean (b ++ 47 :: uri)
  if uri.getLast? == some 47 && p.getLast? != some 47 then p ++ [47] else p

/-- the path of the request the client sends; `none`: the joined path is not a valid escaping, http.NewRequest fails -/
def clientWire (base : List Bytes) (sh : Shape) (name id : Bytes) : Option Bytes :=
  let p := joinPath base (clientUri sh name id)
  if (unescape p).isSome then some p else none

/-! ### the server's router -/

inductive Method | get | delete | patch | other
  deriving DecidableEq, Repr

inductive Handler
  | listV1 | purgeV1 | showV1 | seenV1 | deleteV1 | sourceV1
  | wMessage | wHtml | wSource | wAttach
  | monAllV1 | monBoxV1 | monAllV2 | monBoxV2 | greeting | status
  deriving DecidableEq, Repr

inductive TSeg | lit (b : Bytes) | var
  deriving DecidableEq, Repr

structure Route where
  h : Handler
  m : Method
  sub : Bytes            -- "serve" or "api": the sub-router prefix of lifecycle.go
  tpl : List TSeg        -- template below the prefix
  deriving Repr

open TSeg in
/-- routes in REGISTRATION order (webui sub-router first, then rest), as FullAssembly builds them -/
def routeTable : List Route := [
  ⟨.greeting, .get, sServe, [lit sGreeting]⟩,
  ⟨.status, .get, sServe, [lit sStatus]⟩,
  ⟨.wMessage, .get, sServe, [lit sMailbox, var, var]⟩,
  ⟨.wHtml, .get, sServe, [lit sMailbox, var, var, lit sHtml]⟩,
  ⟨.wSource, .get, sServe, [lit sMailbox, var, var, lit sSource]⟩,
  ⟨.wAttach, .get, sServe, [lit sMailbox, var, var, lit sAttach, var, var]⟩,
  ⟨.listV1, .get, sApi, [lit sV1, lit sMailbox, var]⟩,
  ⟨.purgeV1, .delete, sApi, [lit sV1, lit sMailbox, var]⟩,
  ⟨.showV1, .get, sApi, [lit sV1, lit sMailbox, var, var]⟩,
  ⟨.seenV1, .patch, sApi, [lit sV1, lit sMailbox, var, var]⟩,
  ⟨.deleteV1, .delete, sApi, [lit sV1, lit sMailbox, var, var]⟩,
  ⟨.sourceV1, .get, sApi, [lit sV1, lit sMailbox, var, var, lit sSource]⟩,
  ⟨.monAllV1, .get, sApi, [lit sV1, lit sMonitor, lit sMessages]⟩,
  ⟨.monBoxV1, .get, sApi, [lit sV1, lit sMonitor, lit sMessages, var]⟩,
  ⟨.monAllV2, .get, sApi, [lit sV2, lit sMonitor, lit sMessages]⟩,
  ⟨.monBoxV2, .get, sApi, [lit sV2, lit sMonitor, lit sMessages, var]⟩ ]

/-- anchored match of a template against path segments; the variables in order -/
def matchTpl : List TSeg → List Bytes → Option (List Bytes)
  | [], [] => some []
  | .lit b :: t, s :: segs => if s == b then matchTpl t segs else none
  | .var :: t, s :: segs => if s.isEmpty then none else (matchTpl t segs).map (fun vs => s :: vs)
  | _, _ => none

/-- strip the configured base path -/
def stripBase : List Bytes → List Bytes → Option (List Bytes)
  | [], segs => some segs
  | b :: bs, s :: segs => if s == b then stripBase bs segs else none
  | _ :: _, [] => none

def matchRoute (r : Route) (segs : List Bytes) : Option (List Bytes) :=
  matchTpl (.lit r.sub :: r.tpl) segs

inductive RouteRes
  | badRequest                                   -- 400: invalid percent-escape in the request line
  | redirect                                     -- 301: mux path cleaning
  | notFound                                     -- 404: no route
  | hit (h : Handler) (vars : List Bytes)
  deriving DecidableEq, Repr

/-- first route (registration order) matching path and method -/
def firstHit (m : Method) (segs : List Bytes) : List Route → Option (Handler × List Bytes)
  | [] => none
  | r :: rs =>
    match matchRoute r segs with
    | some vs => if r.m == m then some (r.h, vs) else firstHit m segs rs
    | none => firstHit m segs rs

/-- what the server does with a request path as it appears on the wire -/
def serverRoute (base : List Bytes) (m : Method) (wire : Bytes) : RouteRes :=
  match unescape wire with
  | none => .badRequest
  | some p =>
    if muxCleanPath p != p then .redirect
    else
      match splitSlash p with
      | [] :: segs =>
        match stripBase base segs with
        | none => .notFound
        | some segs =>
          match firstHit m segs routeTable with
          | some (h, vs) => .hit h vs
          | none => .notFound
      | _ => .notFound

/-- method and URI shape of each client operation -/
inductive ClientOp | list | get | markSeen | source | delete | purge
  deriving DecidableEq, Repr

def ClientOp.method : ClientOp → Method
  | .list | .get | .source => .get
  | .markSeen => .patch
  | .delete | .purge => .delete

def ClientOp.shape : ClientOp → Shape
  | .list | .purge => .box
  | .get | .markSeen | .delete => .msg
  | .source => .source

/-- the handler a client operation is meant to reach -/
def ClientOp.handler : ClientOp → Handler
  | .list => .listV1 | .get => .showV1 | .markSeen => .seenV1
  | .source => .sourceV1 | .delete => .deleteV1 | .purge => .purgeV1

/-- the variables it is meant to hand over -/
def ClientOp.vars (op : ClientOp) (name id : Bytes) : List Bytes :=
  match op.shape with
  | .box => [name]
  | _ => [name, id]

/-- client call → what the server's router does with it (`none`: no request was sent) -/
def clientRoute (base : List Bytes) (op : ClientOp) (name id : Bytes) : Option RouteRes :=
  (clientWire base op.shape name id).map (serverRoute base op.method)

end Ibx.Model.ClientUrl
