import Ibx.Bytes
/-
  Model of Go's `net.ParseIP` as shipped with go1.23 (src/net/ip.go, src/net/netip/netip.go):

    net.ParseIP(s)      = parseIP(s); nil unless valid, else the 16-byte form
    net.parseIP(s)      = netip.ParseAddr(s); rejected on error OR when the address carries a zone; As16()
    netip.ParseAddr(s)  = dispatch on the FIRST of '.', ':', '%' met in s:
                          '.' -> parseIPv4(s), ':' -> parseIPv6(s), '%' -> error; none of them -> error
    netip.parseIPv4Fields, netip.parseIPv6  — the two loops, modelled statement by statement below.

  What the code does, not what an RFC says: e.g. "1:2:3:4:5:6:7::" parses, "::1:2:3:4:5:6:7:8" does not ("the ::
  must expand to at least one field"), "0:0:0:0:0:0:0:0:" fails at the lone trailing colon, a zone makes
  net.ParseIP fail AFTER the address itself was parsed, an embedded IPv4 tail is re-read from the start of the
  group that ended in '.', digits only, no leading zeros.

  Core Lean only, total, executable (linked into the driver; op `parseip` of mode `pure`).
-/
namespace Ibx.Model.ParseIP
open Ibx Ibx.Bytes

/-- `c` is one of 0-9 a-f A-F -/
def isHexB (c : Nat) : Bool := isDigitB c || (97 ≤ c && c ≤ 102) || (65 ≤ c && c ≤ 70)

/-- value of a hex digit (the three branches of the scan in `parseIPv6`) -/
def hexValB (c : Nat) : Nat :=
  if isDigitB c then c - 48 else if 97 ≤ c && c ≤ 102 then c - 87 else c - 55

/-! ### netip.parseIPv4Fields -/

/-- the local variables of `parseIPv4Fields`: `val`, `digLen`, `pos`, the previous byte `s[i-1]` (`none` when
    `i == 0`) and the fields written so far -/
structure V4St where
  val : Nat := 0
  digLen : Nat := 0
  pos : Nat := 0
  prev : Option Nat := none
  fields : List Nat := []

/-- the `for` loop of `parseIPv4Fields` over the rest of the string; `none` = any of its errors -/
def v4Loop : Bytes → V4St → Option (List Nat)
  | [], st => if st.pos < 3 then none else some (st.fields ++ [st.val])
  | c :: rest, st =>
    if isDigitB c then
      if st.digLen == 1 && st.val == 0 then none                       -- octet with leading zero
      else
        let val := st.val * 10 + (c - 48)
        if val > 255 then none                                          -- value > 255
        else v4Loop rest { st with val := val, digLen := st.digLen + 1, prev := some c }
    else if c == 46 then
      -- i == 0 || i == len(s)-1 || s[i-1] == '.'
      if st.prev == none || rest.isEmpty || st.prev == some 46 then none
      else if st.pos == 3 then none                                      -- too long
      else v4Loop rest { val := 0, digLen := 0, pos := st.pos + 1, prev := some c,
                         fields := st.fields ++ [st.val] }
    else none                                                            -- unexpected character

/-- `parseIPv4Fields(in, off, end, fields)` on `s = in[off:end]`: the four octets -/
def parseIPv4Fields (s : Bytes) : Option (List Nat) := v4Loop s {}

/-! ### netip.parseIPv6 -/

/-- the inner scan of one group: `some (off, acc, rest)` = number of hex digits read, their value, what follows;
    `none` when a fifth hex digit is met (`off > 3`) or the value leaves 16 bits (unreachable after the first test,
    kept because the code has it) -/
def hexScan : Bytes → Nat → Nat → Option (Nat × Nat × Bytes)
  | [], off, acc => some (off, acc, [])
  | c :: r, off, acc =>
    if isHexB c then
      let acc := acc * 16 + hexValB c
      if off > 3 then none
      else if acc > 65535 then none
      else hexScan r (off + 1) acc
    else some (off, acc, c :: r)

/-- what the loop body does with the text after a group -/
inductive Sep where
  | err
  | stop (ellipsis : Option Nat)              -- `break`
  | next (s : Bytes) (ellipsis : Option Nat)  -- next iteration
  deriving Repr, DecidableEq

/-- after a group, `i` already advanced: end of string, or ':' and more, or "::" (once; may end the string) -/
def sepStep (rest : Bytes) (i : Nat) (ell : Option Nat) : Sep :=
  match rest with
  | [] => .stop ell
  | c :: r1 =>
    if c != 58 then .err                               -- unexpected character, want colon
    else
      match r1 with
      | [] => .err                                     -- colon must be followed by more characters
      | c1 :: r2 =>
        if c1 == 58 then
          if ell.isSome then .err                      -- multiple ::
          else if r2.isEmpty then .stop (some i)       -- "::" can be at the end
          else .next r2 (some i)
        else .next r1 ell

/-- state in which the `for i < 16` loop is left -/
structure V6Out where
  rest : Bytes
  i : Nat
  ip : List Nat
  ellipsis : Option Nat
  deriving Repr, DecidableEq

/-- the loop `for i < 16 { … }`.  `i` only takes the values 0, 2, …, 16 (each iteration adds 2, or adds 4 and
    breaks), so the recursion is on `left = (16 - i) / 2`; `ip` holds the bytes `ip[0:i]` written so far. -/
def v6Loop : Nat → Bytes → List Nat → Option Nat → Option V6Out
  | 0, s, ip, ell => some ⟨s, 16, ip, ell⟩
  | left + 1, s, ip, ell =>
    let i := 16 - 2 * (left + 1)
    match hexScan s 0 0 with
    | none => none
    | some (off, acc, rest) =>
      if off == 0 then none                             -- each field must have at least one digit
      else if rest.head? == some 46 then
        -- embedded IPv4: must replace the final 2 fields, must fit
        if ell.isNone && i != 12 then none
        else if i + 4 > 16 then none
        else
          match parseIPv4Fields s with
          | none => none
          | some f => some ⟨[], i + 4, ip ++ f, ell⟩
      else
        let ip' := ip ++ [acc / 256, acc % 256]
        match sepStep rest (i + 2) ell with
        | .err => none
        | .stop ell' => some ⟨[], i + 2, ip', ell'⟩
        | .next s' ell' => v6Loop left s' ip' ell'

/-- the code after the loop: trailing garbage; too short without "::"; expansion of "::"; "::" with all 8 groups -/
def v6Finish (o : V6Out) : Option (List Nat) :=
  if !o.rest.isEmpty then none
  else if o.i < 16 then
    match o.ellipsis with
    | none => none
    | some e => some (o.ip.take e ++ List.replicate (16 - o.i) 0 ++ o.ip.drop e)
  else if o.ellipsis.isSome then none
  else some o.ip

/-- a parsed `netip.Addr`: 4 or 16 bytes and the zone -/
structure Addr where
  is4 : Bool
  bytes : List Nat
  zone : Bytes
  deriving Repr, DecidableEq

def notPct (c : Nat) : Bool := c != 37

/-- `len(s) >= 2 && s[0] == ':' && s[1] == ':'`: the text after the leading "::" -/
def stripDC : Bytes → Option Bytes
  | c0 :: c1 :: r => if c0 == 58 && c1 == 58 then some r else none
  | _ => none

/-- loop and the code after it -/
def v6Body (s : Bytes) (ell : Option Nat) : Option (List Nat) :=
  match v6Loop 8 s [] ell with
  | none => none
  | some o => v6Finish o

def parseIPv6 (inp : Bytes) : Option Addr :=
  let s := inp.takeWhile notPct
  let z := inp.dropWhile notPct           -- [] when there is no '%', else '%' :: zone
  if !z.isEmpty && z.tail.isEmpty then none                     -- zone must be a non-empty string
  else
    let zone := z.tail
    match stripDC s with
    | some s' =>
      if s'.isEmpty then some ⟨false, List.replicate 16 0, zone⟩   -- "::" alone: IPv6Unspecified().WithZone(zone)
      else (v6Body s' (some 0)).map (fun b => ⟨false, b, zone⟩)
    | none => (v6Body s none).map (fun b => ⟨false, b, zone⟩)

def isSepB (c : Nat) : Bool := c == 46 || c == 58 || c == 37

/-- the first of '.', ':', '%' in `s` (0 when there is none): what `ParseAddr` dispatches on -/
def firstSep : Bytes → Nat
  | [] => 0
  | c :: r => if isSepB c then c else firstSep r

/-- `netip.ParseAddr` -/
def parseAddr (s : Bytes) : Option Addr :=
  let k := firstSep s
  if k == 46 then (parseIPv4Fields s).map (fun f => ⟨true, f, []⟩)
  else if k == 58 then parseIPv6 s
  else none                                -- '%' first: "missing IPv6 address"; none of the three: "unable to parse IP"

/-- `Addr.As16`: an IPv4 address becomes ::ffff:a.b.c.d -/
def as16 (a : Addr) : List Nat :=
  if a.is4 then [0, 0, 0, 0, 0, 0, 0, 0, 0, 0, 255, 255] ++ a.bytes else a.bytes

/-- `net.ParseIP(s)`: the 16 bytes, `none` = nil -/
def parseIPv (s : Bytes) : Option (List Nat) :=
  match parseAddr s with
  | none => none
  | some a => if !a.zone.isEmpty then none else some (as16 a)

/-- `net.ParseIP(s) != nil` -/
def parseIP (s : Bytes) : Bool := (parseIPv s).isSome

end Ibx.Model.ParseIP
