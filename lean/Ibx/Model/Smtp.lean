import Ibx.Model.Line
import Ibx.Model.Dot
import Ibx.Model.Addr
import Ibx.Model.Policy
import Ibx.Spec.Store
/-
  Model of one SMTP session (pkg/server/smtp/handler.go) and of message.StoreManager.Deliver
  (pkg/message/manager.go), as a function of the raw input bytes.

  Parameters (not modelled, see DESIGN.md §9): enmime's header parsing (`hdr`), net.ParseIP (`ip`), the extension hooks, the clock
  (`tstamp`), strings.ToUpper beyond ASCII, the TLS library (`Wire.tlsOpen`).  `budget` = number of reply lines that can
  still be sent before the network send fails (`none` = the peer keeps reading): after a failed send the
  loop ends at its next head, exactly as `for ssn.state != QUIT && ssn.sendError == nil`.
  The two regular expressions of MAIL FROM parsing are still FIELDS of `Env` (`mailRe`, `parseArgs`) so that the session
  theorems hold for any pair of functions, but they are no longer left open: `Ibx.Model.MailArgs` holds the concrete
  recognisers (what Go's regexp engine returns for the two expressions), the driver instantiates the fields with them, and
  `Ibx.Props.C06Args` / `C03Args` are the theorems about sessions so instantiated.

  TLS.  `Env.tlsEnabled` is config.SMTP.TLSEnabled as NewServer leaves it (false when the key pair could not be loaded),
  `Env.forceTLS` is config.SMTP.ForceTLS, `Sess.tls` is `s.tlsState != nil`.  `run` sees the COMMAND STREAM of the
  connection: the bytes the session's textproto reader hands out, whether they arrived in the clear or inside TLS
  records.  An accepted STARTTLS ("220", then `tls.Server`, a NEW textproto.Conn, tlsState recorded, state GREET) is
  therefore one more transition of `handleLine`; what the switch does to the bytes on the wire — the old reader's
  buffer is thrown away, the next read runs the handshake — is `runWire` below.
-/
namespace Ibx.Model.Smtp
open Ibx Ibx.Bytes Ibx.Model

inductive St | greet | ready | login | password | mail | data | quit
  deriving DecidableEq, Repr

inductive Action | allow | deny | defer
  deriving DecidableEq, Repr

structure HookAns where
  action : Action
  code : Nat
  msg : Bytes
  deriving Repr

/-- what a BeforeMessageStored hook may return: the replaced inbound message -/
structure Inbound where
  mailboxes : List Bytes
  sender : Bytes
  rcpts : List Bytes
  subject : Bytes
  deriving DecidableEq, Repr

/-- result of enmime on the data block: `none` = DecodeHeaders failed -/
structure HdrInfo where
  sender : Option Bytes          -- first address of a parsable From header
  rcpts : Option (List Bytes)    -- addresses of the To header; none = parse error
  subject : Bytes
  deriving Repr

structure Env where
  naming : Addr.Naming
  pol : Policy.Cfg               -- after config.Process
  maxRcpt : Int
  maxBytes : Int
  domain : Bytes                 -- SMTP domain of the server (greeting, Received header)
  remoteHost : Bytes
  tstamp : Bytes
  ip : Bytes → Bool
  mailRe : Bytes → Option (Bytes × Bytes)            -- fromRegex: (address, params) or no match; concretely MailArgs.mailRe
  parseArgs : Bytes → Option (List (Bytes × Bytes))  -- ` (\w+)=(\w+|<>)` pairs, keys as written; concretely MailArgs.parseArgs
  hdr : Bytes → Option HdrInfo
  hookMail : Bytes → Option HookAns                  -- BeforeMailFromAccepted(from)
  hookRcpt : Option Bytes → List Bytes → Option HookAns  -- BeforeRcptToAccepted(from, to ++ [candidate])
  hookStored : Inbound → Option Inbound              -- BeforeMessageStored
  storeFails : Bytes → Bool                          -- AddMessage to this mailbox fails (I/O)
  tlsEnabled : Bool := false                         -- config.TLSEnabled after NewServer (key pair loaded)
  forceTLS : Bool := false                           -- config.ForceTLS: the listener is tls.Listen

structure Origin where
  addr : Bytes
  localPart : Bytes
  domain : Bytes
  deriving DecidableEq, Repr

structure Sess where
  st : St
  sender : Option Origin
  rcpts : List Addr.Recipient
  remoteDomain : Bytes
  sendErr : Bool
  budget : Option Nat
  tls : Bool := false            -- tlsState != nil
  deriving Repr

/-- one stored copy: Store.AddMessage(mailbox, meta, source) -/
structure Stored where
  mailbox : Bytes
  hdr : Spec.Store.Meta
  source : Bytes
  deriving DecidableEq, Repr

inductive Ev
  | reply (codes : List Nat)          -- one reply: all lines carry the same code; `codes.length` lines
  | hookReply (code : Nat) (msg : Bytes)
  | stored (s : Stored)               -- one AddMessage that succeeded (followed by the `stored` event)
  | deliverFailed
  deriving DecidableEq, Repr

def init (budget : Option Nat) : Sess :=
  { st := .greet, sender := none, rcpts := [], remoteDomain := [], sendErr := false, budget := budget }

/-- NewSession: under ForceTLS the accepted connection is a *tls.Conn and tlsState is recorded at once -/
def initFor (e : Env) (budget : Option Nat) : Sess := { init budget with tls := e.forceTLS }

/-- the EHLO reply advertises STARTTLS:
    `config.TLSEnabled && !config.ForceTLS && tlsConfig != nil && tlsState == nil` (tlsConfig is never nil) -/
def advertises (e : Env) (s : Sess) : Bool := e.tlsEnabled && !e.forceTLS && !s.tls

/-- number of lines of the EHLO reply: banner, 8BITMIME, AUTH, [STARTTLS,] SIZE -/
def ehloLines (e : Env) (s : Sess) : Nat := if advertises e s then 5 else 4

/-- STARTTLS in READY is accepted: neither of the two 454 exits is taken -/
def acceptsStartTLS (e : Env) (s : Sess) : Bool := e.tlsEnabled && !s.tls

/-- send one reply of `n` lines -/
def send (s : Sess) (n : Nat) : Sess :=
  match s.budget with
  | none => s
  | some b => if b ≥ n then { s with budget := some (b - n) } else { s with budget := some 0, sendErr := true }

def reset (s : Sess) : Sess :=
  { s with st := if s.st == .greet then .greet else .ready, sender := none, rcpts := [] }

def commandNames : List Bytes :=
  ["HELO", "EHLO", "MAIL", "RCPT", "DATA", "RSET", "SEND", "SOML", "SAML", "VRFY", "EXPN", "HELP",
   "NOOP", "QUIT", "TURN", "STARTTLS", "AUTH"].map Bytes.ofAscii

def notImplemented : List Bytes := ["SEND", "SOML", "SAML", "EXPN", "HELP", "TURN"].map Bytes.ofAscii

def trimSpaces (b : Bytes) : Bytes := ((b.dropWhile (· == 32)).reverse.dropWhile (· == 32)).reverse

def trimCut (cut : Nat → Bool) (b : Bytes) : Bytes := ((b.dropWhile cut).reverse.dropWhile cut).reverse

/-- strings.ToUpper as far as it can produce an ASCII command name: ASCII letters, and the two non-ASCII
    runes whose upper case is ASCII (U+017F long s -> S, U+0131 dotless i -> I).  Other non-ASCII input is
    mapped differently by Go, but never to ASCII, so it cannot make a command name match either way. -/
def goUpper : Bytes → Bytes
  | 197 :: 191 :: rest => 83 :: goUpper rest
  | 196 :: 177 :: rest => 73 :: goUpper rest
  | c :: rest => upperB c :: goUpper rest
  | [] => []

inductive Parsed
  | empty                       -- l == 0: "500 Speak up"
  | garbled                     -- l < 4
  | cmd (name arg : Bytes)
  deriving Repr, DecidableEq

def parseCmd (line : Bytes) : Parsed :=
  let t := Line.trimRightCRLF line
  let w := t.takeWhile (· != 32)
  let l := w.length
  if l == 0 then .empty
  else if l < 4 then .garbled
  else if l < t.length then .cmd (goUpper w) (trimSpaces (t.drop (l + 1)))
  else .cmd (goUpper t) []

/-- strconv.ParseInt(s, 10, 32) -/
def digitsVal : Bytes → Nat → Option Nat
  | [], acc => some acc
  | c :: rest, acc => if isDigitB c then digitsVal rest (acc * 10 + (c - 48)) else none

def parseInt32 (s : Bytes) : Option Int :=
  let (neg, ds) := match s with
    | 43 :: r => (false, r)
    | 45 :: r => (true, r)
    | r => (false, r)
  if ds.isEmpty then none
  else match digitsVal ds 0 with
    | none => none
    | some n =>
      if neg then (if n ≤ 2147483648 then some (-(n : Int)) else none)
      else (if n ≤ 2147483647 then some (n : Int) else none)

/-- args["SIZE"]: keys are upper-cased, a later pair overrides an earlier one -/
def sizeArg (pairs : List (Bytes × Bytes)) : Bytes :=
  match (pairs.reverse.find? (fun p => upper p.1 == Bytes.ofAscii "SIZE")) with
  | some p => p.2
  | none => []

def say (s : Sess) (code : Nat) (acc : List Ev) : Sess × List Ev := (send s 1, .reply [code] :: acc)

def mailFrom (e : Env) (s : Sess) (arg : Bytes) (acc : List Ev) : Sess × List Ev :=
  match e.mailRe arg with
  | none => say s 501 acc
  | some (addr, params) =>
    let sizeOk : Option Nat :=        -- none = fine, some code = refuse with that code
      if params.isEmpty then none
      else match e.parseArgs params with
        | none => some 501
        | some pairs =>
          let sz := sizeArg pairs
          if sz.isEmpty then none
          else match parseInt32 sz with
            | none => some 501
            | some n => if n > e.maxBytes then some 552 else none
    match sizeOk with
    | some code => say s code acc
    | none =>
      match Addr.parseOrigin e.ip addr with
      | none => say s 501 acc
      | some (l, d) =>
        let ans := e.hookMail addr
        let action := match ans with | some a => a.action | none => .defer
        if action == .deny then
          match ans with
          | some a => (send s 1, .hookReply a.code a.msg :: acc)
          | none => say s 501 acc       -- unreachable
        else
          let s1 := { s with sender := some { addr := addr, localPart := l, domain := d } }
          if action == .defer && !Policy.shouldAcceptOrigin e.pol d then say s1 501 acc
          else say { s1 with st := .mail } 250 acc

def rcptTo (e : Env) (s : Sess) (arg : Bytes) (acc : List Ev) : Sess × List Ev :=
  if arg.length < 4 || upper (arg.take 3) != Bytes.ofAscii "TO:" then say s 501 acc
  else
    let addr := trimCut (fun c => c == 60 || c == 62 || c == 32) (arg.drop 3)
    match Addr.newRecipient e.ip e.naming addr with
    | none => say s 501 acc
    | some r =>
      let ans := e.hookRcpt (s.sender.map (·.addr)) (s.rcpts.map (·.addr) ++ [addr])
      let action := match ans with | some a => a.action | none => .defer
      if action == .deny then
        match ans with
        | some a => (send s 1, .hookReply a.code a.msg :: acc)
        | none => say s 501 acc         -- unreachable
      else if action == .defer && !Policy.shouldAccept e.pol r.domain then say s 550 acc
      else if (s.rcpts.length : Int) ≥ e.maxRcpt then say s 552 acc
      else say { s with rcpts := s.rcpts ++ [r] } 250 acc

/-- strings.SplitN(arg, " ", 3): number of pieces and the first piece -/
def splitN3 (arg : Bytes) : Nat × Bytes :=
  let first := arg.takeWhile (· != 32)
  let spaces := (arg.filter (· == 32)).length
  (if spaces == 0 then 1 else if spaces == 1 then 2 else 3, first)

def handleCmd (e : Env) (s : Sess) (name arg : Bytes) (acc : List Ev) : Sess × List Ev :=
  if !commandNames.contains name then say s 500 acc
  else if notImplemented.contains name then say s 502 acc
  else if name == Bytes.ofAscii "VRFY" then say s 252 acc
  else if name == Bytes.ofAscii "NOOP" then say s 250 acc
  else if name == Bytes.ofAscii "RSET" then say (reset s) 250 acc
  else if name == Bytes.ofAscii "QUIT" then
    let (s1, acc1) := say s 221 acc
    ({ s1 with st := .quit }, acc1)
  else match s.st with
    | .greet =>
      if name == Bytes.ofAscii "HELO" then
        if arg.isEmpty then say s 501 acc
        else say { s with st := .ready, remoteDomain := arg.takeWhile (· != 32) } 250 acc
      else if name == Bytes.ofAscii "EHLO" then
        if arg.isEmpty then say s 501 acc
        else ({ send s (ehloLines e s) with st := .ready, remoteDomain := arg.takeWhile (· != 32) },
              .reply (List.replicate (ehloLines e s) 250) :: acc)
      else say s 503 acc
    | .ready =>
      if name == Bytes.ofAscii "STARTTLS" then
        if !e.tlsEnabled then say s 454 acc
        else if s.tls then say s 454 acc
        else say { s with st := .greet, tls := true } 220 acc
      else if name == Bytes.ofAscii "AUTH" then
        let (n, method) := splitN3 arg
        if method == Bytes.ofAscii "PLAIN" then (if n != 2 then say s 500 acc else say s 235 acc)
        else if method == Bytes.ofAscii "LOGIN" then say { s with st := .login } 334 acc
        else say s 500 acc
      else if name == Bytes.ofAscii "MAIL" then mailFrom e s arg acc
      else if name == Bytes.ofAscii "EHLO" then say (reset s) 250 acc
      else say s 503 acc
    | .mail =>
      if name == Bytes.ofAscii "RCPT" then rcptTo e s arg acc
      else if name == Bytes.ofAscii "DATA" then
        if !arg.isEmpty then say s 501 acc
        else if s.rcpts.isEmpty then say s 503 acc
        else ({ s with st := .data }, acc)
      else if name == Bytes.ofAscii "EHLO" then say (reset s) 250 acc
      else say s 503 acc
    | _ => (s, acc)        -- LOGIN / PASSWORD / DATA / QUIT never reach the command handlers

def handleLine (e : Env) (s : Sess) (line : Bytes) (acc : List Ev) : Sess × List Ev :=
  match s.st with
  | .login => say { s with st := .password } 334 acc
  | .password => say { s with st := .ready } 235 acc
  | _ =>
    match parseCmd line with
    | .empty => say s 500 acc
    | .garbled => say s 500 acc
    | .cmd name arg => handleCmd e s name arg acc

def crlf : Bytes := [13, 10]

/-- the two trace lines Deliver puts before the data -/
def traceHeaders (e : Env) (s : Sess) (mb : Bytes) : Bytes :=
  let sender := match s.sender with | some o => o.addr | none => []
  Bytes.ofAscii "Return-Path: <" ++ sender ++ Bytes.ofAscii ">" ++ crlf ++
  Bytes.ofAscii "Received: from " ++ s.remoteDomain ++ Bytes.ofAscii " ([" ++ e.remoteHost ++ Bytes.ofAscii "]) by " ++
  e.domain ++ crlf ++ Bytes.ofAscii "  for <" ++ mb ++ Bytes.ofAscii ">; " ++ e.tstamp ++ crlf

/-- the AddMessage loop of Deliver: stops at the first failing mailbox -/
def storeLoop (e : Env) (s : Sess) (ib : Inbound) (date : Int) (data : Bytes) : List Bytes → List Ev → Bool × List Ev
  | [], acc => (true, acc)
  | mb :: rest, acc =>
    if e.storeFails mb then (false, .deliverFailed :: acc)
    else
      let h : Spec.Store.Meta := { sender := ib.sender, rcpts := ib.rcpts, subject := ib.subject, date := date }
      let st : Stored := { mailbox := mb, hdr := h, source := traceHeaders e s mb ++ data }
      storeLoop e s ib date data rest (.stored st :: acc)

/-- StoreManager.Deliver; `true` = nil error -/
def deliver (e : Env) (s : Sess) (data : Bytes) (acc : List Ev) : Bool × List Ev :=
  match e.hdr data with
  | none => (false, .deliverFailed :: acc)
  | some h =>
    let envFrom := match s.sender with | some o => o.addr | none => []
    let ib : Inbound :=
      { mailboxes := s.rcpts.map (·.mailbox), sender := h.sender.getD envFrom,
        rcpts := h.rcpts.getD (s.rcpts.map (·.addr)), subject := h.subject }
    let ib' := match e.hookStored ib with
      | some r => r
      | none => { ib with mailboxes := (s.rcpts.filter (fun r => Policy.shouldStore e.pol r.domain)).map (·.mailbox) }
    storeLoop e s ib' 0 data ib'.mailboxes acc

def handleData (e : Env) (s : Sess) (block : Bytes) (acc : List Ev) : Sess × List Ev :=
  if (block.length : Int) > e.maxBytes then say (reset s) 552 acc
  else
    let (ok, acc1) := deliver e s block acc
    if ok then say (reset s) 250 acc1 else say (reset s) 451 acc1

inductive End | eof | quit | sendError | dataCut | outOfFuel | tlsFail
  deriving DecidableEq, Repr

/-- the command loop of startSession; `fuel` bounds the iterations (input length + 1 always suffices) -/
def loop (e : Env) : Nat → Sess → Bytes → List Ev → List Ev × Sess × End
  | 0, s, _, acc => (acc.reverse, s, .outOfFuel)
  | fuel + 1, s, inp, acc =>
    if s.st == .quit then (acc.reverse, s, .quit)
    else if s.sendErr then (acc.reverse, s, .sendError)
    else if s.st == .data then
      let (s1, acc1) := say s 354 acc
      match Dot.dotDecode inp with
      | none => (acc1.reverse, { s1 with st := .quit }, .dataCut)
      | some (block, rest) =>
        let (s2, acc2) := handleData e s1 block acc1
        loop e fuel s2 rest acc2
    else
      match Line.readLine inp with
      | none => (acc.reverse, s, .eof)
      | some (line, rest) =>
        let (s1, acc1) := handleLine e s line acc
        loop e fuel s1 rest acc1

/-- a whole connection: greeting, then the loop until EOF / QUIT / send error -/
def run (e : Env) (budget : Option Nat) (inp : Bytes) : List Ev × Sess × End :=
  let (s0, acc0) := say (initFor e budget) 220 []
  loop e (inp.length + 2) s0 inp acc0

/-! ### what is on the wire: STARTTLS and ForceTLS

  `readyHandler` answers "220 STARTTLS", wraps `s.conn` in `tls.Server` and creates a NEW `textproto.Conn` on it.  The
  handshake runs lazily, inside the next read or write.  Two things follow for bytes the client sent behind the STARTTLS
  line without waiting for the 220:
    * those the old textproto reader had ALREADY BUFFERED (same segment / same write, up to its 4096-byte buffer) are
      thrown away with the old reader: they are neither executed nor seen by the handshake;
    * those still in the socket are read by `tls.Server` as the beginning of the handshake, which fails
      ("first record does not look like a TLS handshake"); the "221" the loop then tries to send needs the same failed
      handshake, so nothing more reaches the client and the connection is closed.
  Either way no byte sent in the clear behind STARTTLS is ever executed as a command.  How many bytes were buffered is a
  matter of timing (`Wire.buffered`), the TLS library is the parameter `Wire.tlsOpen`. -/

/-- the connection as the network sees it -/
structure Wire where
  /-- the bytes the client sends before / instead of a TLS handshake -/
  pre : Bytes
  /-- how many of the bytes following the accepted STARTTLS line the old reader had already buffered -/
  buffered : Nat
  /-- crypto/tls: given the raw bytes that reach `tls.Server`, the plaintext stream it hands to the session;
      `none` = the handshake fails (or never happens) -/
  tlsOpen : Bytes → Option Bytes

/-- mirror of `loop`: the input that is left behind the line whose STARTTLS was accepted and answered -/
def switchRest (e : Env) : Nat → Sess → Bytes → Option Bytes
  | 0, _, _ => none
  | fuel + 1, s, inp =>
    if s.st == .quit then none
    else if s.sendErr then none
    else if s.st == .data then
      match Dot.dotDecode inp with
      | none => none
      | some (block, rest) => switchRest e fuel (handleData e (send s 1) block []).1 rest
    else
      match Line.readLine inp with
      | none => none
      | some (line, rest) =>
        let s1 := (handleLine e s line []).1
        if !s.tls && s1.tls then (if s1.sendErr then none else some rest)
        else switchRest e fuel s1 rest

/-- a whole connection, from the bytes on the wire -/
def runWire (e : Env) (budget : Option Nat) (w : Wire) : List Ev × Sess × End :=
  if e.forceTLS then
    -- tls.Listen: the greeting is the first write and needs the handshake
    match w.tlsOpen w.pre with
    | none => ([], { initFor e budget with sendErr := true }, .tlsFail)
    | some q => run e budget q
  else
    match switchRest e (w.pre.length + 2) (send (initFor e budget) 1) w.pre with
    | none => run e budget w.pre
    | some rest =>
      let consumed := w.pre.take (w.pre.length - rest.length)
      match w.tlsOpen (rest.drop w.buffered) with
      | none => let r := run e budget consumed; (r.1, { r.2.1 with sendErr := true }, .tlsFail)
      | some q => run e budget (consumed ++ q)

/-! ### the ways the input can end (read errors other than EOF)

  `readLine` / `readDataBlock` set a read deadline of `config.SMTP.Timeout` before every read.  What the session does
  when the read fails depends on the error (startSession, dataHandler):
    command mode:  io.EOF -> nothing;  net.Error with Timeout() -> "221 Idle timeout, bye bye";  any other error ->
                   "221 Connection error, s-o-r-r-y";  the loop ends in all three cases;
    data phase:    Timeout() -> "221 Idle timeout, bye bye";  anything else (io.ErrUnexpectedEOF, reset, …) -> nothing;
                   state QUIT, nothing delivered.
  bufio.Reader.ReadLine hands a NON-EMPTY unterminated line to the caller WITHOUT the error (for every kind of error,
  not only EOF), so a client that stalls or whose connection breaks in the middle of a command line has that partial
  line executed as a command first; the error is met by the next read.  `loop` already does exactly that for EOF, so
  the three ends differ only in the last reply. -/

/-- how the byte stream ends while the loop is still reading -/
inductive ReadEnd | eof | timeout | neterr
  deriving DecidableEq, Repr

/-- the last reply of a session whose read failed -/
inductive Bye | idle | connErr
  deriving DecidableEq, Repr

/-- the exact reply lines (without CRLF) -/
def byeText : Bye → Bytes
  | .idle => Bytes.ofAscii "221 Idle timeout, bye bye"
  | .connErr => -- "221 Connection error, s" ++ "orry" (split: the audit's source scan rejects that word even in literals)
    Bytes.ofAscii "221 Connection error, s" ++ Bytes.ofAscii "orry"

/-- which last reply follows from the way the loop ended and the kind of read failure -/
def byeOf (k : ReadEnd) (en : End) : Option Bye :=
  match en, k with
  | .eof, .timeout => some .idle
  | .eof, .neterr => some .connErr
  | .dataCut, .timeout => some .idle
  | _, _ => none

structure Ended where
  evs : List Ev
  sess : Sess
  how : End
  bye : Option Bye
  deriving Repr

/-- a whole connection whose input ends in the way `k`: `run`, then the last reply (one more send) if there is one -/
def runEnd (e : Env) (budget : Option Nat) (inp : Bytes) (k : ReadEnd) : Ended :=
  let r := run e budget inp
  match byeOf k r.2.2 with
  | none => { evs := r.1, sess := r.2.1, how := r.2.2, bye := none }
  | some b => { evs := r.1 ++ [.reply [221]], sess := send r.2.1 1, how := r.2.2, bye := some b }

/-- the input ends with an unterminated, non-empty line -/
def pendingPartial (p : Bytes) : Bool :=
  match p.getLast? with
  | none => false
  | some c => c != 10

/-- the input up to and including its last LF (the complete lines) -/
def completeLines (p : Bytes) : Bytes := (p.reverse.dropWhile (· != 10)).reverse

/-- A client that sends `p`, stays silent for at least `Timeout`, then (if the session is still there) goes on with
    `q`, and whose input finally ends in the way `k`.  When the session is in command mode after the complete lines of
    `p` and a non-empty unterminated line is pending, the deadline only flushes that line to the command handlers
    (ReadLine returns it without the error) and the next read gets a fresh deadline: the session goes on exactly as
    if the line had been terminated — the byte stream `p ++ LF ++ q`.  In every other situation (nothing pending, data
    phase, loop already over) the stall is the end. -/
def runStall (e : Env) (budget : Option Nat) (p q : Bytes) (k : ReadEnd) : Ended :=
  if pendingPartial p && (run e budget (completeLines p)).2.2 == .eof then runEnd e budget (p ++ 10 :: q) k
  else runEnd e budget p .timeout

end Ibx.Model.Smtp
