import Ibx.Model.ClientUrl
/-
  Model.ClientJoin — the two ways a client can turn (mailbox name, id) into the path of its request, and what
  `net/url` makes of either on the way to the wire.

    queryEscape   uri = "/api/v1/mailbox/" + url.QueryEscape(name) [+ "/" + id [+ "/source"]]     (the code: apiv1_client.go)
    pathJoinRaw   uri = path.Join("/api/v1/mailbox", name [, id [, "source"]])                    (the alternative: no escaping,
                                                                                                   "JoinPath will escape it")
    then, in restClient.do:  url := baseURL.JoinPath(uri);  http.NewRequest(method, url.String(), …)

  URL.JoinPath joins the ESCAPED base path and the uri with path.Join, then calls `setPath(p)`, which takes `p` for an
  ESCAPED path: Path = unescape(p) — every %XX of `p` is DECODED — and RawPath = p unless p is the default escaping of
  Path; when `p` is not a valid escaping setPath fails, JoinPath ignores the error and the URL keeps the base URL's path.
  `String()` writes EscapedPath(): RawPath when it is a valid encoding of Path, the default escaping of Path otherwise.
  So a '%' that the caller did not escape is taken for the start of an escape.  Which variant the code has is a
  regenerated fact (Ibx/Tie/ClientPath.lean); the behaviour of path.Join / JoinPath / String as modelled here is compared
  with the real `path` and `net/url` on every run (T2, `clientv` of driver mode rest).
-/
namespace Ibx.Model.ClientJoin
open Ibx Ibx.Bytes Ibx.Model.ClientUrl

inductive NameEsc
  | queryEscape
  | pathJoinRaw
  deriving DecidableEq, Repr

/-- "/api/v1/mailbox" -/
def apiMailbox : Bytes := 47 :: sApi ++ 47 :: sV1 ++ 47 :: sMailbox

def joinSlash : List Bytes → Bytes
  | [] => []
  | [a] => a
  | a :: rest => a ++ 47 :: joinSlash rest

/-- path.Join for a rooted first element: empty elements are ignored, the rest joined by "/" and cleaned -/
def pathJoin (elems : List Bytes) : Bytes :=
  match elems.filter (fun e => !e.isEmpty) with
  | [] => []
  | es => pathClean (joinSlash es)

/-- the URI of the `pathJoinRaw` variant -/
def joinUri (sh : Shape) (name id : Bytes) : Bytes :=
  match sh with
  | .box => pathJoin [apiMailbox, name]
  | .msg => pathJoin [apiMailbox, name, id]
  | .source => pathJoin [apiMailbox, name, id, sSource]

def uriOf (v : NameEsc) (sh : Shape) (name id : Bytes) : Bytes :=
  match v with
  | .queryEscape => clientUri sh name id
  | .pathJoinRaw => joinUri sh name id

/-- bytes `escape(s, encodePath)` leaves alone: unreserved and dollar amp plus comma slash colon semicolon equals at -/
def pathModeKeepB (c : Nat) : Bool :=
  isUnreservedB c || c == 36 || c == 38 || c == 43 || c == 44 || c == 47 || c == 58 || c == 59 || c == 61 || c == 64

/-- net/url `escape(s, encodePath)`: the default escaping of a decoded path -/
def escapePathMode (s : Bytes) : Bytes := s.flatMap (fun c => if pathModeKeepB c then [c] else pct c)

/-- net/url `validEncoded(s, encodePath)`, per byte: the above, the other sub-delims, brackets, and '%' -/
def validEncodedB (c : Nat) : Bool :=
  pathModeKeepB c || c == 33 || c == 39 || c == 40 || c == 41 || c == 42 || c == 91 || c == 93 || c == 37

def validEncoded (s : Bytes) : Bool := s.all validEncodedB

/-- the path `url.String()` carries after `setPath(p)`; when `p` is not a valid escaping the URL keeps the base path -/
def wireOf (base : List Bytes) (p : Bytes) : Bytes :=
  match unescape p with
  | none => if base.isEmpty then [47] else render base
  | some path => if validEncoded p then p else escapePathMode path

/-- the request path the client puts on the wire, for either variant and ANY name and id -/
def clientWireV (v : NameEsc) (base : List Bytes) (sh : Shape) (name id : Bytes) : Bytes :=
  wireOf base (joinPath base (uriOf v sh name id))

/-- client call → what the server's router does with it -/
def clientRouteV (v : NameEsc) (base : List Bytes) (op : ClientOp) (name id : Bytes) : RouteRes :=
  serverRoute base op.method (clientWireV v base op.shape name id)

end Ibx.Model.ClientJoin
