import Ibx.Bytes
/-
  Model of net/textproto.Reader.ReadLine as the SMTP session uses it (bufio.Reader.ReadLine underneath):
  a line ends at LF; the LF and one CR directly before it are dropped; a non-empty partial last line is
  returned as it is (nothing dropped) before EOF; no length limit.
  Caveat found by the C02 differential check (thorough tier): an UNTERMINATED last line is dropped by the real
  ReadLine (it returns io.EOF instead of the line) when its bytes fill bufio's 4096-byte buffer exactly at the
  moment EOF arrives (e.g. 4096·k bytes from a bytes.Reader).  That depends on how the reads were chunked, not on
  the bytes, so it is not modelled; the model is exact for LF-terminated lines of any length and for unterminated
  last lines shorter than 4096 bytes.
-/
namespace Ibx.Model.Line
open Ibx

/-- split at the first LF: `(bytes before it, bytes after it)`; `none` if there is no LF -/
def splitLF : Bytes → Bytes → Option (Bytes × Bytes)
  | [], _ => none
  | c :: rest, acc => if c == 10 then some (acc.reverse, rest) else splitLF rest (c :: acc)

def dropLastCR (l : Bytes) : Bytes := if l.getLast? == some 13 then l.dropLast else l

/-- `none` = EOF (no bytes left) -/
def readLine (inp : Bytes) : Option (Bytes × Bytes) :=
  if inp.isEmpty then none
  else match splitLF inp [] with
    | some (l, rest) => some (dropLastCR l, rest)
    | none => some (inp, [])

/-- strings.TrimRight(line, "\r\n") -/
def trimRightCRLF (l : Bytes) : Bytes :=
  (l.reverse.dropWhile (fun c => c == 13 || c == 10)).reverse

end Ibx.Model.Line
