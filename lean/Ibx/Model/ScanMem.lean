import Ibx.Model.ConcMem
/-
  ScanMem — the retention scanner (pkg/storage/retention.go: DoScan) as a CLIENT PROGRAM of the memory store's
  interleaving model (Ibx/Model/ConcMem.lean), running among any family of other client threads and the size
  enforcer goroutine.

  What the scan does to the memory store (pkg/storage/mem/store.go):

      VisitMailboxes:  s.Lock(); boxNames := keys(s.boxes); s.Unlock()          lockNames / unlockNames
                       for _, mailbox := range boxNames {                       visit
                           ms, _ := s.GetMessages(mailbox)                      the step program of `Op.list` (thread t0):
                                                                                  store lock, unlock, mailbox READ lock,
                                                                                  copy, unlock        -> gotList
                           if !f(ms) { break } }
      f (DoScan):      for _, msg := range messages {                           sweep (no lock is held here)
                           if msg.Date().Before(cutoff) {
                               RemoveMessage(msg.Mailbox(), msg.ID()) }         the step program of `Op.remove` (thread t0):
                                                                                  store lock, unlock, mailbox WRITE lock,
                                                                                  delete, unlock, then enforcerRemove
                                                                                  (a rendezvous)      -> returned
                       }
                       select { case <-ctx.Done(): return false                 check
                                case <-time.After(retentionSleep): }
                       return true

  The operations themselves are NOT re-modelled: the scanner thread `t0` runs them through `ConcMem.Step` exactly
  like every other client (`SStep.base`), for the variant of the store the source has (Ibx/Tie/Conc.lean).  What is
  added is the scanner's control: which operation it issues next, decided from the result of the previous one
  (`lastRet`), the cancel flag and the `select`.  The name snapshot holds the store mutex: it is taken only when the
  mutex is free and, while the scanner holds it, no step of the store may take it (`SStep.base`'s side condition).

  The key set of the Go map `s.boxes` is not part of `ConcMem.St` (mailboxes are created on first use there), so the
  name list is a parameter of `lockNames`, as in Ibx/Model/Retention.lean.  Dates are a parameter too: `date k` is
  the date the delivery that created key `k` carried (keys are never re-used: `Props.C09.ids_distinct`).
-/
namespace Ibx.Model.ScanMem
open Ibx.Model.ConcMem

/-- parameters of one scan -/
structure Env where
  /-- the thread that runs the scan -/
  t0 : Nat
  /-- `msg.Date()` of the message with this key -/
  date : Key → Int
  /-- `time.Now().Add(-1 * rs.retentionPeriod)` -/
  cutoff : Int
  /-- the case `<-time.After(retentionSleep)` can be ready when the select polls (see Model/Retention.lean) -/
  timerReady : Bool

inductive Phase
  | init                                                      -- DoScan entered, VisitMailboxes not yet
  | names (nm : List Nat)                                     -- holding the store mutex, copying the keys
  | visit (todo : List Nat)                                   -- loop head of VisitMailboxes
  | listing (b : Nat) (todo : List Nat)                       -- GetMessages(b) issued
  | sweep (b : Nat) (pending : List Nat) (todo : List Nat)    -- in the callback: rest of the snapshot in hand
  | removing (b i : Nat) (pending : List Nat) (todo : List Nat)  -- RemoveMessage(b, i) issued
  | check (todo : List Nat)                                   -- at the select that ends the callback
  | done (aborted : Bool)                                     -- VisitMailboxes returned
  deriving DecidableEq, Repr

structure St where
  mem : ConcMem.St
  phase : Phase
  cancelled : Bool
  /-- ghost: the snapshots taken, in order -/
  snaps : List (Nat × List Nat)
  /-- ghost: the RemoveMessage calls issued, in order -/
  calls : List Key
  /-- ghost: the mailbox maps and the names when VisitMailboxes took the store mutex -/
  boxes0 : Nat → Box
  names0 : List Nat

/-- the result of the last operation thread `t` completed -/
def lastRet (t : Nat) (hist : List (Nat × Op × Ret)) : Option (Op × Ret) :=
  hist.foldl (fun acc e => if e.1 = t then some e.2 else acc) none

/-- the slice GetMessages returned -/
def idsOf : Ret → List Nat
  | .ids l => l
  | _ => []

def start (e : Env) (progs : Nat → List Op) : St :=
  { mem := ConcMem.init (upd progs e.t0 []), phase := .init, cancelled := false, snaps := [], calls := [],
    boxes0 := AS.empty.boxes, names0 := [] }

/-- the scanner issues operation `o`: it becomes the program of thread `t0` -/
def issue (e : Env) (m : ConcMem.St) (o : Op) : ConcMem.St := { m with prog := upd m.prog e.t0 [o] }

/-- thread `t0` is between two operations -/
def atRest (e : Env) (m : ConcMem.St) : Prop := m.panic = false ∧ m.thr e.t0 = .idle ∧ m.prog e.t0 = []

inductive SStep (v : Variant) (c : Cfg) (e : Env) : St → St → Prop
  /-- any step of the store: a client thread (the scanner's included) or the enforcer.  While the scanner holds the
      store mutex nobody acquires it. -/
  | base {σ : St} {m' : ConcMem.St} : Step v c σ.mem m' → (∀ nm, σ.phase = .names nm → m'.slock = none) →
      SStep v c e σ { σ with mem := m' }
  | lockNames (nm : List Nat) {σ : St} : σ.phase = .init → σ.mem.panic = false → σ.mem.slock = none →
      SStep v c e σ { σ with phase := .names nm, boxes0 := σ.mem.boxes, names0 := nm }
  | unlockNames (nm : List Nat) {σ : St} : σ.phase = .names nm → σ.mem.panic = false →
      SStep v c e σ { σ with phase := .visit nm }
  | visitEnd {σ : St} : σ.phase = .visit [] → σ.mem.panic = false →
      SStep v c e σ { σ with phase := .done false }
  | visitNext (b : Nat) (todo : List Nat) {σ : St} : σ.phase = .visit (b :: todo) → atRest e σ.mem →
      SStep v c e σ { σ with mem := issue e σ.mem (.list b), phase := .listing b todo }
  | gotList (b : Nat) (todo : List Nat) (r : Ret) {σ : St} : σ.phase = .listing b todo → atRest e σ.mem →
      lastRet e.t0 σ.mem.hist = some (.list b, r) →
      SStep v c e σ { σ with phase := .sweep b (idsOf r) todo, snaps := σ.snaps ++ [(b, idsOf r)] }
  | sweepSkip (b i : Nat) (p todo : List Nat) {σ : St} : σ.phase = .sweep b (i :: p) todo → σ.mem.panic = false →
      ¬ e.date (b, i) < e.cutoff →
      SStep v c e σ { σ with phase := .sweep b p todo }
  | sweepCall (b i : Nat) (p todo : List Nat) {σ : St} : σ.phase = .sweep b (i :: p) todo → atRest e σ.mem →
      e.date (b, i) < e.cutoff →
      SStep v c e σ { σ with mem := issue e σ.mem (.remove b i), phase := .removing b i p todo,
                             calls := σ.calls ++ [(b, i)] }
  | returned (b i : Nat) (p todo : List Nat) {σ : St} : σ.phase = .removing b i p todo → atRest e σ.mem →
      SStep v c e σ { σ with phase := .sweep b p todo }
  | sweepEnd (b : Nat) (todo : List Nat) {σ : St} : σ.phase = .sweep b [] todo → σ.mem.panic = false →
      SStep v c e σ { σ with phase := .check todo }
  | checkStop (todo : List Nat) {σ : St} : σ.phase = .check todo → σ.mem.panic = false → σ.cancelled = true →
      SStep v c e σ { σ with phase := .done true }
  | checkGo (todo : List Nat) {σ : St} : σ.phase = .check todo → σ.mem.panic = false →
      (σ.cancelled = false ∨ e.timerReady = true) →
      SStep v c e σ { σ with phase := .visit todo }

/-- reachable states: steps of the system, and the environment cancelling the context at any moment -/
inductive Reach (v : Variant) (c : Cfg) (e : Env) (progs : Nat → List Op) : St → Prop
  | init : Reach v c e progs (start e progs)
  | step {σ σ' : St} : Reach v c e progs σ → SStep v c e σ σ' → Reach v c e progs σ'
  | cancel {σ : St} : Reach v c e progs σ → Reach v c e progs { σ with cancelled := true }

/-- a finite continuation made of steps of the system only (no help from the environment) -/
inductive Steps (v : Variant) (c : Cfg) (e : Env) : St → St → Prop
  | refl (σ : St) : Steps v c e σ σ
  | step {σ σ' σ'' : St} : Steps v c e σ σ' → SStep v c e σ' σ'' → Steps v c e σ σ''

/-- the whole system has come to rest: the scan has returned and no thread has anything left to do -/
def Finished (σ : St) : Prop := (∃ a, σ.phase = .done a) ∧ Final σ.mem

end Ibx.Model.ScanMem
