/-
  Models of pkg/extension's two event brokers.

  (a) `EventBroker[E,R]` (broker.go) — sequential: an ordered registry of named listeners;
      `Emit` calls them in order and returns the first non-nil result; `AddListener` removes the
      first entry of the same name, then appends; `RemoveListener` removes the first entry of that name.

  (b) `AsyncEventBroker[E]` (async_broker.go) seen from ONE listener name — an interleaving model
      (`Step` / `Reach`) in two variants selected by the regenerated fact `Gen.Broker.asyncEmit`:
        goroutinePerEvent : `Emit` runs `go l(*event)`; every emitted event is its own goroutine,
                            which may start (and finish) the listener call at any later time;
        perListenerQueue  : `Emit` appends the event to the listener's unbounded FIFO; ONE worker
                            goroutine pops the head and runs the call to completion before the next.
      Several emitting goroutines need no separate treatment: an `Emit` reaches the listener by one
      atomic step (`go` statement / append under the queue mutex), so every execution has one
      emission sequence — `emitted` — and `Emit a` returning before `Emit b` begins puts a before b in it.
      The After-event brokers of one Host share the listener's queue (host.go), so `emitted` ranges
      over the events of all of them (stored and deleted).
-/
namespace Ibx.Model.Broker

/-! ### (a) synchronous EventBroker -/

structure Listener (E R : Type) where
  name : String
  fn : E → Option R

/-- `listenerNames` / `listenerFuncs`, kept as one list of pairs (the code keeps two parallel slices
    that are only ever changed together) -/
abbrev Registry (E R : Type) := List (Listener E R)

/-- `lockedRemoveListener`: delete the FIRST entry with this name (`break` after one) -/
def removeFirst {E R : Type} (name : String) : Registry E R → Registry E R
  | [] => []
  | l :: ls => if l.name = name then ls else l :: removeFirst name ls

def addListener {E R : Type} (s : Registry E R) (name : String) (f : E → Option R) : Registry E R :=
  removeFirst name s ++ [⟨name, f⟩]

def removeListener {E R : Type} (s : Registry E R) (name : String) : Registry E R :=
  removeFirst name s

/-- `Emit`: listeners in order until one returns non-nil -/
def emit {E R : Type} : Registry E R → E → Option R
  | [], _ => none
  | l :: ls, e => match l.fn e with
    | some r => some r
    | none => emit ls e

/-- names of the listeners `Emit` calls, in call order -/
def called {E R : Type} : Registry E R → E → List String
  | [], _ => []
  | l :: ls, e => match l.fn e with
    | some _ => [l.name]
    | none => l.name :: called ls e

def names {E R : Type} (s : Registry E R) : List String := s.map (·.name)

/-- registry operations of the public API -/
inductive Op (E R : Type) where
  | add (name : String) (f : E → Option R)
  | remove (name : String)

def applyOp {E R : Type} (s : Registry E R) : Op E R → Registry E R
  | .add n f => addListener s n f
  | .remove n => removeListener s n

def applyOps {E R : Type} (ops : List (Op E R)) : Registry E R := ops.foldl applyOp []

/-! ### (b) asynchronous broker, one listener -/

inductive AsyncEmit where
  | goroutinePerEvent | perListenerQueue | unknown
  deriving DecidableEq, Repr

def AsyncEmit.ofString (s : String) : AsyncEmit :=
  if s = "goroutinePerEvent" then .goroutinePerEvent
  else if s = "perListenerQueue" then .perListenerQueue
  else .unknown

abbrev Ev := Nat

structure St where
  /-- is the listener registered (AddListener done, RemoveListener not yet) -/
  registered : Bool := true
  /-- ghost: every event emitted to this listener, in emission order -/
  emitted : List Ev := []
  /-- perListenerQueue: the FIFO; goroutinePerEvent: goroutines created by `go l(*event)` that have not
      entered the listener yet (kept in creation order, but any of them may go next) -/
  pending : List Ev := []
  /-- invocations in progress -/
  running : List Ev := []
  /-- ghost: order in which invocations started / finished -/
  started : List Ev := []
  done : List Ev := []
  /-- ghost: events discarded because the listener was removed while they were queued -/
  dropped : List Ev := []
  deriving DecidableEq, Repr

def St.init : St := {}

inductive Step : AsyncEmit → St → St → Prop where
  /-- `Emit` while the listener is registered: one append, never waits (both variants) -/
  | emit (v : AsyncEmit) (s : St) (e : Ev) : s.registered = true →
      Step v s { s with emitted := s.emitted ++ [e], pending := s.pending ++ [e] }
  /-- perListenerQueue: the worker is idle and pops the head of the FIFO -/
  | qStart (s : St) (e : Ev) (q : List Ev) : s.registered = true → s.pending = e :: q → s.running = [] →
      Step .perListenerQueue s { s with pending := q, running := [e], started := s.started ++ [e] }
  /-- perListenerQueue: the call returns -/
  | qFinish (s : St) (e : Ev) : s.running = [e] →
      Step .perListenerQueue s { s with running := [], done := s.done ++ [e] }
  /-- perListenerQueue: RemoveListener — what is still queued is dropped, a call in progress goes on -/
  | qRemove (s : St) : s.registered = true →
      Step .perListenerQueue s { s with registered := false, pending := [], dropped := s.dropped ++ s.pending }
  /-- goroutinePerEvent: ANY goroutine not yet started enters the listener, whatever else is running -/
  | gStart (s : St) (pre post : List Ev) (e : Ev) : s.pending = pre ++ e :: post →
      Step .goroutinePerEvent s { s with pending := pre ++ post, running := s.running ++ [e], started := s.started ++ [e] }
  /-- goroutinePerEvent: any call in progress returns -/
  | gFinish (s : St) (pre post : List Ev) (e : Ev) : s.running = pre ++ e :: post →
      Step .goroutinePerEvent s { s with running := pre ++ post, done := s.done ++ [e] }
  /-- goroutinePerEvent: RemoveListener only edits the registry; goroutines already created still run -/
  | gRemove (s : St) : s.registered = true →
      Step .goroutinePerEvent s { s with registered := false }

inductive Reach (v : AsyncEmit) : St → Prop where
  | init : Reach v St.init
  | step {s t : St} : Reach v s → Step v s t → Reach v t

/-- zero or more steps -/
inductive Steps (v : AsyncEmit) : St → St → Prop where
  | refl (s : St) : Steps v s s
  | tail {s t u : St} : Steps v s t → Step v t u → Steps v s u

/-! #### executable normal form used by the correspondence harness (perListenerQueue)

  The harness plays `emit e` / `release` (let the call in progress return) / `remove` against the real broker
  with a listener that blocks until released, and after each action waits until nothing more can happen.
  `settle` is that quiescence: an idle worker with a non-empty FIFO starts the head. -/

inductive Act where
  | emit (e : Ev) | release | remove
  deriving DecidableEq, Repr

def settle (s : St) : St :=
  match s.registered, s.running, s.pending with
  | true, [], e :: q => { s with pending := q, running := [e], started := s.started ++ [e] }
  | _, _, _ => s

def act (s : St) : Act → St
  | .emit e => if s.registered then settle { s with emitted := s.emitted ++ [e], pending := s.pending ++ [e] } else s
  | .release => match s.running with
    | [e] => settle { s with running := [], done := s.done ++ [e] }
    | _ => s
  | .remove => if s.registered then { s with registered := false, pending := [], dropped := s.dropped ++ s.pending } else s

def run (acts : List Act) : St := acts.foldl act St.init

end Ibx.Model.Broker
