import Ibx.Bytes
import Ibx.Model.StyleFilter
/-
  Model of how golang.org/x/net/html (token.go, the version go.mod selects) reads ONE start tag:
  readStartTag / readTag / readTagName / readTagAttrKey / readTagAttrVal / skipWhiteSpace, as spans of the raw
  bytes (the accessor methods then lower-case name and keys, and entity-decode the value: NOT modelled here —
  the driver lower-cases, the harness applies the real tokenizer's decoding to the value span).

  The input of `readTag` starts at the first byte of the tag name (the tokenizer has consumed `<` and seen a letter).
  Every end of input inside the tag is `none` (the tokenizer sets z.err and the token becomes ErrorToken).

    readTagName       up to white space (consumed) or `/` `>` (not consumed)
    skipWhiteSpace    ' ' \n \r \t \f ; running into the end of input is an error
    loop:  c = next byte;  `>` -> done
           readTagAttrKey   up to `=` (unless it is the key's first byte) / white space / `/` / `>`, none consumed
           readTagAttrVal   skip white space; `/` -> consumed, empty value; not `=` -> empty value;
                            `=`, skip white space, then  `>` -> empty value (not consumed) | `'…'` | `"…"` |
                            unquoted up to white space (consumed) or `>` (not consumed)
           an attribute with an empty key is not saved;  skip white space
    SelfClosingTagToken iff the byte before the final `>` is `/`  (readStartTag: z.buf[z.raw.end-2] == '/')

  This is third-party code: the model is tied by T2 only (correspondence `rdtag`: the real tokenizer on generated
  tags and on every tag the real filter wrote).  It exists to PROVE the round trip of the filter's serialisation
  (Props/C18Filter: filter_tag_rereads), which turns the tag half of assumption A2 into a theorem about this model.
  Core Lean only (linked into the driver).
-/
namespace Ibx.Model.TagRead
open Ibx Ibx.Model.StyleFilter

def isWS (c : Nat) : Bool := c == 32 || c == 10 || c == 13 || c == 9 || c == 12

/-- skipWhiteSpace; `none` = the input ended -/
def skipWS : Bytes → Option Bytes
  | [] => none
  | c :: r => if isWS c then skipWS r else some (c :: r)

/-- readTagName: (name, rest) -/
def readName : Bytes → Option (Bytes × Bytes)
  | [] => none
  | c :: r =>
    if isWS c then some ([], r)
    else if c = 47 ∨ c = 62 then some ([], c :: r)
    else (readName r).map fun p => (c :: p.1, p.2)

/-- readTagAttrKey: (key, rest); `first` = this is the key's first byte -/
def readKey : Bool → Bytes → Option (Bytes × Bytes)
  | _, [] => none
  | first, c :: r =>
    if (c = 61 ∧ first = false) ∨ isWS c = true ∨ c = 47 ∨ c = 62 then some ([], c :: r)
    else (readKey false r).map fun p => (c :: p.1, p.2)

/-- a quoted value: up to the next `q` (consumed) -/
def readUntil (q : Nat) : Bytes → Option (Bytes × Bytes)
  | [] => none
  | c :: r => if c = q then some ([], r) else (readUntil q r).map fun p => (c :: p.1, p.2)

/-- the rest of an unquoted value: up to white space (consumed) or `>` (not consumed) -/
def readUnquoted : Bytes → Option (Bytes × Bytes)
  | [] => none
  | c :: r =>
    if isWS c then some ([], r)
    else if c = 62 then some ([], c :: r)
    else (readUnquoted r).map fun p => (c :: p.1, p.2)

/-- readTagAttrVal: (value span, rest) -/
def readVal (b : Bytes) : Option (Bytes × Bytes) :=
  match skipWS b with
  | none => none
  | some [] => none
  | some (c :: r) =>
    if c = 47 then some ([], r)
    else if c ≠ 61 then some ([], c :: r)
    else match skipWS r with
      | none => none
      | some [] => none
      | some (q :: r') =>
        if q = 62 then some ([], q :: r')
        else if q = 39 ∨ q = 34 then readUntil q r'
        else (readUnquoted r').map fun p => (q :: p.1, p.2)

/-- the attribute loop of readTag; the input is positioned after skipWhiteSpace.  One unit of fuel per iteration
    (every iteration consumes at least one byte, so the length of the input is enough). -/
def readAttrs : Nat → Bytes → Option (List Attr × Bytes)
  | 0, _ => none
  | _, [] => none
  | fuel + 1, c :: r =>
    if c = 62 then some ([], r)
    else match readKey true (c :: r) with
      | none => none
      | some (k, r1) =>
        match readVal r1 with
        | none => none
        | some (v, r2) =>
          match skipWS r2 with
          | none => none
          | some r3 => (readAttrs fuel r3).map fun p => (if k = [] then p.1 else (k, v) :: p.1, p.2)

/-- the byte before the final `>` of the consumed bytes is `/` -/
def endsSelfClosing (consumed : Bytes) : Bool := consumed.dropLast.getLast? == some 47

/-- readStartTag on input positioned at the tag name: (name, attributes as raw spans, self-closing, rest after `>`) -/
def readTag (b : Bytes) : Option (Bytes × List Attr × Bool × Bytes) :=
  match readName b with
  | none => none
  | some (n, r0) =>
    match skipWS r0 with
    | none => none
    | some r1 =>
      match readAttrs b.length r1 with
      | none => none
      | some (as, rest) => some (n, as, endsSelfClosing (b.take (b.length - rest.length)), rest)

end Ibx.Model.TagRead
