import Ibx.Model.Broker
/-
  EmitLock — a file-store operation that EMITS WHILE IT HOLDS THE MAILBOX LOCK, composed with the asynchronous broker of
  `Ibx.Model.Broker` (pkg/storage/file/fstore.go + pkg/extension/async_broker.go).

  The file store announces deletions from inside its critical section: `PurgeMessages` emits one `AfterMessageDeleted` per listed
  message, `removeMessage` one (called by `RemoveMessage`, and once per eviction by the cap loop of `AddMessage`) — all of them between
  `mb.Lock()` and the deferred `mb.Unlock()` of the lock BUCKET (pkg/storage/lock.go: 4096 RWMutexes, one per first-three-hex-digits
  of the mailbox hash, so one lock serves many mailboxes).  A listener is free to use the store: the message hub does not, a Go
  extension or a Lua `after.message_deleted` hook that calls the REST API does, and it then needs a lock of the same array —
  for a mailbox of the same bucket THE SAME lock.

  The composed machine has three kinds of actors around one lock and one listener queue:
    the operation   `waiting k` → (lock) → `emitting k` → (Emit, k times) → `emitting 0` → (unlock) → `returned`;
    the listener    exactly `Model.Broker`'s per-listener queue: the worker pops the head (`qStart`), the call runs, returns
                    (`qFinish`).  While it runs, the call makes `beh.calls e` store calls on the bucket, each `lisLock; lisUnlock`
                    (the lock must be free to enter), and never returns at all when `beh.stuck e` (a listener blocked on something
                    of its own);
    a neighbour     another store operation on the same bucket (any operation: every one of them takes the bucket lock first and
                    holds it to its end — T1 fact `fileOpsHoldBucketLock`): `waiting` → (lock) → `inside` → (unlock) → `done`.
  The broker component of the state IS a `Model.Broker.St` and moves only by `Model.Broker.Step .perListenerQueue` steps
  (theorem `proj_step` of Props/C09Wedge.lean), so everything proved about the broker alone holds of it here.

  What `Emit` does when the queue is long is the variant, selected by regenerated facts (`Tie/Wedge.lean`):
    unbounded     the source: `push` appends under the queue mutex and returns (`Gen.Broker.asyncEmit = "perListenerQueue"`, whose
                  recognition demands that push does nothing but Lock / append / Signal / Unlock; `Gen.Wedge.emitBlockingOps = []`);
    bounded n     `push` WAITS while `n` calls are queued (`for len(q.calls) >= n { q.ready.Wait() }`); a pop wakes it.
  The lock is taken exclusively by all three (the operation and the neighbour are writers; a reading listener excludes and is
  excluded by a writer, which is all that matters to the operation; two readers sharing the lock would only add interleavings in
  which nobody waits for the other).
-/
namespace Ibx.Model.EmitLock
open Ibx.Model.Broker

inductive QueueVar where
  | unbounded | bounded (n : Nat) | unknown
  deriving DecidableEq, Repr

/-- may `push` append now, or does it wait? -/
def QueueVar.canPush : QueueVar → List Ev → Bool
  | .unbounded, _ => true
  | .bounded n, q => q.length < n
  | .unknown, _ => false

/-- what the listener does when called with an event -/
structure Beh where
  /-- store calls on this lock bucket made from inside the call -/
  calls : Ev → Nat
  /-- the call never returns (blocked on something outside the store) -/
  stuck : Ev → Bool

inductive Holder where
  | free | op | lis | nb
  deriving DecidableEq, Repr

inductive OpPhase where
  | waiting (k : Nat)      -- has not got the lock yet; will emit k events under it
  | emitting (left : Nat)  -- holds the lock, `left` events to go
  | returned
  deriving DecidableEq, Repr

inductive NbPhase where
  | waiting | inside | done | absent
  deriving DecidableEq, Repr

structure St where
  b : Broker.St
  lock : Holder
  op : OpPhase
  /-- identity of the next event (events are numbered in emission order) -/
  next : Nat
  /-- store calls the listener call in progress has still to make -/
  lisTodo : Nat
  nb : NbPhase
  deriving DecidableEq, Repr

def St.init (k : Nat) (nb : NbPhase) : St :=
  { b := Broker.St.init, lock := .free, op := .waiting k, next := 0, lisTodo := 0, nb := nb }

inductive Step (v : QueueVar) (beh : Beh) : St → St → Prop where
  /-- `mb.Lock()` -/
  | opLock (s : St) (k : Nat) : s.op = .waiting k → s.lock = .free →
      Step v beh s { s with lock := .op, op := .emitting k }
  /-- `…AfterMessageDeleted.Emit(…)` under the lock: one push — if the queue variant lets it -/
  | opEmit (s : St) (j : Nat) : s.op = .emitting (j + 1) → v.canPush s.b.pending = true →
      Step v beh s { s with op := .emitting j, next := s.next + 1,
                            b := { s.b with emitted := s.b.emitted ++ [s.next], pending := s.b.pending ++ [s.next] } }
  /-- the deferred `mb.Unlock()`; the operation returns -/
  | opUnlock (s : St) : s.op = .emitting 0 →
      Step v beh s { s with lock := .free, op := .returned }
  /-- the queue's worker pops the head and calls the listener (`Broker.Step.qStart`) -/
  | lisStart (s : St) (e : Ev) (q : List Ev) : s.b.pending = e :: q → s.b.running = [] →
      Step v beh s { s with lisTodo := beh.calls e,
                            b := { s.b with pending := q, running := [e], started := s.b.started ++ [e] } }
  /-- the listener enters the store: it needs the bucket lock -/
  | lisLock (s : St) (e : Ev) (j : Nat) : s.b.running = [e] → s.lisTodo = j + 1 → s.lock = .free →
      Step v beh s { s with lock := .lis }
  /-- … and leaves it -/
  | lisUnlock (s : St) : s.lock = .lis →
      Step v beh s { s with lock := .free, lisTodo := s.lisTodo - 1 }
  /-- the listener call returns (`Broker.Step.qFinish`) -/
  | lisFinish (s : St) (e : Ev) : s.b.running = [e] → s.lisTodo = 0 → beh.stuck e = false →
      Step v beh s { s with b := { s.b with running := [], done := s.b.done ++ [e] } }
  /-- another operation on the bucket -/
  | nbLock (s : St) : s.nb = .waiting → s.lock = .free →
      Step v beh s { s with lock := .nb, nb := .inside }
  | nbUnlock (s : St) : s.nb = .inside →
      Step v beh s { s with lock := .free, nb := .done }

/-- the steps of the emitting operation itself -/
inductive OpStep (v : QueueVar) (beh : Beh) : St → St → Prop where
  | lock {s : St} (k : Nat) (h1 : s.op = .waiting k) (h2 : s.lock = .free) :
      OpStep v beh s { s with lock := .op, op := .emitting k }
  | emit {s : St} (j : Nat) (h1 : s.op = .emitting (j + 1)) (h2 : v.canPush s.b.pending = true) :
      OpStep v beh s { s with op := .emitting j, next := s.next + 1,
                              b := { s.b with emitted := s.b.emitted ++ [s.next], pending := s.b.pending ++ [s.next] } }
  | unlock {s : St} (h1 : s.op = .emitting 0) :
      OpStep v beh s { s with lock := .free, op := .returned }

theorem OpStep.toStep {v : QueueVar} {beh : Beh} {s t : St} (h : OpStep v beh s t) : Step v beh s t := by
  cases h with
  | lock k h1 h2 => exact Step.opLock s k h1 h2
  | emit j h1 h2 => exact Step.opEmit s j h1 h2
  | unlock h1 => exact Step.opUnlock s h1

inductive Reach (v : QueueVar) (beh : Beh) (k : Nat) (nb : NbPhase) : St → Prop where
  | init : Reach v beh k nb (St.init k nb)
  | step {s t : St} : Reach v beh k nb s → Step v beh s t → Reach v beh k nb t

/-- `n` steps of the operation alone -/
inductive OpRun (v : QueueVar) (beh : Beh) : Nat → St → St → Prop where
  | zero (s : St) : OpRun v beh 0 s s
  | succ {n : Nat} {s t u : St} : OpStep v beh s t → OpRun v beh n t u → OpRun v beh (n + 1) s u

/-- `n` steps of the whole machine, whoever makes them: a schedule prefix of length `n` -/
inductive Sched (v : QueueVar) (beh : Beh) : Nat → St → St → Prop where
  | zero (s : St) : Sched v beh 0 s s
  | succ {n : Nat} {s t u : St} : Step v beh s t → Sched v beh n t u → Sched v beh (n + 1) s u

/-- nothing can move -/
def Stuck (v : QueueVar) (beh : Beh) (s : St) : Prop := ∀ t, ¬ Step v beh s t

/-- everything that was asked for has happened: the operation has returned, the neighbour is through, the queue is drained and the
    listener idle -/
def Quiescent (s : St) : Prop :=
  s.op = .returned ∧ (s.nb = .done ∨ s.nb = .absent) ∧ s.b.pending = [] ∧ s.b.running = []

end Ibx.Model.EmitLock
