import Ibx.Bytes
/-
  Model of net/textproto's dot reader (Reader.ReadDotBytes, Go 1.23) as a byte machine:
  elides one leading dot per line, rewrites CRLF to LF, stops after the line ".CRLF" (or ".LF").
  `none` = the input ended before the terminator (io.ErrUnexpectedEOF: the session delivers nothing).
  Quirk reproduced from the stdlib: a bare LF read at the beginning of a line leaves the machine in the
  "data" state, so the following line is not treated as a line start.
-/
namespace Ibx.Model.Dot
open Ibx

inductive DState | beginLine | dot | dotCR | cr | data
  deriving DecidableEq, Repr

/-- returns (decoded block, unread rest of the input) -/
def dotLoop : Bytes → DState → Bytes → Option (Bytes × Bytes)
  | [], _, _ => none
  | c :: rest, st, acc =>
    match st with
    | .beginLine =>
      if c == 46 then dotLoop rest .dot acc
      else if c == 13 then dotLoop rest .cr acc
      else dotLoop rest .data (c :: acc)
    | .dot =>
      if c == 13 then dotLoop rest .dotCR acc
      else if c == 10 then some (acc.reverse, rest)
      else dotLoop rest .data (c :: acc)
    | .dotCR =>
      if c == 10 then some (acc.reverse, rest)
      -- not ".CRLF": the dot is consumed, the saved CR is emitted, `c` is re-read in state data
      else if c == 13 then dotLoop rest .cr (13 :: acc)
      else dotLoop rest .data (c :: 13 :: acc)
    | .cr =>
      if c == 10 then dotLoop rest .beginLine (10 :: acc)
      -- not CRLF: the saved CR is emitted, `c` is re-read in state data
      else if c == 13 then dotLoop rest .cr (13 :: acc)
      else dotLoop rest .data (c :: 13 :: acc)
    | .data =>
      if c == 13 then dotLoop rest .cr acc
      else if c == 10 then dotLoop rest .beginLine (10 :: acc)
      else dotLoop rest .data (c :: acc)

def dotDecode (inp : Bytes) : Option (Bytes × Bytes) := dotLoop inp .beginLine []

end Ibx.Model.Dot
