import Ibx.Model.Smtp
/-
  Model of the Lua glue of pkg/extension/luahost/lua.go: how the OUTCOME of running a Lua handler becomes the result of
  the Go listener that EventBroker.Emit sees, for the three before-events

      inbucket.before.mail_from_accepted   -> Events.BeforeMailFromAccepted   (handleBeforeMailFromAccepted)
      inbucket.before.rcpt_to_accepted     -> Events.BeforeRcptToAccepted     (handleBeforeRcptToAccepted)
      inbucket.before.message_stored       -> Events.BeforeMessageStored      (handleBeforeMessageStored)

  (the two after-events `inbucket.after.message_stored` / `.message_deleted` are called with NRet = 0 and their listeners
  return nothing, so there is no glue to model: whatever they do cannot answer).

  PARAMETER: the Lua interpreter (gopher-lua).  What a script DOES is abstracted to a `LuaOutcome`; this file models only
  what lua.go does WITH the outcome.  The handler grammar of the T2 harness (`SmtpTerm`, `StoredTerm`) is given its
  intended Lua semantics by `evalSmtp` / `evalStored`; that gopher-lua realises this semantics is checked by running
  generated scripts (harness/cmd/drive/c17_lua.go), not proved.

  Code shape modelled (all three before-handlers):
      logger, ls, ib, ok := h.prepareInbucketFuncCall(name);  if !ok { return nil }          -- `noState`
      defer h.pool.putState(ls)
      if err := ls.CallByParam(lua.P{Fn: …, NRet: 1, Protect: true}, arg); err != nil { return nil }   -- `error`
      lval := ls.Get(-1); ls.Pop(1)                                                          -- `returned lval`
      [message_stored only:]  if lua.LVIsFalse(lval) { return nil }
      result, err := unwrapX(lval);  if err != nil { log }                                   -- (nil, err) on a wrong type
      return result
-/
namespace Ibx.Model.LuaGlue
open Ibx Ibx.Bytes Ibx.Model.Smtp

/-- a Lua value as far as the glue can tell values apart -/
inductive LuaVal
  | nil
  | bool (b : Bool)
  | number (n : Int)
  | string (s : Bytes)
  | table
  | function
  | smtpResponse (r : HookAns)      -- userdata whose Value is *event.SMTPResponse (made by smtp.allow / defer / deny)
  | inboundMessage (m : Inbound)    -- userdata whose Value is *event.InboundMessage
  | otherUserdata                   -- any other userdata (session, address, message_metadata, inbucket, …)
  deriving Repr

/-- what happened when the Go listener tried to run the Lua handler -/
inductive LuaOutcome
  | noState                 -- pool.getState / getInbucket failed: the listener returns nil without calling Lua
  | error                   -- the protected call returned an error (error(), runtime error, Go panic inside a binding, stack overflow)
  | returned (v : LuaVal)   -- the call succeeded; `v` = the first return value (NRet: 1 pads with nil / drops the rest)
  deriving Repr

/-- unwrapSMTPResponse (bind_smtpresponse.go): `(v, nil)` only for a userdata holding *event.SMTPResponse -/
def unwrapSMTPResponse : LuaVal → Option HookAns
  | .smtpResponse r => some r
  | _ => none

/-- unwrapInboundMessage (bind_inboundmessage.go) -/
def unwrapInboundMessage : LuaVal → Option Inbound
  | .inboundMessage m => some m
  | _ => none

/-- lua.LVIsFalse: nil and false -/
def lvIsFalse : LuaVal → Bool
  | .nil => true
  | .bool false => true
  | _ => false

/-- handleBeforeMailFromAccepted / handleBeforeRcptToAccepted: Go result (`none` = nil pointer = "did not answer") -/
def glueSmtp : LuaOutcome → Option HookAns
  | .noState => none
  | .error => none
  | .returned v => unwrapSMTPResponse v

/-- handleBeforeMessageStored -/
def glueStored : LuaOutcome → Option Inbound
  | .noState => none
  | .error => none
  | .returned v => if lvIsFalse v then none else unwrapInboundMessage v

/-- EventBroker.Emit (broker.go): listeners in order until one returns non-nil -/
def emit {E R : Type} : List (E → Option R) → E → Option R
  | [], _ => none
  | l :: rest, ev => match l ev with
    | some r => some r
    | none => emit rest ev

/-! ## The handler grammar of the T2 harness and its intended Lua semantics -/

/-- handler bodies that complete but return something that is not an answer -/
inductive Garbage
  | retNil          -- return nil
  | noReturn        -- falls off the end
  | number          -- return 550
  | string          -- return "deny"
  | table           -- return {action = "deny"}
  | retTrue         -- return true
  | retFalse        -- return false
  | function        -- return smtp.deny   (the constructor itself, not its result)
  | wrongUserdata   -- return <a userdata of another type>
  | nilThenAnswer   -- return nil, <an answer>    (only the first value counts)
  | scribbleNil     -- assigns fields of its argument's own copy, then returns nil
  deriving DecidableEq, Repr

/-- handler bodies that raise -/
inductive Failure
  | raise           -- error("boom")
  | raiseTable      -- error({code = 1})
  | raiseNil        -- error()
  | runtime         -- indexes a nil value
  | badArg          -- smtp.deny("five", {})  : the binding raises an argument error
  | recurse         -- unbounded recursion (stack overflow inside the protected call)
  | scribbleRaise   -- assigns fields of its argument's own copy, then error("boom")
  deriving DecidableEq, Repr

def garbageVal : Garbage → LuaVal
  | .retNil => .nil
  | .noReturn => .nil
  | .number => .number 550
  | .string => .string (Bytes.ofString "deny")
  | .table => .table
  | .retTrue => .bool true
  | .retFalse => .bool false
  | .function => .function
  | .wrongUserdata => .otherUserdata
  | .nilThenAnswer => .nil
  | .scribbleNil => .nil

/-- text smtp.deny() uses when the script gives none (bind_smtpresponse.go) -/
def defaultDenyMsg : Bytes := Bytes.ofString "Mail denied by policy"
def defaultDenyCode : Nat := 550

/-- bodies of a MAIL / RCPT handler entry -/
inductive SmtpTerm
  | allow                               -- return smtp.allow()
  | allowArgs                           -- return smtp.allow(421, "ignored")       (arguments of allow are ignored)
  | defer_                              -- return smtp.defer()
  | deny (code : Nat) (msg : Bytes)     -- return smtp.deny(code, msg)
  | denyDefault                         -- return smtp.deny()
  | denyCode (code : Nat)               -- return smtp.deny(code)
  | denyThenAllow (code : Nat) (msg : Bytes)   -- return smtp.deny(code, msg), smtp.allow()
  | garbage (g : Garbage)
  | fail (f : Failure)
  deriving Repr

def evalSmtp : SmtpTerm → LuaOutcome
  | .allow => .returned (.smtpResponse { action := .allow, code := 0, msg := [] })
  | .allowArgs => .returned (.smtpResponse { action := .allow, code := 0, msg := [] })
  | .defer_ => .returned (.smtpResponse { action := .defer, code := 0, msg := [] })
  | .deny c m => .returned (.smtpResponse { action := .deny, code := c, msg := m })
  | .denyDefault => .returned (.smtpResponse { action := .deny, code := defaultDenyCode, msg := defaultDenyMsg })
  | .denyCode c => .returned (.smtpResponse { action := .deny, code := c, msg := defaultDenyMsg })
  | .denyThenAllow c m => .returned (.smtpResponse { action := .deny, code := c, msg := m })
  | .garbage g => .returned (garbageVal g)
  | .fail _ => .error

/-- which fields of an inbound message a handler assigns (`none` = leaves the field alone) -/
structure Rewrite where
  mailboxes : Option (List Bytes)
  sender : Option Bytes
  rcpts : Option (List Bytes)
  subject : Option Bytes
  deriving Repr

def Rewrite.apply (rw : Rewrite) (m : Inbound) : Inbound :=
  { mailboxes := rw.mailboxes.getD m.mailboxes, sender := rw.sender.getD m.sender,
    rcpts := rw.rcpts.getD m.rcpts, subject := rw.subject.getD m.subject }

/-- inbound_message.new(): all fields zero (a nil From is rendered as the empty address) -/
def emptyInbound : Inbound := { mailboxes := [], sender := [], rcpts := [], subject := [] }

/-- bodies of a before.message_stored handler entry -/
inductive StoredTerm
  | fresh (rw : Rewrite)          -- local r = inbound_message.new(); r.<field> = …; return r
  | inPlace (rw : Rewrite)        -- msg.<field> = …; return msg        (msg is the listener's own copy of the event)
  | garbage (g : Garbage)
  | fail (f : Failure)
  deriving Repr

def evalStored : StoredTerm → Inbound → LuaOutcome
  | .fresh rw, _ => .returned (.inboundMessage (rw.apply emptyInbound))
  | .inPlace rw, m => .returned (.inboundMessage (rw.apply m))
  | .garbage g, _ => .returned (garbageVal g)
  | .fail _, _ => .error

/-- a generated handler: a table literal from key to body; a key that is not in the table gets `return nil` -/
abbrev Handler (T : Type) := List (Bytes × T)

def Handler.find {T : Type} (h : Handler T) (key : Bytes) : Option T :=
  (List.find? (fun p => p.1 == key) h).map (·.2)

/-- a script of the grammar: each handler is either not defined at all (`none`: wireFunctions registers no listener)
    or defined by its table -/
structure Script where
  mail : Option (Handler SmtpTerm)
  rcpt : Option (Handler SmtpTerm)
  stored : Option (Handler StoredTerm)

/-- every entry of every defined handler is a garbage or failing body -/
def SmtpTerm.broken : SmtpTerm → Bool
  | .garbage _ => true
  | .fail _ => true
  | _ => false

def StoredTerm.broken : StoredTerm → Bool
  | .garbage _ => true
  | .fail _ => true
  | _ => false

def Script.Broken (sc : Script) : Prop :=
  (∀ h, sc.mail = some h → ∀ p ∈ h, p.2.broken = true) ∧
  (∀ h, sc.rcpt = some h → ∀ p ∈ h, p.2.broken = true) ∧
  (∀ h, sc.stored = some h → ∀ p ∈ h, p.2.broken = true)

def smtpOutcome (h : Handler SmtpTerm) (key : Bytes) : LuaOutcome :=
  match h.find key with
  | some t => evalSmtp t
  | none => .returned .nil

def storedOutcome (h : Handler StoredTerm) (m : Inbound) : LuaOutcome :=
  match h.find m.subject with
  | some t => evalStored t m
  | none => .returned .nil

/-- the listeners wireFunctions adds to a fresh extension.Host for this script (at most one per event, named "lua") -/
def mailListeners (sc : Script) : List (Bytes → Option HookAns) :=
  (sc.mail.map (fun h key => glueSmtp (smtpOutcome h key))).toList

def rcptListeners (sc : Script) : List (Bytes → Option HookAns) :=
  (sc.rcpt.map (fun h key => glueSmtp (smtpOutcome h key))).toList

def storedListeners (sc : Script) : List (Inbound → Option Inbound) :=
  (sc.stored.map (fun h m => glueStored (storedOutcome h m))).toList

def hookMailOf (sc : Script) : Bytes → Option HookAns := fun a => emit (mailListeners sc) a

def hookRcptOf (sc : Script) : Option Bytes → List Bytes → Option HookAns := fun _ tos =>
  match tos.getLast? with
  | some a => emit (rcptListeners sc) a
  | none => none

def hookStoredOf (sc : Script) : Inbound → Option Inbound := fun m => emit (storedListeners sc) m

/-- the session environment with the script's luahost as the only extension.  The MAIL handler looks up
    `session.from.address`, the RCPT handler `session.to[#session.to].address`, the stored handler `msg.subject`. -/
def luaEnv (e : Env) (sc : Script) : Env :=
  { e with hookMail := hookMailOf sc, hookRcpt := hookRcptOf sc, hookStored := hookStoredOf sc }

/-- the same server without any extension -/
def noHooks (e : Env) : Env :=
  { e with hookMail := fun _ => none, hookRcpt := fun _ _ => none, hookStored := fun _ => none }

end Ibx.Model.LuaGlue
