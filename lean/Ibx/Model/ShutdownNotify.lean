import Ibx.Model.Shutdown
/-
  C19 — two more interleaving models of the shutdown protocol, written from
  pkg/server/{smtp,pop3}/listener.go (Start / serve / Notify), pkg/server/lifecycle.go (setupNotify),
  cmd/inbucket/main.go (signalLoop … Drain) and the two `startSession` functions.

  * `Notify`   the Notify channel of ONE listener together with the accept / WaitGroup / Drain protocol of
               `Shutdown.Drain` (its state is a field, its session steps are lifted verbatim).  New here:
               the accept loop may FAIL PERMANENTLY at any time (`Accept` returns a non-timeout error while the
               context is not cancelled → `s.notify <- err; close(s.notify); return`), Start's two bind-failure
               paths (`s.notify <- err; close(s.notify); return` before the accept loop exists), the merger
               goroutine of `Services.setupNotify`, main's loop (signal | Notify → cancel → Drain), and a
               run-time panic (close of a closed channel, send on a closed channel) that KILLS THE PROCESS:
               no goroutine takes another step.  Parameter `startClosesNotify`: does `Start` execute
               `close(s.notify)` after `s.listener.Close()`?  (regenerated fact: no.)
  * `Balance`  the Add/Done balance of one session goroutine as a PROGRAM with its exits: the statements
               that matter (`wg.Add(1)`, registration of the `defer` that calls `wg.Done()`, every point at
               which the goroutine may leave early) in source order, and an accept / session-end / Drain
               interleaving model in which a session may end at ANY of its exits.  (regenerated fact: the
               statement skeleton of both `startSession`s, wrapper closure included.)

  Granularity as in `Shutdown`: one step = one synchronisation-relevant action of one goroutine.
-/
namespace Ibx.Model.ShutdownNotify
open Ibx.Model.Shutdown

/-! ## (a) the Notify channel of a listener -/
namespace Notify

structure Cfg where
  drain : Drain.Cfg
  /-- `Start` executes `close(s.notify)` after `s.listener.Close()` (NOT the present source) -/
  startClosesNotify : Bool
  /-- may a signal (SIGINT / SIGTERM; the harness's own `cancel()`) arrive while main is in its loop? -/
  signals : Bool
  /-- may another fallible service (the other mail server, the web server) report a failure first? -/
  others : Bool
  deriving DecidableEq, Repr

/-- program counter of `Start` -/
inductive StartPc
  | init       -- resolving / binding the address
  | failSent   -- bind failed, `s.notify <- err` executed, `close(s.notify)` not yet
  | failed     -- … closed, Start has returned; no accept loop was ever started
  | waiting    -- `go s.serve(ctx); readyFunc(); <-ctx.Done()`
  | closedL    -- `s.listener.Close()` executed
  | returned
  deriving DecidableEq, Repr

/-- where the accept loop is inside its fatal-error path (an overlay on `Drain.Acc.idle`) -/
inductive Fat
  | none      -- not in the fatal path
  | chose     -- `Accept` returned a permanent error and the `select` took `default` (ctx not cancelled then)
  | sent      -- `s.notify <- err` executed
  | closedN   -- `close(s.notify)` executed
  | done      -- `return` (deferred `s.wg.Done()` of serve executed)
  deriving DecidableEq, Repr

/-- what a receive from a Notify channel yields -/
inductive Tok
  | own     -- the error sent by THIS listener
  | zero    -- the zero value read from the closed, empty channel
  | other   -- another service's error
  deriving DecidableEq, Repr

/-- the goroutine of `Services.setupNotify`: ONE `select` over the services' Notify channels, then one send -/
inductive Merger
  | waiting
  | holding (t : Tok)
  | done
  deriving DecidableEq, Repr

/-- cmd/inbucket/main.go: `signalLoop` (signal | `<-services.Notify()` → `svcCancel()`), then `Drain()` -/
inductive MainPc
  | looping | draining | finished
  deriving DecidableEq, Repr

structure St where
  d         : Drain.St     -- ctx, listener, accept loop, WaitGroup, sessions (see `Shutdown.Drain`)
  start     : StartPc
  fat       : Fat
  buf       : Nat          -- errors buffered in `s.notify` (capacity 1)
  nclosed   : Bool         -- `s.notify` is closed
  closes    : Nat          -- ghost: executions of `close(s.notify)`
  sends     : Nat          -- ghost: executions of `s.notify <- err`
  panicked  : Bool         -- a goroutine panicked; the process is dead
  merger    : Merger
  cbuf      : Option Tok   -- the merged channel of `Services.Notify()` (capacity 1)
  main      : MainPc
  delivered : Nat          -- ghost: times main received THIS listener's error
  deriving DecidableEq, Repr

/-- before Start has bound the address no accept loop exists and nothing is counted -/
def pre (c : Drain.Cfg) : Drain.St := { Drain.init c with acc := .exited, wg := 0 }

def init (c : Cfg) : St :=
  { d := pre c.drain, start := .init, fat := .none, buf := 0, nclosed := false, closes := 0, sends := 0,
    panicked := false, merger := .waiting, cbuf := none, main := .looping, delivered := 0 }

/-- `close(s.notify)`: closing a closed channel is a run-time panic -/
def closeN (s : St) : St :=
  { s with closes := s.closes + 1, nclosed := true, panicked := s.nclosed }

/-- `defer s.wg.Done()` of serve, when the accept loop is counted -/
def serveDone (c : Cfg) (d : Drain.St) : Drain.St :=
  { d with acc := .exited, wg := d.wg - (if c.drain.serveCounted then 1 else 0) }

/-- one action of one goroutine of a LIVE process -/
inductive Act (c : Cfg) : St → St → Prop
  -- Start
  /-- `ResolveTCPAddr` / `Listen` fails: `s.notify <- err` (buffer 1, empty: does not block) -/
  | bindFail (s : St) : s.start = .init → s.nclosed = false → s.buf = 0 →
      Act c s { s with start := .failSent, buf := 1, sends := s.sends + 1 }
  | bindFailClose (s : St) : s.start = .failSent → Act c s (closeN { s with start := .failed })
  /-- bound: `s.wg.Add(1); go s.serve(ctx); readyFunc()` -/
  | bindOk (s : St) : s.start = .init →
      Act c s { s with start := .waiting,
                       d := { s.d with acc := .idle, wg := s.d.wg + (if c.drain.serveCounted then 1 else 0) } }
  /-- `<-ctx.Done(); s.listener.Close()` -/
  | startCloseL (s : St) : s.start = .waiting → s.d.cancelled = true →
      Act c s { s with start := .closedL, d := { s.d with closed := true } }
  | startReturn (s : St) : s.start = .closedL → c.startClosesNotify = false → Act c s { s with start := .returned }
  /-- the variant: `close(s.notify)` at the end of Start -/
  | startCloseN (s : St) : s.start = .closedL → c.startClosesNotify = true →
      Act c s (closeN { s with start := .returned })
  -- serve
  | accept (s : St) : s.d.acc = .idle → s.fat = .none → s.d.closed = false →
      Act c s { s with d := { s.d with acc := .gotConn, accepted := s.d.accepted + 1 } }
  | accAdd (s : St) : s.d.acc = .gotConn → c.drain.wgAdd.before = true →
      Act c s { s with d := { s.d with acc := .added, wg := s.d.wg + 1 } }
  | spawn (s : St) : (s.d.acc = .added ∨ (s.d.acc = .gotConn ∧ c.drain.wgAdd.before = false)) →
      Act c s { s with d := { s.d with acc := .idle, spawned := s.d.spawned + 1 } }
  /-- `Accept` fails (closed listener, or any permanent error) and `ctx.Done()` is readable: `return` -/
  | acceptErrDone (s : St) : s.d.acc = .idle → s.fat = .none → s.d.cancelled = true →
      Act c s { s with d := serveDone c s.d }
  /-- `Accept` fails permanently (EMFILE …) while the context is not cancelled: the `select` takes `default` -/
  | acceptErrFatal (s : St) : s.d.acc = .idle → s.fat = .none → s.d.cancelled = false →
      Act c s { s with fat := .chose }
  /-- `s.notify <- err` (would block on a full buffer: not enabled then) -/
  | fatalSend (s : St) : s.fat = .chose → s.nclosed = false → s.buf = 0 →
      Act c s { s with fat := .sent, buf := 1, sends := s.sends + 1 }
  /-- … on a closed channel: run-time panic -/
  | fatalSendClosed (s : St) : s.fat = .chose → s.nclosed = true → Act c s { s with panicked := true }
  | fatalClose (s : St) : s.fat = .sent → Act c s (closeN { s with fat := .closedN })
  | fatalReturn (s : St) : s.fat = .closedN → Act c s { s with fat := .done, d := serveDone c s.d }
  -- session goroutines: exactly the steps of `Shutdown.Drain`
  | sess (s : St) (d' : Drain.St) : Drain.SessStep c.drain s.d d' → Act c s { s with d := d' }
  -- the merger goroutine
  | mergeRecv (s : St) : s.merger = .waiting → 0 < s.buf →
      Act c s { s with merger := .holding .own, buf := s.buf - 1 }
  | mergeRecvClosed (s : St) : s.merger = .waiting → s.buf = 0 → s.nclosed = true →
      Act c s { s with merger := .holding .zero }
  | mergeOther (s : St) : c.others = true → s.merger = .waiting → Act c s { s with merger := .holding .other }
  | mergeFwd (s : St) (t : Tok) : s.merger = .holding t → s.cbuf = none →
      Act c s { s with merger := .done, cbuf := some t }
  -- main
  | signal (s : St) : c.signals = true → s.main = .looping →
      Act c s { s with main := .draining, d := { s.d with cancelled := true } }
  /-- `case <-services.Notify(): svcCancel(); break signalLoop` — whatever the value is -/
  | mainRecv (s : St) (t : Tok) : s.main = .looping → s.cbuf = some t →
      Act c s { s with main := .draining, cbuf := none, d := { s.d with cancelled := true },
                       delivered := s.delivered + (if t = .own then 1 else 0) }
  /-- `Drain()` called by anyone: `s.wg.Wait()` returns exactly when the counter is zero -/
  | drain (s : St) : s.d.wg = 0 → Act c s { s with d := { s.d with drained := true } }
  | mainDrain (s : St) : s.main = .draining → s.d.wg = 0 →
      Act c s { s with main := .finished, d := { s.d with drained := true } }

/-- a dead process takes no step -/
def Step (c : Cfg) (s s' : St) : Prop := s.panicked = false ∧ Act c s s'

inductive Path (c : Cfg) : St → St → Prop
  | refl (s : St) : Path c s s
  | step {s t u : St} : Path c s t → Step c t u → Path c s u

abbrev Reach (c : Cfg) (s : St) : Prop := Path c (init c) s

/-- steps still to be taken before the whole shutdown sequence is over, once the accept loop has failed -/
def fatW : Fat → Nat
  | .none => 0 | .chose => 3 | .sent => 2 | .closedN => 1 | .done => 0
def mergerW : Merger → Nat
  | .waiting => 4 | .holding _ => 2 | .done => 0
def cbufW : Option Tok → Nat
  | none => 0 | some _ => 1
def mainW : MainPc → Nat
  | .looping => 2 | .draining => 1 | .finished => 0
def startW : StartPc → Nat
  | .waiting => 2 | .closedL => 1 | _ => 0
def sessW (d : Drain.St) : Nat := 4 * d.spawned + 3 * d.running + 2 * d.closing2 + d.closing1
/-- the error's way to main -/
def pipeW (s : St) : Nat := mergerW s.merger + cbufW s.cbuf + mainW s.main
def rank (s : St) : Nat := fatW s.fat + pipeW s + startW s.start + sessW s.d

end Notify

/-! ## (b) the Add/Done balance of a session goroutine -/
namespace Balance

/-- the ways a session goroutine can be left -/
inductive Exit
  | normal            -- QUIT, end of the command loop
  | handshakeFailed   -- TLS handshake failed (ForceTLS: before the greeting; plain-text client on a TLS port)
  | timeout           -- read deadline
  | netError          -- reset, EOF, failing write
  | panic             -- unrecovered panic: the process dies (neither handler.go has a `recover`)
  deriving DecidableEq, Repr

/-- the statements of the session goroutine that matter for the balance, in source order (a wrapper closure
    first, then `startSession`, unexported helpers inlined) -/
inductive Stmt
  | add                 -- `s.wg.Add(1)` executed by the session goroutine itself
  | deferDone           -- unconditional `defer` whose function calls `s.wg.Done()` once
  | ret (e : Exit)      -- the goroutine MAY leave here (a `return`; a call that may panic)
  deriving DecidableEq, Repr

structure Out where
  adds  : Nat    -- `Add(1)`s executed by the goroutine
  dones : Nat    -- `Done()`s executed by its deferred functions
  exit  : Exit
  deriving DecidableEq, Repr

/-- run the goroutine; it leaves at its `take`-th early exit point, or at the end (with `fin`) if it has
    fewer.  On every exit — `return`, end of function, panic — the deferred functions registered SO FAR run. -/
def run : List Stmt → Nat → Exit → Nat → Nat → Out
  | [], _, fin, a, d => ⟨a, d, fin⟩
  | .add :: r, n, fin, a, d => run r n fin (a + 1) d
  | .deferDone :: r, n, fin, a, d => run r n fin a (d + 1)
  | .ret e :: _, 0, _, a, d => ⟨a, d, e⟩
  | .ret _ :: r, n + 1, fin, a, d => run r n fin a d

/-- the structural condition the regenerated skeleton is checked against: at every exit point and at the end
    the deferred `Done`s registered so far are exactly the acceptor's `Add` (`owed`) plus the goroutine's own -/
def covers (owed : Nat) : List Stmt → Nat → Nat → Bool
  | [], a, d => d == owed + a
  | .add :: r, a, d => covers owed r (a + 1) d
  | .deferDone :: r, a, d => covers owed r a (d + 1)
  | .ret e :: r, a, d => (e == .panic || d == owed + a) && covers owed r a d

def Stmt.parse : String → Option Stmt
  | "add" => some .add
  | "deferDone" => some .deferDone
  | "return" => some (.ret .netError)
  | _ => none

/-- `none` as soon as one token is not understood (fail-closed) -/
def parseProg : List String → Option (List Stmt)
  | [] => some []
  | t :: r => match Stmt.parse t, parseProg r with
    | some s, some p => some (s :: p)
    | _, _ => none

structure Cfg where
  /-- the accept loop executes `wg.Add(1)` before the `go` statement (fact `wgAdd.before`) -/
  accAdds : Bool
  prog    : List Stmt
  deriving DecidableEq, Repr

def Cfg.owed (c : Cfg) : Nat := if c.accAdds then 1 else 0

/-- what one finished session leaves in the counter: 0 = balanced, positive = leaked counts -/
def Cfg.left (c : Cfg) (n : Nat) (fin : Exit) : Int :=
  let o := run c.prog n fin 0 0
  (c.owed : Int) + o.adds - o.dones

structure St where
  cancelled : Bool
  closed    : Bool
  accExited : Bool
  wg        : Int
  running   : Nat    -- accepted connections whose goroutine is not over
  ended     : Nat
  leaked    : Int    -- ghost: what the finished sessions left in the counter
  died      : Bool   -- an unrecovered panic killed the process
  drained   : Bool
  deriving DecidableEq, Repr

/-- the accept loop is counted (fact `serveCounted`) -/
def init : St :=
  { cancelled := false, closed := false, accExited := false, wg := 1, running := 0, ended := 0, leaked := 0,
    died := false, drained := false }

inductive Step (c : Cfg) : St → St → Prop
  | cancel (s : St) : s.died = false → Step c s { s with cancelled := true }
  | closeL (s : St) : s.died = false → s.cancelled = true → Step c s { s with closed := true }
  /-- Accept, `wg.Add(1)` if the source has it there, `go` -/
  | accept (s : St) : s.died = false → s.accExited = false → s.closed = false →
      Step c s { s with running := s.running + 1, wg := s.wg + c.owed }
  | acceptFail (s : St) : s.died = false → s.accExited = false → s.closed = true →
      Step c s { s with accExited := true, wg := s.wg - 1 }
  /-- a session is over: it left at its `n`-th exit point (or at the end, with `fin`).  Its own `Add`s and
      the `Done`s of its deferred functions are applied here (their order inside the session's life is the
      subject of `Shutdown.Drain`; here only the total matters). -/
  | sessEnd (s : St) (n : Nat) (fin : Exit) : s.died = false → 0 < s.running →
      (run c.prog n fin 0 0).exit ≠ .panic →
      Step c s { s with running := s.running - 1, ended := s.ended + 1,
                        wg := s.wg - c.owed + c.left n fin, leaked := s.leaked + c.left n fin }
  | sessPanic (s : St) (n : Nat) (fin : Exit) : s.died = false → 0 < s.running →
      (run c.prog n fin 0 0).exit = .panic → Step c s { s with died := true }
  | drain (s : St) : s.died = false → s.wg = 0 → Step c s { s with drained := true }

inductive Path (c : Cfg) : St → St → Prop
  | refl (s : St) : Path c s s
  | step {s t u : St} : Path c s t → Step c t u → Path c s u

abbrev Reach (c : Cfg) (s : St) : Prop := Path c init s

/-- POP3 `startSession` as it is: the cleanup `defer` (conn.Close, `wg.Done`) is registered before the
    greeting; every later exit — a failed TLS handshake shows as a failing first write or read — leaves the
    command loop by `break` and falls to the end of the function -/
def pop3Now : List Stmt := [.deferDone, .ret .handshakeFailed, .ret .timeout, .ret .netError]
/-- SMTP: wrapper closure `defer s.wg.Done(); s.startSession(..)`, then `s.wg.Add(1)` and the cleanup `defer` -/
def smtpNow : List Stmt := [.deferDone, .add, .deferDone, .ret .handshakeFailed, .ret .timeout, .ret .netError]
/-- a ForceTLS handshake done BEFORE the cleanup `defer` is registered, returning when it fails -/
def pop3EarlyReturn : List Stmt := [.ret .handshakeFailed, .deferDone, .ret .timeout, .ret .netError]

end Balance

end Ibx.Model.ShutdownNotify
