import Ibx.Bytes
import Ibx.Model.Wild
/-
  Model of the three domain decisions of pkg/policy/address.go and of config.Process's
  lower-casing of the five domain lists.
-/
namespace Ibx.Model.Policy
open Ibx Ibx.Bytes

structure Cfg where
  defaultAccept : Bool
  acceptDomains : List Bytes
  rejectDomains : List Bytes
  defaultStore : Bool
  storeDomains : List Bytes
  discardDomains : List Bytes
  rejectOrigin : List Bytes
  deriving Repr

/-- config.Process: SliceToLower on each list (ASCII configuration) -/
def process (c : Cfg) : Cfg :=
  { c with acceptDomains := c.acceptDomains.map lower, rejectDomains := c.rejectDomains.map lower,
           storeDomains := c.storeDomains.map lower, discardDomains := c.discardDomains.map lower,
           rejectOrigin := c.rejectOrigin.map lower }

def shouldAccept (c : Cfg) (domain : Bytes) : Bool :=
  let d := lower domain
  if c.defaultAccept && !c.rejectDomains.contains d then true
  else if !c.defaultAccept && c.acceptDomains.contains d then true
  else false

def shouldStore (c : Cfg) (domain : Bytes) : Bool :=
  let d := lower domain
  if c.defaultStore && !c.discardDomains.contains d then true
  else if !c.defaultStore && c.storeDomains.contains d then true
  else false

/-- ShouldAcceptOriginDomain: false as soon as one pattern matches -/
def originLoop (d : Bytes) : List Bytes → Bool
  | [] => true
  | p :: ps => if Wild.matchDP p d then false else originLoop d ps

def shouldAcceptOrigin (c : Cfg) (domain : Bytes) : Bool :=
  originLoop (lower domain) c.rejectOrigin

end Ibx.Model.Policy
