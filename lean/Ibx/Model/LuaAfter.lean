import Ibx.Bytes
import Ibx.Model.Pool
/-
  Model of the AFTER-event half of the Lua glue (pkg/extension/luahost): lua.go handleAfterMessageStored /
  handleAfterMessageDeleted / detachAddresses, bind_message.go (the `message_metadata` userdata: messageMetadataIndex,
  messageMetadataNewIndex, newMessageMetadata), bind_address.go (mailAddressIndex / mailAddressNewIndex) and the getters of
  bind_inbucket.go (inbucketAfterIndex / funcOrNil).

  Code shape modelled (both after-handlers; `msg` is the listener's own shallow copy of the event, made by
  AsyncEventBroker.Emit — `l, ev := l, *event`):

      logger, ls, ib, ok := h.prepareInbucketFuncCall(name);  if !ok { return }        -- Acquire.getFails / .noInbucket
      defer h.pool.putState(ls)
      detachAddresses(&msg)                      -- msg.From := &copy(*msg.From); msg.To := fresh slice of &copy(*to[i])
      err := ls.CallByParam(lua.P{Fn: ib.After.X, NRet: 0, Protect: true}, wrapMessageMetadata(ls, &msg))
      if err != nil { log }                      -- result and error are ignored; nothing is returned

  SHARING is explicit.  `*mail.Address` objects live in a heap (`Heap`, a reference is an index); an `event.MessageMetadata`
  (`Meta`) holds references.  The event handed to Emit shares its address objects with the stored message of the memory
  store (every recipient's copy of one transaction) and with the copies of the event the other listeners receive.  The
  struct itself is a per-listener copy: assignments to msg.<field> never leave it.  The variant parameter `AddrSharing`
  says whether the handler runs on its own copies of the address objects (`detached` — the source, pinned by the T1 fact
  `afterHandlersDetach`) or on the event's (`shared` — the tree before fix 07cb6da).

  PARAMETER: the Lua interpreter.  A handler is an abstract program (`Prog`) over the operations the bindings offer; that
  gopher-lua realises the intended semantics of the generated scripts is checked by T2 (harness/cmd/drive/c17_after.go).
  Standing hypothesis of the theorems: `WF` — no dangling reference (pointers of a Go program never dangle).
-/
namespace Ibx.Model.LuaAfter
open Ibx

/-- does an after-handler get its own copies of the address objects? (regenerated: Gen.Lua.afterHandlersDetach) -/
inductive AddrSharing
  | detached | shared | unknown
  deriving DecidableEq, Repr

def AddrSharing.ofString (s : String) : AddrSharing :=
  if s = "detached" then .detached else if s = "shared" then .shared else .unknown

/-- a net/mail.Address -/
structure Addr where
  name : Bytes
  address : Bytes
  deriving DecidableEq, Repr

abbrev Ref := Nat
/-- the *mail.Address objects that exist; a reference is an index -/
abbrev Heap := List Addr

/-- dereference (a dangling reference does not occur under `WF`) -/
def deref (h : Heap) (r : Ref) : Addr := (h[r]?).getD ⟨[], []⟩

/-- event.MessageMetadata with its pointers (`none` = nil pointer); `Seen` is not reachable from Lua -/
structure Meta where
  mailbox : Bytes
  id : Bytes
  frm : Option Ref
  to : List (Option Ref)
  date : Int
  subject : Bytes
  size : Int
  deriving DecidableEq, Repr

/-- `time.Time{}.Unix()` -/
def zeroDate : Int := -62135596800

/-- `&event.MessageMetadata{}` (message_metadata.new()) -/
def zeroMeta : Meta := { mailbox := [], id := [], frm := none, to := [], date := zeroDate, subject := [], size := 0 }

/-- a metadata with the address objects written out: what a reader of the struct sees -/
structure View where
  mailbox : Bytes
  id : Bytes
  frm : Option Addr
  to : List (Option Addr)
  date : Int
  subject : Bytes
  size : Int
  deriving DecidableEq, Repr

def view (h : Heap) (m : Meta) : View :=
  { mailbox := m.mailbox, id := m.id, frm := m.frm.map (deref h), to := m.to.map (fun o => o.map (deref h)),
    date := m.date, subject := m.subject, size := m.size }

/-- no dangling reference -/
def WF (h : Heap) (m : Meta) : Prop :=
  (∀ r, m.frm = some r → r < h.length) ∧ (∀ r, some r ∈ m.to → r < h.length)

/-! ## field tables of the bindings -/

inductive MField
  | mailbox | id | frm | to | date | subject | size | unknown
  deriving DecidableEq, Repr

/-- Lua names of messageMetadataIndex / messageMetadataNewIndex (tied to Gen.Lua.metaIndex / metaNewIndex) -/
def metaFieldNames : List (String × MField) :=
  [("date", .date), ("from", .frm), ("id", .id), ("mailbox", .mailbox), ("size", .size), ("subject", .subject), ("to", .to)]

inductive AField
  | name | address | unknown
  deriving DecidableEq, Repr

/-- Lua names of mailAddressIndex / mailAddressNewIndex -/
def addrFieldNames : List (String × AField) := [("address", .address), ("name", .name)]

def lookupName {α : Type} (tbl : List (String × α)) (dflt : α) (n : Bytes) : α :=
  match tbl.find? (fun p => Bytes.ofAscii p.1 == n) with
  | some p => p.2
  | none => dflt

def MField.ofName (n : Bytes) : MField := lookupName metaFieldNames .unknown n
def AField.ofName (n : Bytes) : AField := lookupName addrFieldNames .unknown n

/-! ## handler programs -/

/-- the two message_metadata objects a program can name: its argument and one made by message_metadata.new() -/
inductive Tgt
  | msg | fresh
  deriving DecidableEq, Repr

/-- expressions that denote an address object -/
inductive AddrExpr
  | frm (t : Tgt)                 -- t.from           (always a userdata, possibly around a nil pointer)
  | to (t : Tgt) (i : Nat)        -- t.to[i]          (1-based; out of range = Lua nil)
  | new (name address : Bytes)    -- address.new(name, address)
  deriving DecidableEq, Repr

/-- entries of a table constructor -/
inductive Item
  | addr (a : AddrExpr)
  | int (n : Nat)
  | str (s : Bytes)
  | bool (b : Bool)
  | self (t : Tgt)                -- the message_metadata userdata itself (a userdata of the wrong type)
  | tbl                           -- {}
  deriving DecidableEq, Repr

/-- values a program assigns -/
inductive Val
  | nil
  | bool (b : Bool)
  | int (n : Nat)
  | str (s : Bytes)
  | tbl (items : List Item)
  | addr (a : AddrExpr)
  | self (t : Tgt)
  | func
  deriving DecidableEq, Repr

inductive Op
  | get (t : Tgt) (f : Bytes)                    -- report(t.<f>)
  | getAddr (a : AddrExpr) (f : Bytes)           -- report(<a>.<f>)
  | slot (k : Bytes)                             -- report(inbucket.after.<k>)
  | set (t : Tgt) (f : Bytes) (v : Val)          -- t.<f> = v
  | setAddr (a : AddrExpr) (f : Bytes) (v : Val) -- <a>.<f> = v
  | raise                                        -- error("boom")
  | ret                                          -- return <anything>   (NRet: 0 — the values are dropped)
  deriving DecidableEq, Repr

abbrev Prog := List Op

def Op.isRead : Op → Bool
  | .get _ _ => true
  | .getAddr _ _ => true
  | .slot _ => true
  | _ => false

/-- what `report` tells about a Lua value -/
inductive Obs
  | nil
  | str (s : Bytes)
  | int (n : Int)
  | addr            -- a userdata
  | tbl (n : Nat)   -- a table of n entries
  | func
  deriving DecidableEq, Repr

/-- which of the two slots of `inbucket.after` hold a function (inbucketAfterIndex / funcOrNil read them back) -/
structure Env where
  stored : Bool
  deleted : Bool
  deriving DecidableEq, Repr

def slotNames : List (String × Bool) := [("message_deleted", false), ("message_stored", true)]

def readSlot (env : Env) (k : Bytes) : Obs :=
  match lookupName (slotNames.map (fun p => (p.1, some p.2))) none k with
  | some true => if env.stored then .func else .nil
  | some false => if env.deleted then .func else .nil
  | none => .nil

/-! ## reading -/

/-- messageMetadataIndex on a metadata whose address objects are written out -/
def readMeta (v : View) (f : Bytes) : Obs :=
  match MField.ofName f with
  | .mailbox => .str v.mailbox
  | .id => .str v.id
  | .frm => .addr
  | .to => .tbl v.to.length
  | .date => .int v.date
  | .subject => .str v.subject
  | .size => .int v.size
  | .unknown => .nil

/-- what an address expression evaluates to -/
inductive AddrVal
  | luaNil              -- not a userdata at all
  | nilPtr              -- a userdata around a nil *mail.Address
  | obj (a : Addr)      -- a userdata around a live object with this content
  deriving DecidableEq, Repr

def viewAddr (vm vf : View) : AddrExpr → AddrVal
  | .frm t => match (match t with | .msg => vm | .fresh => vf).frm with
    | none => .nilPtr
    | some a => .obj a
  | .to t i =>
    if i = 0 then .luaNil
    else match (match t with | .msg => vm | .fresh => vf).to[i - 1]? with
      | none => .luaNil
      | some none => .nilPtr
      | some (some a) => .obj a
  | .new n a => .obj ⟨n, a⟩

/-- mailAddressIndex; `none` = the statement raises (indexing nil; the Go panic of a nil dereference inside the
    protected call) -/
def readAddr (av : AddrVal) (f : Bytes) : Option Obs :=
  match av with
  | .luaNil => none
  | .nilPtr => match AField.ofName f with
    | .unknown => some .nil
    | _ => none
  | .obj a => match AField.ofName f with
    | .name => some (.str a.name)
    | .address => some (.str a.address)
    | .unknown => some .nil

/-- the observation of a read statement as a function of what the two metadata objects LOOK like -/
def readView (env : Env) (vm vf : View) : Op → Option Obs
  | .get t f => some (readMeta (match t with | .msg => vm | .fresh => vf) f)
  | .getAddr a f => readAddr (viewAddr vm vf a) f
  | .slot k => some (readSlot env k)
  | _ => none

/-! ## the interpreter -/

structure St where
  heap : Heap
  msg : Meta          -- the listener's copy of the event (wrapMessageMetadata(ls, &msg))
  fresh : Meta        -- message_metadata.new()
  obs : List Obs      -- newest first
  deriving DecidableEq, Repr

def St.meta (st : St) : Tgt → Meta
  | .msg => st.msg
  | .fresh => st.fresh

def St.setMeta (st : St) (t : Tgt) (m : Meta) : St :=
  match t with
  | .msg => { st with msg := m }
  | .fresh => { st with fresh := m }

/-- references behind an address expression -/
inductive AddrRef
  | luaNil
  | nilPtr
  | ref (r : Ref)
  | imm (a : Addr)    -- address.new(…): an object nobody else holds yet
  deriving DecidableEq, Repr

def evalAddr (st : St) : AddrExpr → AddrRef
  | .frm t => match (st.meta t).frm with
    | none => .nilPtr
    | some r => .ref r
  | .to t i =>
    if i = 0 then .luaNil
    else match (st.meta t).to[i - 1]? with
      | none => .luaNil
      | some none => .nilPtr
      | some (some r) => .ref r
  | .new n a => .imm ⟨n, a⟩

def natBytes (n : Nat) : Bytes := (toString n).toList.map Char.toNat

/-- LState.CheckString: a string, or a number (converted) -/
def checkString : Val → Option Bytes
  | .str s => some s
  | .int n => some (natBytes n)
  | _ => none

/-- LState.CheckInt64: a number only -/
def checkInt : Val → Option Int
  | .int n => some (n : Int)
  | _ => none

/-- checkMailAddress(ls, 3) followed by the store: (heap, pointer) or `none` = raises -/
def storeAddr (st : St) (h : Heap) : AddrExpr → Option (Heap × Option Ref)
  | a => match evalAddr st a with
    | .luaNil => none
    | .nilPtr => some (h, none)
    | .ref r => some (h, some r)
    | .imm x => some (h ++ [x], some h.length)

/-- the ForEach of messageMetadataNewIndex "to": address userdata are appended in table order, everything else is skipped -/
def storeItems (st : St) : Heap → List Item → Heap × List (Option Ref)
  | h, [] => (h, [])
  | h, .addr a :: rest =>
    match storeAddr st h a with
    | none => storeItems st h rest                -- a nil entry of the constructor: a hole
    | some (h1, p) => let (h2, l) := storeItems st h1 rest; (h2, p :: l)
  | h, _ :: rest => storeItems st h rest

def fieldOfAddr (a : Addr) (f : AField) (s : Bytes) : Addr :=
  match f with
  | .name => { a with name := s }
  | .address => { a with address := s }
  | .unknown => a

/-- one statement; `none` = it raises (nothing was changed by it: every check precedes the store) -/
def stepOp (env : Env) (st : St) : Op → Option St
  | .set t f v =>
    let m := st.meta t
    match MField.ofName f with
    | .mailbox => (checkString v).map (fun s => st.setMeta t { m with mailbox := s })
    | .id => (checkString v).map (fun s => st.setMeta t { m with id := s })
    | .subject => (checkString v).map (fun s => st.setMeta t { m with subject := s })
    | .date => (checkInt v).map (fun n => st.setMeta t { m with date := n })
    | .size => (checkInt v).map (fun n => st.setMeta t { m with size := n })
    | .frm => match v with
      | .addr a => (storeAddr st st.heap a).map (fun (h, p) => { st with heap := h }.setMeta t { m with frm := p })
      | _ => none
    | .to => match v with
      | .tbl items => let (h, l) := storeItems st st.heap items; some ({ st with heap := h }.setMeta t { m with to := l })
      | _ => none
    | .unknown => none
  | .setAddr a f v =>
    match evalAddr st a with
    | .luaNil => none
    | av =>
      match AField.ofName f with
      | .unknown => none
      | fld => match checkString v with
        | none => none
        | some s => match av with
          | .ref r => some { st with heap := st.heap.set r (fieldOfAddr (deref st.heap r) fld s) }
          | .imm _ => some st
          | _ => none          -- nil pointer: the Go panic becomes the error of the protected call
  | .raise => none
  | .ret => none
  | op => (readView env (view st.heap st.msg) (view st.heap st.fresh) op).map (fun o => { st with obs := o :: st.obs })

inductive Status
  | ok | error
  deriving DecidableEq, Repr

/-- the protected call: statements in order until the end, a `return`, or the first one that raises -/
def run (env : Env) : St → Prog → St × Status
  | st, [] => (st, .ok)
  | st, .ret :: _ => (st, .ok)
  | st, op :: rest => match stepOp env st op with
    | some st' => run env st' rest
    | none => (st, .error)

/-! ## the Go glue -/

/-- the slice loop of detachAddresses -/
def detachTo : Heap → List (Option Ref) → Heap × List (Option Ref)
  | h, [] => (h, [])
  | h, none :: rest => let (h', l) := detachTo h rest; (h', none :: l)
  | h, some r :: rest => let (h', l) := detachTo (h ++ [deref h r]) rest; (h', some h.length :: l)

/-- detachAddresses(&msg) -/
def detach (h : Heap) (m : Meta) : Heap × Meta :=
  let (h1, f) := match m.frm with
    | none => (h, none)
    | some r => (h ++ [deref h r], some h.length)
  let (h2, l) := detachTo h1 m.to
  (h2, { m with frm := f, to := l })

/-- what the script and the rest of the program can tell about ONE call of the handler -/
structure Call where
  ev : Meta              -- ghost: the event the listener was called with
  obs : List Obs         -- what the handler reported, in order
  status : Status        -- only logged by the glue
  deriving DecidableEq, Repr

/-- one call of a registered after-handler on a state from the pool: the heap afterwards and the record of the call.
    Nothing else comes back: NRet is 0, the error is logged, the listener has no result. -/
def afterCall (v : AddrSharing) (env : Env) (p : Prog) (h : Heap) (ev : Meta) : Heap × Call :=
  let (h1, m) := match v with
    | .detached => detach h ev
    | _ => (h, ev)
  let (st, s) := run env { heap := h1, msg := m, fresh := zeroMeta, obs := [] } p
  (st.heap, { ev := ev, obs := st.obs.reverse, status := s })

/-- what a script leaves in a slot of `inbucket.after` -/
inductive SlotVal
  | undefined                 -- never assigned
  | notFunction               -- `inbucket.after.x = 42`: inbucketAfterNewIndex raises (CheckFunction), the slot stays nil
  | handler (p : Prog)        -- a function
  deriving Repr

/-- wireFunctions: a listener is registered exactly when the slot holds a function -/
def SlotVal.listener : SlotVal → Option Prog
  | .handler p => some p
  | _ => none

/-- the events of one listener are handled one at a time in emission order (the per-name FIFO of the asynchronous
    broker, Model.Broker / Props.C16Broker): heap afterwards and the calls made -/
def dispatch (v : AddrSharing) (env : Env) (l : Option Prog) : Heap → List Meta → Heap × List Call
  | h, [] => (h, [])
  | h, ev :: rest =>
    match l with
    | none => dispatch v env l h rest
    | some p =>
      let (h1, c) := afterCall v env p h ev
      let (h2, cs) := dispatch v env l h1 rest
      (h2, c :: cs)

/-! ## the state pool around a call -/

/-- prepareInbucketFuncCall -/
inductive Acquire
  | getFails      -- pool.getState failed
  | noInbucket    -- getInbucket failed: the state is dropped
  | ok
  deriving DecidableEq, Repr

/-- the pool steps of ONE listener invocation by caller `t`: `d0` = what a newly created state has on its stack,
    `d` = what the call leaves there (whatever the handler did, however it ended) -/
def poolSteps (t : Pool.Tid) (a : Acquire) (d0 d : Nat) : List Pool.Op :=
  match a with
  | .getFails => [.getFail t]
  | .noInbucket => [.get t d0, .leak t]
  | .ok => [.get t d0, .use t d, .putClear t, .putAppend t]

structure Sys where
  pool : Pool.St
  heap : Heap

/-- handleAfterMessageStored / handleAfterMessageDeleted as a whole; `none` = a pool step was not enabled -/
def handleAfter (v : AddrSharing) (env : Env) (t : Pool.Tid) (a : Acquire) (d0 d : Nat) (p : Prog) (s : Sys) (ev : Meta) :
    Option (Sys × Option Call) :=
  match Pool.runOps s.pool (poolSteps t a d0 d) with
  | none => none
  | some pool' =>
    match a with
    | .ok => let (h, c) := afterCall v env p s.heap ev; some ({ pool := pool', heap := h }, some c)
    | _ => some ({ pool := pool', heap := s.heap }, none)

/-- the events of the Lua listener's FIFO handled one after the other by caller `t` (the queue's goroutine), each with
    the stack depth its call leaves; `none` = a pool step was not enabled -/
def dispatchSys (v : AddrSharing) (env : Env) (t : Pool.Tid) (d0 : Nat) (p : Prog) : Sys → List (Meta × Nat) → Option (Sys × List Call)
  | s, [] => some (s, [])
  | s, (ev, d) :: rest =>
    match handleAfter v env t .ok d0 d p s ev with
    | some (s1, some c) => (dispatchSys v env t d0 p s1 rest).map (fun r => (r.1, c :: r.2))
    | _ => none

end Ibx.Model.LuaAfter
