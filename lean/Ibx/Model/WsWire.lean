import Ibx.Model.WsListener
import Ibx.Spec.HubLog
/-
  Model.WsWire — ONE WebSocket listener down to the WIRE: what the socket writer goroutine of
  pkg/rest/socketv1_controller.go / socketv2_controller.go (WSWriter) puts on the connection, and what a
  client that decodes one JSON value per message (gorilla `ReadJSON`, the web UI's `JSON.parse(msg.data)`)
  gets out of it.  Layered on Model.WsListener (the FIXED close protocol): `WSt.s` is the listener state of
  that model, every `WStep` is a stutter or exactly one `Step .fixed` of it (Lemmas.WsWire.wstep_base), so
  every theorem of Props/C15 part 2 holds of `w.s` for every reachable `w`.

  New here
    * the mailbox FILTER of Receive / Delete (`ml.mailbox != "" && ml.mailbox != msg.Mailbox → return nil`;
      v1's Delete ignores every event): `offered` is what the hub passed to the listener, `accepted` what went
      on to the queue machinery — event number i of Model.WsListener is `accepted[i]`;
    * the writer loop statement by statement:
          select {
          case ev := <-ml.c:      wTake                         (the receive; `hold` = what the writer has in hand)
              conn.WriteJSON(ev)  wWriteOne | wWriteFail        (one text message / error → return → Close())
          case <-ml.done:         wDone ok                      (one close message, error ignored; return → Close())
          case <-ticker.C:        wPing ok                      (one ping message / error → return → Close())
          }
      `tick` is the ticker's one-slot channel; the ticker fires whenever it likes;
    * the WRITER VARIANT, a fact regenerated from the source (Ibx/Tie/HubWire.lean):
          onePerFrame  the code as it is: the branch that received ONE value writes ONE message carrying it;
          batching k   after the receive, `if len(ml.c) >= k` the writer receives that many more events and
                       encodes all of them into the SAME text message (NextWriter … Encode … Encode … Close);
    * the CLIENT: `clientSees wire` = per text message the FIRST JSON value (what ReadJSON returns; the rest of
      the payload is never looked at), nothing for ping / close, nothing after a close message.
-/
namespace Ibx.Model.WsWire
open Ibx.Model.WsListener Ibx.Spec.HubLog

/-- one WebSocket message written by the server; a text message carries the JSON values of these events
    (numbers as in Model.WsListener), concatenated -/
inductive Frame where
  | text (evs : List Nat)
  | ping
  | close
deriving DecidableEq, Repr

def Frame.events : Frame → List Nat
  | .text evs => evs
  | _ => []

/-- what a one-value-per-message client decodes from a message -/
def Frame.decoded : Frame → List Nat
  | .text (e :: _) => [e]
  | _ => []

/-- the events a one-value-per-message client has decoded, in order; reading ends at a close message -/
def clientSees : List Frame → List Nat
  | [] => []
  | .close :: _ => []
  | f :: rest => f.decoded ++ clientSees rest

/-- no close message among them -/
def noClose (l : List Frame) : Prop := ∀ f ∈ l, f ≠ .close

/-- the listener's filter: `mailbox` = the name given to newMsgListenerVx ("" = none = all mailboxes);
    `deletes` = does Delete forward (v2) or ignore (v1) -/
structure Filter where
  mailbox : Option Nat
  deletes : Bool
deriving DecidableEq, Repr

def evMailbox : Ev → Nat
  | .stored m => m.mailbox
  | .deleted mb _ => mb

def Filter.accepts (F : Filter) (e : Ev) : Bool :=
  (match e with | .stored _ => true | .deleted _ _ => F.deletes) &&
  (match F.mailbox with | some k => decide (evMailbox e = k) | none => true)

inductive WsWriter where
  | onePerFrame
  | batching (k : Nat)
deriving DecidableEq, Repr

/-- where the writer is inside one iteration of its loop -/
inductive Stage where
  | select                 -- at the select
  | got                    -- received one event, has not written yet
  | batch (more : Nat)     -- (batching) decided to pack; `more` receives still to do before the write
deriving DecidableEq, Repr

structure WSt where
  s : St := {}
  stage : Stage := .select
  hold : List Nat := []         -- events received from the queue and not yet written
  wire : List Frame := []       -- messages written so far, complete ones only
  unwritten : List Nat := []    -- events the writer had in hand when a write failed
  writeFailed : Bool := false   -- some write (event or ping) returned an error
  tick : Bool := false          -- ticker.C holds a tick
  offered : List Ev := []       -- every event the hub passed to Receive / Delete, in the hub's order
  accepted : List Ev := []      -- those that passed the filter, in order: event i of the base model

inductive WStep (V : WsWriter) (F : Filter) (cap : Nat) : WSt → WSt → Prop
  /- hub goroutine: Receive / Delete with an event the filter refuses: `return nil`, nothing else happens -/
  | hubSkip (e : Ev) : w.s.registered = true → F.accepts e = false →
      WStep V F cap w { w with offered := w.offered ++ [e] }
  /- hub goroutine: the event passes the filter; the three outcomes of the select (Step.nbSend / nbClosed / nbSlow) -/
  | nbSend (e : Ev) : F.accepts e = true → w.s.registered = true → w.s.hubBlocked = false → w.s.chClosed = false →
      w.s.buf.length < cap →
      WStep V F cap w { w with s := w.s.push, offered := w.offered ++ [e], accepted := w.accepted ++ [e] }
  | nbClosed (e : Ev) : F.accepts e = true → w.s.registered = true → w.s.hubBlocked = false → w.s.done = true →
      WStep V F cap w { w with s := { w.s with registered := false, next := w.s.next + 1 },
                               offered := w.offered ++ [e], accepted := w.accepted ++ [e] }
  | nbSlow (e : Ev) : F.accepts e = true → w.s.registered = true → w.s.hubBlocked = false → w.s.chClosed = false →
      w.s.done = false → cap ≤ w.s.buf.length →
      WStep V F cap w { w with s := { w.s with registered := false, next := w.s.next + 1, done := true,
                                               doneCloses := w.s.doneCloses + 1 },
                               offered := w.offered ++ [e], accepted := w.accepted ++ [e] }
  /- hub goroutine runs a queued RemoveListener(ml) (Step.hubRm) -/
  | hubRm : w.s.hubBlocked = false → 0 < w.s.rmQueued →
      WStep V F cap w { w with s := { w.s with registered := false, rmQueued := w.s.rmQueued - 1 } }
  /- socket reader: ReadMessage returns an error (client closed, went away, timed out) (Step.rFail) -/
  | rFail : w.s.reader = .run → WStep V F cap w { w with s := { w.s with reader := .closeSel } }
  /- Close() of reader (r = true) / writer (r = false): once.Do(close(done)); hub.RemoveListener(ml) (Step.cOnce, cRm) -/
  | cOnce (r : Bool) : w.s.pc r = .closeSel →
      WStep V F cap w { w with s :=
        ({ w.s with done := true, doneCloses := if w.s.done then w.s.doneCloses else w.s.doneCloses + 1 }.setPc r .closeRm) }
  | cRm (r : Bool) : w.s.pc r = .closeRm →
      WStep V F cap w { w with s := ({ w.s with rmQueued := w.s.rmQueued + 1 }.setPc r .exited) }
  /- the ticker fires -/
  | tick : WStep V F cap w { w with tick := true }
  /- socket writer: `case ev := <-ml.c` (Step.wRecv) -/
  | wTake : w.stage = .select → w.s.writer = .run → w.s.buf = e :: rest →
      WStep V F cap w { w with s := { w.s with buf := rest, delivered := w.s.delivered ++ [e] },
                               stage := .got, hold := [e] }
  /- … WriteJSON(ev) succeeds: one text message with what the writer holds (for `batching k`: the queue is below k) -/
  | wWriteOne : w.stage = .got → (V = .onePerFrame ∨ ∃ k, V = .batching k ∧ w.s.buf.length < k) →
      WStep V F cap w { w with stage := .select, wire := w.wire ++ [.text w.hold], hold := [] }
  /- … (batching) the queue holds k or more: commit to receiving len(ml.c) more -/
  | wBatch : V = .batching k → w.stage = .got → k ≤ w.s.buf.length →
      WStep V F cap w { w with stage := .batch w.s.buf.length }
  | wTakeMore : w.stage = .batch (m + 1) → w.s.writer = .run → w.s.buf = e :: rest →
      WStep V F cap w { w with s := { w.s with buf := rest, delivered := w.s.delivered ++ [e] },
                               stage := .batch m, hold := w.hold ++ [e] }
  | wWriteBatch : w.stage = .batch 0 →
      WStep V F cap w { w with stage := .select, wire := w.wire ++ [.text w.hold], hold := [] }
  /- … the write (or an Encode inside it) returns an error: `return`, the deferred Close() follows (Step.wFail) -/
  | wWriteFail : w.stage ≠ .select → w.s.writer = .run →
      WStep V F cap w { w with s := { w.s with writer := .closeSel }, stage := .select,
                               unwritten := w.unwritten ++ w.hold, hold := [], writeFailed := true }
  /- socket writer: `case <-ml.done`: one close message (its error is discarded), return (Step.wSeesDone) -/
  | wDone (ok : Bool) : w.stage = .select → w.s.writer = .run → w.s.done = true →
      WStep V F cap w { w with s := { w.s with writer := .closeSel },
                               wire := if ok then w.wire ++ [.close] else w.wire }
  /- socket writer: `case <-ticker.C`: one ping message; an error → return (Step.wFail) -/
  | wPing : w.stage = .select → w.s.writer = .run → w.tick = true →
      WStep V F cap w { w with tick := false, wire := w.wire ++ [.ping] }
  | wPingFail : w.stage = .select → w.s.writer = .run → w.tick = true →
      WStep V F cap w { w with s := { w.s with writer := .closeSel }, tick := false, writeFailed := true }

inductive WReach (V : WsWriter) (F : Filter) (cap : Nat) : WSt → Prop
  | init : WReach V F cap {}
  | step : WReach V F cap w → WStep V F cap w w' → WReach V F cap w'

/-! ### an executable scheduler over the same steps (driver mode `wswire`; Lemmas.WsWire.act_sound) -/

inductive Act where
  | offer (e : Ev) (preferDone : Bool)   -- the hub calls Receive / Delete; when both the send and `done` are ready …
  | hubRm | readerFail | close (r : Bool) | tick
  | take                                 -- writer: receive from the queue
  | write                                -- writer: go on inside the iteration (decide, receive more, write)
  | writeFail
  | done (ok : Bool)
  | ping (ok : Bool)
deriving Repr

def act (V : WsWriter) (F : Filter) (cap : Nat) (w : WSt) : Act → Option WSt
  | .offer e pd =>
    if w.s.registered = true ∧ w.s.hubBlocked = false then
      if F.accepts e = true then
        if w.s.chClosed = false ∧ w.s.buf.length < cap ∧ (w.s.done = false ∨ pd = false) then
          some { w with s := w.s.push, offered := w.offered ++ [e], accepted := w.accepted ++ [e] }
        else if w.s.done = true then
          some { w with s := { w.s with registered := false, next := w.s.next + 1 },
                        offered := w.offered ++ [e], accepted := w.accepted ++ [e] }
        else if w.s.chClosed = false ∧ cap ≤ w.s.buf.length then
          some { w with s := { w.s with registered := false, next := w.s.next + 1, done := true,
                                        doneCloses := w.s.doneCloses + 1 },
                        offered := w.offered ++ [e], accepted := w.accepted ++ [e] }
        else none
      else some { w with offered := w.offered ++ [e] }
    else none
  | .hubRm =>
    if w.s.hubBlocked = false ∧ 0 < w.s.rmQueued then
      some { w with s := { w.s with registered := false, rmQueued := w.s.rmQueued - 1 } }
    else none
  | .readerFail => if w.s.reader = .run then some { w with s := { w.s with reader := .closeSel } } else none
  | .close r =>
    if w.s.pc r = .closeSel then
      some { w with s :=
        ({ w.s with done := true, doneCloses := if w.s.done then w.s.doneCloses else w.s.doneCloses + 1 }.setPc r .closeRm) }
    else if w.s.pc r = .closeRm then
      some { w with s := ({ w.s with rmQueued := w.s.rmQueued + 1 }.setPc r .exited) }
    else none
  | .tick => some { w with tick := true }
  | .take =>
    if w.stage = .select ∧ w.s.writer = .run then
      match w.s.buf with
      | e :: rest => some { w with s := { w.s with buf := rest, delivered := w.s.delivered ++ [e] },
                                   stage := .got, hold := [e] }
      | [] => none
    else none
  | .write =>
    match w.stage with
    | .select => none
    | .got =>
      match V with
      | .onePerFrame => some { w with stage := .select, wire := w.wire ++ [.text w.hold], hold := [] }
      | .batching k =>
        if w.s.buf.length < k then some { w with stage := .select, wire := w.wire ++ [.text w.hold], hold := [] }
        else some { w with stage := .batch w.s.buf.length }
    | .batch 0 => some { w with stage := .select, wire := w.wire ++ [.text w.hold], hold := [] }
    | .batch (m + 1) =>
      if w.s.writer = .run then
        match w.s.buf with
        | e :: rest => some { w with s := { w.s with buf := rest, delivered := w.s.delivered ++ [e] },
                                     stage := .batch m, hold := w.hold ++ [e] }
        | [] => none
      else none
  | .writeFail =>
    if w.stage ≠ .select ∧ w.s.writer = .run then
      some { w with s := { w.s with writer := .closeSel }, stage := .select,
                    unwritten := w.unwritten ++ w.hold, hold := [], writeFailed := true }
    else none
  | .done ok =>
    if w.stage = .select ∧ w.s.writer = .run ∧ w.s.done = true then
      some { w with s := { w.s with writer := .closeSel }, wire := if ok then w.wire ++ [.close] else w.wire }
    else none
  | .ping ok =>
    if w.stage = .select ∧ w.s.writer = .run ∧ w.tick = true then
      if ok then some { w with tick := false, wire := w.wire ++ [.ping] }
      else some { w with s := { w.s with writer := .closeSel }, tick := false, writeFailed := true }
    else none

end Ibx.Model.WsWire
