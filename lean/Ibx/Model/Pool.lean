/-
  Interleaving model of the Lua state pool (pkg/extension/luahost/pool.go) used by any number of concurrent callers
  (the listeners of lua.go, each running on the goroutine of an SMTP session or of an asynchronous after-event).

      getState:       lock; if len(states) == 0 { return newState() }; s := states[ln-1]; states = states[:ln-1]; return s
      putState(s):    if s.IsClosed() { return };  s.Pop(s.GetTop());  lock; states = append(states, s)
      createChannel:  lock; for each pooled s { s.Close() }; states = states[:0]
      lua.go:         every handler is  `…, ls, _, ok := prepareInbucketFuncCall(); if !ok { return }; defer pool.putState(ls); <use ls>`
                      and prepareInbucketFuncCall drops the state without putState when getInbucket fails.

  Atomic steps = the critical sections and the caller-local actions between them; `putState` is two steps (`putClear`
  outside the lock, `putAppend` inside).  A schedule is any sequence of enabled steps (`Reach`).  The free list is kept
  top-first here (`pool.head?` = Go's `states[ln-1]`).  `held` / `peak` are ghost bookkeeping: the states checked out and
  the largest number ever checked out at once.
-/
namespace Ibx.Model.Pool

abbrev Sid := Nat   -- identity of an LState = its creation rank
abbrev Tid := Nat   -- a caller

inductive Pc
  | idle
  | holding (s : Sid)    -- between getState and putState: the handler runs Lua code on `s`
  | cleared (s : Sid)    -- inside putState: stack cleared, lock not yet taken
  deriving DecidableEq, Repr

def Pc.state : Pc → Option Sid
  | .idle => none
  | .holding s => some s
  | .cleared s => some s

structure St where
  pool : List Sid            -- lp.states, TOP FIRST
  next : Sid                 -- number of LStates created so far
  closed : Sid → Bool        -- LState.IsClosed
  depth : Sid → Nat          -- LState.GetTop
  pc : Tid → Pc
  held : List Sid            -- ghost
  peak : Nat                 -- ghost

def init : St :=
  { pool := [], next := 0, closed := fun _ => false, depth := fun _ => 0, pc := fun _ => .idle, held := [], peak := 0 }

inductive Op
  | get (t : Tid) (d : Nat)   -- getState succeeds; if a state is created the script's top level leaves `d` values on its stack
  | getFail (t : Tid)         -- getState on an empty pool, newState fails (the script raised at top level)
  | use (t : Tid) (d : Nat)   -- the handler pushes / pops: the stack depth of the held state becomes `d`
  | putClosed (t : Tid)       -- putState finds IsClosed and returns
  | putClear (t : Tid)        -- putState: state.Pop(state.GetTop())
  | putAppend (t : Tid)       -- putState: lock; append
  | leak (t : Tid)            -- prepareInbucketFuncCall: getInbucket failed, the state is dropped without putState
  | flush                     -- createChannel: close every pooled state, empty the pool
  deriving Repr

def upd {α : Type} (f : Nat → α) (k : Nat) (v : α) : Nat → α := fun x => if x = k then v else f x

@[simp] theorem upd_same {α : Type} (f : Nat → α) (k : Nat) (v : α) : upd f k v k = v := by simp [upd]
theorem upd_other {α : Type} (f : Nat → α) (k x : Nat) (v : α) (h : x ≠ k) : upd f k v x = f x := by simp [upd, h]

def checkout (st : St) (t : Tid) (s : Sid) : St :=
  { st with pc := upd st.pc t (.holding s), held := s :: st.held, peak := max st.peak (st.held.length + 1) }

def drop (st : St) (t : Tid) (s : Sid) : St :=
  { st with pc := upd st.pc t .idle, held := st.held.erase s }

/-- one atomic step; `none` = the step is not enabled in this state -/
def step (st : St) : Op → Option St
  | .get t d =>
    if st.pc t ≠ .idle then none
    else match st.pool with
      | [] => some (checkout { st with next := st.next + 1, depth := upd st.depth st.next d } t st.next)
      | s :: rest => some (checkout { st with pool := rest } t s)
  | .getFail t => if st.pc t = .idle ∧ st.pool = [] then some st else none
  | .use t d =>
    match st.pc t with
    | .holding s => some { st with depth := upd st.depth s d }
    | _ => none
  | .putClosed t =>
    match st.pc t with
    | .holding s => if st.closed s then some (drop st t s) else none
    | _ => none
  | .putClear t =>
    match st.pc t with
    | .holding s => if st.closed s then none else some { st with depth := upd st.depth s 0, pc := upd st.pc t (.cleared s) }
    | _ => none
  | .putAppend t =>
    match st.pc t with
    | .cleared s => some { drop st t s with pool := s :: st.pool }
    | _ => none
  | .leak t =>
    match st.pc t with
    | .holding s => some (drop st t s)
    | _ => none
  | .flush => some { st with pool := [], closed := fun s => st.closed s || st.pool.contains s }

/-- states reachable under some schedule of any number of callers -/
inductive Reach : St → Prop
  | init : Reach init
  | step {st st' : St} (op : Op) : Reach st → step st op = some st' → Reach st'

/-- run a schedule; `none` if some step was not enabled -/
def runOps : St → List Op → Option St
  | st, [] => some st
  | st, op :: rest => match step st op with
    | some st' => runOps st' rest
    | none => none

theorem reach_runOps {st st' : St} (ops : List Op) (h : Reach st) (hr : runOps st ops = some st') : Reach st' := by
  induction ops generalizing st with
  | nil => simp [runOps] at hr; subst hr; exact h
  | cons op rest ih =>
    simp only [runOps] at hr
    split at hr
    · next st1 h1 => exact ih (Reach.step op h h1) hr
    · cases hr

end Ibx.Model.Pool
