import Ibx.Bytes
/-
  Byte-exact model of pkg/policy/address.go:
    parseEmailAddress, parseMailboxName, ValidateDomainPart, extractDomainMailbox,
    ExtractMailbox, ParseEmailAddress, NewRecipient, ParseOrigin.
  `net.ParseIP` is a parameter (`ip : Bytes → Bool`).
-/
namespace Ibx.Model.Addr
open Ibx Ibx.Bytes

/-- the 19 specials `parseEmailAddress` copies unquoted (bang hash dollar percent amp quote star plus
    minus slash equals qmark caret underscore backtick lbrace bar rbrace tilde) -/
def isSpecialB (c : Nat) : Bool :=
  c == 33 || c == 35 || c == 36 || c == 37 || c == 38 || c == 39 || c == 42 || c == 43 ||
  c == 45 || c == 47 || c == 61 || c == 63 || c == 94 || c == 95 || c == 96 ||
  c == 123 || c == 124 || c == 125 || c == 126

/-- the non-alphanumerics `parseMailboxName` lets through: the specials and '.' -/
def isNameSpecialB (c : Nat) : Bool := isSpecialB c || c == 46

inductive Naming | localN | fullN | domainN
  deriving DecidableEq, Repr

structure PState where
  i : Nat
  buf : Bytes          -- reversed
  prev : Nat
  icq : Bool
  isq : Bool

/-- the `LOOP:` of parseEmailAddress; `none` = error -/
def parseLoop : Bytes → PState → Option (Bytes × Bytes)
  | [], st => if st.icq || st.isq then none else some (st.buf.reverse, [])
  | c :: rest, st =>
    let next (st' : PState) := parseLoop rest { st' with i := st.i + 1, prev := c }
    if isAlphaB c || isDigitB c || isSpecialB c then
      next { st with buf := c :: st.buf, icq := false }
    else if c == 46 then
      if st.prev == 46 then none
      else next { st with buf := c :: st.buf, icq := false }
    else if c == 92 then next { st with icq := true }
    else if c == 34 then
      if st.icq then next { st with buf := c :: st.buf, icq := false }
      else if st.isq then next { st with isq := false }
      else if st.i == 0 then next { st with isq := true }
      else none
    else if c == 64 then
      if st.icq || st.isq then next { st with buf := c :: st.buf, icq := false }
      else if st.i > 128 then none
      else if st.prev == 46 then none
      else some (st.buf.reverse, rest)
    else if c > 127 then none
    else if st.icq || st.isq then next { st with buf := c :: st.buf, icq := false }
    else none

/-- drop up to and including the first ':' (route removal); `none` if there is none -/
def afterColon : Bytes → Option Bytes
  | [] => none
  | c :: rest => if c == 58 then some rest else afterColon rest

def parseEmailAddress (a : Bytes) : Option (Bytes × Bytes) :=
  if a.isEmpty then none
  else if a.length > 320 then none
  else
    let a' : Option Bytes :=
      if a.head? == some 64 then
        match afterColon a with
        | none => none
        | some r => if r.isEmpty then none else some r
      else some a
    match a' with
    | none => none
    | some a =>
      if a.head? == some 46 then none
      else parseLoop a { i := 0, buf := [], prev := 46, icq := false, isq := false }

def nameCharOk (c : Nat) : Bool := isLowerB c || isDigitB c || isNameSpecialB c

def parseMailboxName (l : Bytes) : Option Bytes :=
  if l.isEmpty then none
  else
    let r := lower l
    if r.all nameCharOk then some (r.takeWhile (· != 43)) else none

structure DState where
  prev : Nat
  labelLen : Nat
  hasAN : Bool

def isDomAN (c : Nat) : Bool := isAlphaB c || isDigitB c || c == 95

def domLoop : Bytes → DState → Bool
  | [], _ => true
  | c :: rest, st =>
    if isDomAN c then domLoop rest { prev := c, labelLen := st.labelLen + 1, hasAN := true }
    else if c == 45 then
      if st.prev == 46 || st.prev == 45 then false else domLoop rest { st with prev := c }
    else if c == 46 then
      if st.prev == 46 || st.prev == 45 then false
      else if st.labelLen > 63 then false
      else if !st.hasAN then false
      else domLoop rest { prev := c, labelLen := 0, hasAN := false }
    else false

def ipv6Tag : Bytes := [73, 80, 118, 54, 58]  -- "IPv6:"

def validateDomainPart (ip : Bytes → Bool) (d : Bytes) : Bool :=
  let ln := d.length
  if ln == 0 then false
  else if ln > 255 then false
  else if ln ≥ 4 && d.head? == some 91 && d.getLast? == some 93 then
    let inner := (d.drop 1).dropLast
    let s := if ipv6Tag.isPrefixOf (d.drop 1) then inner.drop 5 else inner
    ip s
  else
    let d' := if d.getLast? != some 46 then d ++ [46] else d
    domLoop d' { prev := 46, labelLen := 0, hasAN := false }

/-- canonicalDomain: lower-case, keeping the case-sensitive `[IPv6:` tag of an IP literal -/
def ipv6Open : Bytes := 91 :: ipv6Tag  -- "[IPv6:"

def canonicalDomain (d : Bytes) : Bytes :=
  if ipv6Open.isPrefixOf d then ipv6Open ++ lower (d.drop 6) else lower d

/-- two consecutive periods somewhere in the list -/
def hasDotDot : Bytes → Bool
  | 46 :: 46 :: _ => true
  | _ :: rest => hasDotDot rest
  | [] => false

/-- the name check of ExtractMailbox (local / full naming): non-empty dot-atom shape -/
def nameShapeOk (l : Bytes) : Bool :=
  !l.isEmpty && l.head? != some 46 && l.getLast? != some 46 && !hasDotDot l

def extractDomainMailbox (ip : Bytes → Bool) (a : Bytes) : Option Bytes :=
  let ld : Option (Bytes × Bytes) :=
    if !a.isEmpty && a.head? == some 91 && a.getLast? == some 93 then some ([], a)
    else parseEmailAddress a
  match ld with
  | none => none
  | some (l, d) =>
    let l' : Option Bytes := if l.isEmpty then some l else parseMailboxName l
    match l' with
    | none => none
    | some l =>
      let d := if d.isEmpty then l else d
      if validateDomainPart ip d then some (canonicalDomain d) else none

def extractMailbox (ip : Bytes → Bool) (m : Naming) (a : Bytes) : Option Bytes :=
  match m with
  | .domainN => extractDomainMailbox ip a
  | m =>
    match parseEmailAddress a with
    | none => none
    | some (l, d) =>
      match parseMailboxName l with
      | none => none
      | some l =>
        if !nameShapeOk l then none
        else if m == .localN then some l
        else if d.isEmpty then some l
        else if validateDomainPart ip d then some (l ++ [64] ++ canonicalDomain d) else none

/-- exported ParseEmailAddress: parse + domain validation -/
def parseEmailAddressV (ip : Bytes → Bool) (a : Bytes) : Option (Bytes × Bytes) :=
  match parseEmailAddress a with
  | none => none
  | some (l, d) => if validateDomainPart ip d then some (l, d) else none

structure Recipient where
  addr : Bytes
  localPart : Bytes
  domain : Bytes
  mailbox : Bytes
  deriving Repr, DecidableEq

def newRecipient (ip : Bytes → Bool) (m : Naming) (a : Bytes) : Option Recipient :=
  match parseEmailAddressV ip a with
  | none => none
  | some (l, d) =>
    match extractMailbox ip m a with
    | none => none
    | some mb => some { addr := a, localPart := l, domain := d, mailbox := mb }

/-- ParseOrigin: `some (local, domain)`; the null sender is `some ([], [])` -/
def parseOrigin (ip : Bytes → Bool) (a : Bytes) : Option (Bytes × Bytes) :=
  if a.isEmpty then some ([], []) else parseEmailAddressV ip a

end Ibx.Model.Addr
