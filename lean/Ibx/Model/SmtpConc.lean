import Ibx.Spec.Store
import Ibx.Model.Smtp
import Ibx.Model.Shutdown
/-
  Model.SmtpConc — any number of SMTP sessions (the REAL session machine of `Model.Smtp`: `handleLine`, `handleData`, the
  command loop of `startSession` — not the toy of `Model.Shutdown.Sess.smtp`) running concurrently against ONE
  `Spec.Store`, interleaved with the store calls of any other clients (REST deletes, purges, retention, POP3 — every
  `Spec.Store.Op`) and with the shutdown events `cancel` / `listener.Close` of C19.

  Granularity.  One step of a session = ONE ITERATION of the command loop of `startSession`
  (`for ssn.state != QUIT && ssn.sendError == nil { … }`), exactly the unit `Model.Smtp.loop` recurses on:
    * in a command state: one line is read and handled by `handleLine` (its one reply is sent);
    * in state DATA: the 354 is sent, one complete dot block is read and handled by `handleData` — every copy that
      `StoreManager.Deliver` hands to the store (`Ev.stored`) is applied to the shared store as one `AddMessage`
      (`Spec.Store.step … (.add …)`, with the cap / limit evictions of the store's configuration), in the order of the
      AddMessage loop, then the 250 / 451 / 552 is sent;
    * or the loop ends (`End`: EOF, QUIT state, a failed send, a data block cut by the end of the input).
  A session's client is the byte stream it sends (`Client.pending` = what the session has not read yet), as for
  `Model.Smtp.run`, so "the same session run alone" is literally `Model.Smtp.run e budget input`
  (`Props.C03Conc.alone_is_run`).  The AddMessage calls of one data block are not interleaved with other clients' calls:
  the calls run under the store's own locking (C09: each is linearizable) and the theorems about the store are stated
  over the sequence of calls (`trace`), which is an arbitrary in-order merge of the sessions' calls at this granularity;
  a finer merge (another session's add between two adds of one block) is again an in-order merge of the same per-session
  call lists, which is all `Props.C03Conc.trace_is_merge` / `Props.C01Conc.interleaving_is_immaterial` use.

  What a session reads.  `Env.storeFails` (an I/O fault of the back-end) is a function of the mailbox, not of the store
  content, the hooks / policy / limits are the shared `Smtp.Env`: a session step is a function of the session's own
  state and pending input and of NOTHING else — it never reads the store (pkg/server/smtp never calls a reading method
  of the store or manager: T1 `Tie.SmtpConc.session_store_calls_tie`), it is not given the cancel flag (T1: no `ctx` in
  handler.go), and two sessions share no mutable value (T1 `Tie.SmtpConc.sessions_share_nothing_tie`).

  The composition is an instance of `Model.Shutdown.Sess.Prog`, so the frame lemma of C19 (`open_session_unaffected`)
  applies to it verbatim.  `Variant` / `progC` model, beside the source, a session loop that DOES consult the cancel
  flag (seeded change C19-r4m2 and its blunter cousin) so that the theorems can be seen to need the source's shape.
-/
namespace Ibx.Model.SmtpConc
open Ibx Ibx.Spec.Store
open Ibx.Model.Shutdown

structure Env where
  smtp : Smtp.Env                  -- policy, limits, hooks, … : shared by all sessions of the server
  store : Spec.Store.Cfg           -- mailbox cap and size limit of the store

/-- what one iteration of the command loop does -/
structure IterOut where
  sess : Smtp.Sess
  rest : Bytes                     -- input not yet read
  evs : List Smtp.Ev               -- replies sent / copies stored in this iteration, oldest first
  over : Option Smtp.End           -- `some`: the loop has ended
deriving Repr

/-- one iteration of the command loop of `startSession` — the body of `Model.Smtp.loop` -/
def iter (e : Smtp.Env) (s : Smtp.Sess) (inp : Bytes) : IterOut :=
  if s.st == .quit then ⟨s, inp, [], some .quit⟩
  else if s.sendErr then ⟨s, inp, [], some .sendError⟩
  else if s.st == .data then
    match Dot.dotDecode inp with
    | none => ⟨{ Smtp.send s 1 with st := .quit }, inp, [.reply [354]], some .dataCut⟩
    | some (block, rest) =>
      let r := Smtp.handleData e (Smtp.send s 1) block []
      ⟨r.1, rest, .reply [354] :: r.2.reverse, none⟩
  else
    match Line.readLine inp with
    | none => ⟨s, inp, [], some .eof⟩
    | some (line, rest) =>
      let r := Smtp.handleLine e s line []
      ⟨r.1, rest, r.2.reverse, none⟩

/-- a client: an SMTP session, the bytes its peer has sent (will send) that the session has not read yet, and how its
    command loop has ended if it has -/
structure Client where
  sess : Smtp.Sess
  pending : Bytes
  over : Option Smtp.End := none
deriving Repr

/-- the session does its next loop iteration (nothing once the loop has ended) -/
def tick (e : Smtp.Env) (c : Client) : Client × List Smtp.Ev :=
  if c.over.isSome then (c, [])
  else
    let r := iter e c.sess c.pending
    ({ sess := r.sess, pending := r.rest, over := r.over }, r.evs)

/-- the session ALONE: `n` iterations, nobody else around; the events it produces, oldest first -/
def alone (e : Smtp.Env) : Nat → Client → Client × List Smtp.Ev
  | 0, c => (c, [])
  | n + 1, c =>
    let r := tick e c
    let q := alone e n r.1
    (q.1, r.2 ++ q.2)

/-- the copies a step hands to the store, in order -/
def copiesOf (evs : List Smtp.Ev) : List Smtp.Stored :=
  evs.filterMap (fun ev => match ev with | .stored x => some x | _ => none)

/-- `Store.AddMessage(mailbox, meta, source)` -/
def addOf (x : Smtp.Stored) : Op := .add x.mailbox x.hdr x.source

/-- the store after the AddMessage calls for these copies -/
def applyCopies (c : Spec.Store.Cfg) (s : Store) (l : List Smtp.Stored) : Store :=
  l.foldl (fun st x => (step c st (addOf x)).1) s

/-- one unit of what a client does next -/
inductive In
  | tick                          -- the SMTP session does one iteration of its command loop
  | call (op : Spec.Store.Op)     -- the client is something else (REST, POP3, retention …): one store call
deriving Repr

/-- what the outside can observe of a client -/
inductive Out
  | ev (e : Smtp.Ev)              -- a reply sent / a copy handed to the store / a failed delivery
  | answer (o : Spec.Store.Out)   -- another client's store call returned this
deriving Repr

/-- one step of a client against the shared store -/
def clientStep (e : Env) (c : Client) (s : Store) : In → Client × Store × List Out
  | .call op => (c, (step e.store s op).1, [.answer (step e.store s op).2.1])
  | .tick =>
    let r := tick e.smtp c
    (r.1, applyCopies e.store s (copiesOf r.2), r.2.map .ev)

/-- the composition as a session program of the shutdown model -/
def prog (e : Env) : Sess.Prog Client In Out Store := ⟨clientStep e⟩

abbrev World := Sess.St Client In Out Store
abbrev Thread := Sess.Thread Client In Out

/-- a schedule: client steps (`.sess i`: client `i` does its next unit) with `cancel` / `closeL` anywhere -/
def run (e : Env) (w : World) (evs : List Sess.Ev) : World := Sess.exec (prog e) w evs

/-- the session right after the greeting was sent (`startSession`: NewSession, then `ssn.greet()`) -/
def fresh (e : Smtp.Env) (budget : Option Nat) (inp : Bytes) : Client :=
  { sess := Smtp.send (Smtp.initFor e budget) 1, pending := inp }

/-- a connection that has just been accepted and greeted; its client will send `inp`; the scheduler may give it up to
    `steps` loop iterations -/
def newClient (e : Env) (budget : Option Nat) (inp : Bytes) (steps : Nat) : Thread :=
  { st := fresh e.smtp budget inp, input := List.replicate steps .tick, replies := [.ev (.reply [220])] }

/-- another client (not an SMTP session) that will make these store calls -/
def otherClient (ops : List Spec.Store.Op) : Thread :=
  { st := { sess := Smtp.init none, pending := [], over := some .eof }, input := ops.map .call, replies := [] }

/-- the SMTP events among a client's outputs -/
def evsOf (outs : List Out) : List Smtp.Ev :=
  outs.filterMap (fun o => match o with | .ev x => some x | _ => none)

/-- what a unit does to the client itself and which SMTP events it produces — no store in sight -/
def localStep (e : Smtp.Env) (c : Client) : In → Client × List Smtp.Ev
  | .tick => tick e c
  | .call _ => (c, [])

/-- a client alone on a list of units -/
def aloneIn (e : Smtp.Env) : List In → Client → Client × List Smtp.Ev
  | [], c => (c, [])
  | x :: xs, c =>
    let r := localStep e c x
    let q := aloneIn e xs r.1
    (q.1, r.2 ++ q.2)

/-- the store calls a unit makes, in order -/
def unitOps (e : Smtp.Env) (c : Client) : In → List Op
  | .tick => (copiesOf (tick e c).2).map addOf
  | .call op => [op]

/-- the store calls a client alone makes on a list of units -/
def aloneOps (e : Smtp.Env) : List In → Client → List Op
  | [], _ => []
  | x :: xs, c => unitOps e c x ++ aloneOps e xs (localStep e c x).1

/-- the store calls an event of the schedule makes, tagged with the client that makes them -/
def opsAt (e : Env) (w : World) : Sess.Ev → List (Nat × Op)
  | .sess i =>
    match w.threads[i]? with
    | none => []
    | some t =>
      match t.input with
      | [] => []
      | x :: _ => (unitOps e.smtp t.st x).map (fun op => (i, op))
  | _ => []

/-- every store call made along a schedule, in the order the store sees them, tagged with its client -/
def trace (e : Env) : World → List Sess.Ev → List (Nat × Op)
  | _, [] => []
  | w, ev :: evs => opsAt e w ev ++ trace e (Sess.exec1 (prog e) w ev) evs

/-! ### variants whose session loop DOES look at the cancel flag (not the source) -/

/-- what the head of the command loop does once shutdown has been requested -/
inductive Variant
  | source            -- nothing: the loop has no access to the flag (pinned by T1)
  | refuseInGreet     -- seeded change C19-r4m2: `if ssn.state == GREET && s.shuttingDown() { send 421; break }`
  | refuseAlways      -- the blunt form: any state, `if s.shuttingDown() { send 421; break }`
deriving DecidableEq, Repr

def Variant.refuses (v : Variant) (cancelled : Bool) (s : Smtp.Sess) : Bool :=
  match v with
  | .source => false
  | .refuseInGreet => cancelled && s.st == .greet
  | .refuseAlways => cancelled

/-- a loop iteration of the variant: the 421 and the `break` come before anything is read -/
def tickC (v : Variant) (cancelled : Bool) (e : Smtp.Env) (c : Client) : Client × List Smtp.Ev :=
  if c.over.isSome then (c, [])
  else if c.sess.st != .quit && !c.sess.sendErr && v.refuses cancelled c.sess then
    ({ c with sess := Smtp.send c.sess 1, over := some .quit }, [.reply [421]])
  else tick e c

def clientStepC (v : Variant) (cancelled : Bool) (e : Env) (c : Client) (s : Store) : In → Client × Store × List Out
  | .call op => clientStep e c s (.call op)
  | .tick =>
    let r := tickC v cancelled e.smtp c
    (r.1, applyCopies e.store s (copiesOf r.2), r.2.map .ev)

/-- the variant as a family of session programs indexed by the cancel flag: it is NOT a `Sess.Prog` -/
def progC (v : Variant) (e : Env) (cancelled : Bool) : Sess.Prog Client In Out Store := ⟨clientStepC v cancelled e⟩

/-- a schedule for a variant: every session step is handed the flag as it stands -/
def runC (v : Variant) (e : Env) (w : World) (evs : List Sess.Ev) : World :=
  evs.foldl (fun w ev => Sess.exec1 (progC v e w.cancelled) w ev) w

end Ibx.Model.SmtpConc
