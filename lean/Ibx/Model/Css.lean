import Ibx.Bytes
import Ibx.Model.GoLower
/-
  Model of pkg/webui/sanitize/css.go : sanitizeStyle, over the TOKEN LIST produced by the
  gorilla/css scanner (successive results of `scan.Next()`; the end of the list stands for TokenEOF).
  The scanner itself (regexps) is NOT modelled: the correspondence harness feeds the tokens of the real
  scanner to this model and compares the bytes with the real `sanitizeStyle`.

  css.go, read line by line:
    loop:  t = Next();  EOF -> return buffer;  error -> return "";  state = state(b, t)
           (`state == nil -> ""` is dead code: no handler returns nil)
    stateStart:  IDENT   -> if strings.ToLower(value) in allowedProperties: write value, stateValid
                            else: write nothing, stateEat
                 S       -> write nothing, stateStart
                 other   -> write "/*" + TYPE-NAME + "*/", stateEat
    stateEat:    CHAR ";" -> stateStart ; anything else stateEat            (never writes)
    stateValid:  writes value;  CHAR ";" -> stateStart ; anything else stateValid
  Core Lean only (linked into the driver).
-/
namespace Ibx.Model.Css
open Ibx Ibx.Model.GoLower

/-- gorilla/css `tokenType`, in declaration (iota) order -/
inductive TT
  | error | eof | ident | atKeyword | string | hash | number | percentage | dimension | uri
  | unicodeRange | cdo | cdc | s | comment | function | includes | dashMatch | prefixMatch
  | suffixMatch | substringMatch | char | bom
  deriving DecidableEq, Repr, Inhabited

def TT.all : List TT :=
  [.error, .eof, .ident, .atKeyword, .string, .hash, .number, .percentage, .dimension, .uri,
   .unicodeRange, .cdo, .cdc, .s, .comment, .function, .includes, .dashMatch, .prefixMatch,
   .suffixMatch, .substringMatch, .char, .bom]

/-- numeric value of the Go constant (iota) -/
def TT.code (t : TT) : Nat := (TT.all.findIdx (· == t))

def TT.ofCode (n : Nat) : Option TT := TT.all[n]?

/-- `tokenType.String()` : the `tokenNames` table of scanner.go, as bytes -/
def TT.name : TT → Bytes
  | .error => [101, 114, 114, 111, 114]                                  -- error
  | .eof => [69, 79, 70]                                                 -- EOF
  | .ident => [73, 68, 69, 78, 84]                                       -- IDENT
  | .atKeyword => [65, 84, 75, 69, 89, 87, 79, 82, 68]                   -- ATKEYWORD
  | .string => [83, 84, 82, 73, 78, 71]                                  -- STRING
  | .hash => [72, 65, 83, 72]                                            -- HASH
  | .number => [78, 85, 77, 66, 69, 82]                                  -- NUMBER
  | .percentage => [80, 69, 82, 67, 69, 78, 84, 65, 71, 69]              -- PERCENTAGE
  | .dimension => [68, 73, 77, 69, 78, 83, 73, 79, 78]                   -- DIMENSION
  | .uri => [85, 82, 73]                                                 -- URI
  | .unicodeRange => [85, 78, 73, 67, 79, 68, 69, 45, 82, 65, 78, 71, 69] -- UNICODE-RANGE
  | .cdo => [67, 68, 79]                                                 -- CDO
  | .cdc => [67, 68, 67]                                                 -- CDC
  | .s => [83]                                                           -- S
  | .comment => [67, 79, 77, 77, 69, 78, 84]                             -- COMMENT
  | .function => [70, 85, 78, 67, 84, 73, 79, 78]                        -- FUNCTION
  | .includes => [73, 78, 67, 76, 85, 68, 69, 83]                        -- INCLUDES
  | .dashMatch => [68, 65, 83, 72, 77, 65, 84, 67, 72]                   -- DASHMATCH
  | .prefixMatch => [80, 82, 69, 70, 73, 88, 77, 65, 84, 67, 72]         -- PREFIXMATCH
  | .suffixMatch => [83, 85, 70, 70, 73, 88, 77, 65, 84, 67, 72]         -- SUFFIXMATCH
  | .substringMatch => [83, 85, 66, 83, 84, 82, 73, 78, 71, 77, 65, 84, 67, 72] -- SUBSTRINGMATCH
  | .char => [67, 72, 65, 82]                                            -- CHAR
  | .bom => [66, 79, 77]                                                 -- BOM

structure Token where
  ty : TT
  val : Bytes
  deriving DecidableEq, Repr

/-- the keys of `allowedProperties` (css.go), sorted; pinned to the regenerated table by Ibx/Tie/San.lean -/
def allowed : List Bytes := [
  [97, 108, 105, 103, 110], -- align
  [98, 97, 99, 107, 103, 114, 111, 117, 110, 100, 45, 99, 111, 108, 111, 114], -- background-color
  [98, 111, 114, 100, 101, 114], -- border
  [98, 111, 114, 100, 101, 114, 45, 98, 111, 116, 116, 111, 109], -- border-bottom
  [98, 111, 114, 100, 101, 114, 45, 108, 101, 102, 116], -- border-left
  [98, 111, 114, 100, 101, 114, 45, 114, 97, 100, 105, 117, 115], -- border-radius
  [98, 111, 114, 100, 101, 114, 45, 114, 105, 103, 104, 116], -- border-right
  [98, 111, 114, 100, 101, 114, 45, 116, 111, 112], -- border-top
  [98, 111, 120, 45, 115, 105, 122, 105, 110, 103], -- box-sizing
  [99, 108, 101, 97, 114], -- clear
  [99, 111, 108, 111, 114], -- color
  [99, 111, 110, 116, 101, 110, 116], -- content
  [100, 105, 115, 112, 108, 97, 121], -- display
  [102, 111, 110, 116, 45, 102, 97, 109, 105, 108, 121], -- font-family
  [102, 111, 110, 116, 45, 115, 105, 122, 101], -- font-size
  [102, 111, 110, 116, 45, 119, 101, 105, 103, 104, 116], -- font-weight
  [104, 101, 105, 103, 104, 116], -- height
  [108, 105, 110, 101, 45, 104, 101, 105, 103, 104, 116], -- line-height
  [109, 97, 114, 103, 105, 110], -- margin
  [109, 97, 114, 103, 105, 110, 45, 98, 111, 116, 116, 111, 109], -- margin-bottom
  [109, 97, 114, 103, 105, 110, 45, 108, 101, 102, 116], -- margin-left
  [109, 97, 114, 103, 105, 110, 45, 114, 105, 103, 104, 116], -- margin-right
  [109, 97, 114, 103, 105, 110, 45, 116, 111, 112], -- margin-top
  [109, 97, 120, 45, 104, 101, 105, 103, 104, 116], -- max-height
  [109, 97, 120, 45, 119, 105, 100, 116, 104], -- max-width
  [111, 118, 101, 114, 102, 108, 111, 119], -- overflow
  [112, 97, 100, 100, 105, 110, 103], -- padding
  [112, 97, 100, 100, 105, 110, 103, 45, 98, 111, 116, 116, 111, 109], -- padding-bottom
  [112, 97, 100, 100, 105, 110, 103, 45, 108, 101, 102, 116], -- padding-left
  [112, 97, 100, 100, 105, 110, 103, 45, 114, 105, 103, 104, 116], -- padding-right
  [112, 97, 100, 100, 105, 110, 103, 45, 116, 111, 112], -- padding-top
  [116, 97, 98, 108, 101, 45, 108, 97, 121, 111, 117, 116], -- table-layout
  [116, 101, 120, 116, 45, 97, 108, 105, 103, 110], -- text-align
  [116, 101, 120, 116, 45, 100, 101, 99, 111, 114, 97, 116, 105, 111, 110], -- text-decoration
  [116, 101, 120, 116, 45, 115, 104, 97, 100, 111, 119], -- text-shadow
  [118, 101, 114, 116, 105, 99, 97, 108, 45, 97, 108, 105, 103, 110], -- vertical-align
  [119, 105, 100, 116, 104], -- width
  [119, 111, 114, 100, 45, 98, 114, 101, 97, 107]] -- word-break

/-- `_, ok := allowedProperties[strings.ToLower(t.Value)]` -/
def allowedIdent (v : Bytes) : Bool :=
  match lowerAscii? v with
  | some l => allowed.contains l
  | none => false

inductive St | start | eat | valid
  deriving DecidableEq, Repr

/-- `"/*" + t.Type.String() + "*/"` -/
def marker (t : TT) : Bytes := [47, 42] ++ t.name ++ [42, 47]

/-- `t.Type == scanner.TokenChar && t.Value == ";"` -/
def isSemi (t : Token) : Bool := t.ty == .char && t.val == [59]

/-- one call of the current state handler: (bytes written to the buffer, next state) -/
def step : St → Token → Bytes × St
  | .start, t =>
    if t.ty = .ident then (if allowedIdent t.val then (t.val, .valid) else ([], .eat))
    else if t.ty = .s then ([], .start)
    else (marker t.ty, .eat)
  | .eat, t => ([], if isSemi t then .start else .eat)
  | .valid, t => (t.val, if isSemi t then .start else .valid)

/-- the loop of `sanitizeStyle` from a state; `none` = the scanner reported an error (result "") -/
def run : St → List Token → Option Bytes
  | _, [] => some []
  | st, t :: ts =>
    if t.ty = .eof then some []
    else if t.ty = .error then none
    else match run (step st t).2 ts with
      | some o => some ((step st t).1 ++ o)
      | none => none

/-- `sanitizeStyle` (specification form) -/
def sanitizeStyle (ts : List Token) : Bytes := (run .start ts).getD []

/-- accumulator form used by the driver (chunks in reverse order) -/
def runAcc : St → List Token → List Bytes → Bytes
  | _, [], acc => acc.reverse.flatten
  | st, t :: ts, acc =>
    if t.ty = .eof then acc.reverse.flatten
    else if t.ty = .error then []
    else runAcc (step st t).2 ts ((step st t).1 :: acc)

def sanitizeStyleTR (ts : List Token) : Bytes := runAcc .start ts []

theorem runAcc_eq (st : St) (ts : List Token) (acc : List Bytes) :
    runAcc st ts acc = match run st ts with
      | some o => acc.reverse.flatten ++ o
      | none => [] := by
  induction ts generalizing st acc with
  | nil => simp [runAcc, run]
  | cons t ts ih =>
    unfold runAcc run
    split
    · simp
    · split
      · rfl
      · rw [ih]
        cases run (step st t).2 ts <;> simp

theorem sanitizeStyleTR_eq (ts : List Token) : sanitizeStyleTR ts = sanitizeStyle ts := by
  unfold sanitizeStyleTR sanitizeStyle
  rw [runAcc_eq]
  cases run .start ts <;> simp

/-! ### the token-level view of the output, and the checker the oracle uses on re-scanned values -/

/-- the tokens the output consists of: written token values, and a marker as one COMMENT token -/
def emitTok : St → Token → List Token × St
  | .start, t =>
    if t.ty = .ident then (if allowedIdent t.val then ([t], .valid) else ([], .eat))
    else if t.ty = .s then ([], .start)
    else ([⟨.comment, marker t.ty⟩], .eat)
  | .eat, t => ([], if isSemi t then .start else .eat)
  | .valid, t => ([t], if isSemi t then .start else .valid)

def emit : St → List Token → Option (List Token)
  | _, [] => some []
  | st, t :: ts =>
    if t.ty = .eof then some []
    else if t.ty = .error then none
    else match emit (emitTok st t).2 ts with
      | some o => some ((emitTok st t).1 ++ o)
      | none => none

def vals (ts : List Token) : Bytes := (ts.map (·.val)).flatten

/-- "every declaration of this token list starts with an allow-listed property":
    at the start of a declaration only white space, comments and an allow-listed IDENT are accepted;
    after the IDENT everything up to the next `;` belongs to the declaration. -/
def declsOK : Bool → List Token → Bool      -- Bool: inside a declaration
  | _, [] => true
  | false, t :: ts =>
    if t.ty = .s ∨ t.ty = .comment then declsOK false ts
    else if t.ty = .ident then allowedIdent t.val && declsOK true ts
    else false
  | true, t :: ts =>
    if t.ty = .eof || t.ty = .error then false else declsOK (!isSemi t) ts

end Ibx.Model.Css
