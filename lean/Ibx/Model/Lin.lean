import Ibx.Spec.Store
import Std.Data.HashSet
/-
  Lin — an executable Wing–Gong linearizability checker for recorded concurrent histories of a store,
  against Spec.Store.

  A history is a list of completed operations, each with an invocation and a response timestamp (values of
  one global atomic counter in the harness) and its canonical result.  Message ids of the implementation are
  opaque: every delivery carries a harness-chosen token; the spec assigns the id at the linearisation point and
  the token travels in the (otherwise unused) `date` field, so results are compared as tokens.  For the memory
  store the real id is numeric and must equal the spec id (`rid`).

  Evictions by the memory store's size enforcer are removals by a background client that the harness cannot
  time: they enter the history as OPTIONAL operations `bg b tok` (may be linearised anywhere, or not at all if a
  purge / cap eviction / removal explains the disappearance).

  `check` searches (depth first, with a memo of failed configurations) for an order; whatever it finds is
  re-validated by the direct definition `validLin`, so a `some` answer is sound by construction (`check_sound`).
-/
namespace Ibx.Model.Lin
open Ibx Ibx.Spec.Store

inductive Call
  | add (b : Bytes) (tok : Nat) (size : Nat) (rid : Option Nat)
  | get (b : Bytes) (tok : Nat)
  | latest (b : Bytes)
  | list (b : Bytes)
  | seen (b : Bytes) (tok : Nat)
  | remove (b : Bytes) (tok : Nat)
  | purge (b : Bytes)
  | bg (b : Bytes) (tok : Nat)
  deriving Repr, DecidableEq, Inhabited

inductive Res
  | ok
  | notExist
  | found (tok : Nat) (seen : Bool)
  | toks (l : List Nat)
  deriving Repr, DecidableEq, Inhabited

structure Ev where
  call : Call
  res : Res
  inv : Nat
  resp : Nat
  deriving Repr, Inhabited

def Ev.optional (e : Ev) : Bool := match e.call with | .bg _ _ => true | _ => false

def tokOf (m : Msg) : Nat := m.hdr.date.toNat

/-- spec id of the live message of mailbox `b` carrying token `t`; 0 (never an id) if there is none -/
def idOf (s : Store) (b : Bytes) (t : Nat) : Nat :=
  match s.msgs.find? (fun m => m.box == b && tokOf m == t) with
  | some m => m.id
  | none => 0

def mkMeta (tok : Nat) : Meta := { sender := [], rcpts := [], subject := [], date := (tok : Int) }

/-- run one call on the spec; `none` = the call cannot take effect here -/
def apply (c : Cfg) (s : Store) : Call → Option (Store × Res)
  | .add b tok size rid =>
    match step c s (.add b (mkMeta tok) (List.replicate size 0)) with
    | (s', .id i, _) => if rid.all (· == i) then some (s', .ok) else none
    | _ => none
  | .get b tok =>
    match step c s (.get b (idOf s b tok)) with
    | (s', .msg m, _) => some (s', .found (tokOf m) m.seen)
    | (s', _, _) => some (s', .notExist)
  | .latest b =>
    match step c s (.latest b) with
    | (s', .msg m, _) => some (s', .found (tokOf m) false)
    | (s', _, _) => some (s', .notExist)
  | .list b =>
    match step c s (.list b) with
    | (s', .msgs l, _) => some (s', .toks (l.map tokOf))
    | _ => none
  | .seen b tok =>
    match step c s (.seen b (idOf s b tok)) with
    | (s', .ok, _) => some (s', .ok)
    | (s', _, _) => some (s', .notExist)
  | .remove b tok =>
    match step c s (.remove b (idOf s b tok)) with
    | (s', .ok, _) => some (s', .ok)
    | (s', _, _) => some (s', .notExist)
  | .purge b => some ((step c s (.purge b)).1, .ok)
  | .bg b tok =>
    match step c s (.remove b (idOf s b tok)) with
    | (s', .ok, _) => some (s', .ok)
    | _ => none

/-- `latest` results ignore the seen flag (the harness does not read it) -/
def resMatch (c : Call) (got want : Res) : Bool :=
  match c, got, want with
  | .latest _, .found t _, .found t' _ => t == t'
  | _, g, w => g == w

/-- `i` may be linearised next: no other remaining mandatory operation responded before `i` was invoked -/
def minimal (h : Array Ev) (rem : List Nat) (i : Nat) : Bool :=
  let e := h[i]!
  e.optional || rem.all (fun j => j == i || h[j]!.optional || !(h[j]!.resp < e.inv))

def keyOf (rem : List Nat) (s : Store) (boxes : List Bytes) : String :=
  toString rem ++ "|" ++ toString (s.msgs.map (fun m => (m.box, m.id, tokOf m, m.seen))) ++ "|" ++ toString (boxes.map s.next)

structure Memo where
  failed : Std.HashSet String
  best : List Nat            -- longest linearised prefix seen (reversed)

/-- depth-first search for a linearisation of the remaining operations -/
def search (c : Cfg) (h : Array Ev) (boxes : List Bytes) :
    Nat → List Nat → Store → List Nat → Memo → Option (List Nat) × Memo
  | 0, _, _, _, memo => (none, memo)
  | fuel + 1, rem, s, acc, memo =>
    let memo := if acc.length > memo.best.length then { memo with best := acc } else memo
    if rem.all (fun i => h[i]!.optional) then (some acc.reverse, memo)
    else
      let key := keyOf rem s boxes
      if memo.failed.contains key then (none, memo)
      else
        let cands := rem.filter (minimal h rem)
        let r := cands.foldl (fun (st : Option (List Nat) × Memo) i =>
          match st.1 with
          | some _ => st
          | none =>
            let e := h[i]!
            match apply c s e.call with
            | some (s', r) =>
              if resMatch e.call r e.res then search c h boxes fuel (rem.erase i) s' (i :: acc) st.2 else st
            | none => st) (none, memo)
        match r.1 with
        | some o => (some o, r.2)
        | none => (none, { r.2 with failed := r.2.failed.insert key })

def boxOf : Call → Bytes
  | .add b _ _ _ | .get b _ | .latest b | .list b | .seen b _ | .remove b _ | .purge b | .bg b _ => b

/-- replay an order on the spec, checking every result -/
def replay (c : Cfg) (h : Array Ev) : Store → List Nat → Option Store
  | s, [] => some s
  | s, i :: rest =>
    if i < h.size then
      match apply c s h[i]!.call with
      | some (s', r) => if resMatch h[i]!.call r h[i]!.res then replay c h s' rest else none
      | none => none
    else none

/-- real-time order: nothing placed later responded before an earlier-placed operation was invoked -/
def respectsTime (h : Array Ev) : List Nat → Bool
  | [] => true
  | i :: rest => rest.all (fun j => h[j]!.optional || h[i]!.optional || !(h[j]!.resp < h[i]!.inv)) && respectsTime h rest

/-- the definition of "order is a linearisation of h": a duplicate-free order containing every mandatory
    operation, consistent with real time, whose sequential run on the spec reproduces every result -/
def validLin (c : Cfg) (h : Array Ev) (order : List Nat) : Bool :=
  order.Nodup && (List.range h.size).all (fun i => h[i]!.optional || order.contains i) &&
  respectsTime h order && (replay c h Spec.Store.empty order).isSome

structure Verdict where
  order : Option (List Nat)
  best : List Nat

def rawSearch (c : Cfg) (h : Array Ev) : Option (List Nat) × Memo :=
  let boxes := (h.toList.map (fun e => boxOf e.call)).eraseDups
  search c h boxes (h.size + 1) (List.range h.size) Spec.Store.empty [] { failed := {}, best := [] }

def check (c : Cfg) (h : Array Ev) : Verdict :=
  let r := rawSearch c h
  { order := r.1.filter (validLin c h), best := r.2.best.reverse }

/-- soundness by construction: an order reported by `check` satisfies the definition -/
theorem check_sound (c : Cfg) (h : Array Ev) (o : List Nat) (hc : (check c h).order = some o) :
    validLin c h o = true := by
  simp only [check] at hc
  exact (Option.filter_eq_some_iff.mp hc).2

end Ibx.Model.Lin
