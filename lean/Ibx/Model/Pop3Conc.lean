import Ibx.Spec.Store
import Ibx.Model.Pop3
import Ibx.Model.Sys
import Ibx.Model.Shutdown
/-
  Model.Pop3Conc — any number of POP3 sessions (the REAL session machine `Model.Pop3.step`, not the toy of
  `Model.Shutdown.Sess.pop3`) running concurrently against ONE `Spec.Store`, interleaved with the store calls of any
  other clients (deliveries with their cap / size-limit evictions, REST deletes, purges, the retention scanner — every
  `Spec.Store.Op`) and with the shutdown events `cancel` / `listener.Close` of C19.

  Granularity.  One step of a client = one command line of a POP3 session, or one store call of another client.  The
  store calls a command makes (`GetMessages` at PASS / APOP; the `RemoveMessage` calls of `processDeletes` at QUIT) run
  under the store's own locking (C09: each is linearizable); a QUIT is modelled as ONE atomic step.  That loses
  nothing for the statements made here: another client's call that lands between two `RemoveMessage` calls of one QUIT
  commutes to before or after the whole QUIT as far as the set of surviving messages is concerned (removals of given ids
  commute with every other store call on other ids; the same id removed by both sides is the "already gone" case that
  the step sees when the other call is put first).

  The composition is an instance of `Model.Shutdown.Sess.Prog` (a session program is a function of session state,
  store and input and of nothing else), so the frame lemma of C19 (`open_session_unaffected`) applies to it verbatim.

  `processDeletes` (pkg/server/pop3/handler.go):
      for i, msg := range s.messages { if !s.retain[i] { if err := s.store.RemoveMessage(s.user, msg.ID()); err != nil { log } } }
  one call per marked snapshot message, in snapshot order; a call FAILS (storage.ErrNotExist) when the message is no
  longer there — another session that had marked it too has quit first, a REST client deleted it, retention or the
  mailbox cap or the size limit evicted it.  The loop has no exit but the end of the range: `DelLoop.goesOn`, the
  variant of the pinned source (`sourceDelLoop`, pinned by `Tie.Pop3Conc.delete_loop_tie`).  The other variant,
  `stopsAtFirstFailure` (a `return` / `break` on the error path), is modelled beside it so that the theorems can be
  seen to need the right one.
-/
namespace Ibx.Model.Pop3Conc
open Ibx Ibx.Spec.Store
open Ibx.Model.Shutdown

/-- what the deletion loop of `processDeletes` does when a `RemoveMessage` fails -/
inductive DelLoop
  | goesOn                 -- logs the error, continues with the next marked message (the pinned source)
  | stopsAtFirstFailure    -- leaves the loop: the remaining marked messages are never handed to the store
deriving DecidableEq, Repr

/-- the variant of the source (pinned by `Tie.Pop3Conc.delete_loop_tie`) -/
def sourceDelLoop : DelLoop := .goesOn

structure Env where
  store : Spec.Store.Cfg       -- mailbox cap and size limit of the store
  ids : Sys.Ids                -- the back-end's id syntax: how an id is printed (UIDL, `msg.ID()`) and read back
  loop : DelLoop := sourceDelLoop

/-- what a client gets back / what the session does that the outside can observe -/
inductive Out
  | reply (r : Pop3.Reply)                -- one POP3 reply
  | removeCall (id : Bytes) (ok : Bool)   -- `RemoveMessage(user, id)` was called; `ok` = it returned nil
  | crashed                               -- a run-time panic / the "unexpected state" exit of the command loop
  | answer (o : Spec.Store.Out)           -- another client's store call returned this
deriving Repr

/-- one `Store.RemoveMessage(user, id)`: an id string the back-end cannot read names no message (ErrNotExist) -/
def removeMessage (e : Env) (user id : Bytes) (s : Store) : Store × Bool :=
  match e.ids.dec id with
  | none => (s, false)
  | some n =>
    let r := step e.store s (.remove user n)
    (r.1, match r.2.1 with
          | .notExist => false
          | _ => true)

/-- `processDeletes` over the ids QUIT hands it (`Pop3.cmdQuit`: the marked snapshot messages, in snapshot order):
    the store afterwards and the calls made -/
def processDeletes (e : Env) (user : Bytes) : List Bytes → Store → Store × List Out
  | [], s => (s, [])
  | id :: rest, s =>
    let r := removeMessage e user id s
    if r.2 then
      let q := processDeletes e user rest r.1
      (q.1, .removeCall id true :: q.2)
    else
      match e.loop with
      | .goesOn =>
        let q := processDeletes e user rest r.1
        (q.1, .removeCall id false :: q.2)
      | .stopsAtFirstFailure => (r.1, [.removeCall id false])

/-- a client: a POP3 session (`Session`) and whether its command loop has ended otherwise than by the QUIT state
    (`sendError != nil`, a panic) -/
structure Client where
  st : Pop3.St
  over : Bool := false
deriving DecidableEq, Repr

/-- one unit of what a client does next -/
inductive In
  | line (l : Bytes) (sendOk : Bool)   -- the POP3 session reads this line; `sendOk` = its reply can be written
  | call (op : Spec.Store.Op)          -- the client is something else (REST, SMTP delivery, retention scan …): one store call
deriving Repr

/-- one step of a client against the shared store.  A line that arrives after the command loop has ended is never read. -/
def clientStep (e : Env) (c : Client) (s : Store) : In → Client × Store × List Out
  | .call op => (c, (step e.store s op).1, [.answer (step e.store s op).2.1])
  | .line l sendOk =>
    if c.over || c.st.phase == .quit then (c, s, [])
    else
      match Pop3.step (Sys.popView e.ids s) c.st l with
      | .panic => ({ c with over := true }, s, [.crashed])
      | .badState => ({ c with over := true }, s, [.crashed])
      | .ok st' r rm =>
        -- `s.send(reply)` comes first; `processDeletes` runs whether or not that write succeeded
        let d := processDeletes e st'.user rm s
        ({ st := st', over := !sendOk }, d.1, .reply r :: d.2)

/-- the composition as a session program of the shutdown model -/
def prog (e : Env) : Sess.Prog Client In Out Store := ⟨clientStep e⟩

abbrev World := Sess.St Client In Out Store
abbrev Thread := Sess.Thread Client In Out

/-- a schedule: session steps (`.sess i`: client `i` does its next unit) with `cancel` / `closeL` anywhere -/
def run (e : Env) (w : World) (evs : List Sess.Ev) : World := Sess.exec (prog e) w evs

/-- a client that has just connected to a server configured `c` (any TLS configuration, any `tlsState` left by earlier
    sessions) and will send / do `input` -/
def newClient (c : Pop3.Cfg) (srvTls : Bool) (input : List In) : Thread :=
  { st := { st := Pop3.St.start c srvTls }, input := input, replies := [] }

/-- the `RemoveMessage` calls among a client's outputs: the ids, in order -/
def calls : List Out → List Bytes
  | [] => []
  | .removeCall id _ :: l => id :: calls l
  | _ :: l => calls l

/-- the (mailbox, id) keys of the live messages, in arrival order -/
def keys (s : Store) : List Ev := s.msgs.map evOf

/-- the key of the message an event delivers: client `i`'s next unit is another client's `add` (`AddMessage` hands out the
    mailbox counter + 1) -/
def arrivalAt (w : World) : Sess.Ev → List Ev
  | .sess i =>
    (match (w.threads[i]?).bind (fun t => t.input.head?) with
     | some (.call (.add b _ _)) => [(b, w.store.next b + 1)]
     | _ => [])
  | _ => []

/-- the keys of the messages delivered along a schedule, in order of delivery -/
def arrivals (e : Env) : World → List Sess.Ev → List Ev
  | _, [] => []
  | w, ev :: evs => arrivalAt w ev ++ arrivals e (Sess.exec1 (prog e) w ev) evs

end Ibx.Model.Pop3Conc
