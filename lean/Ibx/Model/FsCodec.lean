import Ibx.Model.FsSteps
/-
  A concrete instance of the `Codec` hypothesis: a length-prefixed stream shaped like encoding/gob's —
  one frame for the mailbox name, then one frame per entry, decoded frame by frame until a CLEAN end of input.
  It shows the hypotheses are satisfiable, it is the codec the executable driver runs, and it exhibits the
  behaviour measured on the real encoding/gob (harness C11, `gob-prefix`): a cut inside a frame is an error,
  the empty file is an error, a cut at a frame boundary decodes WITHOUT error to fewer entries.
  ("Bytes" are `List Nat`; a length is written as one element.)
-/
namespace Ibx.Model.FsCodec
open Ibx Ibx.Spec.Store Ibx.Model.FsSteps
open Ibx.Model.FileStore (FEnt)

def putBytes (b : Bytes) : Bytes := b.length :: b

def getBytes : Bytes → Option (Bytes × Bytes)
  | [] => none
  | n :: r => if n ≤ r.length then some (r.take n, r.drop n) else none

theorem getBytes_put (b r : Bytes) : getBytes (putBytes b ++ r) = some (b, r) := by
  simp [getBytes, putBytes]

def putList (l : List Bytes) : Bytes := l.length :: (l.map putBytes).flatten

def getListN : Nat → Bytes → Option (List Bytes × Bytes)
  | 0, r => some ([], r)
  | n + 1, r =>
    match getBytes r with
    | none => none
    | some (x, r') =>
      match getListN n r' with
      | none => none
      | some (xs, r'') => some (x :: xs, r'')

def getList : Bytes → Option (List Bytes × Bytes)
  | [] => none
  | n :: r => getListN n r

theorem getListN_put (l : List Bytes) (r : Bytes) : getListN l.length ((l.map putBytes).flatten ++ r) = some (l, r) := by
  induction l with
  | nil => simp [getListN]
  | cons x l ih => simp [getListN, List.append_assoc, getBytes_put, ih]

theorem getList_put (l : List Bytes) (r : Bytes) : getList (putList l ++ r) = some (l, r) := by
  simp [getList, putList, getListN_put]

def encInt : Int → Bytes
  | .ofNat n => [0, n]
  | .negSucc n => [1, n]

def encEnt (e : FEnt) : Bytes :=
  [e.id, if e.seen then 1 else 0, e.size] ++ encInt e.hdr.date ++ putBytes e.hdr.sender ++ putBytes e.hdr.subject ++ putList e.hdr.rcpts

def decEnt : Bytes → Option FEnt
  | id :: sn :: sz :: sg :: dn :: r =>
    match getBytes r with
    | none => none
    | some (sender, r1) =>
      match getBytes r1 with
      | none => none
      | some (subject, r2) =>
        match getList r2 with
        | some (rcpts, []) =>
          some { id := id, seen := sn == 1, size := sz,
                 hdr := { sender := sender, rcpts := rcpts, subject := subject,
                          date := if sg = 0 then Int.ofNat dn else Int.negSucc dn } }
        | _ => none
  | _ => none

theorem decEnt_enc (e : FEnt) : decEnt (encEnt e) = some e := by
  obtain ⟨id, ⟨sender, rcpts, subject, date⟩, seen, size⟩ := e
  have h := getList_put rcpts []
  simp only [List.append_nil] at h
  cases date <;> cases seen <;>
    simp [encEnt, encInt, decEnt, List.append_assoc, getBytes_put, h]

def frames (l : List FEnt) : Bytes := (l.map fun e => putBytes (encEnt e)).flatten

def enc (x : Bytes × List FEnt) : Bytes := putBytes x.1 ++ frames x.2

/-- decode frames until a clean end of input (`fuel` ≥ length of the input) -/
def decEntsF : Nat → Bytes → Option (List FEnt)
  | _, [] => some []
  | 0, _ :: _ => none
  | f + 1, c :: p =>
    match getBytes (c :: p) with
    | none => none
    | some (x, r) =>
      match decEnt x with
      | none => none
      | some e => (decEntsF f r).map (e :: ·)

def dec (p : Bytes) : Option (Bytes × List FEnt) :=
  match p with
  | [] => none
  | _ =>
    match getBytes p with
    | none => none
    | some (n, r) => (decEntsF r.length r).map (n, ·)

theorem frames_cons (e : FEnt) (l : List FEnt) : frames (e :: l) = putBytes (encEnt e) ++ frames l := by
  simp [frames]

theorem decEntsF_frames (l : List FEnt) : ∀ f, (frames l).length ≤ f → decEntsF f (frames l) = some l := by
  induction l with
  | nil => intro f _; cases f <;> simp [frames, decEntsF]
  | cons e l ih =>
    intro f hf
    rw [frames_cons] at hf ⊢
    cases f with
    | zero => simp [putBytes] at hf
    | succ f =>
      have h1 : putBytes (encEnt e) ++ frames l = (encEnt e).length :: (encEnt e ++ frames l) := by simp [putBytes]
      rw [h1, decEntsF, ← h1, getBytes_put]
      simp only [decEnt_enc]
      rw [ih f (by simp [putBytes] at hf; omega)]
      rfl

theorem dec_enc (x : Bytes × List FEnt) : dec (enc x) = some x := by
  obtain ⟨n, l⟩ := x
  have h1 : enc (n, l) = n.length :: (n ++ frames l) := by simp [enc, putBytes]
  unfold dec
  rw [h1, ← h1]
  simp only [enc, getBytes_put]
  rw [decEntsF_frames l _ (Nat.le_refl _)]
  rfl

/-- a non-empty proper prefix of one frame does not parse -/
theorem getBytes_proper (x p t : Bytes) (hp : p ≠ []) (ht : t ≠ []) (h : p ++ t = putBytes x) : getBytes p = none := by
  cases p with
  | nil => exact absurd rfl hp
  | cons c r =>
    simp only [putBytes, List.cons_append, List.cons.injEq] at h
    obtain ⟨hc, hr⟩ := h
    have hl : r.length < x.length := by
      have := congrArg List.length hr
      simp at this
      have : t.length > 0 := List.length_pos_iff.mpr ht
      omega
    simp [getBytes, hc]; omega

theorem decEntsF_prefix (l : List FEnt) : ∀ (q : Bytes) (f : Nat), q <+: frames l → q ≠ frames l → q.length ≤ f →
    decEntsF f q = none ∨ ∃ l', decEntsF f q = some l' ∧ l' <+: l ∧ l' ≠ l := by
  induction l with
  | nil =>
    intro q f hq hne _
    simp [frames] at hq hne
    exact absurd hq hne
  | cons e l ih =>
    intro q f hq hne hf
    cases q with
    | nil => right; exact ⟨[], by cases f <;> simp [decEntsF], List.nil_prefix, by simp⟩
    | cons c q =>
      obtain ⟨t, ht⟩ := hq
      rw [frames_cons] at ht hne
      cases f with
      | zero => simp at hf
      | succ f =>
        rcases List.append_eq_append_iff.mp ht with ⟨a', ha, _⟩ | ⟨c', hc, hb⟩
        · -- c :: q ++ a' = the first frame
          by_cases hnil : a' = []
          · -- exactly the first frame
            subst hnil
            simp only [List.append_nil] at ha
            right
            refine ⟨[e], ?_, ?_, ?_⟩
            · have h2 : c :: q = putBytes (encEnt e) ++ [] := by simp [ha]
              rw [decEntsF, h2, getBytes_put]
              simp [decEnt_enc, decEntsF]
            · exact ⟨l, rfl⟩
            · intro h
              have : l = [] := by simpa using h.symm
              subst this
              simp [frames, ha] at hne
          · left
            have := getBytes_proper (encEnt e) (c :: q) a' (by simp) hnil ha.symm
            rw [decEntsF, this]
        · -- c :: q = first frame ++ c'
          have hc'pre : c' <+: frames l := ⟨t, hb.symm⟩
          have hc'ne : c' ≠ frames l := by
            intro h; apply hne; rw [hc, h]
          have hlen : c'.length ≤ f := by
            have := congrArg List.length hc
            simp [putBytes] at this hf
            omega
          rw [decEntsF, hc, getBytes_put]
          simp only [decEnt_enc]
          rcases ih c' f hc'pre hc'ne hlen with h | ⟨l', h1, h2, h3⟩
          · left; rw [h]; rfl
          · right
            refine ⟨e :: l', by rw [h1]; rfl, ?_, by simpa using h3⟩
            obtain ⟨u, hu⟩ := h2
            exact ⟨u, by simp [hu]⟩

theorem dec_prefix (n : Bytes) (l : List FEnt) (p : Bytes) (hp : p <+: enc (n, l)) (hne : p ≠ enc (n, l)) :
    dec p = none ∨ ∃ l', dec p = some (n, l') ∧ l' <+: l ∧ l' ≠ l := by
  cases p with
  | nil => left; rfl
  | cons c q =>
    obtain ⟨t, ht⟩ := hp
    simp only [enc] at ht hne
    rcases List.append_eq_append_iff.mp ht with ⟨a', ha, _⟩ | ⟨c', hc, hb⟩
    · by_cases hnil : a' = []
      · subst hnil
        simp only [List.append_nil] at ha
        -- exactly the name frame: decodes to no entries
        by_cases hl : l = []
        · subst hl; simp [frames, ha] at hne
        · right
          refine ⟨[], ?_, List.nil_prefix, fun h => hl h.symm⟩
          have h2 : c :: q = putBytes n ++ [] := by simp [ha]
          simp only [dec]
          rw [h2, getBytes_put]
          simp [decEntsF]
      · left
        have := getBytes_proper n (c :: q) a' (by simp) hnil ha.symm
        simp only [dec, this]
    · have hc'pre : c' <+: frames l := ⟨t, hb.symm⟩
      have hc'ne : c' ≠ frames l := by
        intro h; apply hne; rw [hc, h]
      simp only [dec]
      rw [hc, getBytes_put]
      rcases decEntsF_prefix l c' c'.length hc'pre hc'ne (Nat.le_refl _) with h | ⟨l', h1, h2, h3⟩
      · left; simp [h]
      · right; exact ⟨l', by simp [h1], h2, h3⟩

/-- the concrete codec: all hypotheses of `Codec` hold -/
def lp : Codec :=
  { enc := enc, dec := dec, dec_enc := dec_enc, dec_nil := rfl, dec_prefix := dec_prefix }

end Ibx.Model.FsCodec
