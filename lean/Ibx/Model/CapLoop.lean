import Ibx.Model.FsFault
/-
  CapLoop — the cap-eviction loop of the file store AS A WHILE LOOP (pkg/storage/file/fmessage.go, mbox.newMessage):

      if mb.store.messageCap > 0 {
          for len(mb.messages) >= mb.store.messageCap {
              id := mb.messages[0].ID()
              if err := mb.removeMessage(id); err != nil { log … }      // the error is only logged: the loop goes on
          }
      }

  It runs inside Store.AddMessage, which holds the mailbox's lock bucket (one of 4096 RWMutexes shared by all mailboxes whose
  hash starts with the same three hex digits) from its first statement to its return.  The loop's condition reads the IN-MEMORY
  list `mb.messages`; nothing but the body changes it.  Whether the loop ends is therefore decided by what one call of
  `removeMessage` does to that list when file-system calls are refused — which `Ibx.Model.FsFault` does not let one ask: its
  `evictF` is a structural recursion over the list (`e :: l ↦ l`), i.e. it has the answer "the list gets shorter every time"
  built into its shape, and Lean's acceptance of that definition says nothing about the Go loop.

  Here the loop is what the code has: a condition over the length of a state component and a body, iterated by an inductive
  relation `Iter` with an explicit iteration count — no fuel, no structural descent, no claim of termination in the definition.
  The body is a parameter; two bodies are given, selected by the regenerated fact `Gen.Wedge.removeListEffect`:

    shrinksAlways      the source as it is: `mb.messages = append(mb.messages[:i], mb.messages[i+1:]...)` (and the `deleted`
                       event) come BEFORE writeIndex and nothing assigns the longer slice back.  One iteration is
                       `FsFault.removeFoundF` on the head: the list is its tail whatever was refused.
    restoresOnFailure  a removeMessage that puts the entry back when rewriting the index fails (and announces the deletion only
                       after the index is written): the list is its tail only if writeIndex succeeded.

  `F`, the hook counter `Run.k`, the directory and the events are those of FsFault, so a run of the loop is a run of the same
  refusal model.  An empty list with the condition true (`cap = 0`; the code guards the loop with `messageCap > 0`) is the
  index-out-of-range panic of `mb.messages[0]`: the body then answers `none`.
-/
namespace Ibx.Model.CapLoop
open Ibx Ibx.Spec.Store Ibx.Model.FsSteps Ibx.Model.FsFault
open Ibx.Model.FileStore (FEnt)

/-- what `removeMessage` does to the in-memory list when rewriting the index fails -/
inductive ListEffect where
  | shrinksAlways | restoresOnFailure | unknown
  deriving DecidableEq, Repr

def ListEffect.ofString (s : String) : ListEffect :=
  if s = "shrinksAlways" then .shrinksAlways
  else if s = "restoresOnFailure" then .restoresOnFailure
  else .unknown

/-- the state the loop works on: `mb.messages` and the operation in progress (directory, hook counter, trace, events) -/
structure LoopSt where
  mem : List FEnt
  run : Run
  deriving DecidableEq, Repr

section Body
variable (C : Codec) (F : Nat → Bool) (b : Bytes) (par : List FsStep)

/-- removeMessage(head) of the source as it is: slice, emit, writeIndex, unlink — `FsFault.removeFoundF`; the list is the tail -/
def bodyShrinks (s : LoopSt) : Option LoopSt :=
  match s.mem with
  | [] => none
  | e :: l => some { mem := l, run := (removeFoundF C F b par l e.id s.run).1 }

/-- removeMessage(head) that restores: slice, writeIndex — on failure the OLD list is assigned back and the error returned,
    nothing announced; on success emit, then unlink the raw file unless the directory went -/
def bodyRestores (s : LoopSt) : Option LoopSt :=
  match s.mem with
  | [] => none
  | e :: l =>
    let o := writeIndexAnyF C F b par l s.run
    if !o.2 then some { mem := e :: l, run := o.1 }
    else if l = [] then some { mem := l, run := emit o.1 e.id }
    else some { mem := l, run := (call F (emit o.1 e.id) (.unlinkRaw e.id) []).1 }

/-- the body the variant selects (`unknown`: nothing is claimed, the body is stuck) -/
def body : ListEffect → LoopSt → Option LoopSt
  | .shrinksAlways => bodyShrinks C F b par
  | .restoresOnFailure => bodyRestores C F b par
  | .unknown => fun _ => none

end Body

/-- `Iter cap body n s t`: the loop `for len(mem) >= cap { body }` started in `s` has gone round exactly `n` times and is in
    `t` (about to test its condition again).  Nothing here says that it ever stops. -/
inductive Iter (cap : Nat) (body : LoopSt → Option LoopSt) : Nat → LoopSt → LoopSt → Prop where
  | zero (s : LoopSt) : Iter cap body 0 s s
  | succ {n : Nat} {s s' t : LoopSt} : cap ≤ s.mem.length → body s = some s' → Iter cap body n s' t → Iter cap body (n + 1) s t

/-- the loop has left: its condition is false -/
def Exits (cap : Nat) (t : LoopSt) : Prop := t.mem.length < cap

/-- the loop, started in `s`, ends after `n` iterations in `t` -/
def EndsIn (cap : Nat) (body : LoopSt → Option LoopSt) (s : LoopSt) (n : Nat) (t : LoopSt) : Prop :=
  Iter cap body n s t ∧ Exits cap t

/-- a run reaches `mb.messages[0]` on an empty list -/
def Panics (cap : Nat) (body : LoopSt → Option LoopSt) (s : LoopSt) : Prop :=
  ∃ n t, Iter cap body n s t ∧ cap ≤ t.mem.length ∧ body t = none

/-- Store.AddMessage with the loop as a loop: readIndex, `if cap > 0 { the loop }`, then `FsFault.addTail` on the list and the run
    the loop left.  A relation: it has an answer only if the loop ends. -/
def AddReturns (C : Codec) (F : Nat → Bool) (b : Bytes) (v : ListEffect) (par : List FsStep) (cap : Nat) (d : Option MDir)
    (id : Nat) (hdr : Meta) (src : Bytes) (iterations : Nat) (out : FsFault.Out) : Prop :=
  match dlisting C d with
  | none => iterations = 0 ∧ out = FsFault.Out.of .err (Run.start d)
  | some l0 =>
    if cap > 0 then
      ∃ t, EndsIn cap (body C F b par v) { mem := l0, run := Run.start d } iterations t ∧ out = addTail C F b t.mem id hdr src t.run
    else iterations = 0 ∧ out = addTail C F b l0 id hdr src (Run.start d)

/-- every hooked call from the `k0`-th of the operation on is refused: the failure is PERSISTENT (a directory in the way of
    index.gob.tmp, a read-only directory, a full disk) -/
def PersistentFrom (F : Nat → Bool) (k0 : Nat) : Prop := ∀ k, k0 ≤ k → F k = true

end Ibx.Model.CapLoop
