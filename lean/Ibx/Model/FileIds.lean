import Ibx.Model.FileStore
/-
  Model of the file store's message-id generator and of the re-draw loop of `newMessage`
  (pkg/storage/file/fstore.go: countChannel / countGenerator / generatePrefix / generateID,
   pkg/storage/file/fmessage.go: newMessage / hasID).

      func generateID(date time.Time) string { return generatePrefix(date) + "-" + fmt.Sprintf("%04d", <-countChannel) }
      …
      date := time.Now(); id := generateID(date)
      for mb.hasID(id) { date = time.Now(); id = generateID(date) }
      return &Message{mailbox: mb, Fid: id, Fdate: date}

  * An id is (second of the clock, counter value).  `generatePrefix` renders the second with a fixed-width layout, so
    the prefix is an injective function of the second and string order of ids is lexicographic order of the pair.
  * The counter is ONE per process: 0000 … 9999 round and round, starting at 0000 with the process.  A draw consumes
    one value; between two draws of one loop any number of values may have been consumed by other goroutines
    (deliveries to other mailboxes), so a draw sees the counter advanced by an ARBITRARY amount `skip` (`Tick.skip`).
  * The clock is read once per draw, in whole seconds, and does not go backwards inside a loop (`Tick.adv`).
  * `hasID` exists in two variants, selected by the regenerated fact `Gen.FileStore.hasIDSearch`: a linear scan of
    the loaded index (the code), and a binary search that assumes the index is sorted by id (`sort.Search` on Fid).
  * The loop has no fuel: `newId` is defined for exactly those environments in which some draw is not taken
    (`Halts`); that this is so under the stated guards is a theorem (Props/C07Ids.lean), not a bound in the model.

  The second half composes the loop with the file-store model: `deliver` is `AddMessage` with the id `newId` settled
  on, where `os.Create(<id>.raw)` TRUNCATES a file of that name (so handing out a listed id destroys that message).
-/
namespace Ibx.Model.FileIds
open Ibx Ibx.Spec.Store
open Ibx.Model.FileStore (FS FEnt Dir readIndex rawOf toMsg writeIndex setDir capLoop)

/-- length of the counter cycle: `i = (i + 1) % 10000` -/
def cycle : Nat := 10000

/-- a message id: the second `generatePrefix` renders, and the 4-digit counter value -/
structure Id where
  sec : Nat
  ctr : Nat
  deriving DecidableEq, Repr

/-- string order of ids (fixed-width prefix, `-`, four digits) -/
def Id.le (a b : Id) : Bool := a.sec < b.sec || (a.sec == b.sec && a.ctr ≤ b.ctr)

/-- the process-wide generator state: last clock reading (seconds) and the value the counter hands out next -/
structure Gen where
  sec : Nat
  ctr : Nat
  deriving DecidableEq, Repr

/-- what the environment does between two draws: the clock advances by `adv` whole seconds (never backwards),
    other goroutines consume `skip` counter values -/
structure Tick where
  adv : Nat
  skip : Nat
  deriving DecidableEq, Repr

/-- one `time.Now()` + `generateID`: the id drawn and the generator state left behind -/
def draw (g : Gen) (t : Tick) : Id × Gen :=
  let s := g.sec + t.adv
  let c := (g.ctr + t.skip) % cycle
  ({ sec := s, ctr := c }, { sec := s, ctr := (c + 1) % cycle })

/-- the generator state after draws 0 … k of a loop run in environment `env` -/
def drawN (g : Gen) (env : Nat → Tick) : Nat → Id × Gen
  | 0 => draw g (env 0)
  | k + 1 => draw (drawN g env k).2 (env (k + 1))

/-- the id the k-th draw (counted from 0) yields -/
def cand (g : Gen) (env : Nat → Tick) (k : Nat) : Id := (drawN g env k).1

/-! ### hasID -/

inductive Search
  | linearScan
  | binarySearchAssumingSorted
  deriving DecidableEq, Repr

/-- `for _, m := range mb.messages { if m.Fid == id { return true } }; return false` -/
def hasIDLinear (id : Id) : List Id → Bool
  | [] => false
  | m :: rest => if m = id then true else hasIDLinear id rest

/-- `sort.Search(n, f)`: the smallest index in [i, j) at which `f` holds, PROVIDED `f` is monotone there -/
def sortSearch (f : Nat → Bool) (i j : Nat) : Nat :=
  if h : i < j then
    if f ((i + j) / 2) then sortSearch f i ((i + j) / 2) else sortSearch f ((i + j) / 2 + 1) j
  else i
termination_by j - i
decreasing_by all_goals omega

/-- `i := sort.Search(len(ms), func(i) { return ms[i].Fid >= id }); return i < len(ms) && ms[i].Fid == id` -/
def hasIDBinary (id : Id) (idx : List Id) : Bool :=
  let i := sortSearch (fun k => match idx[k]? with | some m => id.le m | none => true) 0 idx.length
  match idx[i]? with
  | some m => m = id
  | none => false

def hasID : Search → List Id → Id → Bool
  | .linearScan, idx, id => hasIDLinear id idx
  | .binarySearchAssumingSorted, idx, id => hasIDBinary id idx

/-! ### the re-draw loop, without fuel -/

/-- the loop that starts at draw `k` ends: some draw from `k` on is not taken -/
def Halts (p : Nat → Bool) (k : Nat) : Prop := ∃ n, k ≤ n ∧ p n = false

theorem Halts.next {p : Nat → Bool} {k : Nat} (h : Halts p k) (hp : p k = true) : Halts p (k + 1) := by
  obtain ⟨n, hk, hn⟩ := h
  refine ⟨n, ?_, hn⟩
  rcases Nat.lt_or_ge k n with h | h
  · exact h
  · have : k = n := by omega
    subst this; rw [hn] at hp; cases hp

/-- a loop position together with the evidence that the loop ends from there -/
structure Pend (p : Nat → Bool) where
  k : Nat
  h : Halts p k

/-- "one more turn of the loop": well founded because a free draw lies ahead -/
def turn (p : Nat → Bool) : Pend p → Pend p → Prop := fun a b => a.k = b.k + 1 ∧ p b.k = true

theorem turn_wf (p : Nat → Bool) : WellFounded (turn p) := by
  refine ⟨fun ⟨k, n, hk, hn⟩ => ?_⟩
  generalize hd : n - k = d
  induction d generalizing k with
  | zero =>
    refine ⟨_, fun ⟨j, hj⟩ ⟨e, hp⟩ => ?_⟩
    have : k = n := by omega
    subst this
    simp at hp; rw [hn] at hp; cases hp
  | succ d ih =>
    refine ⟨_, fun ⟨j, hj⟩ ⟨e, hp⟩ => ?_⟩
    simp at e; subst e
    exact ih (k + 1) (by omega) (by omega)

instance (p : Nat → Bool) : WellFoundedRelation (Pend p) := ⟨turn p, turn_wf p⟩

/-- `for p(k) { k++ }` — the number of the first draw that is not taken -/
def firstFree (p : Nat → Bool) (k : Nat) (h : Halts p k) : Nat :=
  if hp : p k = true then firstFree p (k + 1) (h.next hp) else k
termination_by (⟨k, h⟩ : Pend p)
decreasing_by exact ⟨rfl, hp⟩

/-- what `newMessage` settles on -/
structure Drawn where
  id : Id        -- Fid of the message returned
  gen : Gen      -- generator state afterwards
  draws : Nat    -- how many ids were drawn (1 = no re-draw)
  deriving DecidableEq, Repr

/-- `id := generateID(now); for mb.hasID(id) { id = generateID(now) }` on the loaded index `idx`, generator state `g`,
    in environment `env`, given that the loop ends -/
def newId (srch : Search) (idx : List Id) (g : Gen) (env : Nat → Tick)
    (h : Halts (fun k => hasID srch idx (cand g env k)) 0) : Drawn :=
  let n := firstFree (fun k => hasID srch idx (cand g env k)) 0 h
  { id := cand g env n, gen := (drawN g env n).2, draws := n + 1 }

/-- the same loop cut off after `fuel` draws (`none` = still drawing): used by the driver, which cannot hand over a
    proof; `newIdWithin_eq` (Lemmas/FileIds.lean) shows it is `newId` whenever it answers -/
def newIdWithin (srch : Search) (idx : List Id) (g : Gen) (env : Nat → Tick) : Nat → Nat → Option Drawn
  | 0, _ => none
  | fuel + 1, k =>
    if hasID srch idx (cand g env k) then newIdWithin srch idx g env fuel (k + 1)
    else some { id := cand g env k, gen := (drawN g env k).2, draws := k + 1 }

/-! ### ids as the file-store model sees them -/

/-- the file-store model names messages by natural numbers: `second * 10000 + counter` (a bijection between the
    naturals and the ids with a 4-digit counter, and monotone for the string order) -/
def Id.toNat (i : Id) : Nat := i.sec * cycle + i.ctr
def Id.ofNat (n : Nat) : Id := { sec := n / cycle, ctr := n % cycle }

/-- the ids of a loaded index -/
def idsOf (l : List FEnt) : List Id := l.map (fun e => Id.ofNat e.id)

/-! ### AddMessage with the id the loop settled on -/

/-- `os.Create(<i>.raw)` + `io.Copy`: a file of that name is truncated and rewritten -/
def createRaw (s : FS) (b : Bytes) (i : Nat) (src : Bytes) : FS :=
  let d := (s.dirs b).getD { index := none, raws := [] }
  setDir s b (some { d with raws := d.raws.filter (·.1 != i) ++ [(i, src)] })

/-- `AddMessage` where `pick` stands for the id drawn against the loaded index (after the cap loop, as in
    `newMessage`): cap loop, draw, createDir + create + copy, append to the index, writeIndex.  Returns the new
    file system, the id and the `deleted` events of the cap loop. -/
def addWith (c : Cfg) (s : FS) (b : Bytes) (hdr : Meta) (src : Bytes) (pick : List FEnt → Nat) : FS × Nat × List Ev :=
  let l0 := readIndex s b
  let r := if c.cap > 0 then capLoop c.cap b (l0.length + 1) s l0 [] else (s, l0, [])
  let i := pick r.2.1
  let s3 := createRaw r.1 b i src
  (writeIndex s3 b (r.2.1 ++ [{ id := i, hdr := hdr, seen := false, size := src.length }]), i, r.2.2)

/-- the index `newMessage` scans: what the cap loop left -/
def loadedAfterCap (c : Cfg) (s : FS) (b : Bytes) : List FEnt :=
  (if c.cap > 0 then capLoop c.cap b ((readIndex s b).length + 1) s (readIndex s b) [] else (s, readIndex s b, [])).2.1

/-- a delivery by the real generator: the id is the one the re-draw loop settles on -/
def deliver (srch : Search) (c : Cfg) (s : FS) (b : Bytes) (hdr : Meta) (src : Bytes) (g : Gen) (env : Nat → Tick)
    (h : Halts (fun k => hasID srch (idsOf (loadedAfterCap c s b)) (cand g env k)) 0) : FS × Nat × List Ev × Gen :=
  let d := newId srch (idsOf (loadedAfterCap c s b)) g env h
  let r := addWith c s b hdr src (fun _ => d.id.toNat)
  (r.1, r.2.1, r.2.2, d.gen)

end Ibx.Model.FileIds
