import Ibx.Bytes
import Ibx.Model.GoLower
import Ibx.Model.Css
/-
  Model of pkg/webui/sanitize/html.go : styleTagFilter / sanitizeStyleTags, over the TOKEN STREAM the
  golang.org/x/net/html tokenizer reports (successive results of `z.Next()` with what `z.Raw()`, `z.TagName()`,
  `z.TagAttr()` return for each of them).  The tokenizer itself is NOT modelled: the correspondence harness
  feeds the tokens of the real tokenizer (constructed as html.go constructs it: `html.NewTokenizer(r)`, no option
  set) to this model and compares the bytes with the real `sanitizeStyleTags`.

  html.go, read line by line:
    bw := bufio.NewWriter(w);  z := html.NewTokenizer(r)
    for {
      tt := z.Next()
      ErrorToken:  err := z.Err();  io.EOF -> return bw.Flush()      -- everything written so far is the result;
                                                                      -- the raw bytes of the unfinished token are DROPPED
                   otherwise return err                               -- no Flush: sanitizeStyleTags returns ""
      StartTagToken, SelfClosingTagToken:
        name, hasAttr := z.TagName()                                  -- name as the tokenizer lower-cased it
        !hasAttr -> write z.Raw()  (the tag as it stood in the input, except that z.TagName() has just lower-cased
                                    the name IN PLACE in the tokenizer's buffer:  `<P >`  is written  `<p >`; an end
                                    tag, for which TagName is not called, keeps its case:  `</P >`)
        else  '<' name  { attr }  [ '/' if SelfClosingTagToken ]  '>'
              attr:  key, val, more := z.TagAttr()                    -- key ASCII-lower-cased, val entity-decoded
                     style := strings.ToLower(string(key)) == "style";  if style { val = sanitizeStyle(val) }
                     if !style || val != ""  ->  ' ' key '=' '"' html.EscapeString(val) '"'
                     (a style attribute whose sanitised value is empty is dropped; any other attribute is written
                      back even when its value is empty:  `<p a>`  becomes  `<p a="">`)
      default (TextToken, EndTagToken, CommentToken, DoctypeToken):  write z.Raw()
    }
  `html` in html.go is golang.org/x/net/html, whose EscapeString escapes SIX bytes  & ' < > " CR  (the standard
  library's html.EscapeString, used by pkg/server/web/helpers.go and modelled in Model/TextHtml.lean, escapes five).
  Writes go to a bufio.Writer over a bytes.Buffer: they cannot fail, so the `return err` after each Write is dead in
  `sanitizeStyleTags`; it is not modelled.

  The CSS scanner is a parameter  `scan : Bytes → List Css.Token`  (assumption A1, as in Model/Css.lean).
  Core Lean only (linked into the driver).
-/
namespace Ibx.Model.StyleFilter
open Ibx Ibx.Model.GoLower Ibx.Model

/-- an attribute as `z.TagAttr()` reports it: (key, value) -/
abbrev Attr := Bytes × Bytes

/-- one result of `z.Next()` together with what the accessor methods return for it -/
inductive Tok
  /-- TextToken; `raw` = z.Raw() -/
  | text (raw : Bytes)
  /-- StartTagToken (`selfClosing = false`) or SelfClosingTagToken; `name` = z.TagName(), `attrs` = the successive
      z.TagAttr() results (hasAttr = the list is not empty); `raw` = z.Raw() read AFTER z.TagName(), as html.go does -/
  | startTag (selfClosing : Bool) (raw name : Bytes) (attrs : List Attr)
  | endTag (raw : Bytes)
  | comment (raw : Bytes)
  | doctype (raw : Bytes)
  /-- ErrorToken; `eof` = (z.Err() == io.EOF); `raw` = the bytes of the token the tokenizer was in the middle of -/
  | error (eof : Bool) (raw : Bytes)
  deriving DecidableEq, Repr

def styleKey : Bytes := [115, 116, 121, 108, 101]   -- style

/-- `strings.ToLower(string(key)) == "style"` -/
def isStyleKey (k : Bytes) : Bool := lowerAscii? k == some styleKey

/-! ### golang.org/x/net/html EscapeString (escape.go: escapedChars = "&'<>\"\r") -/

def amp : Bytes := [38, 97, 109, 112, 59]        -- &amp;
def apos : Bytes := [38, 35, 51, 57, 59]         -- &#39;
def lt : Bytes := [38, 108, 116, 59]             -- &lt;
def gt : Bytes := [38, 103, 116, 59]             -- &gt;
def quot : Bytes := [38, 35, 51, 52, 59]         -- &#34;
def cr : Bytes := [38, 35, 49, 51, 59]           -- &#13;

def escB (c : Nat) : Bytes :=
  if c = 38 then amp else if c = 39 then apos else if c = 60 then lt else if c = 62 then gt
  else if c = 34 then quot else if c = 13 then cr else [c]

/-- x/net/html.EscapeString: a byte-for-byte substitution (all six patterns are single bytes) -/
def escape (t : Bytes) : Bytes := t.flatMap escB

/-- the inverse on the six entities it produces (NOT the whole of html.UnescapeString) -/
def unescape6 : Bytes → Bytes
  | 38 :: 97 :: 109 :: 112 :: 59 :: r => 38 :: unescape6 r
  | 38 :: 35 :: 51 :: 57 :: 59 :: r => 39 :: unescape6 r
  | 38 :: 108 :: 116 :: 59 :: r => 60 :: unescape6 r
  | 38 :: 103 :: 116 :: 59 :: r => 62 :: unescape6 r
  | 38 :: 35 :: 51 :: 52 :: 59 :: r => 34 :: unescape6 r
  | 38 :: 35 :: 49 :: 51 :: 59 :: r => 13 :: unescape6 r
  | c :: r => c :: unescape6 r
  | [] => []

/-! ### the filter -/

section
variable (scan : Bytes → List Css.Token)

/-- `sanitizeStyle(strval)` : the existing CSS model on the scanner's tokens of the value -/
def sanitizeStyle (v : Bytes) : Bytes := Css.sanitizeStyleTR (scan v)

/-- what becomes of one attribute: `none` = dropped (a style attribute whose sanitised value is empty) -/
def rewriteAttr (a : Attr) : Option Attr :=
  if isStyleKey a.1 then
    (if sanitizeStyle scan a.2 = [] then none else some (a.1, sanitizeStyle scan a.2))
  else some a

/-- the attributes written back, in order -/
def rewriteAttrs (attrs : List Attr) : List Attr := attrs.filterMap (rewriteAttr scan)

/-- ` key="escaped value"` -/
def serAttr (a : Attr) : Bytes := 32 :: (a.1 ++ [61, 34] ++ escape a.2 ++ [34])

/-- `<name attr… [/]>` -/
def serTag (selfClosing : Bool) (name : Bytes) (attrs : List Attr) : Bytes :=
  60 :: (name ++ attrs.flatMap serAttr ++ (if selfClosing then [47] else []) ++ [62])

/-- the bytes one iteration of the loop writes for a token that is not an ErrorToken -/
def emit : Tok → Bytes
  | .startTag sc raw name attrs => if attrs.isEmpty then raw else serTag sc name (rewriteAttrs scan attrs)
  | .text raw => raw
  | .endTag raw => raw
  | .comment raw => raw
  | .doctype raw => raw
  | .error _ _ => []

/-- the loop of `styleTagFilter` followed by `sanitizeStyleTags`' result: `none` = an error other than io.EOF was
    returned (the output is then discarded); the end of the list stands for ErrorToken / io.EOF -/
def filter : List Tok → Option Bytes
  | [] => some []
  | .error eof _ :: _ => if eof then some [] else none
  | t :: ts => (filter ts).map (emit scan t ++ ·)

/-- accumulator form used by the driver (chunks in reverse order) -/
def filterAcc : List Tok → List Bytes → Option Bytes
  | [], acc => some acc.reverse.flatten
  | .error eof _ :: _, acc => if eof then some acc.reverse.flatten else none
  | t :: ts, acc => filterAcc ts (emit scan t :: acc)

def filterTR (ts : List Tok) : Option Bytes := filterAcc scan ts []

theorem filterAcc_eq (ts : List Tok) (acc : List Bytes) :
    filterAcc scan ts acc = (filter scan ts).map (acc.reverse.flatten ++ ·) := by
  induction ts generalizing acc with
  | nil => simp [filterAcc, filter]
  | cons t ts ih =>
    cases t with
    | error eof raw => cases eof <;> simp [filterAcc, filter]
    | _ =>
      simp only [filterAcc, filter, ih]
      cases filter scan ts <;> simp

theorem filterTR_eq (ts : List Tok) : filterTR scan ts = filter scan ts := by
  unfold filterTR
  rw [filterAcc_eq]
  cases filter scan ts <;> simp

end

/-! ### the token-level view of the output -/

section
variable (scan : Bytes → List Css.Token)

def Tok.isError : Tok → Bool
  | .error _ _ => true
  | _ => false

/-- `z.Raw()` -/
def Tok.raw : Tok → Bytes
  | .text r | .endTag r | .comment r | .doctype r | .error _ r => r
  | .startTag _ r _ _ => r

/-- the tokens the loop processes: those before the first ErrorToken -/
def live (ts : List Tok) : List Tok := ts.takeWhile (fun t => !t.isError)

/-- the token the filter's output stands for: a start tag with attributes gets its attributes rewritten and its raw
    bytes replaced by the serialisation; every other token is unchanged -/
def outTok : Tok → Tok
  | .startTag sc raw name attrs =>
    if attrs.isEmpty then .startTag sc raw name attrs
    else .startTag sc (serTag sc name (rewriteAttrs scan attrs)) name (rewriteAttrs scan attrs)
  | t => t

end

/-! ### how the tokenizer reads a double-quoted attribute value back (readTagAttrVal, case `"`): up to the next `"` -/

/-- (value bytes, rest after the closing quote); `none` = no closing quote -/
def readQuoted : Bytes → Option (Bytes × Bytes)
  | [] => none
  | c :: r => if c = 34 then some ([], r) else (readQuoted r).map (fun p => (c :: p.1, p.2))

end Ibx.Model.StyleFilter
