import Ibx.Bytes
/-
  Model of the two regular expressions of MAIL parsing (pkg/server/smtp/handler.go), as Go's RE2 engine evaluates them
  (leftmost-first / Perl-like submatch semantics, UTF-8 decoding with U+FFFD for invalid bytes):

    fromRegex   (?i)^FROM:\s*<((?:(?:\\>|[^>])+|"[^"]+"@[^>])+)?>( ([\w= ]|=<>)+)?$        FindStringSubmatch: groups 1, 2
    parseArgs    (\w+)=(\w+|<>)   (one leading space)                                        FindAllStringSubmatch(-1): groups 1, 2

  What the expressions mean, byte by byte.
    * `(?i)` folds F, R, O, M only onto f, r, o, m (unicode.SimpleFold has no third member for these four), and it folds the
      class `\w` — Go applies the folding to Perl classes too — so that inside fromRegex `\w` ALSO matches U+017F (the long s,
      bytes C5 BF, folds to S) and U+212A (the Kelvin sign, bytes E2 84 AA, folds to K).  `parseArgs` has no `(?i)`: there
      `\w` is [0-9A-Za-z_] only.
    * `\s` is [\t\n\f\r ] (no vertical tab).  `$` without (?m) is the end of the text.
    * `[^>]` and `[^"]` match every rune but the one named, the line feed and U+FFFD (= any byte that is not part of a valid
      UTF-8 sequence) included.  Every byte that matters to the structure ('>', '"', '\', '@', ' ', '<', '=') is ASCII and no
      byte of a multi-byte sequence is, so a match can be followed byte by byte: a rune matched by `[^>]` is one or more
      bytes other than '>', and the outer `+` goes on consuming them.
    * Which '>' ends group 1.  The match is anchored at both ends, so the only freedom is where group 1 stops.  The engine
      prefers, at every token boundary inside group 1 and in this order: the quoted pair `\>`; one rune other than '>';
      a quoted string `"…"@x` (only that may contain a bare '>'); leaving the group (possible at a '>' only, and then the rest
      must be the parameter tail or empty).  `step` below makes exactly these choices, for every suffix at once, from right
      to left, so the work is linear.  (Props/C06Args proves: the result is the decomposition with the LONGEST address.)
    * Group 2 is everything behind the closing '>' (empty when the group does not take part).

  Core Lean only, total, structural recursion only (no fuel).
-/
namespace Ibx.Model.MailArgs
open Ibx Ibx.Bytes

/-- `\w` without `(?i)`: [0-9A-Za-z_] -/
def isWord (c : Nat) : Bool := isDigitB c || isAlphaB c || c == 95

/-- `\s`: [\t\n\f\r ] -/
def isWs (c : Nat) : Bool := c == 9 || c == 10 || c == 12 || c == 13 || c == 32

/-- the one-byte members of `[\w= ]` -/
def isParam1 (c : Nat) : Bool := isWord c || c == 61 || c == 32

/-! ### fromRegex -/

/-- What is known about a suffix `suf` of the text behind `FROM:\s*<` (all fields are functions of `suf` alone):
    `r0`, `r1`, `r2`: the engine's choice when group 1 is entered / continued at the beginning of `suf`, `suf.drop 1`,
    `suf.drop 2` — `some t`: group 1 ends at a '>' that has `t` bytes behind it, `none`: no match from there;
    `p0`, `p1`, `p2`: `suf`, `suf.drop 1`, `suf.drop 2` is a sequence of `([\w= ]|=<>)` tokens (under `(?i)`);
    `bq`: for the first '"' of `suf`, when it is followed by '@' and a byte `x` other than '>': the choice behind that `x`;
    `len`: the length of `suf`. -/
structure Scan where
  r0 : Option Nat := none
  r1 : Option Nat := none
  r2 : Option Nat := none
  p0 : Bool := true
  p1 : Bool := true
  p2 : Bool := true
  bq : Option Nat := none
  len : Nat := 0
  deriving Repr, DecidableEq

/-- `suf` is empty or ` ` followed by at least one parameter token: `( ([\w= ]|=<>)+)?$` -/
def tailOK (suf : Bytes) (s : Scan) : Bool :=
  match suf with
  | [] => true
  | a :: rest => a == 32 && !rest.isEmpty && s.p1

/-- `c :: suf` is a sequence of parameter tokens: `[\w= ]`, `=<>`, and under `(?i)` U+017F (C5 BF) and U+212A (E2 84 AA) -/
def paramToks (c : Nat) (suf : Bytes) (s : Scan) : Bool :=
  (isParam1 c && s.p0) ||
  (match suf with
   | a :: b :: _ => ((c == 61 && a == 60 && b == 62) || (c == 226 && a == 132 && b == 170)) && s.p2
   | _ => false) ||
  (match suf with
   | a :: _ => c == 197 && a == 191 && s.p1
   | _ => false)

/-- the continuation behind a `"` that has just been put in front of `suf`: `"@x` with x other than '>' -/
def quoteCont (suf : Bytes) (s : Scan) : Option Nat :=
  match suf with
  | a :: x :: _ => if a == 64 && x != 62 then s.r2 else none
  | _ => none

/-- one more byte `c` in front of `suf`.  The engine's preferences at a token boundary, in order:
    `\>`, one byte other than '>', a quoted string `"q"@x` (q not empty, without '"'), leave group 1 at this '>'. -/
def step (c : Nat) (suf : Bytes) (s : Scan) : Scan :=
  let esc := if c == 92 && suf.head? == some 62 then s.r1 else none
  let plain := if c != 62 then s.r0 else none
  let quoted := if c == 34 && !suf.isEmpty && suf.head? != some 34 then s.bq else none
  let leave := if c == 62 && tailOK suf s then some s.len else none
  { r0 := (esc.or plain).or (quoted.or leave), r1 := s.r0, r2 := s.r1,
    p0 := paramToks c suf s, p1 := s.p0, p2 := s.p1,
    bq := if c == 34 then quoteCont suf s else s.bq,
    len := s.len + 1 }

/-- right to left over the text (given reversed), tail recursive -/
def scanRev : Bytes → Bytes → Scan → Scan
  | [], _, s => s
  | c :: rev, suf, s => scanRev rev (c :: suf) (step c suf s)

def scan (body : Bytes) : Scan := scanRev body.reverse [] {}

/-- `(?i)^FROM:` -/
def stripFrom : Bytes → Option Bytes
  | f :: r :: o :: m :: c :: rest =>
    if lowerB f == 102 && lowerB r == 114 && lowerB o == 111 && lowerB m == 109 && c == 58 then some rest else none
  | _ => none

/-- `fromRegex.FindStringSubmatch(arg)`: `none` = nil, `some (m[1], m[2])` otherwise -/
def mailRe (arg : Bytes) : Option (Bytes × Bytes) :=
  match stripFrom arg with
  | none => none
  | some r =>
    match r.dropWhile isWs with
    | [] => none
    | lt :: body =>
      if lt != 60 then none
      else match (scan body).r0 with
        | none => none
        | some t => some (body.take (body.length - t - 1), body.drop (body.length - t))

/-! ### parseArgs -/

/-- the expression ` (\w+)=(\w+|<>)` matched AT the beginning of the text: the two groups.  `\w+` before '=' is the whole
    run of word bytes (a shorter one is not followed by '='), the value prefers `\w+` (the whole run) to `<>`. -/
def matchAt : Bytes → Option (Bytes × Bytes)
  | [] => none
  | c :: r =>
    if c != 32 then none
    else
      let k := r.takeWhile isWord
      if k.isEmpty then none
      else match r.dropWhile isWord with
        | [] => none
        | e :: r2 =>
          if e != 61 then none
          else
            let v := r2.takeWhile isWord
            if !v.isEmpty then some (k, v)
            else match r2 with
              | a :: b :: _ => if a == 60 && b == 62 then some (k, [60, 62]) else none
              | _ => none

/-- FindAllStringSubmatch: the leftmost match, then the leftmost match behind it, …  `skip` = bytes still covered by the
    match found last. -/
def pairsAcc : Bytes → Nat → List (Bytes × Bytes) → List (Bytes × Bytes)
  | [], _, acc => acc.reverse
  | _ :: r, skip + 1, acc => pairsAcc r skip acc
  | c :: r, 0, acc =>
    match matchAt (c :: r) with
    | some (k, v) => pairsAcc r (k.length + v.length + 1) ((k, v) :: acc)
    | none => pairsAcc r 0 acc

/-- the pairs (key as written, value) in the order of the text -/
def pairsOf (params : Bytes) : List (Bytes × Bytes) := pairsAcc params 0 []

/-- `Session.parseArgs` before the keys are upper-cased and filed into the map: `none` = no pair found (`ok == false`) -/
def parseArgs (params : Bytes) : Option (List (Bytes × Bytes)) :=
  match pairsOf params with
  | [] => none
  | ps => some ps

end Ibx.Model.MailArgs
