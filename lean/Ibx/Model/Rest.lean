import Ibx.Spec.Store
import Ibx.Model.Addr
import Ibx.Model.ClientUrl
/-
  Model.Rest — the handlers of pkg/rest/apiv1_controller.go and pkg/webui/mailbox_controller.go over the
  abstract store, in the shape of the code:

      name, err := ctx.Manager.MailboxForAddress(ctx.Vars["name"])     -- = Addressing.ExtractMailbox; err → `return err` → 500
      <one call of the message.Manager>                                -- StoreManager passes the store's answer through
      <error / nil tests>                                              -- 404, 500, or a dereference
      render

  The store contract is a parameter: `strict` = a missing message is `ErrNotExist` (both stores since 7def63a);
  `nilNil` = the OLD contract: GetMessage answers `(nil, nil)`, MarkSeen / RemoveMessage answer `nil`.
  A dereference of a nil message / a read from a nil reader is the explicit outcome `Status.panic`
  (net/http recovers it and drops the connection).  I/O errors of the store are not modelled (the abstract
  store has none); they would all take the `return fmt.Errorf(…)` → 500 branches.
-/
namespace Ibx.Model.Rest
open Ibx Ibx.Spec.Store Ibx.Model.Addr
open Ibx.Model.ClientUrl (Handler)

inductive Contract | strict | nilNil
  deriving DecidableEq, Repr

/-- the id variable as the store understands it -/
inductive IdArg
  | num (n : Nat)      -- the id string of the n-th message delivered to the mailbox
  | latest             -- the literal "latest" (GetMessage only)
  | junk               -- any other string: an id no store ever handed out
  deriving DecidableEq, Repr

def sLatest : Bytes := [108, 97, 116, 101, 115, 116]

/-- `dec` = the back-end's id syntax (decimal counter / timestamp-sequence), abstract -/
def idArg (dec : Bytes → Option Nat) (id : Bytes) : IdArg :=
  if id == sLatest then .latest else match dec id with | some n => .num n | none => .junk

inductive Status | ok | notFound | error | panic
  deriving DecidableEq, Repr

inductive Payload
  | none                                   -- error pages
  | okStr                                  -- the JSON string "OK"
  | listing (box : Bytes) (l : List Msg)   -- ids, order, from / to / subject / date / size / seen, mailbox = box
  | message (box : Bytes) (m : Msg)        -- header fields + the parsed body of m.source
  | source (b : Bytes)
  | html (m : Msg)                         -- the HTML part of m.source
  | attach (m : Msg) (num : Nat)           -- attachment `num` of m.source
  deriving DecidableEq, Repr

structure Resp where
  status : Status
  payload : Payload
  deriving DecidableEq, Repr

def r404 : Resp := ⟨.notFound, .none⟩
def r500 : Resp := ⟨.error, .none⟩
def rPanic : Resp := ⟨.panic, .none⟩
def rOK : Resp := ⟨.ok, .okStr⟩

/-! ### message.StoreManager over the store, under a contract -/

inductive GetRes
  | found (m : Msg)
  | nilNil          -- (nil, nil)
  | notExist        -- (nil, ErrNotExist)
  deriving DecidableEq, Repr

def miss : Contract → GetRes
  | .strict => .notExist
  | .nilNil => .nilNil

/-- StoreManager.GetMessage / SourceReader: Store.GetMessage passed through -/
def mgrGet (k : Contract) (s : Store) (box : Bytes) : IdArg → GetRes
  | .num n => match s.msgs.find? (isMsg box n) with | some m => .found m | none => miss k
  | .latest => match (listing s box).getLast? with | some m => .found m | none => miss k
  | .junk => miss k

/-- error result of MarkSeen / RemoveMessage: `true` = ErrNotExist, `false` = nil -/
def missErr : Contract → Bool
  | .strict => true
  | .nilNil => false

/-- "latest" is an ordinary (never allocated) id for MarkSeen and RemoveMessage -/
def mutId : IdArg → Option Nat
  | .num n => some n
  | _ => none

def mgrMarkSeen (k : Contract) (s : Store) (box : Bytes) (id : IdArg) : Store × Bool :=
  match mutId id with
  | some n =>
    if s.msgs.any (isMsg box n) then
      ({ s with msgs := s.msgs.map (fun m => if isMsg box n m then { m with seen := true } else m) }, false)
    else (s, missErr k)
  | none => (s, missErr k)

def mgrRemove (k : Contract) (s : Store) (box : Bytes) (id : IdArg) : Store × Bool :=
  match mutId id with
  | some n =>
    if s.msgs.any (isMsg box n) then ({ s with msgs := s.msgs.filter (fun m => !isMsg box n m) }, false)
    else (s, missErr k)
  | none => (s, missErr k)

def mgrPurge (s : Store) (box : Bytes) : Store :=
  { s with msgs := s.msgs.filter (fun m => !inBox box m) }

/-! ### requests -/

/-- the request body as MailboxMarkSeenV1's JSON decoder sees it -/
inductive Body
  | absent        -- no body / not JSON: Decode fails
  | seenTrue      -- an object with "seen": true
  | seenFalse     -- any other JSON object (or null)
  deriving DecidableEq, Repr

/-- {num} of the attachment route: strconv.ParseUint(…, 10, 32) -/
inductive NumArg | ok (n : Nat) | bad
  deriving DecidableEq, Repr

structure Req where
  name : Bytes
  id : IdArg := .junk
  body : Body := .absent
  num : NumArg := .bad
  /-- number of attachments enmime finds in the addressed message (MIME parsing is not modelled) -/
  natt : Nat := 0

/-- does the handler test the message / reader for nil before using it?  (tied to the source by Tie.Rest) -/
def nilGuarded : Handler → Bool
  | .showV1 | .sourceV1 | .wMessage => true
  | _ => false

structure Env where
  ip : Bytes → Bool
  naming : Naming
  contract : Contract

/-- the common tail of the handlers that fetch one message: `unguarded` ones test `err == ErrNotExist` only -/
def fetch (e : Env) (h : Handler) (s : Store) (box : Bytes) (id : IdArg) (render : Msg → Resp) : Resp :=
  match mgrGet e.contract s box id with
  | .found m => render m
  | .notExist => r404
  | .nilNil => if nilGuarded h then r404 else rPanic

/-- one request to one handler -/
def handle (e : Env) (h : Handler) (s : Store) (rq : Req) : Resp × Store :=
  match extractMailbox e.ip e.naming rq.name with
  | none => (r500, s)
  | some box =>
    match h with
    | .listV1 => (⟨.ok, .listing box (listing s box)⟩, s)
    | .purgeV1 => (rOK, mgrPurge s box)
    | .showV1 | .wMessage => (fetch e h s box rq.id (fun m => ⟨.ok, .message box m⟩), s)
    | .sourceV1 | .wSource => (fetch e h s box rq.id (fun m => ⟨.ok, .source m.source⟩), s)
    | .wHtml => (fetch e h s box rq.id (fun m => ⟨.ok, .html m⟩), s)
    | .wAttach =>
      match rq.num with
      | .bad => (r500, s)
      | .ok n => (fetch e h s box rq.id (fun m => if n ≥ rq.natt then r500 else ⟨.ok, .attach m n⟩), s)
    | .seenV1 =>
      match rq.body with
      | .absent => (r500, s)
      | .seenFalse => (rOK, s)
      | .seenTrue =>
        let (s', notExist) := mgrMarkSeen e.contract s box rq.id
        if notExist then (r404, s') else (rOK, s')
    | .deleteV1 =>
      let (s', notExist) := mgrRemove e.contract s box rq.id
      if notExist then (r404, s') else (rOK, s')
    | _ => (r404, s)      -- monitor / greeting / status: not part of this model

end Ibx.Model.Rest
