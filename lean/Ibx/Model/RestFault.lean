import Ibx.Model.Rest
/-
  Model.RestFault — the handlers of pkg/rest/apiv1_controller.go and pkg/webui/mailbox_controller.go over a store that
  can FAIL, statement by statement, through message.StoreManager (pkg/message/manager.go) and the wrapper
  web.Handler.ServeHTTP (pkg/server/web/handlers.go).

  A request meets a fault oracle `F : Call → Outcome`: for each store call the handler makes, in order, whether it
  succeeds, reports storage.ErrNotExist, reports an error that WRAPS ErrNotExist (fmt.Errorf("…%w", ErrNotExist)), or fails
  with another error; `readAfter` = how many bytes a failing source reader hands out before its error; `envelopeOk` = whether
  enmime.ReadEnvelope accepts the bytes of the addressed message.

      Store.GetMessages                                   GetMetadata            (MailboxListV1)
      Store.GetMessage → Message.Source → read to EOF     GetMessage             (MailboxShowV1, MailboxMessage, MailboxHTML,
                          (enmime.ReadEnvelope)                                    MailboxViewAttach)
      Store.GetMessage → Message.Source                   SourceReader           (MailboxSourceV1, MailboxSource), then
                          → read (io.Copy to the ResponseWriter)                   the handler streams
      Store.MarkSeen / RemoveMessage / PurgeMessages      the Manager method of the same name

  What the code does with an error, as modelled here:
    * StoreManager hands every error on unchanged (`return nil, err`), except that an error of the reader met inside
      enmime.ReadEnvelope comes back wrapped by enmime (errors.WithMessage): it is no longer IDENTICAL to ErrNotExist.
    * the handlers compare with `==` / `!=`: only the bare storage.ErrNotExist is a 404 (http.NotFound, `return nil`), at
      GetMessage / SourceReader / MarkSeen / RemoveMessage; GetMetadata and PurgeMessages have no 404 branch.  Every other
      error is returned to the wrapper, which answers http.Error(…, 500).
    * no handler writes to the ResponseWriter before its last Manager call.  The two source handlers then STREAM: io.Copy
      writes what the reader delivers; if the reader fails after at least one byte the 200 header and those bytes are already
      out, the handler returns the error, and the wrapper's http.Error can only append its text to the same body
      (`torn = true`: status 200, the body is a proper prefix-or-all of the source followed by the error text).  If the reader
      fails before its first byte nothing was written and the answer is a clean 500.
    * a mutating call that fails is modelled as not having happened (the store the decorator of the T2 leg wraps is not
      called); what a real back-end leaves behind when ITS OWN update fails half-way is C11's subject, not this model's.

  `Variant` selects plausible WRONG handlers for the counter-witness theorems; `handleF` is the code as written.
-/
namespace Ibx.Model.RestFault
open Ibx Ibx.Spec.Store Ibx.Model.Addr Ibx.Model.Rest
open Ibx.Model.ClientUrl (Handler)

/-- the fallible calls a handler can make below message.StoreManager -/
inductive Call | getMessages | getMessage | sourceOpen | sourceRead | markSeen | removeMessage | purgeMessages
  deriving DecidableEq, Repr

inductive Outcome
  | ok
  | notExist        -- storage.ErrNotExist itself
  | wrapsNotExist   -- an error for which errors.Is(err, ErrNotExist) holds but err != ErrNotExist
  | ioErr           -- any other error
  deriving DecidableEq, Repr

structure Faults where
  f : Call → Outcome
  /-- bytes the source reader delivers before failing (used only when `f .sourceRead ≠ .ok`) -/
  readAfter : Nat := 0
  /-- enmime.ReadEnvelope accepts the message's bytes (MIME parsing itself is not modelled) -/
  envelopeOk : Bool := true

def noFaults : Faults := { f := fun _ => .ok }

/-- a non-nil error value, as far as the handlers can tell them apart -/
inductive ErrV | notExist | wraps | other
  deriving DecidableEq, Repr

def errOf : Outcome → ErrV
  | .notExist => .notExist
  | .wrapsNotExist => .wraps
  | _ => .other

/-- `err == storage.ErrNotExist` — identity of the error value (tied by Tie.RestFault.notExistTests_tie) -/
def ErrV.isNotExist : ErrV → Bool
  | .notExist => true
  | _ => false

/-- what Manager.GetMessage / Manager.SourceReader hand to the handler -/
inductive Fetched
  | msg (m : Msg)        -- a message / an open reader on its source
  | nilNil               -- (nil, nil): the OLD store contract only
  | err (e : ErrV)       -- (nil, err)
  deriving DecidableEq, Repr

/-- plausible wrong handlers (counter-witnesses only) -/
inductive Variant
  | asWritten
  | fetchErrIgnored      -- `msg, _ := ctx.Manager.GetMessage(…)`: the error of the fetch is dropped
  | listErrIsEmpty       -- `messages, _ := ctx.Manager.GetMetadata(name)`: an error renders the empty list
  deriving DecidableEq, Repr

/-- Store.GetMessage under the fault oracle -/
def storeGet (k : Contract) (F : Faults) (s : Store) (box : Bytes) (id : IdArg) : Fetched :=
  match F.f .getMessage with
  | .ok =>
    match mgrGet k s box id with
    | .found m => .msg m
    | .nilNil => .nilNil
    | .notExist => .err .notExist
  | o => .err (errOf o)

/-- the error enmime.ReadEnvelope returns when the reader fails: the reader's error, wrapped -/
def envelopeReadErr : Outcome → ErrV
  | .ioErr => .other
  | _ => .wraps

/-- StoreManager.GetMessage: Store.GetMessage; `err != nil || sm == nil` → return; sm.Source(); `err` → return;
    enmime.ReadEnvelope(r); `err` → return.  With the calls made. -/
def mgrGetMessage (k : Contract) (F : Faults) (s : Store) (box : Bytes) (id : IdArg) : Fetched × List Call :=
  match storeGet k F s box id with
  | .msg m =>
    match F.f .sourceOpen with
    | .ok =>
      match F.f .sourceRead with
      | .ok => (if F.envelopeOk then .msg m else .err .other, [.getMessage, .sourceOpen, .sourceRead])
      | o => (.err (envelopeReadErr o), [.getMessage, .sourceOpen, .sourceRead])
    | o => (.err (errOf o), [.getMessage, .sourceOpen])
  | r => (r, [.getMessage])

/-- StoreManager.SourceReader: Store.GetMessage; `err != nil || sm == nil` → return; `return sm.Source()` -/
def mgrSourceReader (k : Contract) (F : Faults) (s : Store) (box : Bytes) (id : IdArg) : Fetched × List Call :=
  match storeGet k F s box id with
  | .msg m =>
    match F.f .sourceOpen with
    | .ok => (.msg m, [.getMessage, .sourceOpen])
    | o => (.err (errOf o), [.getMessage, .sourceOpen])
  | r => (r, [.getMessage])

/-- the error / nil tests every fetching handler makes before it touches the result
    (guarded: `err != nil && err != ErrNotExist` → error, `msg == nil` → 404;
     unguarded: `err == ErrNotExist` → 404, `err != nil` → error, then the dereference) -/
def afterFetch (v : Variant) (h : Handler) (r : Fetched) (render : Msg → Resp × Bool) : Resp × Bool :=
  match r with
  | .msg m => render m
  | .nilNil => (if nilGuarded h then r404 else rPanic, false)
  | .err e =>
    match v with
    | .fetchErrIgnored => (if nilGuarded h then r404 else rPanic, false)
    | _ => (if e.isNotExist then r404 else r500, false)

/-- `w.Header().Set(…); _, err = io.Copy(w, r); return err` -/
def copyOut (F : Faults) (m : Msg) : Resp × Bool :=
  match F.f .sourceRead with
  | .ok => (⟨.ok, .source m.source⟩, false)
  | _ =>
    if (m.source.take F.readAfter).isEmpty then (r500, false)
    else (⟨.ok, .source (m.source.take F.readAfter)⟩, true)

structure Out where
  resp : Resp
  /-- the 200 header and the payload were written BEFORE the handler returned an error: the wrapper's error text follows
      the payload in the same body -/
  torn : Bool
  store : Store
  /-- the store-level calls made, in order -/
  calls : List Call

/-- one request to one handler, under a fault oracle -/
def handleV (v : Variant) (e : Env) (F : Faults) (h : Handler) (s : Store) (rq : Req) : Out :=
  match extractMailbox e.ip e.naming rq.name with
  | none => ⟨r500, false, s, []⟩
  | some box =>
    match h with
    | .listV1 =>
      match F.f .getMessages with
      | .ok => ⟨⟨.ok, .listing box (listing s box)⟩, false, s, [.getMessages]⟩
      | _ =>
        match v with
        | .listErrIsEmpty => ⟨⟨.ok, .listing box []⟩, false, s, [.getMessages]⟩
        | _ => ⟨r500, false, s, [.getMessages]⟩
    | .purgeV1 =>
      match F.f .purgeMessages with
      | .ok => ⟨rOK, false, mgrPurge s box, [.purgeMessages]⟩
      | _ => ⟨r500, false, s, [.purgeMessages]⟩
    | .showV1 | .wMessage =>
      let g := mgrGetMessage e.contract F s box rq.id
      let a := afterFetch v h g.1 (fun m => (⟨.ok, .message box m⟩, false))
      ⟨a.1, a.2, s, g.2⟩
    | .wHtml =>
      let g := mgrGetMessage e.contract F s box rq.id
      let a := afterFetch v h g.1 (fun m => (⟨.ok, .html m⟩, false))
      ⟨a.1, a.2, s, g.2⟩
    | .wAttach =>
      match rq.num with
      | .bad => ⟨r500, false, s, []⟩
      | .ok n =>
        let g := mgrGetMessage e.contract F s box rq.id
        let a := afterFetch v h g.1 (fun m => (if n ≥ rq.natt then r500 else ⟨.ok, .attach m n⟩, false))
        ⟨a.1, a.2, s, g.2⟩
    | .sourceV1 | .wSource =>
      let g := mgrSourceReader e.contract F s box rq.id
      let a := afterFetch v h g.1 (copyOut F)
      ⟨a.1, a.2, s, match g.1 with | .msg _ => g.2 ++ [.sourceRead] | _ => g.2⟩
    | .seenV1 =>
      match rq.body with
      | .absent => ⟨r500, false, s, []⟩
      | .seenFalse => ⟨rOK, false, s, []⟩
      | .seenTrue =>
        match F.f .markSeen with
        | .ok =>
          let r := mgrMarkSeen e.contract s box rq.id
          ⟨if r.2 then r404 else rOK, false, r.1, [.markSeen]⟩
        | .notExist => ⟨r404, false, s, [.markSeen]⟩
        | _ => ⟨r500, false, s, [.markSeen]⟩
    | .deleteV1 =>
      match F.f .removeMessage with
      | .ok =>
        let r := mgrRemove e.contract s box rq.id
        ⟨if r.2 then r404 else rOK, false, r.1, [.removeMessage]⟩
      | .notExist => ⟨r404, false, s, [.removeMessage]⟩
      | _ => ⟨r500, false, s, [.removeMessage]⟩
    | _ => ⟨r404, false, s, []⟩      -- monitor / greeting / status: not part of this model

/-! ### vocabulary of the theorems (and of Tie/RestFault) -/

/-- the ten mailbox handlers -/
def modelled : Handler → Bool
  | .listV1 | .purgeV1 | .showV1 | .seenV1 | .deleteV1 | .sourceV1 | .wMessage | .wHtml | .wSource | .wAttach => true
  | _ => false

/-- handlers that run the message through enmime.ReadEnvelope -/
def parses : Handler → Bool
  | .showV1 | .wMessage | .wHtml | .wAttach => true
  | _ => false

/-- the two handlers that copy the source reader to the ResponseWriter -/
def streams : Handler → Bool
  | .sourceV1 | .wSource => true
  | _ => false

/-- the mutating store call of a handler -/
def mutCall : Handler → Option Call
  | .seenV1 => some .markSeen
  | .deleteV1 => some .removeMessage
  | .purgeV1 => some .purgeMessages
  | _ => none

/-- the calls at which the code has a 404 branch (`err == storage.ErrNotExist` → http.NotFound): the store's GetMessage and the
    open of the source behind GetMessage / SourceReader, MarkSeen, RemoveMessage — not GetMessages, PurgeMessages, nor a read -/
def has404 : Call → Bool
  | .getMessage | .sourceOpen | .markSeen | .removeMessage => true
  | _ => false

/-- the handlers as written -/
def handleF (e : Env) (F : Faults) (h : Handler) (s : Store) (rq : Req) : Out := handleV .asWritten e F h s rq

end Ibx.Model.RestFault
