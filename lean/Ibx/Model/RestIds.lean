import Ibx.Model.Rest
/-
  Model.RestIds — the STRING form of a message id on the by-id routes.

  `Model.Rest.handle` takes the id as the store understands it (`IdArg`: a message number, the alias "latest",
  junk).  What travels is a byte string: the store hands out id STRINGS (`str n` for the n-th message of a mailbox:
  mem `strconv.Itoa(mb.last)`, file `generatePrefix(date) + "-" + %04d`), a request carries an ARBITRARY byte
  string, and the store decides which message — if any — that string names:

      mem   GetMessage   : id == "latest" → the newest;  otherwise  m, ok = mb.messages[id]        (map[string]*Message)
            MarkSeen     : m := mb.messages[id]                      RemoveMessage : mb.messages[id]; delete(mb.messages, id)
      file  getMessage   : id == "latest" && len ≠ 0 → the newest;  otherwise  for m in messages { if m.Fid == id … }
            MarkSeen     : for m in messages { if m.Fid == id … }    removeMessage : for m in messages { if id == m.ID() … }

  i.e. string EQUALITY with the id string of a listed message, in both stores (`Lookup.byString`; tied to the source by
  Ibx/Tie/StoreIds.lean).  The alternative `Lookup.byDecimalValue` — messages keyed by their integer index, the request
  string converted with `strconv.Atoi` — is modelled beside it; the regenerated facts select the variant.
-/
namespace Ibx.Model.RestIds
open Ibx Ibx.Spec.Store Ibx.Model.Addr Ibx.Model.Rest
open Ibx.Model.ClientUrl (Handler)

/-- how a back-end finds the message a request string names -/
inductive Lookup
  | byString          -- equality with the id string of a listed message (map index by the string / `Fid == id`)
  | byDecimalValue    -- `strconv.Atoi(id)`, then the message with that index
  deriving DecidableEq, Repr

/-! ### decimal strings (the memory store's id syntax) -/

def decStrGo : Nat → Nat → Bytes → Bytes
  | 0, _, acc => acc
  | f + 1, n, acc =>
    let acc' := (48 + n % 10) :: acc
    if n / 10 = 0 then acc' else decStrGo f (n / 10) acc'

/-- `strconv.Itoa` of a non-negative number -/
def decStr (n : Nat) : Bytes := decStrGo (n + 1) n []

/-- the digits of `strconv.Atoi`: base 10, no underscores; `none` on any other byte and on the empty string -/
def digitsVal : Nat → Bytes → Option Nat
  | acc, [] => some acc
  | acc, c :: r => if 48 ≤ c ∧ c ≤ 57 then digitsVal (acc * 10 + (c - 48)) r else none

/-- `strconv.Atoi` on a 64-bit platform: one optional sign, at least one digit, digits only, value within int64;
    `none` = an error (syntax or range) -/
def atoi (s : Bytes) : Option Int :=
  match s with
  | [] => none
  | 43 :: r => if r.isEmpty then none else (digitsVal 0 r).bind (fun v => if v < 2 ^ 63 then some (Int.ofNat v) else none)
  | 45 :: r => if r.isEmpty then none else (digitsVal 0 r).bind (fun v => if v ≤ 2 ^ 63 then some (-(Int.ofNat v)) else none)
  | _ => (digitsVal 0 s).bind (fun v => if v < 2 ^ 63 then some (Int.ofNat v) else none)

/-! ### which message a request string names -/

/-- the listed message of `box` whose id string is `r` (the first, in listing order) -/
def findByStr (str : Nat → Bytes) (s : Store) (box r : Bytes) : Option Msg :=
  (listing s box).find? (fun m => str m.id == r)

/-- the request string as the store understands it.  Both stores test for the literal "latest" first (an alias in
    GetMessage only: `Model.Rest.mutId` makes it an unknown id for MarkSeen / RemoveMessage). -/
def resolve (lk : Lookup) (str : Nat → Bytes) (s : Store) (box r : Bytes) : IdArg :=
  if r == sLatest then .latest
  else match lk with
    | .byString => match findByStr str s box r with | some m => .num m.id | none => .junk
    | .byDecimalValue => match atoi r with | some (Int.ofNat n) => .num n | _ => .junk

/-- a request as it arrives: the id is a byte string -/
structure ReqS where
  name : Bytes
  id : Bytes := []
  body : Body := .absent
  num : NumArg := .bad
  natt : Nat := 0

/-- one request to one handler, the id given as the string of the URL -/
def handleS (e : Env) (lk : Lookup) (str : Nat → Bytes) (h : Handler) (s : Store) (rq : ReqS) : Resp × Store :=
  match extractMailbox e.ip e.naming rq.name with
  | none => (r500, s)
  | some box =>
    handle e h s { name := rq.name, id := resolve lk str s box rq.id, body := rq.body, num := rq.num, natt := rq.natt }

/-- a history of requests: the answers in order and the final store -/
def runS (e : Env) (lk : Lookup) (str : Nat → Bytes) : Store → List (Handler × ReqS) → List Resp × Store
  | s, [] => ([], s)
  | s, (h, rq) :: rest =>
    let (r, s1) := handleS e lk str h s rq
    let (rs, s2) := runS e lk str s1 rest
    (r :: rs, s2)

end Ibx.Model.RestIds
