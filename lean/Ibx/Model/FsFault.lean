import Ibx.Model.FsSteps
/-
  FsFault — the file store's mutating operations when file-system calls are REFUSED while the process lives on
  (pkg/storage/file/{fstore,mbox,fmessage}.go, the error paths).

  `Ibx.Model.FsSteps` gives every operation as the list of primitives it issues when nothing fails, and the crash
  theorems cut that list.  Here a call may FAIL: the call does not happen, its Go function returns an error, and the
  code goes on along its error path — which is modelled statement by statement:

    * every mutation the code announces to the verif step hook (`verifStep(name, path)`, called immediately before
      the mutation, in execution order) is one `Hook`; the k-th hook call of an operation (k = 0, 1, …) is refused
      when `F k = true` (`F : Nat → Bool` is the fault set), or fails by itself when the system call cannot succeed
      in the directory state it meets (`okDir` of FsSteps — never the case from a well-formed state, a theorem of
      Props/C16Fault.lean);
    * a refused hook leaves the directory exactly as it was (a refused write writes nothing, a refused RemoveAll
      removes nothing);
    * mbox.writeIndex: createDir (mkdirall only when the directory is missing), create-tmp, flush-tmp, close-tmp,
      rename — the first failure returns the error, whatever the temporary file holds by then stays behind;
    * mbox.removeDir: unlink-index (ENOENT is not an error), removeall, then removeDirIfEmpty of the parent and, only
      if that removed it, of the grand-parent (failures of these two are logged and dropped: removeDir returns nil);
    * mbox.removeMessage: the entry leaves the IN-MEMORY list and `deleted` is emitted BEFORE writeIndex; when
      writeIndex fails the error is returned, the raw file is not unlinked, the in-memory list stays shortened;
    * mbox.newMessage: the cap loop logs a failed removeMessage and GOES ON with the shortened in-memory list;
    * Store.AddMessage: createDir, create-raw, copy-raw, flush-raw, close-raw, then writeIndex of the in-memory list
      + the new entry; a failure after create-raw unlinks the raw file again (`_ = os.Remove(rawPath)`: a mutation
      WITHOUT hook, its own error ignored) and returns the error;
    * Store.MarkSeen / RemoveMessage / PurgeMessages accordingly (purge emits one `deleted` per listed message
      before anything is removed).
  Every operation builds its mbox from the on-disk index, so the in-memory list of a failed operation is discarded:
  the state between operations is the directory tree alone (`FS` of FsSteps), as in the crash model.

  The `stored` event is the message manager's and is not part of this model.  Events are the ids of the `deleted`
  events in emission order (all concern the operation's mailbox).

  Not modelled: the two parent directory levels (as in FsSteps: which rmdir-parent hooks are issued is computed from
  the layout; an EMPTY parent left behind by a refused rmdir-parent is not remembered), a failing Source() of the
  message handed to AddMessage before the first step.  A readIndex that fails is an undecodable index (`dlisting = none`)
  or an index file that cannot be opened (`opFR`, at the end of this file).
-/
namespace Ibx.Model.FsFault
open Ibx Ibx.Spec.Store Ibx.Model.FsSteps
open Ibx.Model.FileStore (FEnt)

/-! ### hooks: the mutations as the code announces them -/

/-- one call of `verifStep(name, path)`; same names, same order as in the source -/
inductive Hook
  | mkdirall
  | createRaw (id : Nat)
  | copyRaw (id : Nat)
  | flushRaw (id : Nat)
  | closeRaw (id : Nat)
  | createTmp
  | flushTmp
  | closeTmp
  | rename
  | unlinkIndex
  | removeAll
  | rmdirParent (level : Nat)
  | unlinkRaw (id : Nat)
  deriving DecidableEq, Repr

/-- the token the driver prints and the harness derives from the hook's (name, path) -/
def Hook.name : Hook → String
  | .mkdirall => "mkdirall"
  | .createRaw id => s!"create-raw:{id}"
  | .copyRaw id => s!"copy-raw:{id}"
  | .flushRaw id => s!"flush-raw:{id}"
  | .closeRaw id => s!"close-raw:{id}"
  | .createTmp => "create-tmp"
  | .flushTmp => "flush-tmp"
  | .closeTmp => "close-tmp"
  | .rename => "rename"
  | .unlinkIndex => "unlink-index"
  | .removeAll => "removeall"
  | .rmdirParent lv => s!"rmdir-parent:{lv}"
  | .unlinkRaw id => s!"unlink-raw:{id}"

/-- the primitives of FsSteps a hooked call consists of when it is carried out (`payload` = the bytes the call writes).
    `io.Copy(w, r)` into the still empty bufio.Writer hands the reader to `(*os.File).ReadFrom`: the body reaches the file
    during copy-raw, the Flush that follows finds an empty buffer and writes nothing.  The index is gob-encoded into the
    bufio.Writer and reaches index.gob.tmp at flush-tmp. -/
def Hook.steps (d : Option MDir) (payload : Bytes) : Hook → List FsStep
  | .mkdirall => [.mkdirAll]
  | .createRaw id => [.createRaw id]
  | .copyRaw id => [.appendRaw id payload]
  | .flushRaw _ => []
  | .closeRaw id => [.closeRaw id]
  | .createTmp => [.createTmp]
  | .flushTmp => [.appendTmp payload]
  | .closeTmp => [.closeTmp]
  | .rename => [.renameTmp]
  | .unlinkIndex => [.unlinkIndex]
  | .removeAll => removeAllP Chooser.whole d
  | .rmdirParent lv => [.rmdirParent lv]
  | .unlinkRaw id => [.unlinkRaw id]

/-- every system call of `L`, issued in turn from `d`, succeeds by itself -/
def okAll : Option MDir → List FsStep → Bool
  | _, [] => true
  | d, st :: L => okDir d st && okAll (applyDir d st) L

/-! ### the state of an operation in progress -/

structure Run where
  d : Option MDir          -- the mailbox directory
  k : Nat                  -- hook calls made so far (= index of the next one)
  trace : List Hook        -- the hook calls made, in order (refused ones included: the hook runs BEFORE the call)
  events : List Nat        -- ids of the `deleted` events emitted, in order
  deriving DecidableEq, Repr

def Run.start (d : Option MDir) : Run := { d := d, k := 0, trace := [], events := [] }

/-- one hooked call: refused by the fault set, or failing by itself, it does not happen; the flag is "no error" -/
def call (F : Nat → Bool) (r : Run) (h : Hook) (payload : Bytes) : Run × Bool :=
  let st := h.steps r.d payload
  let good := !F r.k && okAll r.d st
  ({ r with d := if good then runDir r.d st else r.d, k := r.k + 1, trace := r.trace ++ [h] }, good)

/-- hooked calls in sequence, `return err` at the first failure -/
def calls (F : Nat → Bool) : Run → List (Hook × Bytes) → Run × Bool
  | r, [] => (r, true)
  | r, (h, p) :: L =>
    let o := call F r h p
    if o.2 then calls F o.1 L else (o.1, false)

/-- `emit deleted` -/
def emit (r : Run) (id : Nat) : Run := { r with events := r.events ++ [id] }

/-- a mutation the code makes without announcing it (`_ = os.Remove(fm.rawPath())` in AddMessage's error paths);
    its own failure is ignored -/
def silentUnlinkRaw (r : Run) (id : Nat) : Run := { r with d := applyDir r.d (.unlinkRaw id) }

section Ops
variable (C : Codec) (F : Nat → Bool) (b : Bytes)

/-- mbox.createDir: `os.Stat(path)`, MkdirAll only when that fails -/
def createDirH (d : Option MDir) : List (Hook × Bytes) := if d.isNone then [(.mkdirall, [])] else []

/-- mbox.writeIndex with a non-empty in-memory list -/
def writeIndexF (l : List FEnt) (r : Run) : Run × Bool :=
  calls F r (createDirH r.d ++ [(.createTmp, []), (.flushTmp, C.enc (b, l)), (.closeTmp, []), (.rename, [])])

/-- the rmdir-parent hooks of a layout (`parentSteps` of FsSteps) -/
def parentHooks (par : List FsStep) : List (Hook × Bytes) :=
  par.filterMap fun st => match st with | .rmdirParent lv => some (.rmdirParent lv, []) | _ => none

/-- mbox.removeDir: unlink index.gob, RemoveAll, then the parents — removeDirIfEmpty(grand-parent) only when the parent
    went; their failures are dropped -/
def removeDirF (par : List FsStep) (r : Run) : Run × Bool :=
  let had := r.d.isSome
  let o := calls F r [(.unlinkIndex, []), (.removeAll, [])]
  if o.2 then ((calls F o.1 (if had then parentHooks par else [])).1, true) else (o.1, false)

/-- mbox.writeIndex -/
def writeIndexAnyF (par : List FsStep) (l : List FEnt) (r : Run) : Run × Bool :=
  if l = [] then removeDirF F par r else writeIndexF C F b l r

/-- mbox.removeMessage of an entry that was found; `l'` = the in-memory list without it (it is `l'` from here on,
    whatever happens): emit, writeIndex, unlink the raw unless the directory went -/
def removeFoundF (par : List FsStep) (l' : List FEnt) (id : Nat) (r : Run) : Run × Bool :=
  let o := writeIndexAnyF C F b par l' (emit r id)
  if !o.2 then (o.1, false)
  else if l' = [] then (o.1, true)
  else call F o.1 (.unlinkRaw id) []

/-- the cap loop of mbox.newMessage: `for len(messages) >= cap { if err := removeMessage(messages[0].ID()); err != nil
    { log } }` — the error is logged and the loop goes on; the in-memory list afterwards is `evictRest cap l` whatever failed -/
def evictF (par : List FsStep) (cap : Nat) : Run → List FEnt → Run
  | r, [] => r
  | r, e :: l => if (e :: l).length ≥ cap then evictF par cap (removeFoundF C F b par l e.id r).1 l else r

/-- the result class of an operation -/
inductive Res | ok | err | notExist deriving DecidableEq, Repr

def Res.name : Res → String
  | .ok => "ok" | .err => "err" | .notExist => "notExist"

structure Out where
  res : Res
  d : Option MDir
  events : List Nat
  trace : List Hook
  deriving DecidableEq, Repr

def Out.of (res : Res) (r : Run) : Out := { res := res, d := r.d, events := r.events, trace := r.trace }

/-- Store.AddMessage after mbox.newMessage has returned (`l1` = the in-memory list the cap loop left): createDir,
    os.Create(raw) — nothing to clean up when these fail —, io.Copy, Flush, Close — on failure the raw file is removed
    again —, then writeIndex of `l1` + the new entry — on failure the raw file is removed again -/
def addTail (l1 : List FEnt) (id : Nat) (hdr : Meta) (src : Bytes) (r1 : Run) : Out :=
  let o2 := calls F r1 (createDirH r1.d ++ [(.createRaw id, [])])
  if !o2.2 then Out.of .err o2.1
  else
    let o3 := calls F o2.1 [(.copyRaw id, src), (.flushRaw id, []), (.closeRaw id, [])]
    if !o3.2 then Out.of .err (silentUnlinkRaw o3.1 id)
    else
      let o4 := writeIndexF C F b (l1 ++ [newEnt id hdr src]) o3.1
      if !o4.2 then Out.of .err (silentUnlinkRaw o4.1 id) else Out.of .ok o4.1

/-- Store.AddMessage: readIndex, the cap loop, the new message -/
def addF (par : List FsStep) (cap : Nat) (d : Option MDir) (id : Nat) (hdr : Meta) (src : Bytes) : Out :=
  match dlisting C d with
  | none => Out.of .err (Run.start d)
  | some l0 =>
    addTail C F b (if cap > 0 then evictRest cap l0 else l0) id hdr src
      (if cap > 0 then evictF C F b par cap (Run.start d) l0 else Run.start d)

/-- Store.MarkSeen -/
def seenF (d : Option MDir) (id : Nat) : Out :=
  match dlisting C d with
  | none => Out.of .err (Run.start d)
  | some l =>
    match l.find? (fun e => e.id = id) with
    | none => Out.of .notExist (Run.start d)
    | some e =>
      if e.seen then Out.of .ok (Run.start d)
      else
        let o := writeIndexF C F b (markFirst id l) (Run.start d)
        Out.of (if o.2 then .ok else .err) o.1

/-- Store.RemoveMessage -/
def removeF (par : List FsStep) (d : Option MDir) (id : Nat) : Out :=
  match dlisting C d with
  | none => Out.of .err (Run.start d)
  | some l =>
    if l.any (fun e => e.id = id) then
      let o := removeFoundF C F b par (eraseFirst id l) id (Run.start d)
      Out.of (if o.2 then .ok else .err) o.1
    else Out.of .notExist (Run.start d)

/-- Store.PurgeMessages: one `deleted` per listed message first, then `messages = messages[:0]; writeIndex()` -/
def purgeF (par : List FsStep) (d : Option MDir) : Out :=
  match dlisting C d with
  | none => Out.of .err (Run.start d)
  | some l =>
    let o := removeDirF F par { Run.start d with events := l.map (·.id) }
    Out.of (if o.2 then .ok else .err) o.1

end Ops

/-- an operation on the directory it addresses -/
def opD (C : Codec) (F : Nat → Bool) (par : List FsStep) (cap : Nat) (d : Option MDir) : FsSteps.Op → Out
  | .add b id hdr src => addF C F b par cap d id hdr src
  | .seen b id => seenF C F b d id
  | .remove b id => removeF C F b par d id
  | .purge _ => purgeF C F par d

/-- what an operation with refused calls leaves and reports -/
structure OutFS where
  res : Res
  fs : FS
  events : List Nat
  trace : List Hook

/-- `opF C lay cap F op s`: operation `op` started in state `s`, the hook calls `{k | F k}` of it refused -/
def opF (C : Codec) (lay : Layout) (cap : Nat) (F : Nat → Bool) (op : FsSteps.Op) (s : FS) : OutFS :=
  let o := opD C F (parentSteps lay s op.box) cap (s.dirs op.box) op
  { res := o.res, fs := setDir s op.box o.d, events := o.events, trace := o.trace }

/-- the fault set given as a list of hook indices -/
def refuse (ks : List Nat) : Nat → Bool := fun k => ks.contains k

/-- what lies in a mailbox directory without being listed: raw files no index entry names, a leftover index.gob.tmp -/
def orphanRaws (C : Codec) (d : Option MDir) : List Nat :=
  match d with
  | none => []
  | some x =>
    let ids := ((dlisting C d).getD []).map (·.id)
    (x.raws.map (·.1)).filter fun i => !ids.contains i

def hasTmp : Option MDir → Bool
  | none => false
  | some x => x.tmp.isSome

/-! ### an index that exists and cannot be opened -/

/-- the mailbox directory holds an index file -/
def hasIndex : Option MDir → Bool
  | none => false
  | some x => x.index.isSome

/-- `opFR C lay cap F noread op s`: as `opF`; with `noread` set, `os.Open(index.gob)` inside mbox.readIndex FAILS although the
    `os.Stat` before it succeeded (the process is out of descriptors, the file belongs to somebody else after a restore, an
    I/O error): readIndex returns that error and so does every operation — before its first mutation, before any event.
    A mailbox without an index file cannot meet this fault: there `os.Stat` fails first and the mailbox is, rightly, taken
    for empty. -/
def opFR (C : Codec) (lay : Layout) (cap : Nat) (F : Nat → Bool) (noread : Bool) (op : FsSteps.Op) (s : FS) : OutFS :=
  if noread && hasIndex (s.dirs op.box) then { res := .err, fs := s, events := [], trace := [] }
  else opF C lay cap F op s

end Ibx.Model.FsFault
