import Ibx.Bytes
import Ibx.Spec.Unstuff
/-
  Executable models (accumulator style: the driver runs them on MiB inputs) of
    * bufio.Scanner with bufio.ScanLines, with and without a token limit          (scanLines, scanLim)
    * pkg/server/pop3/handler.go sendMessage / sendMessageTop                       (pop3Send, sendMessage, pop3Top)
    * an RFC 1939 client reading a multi-line response                              (pop3ClientDecode)
    * the line-ending normalisation a POP3 transfer applies                         (crlf)
    * fmt.Sprintf restricted to the verb %s, the two trace lines of pkg/message/manager.go Deliver and
      pkg/server/smtp/handler.go dataHandler, and Deliver's io.MultiReader          (traceHeaders, storedSource)
    * the read interfaces that copy Source() verbatim                               (storeSource, restSource, webSource, storeSize)
-/
namespace Ibx.Model.Pop3Send
open Ibx Ibx.Spec.Unstuff

/-! ### bufio.ScanLines -/

/-- `cur` holds the bytes of the current line in reverse; bufio's dropCR removes ONE trailing CR -/
def finishLine (cur : Bytes) : Bytes :=
  match cur with
  | 13 :: t => t.reverse
  | t => t.reverse

/-- split at LF, drop one trailing CR per token; a non-empty unterminated last line is a token (its CR dropped
    too: a final "\r" yields the empty token); the empty remainder after the last LF is not a token -/
def scanLoop : Bytes → Bytes → List Bytes → List Bytes
  | [], cur, acc => (if cur.isEmpty then acc else finishLine cur :: acc).reverse
  | c :: rest, cur, acc =>
    if c == 10 then scanLoop rest [] (finishLine cur :: acc)
    else scanLoop rest (c :: cur) acc

def scanLines (src : Bytes) : List Bytes := scanLoop src [] []

/-- the same scanner with `Buffer(nil, lim)`: bufio.ErrTooLong as soon as `lim` bytes of one token have been
    buffered without an LF among them; `(tokens delivered before, no error)`.  `n` = `cur.length`. -/
def scanLimLoop (lim : Nat) : Bytes → Bytes → Nat → List Bytes → List Bytes × Bool
  | [], cur, _, acc => ((if cur.isEmpty then acc else finishLine cur :: acc).reverse, true)
  | c :: rest, cur, n, acc =>
    if c == 10 then scanLimLoop lim rest [] 0 (finishLine cur :: acc)
    else if n + 1 ≥ lim then (acc.reverse, false)
    else scanLimLoop lim rest (c :: cur) (n + 1) acc

def scanLim (lim : Nat) (src : Bytes) : List Bytes × Bool := scanLimLoop lim src [] 0 []

/-! ### POP3 RETR / TOP -/

/-- `if strings.HasPrefix(line, ".") { line = "." + line }` -/
def dotPrefix (l : Bytes) : Bytes :=
  match l with
  | 46 :: _ => 46 :: l
  | _ => l

/-- `s.send(line)` = line ++ CRLF -/
def sendLine (l : Bytes) : Bytes := dotPrefix l ++ [13, 10]

/-- "-ERR Failed to RETR that message, internal error" -/
def errLine : Bytes := [45, 69, 82, 82, 32, 70, 97, 105, 108, 101, 100, 32, 116, 111, 32, 82, 69, 84, 82, 32, 116, 104, 97,
  116, 32, 109, 101, 115, 115, 97, 103, 101, 44, 32, 105, 110, 116, 101, 114, 110, 97, 108, 32, 101, 114, 114, 111, 114]

/-- the multi-line response body of RETR when the scanner never fails -/
def pop3Send (src : Bytes) : Bytes := ((scanLines src).map sendLine).flatten ++ [46, 13, 10]

/-- sendMessage as written: `scanner.Buffer(nil, int(msg.Size())+1)`; on a scanner error "." and an -ERR line follow
    the lines already sent -/
def sendMessage (size : Nat) (src : Bytes) : Bytes :=
  let r := scanLim (size + 1) src
  (r.1.map sendLine).flatten ++ [46, 13, 10] ++ (if r.2 then [] else errLine ++ [13, 10])

/-- sendMessageTop's loop over the scanned lines: everything up to and including the first empty line, then at most
    `n` more lines (`break` once the count is used up) -/
def topLoop : List Bytes → Bool → Nat → List Bytes → List Bytes
  | [], _, _, acc => acc.reverse
  | l :: ls, inBody, n, acc =>
    let line := dotPrefix l
    if inBody then
      if n < 1 then acc.reverse else topLoop ls true (n - 1) (line :: acc)
    else topLoop ls (line.isEmpty) n (line :: acc)

def pop3Top (src : Bytes) (n : Nat) : Bytes :=
  ((topLoop (scanLines src) false n []).map (· ++ [13, 10])).flatten ++ [46, 13, 10]

/-! ### an RFC 1939 client -/

/-- read up to the first CR LF pair: `(line, rest)`; `none` if there is none.  `acc` = the line so far, reversed -/
def readCRLF : Bytes → Bytes → Option (Bytes × Bytes)
  | [], _ => none
  | c :: rest, acc =>
    match c, rest with
    | 13, 10 :: rest' => some (acc.reverse, rest')
    | _, _ => readCRLF rest (c :: acc)

/-- "If any line of the multi-line response begins with the termination octet, the line is "byte-stuffed"…":
    the client strips ONE leading '.' -/
def unstuff1 (l : Bytes) : Bytes :=
  match l with
  | 46 :: t => t
  | _ => l

/-- read CRLF lines until the line "."; `acc` = the decoded text so far, reversed -/
def clientLoop : Nat → Bytes → Bytes → Option (Bytes × Bytes)
  | 0, _, _ => none
  | fuel + 1, wire, acc =>
    match readCRLF wire [] with
    | none => none
    | some (l, rest) =>
      if l == [46] then some (acc.reverse, rest)
      else clientLoop fuel rest (10 :: 13 :: ((unstuff1 l).reverse ++ acc))

/-- `(the message with CRLF line ends, the bytes after the terminator)`; `none` = no terminator.
    Every line takes at least two bytes, so `wire.length` rounds are enough. -/
def pop3ClientDecode (wire : Bytes) : Option (Bytes × Bytes) := clientLoop wire.length wire []

/-- the line-ending normalisation a POP3 transfer applies: LF and CRLF both become CRLF, a missing final newline is
    supplied (`= Spec.crlfNorm`, theorem `crlf_eq_spec`) -/
def crlf (src : Bytes) : Bytes := joinCRLF (scanLines src)

/-! ### the trace lines and the stored source -/

/-- "%!s(MISSING)" -/
def missing : Bytes := [37, 33, 115, 40, 77, 73, 83, 83, 73, 78, 71, 41]

/-- fmt.Sprintf for a format whose only verb is `%s` (arguments are not re-scanned) -/
def fmtS : Bytes → List Bytes → Bytes
  | [], _ => []
  | [c], _ => [c]
  | c :: d :: rest, args =>
    if c = 37 ∧ d = 115 then
      match args with
      | a :: as => a ++ fmtS rest as
      | [] => missing ++ fmtS rest []
    else c :: fmtS (d :: rest) args

/-- "Return-Path: <%s>\r\n" (manager.go) -/
def returnPathFmt : Bytes := [82, 101, 116, 117, 114, 110, 45, 80, 97, 116, 104, 58, 32, 60, 37, 115, 62, 13, 10]
/-- "Received: from %s ([%s]) by %s\r\n" (smtp/handler.go dataHandler) -/
def recvdHeaderFmt : Bytes := [82, 101, 99, 101, 105, 118, 101, 100, 58, 32, 102, 114, 111, 109, 32, 37, 115, 32, 40, 91, 37,
  115, 93, 41, 32, 98, 121, 32, 37, 115, 13, 10]
/-- "%s  for <%s>; %s\r\n" (manager.go) -/
def recvdFmt : Bytes := [37, 115, 32, 32, 102, 111, 114, 32, 60, 37, 115, 62, 59, 32, 37, 115, 13, 10]

/-- dataHandler: `fmt.Sprintf("Received: from %s ([%s]) by %s\r\n", s.remoteDomain, s.remoteHost, s.config.Domain)` -/
def recvdHeader (helo host domain : Bytes) : Bytes := fmtS recvdHeaderFmt [helo, host, domain]

/-- Deliver: the two strings put in front of the source, per mailbox -/
def traceHeaders (sender mailbox recvdHdr ts : Bytes) : Bytes :=
  fmtS returnPathFmt [sender] ++ fmtS recvdFmt [recvdHdr, mailbox, ts]

/-- `io.MultiReader(strings.NewReader(returnPath), strings.NewReader(recvd), bytes.NewReader(source))` read to the end -/
def storedSource (sender mailbox recvdHdr ts decoded : Bytes) : Bytes :=
  traceHeaders sender mailbox recvdHdr ts ++ decoded

/-! ### the interfaces that hand out `Source()` unchanged -/

/-- storage.Message.Source(): the bytes AddMessage copied (mem: io.ReadAll, file: io.Copy into <id>.raw) -/
def storeSource (src : Bytes) : Bytes := src
/-- storage.Message.Size(): the number of bytes AddMessage copied -/
def storeSize (src : Bytes) : Nat := src.length
/-- MailboxSourceV1: `io.Copy(w, r)` -/
def restSource (src : Bytes) : Bytes := storeSource src
/-- MailboxSource: `io.Copy(w, r)` -/
def webSource (src : Bytes) : Bytes := storeSource src
/-- RETR as a client sees it: sendMessage with the store's size, decoded by an RFC 1939 client -/
def pop3Source (src : Bytes) : Option (Bytes × Bytes) := pop3ClientDecode (sendMessage (storeSize src) src)

end Ibx.Model.Pop3Send
