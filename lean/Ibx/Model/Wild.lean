import Ibx.Spec.Glob
/-
  Model of stringutil.MatchWithWildcards (pkg/stringutil/utils.go): the boolean DP matrix,
  computed row by row exactly as the Go loops do (including the second `if` overriding the first).
  Elements are runes (`[]rune(p)`, `[]rune(s)`).
-/
namespace Ibx.Model.Wild
open Ibx.Spec

/-- row 0: `M[0][0] = true`, `M[0][1] = (p[0]=='*')`, `M[0][j] = M[0][j-1]` if `p[j-1]=='*'` else false -/
def row0Aux : List Nat → Bool → List Bool
  | [], _ => []
  | c :: cs, b => let v := b && c == star; v :: row0Aux cs v

def row0 (p : List Nat) : List Bool := true :: row0Aux p true

/-- one row `i ≥ 1` from the previous one; `pd = M[i-1][j-1]`, head of the list argument is
    `M[i-1][j]`, `cl = M[i][j-1]` -/
def rowAux (x : Nat) : List Nat → Bool → List Bool → Bool → List Bool
  | c :: cs, pd, pu :: prest, cl =>
    let v0 := if c == star then pu || cl else false
    let v := if c == qm || x == c then pd else v0
    v :: rowAux x cs pu prest v
  | _, _, _, _ => []

def nextRow (p : List Nat) (prev : List Bool) (x : Nat) : List Bool :=
  match prev with
  | [] => []
  | d :: rest => false :: rowAux x p d rest false

def matchDP (p s : List Nat) : Bool :=
  (s.foldl (nextRow p) (row0 p)).getLastD false

end Ibx.Model.Wild
