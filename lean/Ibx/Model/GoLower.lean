import Ibx.Bytes
/- Go's strings.ToLower, as far as a comparison of the result with an ASCII key can see it (shared by the
   C18 models: CSS property allow-list, link scheme allow-list).  Core Lean only. -/
namespace Ibx.Model.GoLower
open Ibx

/-- `strings.ToLower(v)` as far as a comparison with an ASCII string can see it.
    Go lower-cases rune by rune (`unicode.ToLower`); a byte < 128 is lower-cased as ASCII; exactly two
    non-ASCII runes lower-case INTO ASCII: U+0130 (bytes C4 B0) -> 'i' and U+212A KELVIN SIGN (bytes
    E2 84 AA) -> 'k' (the harness re-checks this fact over all runes on every run); every other
    non-ASCII rune, and every invalid byte (mapped to U+FFFD), leaves a non-ASCII rune in the result,
    which then equals no key of the table: `none`. -/
def lowerAscii? : Bytes → Option Bytes
  | [] => some []
  | 196 :: 176 :: r => (lowerAscii? r).map (105 :: ·)
  | 226 :: 132 :: 170 :: r => (lowerAscii? r).map (107 :: ·)
  | c :: r => if c < 128 then (lowerAscii? r).map (Bytes.lowerB c :: ·) else none

/-- on pure ASCII input this is the byte-wise lower-casing -/
theorem lowerAscii?_ascii (v : Bytes) (h : ∀ c ∈ v, c < 128) : lowerAscii? v = some (Bytes.lower v) := by
  induction v with
  | nil => simp [lowerAscii?]
  | cons c v ih =>
    have hc := h c (by simp)
    have hv := ih (fun a ha => h a (by simp [ha]))
    rw [lowerAscii?.eq_def]
    split <;> simp_all
    all_goals omega

end Ibx.Model.GoLower
