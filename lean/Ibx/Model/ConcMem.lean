/-
  ConcMem — interleaving model of the memory store (pkg/storage/mem/store.go, maxsize.go) under concurrent use.

  Shared state: the per-mailbox maps (`boxes`: first / last / ids present, ascending), the atomic seen flags, the
  store mutex, one RW lock per mailbox, and the size enforcer goroutine: its list `all`, its running total `cur`,
  and the two per-message fields it owns (`el` = "m.el != nil", `gone`).  Message contents are abstracted to
  (mailbox, id) keys and sizes.

  Every client operation is the step program the code executes:
      withMailbox:  s.Lock()            lockS
                    find/create; s.Unlock()   unlockS
                    mb.Lock()/RLock()   lockB
                    f(mb)               crit      (the critical section = `Atomic.step`, the linearisation point)
      then the todo list computed by the critical section:  unlock the mailbox, then one rendezvous with the
      enforcer per evicted / removed / purged message (`rem k`) and, for a delivery, the registration (`inc k`).
  A rendezvous is two-phase: the client's send is enabled only while the enforcer is in its `select` (idle);
  the client then waits on `done`; the enforcer processes the request in its own steps (for an eviction:
  all.Remove(front), then removeMessage = store lock, mailbox write lock, delete, unlock) and closes `done`.
  Emit(deleted) never blocks on store state (asynchronous broker) and is not a step.
  GetMessage("latest") is the step program of GetMessages; VisitMailboxes is a sequence of GetMessages.

  Variants (selected by facts regenerated from the source, see Ibx/Tie/Conc.lean):
    remove = goneFlag   the `remove` case tests `m.el == nil` and sets `m.gone`     (the code as it is)
             unguarded  the original `all.Remove(m.el)` — a nil dereference when el is nil
    site   = outsideLock  enforcerDeliver / enforcerRemove are called after withMailbox returned (the code)
             insideLock   a rendezvous inside the closure passed to withMailbox (holding the mailbox lock):
                          enforcerDeliver of AddMessage, enforcerRemove of RemoveMessage
-/
namespace Ibx.Model.ConcMem

inductive RemoveVar | unguarded | goneFlag
  deriving DecidableEq, Repr
inductive CallSite | outsideLock | insideLock
  deriving DecidableEq, Repr

structure Variant where
  remove : RemoveVar
  site : CallSite
  deriving DecidableEq, Repr

/-- the variant the source has now -/
def Variant.code : Variant := { remove := .goneFlag, site := .outsideLock }

/-- per-mailbox cap (0 = none) and the enforcer's byte limit (0 = no enforcer goroutine, channels are nil) -/
structure Cfg where
  cap : Nat
  limit : Nat
  deriving Repr

abbrev Key := Nat × Nat      -- (mailbox, id)

inductive Op
  | add (b size : Nat)
  | get (b i : Nat)
  | list (b : Nat)
  | seen (b i : Nat)
  | remove (b i : Nat)
  | purge (b : Nat)
  deriving DecidableEq, Repr

def Op.box : Op → Nat
  | .add b _ | .get b _ | .list b | .seen b _ | .remove b _ | .purge b => b

/-- withMailbox(…, writeLock, …): only GetMessage / GetMessages take the read lock -/
def Op.isWrite : Op → Bool
  | .get _ _ | .list _ => false
  | _ => true

inductive Ret
  | id (i : Nat)
  | found (i : Nat)
  | ids (l : List Nat)
  | ok
  | notExist
  deriving DecidableEq, Repr

structure Box where
  first : Nat
  last : Nat
  msgs : List Nat
  deriving Repr

def upd {α β : Type} [DecidableEq α] (f : α → β) (a : α) (v : β) : α → β := fun x => if x = a then v else f x

@[simp] theorem upd_same {α β : Type} [DecidableEq α] (f : α → β) (a : α) (v : β) : upd f a v a = v := by simp [upd]
theorem upd_other {α β : Type} [DecidableEq α] (f : α → β) (a x : α) (v : β) (h : x ≠ a) : upd f a v x = f x := by simp [upd, h]

/-! ### the atomic machine: what one critical section does -/

structure AS where
  boxes : Nat → Box
  seen : Key → Bool

/-- the cap loop of AddMessage: `for len(mb.messages) > cap { if first present { delete; collect }; first++ }` -/
def capLoop (cap : Nat) : Nat → Nat → List Nat → List Nat → Nat × List Nat × List Nat
  | 0, first, msgs, ev => (first, msgs, ev.reverse)
  | fuel + 1, first, msgs, ev =>
    if msgs.length > cap then
      if msgs.contains first then capLoop cap fuel (first + 1) (msgs.filter (· != first)) (first :: ev)
      else capLoop cap fuel (first + 1) msgs ev
    else (first, msgs, ev.reverse)

/-- the critical section of each operation: new state, result, keys deleted from the map -/
def Atomic.step (c : Cfg) (a : AS) : Op → AS × Ret × List Key
  | .add b _ =>
    let bx := a.boxes b
    let i := bx.last + 1
    let msgs1 := bx.msgs ++ [i]
    let r := if c.cap > 0 then capLoop c.cap (i + 1 - bx.first) bx.first msgs1 [] else (bx.first, msgs1, [])
    ({ a with boxes := upd a.boxes b { first := r.1, last := i, msgs := r.2.1 } }, .id i, r.2.2.map (fun j => (b, j)))
  | .get b i => (a, if (a.boxes b).msgs.contains i then .found i else .notExist, [])
  | .list b => (a, .ids (a.boxes b).msgs, [])
  | .seen b i =>
    if (a.boxes b).msgs.contains i then ({ a with seen := upd a.seen (b, i) true }, .ok, []) else (a, .notExist, [])
  | .remove b i =>
    let bx := a.boxes b
    if bx.msgs.contains i then
      ({ a with boxes := upd a.boxes b { bx with msgs := bx.msgs.filter (· != i) } }, .ok, [(b, i)])
    else (a, .notExist, [])
  | .purge b =>
    let bx := a.boxes b
    ({ a with boxes := upd a.boxes b { bx with msgs := [] } }, .ok, bx.msgs.map (fun j => (b, j)))

/-- sequential run of the atomic machine -/
def Atomic.run (c : Cfg) : AS → List Op → AS × List Ret
  | a, [] => (a, [])
  | a, o :: os =>
    let x := Atomic.step c a o
    let y := Atomic.run c x.1 os
    (y.1, x.2.1 :: y.2)

def AS.empty : AS := { boxes := fun _ => { first := 0, last := 0, msgs := [] }, seen := fun _ => false }

/-! ### threads -/

inductive Instr
  | unlock
  | inc (k : Key)      -- enforcerDeliver(m)
  | rem (k : Key)      -- enforcerRemove(m)
  deriving DecidableEq, Repr

inductive PC
  | idle
  | lockS (o : Op)
  | unlockS (o : Op)
  | lockB (o : Op)
  | crit (o : Op)
  | run (o : Op) (todo : List Instr) (r : Ret)
  | wait (o : Op) (todo : List Instr) (r : Ret)
  deriving DecidableEq, Repr

inductive EPC
  | idle
  | inc (t : Nat) (k : Key)
  | loop (t : Nat)
  | evLockS (t : Nat) (k : Key)
  | evUnlockS (t : Nat) (k : Key)
  | evLockB (t : Nat) (k : Key)
  | evCrit (t : Nat) (k : Key)
  | evUnlockB (t : Nat) (k : Key) (found : Bool)
  | rem (t : Nat) (k : Key)
  | fin (t : Nat)
  deriving DecidableEq, Repr

inductive Who
  | cl (t : Nat)
  | enf
  deriving DecidableEq, Repr

structure St where
  thr : Nat → PC
  prog : Nat → List Op
  boxes : Nat → Box
  seen : Key → Bool
  size : Key → Nat
  slock : Option Who
  wlock : Nat → Option Who
  rlock : Nat → Nat → Bool
  epc : EPC
  all : List Key
  cur : Int
  el : Key → Bool
  gone : Key → Bool
  panic : Bool
  -- ghost components (never read by a guard)
  lin : List (Who × Op × Ret)       -- critical sections in the order they happened
  hist : List (Nat × Op × Ret)      -- completed operations
  removed : List Key                -- keys deleted from their map
  counted : List Key                -- keys whose size is currently included in `cur`

def init (progs : Nat → List Op) : St :=
  { thr := fun _ => .idle, prog := progs, boxes := AS.empty.boxes, seen := AS.empty.seen, size := fun _ => 0,
    slock := none, wlock := fun _ => none, rlock := fun _ _ => false, epc := .idle, all := [], cur := 0,
    el := fun _ => false, gone := fun _ => false, panic := false, lin := [], hist := [], removed := [], counted := [] }

/-- what the operation still has to do after its critical section -/
def todoOf (v : Variant) (c : Cfg) (o : Op) (r : Ret) (del : List Key) : List Instr :=
  if c.limit = 0 then [.unlock]
  else match o, r with
    | .add b _, .id i =>
      match v.site with
      | .outsideLock => .unlock :: (del.map .rem ++ [.inc (b, i)])
      | .insideLock => .inc (b, i) :: .unlock :: del.map .rem
    | .remove _ _, _ =>
      match v.site with
      | .outsideLock => .unlock :: del.map .rem
      | .insideLock => del.map .rem ++ [.unlock]
    | _, _ => .unlock :: del.map .rem

def newSize (o : Op) (r : Ret) (size : Key → Nat) : Key → Nat :=
  match o, r with
  | .add b sz, .id i => upd size (b, i) sz
  | _, _ => size

/-- effect of thread `t` running the critical section of `o` -/
def critEff (v : Variant) (c : Cfg) (t : Nat) (o : Op) (s : St) : St :=
  let x := Atomic.step c { boxes := s.boxes, seen := s.seen } o
  { s with boxes := x.1.boxes, seen := x.1.seen, size := newSize o x.2.1 s.size,
           thr := upd s.thr t (.run o (todoOf v c o x.2.1 x.2.2) x.2.1),
           lin := s.lin ++ [(.cl t, o, x.2.1)], removed := s.removed ++ x.2.2 }

def canLock (s : St) (o : Op) : Prop :=
  s.wlock o.box = none ∧ (o.isWrite = true → ∀ t', s.rlock o.box t' = false)

def acquire (s : St) (t : Nat) (o : Op) : St :=
  { s with wlock := if o.isWrite then upd s.wlock o.box (some (.cl t)) else s.wlock,
           rlock := if o.isWrite then s.rlock else upd s.rlock o.box (upd (s.rlock o.box) t true) }

def release (s : St) (t : Nat) (o : Op) : St :=
  { s with wlock := if o.isWrite then upd s.wlock o.box none else s.wlock,
           rlock := if o.isWrite then s.rlock else upd s.rlock o.box (upd (s.rlock o.box) t false) }

/-- `close(md.done)`: the waiting client continues -/
def resume : PC → PC
  | .wait o todo r => .run o todo r
  | pc => pc

/-- the enforcer's removeMessage critical section for key `k`: is the message still in its map? -/
def evFound (s : St) (k : Key) : Bool := (s.boxes k.1).msgs.contains k.2

def evDelete (s : St) (k : Key) : St :=
  { s with boxes := if evFound s k then upd s.boxes k.1 { s.boxes k.1 with msgs := (s.boxes k.1).msgs.filter (· != k.2) }
                    else s.boxes,
           lin := s.lin ++ [(.enf, .remove k.1 k.2, if evFound s k then .ok else .notExist)],
           removed := if evFound s k then s.removed ++ [k] else s.removed }

inductive Step (v : Variant) (c : Cfg) : St → St → Prop
  -- client threads
  | start (t : Nat) (o : Op) (rest : List Op) {s : St} : s.panic = false → s.thr t = .idle → s.prog t = o :: rest →
      Step v c s { s with thr := upd s.thr t (.lockS o), prog := upd s.prog t rest }
  | lockS (t : Nat) (o : Op) {s : St} : s.panic = false → s.thr t = .lockS o → s.slock = none →
      Step v c s { s with thr := upd s.thr t (.unlockS o), slock := some (.cl t) }
  | unlockS (t : Nat) (o : Op) {s : St} : s.panic = false → s.thr t = .unlockS o →
      Step v c s { s with thr := upd s.thr t (.lockB o), slock := none }
  | lockB (t : Nat) (o : Op) {s : St} : s.panic = false → s.thr t = .lockB o → canLock s o →
      Step v c s { acquire s t o with thr := upd s.thr t (.crit o) }
  | crit (t : Nat) (o : Op) {s : St} : s.panic = false → s.thr t = .crit o →
      Step v c s (critEff v c t o s)
  | unlockB (t : Nat) (o : Op) (todo : List Instr) (r : Ret) {s : St} : s.panic = false →
      s.thr t = .run o (.unlock :: todo) r →
      Step v c s { release s t o with thr := upd s.thr t (.run o todo r) }
  | sendInc (t : Nat) (o : Op) (k : Key) (todo : List Instr) (r : Ret) {s : St} : s.panic = false →
      s.thr t = .run o (.inc k :: todo) r → s.epc = .idle →
      Step v c s { s with thr := upd s.thr t (.wait o todo r), epc := .inc t k }
  | sendRem (t : Nat) (o : Op) (k : Key) (todo : List Instr) (r : Ret) {s : St} : s.panic = false →
      s.thr t = .run o (.rem k :: todo) r → s.epc = .idle →
      Step v c s { s with thr := upd s.thr t (.wait o todo r), epc := .rem t k }
  | finish (t : Nat) (o : Op) (r : Ret) {s : St} : s.panic = false → s.thr t = .run o [] r →
      Step v c s { s with thr := upd s.thr t .idle, hist := s.hist ++ [(t, o, r)] }
  -- the size enforcer: `incoming` case
  | incGone (t : Nat) (k : Key) {s : St} : s.panic = false → s.epc = .inc t k → s.gone k = true →
      Step v c s { s with epc := .fin t }
  | incReg (t : Nat) (k : Key) {s : St} : s.panic = false → s.epc = .inc t k → s.gone k = false →
      Step v c s { s with all := s.all ++ [k], el := upd s.el k true, cur := s.cur + (s.size k : Int),
                          counted := k :: s.counted, epc := .loop t }
  | loopDone (t : Nat) {s : St} : s.panic = false → s.epc = .loop t → ¬ (s.cur > (c.limit : Int)) →
      Step v c s { s with epc := .fin t }
  | loopEmpty (t : Nat) {s : St} : s.panic = false → s.epc = .loop t → s.cur > (c.limit : Int) → s.all = [] →
      Step v c s { s with epc := .fin t }
  | loopEvict (t : Nat) (k : Key) (rest : List Key) {s : St} : s.panic = false → s.epc = .loop t →
      s.cur > (c.limit : Int) → s.all = k :: rest →
      Step v c s { s with all := rest, epc := .evLockS t k }
  | evLockS (t : Nat) (k : Key) {s : St} : s.panic = false → s.epc = .evLockS t k → s.slock = none →
      Step v c s { s with slock := some .enf, epc := .evUnlockS t k }
  | evUnlockS (t : Nat) (k : Key) {s : St} : s.panic = false → s.epc = .evUnlockS t k →
      Step v c s { s with slock := none, epc := .evLockB t k }
  | evLockB (t : Nat) (k : Key) {s : St} : s.panic = false → s.epc = .evLockB t k →
      s.wlock k.1 = none → (∀ t', s.rlock k.1 t' = false) →
      Step v c s { s with wlock := upd s.wlock k.1 (some .enf), epc := .evCrit t k }
  | evCrit (t : Nat) (k : Key) {s : St} : s.panic = false → s.epc = .evCrit t k →
      Step v c s { evDelete s k with epc := .evUnlockB t k (evFound s k) }
  | evUnlockB (t : Nat) (k : Key) (found : Bool) {s : St} : s.panic = false → s.epc = .evUnlockB t k found →
      Step v c s { s with wlock := upd s.wlock k.1 none,
                          cur := if found then s.cur - (s.size k : Int) else s.cur,
                          counted := if found then s.counted.erase k else s.counted,
                          epc := .loop t }
  -- the size enforcer: `remove` case
  | remGone (t : Nat) (k : Key) {s : St} : s.panic = false → s.epc = .rem t k → s.el k = false →
      v.remove = .goneFlag →
      Step v c s { s with gone := upd s.gone k true, epc := .fin t }
  | remPanic (t : Nat) (k : Key) {s : St} : s.panic = false → s.epc = .rem t k → s.el k = false →
      v.remove = .unguarded →
      Step v c s { s with panic := true }
  | remUnlink (t : Nat) (k : Key) {s : St} : s.panic = false → s.epc = .rem t k → s.el k = true →
      Step v c s { s with all := s.all.filter (· != k), cur := s.cur - (s.size k : Int),
                          counted := s.counted.erase k, epc := .fin t }
  | fin (t : Nat) {s : St} : s.panic = false → s.epc = .fin t →
      Step v c s { s with thr := upd s.thr t (resume (s.thr t)), epc := .idle }

inductive Reach (v : Variant) (c : Cfg) (progs : Nat → List Op) : St → Prop
  | init : Reach v c progs (init progs)
  | step {s s' : St} : Reach v c progs s → Step v c s s' → Reach v c progs s'

/-- nothing left to do -/
def Final (s : St) : Prop := ∀ t, s.thr t = .idle ∧ s.prog t = []

end Ibx.Model.ConcMem
