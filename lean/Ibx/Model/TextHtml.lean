import Ibx.Bytes
import Ibx.Model.GoLower
/-
  Model of pkg/server/web/helpers.go : TextToHTML / WrapURL, and of Go's html.EscapeString.

    func TextToHTML(text string) string {
        text = html.EscapeString(text)                       -- 1. escape
        text = urlRE.ReplaceAllStringFunc(text, wrapMatch)   -- 2. wrap every match of urlRE IN THE ESCAPED TEXT
        replacer := strings.NewReplacer("\r\n", "<br/>\n", "\r", "<br/>\n", "\n", "<br/>\n")
        return replacer.Replace(text)                        -- 3. newlines, over the WHOLE result of step 2
    }
    func wrapMatch(match string) string {                    -- (fix F-18b) a match may stop inside a trailing entity
        if i := strings.LastIndexByte(match, '&'); i >= 0 {
            switch match[i:] { case "&amp", "&lt", "&gt", "&#34", "&#39": return WrapURL(match[:i]) + match[i:] }
        }
        return WrapURL(match)
    }
    func WrapURL(url string) string {
        if !linkable(url) { return url }                     -- (fix F-18a) other schemes stay plain text
        unescaped := strings.ReplaceAll(url, "&amp;", "&")
        return fmt.Sprintf("<a href=\"%s\" target=\"_blank\">%s</a>", unescaped, url)
    }
    var linkSchemes = map[string]bool{"ftp": true, "http": true, "https": true, "mailto": true}
    func linkable(url string) bool {
        i := strings.IndexAny(url, ":/?#&")
        if i < 0 { return true }
        switch url[i] { case ':': return linkSchemes[strings.ToLower(url[:i])]; case '&': return false }
        return true
    }

  html.EscapeString is `strings.NewReplacer("&","&amp;", "'","&#39;", "<","&lt;", ">","&gt;", "\"","&#34;")`:
  a byte-for-byte substitution (all patterns are single bytes), other bytes (including invalid UTF-8) unchanged.

  The regular expression urlRE is NOT modelled: its matches are a parameter (`spans`, half-open byte ranges
  [start,end) of the ESCAPED text, in the order regexp.ReplaceAllStringFunc visits them: ascending,
  non-overlapping, non-empty).  The harness computes them with the repository's own compiled `urlRE`.
  Core Lean only (linked into the driver).
-/
namespace Ibx.Model.TextHtml
open Ibx Ibx.Model.GoLower

def amp : Bytes := [38, 97, 109, 112, 59]        -- &amp;
def apos : Bytes := [38, 35, 51, 57, 59]         -- &#39;
def lt : Bytes := [38, 108, 116, 59]             -- &lt;
def gt : Bytes := [38, 103, 116, 59]             -- &gt;
def quot : Bytes := [38, 35, 51, 52, 59]         -- &#34;

/-- html.EscapeString on one byte -/
def escB (c : Nat) : Bytes :=
  if c = 38 then amp else if c = 39 then apos else if c = 60 then lt else if c = 62 then gt
  else if c = 34 then quot else [c]

/-- html.EscapeString -/
def escape (t : Bytes) : Bytes := t.flatMap escB

/-- the inverse on the five entities html.EscapeString produces (NOT the whole of html.UnescapeString) -/
def unescape5 : Bytes → Bytes
  | 38 :: 97 :: 109 :: 112 :: 59 :: r => 38 :: unescape5 r
  | 38 :: 35 :: 51 :: 57 :: 59 :: r => 39 :: unescape5 r
  | 38 :: 108 :: 116 :: 59 :: r => 60 :: unescape5 r
  | 38 :: 103 :: 116 :: 59 :: r => 62 :: unescape5 r
  | 38 :: 35 :: 51 :: 52 :: 59 :: r => 34 :: unescape5 r
  | c :: r => c :: unescape5 r
  | [] => []

/-- `strings.ReplaceAll(url, "&amp;", "&")` -/
def unamp : Bytes → Bytes
  | 38 :: 97 :: 109 :: 112 :: 59 :: r => 38 :: unamp r
  | c :: r => c :: unamp r
  | [] => []

def aOpen : Bytes := [60, 97, 32, 104, 114, 101, 102, 61, 34]                                   -- <a href="
def aMid : Bytes := [34, 32, 116, 97, 114, 103, 101, 116, 61, 34, 95, 98, 108, 97, 110, 107, 34, 62] -- " target="_blank">
def aClose : Bytes := [60, 47, 97, 62]                                                          -- </a>
def br : Bytes := [60, 98, 114, 47, 62, 10]                                                     -- <br/>\n

/-- the keys of `linkSchemes` (sorted): ftp http https mailto; pinned by Ibx/Tie/San.lean -/
def schemes : List Bytes :=
  [[102, 116, 112], [104, 116, 116, 112], [104, 116, 116, 112, 115], [109, 97, 105, 108, 116, 111]]

/-- the byte set of `strings.IndexAny(url, ":/?#&")`; pinned by Ibx/Tie/San.lean -/
def delims : Bytes := [58, 47, 63, 35, 38]

/-- `i := strings.IndexAny(url, ":/?#&")` : (url[:i], url[i]) — `none` when i < 0 -/
def cutDelim : Bytes → Bytes × Option Nat
  | [] => ([], none)
  | c :: r => if delims.contains c then ([], some c) else ((cutDelim r).1.cons c, (cutDelim r).2)

/-- `linkable` -/
def linkable (u : Bytes) : Bool :=
  match cutDelim u with
  | (_, none) => true
  | (p, some d) =>
    if d = 58 then (match lowerAscii? p with | some l => schemes.contains l | none => false)
    else if d = 38 then false
    else true

/-- the anchor WrapURL writes -/
def anchor (u : Bytes) : Bytes := aOpen ++ unamp u ++ aMid ++ u ++ aClose

/-- WrapURL -/
def wrapURL (u : Bytes) : Bytes := if linkable u then anchor u else u

/-- the `case` list of wrapMatch: the five entities without their `;` (source order); pinned by Ibx/Tie/San.lean -/
def partials : List Bytes :=
  [[38, 97, 109, 112], [38, 108, 116], [38, 103, 116], [38, 35, 51, 52], [38, 35, 51, 57]]

/-- `i := strings.LastIndexByte(m, '&')` : (m[:i], m[i:]) — `none` when i < 0 -/
def lastAmp : Bytes → Option (Bytes × Bytes)
  | [] => none
  | c :: r =>
    match lastAmp r with
    | some (a, b) => some (c :: a, b)
    | none => if c = 38 then some ([], c :: r) else none

/-- wrapMatch's split of a match: (what goes to WrapURL, what is written after it) -/
def cutMatch (m : Bytes) : Bytes × Bytes :=
  match lastAmp m with
  | some (a, b) => if partials.contains b then (a, b) else (m, [])
  | none => (m, [])

/-- wrapMatch -/
def wrapMatch (m : Bytes) : Bytes := wrapURL (cutMatch m).1 ++ (cutMatch m).2

/-- `regexp.ReplaceAllStringFunc(e, wrapMatch)` given the matches: `pos` = offset of `e` in the whole text.
    Spans that are not ascending / in range are clipped by `take`/`drop` (the harness never sends such;
    the theorems carry `SpansWF`). -/
def wrapSpans (e : Bytes) (pos : Nat) : List (Nat × Nat) → Bytes
  | [] => e
  | (s, t) :: more =>
    e.take (s - pos) ++ wrapMatch ((e.drop (s - pos)).take (t - s)) ++ wrapSpans (e.drop (t - pos)) t more

/-- the newline replacer: "\r\n", "\r", "\n" (argument order = priority at one position) -> "<br/>\n" -/
def nl : Bytes → Bytes
  | 13 :: 10 :: r => br ++ nl r
  | 13 :: r => br ++ nl r
  | 10 :: r => br ++ nl r
  | c :: r => c :: nl r
  | [] => []

/-- TextToHTML, given urlRE's matches in `escape t` -/
def textToHTML (t : Bytes) (spans : List (Nat × Nat)) : Bytes :=
  nl (wrapSpans (escape t) 0 spans)

/-- tail-recursive newline replacer for the driver -/
def nlAcc : Bytes → Bytes → Bytes
  | 13 :: 10 :: r, acc => nlAcc r (br.reverse ++ acc)
  | 13 :: r, acc => nlAcc r (br.reverse ++ acc)
  | 10 :: r, acc => nlAcc r (br.reverse ++ acc)
  | c :: r, acc => nlAcc r (c :: acc)
  | [], acc => acc.reverse

theorem nlAcc_eq (b acc : Bytes) : nlAcc b acc = acc.reverse ++ nl b := by
  fun_induction nlAcc b acc <;> simp_all [nl]

def textToHTMLTR (t : Bytes) (spans : List (Nat × Nat)) : Bytes :=
  nlAcc (wrapSpans (escape t) 0 spans) []

theorem textToHTMLTR_eq (t : Bytes) (spans : List (Nat × Nat)) :
    textToHTMLTR t spans = textToHTML t spans := by
  simp [textToHTMLTR, textToHTML, nlAcc_eq]

/-- what the harness must guarantee about the oracle field: ascending, non-empty, in range -/
def spansOK (n : Nat) (pos : Nat) : List (Nat × Nat) → Bool
  | [] => true
  | (s, t) :: more => pos ≤ s && s < t && t ≤ n && spansOK n t more

end Ibx.Model.TextHtml
