import Ibx.Spec.Store
import Ibx.Spec.HubLog
import Ibx.Model.Smtp
import Ibx.Model.Pop3
import Ibx.Model.Rest
import Ibx.Model.Retention
/-
  Model.Sys — the L2 composition of DESIGN.md §4.2: the per-component models put around ONE store.

  The system state is the abstract store (`Spec.Store`, which both back-ends refine: C07) and the log of
  message events in order of emission:
    * `stored (box, id)`  — emitted by message.StoreManager.Deliver AFTER Store.AddMessage returned
                            (pkg/message/manager.go: `id, err := s.Store.AddMessage(delivery)`, then
                            `AfterMessageStored.Emit`);
    * `deleted (box, id)` — emitted by the store for every message that leaves it (explicit delete, purge,
                            cap eviction, size-limit eviction: C16) — for an eviction caused by a delivery
                            that is INSIDE AddMessage, hence before that delivery's `stored`.

  One operation of the system is one whole unit of a component model, run atomically on the store
  (interleavings are the business of C09 / C12 / C16Broker):
    * `smtp`  — one whole SMTP connection: `Model.Smtp.run` on the raw input bytes; every `stored` copy it
                makes is one `AddMessage` (date = the clock reading of that Deliver call — `clock k` for the
                k-th copy of the connection; the session model leaves the date open);
    * `pop3`  — one whole POP3 session: `Model.Pop3.session` over its lines, the store it sees being the
                system's store; the ids QUIT hands to RemoveMessage(user, ·) are removed;
    * `rest`  — one REST / web request: `Model.Rest.handle`;
    * `scan`  — one uninterrupted retention scan: `Model.Retention.doScan`;
    * `store` — any other direct store call.
  Server-wide settings (naming mode, ParseIP, the SMTP size limit, the store contract, the id syntax) are
  fixed by `Cfg`; everything else of an SMTP environment (hooks, policy, peer, time stamp) may differ from
  connection to connection.
-/
namespace Ibx.Model.Sys
open Ibx Ibx.Spec.Store

/-- a message event, in the order the extension host sees them -/
inductive SysEv
  | stored (box : Bytes) (id : Nat)
  | deleted (box : Bytes) (id : Nat)
  deriving DecidableEq, Repr

/-- the back-end's id syntax (mem: decimal counter, file: timestamp-sequence): how an id is printed for
    POP3 UIDL / REST and how a printed id is read back -/
structure Ids where
  str : Nat → Bytes
  dec : Bytes → Option Nat

structure Cfg where
  store : Spec.Store.Cfg
  naming : Model.Addr.Naming
  ip : Bytes → Bool
  maxBytes : Int
  contract : Model.Rest.Contract
  ids : Ids

structure State where
  store : Store
  log : List SysEv

def init : State := { store := Spec.Store.empty, log := [] }

def delEvs (l : List Ev) : List SysEv := l.map (fun e => .deleted e.1 e.2)

/-- one store call.  The store emits its `deleted` events while it runs; a delivery (`add` — only the manager
    calls AddMessage) is followed by the manager's `stored` event carrying the id AddMessage answered. -/
def storeOp (c : Spec.Store.Cfg) (st : State) (op : Op) : State :=
  let r := step c st.store op
  let sto := match op with
    | .add b _ _ => [SysEv.stored b (st.store.next b + 1)]
    | _ => []
  { store := r.1, log := st.log ++ delEvs r.2.2 ++ sto }

def storeOps (c : Spec.Store.Cfg) (st : State) (ops : List Op) : State := ops.foldl (storeOp c) st

/-! ### SMTP -/

/-- the server-wide part of an SMTP environment comes from the system configuration -/
def smtpEnv (k : Cfg) (e : Smtp.Env) : Smtp.Env :=
  { e with naming := k.naming, ip := k.ip, maxBytes := k.maxBytes }

/-- the copies the manager stored during a connection (the `stored` events of the session model), oldest first -/
def copies (evs : List Smtp.Ev) : List Smtp.Stored :=
  evs.filterMap (fun ev => match ev with | .stored x => some x | _ => none)

/-- the deliveries of a connection (mailbox, metadata, source): the k-th copy carries the date `clock k` -/
def stampFrom (clock : Nat → Int) : Nat → List Smtp.Stored → List (Bytes × Meta × Bytes)
  | _, [] => []
  | k, x :: l => (x.mailbox, { x.hdr with date := clock k }, x.source) :: stampFrom clock (k + 1) l

/-- `Store.AddMessage(mailbox, meta, source)` -/
def addOf (x : Bytes × Meta × Bytes) : Op := .add x.1 x.2.1 x.2.2

/-- the deliveries of one connection -/
def smtpAdds (k : Cfg) (e : Smtp.Env) (budget : Option Nat) (clock : Nat → Int) (inp : Bytes) :
    List (Bytes × Meta × Bytes) :=
  stampFrom clock 0 (copies (Smtp.run (smtpEnv k e) budget inp).1)

def smtpCalls (k : Cfg) (e : Smtp.Env) (budget : Option Nat) (clock : Nat → Int) (inp : Bytes) : List Op :=
  (smtpAdds k e budget clock inp).map addOf

/-! ### POP3 -/

/-- what a POP3 session sees of a stored message -/
def popMsg (ids : Ids) (m : Msg) : Pop3.Msg := { id := ids.str m.id, size := m.size, src := m.source }

/-- `GetMessages(user)` as the session sees it -/
def popView (ids : Ids) (s : Store) : Bytes → List Pop3.Msg := fun u => (listing s u).map (popMsg ids)

/-- a whole session whose store is the system's store (nobody else touches it meanwhile);
    each line comes with "the reply could be written" -/
def popTrace (k : Cfg) (s : Store) (term : Pop3.Term) (lines : List (Bytes × Bool)) : Pop3.Trace :=
  Pop3.session term (lines.map (fun l => { store := popView k.ids s, line := l.1, sendOk := l.2 }))

/-- `processDeletes`: RemoveMessage(user, id) for each id; an id string the back-end cannot read is ErrNotExist -/
def popCalls (ids : Ids) (user : Bytes) (removed : List Bytes) : List Op :=
  removed.filterMap (fun id => (ids.dec id).map (fun n => Op.remove user n))

/-! ### REST -/

def restEnv (k : Cfg) : Rest.Env := { ip := k.ip, naming := k.naming, contract := k.contract }

/-- the `deleted` events the store emits while a handler runs: DELETE of a live message, purge of a mailbox -/
def restEvents (e : Rest.Env) (h : ClientUrl.Handler) (s : Store) (rq : Rest.Req) : List Ev :=
  match Addr.extractMailbox e.ip e.naming rq.name with
  | none => []
  | some box =>
    match h with
    | .purgeV1 => (listing s box).map evOf
    | .deleteV1 =>
      match Rest.mutId rq.id with
      | some n => if s.msgs.any (isMsg box n) then [(box, n)] else []
      | none => []
    | _ => []

/-! ### the system -/

inductive SOp
  | smtp (e : Smtp.Env) (budget : Option Nat) (clock : Nat → Int) (inp : Bytes)
  | pop3 (term : Pop3.Term) (lines : List (Bytes × Bool))
  | rest (h : ClientUrl.Handler) (rq : Rest.Req)
  | scan (cutoff : Int)
  | store (op : Op)

def step (k : Cfg) (st : State) : SOp → State
  | .smtp e budget clock inp => storeOps k.store st (smtpCalls k e budget clock inp)
  | .pop3 term lines =>
    let t := popTrace k st.store term lines
    storeOps k.store st (popCalls k.ids t.final.user t.removed)
  | .rest h rq =>
    { store := (Rest.handle (restEnv k) h st.store rq).2,
      log := st.log ++ delEvs (restEvents (restEnv k) h st.store rq) }
  | .scan cutoff =>
    let r := Retention.doScan k.store cutoff st.store
    { store := r.1, log := st.log ++ delEvs r.2 }
  | .store op => storeOp k.store st op

def run (k : Cfg) (st : State) (ops : List SOp) : State := ops.foldl (step k) st

/-- a history in which every delivery comes through SMTP -/
def noDirectAdd : SOp → Bool
  | .store (.add _ _ _) => false
  | _ => true

/-! ### the monitor feed -/

/-- the hub operation an event becomes (`enc` = the mailbox name as the hub's key component; the rest of the
    metadata is the tag) -/
def hubOp (enc : Bytes → Nat) : SysEv → Spec.HubLog.Op
  | .stored b i => .dispatch { mailbox := enc b, id := i, tag := 0 }
  | .deleted b i => .delete (enc b) i

def hubFeed (enc : Bytes → Nat) (log : List SysEv) : List Spec.HubLog.Op := log.map (hubOp enc)

end Ibx.Model.Sys
