/-
  C19 — interleaving models of the shutdown protocol (DESIGN.md §4.2 "Conc", Appendix B style:
  an `inductive Step` over a small state record + reflexive-transitive `Path`/`Reach`).

  Four small models, each written from the Go source named beside it:

  * `Drain`  pkg/server/{smtp,pop3}/listener.go  Start / serve / Drain and the Add/Done pairs of
             startSession.  Threads: canceller (cancel → listener.Close), acceptor (Accept → [Add] → go),
             any number of session goroutines (→ [Add] → dialogue → conn.Close → Done [→ Done]),
             drainer (wg.Wait).  Parameter: the regenerated fact `wgAdd` (+ `serveCounted`).
  * `Hub`    pkg/msghub/hub.go  Start / enqueue / Sync.  Parameter: the regenerated fact `hubOnCancel`.
  * `Ret`    pkg/storage/retention.go  Start / DoScan / Join.
  * `Sess`   the session threads with their data (dialogue input, replies, store): the session program
             is an arbitrary function that is *not given* the cancel flag (T1: neither handler.go
             mentions a context), which is what the frame lemma needs.

  Granularity: one step = one synchronisation-relevant action of one goroutine (channel operation,
  WaitGroup operation, Accept, Close, go statement).  Everything is nondeterministic interleaving; the
  number of sessions / producers / mailboxes is unbounded (counters, not lists, so that invariants are
  linear arithmetic).
-/
namespace Ibx.Model.Shutdown

/-! ## (a) accept / WaitGroup / Drain -/
namespace Drain

/-- where `s.wg.Add(1)` sits relative to the `go` statement of `serve()` -/
inductive WgAdd
  | beforeSpawn          -- `wg.Add(1); go startSession(..)`            (POP3)
  | inSessionGoroutine   -- `go startSession(..)`, Add inside            (SMTP before a077297)
  | both                 -- `wg.Add(1); go func(){defer Done; startSession}()`, and startSession has its own pair (SMTP now)
  deriving DecidableEq, Repr

def WgAdd.parse : String → Option WgAdd
  | "beforeSpawn" => some .beforeSpawn
  | "inSessionGoroutine" => some .inSessionGoroutine
  | "both" => some .both
  | _ => none

/-- an `Add` is executed by the acceptor before the `go` statement -/
def WgAdd.before : WgAdd → Bool
  | .beforeSpawn => true | .inSessionGoroutine => false | .both => true
/-- an `Add` is executed inside the session goroutine -/
def WgAdd.inside : WgAdd → Bool
  | .beforeSpawn => false | .inSessionGoroutine => true | .both => true

structure Cfg where
  wgAdd : WgAdd
  /-- is the `serve()` goroutine itself counted in `wg` (`s.wg.Add(1)` before `go s.serve(ctx)` in Start,
      `defer s.wg.Done()` at the top of serve)?  Regenerated fact; `true` since the F-19c fix.  With
      `false`, Drain can return while the accept loop may still hand a connection to a new session
      (`Props.C19.handoff_window`, `early_drain_window`). -/
  serveCounted : Bool
  deriving DecidableEq, Repr

/-- program counter of the accept loop -/
inductive Acc
  | idle      -- in / before `listener.Accept()`
  | gotConn   -- Accept returned a connection, nothing done with it yet
  | added     -- `wg.Add(1)` executed for it, `go` not yet
  | exited    -- serve() returned (Accept failed on the closed listener, ctx.Done was readable)
  deriving DecidableEq, Repr

structure St where
  cancelled : Bool     -- ctx cancelled
  closed    : Bool     -- listener.Close() executed by Start
  acc       : Acc
  wg        : Int      -- the WaitGroup counter (Int: "never negative" is a theorem, not a type)
  spawned   : Nat      -- session goroutines started, before their own Add (connection open)
  running   : Nat      -- sessions in their dialogue (connection open)
  closing2  : Nat      -- connection closed, two `Done` still to run   (only `both`)
  closing1  : Nat      -- connection closed, one `Done` still to run
  ended     : Nat      -- goroutine finished
  accepted  : Nat      -- ghost: number of successful Accepts so far
  drained   : Bool     -- some call of Drain() has returned
  deriving DecidableEq, Repr

def init (c : Cfg) : St :=
  { cancelled := false, closed := false, acc := .idle, wg := if c.serveCounted then 1 else 0,
    spawned := 0, running := 0, closing2 := 0, closing1 := 0, ended := 0, accepted := 0, drained := false }

/-- accepted connections that are still open (held by the acceptor or by a session goroutine) -/
def St.openConns (s : St) : Nat :=
  (if s.acc = .gotConn ∨ s.acc = .added then 1 else 0) + s.spawned + s.running

/-- session goroutines whose connection is still open -/
def St.openSessions (s : St) : Nat := s.spawned + s.running

/-- steps of session goroutines.  NOTE: no constructor mentions `cancelled` or `closed`. -/
inductive SessStep (c : Cfg) : St → St → Prop
  /-- first statements of startSession: `s.wg.Add(1)` when the source has it there -/
  | enter (s : St) : 0 < s.spawned →
      SessStep c s { s with spawned := s.spawned - 1, running := s.running + 1,
                            wg := s.wg + (if c.wgAdd.inside then 1 else 0) }
  /-- the dialogue makes progress (see `Sess` for what it computes) -/
  | talk (s : St) : 0 < s.running → SessStep c s s
  /-- loop ends (QUIT / EOF / error); deferred `conn.Close()` -/
  | close (s : St) : 0 < s.running →
      SessStep c s (if c.wgAdd = .both
        then { s with running := s.running - 1, closing2 := s.closing2 + 1 }
        else { s with running := s.running - 1, closing1 := s.closing1 + 1 })
  /-- deferred `s.wg.Done()` of startSession, the wrapper's `Done` still pending -/
  | done2 (s : St) : 0 < s.closing2 →
      SessStep c s { s with closing2 := s.closing2 - 1, closing1 := s.closing1 + 1, wg := s.wg - 1 }
  /-- last deferred `s.wg.Done()` -/
  | done1 (s : St) : 0 < s.closing1 →
      SessStep c s { s with closing1 := s.closing1 - 1, ended := s.ended + 1, wg := s.wg - 1 }

inductive Step (c : Cfg) : St → St → Prop
  /-- canceller: `cancel()` -/
  | cancel (s : St) : Step c s { s with cancelled := true }
  /-- Start: `<-ctx.Done(); s.listener.Close()` -/
  | closeL (s : St) : s.cancelled = true → Step c s { s with closed := true }
  /-- serve: `Accept()` returns a connection (only from a listener that is not closed) -/
  | accept (s : St) : s.acc = .idle → s.closed = false →
      Step c s { s with acc := .gotConn, accepted := s.accepted + 1 }
  /-- serve: `Accept()` fails on the closed listener, `ctx.Done()` is readable, serve returns -/
  | acceptFail (s : St) : s.acc = .idle → s.closed = true →
      Step c s { s with acc := .exited, wg := s.wg - (if c.serveCounted then 1 else 0) }
  /-- serve: `s.wg.Add(1)` before the go statement -/
  | accAdd (s : St) : s.acc = .gotConn → c.wgAdd.before = true →
      Step c s { s with acc := .added, wg := s.wg + 1 }
  /-- serve: the `go` statement -/
  | spawn (s : St) : (s.acc = .added ∨ (s.acc = .gotConn ∧ c.wgAdd.before = false)) →
      Step c s { s with acc := .idle, spawned := s.spawned + 1 }
  | sess (s s' : St) : SessStep c s s' → Step c s s'
  /-- Drain(): `s.wg.Wait()` returns — enabled exactly when the counter is zero -/
  | drain (s : St) : s.wg = 0 → Step c s { s with drained := true }

inductive Path (c : Cfg) : St → St → Prop
  | refl (s : St) : Path c s s
  | step {s t u : St} : Path c s t → Step c t u → Path c s u

abbrev Reach (c : Cfg) (s : St) : Prop := Path c (init c) s

/-- what the counter must be: Adds executed minus Dones executed, per connection stage -/
def expected (c : Cfg) (s : St) : Int :=
  (if c.serveCounted = true ∧ s.acc ≠ .exited then 1 else 0)
  + (if s.acc = .added then 1 else 0)
  + (if c.wgAdd.before then (s.spawned : Int) else 0)
  + (if c.wgAdd.before then (s.running : Int) else 0)
  + (if c.wgAdd.inside then (s.running : Int) else 0)
  + 2 * (s.closing2 : Int) + (s.closing1 : Int)

/-! ### executable side (used by the driver to replay observed event orders) -/

inductive Label
  | cancel | closeL | accept | acceptFail | accAdd | spawn | enter | talk | closeS | done2 | done1 | drain
  deriving DecidableEq, Repr

/-- the step named by a label, if it is enabled (sound w.r.t. `Step`: `Props.C19.apply_sound`) -/
def apply (c : Cfg) (s : St) : Label → Option St
  | .cancel => some { s with cancelled := true }
  | .closeL => if s.cancelled = true then some { s with closed := true } else none
  | .accept => if s.acc = .idle ∧ s.closed = false then
      some { s with acc := .gotConn, accepted := s.accepted + 1 } else none
  | .acceptFail => if s.acc = .idle ∧ s.closed = true then
      some { s with acc := .exited, wg := s.wg - (if c.serveCounted then 1 else 0) } else none
  | .accAdd => if s.acc = .gotConn ∧ c.wgAdd.before = true then
      some { s with acc := .added, wg := s.wg + 1 } else none
  | .spawn => if s.acc = .added ∨ (s.acc = .gotConn ∧ c.wgAdd.before = false) then
      some { s with acc := .idle, spawned := s.spawned + 1 } else none
  | .enter => if 0 < s.spawned then
      some { s with spawned := s.spawned - 1, running := s.running + 1,
                    wg := s.wg + (if c.wgAdd.inside then 1 else 0) } else none
  | .talk => if 0 < s.running then some s else none
  | .closeS => if 0 < s.running then
      some (if c.wgAdd = .both
        then { s with running := s.running - 1, closing2 := s.closing2 + 1 }
        else { s with running := s.running - 1, closing1 := s.closing1 + 1 }) else none
  | .done2 => if 0 < s.closing2 then
      some { s with closing2 := s.closing2 - 1, closing1 := s.closing1 + 1, wg := s.wg - 1 } else none
  | .done1 => if 0 < s.closing1 then
      some { s with closing1 := s.closing1 - 1, ended := s.ended + 1, wg := s.wg - 1 } else none
  | .drain => if s.wg = 0 then some { s with drained := true } else none

/-- run a list of labels; `none` at the first one that is not enabled -/
def applyAll (c : Cfg) (s : St) : List Label → Option St
  | [] => some s
  | l :: ls => match apply c s l with
    | none => none
    | some s' => applyAll c s' ls

/-- macro: a connection is accepted and its session reaches the dialogue (greeting sent) -/
def accMacro (c : Cfg) : List Label :=
  [.accept] ++ (if c.wgAdd.before then [.accAdd] else []) ++ [.spawn, .enter]
/-- macro: a session ends: connection closed, all its deferred `Done`s run -/
def endMacro (c : Cfg) : List Label :=
  [.closeS] ++ (if c.wgAdd = .both then [.done2] else []) ++ [.done1]

end Drain

/-! ## (b) the message hub's stop -/
namespace Hub

/-- what `Hub.Start` does when `ctx.Done()` fires -/
inductive OnCancel
  | closesOpChan   -- `close(hub.opChan)`; producers do a bare `hub.opChan <- op`   (before 781ad51)
  | closesDone     -- `close(hub.done)`; producers `select { opChan <- op; <-hub.done }` (now)
  deriving DecidableEq, Repr

def OnCancel.parse : String → Option OnCancel
  | "closesOpChan" => some .closesOpChan
  | "closesDone" => some .closesDone
  | _ => none

structure St where
  cancelled  : Bool
  stopped    : Bool   -- the processing loop has returned
  opClosed   : Bool   -- opChan closed
  doneClosed : Bool   -- hub.done closed
  q          : Nat    -- operations buffered in opChan
  waiting    : Nat    -- producers inside enqueue (Dispatch/Delete/AddListener/RemoveListener/Sync), not yet returned
  syncWait   : Nat    -- Sync callers past enqueue, in their second select
  panicked   : Bool   -- a goroutine panicked: send on closed channel
  sent       : Nat    -- ghost: operations accepted by opChan
  dropped    : Nat    -- ghost: operations dropped because the loop had stopped
  deriving DecidableEq, Repr

def init : St :=
  { cancelled := false, stopped := false, opClosed := false, doneClosed := false, q := 0, waiting := 0,
    syncWait := 0, panicked := false, sent := 0, dropped := 0 }

/-- `cap` = opChanLen (100 in the source; the theorems hold for every capacity) -/
inductive Step (m : OnCancel) (cap : Nat) : St → St → Prop
  | cancel (s : St) : Step m cap s { s with cancelled := true }
  /-- loop: `case op := <-hub.opChan: hub.runOp(op)` (a Sync operation releases its caller) -/
  | recv (s : St) : s.stopped = false → 0 < s.q → Step m cap s { s with q := s.q - 1 }
  | recvSync (s : St) : s.stopped = false → 0 < s.q → 0 < s.syncWait →
      Step m cap s { s with q := s.q - 1, syncWait := s.syncWait - 1 }
  /-- loop: `case <-ctx.Done():` … `return` -/
  | stop (s : St) : s.stopped = false → s.cancelled = true →
      Step m cap s (match m with
        | .closesOpChan => { s with stopped := true, opClosed := true }
        | .closesDone => { s with stopped := true, doneClosed := true })
  /-- a producer (e.g. the `stored` event of a draining session → Dispatch) calls enqueue -/
  | call (s : St) : Step m cap s { s with waiting := s.waiting + 1 }
  /-- a Sync caller calls enqueue -/
  | callSync (s : St) : Step m cap s { s with waiting := s.waiting + 1, syncWait := s.syncWait + 1 }
  /-- `hub.opChan <- op` succeeds (buffer has room, channel open) -/
  | send (s : St) : 0 < s.waiting → s.q < cap → s.opClosed = false →
      Step m cap s { s with waiting := s.waiting - 1, q := s.q + 1, sent := s.sent + 1 }
  /-- `hub.opChan <- op` on a closed channel: run-time panic -/
  | sendClosed (s : St) : 0 < s.waiting → s.opClosed = true → Step m cap s { s with panicked := true }
  /-- `case <-hub.done:` of enqueue — exists only in the `closesDone` source -/
  | drop (s : St) : m = .closesDone → 0 < s.waiting → s.doneClosed = true →
      Step m cap s { s with waiting := s.waiting - 1, dropped := s.dropped + 1 }
  /-- `case <-hub.done:` of Sync's second select — exists only in the `closesDone` source -/
  | syncStop (s : St) : m = .closesDone → 0 < s.syncWait → s.doneClosed = true →
      Step m cap s { s with syncWait := s.syncWait - 1 }

inductive Path (m : OnCancel) (cap : Nat) : St → St → Prop
  | refl (s : St) : Path m cap s s
  | step {s t u : St} : Path m cap s t → Step m cap t u → Path m cap s u

abbrev Reach (m : OnCancel) (cap : Nat) (s : St) : Prop := Path m cap init s

end Hub

/-! ## (c) the retention scanner's loop -/
namespace Ret

/-- program counter of `RetentionScanner.Start` (with `DoScan` inlined) -/
inductive Pc
  | start                 -- before `if rs.retentionPeriod <= 0`
  | top                   -- top of `retentionLoop`
  | preSleep              -- `select { <-ctx.Done(): break; <-time.After(dur): }`  (dur > 0 here)
  | scanHead (k : Nat)    -- inside VisitMailboxes, k mailboxes not yet visited
  | processing (k : Nat)  -- the callback is purging one mailbox, k more remain after it
  | waiting (k : Nat)     -- `select { <-ctx.Done(): return false; <-time.After(rs.retentionSleep): }`
  | postScan              -- `select { <-ctx.Done(): break; default: }`
  | stopped               -- `close(rs.retentionShutdown)` executed
  deriving DecidableEq, Repr

structure Cfg where
  enabled   : Bool   -- retentionPeriod > 0
  /-- RetentionSleep ≤ 0: `time.After(0)` may already be readable when the select is evaluated, and Go
      then picks a ready case at random.  With a positive sleep the fresh timer is not readable. -/
  sleepZero : Bool
  deriving DecidableEq, Repr

structure St where
  cancelled : Bool
  pc        : Pc
  joined    : Bool   -- a Join() call has returned
  finishedAfterCancel : Nat   -- ghost: mailboxes whose purge finished after cancel
  begunAfterCancel    : Nat   -- ghost: mailboxes whose purge began after cancel
  deriving DecidableEq, Repr

def init : St :=
  { cancelled := false, pc := .start, joined := false, finishedAfterCancel := 0, begunAfterCancel := 0 }

def bump (b : Bool) (n : Nat) : Nat := if b then n + 1 else n

/-- steps of the scanner goroutine -/
inductive ScanStep (c : Cfg) : St → St → Prop
  | disabled (s : St) : s.pc = .start → c.enabled = false → ScanStep c s { s with pc := .stopped }
  | enabled (s : St) : s.pc = .start → c.enabled = true → ScanStep c s { s with pc := .top }
  /-- `since < time.Minute` -/
  | topSleep (s : St) : s.pc = .top → ScanStep c s { s with pc := .preSleep }
  /-- `since >= time.Minute`: DoScan is entered without any wait (n = mailboxes in the store now) -/
  | topScan (s : St) (n : Nat) : s.pc = .top → ScanStep c s { s with pc := .scanHead n }
  | sleepDone (s : St) : s.pc = .preSleep → s.cancelled = true → ScanStep c s { s with pc := .stopped }
  | sleepTimer (s : St) (n : Nat) : s.pc = .preSleep → s.cancelled = false →
      ScanStep c s { s with pc := .scanHead n }
  | procStart (s : St) (k : Nat) : s.pc = .scanHead (k + 1) →
      ScanStep c s { s with pc := .processing k, begunAfterCancel := bump s.cancelled s.begunAfterCancel }
  | scanEnd (s : St) : s.pc = .scanHead 0 → ScanStep c s { s with pc := .postScan }
  | procEnd (s : St) (k : Nat) : s.pc = .processing k →
      ScanStep c s { s with pc := .waiting k, finishedAfterCancel := bump s.cancelled s.finishedAfterCancel }
  /-- `case <-ctx.Done(): return false` — VisitMailboxes stops, DoScan returns -/
  | waitDone (s : St) (k : Nat) : s.pc = .waiting k → s.cancelled = true →
      ScanStep c s { s with pc := .postScan }
  /-- `case <-time.After(rs.retentionSleep):` -/
  | waitTimer (s : St) (k : Nat) : s.pc = .waiting k → (s.cancelled = false ∨ c.sleepZero = true) →
      ScanStep c s { s with pc := .scanHead k }
  | postDone (s : St) : s.pc = .postScan → s.cancelled = true → ScanStep c s { s with pc := .stopped }
  | postDefault (s : St) : s.pc = .postScan → s.cancelled = false → ScanStep c s { s with pc := .top }

inductive Step (c : Cfg) : St → St → Prop
  | cancel (s : St) : Step c s { s with cancelled := true }
  | scan (s s' : St) : ScanStep c s s' → Step c s s'
  /-- Join(): `<-rs.retentionShutdown` — readable exactly when the channel is closed -/
  | join (s : St) : s.pc = .stopped → Step c s { s with joined := true }

inductive Path (c : Cfg) : St → St → Prop
  | refl (s : St) : Path c s s
  | step {s t u : St} : Path c s t → Step c t u → Path c s u

abbrev Reach (c : Cfg) (s : St) : Prop := Path c init s

/-- distance to `stopped` once cancelled (a bound on the scanner's own remaining steps) -/
def rank : Pc → Nat
  | .start => 1
  | .top => 0          -- not ranked: see `top_not_reentered`
  | .preSleep => 1
  | .scanHead k => 3 * k + 2
  | .waiting k => 3 * k + 3
  | .processing k => 3 * k + 4
  | .postScan => 1
  | .stopped => 0

end Ret

/-! ## (d) sessions with their data: the program does not get the cancel flag -/
namespace Sess

/-- A session program: how one unit of client input changes the session state and the shared store and
    which replies it produces.  Its arguments are the session state, the store and the input — and
    nothing else: there is no way for it to observe `cancelled`/`closed`.  (T1: no identifier `ctx` /
    `context` occurs in pkg/server/smtp/handler.go or pkg/server/pop3/handler.go.) -/
structure Prog (σ ι ρ κ : Type) where
  step : σ → κ → ι → σ × κ × List ρ

structure Thread (σ ι ρ : Type) where
  st      : σ
  input   : List ι   -- what the client will still send
  replies : List ρ   -- what the server has answered so far (oldest first)
  deriving DecidableEq, Repr

structure St (σ ι ρ κ : Type) where
  cancelled : Bool
  closed    : Bool
  store     : κ
  threads   : List (Thread σ ι ρ)

/-- the part of the state the property talks about -/
structure Data (σ ι ρ κ : Type) where
  store   : κ
  threads : List (Thread σ ι ρ)
  deriving DecidableEq

def St.data {σ ι ρ κ} (s : St σ ι ρ κ) : Data σ ι ρ κ := ⟨s.store, s.threads⟩

inductive Ev
  | cancel              -- canceller: cancel()
  | closeL              -- Start: listener.Close()  (needs cancelled)
  | sess (i : Nat)      -- session i handles its next input unit
  deriving DecidableEq, Repr

def Ev.isSess : Ev → Bool
  | .sess _ => true | _ => false

/-- session i consumes its next input unit -/
def sessStep {σ ι ρ κ} (p : Prog σ ι ρ κ) (store : κ) (ts : List (Thread σ ι ρ)) (i : Nat) :
    κ × List (Thread σ ι ρ) :=
  match ts[i]? with
  | none => (store, ts)
  | some t =>
    match t.input with
    | [] => (store, ts)
    | x :: rest =>
      let (st', store', out) := p.step t.st store x
      (store', ts.set i { st := st', input := rest, replies := t.replies ++ out })

def exec1 {σ ι ρ κ} (p : Prog σ ι ρ κ) (s : St σ ι ρ κ) : Ev → St σ ι ρ κ
  | .cancel => { s with cancelled := true }
  | .closeL => if s.cancelled then { s with closed := true } else s
  | .sess i =>
    let r := sessStep p s.store s.threads i
    { s with store := r.1, threads := r.2 }

def exec {σ ι ρ κ} (p : Prog σ ι ρ κ) (s : St σ ι ρ κ) (evs : List Ev) : St σ ι ρ κ :=
  evs.foldl (exec1 p) s

/-! ### two small concrete programs (abstractions of the C01 / C13 machines: just enough to talk
    about "the in-flight message" and "pending deletions") -/

inductive SmtpIn | helo | mail | rcpt | data | body (n : Nat) | dot | quit
  deriving DecidableEq, Repr
inductive SmtpSt | greet | ready | mail | rcpt | data (acc : List Nat) | quit
  deriving DecidableEq, Repr

/-- replies are codes; the store is the list of stored message bodies -/
def smtpStep : SmtpSt → List (List Nat) → SmtpIn → SmtpSt × List (List Nat) × List Nat
  | .greet, k, .helo => (.ready, k, [250])
  | .ready, k, .mail => (.mail, k, [250])
  | .mail, k, .rcpt => (.rcpt, k, [250])
  | .rcpt, k, .rcpt => (.rcpt, k, [250])
  | .rcpt, k, .data => (.data [], k, [354])
  | .data acc, k, .body n => (.data (acc ++ [n]), k, [])
  | .data acc, k, .dot => (.ready, k ++ [acc], [250])
  | .data acc, k, _ => (.data acc, k, [])
  | .quit, k, _ => (.quit, k, [])
  | _, k, .quit => (.quit, k, [221])
  | s, k, _ => (s, k, [503])

def smtp : Prog SmtpSt SmtpIn Nat (List (List Nat)) := ⟨smtpStep⟩

inductive PopIn | login | dele (id : Nat) | rset | quit
  deriving DecidableEq, Repr
inductive PopSt | auth | trans (marked : List Nat) | quit
  deriving DecidableEq, Repr

/-- the store is the list of message ids of the mailbox; replies: 1 = +OK, 0 = -ERR -/
def popStep : PopSt → List Nat → PopIn → PopSt × List Nat × List Nat
  | .auth, k, .login => (.trans [], k, [1])
  | .auth, k, .quit => (.quit, k, [1])
  | .auth, k, _ => (.auth, k, [0])
  | .trans m, k, .dele id => if k.contains id && !m.contains id then (.trans (id :: m), k, [1]) else (.trans m, k, [0])
  | .trans _, k, .rset => (.trans [], k, [1])
  | .trans m, k, .quit => (.quit, k.filter (fun x => !m.contains x), [1])
  | .trans m, k, .login => (.trans m, k, [0])
  | .quit, k, _ => (.quit, k, [])

def pop3 : Prog PopSt PopIn Nat (List Nat) := ⟨popStep⟩

end Sess

end Ibx.Model.Shutdown
