import Ibx.Spec.HubLog
/-
  Model.Hub — sequential model of the msghub actor (pkg/msghub/hub.go).

  All state is touched by the hub goroutine only, one queued closure at a time, so the hub is a fold of
  `step` over the FIFO list of operations.

  * `ring`  : container/ring seen from the current element: head = `h.history`, `Next()` = rotate left.
              `ring.New(0)` is nil = `[]` (monitor disabled).
  * `regs`  : the key set of `h.listeners` (duplicate free; Go iterates it in an unspecified order, the
              model in insertion order; `bcast_ls`/`bcast_regs` show the order is immaterial as long as no
              listener panics).
  * `ls`    : the listeners themselves, abstract machines answering ok | err | panic to each call.
-/
namespace Ibx.Model.Hub
open Ibx.Spec.HubLog

inductive Resp where
  | ok | err | panic
deriving DecidableEq, Repr

/-- an abstract listener: `answer n` is what its n-th call (0-based) returns; it records the events it
    accepts (its mailbox filter) when it answers ok -/
structure Listener where
  accepts : Ev → Bool
  answer : Nat → Resp
  calls : Nat := 0
  got : List Ev := []

def Listener.call (s : Listener) (e : Ev) : Resp × Listener :=
  match s.answer s.calls with
  | .ok => (.ok, { s with calls := s.calls + 1, got := if s.accepts e then s.got ++ [e] else s.got })
  | r => (r, { s with calls := s.calls + 1 })

structure Hub where
  ring : List (Option Msg)
  regs : List Nat
  ls : Nat → Listener

def upd (f : Nat → Listener) (l : Nat) (s : Listener) : Nat → Listener :=
  fun x => if x = l then s else f x

/-- `h.history.Value = msg; h.history = h.history.Next()` -/
def ringPut (m : Msg) : List (Option Msg) → List (Option Msg)
  | [] => []
  | _ :: rest => rest ++ [some m]

def isKey (mb id : Nat) : Option Msg → Bool
  | some m => decide (m.mailbox = mb ∧ m.id = id)
  | none => false

/-- clear the first matching cell; `none` when no cell matches -/
def clearFirst (mb id : Nat) : List (Option Msg) → Option (List (Option Msg))
  | [] => none
  | c :: rest =>
    if isKey mb id c then some (none :: rest)
    else match clearFirst mb id rest with
      | some r => some (c :: r)
      | none => none

/-- Delete's scan: `p.Next()` first … the current element last; the first match is set to nil -/
def ringDelete (mb id : Nat) : List (Option Msg) → List (Option Msg)
  | [] => []
  | c :: rest =>
    match clearFirst mb id rest with
    | some r => c :: r
    | none => if isKey mb id c then none :: rest else c :: rest

/-- `h.history.Do`: the non-nil values from the current element on = oldest first -/
def ringDo (r : List (Option Msg)) : List Msg := r.filterMap id

/-- `for l := range h.listeners { if err := l.call(e); err != nil { delete(h.listeners, l) } }` under
    runOp's recover: a panic abandons the rest of the loop.  Returns the surviving registrations. -/
def bcast (e : Ev) : List Nat → (Nat → Listener) → List Nat × (Nat → Listener)
  | [], ls => ([], ls)
  | l :: rest, ls =>
    match (ls l).call e with
    | (.ok, s) => let (k, ls') := bcast e rest (upd ls l s); (l :: k, ls')
    | (.err, s) => bcast e rest (upd ls l s)
    | (.panic, s) => (l :: rest, upd ls l s)

/-- AddListener's playback: errors are ignored (`_ = l.Receive(..)`), a panic aborts the operation -/
def playback : List Msg → Listener → Listener × Bool
  | [], s => (s, false)
  | m :: rest, s =>
    match s.call (.stored m) with
    | (.panic, s') => (s', true)
    | (_, s') => playback rest s'

def step (h : Hub) : Op → Hub
  | .dispatch m =>
    if h.ring.isEmpty then h
    else
      let (regs, ls) := bcast (.stored m) h.regs h.ls
      { ring := ringPut m h.ring, regs := regs, ls := ls }
  | .delete mb id =>
    if h.ring.isEmpty then h
    else
      let (regs, ls) := bcast (.deleted mb id) h.regs h.ls
      { ring := ringDelete mb id h.ring, regs := regs, ls := ls }
  | .add l =>
    let (s, panicked) := playback (ringDo h.ring) (h.ls l)
    { h with ls := upd h.ls l s,
             regs := if panicked || h.regs.contains l then h.regs else h.regs ++ [l] }
  | .remove l => { h with regs := h.regs.filter (· != l) }

def init (N : Nat) (ls : Nat → Listener) : Hub := { ring := List.replicate N none, regs := [], ls := ls }

def run (h : Hub) (ops : List Op) : Hub := ops.foldl step h

end Ibx.Model.Hub
