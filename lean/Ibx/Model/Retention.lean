import Ibx.Spec.Store
/-
  Model of the retention scanner (pkg/storage/retention.go) over the abstract store `Spec.Store`.

    DoScan:   cutoff := time.Now().Add(-1 * rs.retentionPeriod)
              VisitMailboxes(func(messages) bool {
                  for _, msg := range messages {            -- `sweep` over ONE snapshot of one mailbox
                      if msg.Date().Before(cutoff) { RemoveMessage(msg.Mailbox(), msg.ID()) — an error is only logged }
                      else { retained++ } }
                  select { case <-ctx.Done(): return false      -- `check`
                           case <-time.After(rs.retentionSleep): }
                  return true })
    Start:    if rs.retentionPeriod <= 0 { close(shutdown); return }      -- disabled
              loop { if since < Minute { select { ctx.Done: break loop; time.After(dur): } }
                     DoScan(ctx);  select { ctx.Done: break loop; default: } }

  Dates and the cutoff are integers in one unit (the driver uses Unix seconds).  Three layers:
    * `sweep` / `doScanOver` / `doScan`   — one uninterrupted scan (sequential semantics);
    * `St` / `scanStep` / `act` / `runActs` — the same scan as a step program whose steps are interleaved with
      client operations on the store, with the cancel signal and with late mailbox discoveries;
    * `loop` / `start`                     — the run loop of `Start` as the list of scans it kicks off.
-/
namespace Ibx.Model.Retention
open Ibx Ibx.Spec.Store

/-- `msg.Date().Before(cutoff)` -/
def expired (cutoff : Int) (m : Msg) : Bool := decide (m.hdr.date < cutoff)

/-- `cutoff := time.Now().Add(-1 * rs.retentionPeriod)` -/
def cutoffOf (now period : Int) : Int := now + (-1) * period

/-- The callback's loop over one snapshot: `RemoveMessage(msg.Mailbox(), msg.ID())` for each expired message of
    the snapshot, in order; the outcome of the removal is ignored (`notExist` is only logged); events are collected. -/
def sweep (c : Cfg) (cutoff : Int) : List Msg → Store → Store × List Ev
  | [], s => (s, [])
  | m :: l, s =>
    if expired cutoff m then
      let r := step c s (.remove m.box m.id)
      let t := sweep c cutoff l r.1
      (t.1, r.2.2 ++ t.2)
    else sweep c cutoff l s

/-- One scan visiting the mailboxes `names` in that order; each mailbox is listed when it is reached. -/
def doScanOver (c : Cfg) (cutoff : Int) : List Bytes → Store → Store × List Ev
  | [], s => (s, [])
  | b :: bs, s =>
    let r := sweep c cutoff (listing s b) s
    let t := doScanOver c cutoff bs r.1
    (t.1, r.2 ++ t.2)

/-- `DoScan` without interference: every mailbox of the store, in the order `VisitMailboxes` of the spec reports them. -/
def doScan (c : Cfg) (cutoff : Int) (s : Store) : Store × List Ev :=
  doScanOver c cutoff (boxNames s.msgs) s

/-! ### the scan as a step program, interleaved with clients -/

inductive Phase
  | visit (todo : List Bytes)                        -- about to list the next mailbox (or to finish)
  | sweep (pending : List Msg) (todo : List Bytes)   -- inside the callback: rest of the snapshot in hand
  | check (todo : List Bytes)                        -- at the `select` that ends the callback
  | done (aborted : Bool)                            -- VisitMailboxes returned (aborted = callback said false)
  deriving Repr, DecidableEq

structure St where
  store : Store
  phase : Phase
  cancelled : Bool
  /-- ghost: the store's own copies of the messages the scan's RemoveMessage calls deleted, in order -/
  removed : List Msg
  /-- ghost: deleted events caused by the scan's calls -/
  events : List Ev
  /-- ghost: number of RemoveMessage calls made by the scan -/
  calls : Nat
  /-- ghost: RemoveMessage calls that answered notExist -/
  misses : Nat
  /-- ghost: number of mailbox snapshots taken -/
  snaps : Nat

def init (s : Store) (names : List Bytes) : St :=
  { store := s, phase := .visit names, cancelled := false, removed := [], events := [], calls := 0, misses := 0, snaps := 0 }

inductive Act
  | client (op : Op)          -- any store operation by somebody else
  | cancel                    -- ctx is cancelled
  | discover (b : Bytes)      -- the walk finds a mailbox that was not known when the scan began (file store)
  | scan (coin : Bool)        -- one step of the scanner; `coin`: the case `select` picks when both are ready
  deriving Repr

/-- what the environment may do during a scan: racing deliveries carry a date that is not before the cutoff -/
def Act.ok (cutoff : Int) : Act → Prop
  | .client (.add _ hdr _) => cutoff ≤ hdr.date
  | _ => True

instance (cutoff : Int) (a : Act) : Decidable (a.ok cutoff) := by
  cases a with
  | client op => cases op <;> simp only [Act.ok] <;> infer_instance
  | cancel => simp only [Act.ok]; infer_instance
  | discover b => simp only [Act.ok]; infer_instance
  | scan coin => simp only [Act.ok]; infer_instance

/-- One step of the scanner.  `timerReady` = the case `<-time.After(retentionSleep)` can be ready when the select
    polls its cases: always so for retentionSleep ≤ 0, and for a positive retentionSleep only if the goroutine is
    held up for at least that long between arming the timer and polling (observed under heavy load with 1 ms).
    Only then can a cancelled scan go on, namely when the select picks that case (`coin = false`); with
    `timerReady = false` a cancelled scan stops at its next select. -/
def scanStep (c : Cfg) (cutoff : Int) (timerReady coin : Bool) (st : St) : St :=
  match st.phase with
  | .visit [] => { st with phase := .done false }
  | .visit (b :: todo) => { st with phase := .sweep (listing st.store b) todo, snaps := st.snaps + 1 }
  | .sweep [] todo => { st with phase := .check todo }
  | .sweep (m :: p) todo =>
    if expired cutoff m then
      let r := step c st.store (.remove m.box m.id)
      { st with store := r.1, phase := .sweep p todo, calls := st.calls + 1,
                misses := st.misses + (if r.2.1 == .notExist then 1 else 0),
                removed := st.removed ++ st.store.msgs.filter (isMsg m.box m.id),
                events := st.events ++ r.2.2 }
    else { st with phase := .sweep p todo }
  | .check todo =>
    if st.cancelled && (!timerReady || coin) then { st with phase := .done true }
    else { st with phase := .visit todo }
  | .done _ => st

def addTodo (b : Bytes) : Phase → Phase
  | .visit todo => .visit (todo ++ [b])
  | .sweep p todo => .sweep p (todo ++ [b])
  | .check todo => .check (todo ++ [b])
  | .done a => .done a

def act (c : Cfg) (cutoff : Int) (timerReady : Bool) (st : St) : Act → St
  | .client op => { st with store := (step c st.store op).1 }
  | .cancel => { st with cancelled := true }
  | .discover b => { st with phase := addTodo b st.phase }
  | .scan coin => scanStep c cutoff timerReady coin st

def runActs (c : Cfg) (cutoff : Int) (timerReady : Bool) (st : St) (acts : List Act) : St :=
  acts.foldl (act c cutoff timerReady) st

/-! ### the run loop of `Start` -/

/-- one turn of `retentionLoop` as the environment presents it -/
structure Turn where
  /-- `since < time.Minute`: the loop waits in the first select (always true on the first turn) -/
  mustWait : Bool
  /-- `time.Now()` read by `DoScan` -/
  now : Int
  deriving Repr

/-- The loop: `cancelled p` tells whether ctx.Done() is ready at the `p`-th poll (two polls per turn: the waiting
    select — skipped when the previous scan took a minute or more — and the poll after the scan).
    Result: the cutoffs of the scans kicked off.  The list of turns is the fuel. -/
def loop (period : Int) (cancelled : Nat → Bool) : Nat → List Turn → List Int
  | _, [] => []
  | p, t :: rest =>
    if t.mustWait && cancelled p then []
    else cutoffOf t.now period :: (if cancelled (p + 1) then [] else loop period cancelled (p + 2) rest)

/-- `Start`: `retentionPeriod <= 0` closes the shutdown channel at once and never scans. -/
def start (period : Int) (cancelled : Nat → Bool) (turns : List Turn) : List Int :=
  if period ≤ 0 then [] else loop period cancelled 0 turns

/-- everything `Start` does to the store: the scans of `start`, one after the other (no client in between) -/
def startRun (c : Cfg) (period : Int) (cancelled : Nat → Bool) (turns : List Turn) (s : Store) : Store × List Ev :=
  (start period cancelled turns).foldl (fun acc cutoff => let r := doScan c cutoff acc.1; (r.1, acc.2 ++ r.2)) (s, [])

/-! ### which calls the visitor callback makes into the store: the code, and the purge-when-all-expired variant -/

/-- the mutating calls of the callback (selected by the regenerated fact `Gen.Retention.storeCalls`) -/
inductive Sweep
  /-- `RemoveMessage(msg.Mailbox(), msg.ID())` for each expired message of the snapshot — the code -/
  | removeEach
  /-- `if expired > 0 && expired == len(messages) { PurgeMessages(messages[0].Mailbox()); messages = nil }` before the
      loop: ONE purge of the mailbox when every message of the snapshot has expired, otherwise message by message -/
  | purgeWhenAllExpired
  deriving DecidableEq, Repr

/-- scanner state of the variant model; `fresh`: the callback has just been entered, the snapshot is still whole -/
structure StV where
  st : St
  fresh : Bool

def initV (s : Store) (names : List Bytes) : StV := { st := init s names, fresh := false }

/-- one step of the scanner, for either variant.  With `removeEach` it is `scanStep` (`scanStepV_removeEach`); with
    `purgeWhenAllExpired` the first step after a non-empty snapshot counts the expired messages and, if all are,
    purges the mailbox (one call, deleting whatever the mailbox holds AT THAT MOMENT) and drops the snapshot. -/
def scanStepV (k : Sweep) (c : Cfg) (cutoff : Int) (timerReady coin : Bool) (v : StV) : StV :=
  match k, v.st.phase, v.fresh with
  | .purgeWhenAllExpired, .sweep (m :: p) todo, true =>
    if (m :: p).all (expired cutoff) then
      let r := step c v.st.store (.purge m.box)
      { st := { v.st with store := r.1, phase := .sweep [] todo, calls := v.st.calls + 1,
                          removed := v.st.removed ++ v.st.store.msgs.filter (inBox m.box),
                          events := v.st.events ++ r.2.2 },
        fresh := false }
    else { st := v.st, fresh := false }
  | _, .visit (_ :: _), _ => { st := scanStep c cutoff timerReady coin v.st, fresh := true }
  | _, _, _ => { st := scanStep c cutoff timerReady coin v.st, fresh := false }

def actV (k : Sweep) (c : Cfg) (cutoff : Int) (timerReady : Bool) (v : StV) : Act → StV
  | .scan coin => scanStepV k c cutoff timerReady coin v
  | a => { v with st := act c cutoff timerReady v.st a }

def runActsV (k : Sweep) (c : Cfg) (cutoff : Int) (timerReady : Bool) (v : StV) (acts : List Act) : StV :=
  acts.foldl (actV k c cutoff timerReady) v

end Ibx.Model.Retention
