import Ibx.Spec.Store
import Ibx.Model.FileStore
/-
  FsSteps — the CRASH layer of the file-store model (pkg/storage/file/{fstore,mbox,fmessage}.go).

  `Ibx.Model.FileStore` treats every store operation as ONE atomic function.  Here an operation is the
  SEQUENCE of file-system mutations the code performs, in the code's order, each mutation an atomic
  primitive as the OS provides it:
      mkdirAll, create (truncate / empty), append (one write(2) of a chunk), close, rename(tmp -> index),
      unlink, the unlinkat's of os.RemoveAll (any directory order) + its final rmdir, rmdir of an empty parent.
  A write of content `c` is `create` followed by appends of ANY chunking of `c`, so every byte prefix of `c`
  is an intermediate state.  A crash is "stop after k steps"; `recover` is what a fresh file.Store sees.

  State: per mailbox directory (sha1 naming abstracted to the mailbox name) whether it exists, the bytes of
  `index.gob`, the bytes of `index.gob.tmp`, and the `<id>.raw` files.  The two parent levels
  (mail/xxx/xxxxxx/) carry no information any reader uses (VisitMailboxes tolerates empty / missing ones) and
  are not part of the state; their rmdir's are steps of the programs (crash points, T3 trace) without effect.

  The gob codec is abstract: `Codec` (decode∘encode = id; the empty file does not decode; a proper prefix of an
  encoding decodes to nothing or — gob decodes message by message — to a STRICT PREFIX of the entries).

  Two variants of the two places the fixes touched are modelled (`Variant`): the index written through
  `index.gob.tmp` + rename (current code) or in place (original), and removeDir unlinking the index first
  (current) or RemoveAll first (original).  T1 facts (Ibx/Gen/Crash.lean) say which one the source has.
-/
namespace Ibx.Model.FsSteps
open Ibx Ibx.Spec.Store
open Ibx.Model.FileStore (FEnt)

/-! ### the codec hypothesis -/

structure Codec where
  enc : Bytes × List FEnt → Bytes
  dec : Bytes → Option (Bytes × List FEnt)
  dec_enc : ∀ x, dec (enc x) = some x
  dec_nil : dec [] = none
  dec_prefix : ∀ n l p, p <+: enc (n, l) → p ≠ enc (n, l) →
    dec p = none ∨ ∃ l', dec p = some (n, l') ∧ l' <+: l ∧ l' ≠ l

/-! ### the file system -/

/-- one mailbox directory -/
structure MDir where
  index : Option Bytes              -- bytes of index.gob, none = no such file
  tmp : Option Bytes                -- bytes of index.gob.tmp
  raws : List (Nat × Bytes)         -- `<id>.raw` files (first match wins; `rawSet` keeps keys unique)
  deriving Repr, DecidableEq

def MDir.empty : MDir := { index := none, tmp := none, raws := [] }

structure FS where
  dirs : Bytes → Option MDir

def FS.init : FS := { dirs := fun _ => none }

def setDir (s : FS) (b : Bytes) (d : Option MDir) : FS :=
  { dirs := fun x => if x = b then d else s.dirs x }

def rawGet : List (Nat × Bytes) → Nat → Option Bytes
  | [], _ => none
  | (i, c) :: l, id => if i = id then some c else rawGet l id

def rawDel (l : List (Nat × Bytes)) (id : Nat) : List (Nat × Bytes) := l.filter (fun p => p.1 ≠ id)

def rawSet (l : List (Nat × Bytes)) (id : Nat) (c : Bytes) : List (Nat × Bytes) := (id, c) :: rawDel l id

/-- a name inside a mailbox directory -/
inductive DirEnt
  | index
  | tmp
  | raw (id : Nat)
  deriving DecidableEq, Repr

/-- directory listing (some order; os.RemoveAll's order is a parameter of the programs) -/
def entries (d : MDir) : List DirEnt :=
  (if d.index.isSome then [.index] else []) ++ (if d.tmp.isSome then [.tmp] else []) ++ d.raws.map (fun p => .raw p.1)

/-- the primitives, relative to the mailbox directory an operation works in (every store operation touches
    exactly one mailbox directory, `mb.path`) -/
inductive FsStep
  | mkdirAll
  | createRaw (id : Nat)
  | appendRaw (id : Nat) (chunk : Bytes)
  | closeRaw (id : Nat)
  | createTmp
  | appendTmp (chunk : Bytes)
  | closeTmp
  | renameTmp
  | createIndex                                    -- ORIGINAL writeIndex: os.Create(index.gob) on the live file
  | appendIndex (chunk : Bytes)
  | closeIndex
  | unlinkIndex
  | unlinkRaw (id : Nat)
  | rmEntry (e : DirEnt)                           -- one unlinkat inside os.RemoveAll (ENOENT ignored)
  | rmdir                                          -- the final rmdir of os.RemoveAll
  | rmdirParent (level : Nat)                      -- removeDirIfEmpty of mail/xxx/xxxxxx (2) and mail/xxx (1)
  deriving Repr, DecidableEq

def onDir (d : Option MDir) (f : MDir → MDir) : Option MDir := d.map f

def rmEnt (d : MDir) : DirEnt → MDir
  | .index => { d with index := none }
  | .tmp => { d with tmp := none }
  | .raw id => { d with raws := rawDel d.raws id }

/-- effect of one primitive on the directory it addresses; a primitive whose system call fails
    (`okDir = false`) leaves the directory as it is -/
def applyDir (d : Option MDir) : FsStep → Option MDir
  | .mkdirAll => match d with | some x => some x | none => some MDir.empty
  | .createRaw id => onDir d fun x => { x with raws := rawSet x.raws id [] }
  | .appendRaw id c => onDir d fun x =>
      match rawGet x.raws id with
      | some old => { x with raws := rawSet x.raws id (old ++ c) }
      | none => x
  | .closeRaw _ => d
  | .createTmp => onDir d fun x => { x with tmp := some [] }
  | .appendTmp c => onDir d fun x => { x with tmp := x.tmp.map (· ++ c) }
  | .closeTmp => d
  | .renameTmp => onDir d fun x =>
      match x.tmp with
      | some c => { x with index := some c, tmp := none }
      | none => x
  | .createIndex => onDir d fun x => { x with index := some [] }
  | .appendIndex c => onDir d fun x => { x with index := x.index.map (· ++ c) }
  | .closeIndex => d
  | .unlinkIndex => onDir d fun x => { x with index := none }
  | .unlinkRaw id => onDir d fun x => { x with raws := rawDel x.raws id }
  | .rmEntry e => onDir d fun x => rmEnt x e
  | .rmdir =>
      match d with
      | some x => if x.index = none ∧ x.tmp = none ∧ x.raws = [] then none else some x
      | none => none
  | .rmdirParent _ => d

/-- would the system call succeed? (`unlinkIndex` is only issued by removeDir, which tolerates ENOENT;
    os.RemoveAll ignores ENOENT of its unlinkat's) -/
def okDir (d : Option MDir) : FsStep → Bool
  | .mkdirAll => true
  | .createRaw _ | .createTmp | .createIndex => d.isSome
  | .appendRaw id _ | .unlinkRaw id => match d with | some x => (rawGet x.raws id).isSome | none => false
  | .appendTmp _ | .renameTmp => match d with | some x => x.tmp.isSome | none => false
  | .appendIndex _ => match d with | some x => x.index.isSome | none => false
  | .closeRaw _ | .closeTmp | .closeIndex | .unlinkIndex | .rmEntry _ | .rmdirParent _ => true
  | .rmdir => match d with | some x => x.index = none ∧ x.tmp = none ∧ x.raws = [] | none => true

/-- one primitive issued in mailbox directory `b` -/
def apply (b : Bytes) (s : FS) (st : FsStep) : FS := setDir s b (applyDir (s.dirs b) st)

def run (b : Bytes) (s : FS) (l : List FsStep) : FS := l.foldl (apply b) s
def runDir (d : Option MDir) (l : List FsStep) : Option MDir := l.foldl applyDir d

/-- the state after a crash that lets exactly the first `k` primitives of `l` (issued in directory `b`) happen -/
def runPrefix (k : Nat) (b : Bytes) (l : List FsStep) (s : FS) : FS := run b s (l.take k)

/-! ### recover: what a fresh file.Store reads -/

/-- mbox.readIndex: no directory or no index file = empty mailbox; an index that does not decode = error
    (`none`); leftover tmp files, raws without entry, empty directories are never looked at -/
def dlisting (C : Codec) : Option MDir → Option (List FEnt)
  | none => some []
  | some d =>
    match d.index with
    | none => some []
    | some c => (C.dec c).map (·.2)

/-- Message.Source(): the bytes of `<id>.raw`, none = the open fails -/
def dcontent : Option MDir → Nat → Option Bytes
  | none, _ => none
  | some d, id => rawGet d.raws id

abbrev View := List (FEnt × Option Bytes)

def viewOf (d : Option MDir) (l : List FEnt) : View := l.map fun e => (e, dcontent d e.id)

/-- what a reader gets from one mailbox: its entries oldest first, each with the content Source() yields -/
def dview (C : Codec) (d : Option MDir) : Option View := (dlisting C d).map (viewOf d)

def listing (C : Codec) (s : FS) (b : Bytes) : Option (List FEnt) := dlisting C (s.dirs b)
def content (s : FS) (b : Bytes) (id : Nat) : Option Bytes := dcontent (s.dirs b) id
def view (C : Codec) (s : FS) (b : Bytes) : Option View := dview C (s.dirs b)

/-- `recover`: the whole store as a fresh process reads it (per mailbox: error, or entries with contents) -/
def recover (C : Codec) (s : FS) : Bytes → Option View := view C s

/-- every mailbox lists without error (so VisitMailboxes, which stops at the first index error, succeeds) -/
def Readable (C : Codec) (s : FS) : Prop := ∀ b, (listing C s b).isSome = true

/-! ### programs -/

inductive IndexWrite | tmpRename | inPlace deriving DecidableEq, Repr
inductive RemoveDirOrder | indexFirst | removeAllFirst deriving DecidableEq, Repr

structure Variant where
  indexWrite : IndexWrite
  removeDir : RemoveDirOrder
  deriving DecidableEq, Repr

/-- the code as it is now -/
def Variant.safe : Variant := { indexWrite := .tmpRename, removeDir := .indexFirst }
/-- the code before the fixes -/
def Variant.original : Variant := { indexWrite := .inPlace, removeDir := .removeAllFirst }

/-- the choices the environment makes: how a buffered write is cut into write(2) calls, and the order in which
    os.RemoveAll meets the directory entries -/
structure Chooser where
  chunks : Bytes → List Bytes
  chunks_flatten : ∀ c, (chunks c).flatten = c
  order : List DirEnt → List DirEnt
  order_perm : ∀ l, (order l).Perm l

/-- one write(2) for the whole buffer; readdir order -/
def Chooser.whole : Chooser :=
  { chunks := fun c => if c = [] then [] else [c], chunks_flatten := by intro c; split <;> simp_all,
    order := id, order_perm := fun _ => List.Perm.refl _ }

/-- byte-by-byte writes (every byte prefix is a crash state); reverse readdir order (raws before index) -/
def Chooser.bytewise : Chooser :=
  { chunks := fun c => c.map ([·]), chunks_flatten := by intro c; induction c <;> simp_all,
    order := List.reverse, order_perm := fun l => List.reverse_perm l }

/-- directory placement of the mailboxes (first 3 / 6 hex digits of sha1(name)) among the known names -/
structure Layout where
  names : List Bytes
  l1 : Bytes → Nat
  l2 : Bytes → Nat

/-- removeDirIfEmpty(level 2) then, if that was removed, (level 1): which of the two rmdir's are issued once
    directory `b` is gone -/
def parentSteps (lay : Layout) (s : FS) (b : Bytes) : List FsStep :=
  let others := lay.names.filter fun x => x ≠ b ∧ (s.dirs x).isSome
  if others.any (fun x => lay.l2 x = lay.l2 b) then []
  else if others.any (fun x => lay.l1 x = lay.l1 b) then [.rmdirParent 2]
  else [.rmdirParent 2, .rmdirParent 1]

def eraseFirst (id : Nat) : List FEnt → List FEnt
  | [] => []
  | e :: l => if e.id = id then l else e :: eraseFirst id l

def markFirst (id : Nat) : List FEnt → List FEnt
  | [] => []
  | e :: l => if e.id = id then { e with seen := true } :: l else e :: markFirst id l

section Prog
variable (C : Codec) (v : Variant) (ch : Chooser) (par : List FsStep)

/-- mbox.writeIndex with a non-empty list: createDir; then (current code) create index.gob.tmp, buffered
    writes, flush, close, rename over index.gob — or (original) create index.gob IN PLACE, writes, close -/
def writeIndexP (b : Bytes) (d : Option MDir) (l : List FEnt) : List FsStep :=
  (if d.isNone then [.mkdirAll] else []) ++
  match v.indexWrite with
  | .tmpRename => [.createTmp] ++ (ch.chunks (C.enc (b, l))).map .appendTmp ++ [.closeTmp, .renameTmp]
  | .inPlace => [.createIndex] ++ (ch.chunks (C.enc (b, l))).map .appendIndex ++ [.closeIndex]

/-- os.RemoveAll(dir): unlink what the directory holds, in the order the chooser meets it, then rmdir -/
def removeAllP : Option MDir → List FsStep
  | none => [.rmdir]                        -- the call is made all the same; ENOENT is not an error for RemoveAll
  | some d => (ch.order (entries d)).map .rmEntry ++ [.rmdir]

/-- mbox.removeDir: (current) unlink index.gob, RemoveAll, empty parents — (original) RemoveAll first -/
def removeDirP (d : Option MDir) : List FsStep :=
  (match v.removeDir with
   | .indexFirst => [.unlinkIndex] ++ removeAllP ch (applyDir d .unlinkIndex)
   | .removeAllFirst => removeAllP ch d) ++
  (if d.isSome then par else [])

/-- mbox.writeIndex -/
def writeIndexAny (b : Bytes) (d : Option MDir) (l : List FEnt) : List FsStep :=
  if l = [] then removeDirP v ch par d else writeIndexP C v ch b d l

/-- mbox.removeMessage of an entry that was found, `l'` = the list without it: writeIndex, then unlink the raw
    unless the whole directory went -/
def removeFoundP (b : Bytes) (d : Option MDir) (l' : List FEnt) (id : Nat) : List FsStep :=
  writeIndexAny C v ch par b d l' ++ (if l' = [] then [] else [.unlinkRaw id])

/-- the cap loop of newMessage: `for len(messages) >= cap { removeMessage(messages[0].ID()) }` on the in-memory
    list (the first entry with the id of messages[0] IS messages[0], so the list loses its head) -/
def evictP (cap : Nat) (b : Bytes) : Option MDir → List FEnt → List FsStep
  | _, [] => []
  | d, e :: l =>
    if (e :: l).length ≥ cap then
      let p := removeFoundP C v ch par b d l e.id
      p ++ evictP cap b (runDir d p) l
    else []

/-- the in-memory list after the cap loop -/
def evictRest (cap : Nat) : List FEnt → List FEnt
  | [] => []
  | e :: l => if (e :: l).length ≥ cap then evictRest cap l else e :: l

/-- number of evictions of the cap loop -/
def nEvict (cap : Nat) : List FEnt → Nat
  | [] => 0
  | e :: l => if (e :: l).length ≥ cap then nEvict cap l + 1 else 0

/-- create `<id>.raw`, io.Copy through a bufio.Writer, Flush, Close -/
def writeRawP (d : Option MDir) (id : Nat) (src : Bytes) : List FsStep :=
  (if d.isNone then [.mkdirAll] else []) ++
  [.createRaw id] ++ (ch.chunks src).map (.appendRaw id) ++ [.closeRaw id]

def newEnt (id : Nat) (hdr : Meta) (src : Bytes) : FEnt := { id := id, hdr := hdr, seen := false, size := src.length }

/-- Store.AddMessage (an unreadable index aborts before any mutation) -/
def addP (cap : Nat) (b : Bytes) (d : Option MDir) (id : Nat) (hdr : Meta) (src : Bytes) : List FsStep :=
  match dlisting C d with
  | none => []
  | some l0 =>
    let ev := if cap > 0 then evictP C v ch par cap b d l0 else []
    let l1 := if cap > 0 then evictRest cap l0 else l0
    let d1 := runDir d ev
    let w := writeRawP ch d1 id src
    ev ++ w ++ writeIndexP C v ch b (runDir d1 w) (l1 ++ [newEnt id hdr src])

/-- Store.MarkSeen -/
def seenP (b : Bytes) (d : Option MDir) (id : Nat) : List FsStep :=
  match dlisting C d with
  | none => []
  | some l =>
    match l.find? (fun e => e.id = id) with
    | none => []
    | some e => if e.seen then [] else writeIndexP C v ch b d (markFirst id l)

/-- Store.RemoveMessage -/
def removeP (b : Bytes) (d : Option MDir) (id : Nat) : List FsStep :=
  match dlisting C d with
  | none => []
  | some l => if l.any (fun e => e.id = id) then removeFoundP C v ch par b d (eraseFirst id l) id else []

/-- Store.PurgeMessages -/
def purgeP (d : Option MDir) : List FsStep :=
  match dlisting C d with
  | none => []
  | some _ => removeDirP v ch par d

end Prog

/-- the mutating operations; `add` carries the id the generator hands out (time stamp + counter) -/
inductive Op
  | add (b : Bytes) (id : Nat) (hdr : Meta) (src : Bytes)
  | seen (b : Bytes) (id : Nat)
  | remove (b : Bytes) (id : Nat)
  | purge (b : Bytes)
  deriving Repr

def Op.box : Op → Bytes
  | .add b _ _ _ | .seen b _ | .remove b _ | .purge b => b

/-- the program of an operation on the directory it addresses -/
def progD (C : Codec) (v : Variant) (ch : Chooser) (par : List FsStep) (cap : Nat) (d : Option MDir) : Op → List FsStep
  | .add b id hdr src => addP C v ch par cap b d id hdr src
  | .seen b id => seenP C v ch b d id
  | .remove b id => removeP C v ch par b d id
  | .purge _ => purgeP C v ch par d

/-- `program op s`: the file-system mutations `op` performs (in directory `op.box`) when started in state `s`, in order -/
def program (C : Codec) (v : Variant) (ch : Chooser) (lay : Layout) (cap : Nat) (op : Op) (s : FS) : List FsStep :=
  progD C v ch (parentSteps lay s op.box) cap (s.dirs op.box) op

/-- the complete operation -/
def runOp (C : Codec) (v : Variant) (ch : Chooser) (lay : Layout) (cap : Nat) (op : Op) (s : FS) : FS :=
  run op.box s (program C v ch lay cap op s)

/-! ### what an operation does to a mailbox's view, unit by unit -/

def markFirstV (id : Nat) : View → View
  | [] => []
  | (e, c) :: l => if e.id = id then ({ e with seen := true }, c) :: l else (e, c) :: markFirstV id l

def eraseFirstV (id : Nat) : View → View
  | [] => []
  | (e, c) :: l => if e.id = id then l else (e, c) :: eraseFirstV id l

/-- the views a reader may see of the addressed mailbox while `op` is in progress, in order: the view before,
    then the view after each ATOMIC UNIT.  A capped delivery consists of several units: each eviction (a removal
    of the oldest message, with its own `deleted` event) and finally the add.  The last element is the view after
    the complete operation. -/
def unitViews (cap : Nat) (V0 : View) : Op → List View
  | .add _ id hdr src =>
    let n := if cap > 0 then nEvict cap (V0.map (·.1)) else 0
    (List.range (n + 1)).map (fun j => V0.drop j) ++ [V0.drop n ++ [(newEnt id hdr src, some src)]]
  | .seen _ id =>
    match V0.find? (fun p => p.1.id = id) with
    | some p => if p.1.seen then [V0] else [V0, markFirstV id V0]
    | none => [V0]
  | .remove _ id => if V0.any (fun p => p.1.id = id) then [V0, eraseFirstV id V0] else [V0]
  | .purge _ => [V0, []]

end Ibx.Model.FsSteps
