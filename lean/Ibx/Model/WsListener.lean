/-
  Model.WsListener — interleaving model of ONE WebSocket listener's protocol with the hub
  (pkg/rest/socketv1_controller.go, socketv2_controller.go: msgListenerV1 / msgListenerV2).

  Threads: the hub goroutine (offers events through Receive/Delete, processes queued RemoveListener
  closures), the socket writer (takes events from the queue `c`, may fail at any time), the socket reader
  (fails at any time); writer and reader both finish by calling Close().  Every atomic action of the Go
  code (one channel operation, one `select`, one enqueue on the hub) is one `Step`.

  The protocol is a parameter (two facts regenerated from the source, see Ibx/Tie/Hub.lean):
    wsClose   = selectOnDataChan : Close() { select { case <-ml.c: default: hub.RemoveListener(ml); close(ml.c) } }
              | doneChan         : Close() { once.Do(close(ml.done)); hub.RemoveListener(ml) }   -- c never closed
    wsReceive = blockingSend     : ml.c <- ev
              | nonBlockingSend  : select { case ml.c <- ev: nil; case <-ml.done: errClosed; default: closeDone(); errSlow }
  `Proto.orig` is the upstream code, `Proto.fixed` the patched one.
  Events are numbered 0, 1, 2, … in the order the hub offers them to this listener.
-/
namespace Ibx.Model.WsListener

inductive WsClose where
  | selectOnDataChan | doneChan
deriving DecidableEq, Repr

inductive WsReceive where
  | blockingSend | nonBlockingSend
deriving DecidableEq, Repr

structure Proto where
  close : WsClose
  recv : WsReceive
deriving DecidableEq, Repr

def Proto.orig : Proto := ⟨.selectOnDataChan, .blockingSend⟩
def Proto.fixed : Proto := ⟨.doneChan, .nonBlockingSend⟩

/-- where the reader / writer goroutine is: in its loop, at one of the three actions of Close(), gone -/
inductive Pc where
  | run | closeSel | closeRm | closeCh | exited
deriving DecidableEq, Repr

structure St where
  buf : List Nat := []          -- contents of the queue `ml.c`
  chClosed : Bool := false      -- close(ml.c) has happened
  done : Bool := false          -- close(ml.done) has happened
  doneCloses : Nat := 0         -- how many times
  registered : Bool := true     -- ml ∈ hub.listeners
  rmQueued : Nat := 0           -- RemoveListener(ml) closures waiting in the hub's queue
  hubBlocked : Bool := false    -- the hub goroutine is parked in `ml.c <- ev`
  hubPanics : Nat := 0          -- sends on the closed channel (recovered by runOp, broadcast abandoned)
  closePanic : Bool := false    -- close of a closed channel (nobody recovers it)
  next : Nat := 0               -- number of events offered so far
  sent : List Nat := []         -- events for which Receive returned nil
  lost : List Nat := []         -- events taken out of the queue by Close()'s select
  delivered : List Nat := []    -- events the writer took out of the queue
  reader : Pc := .run
  writer : Pc := .run

/-- program counter of the reader (`true`) or the writer (`false`) -/
def St.pc (s : St) (r : Bool) : Pc := if r then s.reader else s.writer
def St.setPc (s : St) (r : Bool) (p : Pc) : St := if r then { s with reader := p } else { s with writer := p }

def St.push (s : St) : St := { s with buf := s.buf ++ [s.next], sent := s.sent ++ [s.next], next := s.next + 1 }

inductive Step (P : Proto) (cap : Nat) : St → St → Prop
  /- hub goroutine, blocking `ml.c <- ev` -/
  | hubSend : P.recv = .blockingSend → s.registered = true → s.hubBlocked = false → s.chClosed = false →
      s.buf.length < cap → Step P cap s s.push
  | hubPark : P.recv = .blockingSend → s.registered = true → s.hubBlocked = false → s.chClosed = false →
      cap ≤ s.buf.length → Step P cap s { s with hubBlocked := true }
  | hubResume : s.hubBlocked = true → s.chClosed = false → s.buf.length < cap →
      Step P cap s { s.push with hubBlocked := false }
  | hubSendPanic : s.registered = true → s.chClosed = true →
      Step P cap s { s with hubBlocked := false, hubPanics := s.hubPanics + 1, next := s.next + 1 }
  /- hub goroutine, `select` with default -/
  | nbSend : P.recv = .nonBlockingSend → s.registered = true → s.hubBlocked = false → s.chClosed = false →
      s.buf.length < cap → Step P cap s s.push
  | nbClosed : P.recv = .nonBlockingSend → s.registered = true → s.hubBlocked = false → s.done = true →
      Step P cap s { s with registered := false, next := s.next + 1 }
  | nbSlow : P.recv = .nonBlockingSend → s.registered = true → s.hubBlocked = false → s.chClosed = false →
      s.done = false → cap ≤ s.buf.length →
      Step P cap s { s with registered := false, next := s.next + 1, done := true, doneCloses := s.doneCloses + 1 }
  /- hub goroutine runs a queued RemoveListener(ml) -/
  | hubRm : s.hubBlocked = false → 0 < s.rmQueued →
      Step P cap s { s with registered := false, rmQueued := s.rmQueued - 1 }
  /- socket writer -/
  | wRecv : s.writer = .run → s.buf = e :: rest →
      Step P cap s { s with buf := rest, delivered := s.delivered ++ [e] }
  | wSeesClosed : s.writer = .run → s.buf = [] → s.chClosed = true → Step P cap s { s with writer := .closeSel }
  | wSeesDone : P.close = .doneChan → s.writer = .run → s.done = true → Step P cap s { s with writer := .closeSel }
  | wFail : s.writer = .run → Step P cap s { s with writer := .closeSel }
  /- socket reader -/
  | rFail : s.reader = .run → Step P cap s { s with reader := .closeSel }
  /- Close(), original: select on the data channel -/
  | cSwallow (r : Bool) : P.close = .selectOnDataChan → s.pc r = .closeSel → s.buf = e :: rest →
      Step P cap s ({ s with buf := rest, lost := s.lost ++ [e] }.setPc r .exited)
  | cAlready (r : Bool) : P.close = .selectOnDataChan → s.pc r = .closeSel → s.buf = [] → s.chClosed = true →
      Step P cap s (s.setPc r .exited)
  | cDefault (r : Bool) : P.close = .selectOnDataChan → s.pc r = .closeSel → s.buf = [] → s.chClosed = false →
      Step P cap s (s.setPc r .closeRm)
  | cCloseCh (r : Bool) : s.pc r = .closeCh →
      Step P cap s ({ s with chClosed := true, closePanic := s.closePanic || s.chClosed }.setPc r .exited)
  /- Close(), fixed: once.Do(close(done)) -/
  | cOnce (r : Bool) : P.close = .doneChan → s.pc r = .closeSel →
      Step P cap s ({ s with done := true, doneCloses := if s.done then s.doneCloses else s.doneCloses + 1 }.setPc r .closeRm)
  /- Close(), both: hub.RemoveListener(ml) -/
  | cRm (r : Bool) : s.pc r = .closeRm →
      Step P cap s ({ s with rmQueued := s.rmQueued + 1 }.setPc r
        (match P.close with | .selectOnDataChan => .closeCh | .doneChan => .exited))

inductive Reach (P : Proto) (cap : Nat) : St → Prop
  | init : Reach P cap {}
  | step : Reach P cap s → Step P cap s s' → Reach P cap s'

end Ibx.Model.WsListener
