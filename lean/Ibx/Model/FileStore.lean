import Ibx.Spec.Store
/-
  Model of the file store (pkg/storage/file/{fstore,mbox,fmessage}.go), sequential semantics, over an
  abstract file system: per mailbox directory an optional `index.gob` (the decoded list of entries) and the
  `<id>.raw` files.  There is NO volatile component: every operation re-reads the index (`mbox` objects
  are built per call), so "reopen" is the identity on this state.  Ids are fresh tokens supplied by the
  generator (`next`, the per-mailbox rank of the id among all ids ever handed out — the clock and the
  counter are parameters); sha1 directory naming is abstracted to the mailbox name.
  That the code's generator DOES supply a token no listed message carries is a theorem about the model of the
  generator and of newMessage's re-draw loop (Ibx/Model/FileIds.lean, Props/C07Ids.lean: `new_id_not_listed`), and
  `generated_delivery_refines_spec` shows a delivery with the generated id to be this model's delivery up to the
  renaming real id ↦ rank.
-/
namespace Ibx.Model.FileStore
open Ibx Ibx.Spec.Store

structure FEnt where
  id : Nat
  hdr : Meta
  seen : Bool
  size : Nat
  deriving DecidableEq, Repr

structure Dir where
  index : Option (List FEnt)        -- none: no index file (the mailbox reads as empty)
  raws : List (Nat × Bytes)         -- `<id>.raw`
  deriving Repr

structure FS where
  dirs : Bytes → Option Dir
  names : List Bytes                -- directories that have ever existed (for the visit walk)
  next : Bytes → Nat                -- id generator state (never reset; survives restarts)

def empty : FS := { dirs := fun _ => none, names := [], next := fun _ => 0 }

def setDir (s : FS) (b : Bytes) (d : Option Dir) : FS :=
  { s with dirs := fun x => if x == b then d else s.dirs x,
           names := if s.names.contains b then s.names else s.names ++ [b] }

def readIndex (s : FS) (b : Bytes) : List FEnt :=
  match s.dirs b with
  | some d => d.index.getD []
  | none => []

def rawOf (s : FS) (b : Bytes) (i : Nat) : Option Bytes :=
  match s.dirs b with
  | some d => (d.raws.find? (·.1 == i)).map (·.2)
  | none => none

/-- what a reader sees of one index entry (content through Source()) -/
def toMsg (s : FS) (b : Bytes) (e : FEnt) : Msg :=
  { box := b, id := e.id, hdr := e.hdr, seen := e.seen, source := (rawOf s b e.id).getD [] }

/-- writeIndex: a non-empty list replaces the index (creating the directory); an empty one removes the directory -/
def writeIndex (s : FS) (b : Bytes) (l : List FEnt) : FS :=
  if l.isEmpty then setDir s b none
  else
    let d := (s.dirs b).getD { index := none, raws := [] }
    setDir s b (some { d with index := some l })

def unlinkRaw (s : FS) (b : Bytes) (i : Nat) : FS :=
  match s.dirs b with
  | some d => setDir s b (some { d with raws := d.raws.filter (·.1 != i) })
  | none => s

/-- mbox.removeMessage on an already loaded list; `none` = ErrNotExist -/
def removeEnt (s : FS) (b : Bytes) (l : List FEnt) (i : Nat) : Option (FS × List FEnt) :=
  if l.any (·.id == i) then
    let l' := l.filter (·.id != i)
    let s1 := writeIndex s b l'
    some (if l'.isEmpty then s1 else unlinkRaw s1 b i, l')
  else none

/-- the cap loop of newMessage: `for len(messages) >= cap { removeMessage(messages[0].ID()) }` -/
def capLoop (cap : Nat) (b : Bytes) : Nat → FS → List FEnt → List Ev → FS × List FEnt × List Ev
  | 0, s, l, ev => (s, l, ev.reverse)
  | fuel + 1, s, l, ev =>
    if l.length ≥ cap then
      match l with
      | [] => (s, l, ev.reverse)
      | e :: _ =>
        match removeEnt s b l e.id with
        | some (s1, l1) => capLoop cap b fuel s1 l1 ((b, e.id) :: ev)
        | none => (s, l, ev.reverse)
    else (s, l, ev.reverse)

def step (c : Cfg) (s : FS) : Op → FS × Out × List Ev
  | .add b hdr src =>
    let l0 := readIndex s b
    let (s1, l1, ev) := if c.cap > 0 then capLoop c.cap b (l0.length + 1) s l0 [] else (s, l0, [])
    let i := s1.next b + 1
    let s2 : FS := { s1 with next := fun x => if x == b then i else s1.next x }
    -- createDir + create(<id>.raw)
    let d := (s2.dirs b).getD { index := none, raws := [] }
    let s3 := setDir s2 b (some { d with raws := d.raws ++ [(i, src)] })
    let s4 := writeIndex s3 b (l1 ++ [{ id := i, hdr := hdr, seen := false, size := src.length }])
    (s4, .id i, ev)
  | .get b i =>
    match (readIndex s b).find? (·.id == i) with
    | some e => (s, .msg (toMsg s b e), [])
    | none => (s, .notExist, [])
  | .latest b =>
    match (readIndex s b).getLast? with
    | some e => (s, .msg (toMsg s b e), [])
    | none => (s, .notExist, [])
  | .list b => (s, .msgs ((readIndex s b).map (toMsg s b)), [])
  | .seen b i =>
    let l := readIndex s b
    match l.find? (·.id == i) with
    | some e =>
      if e.seen then (s, .ok, [])
      else (writeIndex s b (l.map (fun x => if x.id == i then { x with seen := true } else x)), .ok, [])
    | none => (s, .notExist, [])
  | .remove b i =>
    match removeEnt s b (readIndex s b) i with
    | some (s1, _) => (s1, .ok, [(b, i)])
    | none => (s, .notExist, [])
  | .purge b =>
    let l := readIndex s b
    (setDir s b none, .ok, l.map (fun e => (b, e.id)))
  | .visit =>
    (s, .boxes ((s.names.map (fun b => (readIndex s b).map (toMsg s b))).filter (fun l => !l.isEmpty)), [])

/-- closing and re-opening the store: nothing is cached, so nothing changes -/
def reopen (s : FS) : FS := s

end Ibx.Model.FileStore
