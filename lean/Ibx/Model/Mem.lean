import Ibx.Spec.Store
/-
  Model of the memory store (pkg/storage/mem/store.go, maxsize.go), sequential semantics: the rendezvous
  with the size-enforcer goroutine completes before AddMessage / RemoveMessage / PurgeMessages return.
  A mailbox is `first`, `last` and the map id -> message; the map is represented by the list of its
  values in ascending `index` (GetMessages sorts by index — T1 fact `memListSortsByIndex`).
  The enforcer is its list `all` (oldest first) and its running total `cur`.
-/
namespace Ibx.Model.Mem
open Ibx Ibx.Spec.Store

structure MMsg where
  index : Nat
  hdr : Meta
  seen : Bool
  source : Bytes
  deriving DecidableEq, Repr

structure MBox where
  first : Nat
  last : Nat
  msgs : List MMsg
  deriving Repr

/-- an entry of the enforcer's list `all` -/
structure Ent where
  box : Bytes
  index : Nat
  size : Nat
  deriving DecidableEq, Repr

structure Mem where
  boxes : Bytes → MBox
  names : List Bytes          -- keys of `Store.boxes` (withMailbox creates a mailbox on any access)
  all : List Ent
  cur : Nat

def emptyBox : MBox := { first := 0, last := 0, msgs := [] }
def empty : Mem := { boxes := fun _ => emptyBox, names := [], all := [], cur := 0 }

def setBox (s : Mem) (b : Bytes) (mb : MBox) : Mem :=
  { s with boxes := fun x => if x == b then mb else s.boxes x,
           names := if s.names.contains b then s.names else s.names ++ [b] }

/-- withMailbox's side effect: the mailbox now exists -/
def touch (s : Mem) (b : Bytes) : Mem := setBox s b (s.boxes b)

def toMsg (b : Bytes) (m : MMsg) : Msg :=
  { box := b, id := m.index, hdr := m.hdr, seen := m.seen, source := m.source }

/-- the cap loop of AddMessage: `for len(mb.messages) > cap { delete(first) if present; first++ }`.
    `fuel` bounds the iterations (`last + 1 - first` always suffices, see Lemmas). -/
def capLoop (cap : Nat) : Nat → Nat → List MMsg → List MMsg → Nat × List MMsg × List MMsg
  | 0, first, msgs, ev => (first, msgs, ev.reverse)
  | fuel + 1, first, msgs, ev =>
    if msgs.length > cap then
      match msgs.find? (·.index == first) with
      | some old => capLoop cap fuel (first + 1) (msgs.filter (·.index != first)) (old :: ev)
      | none => capLoop cap fuel (first + 1) msgs ev
    else (first, msgs, ev.reverse)

/-- removeMessage(mailbox, id): delete from the map if present; returns the removed message -/
def removeFromBox (s : Mem) (b : Bytes) (i : Nat) : Mem × Option MMsg :=
  let mb := s.boxes b
  match mb.msgs.find? (·.index == i) with
  | some m => (setBox s b { mb with msgs := mb.msgs.filter (·.index != i) }, some m)
  | none => (touch s b, none)

/-- enforcer `remove` case (limit enabled): unlink from `all`, subtract the size -/
def enfRemove (limit : Nat) (s : Mem) (b : Bytes) (m : MMsg) : Mem :=
  if limit == 0 then s
  else { s with all := s.all.filter (fun e => !(e.box == b && e.index == m.index)),
                cur := s.cur - m.source.length }

/-- the eviction loop of the enforcer's `incoming` case -/
def enfLoop (limit : Nat) : Nat → Mem → List Ev → Mem × List Ev
  | 0, s, ev => (s, ev.reverse)
  | fuel + 1, s, ev =>
    if s.cur > limit then
      match s.all with
      | [] => (s, ev.reverse)                      -- `el == nil`: stop
      | e :: rest =>
        let s1 := { s with all := rest }
        match removeFromBox s1 e.box e.index with
        | (s2, some _) => enfLoop limit fuel { s2 with cur := s2.cur - e.size } ((e.box, e.index) :: ev)
        | (s2, none) => enfLoop limit fuel s2 ev
    else (s, ev.reverse)

def enfDeliver (limit : Nat) (s : Mem) (b : Bytes) (m : MMsg) : Mem × List Ev :=
  if limit == 0 then (s, [])
  else
    let s1 := { s with all := s.all ++ [{ box := b, index := m.index, size := m.source.length }],
                       cur := s.cur + m.source.length }
    enfLoop limit (s1.all.length + 1) s1 []

def step (c : Cfg) (s : Mem) : Op → Mem × Out × List Ev
  | .add b hdr src =>
    let mb := s.boxes b
    let last := mb.last + 1
    let m : MMsg := { index := last, hdr := hdr, seen := false, source := src }
    let msgs1 := mb.msgs ++ [m]
    let (first, msgs2, evicted) :=
      if c.cap > 0 then capLoop c.cap (last + 1 - mb.first) mb.first msgs1 [] else (mb.first, msgs1, [])
    let s1 := setBox s b { first := first, last := last, msgs := msgs2 }
    -- evicted by the cap: deleted event + enforcer removal each, then the delivery is registered
    let s2 := evicted.foldl (fun st old => enfRemove c.limit st b old) s1
    let (s3, ev2) := enfDeliver c.limit s2 b m
    (s3, .id last, evicted.map (fun old => (b, old.index)) ++ ev2)
  | .get b i =>
    match (s.boxes b).msgs.find? (·.index == i) with
    | some m => (touch s b, .msg (toMsg b m), [])
    | none => (touch s b, .notExist, [])
  | .latest b =>
    match (s.boxes b).msgs.getLast? with
    | some m => (touch s b, .msg (toMsg b m), [])
    | none => (touch s b, .notExist, [])
  | .list b => (touch s b, .msgs ((s.boxes b).msgs.map (toMsg b)), [])
  | .seen b i =>
    let mb := s.boxes b
    if mb.msgs.any (·.index == i) then
      (setBox s b { mb with msgs := mb.msgs.map (fun m => if m.index == i then { m with seen := true } else m) }, .ok, [])
    else (touch s b, .notExist, [])
  | .remove b i =>
    match removeFromBox s b i with
    | (s1, some m) => (enfRemove c.limit s1 b m, .ok, [(b, i)])
    | (s1, none) => (s1, .notExist, [])
  | .purge b =>
    let mb := s.boxes b
    let s1 := setBox s b { mb with msgs := [] }
    let s2 := mb.msgs.foldl (fun st m => enfRemove c.limit st b m) s1
    (s2, .ok, mb.msgs.map (fun m => (b, m.index)))
  | .visit =>
    (s, .boxes ((s.names.map (fun b => (s.boxes b).msgs.map (toMsg b))).filter (fun l => !l.isEmpty)), [])

end Ibx.Model.Mem
