/-
  Bytes: the byte strings of the models are `List Nat` (each element < 256 where it matters).
  Character classes are range tests so that `omega`/`simp` close them.
  Core Lean only (this file is linked into the driver executable).
-/
namespace Ibx

abbrev Bytes := List Nat

namespace Bytes

def ofString (s : String) : Bytes := s.toUTF8.toList.map (·.toNat)

/-- bytes of an ASCII literal.  Unlike `ofString` (which goes through `String.toUTF8`) this REDUCES in the
    kernel, so `decide` / `rfl` / `simp` can compute with it: use it for every literal inside Model files. -/
def ofAscii (s : String) : Bytes := s.toList.map (fun c => c.toNat)

def toString (b : Bytes) : String :=
  String.fromUTF8! (ByteArray.mk (b.map (fun n => UInt8.ofNat n)).toArray)

def isLowerB (c : Nat) : Bool := 97 ≤ c && c ≤ 122
def isUpperB (c : Nat) : Bool := 65 ≤ c && c ≤ 90
def isDigitB (c : Nat) : Bool := 48 ≤ c && c ≤ 57
def isAlphaB (c : Nat) : Bool := isLowerB c || isUpperB c

/-- ASCII lower-casing of one byte (what `strings.ToLower` does to every byte < 128). -/
def lowerB (c : Nat) : Nat := if 65 ≤ c ∧ c ≤ 90 then c + 32 else c
def upperB (c : Nat) : Nat := if 97 ≤ c ∧ c ≤ 122 then c - 32 else c

def lower (b : Bytes) : Bytes := b.map lowerB
def upper (b : Bytes) : Bytes := b.map upperB

@[simp] theorem lowerB_idem (c : Nat) : lowerB (lowerB c) = lowerB c := by
  unfold lowerB; split <;> (try split) <;> omega

@[simp] theorem lower_idem (b : Bytes) : lower (lower b) = lower b := by
  simp [lower, List.map_map, Function.comp_def]

@[simp] theorem lower_length (b : Bytes) : (lower b).length = b.length := by simp [lower]

@[simp] theorem lower_nil : lower [] = [] := rfl
@[simp] theorem lower_cons (c : Nat) (b : Bytes) : lower (c :: b) = lowerB c :: lower b := rfl
@[simp] theorem lower_append (a b : Bytes) : lower (a ++ b) = lower a ++ lower b := by
  simp [lower]

/-- all bytes are real bytes -/
def WF (b : Bytes) : Prop := ∀ c ∈ b, c < 256

/-! ### hex transport for the line protocol -/

def hexDigit (n : Nat) : Char :=
  if n < 10 then Char.ofNat (48 + n) else Char.ofNat (87 + n)

def toHexAux : List Nat → List Char → List Char
  | [], acc => acc.reverse
  | c :: cs, acc => toHexAux cs (hexDigit (c % 16) :: hexDigit (c / 16 % 16) :: acc)

/-- lower-case hex; the empty string is written `-` -/
def toHex (b : Bytes) : String :=
  if b.isEmpty then "-" else String.ofList (toHexAux b [])

def hexVal (c : Char) : Option Nat :=
  let n := c.toNat
  if 48 ≤ n ∧ n ≤ 57 then some (n - 48)
  else if 97 ≤ n ∧ n ≤ 102 then some (n - 87)
  else if 65 ≤ n ∧ n ≤ 70 then some (n - 55)
  else none

def ofHexAux : List Char → List Nat → Option (List Nat)
  | [], acc => some acc.reverse
  | [_], _ => none
  | a :: b :: rest, acc =>
    match hexVal a, hexVal b with
    | some x, some y => ofHexAux rest ((x * 16 + y) :: acc)
    | _, _ => none

def ofHex (s : String) : Option Bytes :=
  if s == "-" then some [] else ofHexAux s.toList []

end Bytes
end Ibx
