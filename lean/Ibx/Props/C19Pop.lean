import Ibx.Model.Pop3Conc
import Ibx.Lemmas.Pop3Conc
import Ibx.Props.C13Conc
import Ibx.Props.C19
/-
  C19, POP3 leg in its concurrent form — "pending POP3 deletions are still applied on QUIT", for any number of open
  sessions and every ordering.

  The model is `Model.Pop3Conc`: any number of clients around ONE `Spec.Store`; a client is a real POP3 session
  (`Model.Pop3.step`, one command line per step) or anything else that calls the store (one call per step: deliveries with
  their cap / size-limit evictions, REST deletes, purges, retention); a schedule is any list of `sess i` events with the
  shutdown events `cancel` and `closeL` (listener.Close) anywhere in it.  `processDeletes` is one `RemoveMessage` per
  marked snapshot message in snapshot order; a call fails when the message is no longer there; the loop of the pinned
  source goes on after a failure (`DelLoop.goesOn`, pinned by `Tie.Pop3Conc.delete_loop_tie`); the variant that stops at the
  first failure is modelled too and REFUTED below.

  Sentences proved (all worlds, all schedules, any number of clients):
    (a) the store changes by POP3 only in a QUIT step of a session in TRANSACTION, and only by that session's marks
        — `Props.C13Conc` (step and schedule form) and `nothing_else_is_lost` here;
    (b) after a session's QUIT step none of the messages it had marked is in its mailbox — whether its own call removed it
        or somebody else had — and none ever comes back: `quit_applies_every_pending_deletion`,
        `deleted_messages_never_return`, `pop3_pending_deletions_applied_at_shutdown`; false for the other variant:
        `stopping_at_first_failure_loses_deletions`;
    (c) what no quitting session had marked and no other client's call removed is still there, in order:
        `nothing_else_is_lost`, `survivors_keep_their_order`; a message delivered after a session logged in is never
        removed by that session: `delivered_after_login_never_removed_by_that_session`;
    (d) none of this depends on where `cancel` / `listener.Close` fall: every theorem quantifies over schedules that
        contain them anywhere, and `shutdown_events_are_immaterial` is C19's frame lemma for this program.
  Only property theorems, their non-vacuity examples and counter-witnesses live here.
-/
namespace Ibx.Props.C19Pop
open Ibx Ibx.Spec.Store Ibx.Lemmas.SpecStore
open Ibx.Model Ibx.Model.Pop3Conc Ibx.Model.Shutdown
open Ibx.Lemmas.Pop3Conc
open Ibx.Lemmas.Pop3 (markedIds)
open Ibx.Props.C13Conc (exIds exIds_roundtrip box exMsg exStore cUSER cPASS cDELE cQUIT cSTAT ln exEnv exEnvStop exWorld
  exSchedule liveIds exWorld_good)

/-! ### (d) the shutdown events -/

/-- **frame lemma for the real POP3 program.**  For any number of clients, any store and any schedule with `cancel` and
    `listener.Close` interleaved ANYWHERE: every session's state, what every client will still send, every reply and
    every `RemoveMessage` call made so far, and the shared store are exactly those of the same schedule with the shutdown
    events erased.  (`Props.C19.open_session_unaffected` at the program `Pop3Conc.prog`: a command handler is a function of
    session state, store and input and is never shown the flags.) -/
theorem shutdown_events_are_immaterial (e : Env) (w : World) (evs : List Sess.Ev) :
    (run e w evs).data = (run e w (evs.filter Sess.Ev.isSess)).data :=
  Ibx.Props.C19.open_session_unaffected (prog e) w evs

/-- … and neither do the flags the world starts with -/
theorem shutdown_flags_are_immaterial (e : Env) (w : World) (b d : Bool) (evs : List Sess.Ev) :
    (run e { w with cancelled := b, closed := d } evs).data = (run e w (evs.filter Sess.Ev.isSess)).data :=
  Ibx.Props.C19.session_steps_ignore_flags (prog e) w b d evs

/-- non-vacuity: the example schedule has `cancel` after six events and `listener.Close` after eight; the mailbox ends
    up the same with them, without them, and with them moved to the front -/
example :
    liveIds (run exEnv exWorld exSchedule) = [2] ∧
    liveIds (run exEnv exWorld (exSchedule.filter Sess.Ev.isSess)) = [2] ∧
    liveIds (run exEnv exWorld (.cancel :: .closeL :: exSchedule.filter Sess.Ev.isSess)) = [2] ∧
    (run exEnv exWorld exSchedule).cancelled = true ∧ (run exEnv exWorld exSchedule).closed = true := by
  decide +kernel

/-! ### (b) after QUIT none of the marked messages is left -/

/-- **pending deletions are applied on QUIT — the step.**  In ANY world (any number of other sessions open on the same
    mailbox, whatever they have marked; whatever other clients have removed or delivered meanwhile; shutdown requested
    or not, listener closed or not), when a POP3 session in TRANSACTION processes QUIT with the deletion loop of the source
    (`goesOn`), then afterwards NO message of its mailbox whose id it had marked is in the store — whether its own
    `RemoveMessage` took it out or it was already gone and that call failed. -/
theorem quit_applies_every_pending_deletion (e : Env) (hl : e.loop = .goesOn)
    (hids : ∀ n, e.ids.dec (e.ids.str n) = some n) (w : World) (hs : SessInv w) (i : Nat) (c : Client)
    (hq : QuitsAt w i c) :
    ∀ m ∈ (Sess.exec1 (prog e) w (.sess i)).store.msgs, m.box = c.st.user → e.ids.str m.id ∉ markedIds c.st := by
  intro m hm hb hmark
  have h := (C13Conc.concurrent_quit_commits_exactly e hl w hs i c hq).1
  rw [h, List.mem_filter] at hm
  have : (markedIds c.st).any (fun id => names e c.st.user id m) = true := by
    rw [List.any_eq_true]
    exact ⟨_, hmark, by simp [names, hb, hids]⟩
  simp [this] at hm

/-- non-vacuity — the scenario the sentence is about: sessions 0 and 1 are open on one mailbox, 0 has marked message 1,
    1 has marked 1 and 3; 0 quits first; when 1 quits, its first `RemoveMessage` FAILS (message 1 is gone) and is
    followed by one only it deletes (message 3), which is removed all the same; message 2 stays. -/
example :
    liveIds (run exEnv exWorld (exSchedule.take 10)) = [2, 3] ∧
    ((run exEnv exWorld exSchedule).threads[1]?.map (fun t => t.replies.filterMap
        (fun o => match o with | .removeCall id ok => some (id, ok) | _ => none))) = some [([49], false), ([51], true)] ∧
    liveIds (run exEnv exWorld exSchedule) = [2] := by
  decide +kernel

/-- **the other variant breaks the sentence** (counter-witness): with a deletion loop that stops at the first failing
    `RemoveMessage`, the same two sessions on the same schedule leave message 3 — which session 1 had marked and whose
    QUIT was processed and answered — in the mailbox: its only call is the failed one for message 1. -/
theorem stopping_at_first_failure_loses_deletions :
    ∃ t, (run exEnvStop exWorld (exSchedule.take 10)).threads[1]? = some t ∧
      QuitsAt (run exEnvStop exWorld (exSchedule.take 10)) 1 t.st ∧
      exIds.str 3 ∈ markedIds t.st.st ∧
      exMsg 3 ∈ (Sess.exec1 (prog exEnvStop) (run exEnvStop exWorld (exSchedule.take 10)) (.sess 1)).store.msgs ∧
      ((Sess.exec1 (prog exEnvStop) (run exEnvStop exWorld (exSchedule.take 10)) (.sess 1)).threads[1]?.map
        (fun t => calls t.replies)) = some [[49]] := by
  obtain ⟨t, ht, hq⟩ := quitsAtB_sound (run exEnvStop exWorld (exSchedule.take 10)) 1 (by decide +kernel)
  refine ⟨t, ht, hq, ?_, by decide +kernel, by decide +kernel⟩
  have h2 : ((run exEnvStop exWorld (exSchedule.take 10)).threads[1]?.map (fun t => markedIds t.st.st)) = some [[49], [51]] := by
    decide +kernel
  rw [ht] at h2
  simp only [Option.map_some, Option.some.injEq] at h2
  rw [h2]; decide

/-- so `quit_applies_every_pending_deletion` needs its hypothesis about the loop: its conclusion is false here -/
example : ¬ (∀ (e : Env) (_ : ∀ n, e.ids.dec (e.ids.str n) = some n) (w : World) (_ : SessInv w) (i : Nat) (c : Client)
    (_ : QuitsAt w i c), ∀ m ∈ (Sess.exec1 (prog e) w (.sess i)).store.msgs, m.box = c.st.user →
      e.ids.str m.id ∉ markedIds c.st) := by
  intro h
  obtain ⟨t, ht, hq, hm, hin, _⟩ := stopping_at_first_failure_loses_deletions
  have hg : SessInv (run exEnvStop exWorld (exSchedule.take 10)) := sessInv_run _ _ (exWorld_good exEnvStop).sessInv _
  have hu : (exMsg 3).box = t.st.st.user := by
    have h3 : ((run exEnvStop exWorld (exSchedule.take 10)).threads[1]?.map (fun t => t.st.st.user)) = some box := by decide +kernel
    rw [ht] at h3
    simp only [Option.map_some, Option.some.injEq] at h3
    rw [h3]; rfl
  exact h exEnvStop exIds_roundtrip _ hg 1 t.st hq (exMsg 3) hin hu hm

/-- **… and they never come back.**  From a world that satisfies the system invariant (`Good`: fresh connections on any
    reachable store do, and every event keeps it): after a session's QUIT step, whatever happens next — any schedule of
    other sessions' commands and QUITs, deliveries, evictions, purges, `cancel`, `listener.Close` — no message with the
    mailbox and id of one it had marked is in the store again. -/
theorem deleted_messages_never_return (e : Env) (hl : e.loop = .goesOn) (w : World) (hg : Good e w) (i : Nat) (c : Client)
    (hq : QuitsAt w i c) (evs : List Sess.Ev) (id : Bytes) (hid : id ∈ markedIds c.st) (n : Nat)
    (hn : e.ids.dec id = some n) :
    (c.st.user, n) ∉ keys (run e (Sess.exec1 (prog e) w (.sess i)) evs).store := by
  have hex := C13Conc.concurrent_quit_commits_exactly e hl w hg.sessInv i c hq
  simp only at hex
  obtain ⟨hm, hnext, _⟩ := hex
  obtain ⟨t, l, ok, rest, hti, hin, rfl, ho, ht, hql⟩ := hq
  apply run_absent_stays
  · simp only [keys, hm, List.mem_map, List.mem_filter, not_exists, not_and, and_imp]
    intro m _ hkeep hkey
    simp only [evOf, Prod.mk.injEq] at hkey
    have : (markedIds t.st.st).any (fun id => names e t.st.st.user id m) = true := by
      rw [List.any_eq_true]
      exact ⟨id, hid, by simp [names, hkey.1, hkey.2, hn]⟩
    simp [this] at hkeep
  · rw [hnext]
    obtain ⟨x, hx, rfl⟩ := marked_in_snapshot _ _ hid
    exact hg.snap t (List.mem_of_getElem? hti) ht x hx n hn

/-- **pending POP3 deletions are applied at shutdown — every schedule.**  Start from fresh connections on any reachable
    store (or any world satisfying `Good`), run ANY schedule `evs` — any number of sessions on the same or different
    mailboxes, their commands interleaved in any order with each other, with other clients' store calls and with `cancel`
    / `listener.Close` at any position.  For every session `i` and every point of the schedule at which `i` processes
    QUIT in TRANSACTION: at the END of the schedule no message with the mailbox and id of one it had marked then is in
    the store. -/
theorem pop3_pending_deletions_applied_at_shutdown (e : Env) (hl : e.loop = .goesOn)
    (hids : ∀ n, e.ids.dec (e.ids.str n) = some n) (w : World) (hg : Good e w) (evs pre post : List Sess.Ev) (i : Nat)
    (c : Client) (hsplit : evs = pre ++ .sess i :: post) (hq : QuitsAt (run e w pre) i c) :
    ∀ id ∈ markedIds c.st, ∀ n, e.ids.dec id = some n → (c.st.user, n) ∉ keys (run e w evs).store := by
  intro id hid n hn
  rw [hsplit, run_append, run_cons]
  exact deleted_messages_never_return e hl _ (good_run e hids w hg pre) i c hq post id hid n hn

example : (box, 1) ∉ keys (run exEnv exWorld exSchedule).store ∧ (box, 3) ∉ keys (run exEnv exWorld exSchedule).store := by
  decide +kernel

/-! ### (a) + (c) nothing else is lost -/

/-- **every message that disappears, disappears in another client's call or in the QUIT of a session that had it
    marked.**  Any world whose sessions satisfy the session invariant, any schedule, either variant of the loop: if a
    (mailbox, id) is live at the start and not at the end, there is an event of the schedule before which it is live and
    after which it is not, and that event is either another client's store call, or the QUIT step of a POP3 session in
    TRANSACTION on that mailbox which has marked an id string the store reads as this id.  (Hence: what no quitting
    session had marked and no other client removed is still there; DELE, RSET, a session that ends without QUIT,
    `cancel` and `listener.Close` lose nothing.) -/
theorem nothing_else_is_lost (e : Env) (w : World) (hs : SessInv w) (evs : List Sess.Ev) (k : Ev) (h0 : k ∈ keys w.store)
    (h1 : k ∉ keys (run e w evs).store) :
    ∃ pre ev post, evs = pre ++ ev :: post ∧ k ∈ keys (run e w pre).store ∧
      k ∉ keys (Sess.exec1 (prog e) (run e w pre) ev).store ∧
      ((∃ i op, ev = .sess i ∧ ForeignAt (run e w pre) i op) ∨
       (∃ i c id, ev = .sess i ∧ QuitsAt (run e w pre) i c ∧ k.1 = c.st.user ∧ id ∈ markedIds c.st ∧
          e.ids.dec id = some k.2)) := by
  induction evs generalizing w with
  | nil => exact absurd h0 h1
  | cons ev evs ih =>
    by_cases hk : k ∈ keys (Sess.exec1 (prog e) w ev).store
    · rw [run_cons] at h1
      obtain ⟨pre, ev', post, hsplit, ha, hb, hc⟩ := ih _ (sessInv_exec1 e w hs ev) hk h1
      exact ⟨ev :: pre, ev', post, by rw [hsplit]; rfl, ha, hb, hc⟩
    · refine ⟨[], ev, evs, rfl, h0, hk, ?_⟩
      rcases C13Conc.concurrent_store_untouched_unless_quit e w hs ev with h | ⟨i, op, rfl, hf, _⟩ | ⟨i, c, rfl, hq, h⟩
      · rw [h] at hk; exact absurd h0 hk
      · exact Or.inl ⟨i, op, rfl, hf⟩
      · right
        rw [h] at hk
        simp only [keys, List.mem_map] at h0
        obtain ⟨m, hm, rfl⟩ := h0
        have hgone : m ∉ (processDeletes e c.st.user (markedIds c.st) w.store).1.msgs :=
          fun hh => hk (List.mem_map.2 ⟨m, hh, rfl⟩)
        rw [(processDeletes_msgs e _ _ _).1, List.mem_filter] at hgone
        simp only [hm, true_and, Bool.not_eq_true', Bool.not_eq_false, List.any_eq_true] at hgone
        obtain ⟨id, hid, hnm⟩ := hgone
        simp only [names, Bool.and_eq_true, beq_iff_eq] at hnm
        exact ⟨i, c, id, rfl, hq, hnm.1, (calls_prefix e _ _ _).subset hid, hnm.2⟩

/-- non-vacuity: message 1 of the example disappears in session 0's QUIT (event 9), which had it marked -/
example : (box, 1) ∈ keys exWorld.store ∧ (box, 1) ∉ keys (run exEnv exWorld exSchedule).store ∧
    (box, 1) ∈ keys (run exEnv exWorld (exSchedule.take 9)).store ∧
    (box, 1) ∉ keys (run exEnv exWorld (exSchedule.take 10)).store := by
  decide +kernel

/-- **the survivors keep their order.**  Any world, any schedule, either variant: the live (mailbox, id) keys at the end
    are — in order — a sub-list of those at the start followed by the keys of the messages delivered on the way, in order
    of delivery.  Nothing is re-ordered, duplicated or re-inserted by a QUIT, however its calls fare. -/
theorem survivors_keep_their_order (e : Env) (w : World) (evs : List Sess.Ev) :
    (keys (run e w evs).store).Sublist (keys w.store ++ arrivals e w evs) := by
  induction evs generalizing w with
  | nil => simp [run_nil, arrivals]
  | cons ev evs ih =>
    rw [run_cons]
    have h1 := ih (Sess.exec1 (prog e) w ev)
    have h2 := (exec1_keys_sublist e w ev).append_right (arrivals e (Sess.exec1 (prog e) w ev) evs)
    simpa [arrivals, List.append_assoc] using h1.trans h2

/-- a third client that delivers a message to the mailbox and deletes message 2 while both sessions are open -/
def exWorld3 : World :=
  { exWorld with threads := exWorld.threads ++
      [{ st := { st := Pop3.St.init }, input := [.call (.add box default [66, 10]), .call (.remove box 2)], replies := [] }] }

/-- both sessions log in and mark; the third client delivers message 4; session 0 quits; the third client removes message 2;
    shutdown is requested; session 1 quits -/
def exSchedule3 : List Sess.Ev :=
  [.sess 0, .sess 1, .sess 0, .sess 1, .sess 0, .sess 1, .sess 1, .sess 2, .sess 0, .sess 2, .cancel, .closeL, .sess 1]

example : liveIds (run exEnv exWorld3 exSchedule3) = [4] ∧ arrivals exEnv exWorld3 exSchedule3 = [(box, 4)] ∧
    (keys (run exEnv exWorld3 exSchedule3).store).Sublist (keys exWorld3.store ++ arrivals exEnv exWorld3 exSchedule3) :=
  ⟨by decide +kernel, by decide +kernel, survivors_keep_their_order _ _ _⟩

/-- **a message delivered after a session has logged in is never removed by that session.**  From any world satisfying
    `Good` in which session `i` is in TRANSACTION: let another client deliver a message now (`AddMessage`, with whatever
    the cap or the size limit evicts), then let ANYTHING happen (`mid`: any schedule) until `i` processes QUIT.  If the
    delivered message is still there just before that QUIT step, it is still there after it — whatever `i` had marked,
    whichever variant of the loop. -/
theorem delivered_after_login_never_removed_by_that_session (e : Env) (hids : ∀ n, e.ids.dec (e.ids.str n) = some n)
    (w : World) (hg : Good e w) (i : Nat) (t : Thread) (hti : w.threads[i]? = some t) (htr : t.st.st.phase = .trans)
    (j : Nat) (b : Bytes) (hdr : Meta) (src : Bytes) (_hf : ForeignAt w j (.add b hdr src)) (mid : List Sess.Ev) (c : Client)
    (hq : QuitsAt (run e (Sess.exec1 (prog e) w (.sess j)) mid) i c)
    (hlive : (b, w.store.next b + 1) ∈ keys (run e (Sess.exec1 (prog e) w (.sess j)) mid).store) :
    (b, w.store.next b + 1) ∈
      keys (Sess.exec1 (prog e) (run e (Sess.exec1 (prog e) w (.sess j)) mid) (.sess i)).store := by
  have hfz : SnapFrozen e i t.st.st.user (w.store.next t.st.st.user) w := by
    intro t0 ht0
    rw [hti] at ht0; cases ht0
    exact ⟨by rw [htr]; decide, fun _ => ⟨rfl, hg.snap t (List.mem_of_getElem? hti) htr⟩⟩
  have hg1 := good_exec1 e hids w hg (.sess j)
  have hfz2 := snapFrozen_run e i _ _ _ hg1.sessInv (snapFrozen_exec1 e i _ _ w hg.sessInv hfz (.sess j)) mid
  have hs2 := sessInv_run e _ hg1.sessInv mid
  obtain ⟨t2, l, ok, rest, ht2, hin2, rfl, ho, ht, hql⟩ := hq
  obtain ⟨_, hfz3⟩ := hfz2 t2 ht2
  obtain ⟨hu, hbound⟩ := hfz3 ht
  simp only [keys, List.mem_map] at hlive ⊢
  obtain ⟨m, hm, hkey⟩ := hlive
  refine ⟨m, ?_, hkey⟩
  apply C13Conc.concurrent_quit_keeps_unlisted e _ hs2 i t2.st ⟨t2, l, ok, rest, ht2, hin2, rfl, ho, ht, hql⟩ m hm
  simp only [evOf, Prod.mk.injEq] at hkey
  by_cases hb : m.box = t2.st.st.user
  · right
    intro x hx hd
    have := hbound x hx m.id hd
    rw [hkey.2, ← hu, ← hb, hkey.1] at this
    omega
  · exact Or.inl hb

/-- non-vacuity: in the three-client example session 1 (which marked 1 and 3 before message 4 arrived) quits last and
    message 4 survives -/
example : (box, 4) ∈ keys (run exEnv exWorld3 (exSchedule3.take 12)).store ∧
    (box, 4) ∈ keys (run exEnv exWorld3 exSchedule3).store := by
  decide +kernel

end Ibx.Props.C19Pop
