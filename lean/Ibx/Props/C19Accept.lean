import Ibx.Lemmas.ShutdownNotify
import Ibx.Props.C19
/-
  C19 — shutdown is graceful, two more ways into it and out of a session:

  (a) the shutdown that FOLLOWS A FAILED ACCEPT LOOP.  `serve()` reports a permanent `Accept` error on the
      listener's Notify channel (`s.notify <- err; close(s.notify); return`), main reacts with `svcCancel()`,
      `Start` closes the listener, main calls `Drain()`.  Over all interleavings of the `Notify` model:
      the channel is closed at most once and nothing is sent on it after the close (no run-time panic: the
      process lives), the error reaches main exactly once and is never lost or blocked on its way, and from
      every reachable state after the failure the whole sequence can run to its end with every open session
      finishing first.  For the variant in which `Start` also closes the channel at shutdown: the reachable
      panic, with a session open, after which no goroutine takes another step.
  (b) sessions that END ABNORMALLY.  Whatever exit a session goroutine takes — QUIT, a failed TLS handshake
      before the greeting, a timeout, a reset, a failing write — it executes exactly the `Done`s that balance
      the `Add`s made for it, provided the `defer` that calls `Done` is registered before the first exit point
      (`Balance.covers`, decided on the regenerated statement skeleton by `Tie.Notify`); hence `Drain` is
      enabled as soon as the last session is over, however the earlier ones ended.  For the variant with an
      early `return` above the `defer`: one failed handshake, and `Drain` is never enabled again.

  Only property theorems, their non-vacuity examples and counter-witnesses live here; the inductive invariants
  are in Lemmas/ShutdownNotify.lean.
-/
namespace Ibx.Props.C19Accept
open Ibx.Model.Shutdown Ibx.Model.ShutdownNotify Ibx.Lemmas.ShutdownNotify

/-! ## (a) the Notify channel and the shutdown after an accept-loop failure -/
section NotifyThms
open Notify

/-- **the Notify channel is closed at most once** (present source: `Start` does not close it at shutdown).
    On every schedule — bind failures, a permanent `Accept` error at any moment, signals, other services failing,
    any number of sessions — `close(s.notify)` is executed at most once, `s.notify <- err` at most once, and no
    goroutine panics (no `close of closed channel`, no `send on closed channel`): the process stays alive. -/
theorem notify_closed_at_most_once (c : Cfg) (hv : c.startClosesNotify = false) {s : St} (h : Reach c s) :
    s.panicked = false ∧ s.closes ≤ 1 ∧ s.sends ≤ 1 ∧ (s.nclosed = true ↔ s.closes = 1) := by
  obtain ⟨_, _, _, a4, _, _⟩ := invA c h
  obtain ⟨b1, b2, b3, b4⟩ := invB c hv h
  have h1 : s.closes ≤ 1 ∧ s.sends ≤ 1 := by
    cases hs : s.start <;> cases hf : s.fat <;> simp_all
  exact ⟨b1, h1.1, h1.2, by constructor <;> intro hh <;> simp_all <;> omega⟩

/-- the send of the fatal path neither blocks nor panics: when the accept loop has chosen to report, the
    channel is open and its one-slot buffer is empty -/
theorem notify_send_never_blocks (c : Cfg) (hv : c.startClosesNotify = false) {s : St} (h : Reach c s)
    (hf : s.fat = .chose) : ∃ s', Step c s s' ∧ s'.fat = .sent ∧ s'.buf = 1 ∧ s'.panicked = false := by
  obtain ⟨_, _, _, a4, _, _⟩ := invA c h
  obtain ⟨b1, b2, b3, b4⟩ := invB c hv h
  obtain ⟨c1, _⟩ := invC c hv h
  have hst : startSent s.start = 0 ∧ startClosed s.start = 0 := by cases hs : s.start <;> simp_all
  have hn : s.nclosed = false := by
    cases hh : s.nclosed
    · rfl
    · have := b4.1 hh; simp_all
  have hb : s.buf = 0 := by simp_all
  exact ⟨_, ⟨b1, Act.fatalSend s hf hn hb⟩, rfl, rfl, b1⟩

/-- **the failure is reported at most once and never lost**: the error sent by this listener is, at every
    moment, in exactly one place — the channel's buffer, the merger goroutine's hands, the merged channel, or
    main has received it — and main receives it at most once. -/
theorem accept_failure_never_lost (c : Cfg) (hv : c.startClosesNotify = false) {s : St} (h : Reach c s) :
    s.buf + mergerOwn s.merger + cbufOwn s.cbuf + s.delivered = s.sends ∧ s.delivered ≤ 1 := by
  have h1 := (invC c hv h).1
  have h2 := (notify_closed_at_most_once c hv h).2.2.1
  exact ⟨h1, by omega⟩

/-- main never receives the zero value of the closed channel (a `nil` "failure"): the channel is closed only
    behind a buffered error, and the merger goroutine receives once -/
theorem no_nil_error_reaches_main (c : Cfg) (hv : c.startClosesNotify = false) {s : St} (h : Reach c s) :
    s.merger ≠ .holding .zero ∧ s.cbuf ≠ some .zero :=
  ⟨(invC c hv h).2.2.2.2.2.2.1, (invC c hv h).2.2.2.2.2.2.2⟩

/-- **the failure reaches main**: once the accept loop has sent its error, as long as main is still in its
    loop the error's way to it (merger receive, merger forward, main receive) always has an enabled step —
    no stage blocks, whatever the other goroutines do. -/
theorem failure_reaches_main (c : Cfg) (hv : c.startClosesNotify = false) {s : St} (h : Reach c s)
    (hf : fatSent s.fat = 1) (hm : s.main = .looping) :
    ∃ s', Step c s s' ∧ pipeW s' < pipeW s := by
  obtain ⟨_, _, _, a4, _, _⟩ := invA c h
  obtain ⟨b1, b2, _, _⟩ := invB c hv h
  obtain ⟨c1, c2, _, _, _, c6, _, _⟩ := invC c hv h
  have hss : startSent s.start = 0 := by cases hs : s.start <;> simp_all
  cases hcb : s.cbuf
  case some t =>
    exact ⟨_, ⟨b1, Act.mainRecv s t hm hcb⟩, by simp [pipeW, cbufW, mainW, hcb, hm]⟩
  case none =>
    cases hmg : s.merger
    case waiting =>
      have hd : s.delivered = 0 := by
        rcases Nat.eq_zero_or_pos s.delivered with h0 | h0
        · exact h0
        · exact absurd hm (c6 h0).2
      have hb : 0 < s.buf := by simp_all
      exact ⟨_, ⟨b1, Act.mergeRecv s hmg hb⟩, by simp [pipeW, mergerW, hmg]⟩
    case holding t =>
      exact ⟨_, ⟨b1, Act.mergeFwd s t hmg hcb⟩, by simp [pipeW, mergerW, cbufW, hmg, hcb]⟩
    case done =>
      rcases c2 hmg with h1 | h1
      · simp [hcb] at h1
      · exact absurd hm h1

private theorem invD (c : Cfg) (hv : c.startClosesNotify = false) (hsig : c.signals = false)
    (hoth : c.others = false) {s : St} (h : Reach c s) :
    (∀ t, s.merger = .holding t → t = .own) ∧ (∀ t, s.cbuf = some t → t = .own)
    ∧ (s.main ≠ .looping → s.delivered = 1) := by
  unfold Reach at h
  generalize hi : init c = i at h
  induction h with
  | refl => subst hi; simp [init]
  | @step t u p st ih =>
    subst hi
    obtain ⟨_, _, _, _, _, c6, c7, _⟩ := invC c hv p
    obtain ⟨_, _, _, _, _, _, c7', _⟩ := invC c hv (Path.step p st)
    obtain ⟨d1, d2, d3⟩ := ih
    obtain ⟨_, act⟩ := st
    cases act with
    | sess d' ss => simp_all
    | mainRecv tk hm hc =>
      have := d2 tk hc
      subst this
      have hd : t.delivered = 0 := by
        rcases Nat.eq_zero_or_pos t.delivered with h0 | h0
        · exact h0
        · exact absurd hm (c6 h0).2
      simp_all
    | _ => simp_all [closeN]

/-- **delivered exactly once.**  With no signal and no other failing service, main leaves its loop — and
    thereby cancels the context — if and only if it has received THIS listener's error, which happens at most
    once.  (Together with `failure_reaches_main` / `shutdown_completes_after_accept_failure`: it does happen.) -/
theorem accept_failure_delivered_exactly_once (c : Cfg) (hv : c.startClosesNotify = false)
    (hsig : c.signals = false) (hoth : c.others = false) {s : St} (h : Reach c s) :
    (s.main ≠ .looping ↔ s.delivered = 1) ∧ s.delivered ≤ 1 := by
  obtain ⟨_, _, d3⟩ := invD c hv hsig hoth h
  obtain ⟨_, _, _, _, _, c6, _, _⟩ := invC c hv h
  exact ⟨⟨d3, fun h1 => (c6 (by omega)).2⟩, (accept_failure_never_lost c hv h).2⟩

/-- **Drain only after**, in the model with Notify and the fatal accept path (either variant): whenever the
    counter is zero — whenever `Drain()` can return — no session goroutine has an open connection or deferred
    code to run, also when the accept loop ended by a permanent error and the listener is not yet closed. -/
theorem drain_only_after_notify (c : Cfg) (hb : c.drain.wgAdd.before = true) {s : St} (h : Reach c s)
    (hz : s.d.wg = 0) :
    s.d.openSessions = 0 ∧ s.d.closing2 = 0 ∧ s.d.closing1 = 0 ∧ s.d.acc ≠ .added := by
  have := (invA c h).1
  rw [hz] at this
  obtain ⟨⟨w, sc⟩, x, y, o⟩ := c
  unfold Drain.St.openSessions
  cases w <;> cases sc <;> cases ha : s.d.acc <;>
    simp [Drain.expected, Drain.WgAdd.before, Drain.WgAdd.inside, ha] at this hb ⊢ <;> omega

/-- … and at the very step at which main's `Drain()` returns -/
theorem main_finishes_only_after_sessions (c : Cfg) (hb : c.drain.wgAdd.before = true) {s s' : St}
    (h : Reach c s) (st : Step c s s') (hm : s.main ≠ .finished) (hm' : s'.main = .finished) :
    s'.d.openSessions = 0 ∧ s'.d.closing2 = 0 ∧ s'.d.closing1 = 0 := by
  have hr : Reach c s' := Path.step h st
  obtain ⟨_, act⟩ := st
  cases act with
  | mainDrain hd hz =>
    obtain ⟨a, b, d, _⟩ := drain_only_after_notify c hb hr (by simpa using hz)
    exact ⟨a, b, d⟩
  | sess d' ss => simp_all
  | _ => simp_all [closeN]

/-- an open session can always take its next step while the process is alive — whatever has happened to the
    accept loop, the Notify channel, the context and the listener (the session steps are those of
    `Shutdown.Drain`, which mention none of them) -/
theorem open_session_can_finish_after_failure (c : Cfg) (s : St) (hp : s.panicked = false)
    (hr : 0 < s.d.running) : ∃ s', Step c s s' ∧ s'.d.running = s.d.running - 1 ∧ s'.panicked = false := by
  refine ⟨_, ⟨hp, Act.sess s _ (Drain.SessStep.close s.d hr)⟩, ?_, hp⟩
  by_cases hb : c.drain.wgAdd = .both <;> simp [hb]

private theorem finished_drained (c : Cfg) {s : St} (h : Reach c s) : s.main = .finished → s.d.drained = true := by
  unfold Reach at h
  generalize hi : init c = i at h
  induction h with
  | refl => subst hi; simp [init]
  | step _ st ih =>
    obtain ⟨_, act⟩ := st
    cases act
    case sess d' ss => cases ss <;> (try split) <;> simp_all
    all_goals simp_all [closeN, serveDone]

private theorem step_keeps_fat (c : Cfg) {s s' : St} (st : Step c s s') (hf : s.fat ≠ .none) : s'.fat ≠ .none := by
  obtain ⟨_, act⟩ := st
  cases act <;> simp_all [closeN]

private theorem path_trans (c : Cfg) {s t u : St} (p : Path c s t) (q : Path c t u) : Path c s u := by
  induction q with
  | refl => exact p
  | step _ st ih => exact Path.step ih st

private theorem completes_aux (c : Cfg) (hv : c.startClosesNotify = false) (n : Nat) :
    ∀ s, Reach c s → s.fat ≠ .none → s.main ≠ .finished → rank s ≤ n →
      ∃ s', Path c s s' ∧ s'.main = .finished ∧ s'.d.wg = 0 ∧ s'.start = .returned ∧ s'.fat = .done := by
  induction n with
  | zero =>
    intro s h hf hm hr
    obtain ⟨s1, _, hlt, _⟩ := progress c hv h hf hm
    omega
  | succ n ih =>
    intro s h hf hm hr
    obtain ⟨s1, st, hlt, hfin⟩ := progress c hv h hf hm
    by_cases hm1 : s1.main = .finished
    · exact ⟨s1, Path.step (Path.refl s) st, hm1, hfin hm1⟩
    · obtain ⟨s2, p, r⟩ := ih s1 (Path.step h st) (step_keeps_fat c st hf) hm1 (by omega)
      exact ⟨s2, path_trans c (Path.step (Path.refl s) st) p, r⟩

/-- **the shutdown after an accept-loop failure completes, every open session finishing first** (present
    source, any position of the per-session `Add` that precedes the `go` statement, any number of open sessions
    in any state, with or without signals and other failing services).  From EVERY reachable state in which the
    accept loop has entered its fatal path and main has not finished, the system can run to a state in which:
    main's `Drain()` has returned, the process is alive, the channel was closed exactly once, the listener is
    closed, no accepted connection is open, no deferred code is pending, and every accepted connection's
    goroutine has ended.  (`main_finishes_only_after_sessions`: on NO schedule does Drain return earlier.) -/
theorem shutdown_completes_after_accept_failure (c : Cfg) (hv : c.startClosesNotify = false)
    (hb : c.drain.wgAdd.before = true) {s : St} (h : Reach c s) (hf : s.fat ≠ .none) (hm : s.main ≠ .finished) :
    ∃ s', Path c s s' ∧ s'.main = .finished ∧ s'.panicked = false ∧ s'.d.drained = true ∧ s'.d.closed = true
      ∧ s'.closes = 1 ∧ s'.d.openConns = 0 ∧ s'.d.closing2 = 0 ∧ s'.d.closing1 = 0
      ∧ s'.d.ended = s'.d.accepted := by
  obtain ⟨s', p, hfin, hz, hst, hfat⟩ := completes_aux c hv (rank s) s h hf hm (Nat.le_refl _)
  have hr : Reach c s' := path_trans c h p
  obtain ⟨o1, o2, o3, _⟩ := drain_only_after_notify c hb hr hz
  obtain ⟨_, _, _, _, _, a6⟩ := invA c hr
  obtain ⟨b1, _, b3, _⟩ := invB c hv hr
  obtain ⟨_, _, _, c4, _⟩ := invC c hv hr
  have hcn := invConns c hr
  have hacc : s'.d.acc = .exited := a6 hfat
  have hdr : s'.d.drained = true := finished_drained c hr hfin
  unfold Drain.St.openSessions at o1
  refine ⟨s', p, hfin, b1, hdr, c4 (Or.inr hst), by simp [b3, hst, hfat], ?_, o2, o3, ?_⟩
  · unfold Drain.St.openConns; simp [hacc]; omega
  · rw [hcn, hacc]; simp; omega

/-! ### non-vacuity and counter-witnesses for (a) -/

/-- the present source with the present SMTP / POP3 accounting -/
def smtpCfgNow (sig oth : Bool) : Cfg := ⟨⟨.both, true⟩, false, sig, oth⟩
def pop3CfgNow (sig oth : Bool) : Cfg := ⟨⟨.beforeSpawn, true⟩, false, sig, oth⟩

/-- a session is accepted and reaches its dialogue, then the accept loop fails permanently and reports it -/
private theorem failure_with_open_session (c : Cfg) (hb : c.drain.wgAdd.before = true) :
    ∃ s, Reach c s ∧ s.d.running = 1 ∧ s.fat = .done ∧ s.buf = 1 ∧ s.nclosed = true ∧ s.closes = 1
      ∧ s.panicked = false ∧ s.main = .looping ∧ s.start = .waiting ∧ s.merger = .waiting ∧ s.cbuf = none
      ∧ s.d.cancelled = false ∧ s.delivered = 0 ∧ s.d.drained = false := by
  have r0 : Reach c (init c) := Path.refl _
  have r1 := Path.step r0 ⟨rfl, Act.bindOk _ rfl⟩
  have r2 := Path.step r1 ⟨rfl, Act.accept _ rfl rfl rfl⟩
  have r3 := Path.step r2 ⟨rfl, Act.accAdd _ rfl hb⟩
  have r4 := Path.step r3 ⟨rfl, Act.spawn _ (Or.inl rfl)⟩
  have r5 := Path.step r4 ⟨rfl, Act.sess _ _ (Drain.SessStep.enter _ (by simp))⟩
  have r6 := Path.step r5 ⟨rfl, Act.acceptErrFatal _ rfl rfl rfl⟩
  have r7 := Path.step r6 ⟨rfl, Act.fatalSend _ rfl rfl rfl⟩
  have r8 := Path.step r7 ⟨rfl, Act.fatalClose _ rfl⟩
  have r9 := Path.step r8 ⟨rfl, Act.fatalReturn _ rfl⟩
  exact ⟨_, r9, rfl, rfl, rfl, rfl, rfl, rfl, rfl, rfl, rfl, rfl, rfl, rfl, rfl⟩

/-- non-vacuity of `shutdown_completes_after_accept_failure` and of the exactly-once statement: in the present
    SMTP source, without any signal, a state is reachable in which a session is open in its dialogue, the accept
    loop has failed and returned, the error sits in the closed channel, and main is still in its loop -/
example : ∃ s, Reach (smtpCfgNow false false) s ∧ s.d.running = 1 ∧ s.fat ≠ .none ∧ s.main ≠ .finished
    ∧ s.nclosed = true ∧ s.buf = 1 := by
  obtain ⟨s, r, h1, h2, h3, h4, _, _, h5, _⟩ := failure_with_open_session (smtpCfgNow false false) rfl
  exact ⟨s, r, h1, by simp [h2], by simp [h5], h4, h3⟩

/-- … and main does get it, exactly once, and cancels: error sent → merger → merged channel → main -/
example : ∃ s, Reach (pop3CfgNow false false) s ∧ s.delivered = 1 ∧ s.main = .draining ∧ s.d.cancelled = true
    ∧ s.d.running = 1 := by
  obtain ⟨s, r, h1, _, h3, _, _, hp, hm, _, hg, hc, _, hd, _⟩ := failure_with_open_session (pop3CfgNow false false) rfl
  have r1 := Path.step r ⟨hp, Act.mergeRecv s hg (by omega)⟩
  have r2 := Path.step r1 ⟨hp, Act.mergeFwd _ .own rfl hc⟩
  have r3 := Path.step r2 ⟨hp, Act.mainRecv _ .own hm rfl⟩
  exact ⟨_, r3, by simp [hd], rfl, rfl, h1⟩

/-- **counter-witness, `Start` closes the channel too** (any accounting with the `Add` before `go`; no signal
    needed).  A session is open in its dialogue; the accept loop fails permanently, reports and closes the
    channel; the error reaches main, main cancels; `Start` closes the listener and then the channel a SECOND
    time: run-time panic.  The process is dead with the session open and main inside `Drain()`. -/
theorem start_closing_notify_panics (d : Drain.Cfg) (hb : d.wgAdd.before = true) (sig oth : Bool) :
    ∃ s, Reach ⟨d, true, sig, oth⟩ s ∧ s.panicked = true ∧ s.closes = 2 ∧ s.d.running = 1
      ∧ s.delivered = 1 ∧ s.main = .draining ∧ s.d.drained = false := by
  obtain ⟨s, r, h1, h2, h3, h4, h5, hp, hm, hs, hg, hc, hcan, hd, hdr⟩ :=
    failure_with_open_session ⟨d, true, sig, oth⟩ hb
  have r1 := Path.step r ⟨hp, Act.mergeRecv s hg (by omega)⟩
  have r2 := Path.step r1 ⟨hp, Act.mergeFwd _ .own rfl hc⟩
  have r3 := Path.step r2 ⟨hp, Act.mainRecv _ .own hm rfl⟩
  have r4 := Path.step r3 ⟨hp, Act.startCloseL _ hs rfl⟩
  have r5 := Path.step r4 ⟨hp, Act.startCloseN _ rfl rfl⟩
  exact ⟨_, r5, by simp [closeN, h4], by simp [closeN, h5], h1, by simp [closeN, hd], rfl, by simp [closeN, hdr]⟩

/-- … and, with a signal, the other order: the accept loop has decided to report (`default` of its `select`),
    the signal cancels, `Start` closes listener and channel, the accept loop SENDS ON THE CLOSED CHANNEL -/
theorem start_closing_notify_send_panics (d : Drain.Cfg) (oth : Bool) :
    ∃ s, Reach ⟨d, true, true, oth⟩ s ∧ s.panicked = true ∧ s.sends = 0 ∧ s.fat = .chose := by
  have r0 : Reach ⟨d, true, true, oth⟩ (init _) := Path.refl _
  have r1 := Path.step r0 ⟨rfl, Act.bindOk _ rfl⟩
  have r2 := Path.step r1 ⟨rfl, Act.acceptErrFatal _ rfl rfl rfl⟩
  have r3 := Path.step r2 ⟨rfl, Act.signal _ rfl rfl⟩
  have r4 := Path.step r3 ⟨rfl, Act.startCloseL _ rfl rfl⟩
  have r5 := Path.step r4 ⟨rfl, Act.startCloseN _ rfl rfl⟩
  have r6 := Path.step r5 ⟨rfl, Act.fatalSendClosed _ rfl rfl⟩
  exact ⟨_, r6, rfl, rfl, rfl⟩

/-- a panic is final: the process is dead, no goroutine takes another step — the open session never gets its
    250 / its deletions, `Drain()` never returns -/
theorem panic_is_final (c : Cfg) {s s' : St} (p : Path c s s') (hp : s.panicked = true) : s' = s := by
  induction p with
  | refl => rfl
  | step _ st ih => subst ih; obtain ⟨h, _⟩ := st; simp [hp] at h

/-- the variant also hands main a `nil` failure on an ordinary, signal-driven shutdown (harmless there: main
    has left its loop) — in the present source this cannot happen (`no_nil_error_reaches_main`) -/
example : ∃ s, Reach ⟨⟨.both, true⟩, true, true, false⟩ s ∧ s.merger = .holding .zero ∧ s.panicked = false := by
  have r0 : Reach ⟨⟨.both, true⟩, true, true, false⟩ (init _) := Path.refl _
  have r1 := Path.step r0 ⟨rfl, Act.bindOk _ rfl⟩
  have r2 := Path.step r1 ⟨rfl, Act.signal _ rfl rfl⟩
  have r3 := Path.step r2 ⟨rfl, Act.startCloseL _ rfl rfl⟩
  have r4 := Path.step r3 ⟨rfl, Act.startCloseN _ rfl rfl⟩
  have r5 := Path.step r4 ⟨rfl, Act.mergeRecvClosed _ rfl rfl rfl⟩
  exact ⟨_, r5, rfl, rfl⟩

/-- a bind failure closes the channel too — and is the only close then (no accept loop exists) -/
example : ∃ s, Reach (smtpCfgNow true true) s ∧ s.start = .failed ∧ s.closes = 1 ∧ s.d.acc = .exited ∧ s.d.wg = 0 := by
  have r0 : Reach (smtpCfgNow true true) (init _) := Path.refl _
  have r1 := Path.step r0 ⟨rfl, Act.bindFail _ rfl rfl rfl⟩
  have r2 := Path.step r1 ⟨rfl, Act.bindFailClose _ rfl⟩
  exact ⟨_, r2, rfl, rfl, rfl, rfl⟩

end NotifyThms

/-! ### the open sessions' data: composition with the frame lemma of Props/C19.lean -/
section DataThms
open Sess
variable {σ ι ρ κ : Type}

/-- the events of a run in which the accept loop fails: session steps, and everything the listener, the merger
    goroutine, main and Start do about the failure -/
inductive NEv
  | sess (i : Nat)        -- session i handles its next input unit
  | acceptFails           -- `Accept` returns a permanent error, `select` takes `default`
  | notifySend            -- `s.notify <- err`
  | notifyClose           -- `close(s.notify)`
  | serveReturns
  | mergerRecv | mergerFwd
  | mainRecvCancels       -- `case <-services.Notify(): svcCancel()`
  | startClosesListener   -- `<-ctx.Done(); s.listener.Close()`
  deriving DecidableEq, Repr

/-- what the session model (`Shutdown.Sess`) sees of such an event: the session programs are functions of
    session state, store and input — the Notify channel is not among their arguments any more than the context -/
def NEv.toSess : NEv → Option Ev
  | .sess i => some (.sess i)
  | .mainRecvCancels => some .cancel
  | .startClosesListener => some .closeL
  | _ => none

def execN (p : Prog σ ι ρ κ) (s : St σ ι ρ κ) (evs : List NEv) : St σ ι ρ κ :=
  exec p s (evs.filterMap NEv.toSess)

/-- **open sessions are unaffected by an accept-loop failure and the shutdown it causes**: for every session
    program, any number of sessions and every interleaving of their steps with the failure / notify / cancel /
    close events, states, replies and store are those of the session steps alone. -/
theorem open_session_unaffected_by_accept_failure (p : Prog σ ι ρ κ) (s : St σ ι ρ κ) (evs : List NEv) :
    (execN p s evs).data = (exec p s ((evs.filterMap NEv.toSess).filter Ev.isSess)).data :=
  C19.open_session_unaffected p s _

/-- the accept loop fails at protocol position `k` of an `n`-step dialogue; main reacts; the dialogue goes on -/
def failureAt (k n : Nat) : List NEv :=
  List.replicate k (NEv.sess 0) ++
  [.acceptFails, .notifySend, .notifyClose, .serveReturns, .mergerRecv, .mergerFwd, .mainRecvCancels,
   .startClosesListener] ++ List.replicate (n - k) (NEv.sess 0)

private theorem failureAt_toSess (k n : Nat) :
    (failureAt k n).filterMap NEv.toSess = C19.cancelAt k n := by
  have hrep : ∀ m, (List.replicate m (NEv.sess 0)).filterMap NEv.toSess = List.replicate m (Ev.sess 0) := by
    intro m
    induction m with
    | zero => rfl
    | succ m ih => simp [List.replicate_succ, NEv.toSess, ih]
  unfold failureAt C19.cancelAt
  rw [List.filterMap_append, List.filterMap_append, hrep, hrep]
  rfl

/-- **the in-flight message is still stored and acknowledged** when the shutdown was caused by a failed accept
    loop, wherever in the dialogue the failure strikes (after the greeting … in the middle of the body …) -/
theorem inflight_message_stored_after_accept_failure (k : Nat) (hk : k ≤ 9) :
    let s := execN smtp (C19.smtpStart false false) (failureAt k 9)
    s.store = [[1, 2, 3]] ∧ s.threads.map (·.replies) = [[250, 250, 250, 354, 250, 221]]
      ∧ s.threads.map (·.st) = [SmtpSt.quit] ∧ s.cancelled = true := by
  simp only [execN, failureAt_toSess]
  exact C19.inflight_message_stored_and_acked k hk

/-- **pending POP3 deletions still apply on QUIT** after an accept-loop failure -/
theorem pop3_deletes_apply_after_accept_failure (k : Nat) (hk : k ≤ 4) :
    let s := execN pop3 C19.popStart (failureAt k 4)
    s.store = [8] ∧ s.threads.map (·.replies) = [[1, 1, 1, 1]] := by
  simp only [execN, failureAt_toSess]
  exact C19.pop3_deletes_apply_on_quit k hk

example : (execN smtp (C19.smtpStart false false) (failureAt 6 9)).store = [[1, 2, 3]] := by decide

end DataThms

/-! ## (b) every exit of a session goroutine counts down -/
section BalanceThms
open Balance

/-- **every exit counts down.**  For every statement skeleton that passes the structural check `covers` (the
    `defer` calling `Done` is registered before the first point at which the goroutine can leave, and after its
    own `Add` no exit precedes the matching `defer`), for EVERY exit taken — the n-th early one or the end of
    the function, of any kind that leaves the process alive — the `Done`s executed are exactly the acceptor's
    `Add` plus the goroutine's own `Add`s. -/
theorem every_exit_counts_down (owed : Nat) (p : List Stmt) (a d : Nat) (hc : covers owed p a d = true)
    (n : Nat) (fin : Exit) (hl : (run p n fin a d).exit ≠ .panic) :
    (run p n fin a d).dones = owed + (run p n fin a d).adds := by
  induction p generalizing n a d with
  | nil => simpa [covers, run] using hc
  | cons st r ih =>
    cases st with
    | add => exact ih (a + 1) d (by simpa [covers] using hc) n (by simpa [run] using hl)
    | deferDone => exact ih a (d + 1) (by simpa [covers] using hc) n (by simpa [run] using hl)
    | ret e =>
      simp only [covers, Bool.and_eq_true, Bool.or_eq_true, beq_iff_eq] at hc
      cases n with
      | zero =>
        simp only [run] at hl ⊢
        rcases hc.1 with h1 | h1
        · exact absurd h1 hl
        · exact h1
      | succ m => exact ih a d hc.2 m (by simpa [run] using hl)

/-- … so a finished session leaves nothing in the counter -/
theorem covered_session_leaves_nothing (c : Cfg) (hc : covers c.owed c.prog 0 0 = true) (n : Nat) (fin : Exit)
    (hl : (run c.prog n fin 0 0).exit ≠ .panic) : c.left n fin = 0 := by
  have := every_exit_counts_down c.owed c.prog 0 0 hc n fin hl
  unfold Cfg.left
  simp only
  omega

/-- the counter is: the accept loop, the acceptor's `Add` of every running session, and what finished
    sessions left behind -/
private theorem balance_inv (c : Cfg) {s : St} (h : Reach c s) :
    s.wg = (if s.accExited then 0 else 1) + (if c.accAdds then (s.running : Int) else 0) + s.leaked
    ∧ (s.accExited = true → s.closed = true) := by
  unfold Reach at h
  generalize hi : init = i at h
  induction h with
  | refl => subst hi; cases c.accAdds <;> simp [init]
  | @step t u _ st ih =>
    obtain ⟨h1, h2⟩ := ih
    have ho : (c.owed : Int) = if c.accAdds then 1 else 0 := by unfold Cfg.owed; cases c.accAdds <;> rfl
    cases st with
    | sessEnd n fin hd hr hl =>
      refine ⟨?_, h2⟩
      show t.wg - c.owed + c.left n fin = _
      simp only []
      rw [h1, ho]
      cases c.accAdds <;> simp <;> omega
    | accept hd ha hc =>
      refine ⟨?_, by simpa using h2⟩
      show t.wg + c.owed = _
      rw [h1, ho]
      cases c.accAdds <;> simp <;> omega
    | acceptFail hd ha hc =>
      refine ⟨?_, fun _ => hc⟩
      show t.wg - 1 = _
      rw [h1]
      simp [ha]
      omega
    | cancel hd => exact ⟨h1, h2⟩
    | closeL hd hc => exact ⟨h1, fun _ => rfl⟩
    | sessPanic n fin hd hr hl => exact ⟨h1, h2⟩
    | drain hd hz => exact ⟨h1, h2⟩

private theorem leaked_zero (c : Cfg) (hc : covers c.owed c.prog 0 0 = true) {s : St} (h : Reach c s) :
    s.leaked = 0 := by
  unfold Reach at h
  generalize hi : init = i at h
  induction h with
  | refl => subst hi; rfl
  | step _ st ih =>
    cases st
    case sessEnd n fin hd hr hl => simp [ih, covered_session_leaves_nothing c hc n fin hl]
    all_goals simp_all

/-- **Drain is enabled however the sessions ended** (skeleton passing `covers`).  On every schedule, with any
    number of sessions each ending at ANY of its exits — failed ForceTLS handshakes, plain-text clients on a
    TLS port, timeouts, resets —: as soon as no session is running and the accept loop has returned, the
    counter is zero and `Drain()` returns. -/
theorem drain_enabled_however_sessions_end (c : Cfg) (hc : covers c.owed c.prog 0 0 = true) {s : St}
    (h : Reach c s) (hr : s.running = 0) (ha : s.accExited = true) (hd : s.died = false) :
    s.wg = 0 ∧ ∃ s', Step c s s' ∧ s'.drained = true := by
  have h1 := (balance_inv c h).1
  have h2 := leaked_zero c hc h
  have hz : s.wg = 0 := by rw [h1, h2, hr, ha]; cases c.accAdds <;> simp
  exact ⟨hz, _, Step.drain s hd hz, rfl⟩

/-- … and only then (acceptor's `Add` before `go`): counter zero ⇒ nothing running, accept loop gone -/
theorem drain_only_after_balanced (c : Cfg) (hc : covers c.owed c.prog 0 0 = true) (hacc : c.accAdds = true)
    {s : St} (h : Reach c s) (hz : s.wg = 0) : s.running = 0 ∧ s.accExited = true ∧ s.closed = true := by
  have h1 := (balance_inv c h).1
  have h2 := leaked_zero c hc h
  have h3 := (balance_inv c h).2
  rw [hz, h2, hacc] at h1
  cases ha : s.accExited
  · simp [ha] at h1; omega
  · simp [ha] at h1 h3; exact ⟨by omega, rfl, h3⟩

/-- the present sources pass the check (the same is decided on the regenerated skeletons in `Tie.Notify`) -/
theorem pop3_now_covers : covers 1 pop3Now 0 0 = true := by decide
theorem smtp_now_covers : covers 1 smtpNow 0 0 = true := by decide

/-- non-vacuity: a POP3 ForceTLS handshake that fails, a reset and a QUIT all leave the counter balanced -/
example : (Cfg.mk true pop3Now).left 0 .normal = 0 ∧ (Cfg.mk true pop3Now).left 2 .normal = 0
    ∧ (Cfg.mk true pop3Now).left 9 .normal = 0 ∧ (Cfg.mk true smtpNow).left 0 .normal = 0 := by decide

/-- non-vacuity of `drain_enabled_however_sessions_end`: two sessions, one ends by a failed handshake, one by
    QUIT; cancel, close, the accept loop returns — the counter is zero -/
example : ∃ s, Reach ⟨true, pop3Now⟩ s ∧ s.ended = 2 ∧ s.running = 0 ∧ s.accExited = true ∧ s.wg = 0 := by
  have r0 : Reach ⟨true, pop3Now⟩ init := Path.refl _
  have r1 := Path.step r0 (Step.accept _ rfl rfl rfl)
  have r2 := Path.step r1 (Step.accept _ rfl rfl rfl)
  have r3 := Path.step r2 (Step.sessEnd _ 0 .normal rfl (by decide) (by decide))
  have r4 := Path.step r3 (Step.sessEnd _ 9 .normal rfl (by decide) (by decide))
  have r5 := Path.step r4 (Step.cancel _ rfl)
  have r6 := Path.step r5 (Step.closeL _ rfl rfl)
  have r7 := Path.step r6 (Step.acceptFail _ rfl rfl rfl)
  exact ⟨_, r7, rfl, rfl, rfl, by decide⟩

/-- the skeleton with the early `return` above the `defer` does NOT pass … -/
theorem early_return_not_covered : covers 1 pop3EarlyReturn 0 0 = false := by decide

/-- … because a session leaving there keeps the acceptor's count -/
theorem early_return_leaks_one : (Cfg.mk true pop3EarlyReturn).left 0 .normal = 1 := by decide

private def leaky : Cfg := ⟨true, pop3EarlyReturn⟩

private theorem stuck_step {s s' : St} (st : Step leaky s s')
    (h : s.accExited = true ∧ s.running = 0 ∧ s.wg = 1 ∧ s.drained = false) :
    s'.accExited = true ∧ s'.running = 0 ∧ s'.wg = 1 ∧ s'.drained = false := by
  obtain ⟨h1, h2, h3, h4⟩ := h
  cases st <;> simp_all

/-- **counter-witness: one failed handshake and Drain never returns.**  With the early `return` above the
    `defer`: a client whose handshake fails, then a normal session that ends with QUIT, then cancel, listener
    close, the accept loop returns.  No session is running, the accept loop is gone — and on EVERY continuation
    the counter stays at 1: `Drain()` is never enabled. -/
theorem failed_handshake_blocks_drain_forever :
    ∃ s, Reach leaky s ∧ s.running = 0 ∧ s.ended = 2 ∧ s.accExited = true ∧ s.died = false
      ∧ ∀ s', Path leaky s s' → s'.wg = 1 ∧ s'.drained = false ∧ s'.running = 0 := by
  have r0 : Reach leaky init := Path.refl _
  have r1 := Path.step r0 (Step.accept _ rfl rfl rfl)
  have r2 := Path.step r1 (Step.sessEnd _ 0 .normal rfl (by decide) (by decide))
  have r3 := Path.step r2 (Step.accept _ rfl rfl rfl)
  have r4 := Path.step r3 (Step.sessEnd _ 9 .normal rfl (by decide) (by decide))
  have r5 := Path.step r4 (Step.cancel _ rfl)
  have r6 := Path.step r5 (Step.closeL _ rfl rfl)
  have r7 := Path.step r6 (Step.acceptFail _ rfl rfl rfl)
  refine ⟨_, r7, rfl, rfl, rfl, rfl, ?_⟩
  intro s' p
  suffices s'.accExited = true ∧ s'.running = 0 ∧ s'.wg = 1 ∧ s'.drained = false from ⟨this.2.2.1, this.2.2.2, this.2.1⟩
  induction p with
  | refl => exact ⟨rfl, rfl, by decide, rfl⟩
  | step _ st ih => exact stuck_step st ih

end BalanceThms

end Ibx.Props.C19Accept
