import Ibx.Props.C03
import Ibx.Lemmas.SmtpStore
/-
  C01 — accepted mail is stored exactly once per accepted recipient, and only then.
  Session / Deliver part, folded into `Spec.Store` (the back-ends refine `Spec.Store`: C07).
  Header extraction (`Env.hdr`, enmime) and mailbox naming (`Addr.extractMailbox`, C04) are what they are:
  the theorems say the copies go to `r.mailbox = extractMailbox naming r.addr` with the metadata `hdr` returned.
-/
namespace Ibx.Props.C01
open Ibx Ibx.Bytes Ibx.Model Ibx.Model.Smtp Ibx.Spec
open Ibx.Lemmas.Smtp Ibx.Lemmas.SmtpLoop Ibx.Lemmas.SmtpIO Ibx.Lemmas.SmtpEx Ibx.Lemmas.SmtpStore

/-! ### what is stored -/

/-- a command line never stores anything: copies are made by the data phase only -/
theorem stored_only_by_data (e : Env) (s : Sess) (line : Bytes) (acc : List Ev) :
    storedOf (handleLine e s line acc).2 = storedOf acc :=
  Ibx.Props.C03.partial_line_stores_nothing e s line acc

/-- the recipients of the envelope whose domain is eligible for storage, in acceptance order, duplicates kept -/
def storable (e : Env) (s : Sess) : List Addr.Recipient :=
  s.rcpts.filter (fun r => Policy.shouldStore e.pol r.domain)

/-- the metadata every copy of one message carries: sender / recipients from the headers if they parse, else from
    the envelope; the subject -/
def metaOf (s : Sess) (h : HdrInfo) : Store.Meta :=
  { sender := h.sender.getD (match s.sender with | some o => o.addr | none => []),
    rcpts := h.rcpts.getD (s.rcpts.map (·.addr)), subject := h.subject, date := 0 }

/-- the copy made for recipient `r` -/
def copyFor (e : Env) (s : Sess) (h : HdrInfo) (block : Bytes) (r : Addr.Recipient) : Stored :=
  { mailbox := r.mailbox, hdr := metaOf s h, source := traceHeaders e s r.mailbox ++ block }

/-- EXACTLY: without a redirecting extension, with a working store, parsable headers and a block within the
    limit, the data phase appends one stored copy per accepted storable recipient — in order, with multiplicity,
    in the mailbox the recipient's address names — followed by the 250, and nothing else -/
theorem handleData_exact (e : Env) (s : Sess) (block : Bytes) (acc : List Ev) (h : HdrInfo)
    (hhook : e.hookStored (inbound s h) = none) (hstore : ∀ mb, e.storeFails mb = false)
    (hh : e.hdr block = some h) (hsz : (block.length : Int) ≤ e.maxBytes) :
    (handleData e s block acc).2 =
      .reply [250] :: (((storable e s).map (fun r => Ev.stored (copyFor e s h block r))).reverse ++ acc) := by
  have hfin : finalInbound e s h =
      { inbound s h with mailboxes := (storable e s).map (·.mailbox) } := by
    simp [finalInbound, hhook, storable]
  unfold handleData
  rw [if_neg (by omega), deliver_hdr_some _ _ _ _ h hh,
    storeLoop_all_ok _ _ _ _ _ _ _ (fun mb _ => hstore mb), hfin]
  simp [say, storedEv, copyFor, metaOf, inbound, List.map_map, Function.comp_def]
  intro _ _; rfl

/-- the mailbox of a recipient is `extractMailbox` of the address as the client wrote it (between the
    brackets) — naming itself is C04 -/
theorem mailbox_is_named_by_address (e : Env) (arg addr : Bytes) (r : Addr.Recipient)
    (h : rcptSyntax e arg = some (addr, r)) :
    Addr.extractMailbox e.ip e.naming addr = some r.mailbox ∧ r.addr = addr := by
  unfold rcptSyntax at h
  split at h
  · simp at h
  · split at h
    · simp at h
    · rename_i r' hr
      simp only [Option.some.injEq, Prod.mk.injEq] at h
      obtain ⟨rfl, rfl⟩ := h
      unfold Addr.newRecipient at hr
      split at hr
      · simp at hr
      · split at hr
        · simp at hr
        · simp only [Option.some.injEq] at hr
          subst hr
          exact ⟨by assumption, rfl⟩

/-! ### folded into the store -/

private theorem storedOf_map_stored {α : Type} (f : α → Stored) (l : List α) :
    storedOf (l.map (fun r => Ev.stored (f r))) = l.map f := by
  induction l with
  | nil => rfl
  | cons r rs ih => simp [ih]

private theorem filter_view {α : Type} (mbx : α → Bytes) (m : Store.Meta) (f : α → Bytes) (b : Bytes) (l : List α) :
    (((l.map (fun r => (mbx r, m, f r))).filter (fun x => x.1 == b)).map (fun x => (x.2.1, false, x.2.2))) =
      (l.filter (fun r => mbx r == b)).map (fun r => (m, false, f r)) := by
  induction l with
  | nil => rfl
  | cons r rs ih =>
    simp only [List.map_cons, List.filter_cons]
    by_cases hb : (mbx r == b) = true
    · simp only [hb, if_true, List.map_cons, ih]
    · simp [hb, ih]

/-- the store after the AddMessage calls recorded in `evs` (oldest first) -/
def applyStored (c : Store.Cfg) (st : Store.Store) (evs : List Ev) : Store.Store :=
  addAll c st ((storedOf evs).map (fun x => (x.mailbox, x.hdr, x.source)))

/-- the store after an acknowledged transaction is the store before with one `add` per accepted storable
    recipient folded in, in order — the equation leaves no room for an extra, missing or misrouted copy -/
theorem store_after_exact (c : Store.Cfg) (st : Store.Store) (e : Env) (s : Sess) (block : Bytes) (h : HdrInfo)
    (hhook : e.hookStored (inbound s h) = none) (hstore : ∀ mb, e.storeFails mb = false)
    (hh : e.hdr block = some h) (hsz : (block.length : Int) ≤ e.maxBytes) :
    applyStored c st (handleData e s block []).2.reverse =
      ((storable e s).map (copyFor e s h block)).foldl
        (fun st x => (Store.step c st (.add x.mailbox x.hdr x.source)).1) st := by
  rw [handleData_exact e s block [] h hhook hstore hh hsz]
  simp only [applyStored, addAll, List.append_nil, List.reverse_cons, List.reverse_reverse, storedOf_append,
    storedOf_reply, storedOf_nil, List.append_nil]
  rw [storedOf_map_stored, List.foldl_map]

/-- each mailbox gains exactly the copies of the accepted storable recipients it names — one per acceptance,
    duplicates counted — carrying that message's sender, recipients, subject and source (hence size), unseen;
    its older messages are untouched (no cap, no byte limit: nothing is evicted) -/
theorem each_recipient_one_copy (st : Store.Store) (e : Env) (s : Sess) (block : Bytes) (h : HdrInfo)
    (hhook : e.hookStored (inbound s h) = none) (hstore : ∀ mb, e.storeFails mb = false)
    (hh : e.hdr block = some h) (hsz : (block.length : Int) ≤ e.maxBytes) (b : Bytes) :
    (Store.listing (applyStored ⟨0, 0⟩ st (handleData e s block []).2.reverse) b).map view =
      (Store.listing st b).map view ++
        ((storable e s).filter (fun r => r.mailbox == b)).map
          (fun r => (metaOf s h, false, traceHeaders e s r.mailbox ++ block)) := by
  rw [applyStored, addAll_noEvict_listing, handleData_exact e s block [] h hhook hstore hh hsz]
  congr 1
  simp only [List.append_nil, List.reverse_cons, List.reverse_reverse, storedOf_append,
    storedOf_reply, storedOf_nil]
  rw [storedOf_map_stored, List.map_map]
  exact filter_view (fun r => r.mailbox) (metaOf s h) (fun r => traceHeaders e s r.mailbox ++ block) b (storable e s)

/-- no other mailbox changes — for every mailbox cap (an add evicts only from its own mailbox), without a store
    byte limit -/
theorem other_mailboxes_unchanged (c : Store.Cfg) (hl : c.limit = 0) (st : Store.Store) (e : Env) (s : Sess)
    (block : Bytes) (h : HdrInfo)
    (hhook : e.hookStored (inbound s h) = none) (hstore : ∀ mb, e.storeFails mb = false)
    (hh : e.hdr block = some h) (hsz : (block.length : Int) ≤ e.maxBytes) (b' : Bytes)
    (hb : ∀ r ∈ storable e s, r.mailbox ≠ b') :
    Store.listing (applyStored c st (handleData e s block []).2.reverse) b' = Store.listing st b' := by
  rw [applyStored]
  apply addAll_other_box c hl
  intro x hx
  rw [handleData_exact e s block [] h hhook hstore hh hsz] at hx
  simp only [List.append_nil, List.reverse_cons, List.reverse_reverse, storedOf_append,
    storedOf_reply, storedOf_nil, List.mem_map, mem_storedOf] at hx
  obtain ⟨y, hy, rfl⟩ := hx
  obtain ⟨r, hr, hry⟩ := hy
  simp only [Ev.stored.injEq] at hry
  subst hry
  exact hb r hr

/-- non-vacuity: two recipients (one twice, one in a discard domain): the twice-accepted one gets two copies -/
def exRcptW : Addr.Recipient :=
  { addr := ofAscii "w@nostore.org", localPart := ofAscii "w", domain := ofAscii "nostore.org", mailbox := ofAscii "w" }

def exMail3 : Sess := { exMail with rcpts := [exRcpt, exRcptW, exRcpt] }

example : (storedOf (handleData exEnv exMail3 (ofAscii "hi\n") []).2).map (·.mailbox) = [ofAscii "u", ofAscii "u"] := by
  decide
example : exEnv.hookStored (inbound exMail3 ⟨none, none, ofAscii "s"⟩) = none ∧ (∀ mb, exEnv.storeFails mb = false) ∧
    exEnv.hdr (ofAscii "hi\n") = some ⟨none, none, ofAscii "s"⟩ ∧ ((ofAscii "hi\n").length : Int) ≤ exEnv.maxBytes := by
  refine ⟨rfl, fun _ => rfl, rfl, by decide⟩

/-! ### what is not stored -/

/-- a block over the limit is answered 552 and adds nothing -/
theorem refused_oversize_stores_nothing (e : Env) (s : Sess) (block : Bytes) (acc : List Ev)
    (h : (block.length : Int) > e.maxBytes) :
    (handleData e s block acc).2 = .reply [552] :: acc := by
  simp [handleData, h, say]

/-- a block whose headers do not parse is answered 451 and adds nothing -/
theorem refused_badheader_stores_nothing (e : Env) (s : Sess) (block : Bytes) (acc : List Ev)
    (hsz : (block.length : Int) ≤ e.maxBytes) (hh : e.hdr block = none) :
    (handleData e s block acc).2 = .reply [451] :: .deliverFailed :: acc := by
  unfold handleData
  rw [if_neg (by omega), deliver_hdr_none _ _ _ _ hh]
  simp [say]

/-- a data phase cut before its terminator adds nothing and ends the connection -/
theorem refused_cut_stores_nothing (e : Env) (fuel : Nat) (s : Sess) (inp : Bytes) (acc : List Ev)
    (h3 : s.st = .data) (hd : Dot.dotDecode inp = none) :
    storedOf (loop e fuel s inp acc).1 = storedOf acc.reverse := by
  rw [loop_stored e fuel s [] inp acc, phases_data_cut _ _ _ _ _ hd h3]
  simp

/-- the stored copies of a connection are those of its completed data phases and nothing else: a transaction
    that is reset (RSET, EHLO), refused, or unfinished at EOF contributes no copy -/
theorem refused_stores_nothing (e : Env) (b : Option Nat) (w : Bytes) :
    storedOf (run e b w).1 = (runPhases e b w).flatMap (fun ph => storedOf ph.evs) ∧
    (runPhases e b w = [] → storedOf (run e b w).1 = []) := by
  refine ⟨run_stored e b w, fun h => ?_⟩
  rw [run_stored, h]; rfl

example : storedOf (run exEnv none (ofAscii "HELO a\r\nMAIL FROM:<>\r\nRCPT TO:<u@x.org>\r\nRSET\r\nDATA\r\n.\r\n")).1 = [] := by
  decide

/-- outside the property's quantifier (a failing store): Deliver stops at the first mailbox whose AddMessage
    fails; the copies made before it REMAIN although the transaction is answered 451 -/
theorem deliver_partial_on_store_failure (e : Env) (s : Sess) (block : Bytes) (acc : List Ev) (h : HdrInfo)
    (pre : List Bytes) (mb : Bytes) (post : List Bytes)
    (hh : e.hdr block = some h) (hsz : (block.length : Int) ≤ e.maxBytes)
    (hmbs : (finalInbound e s h).mailboxes = pre ++ mb :: post)
    (hpre : ∀ x ∈ pre, e.storeFails x = false) (hmb : e.storeFails mb = true) :
    (handleData e s block acc).2 =
      .reply [451] :: .deliverFailed ::
        ((pre.map (storedEv e s (finalInbound e s h) 0 block)).reverse ++ acc) := by
  unfold handleData
  rw [if_neg (by omega), deliver_hdr_some _ _ _ _ h hh, hmbs, storeLoop_fail _ _ _ _ _ _ _ _ _ hpre hmb]
  simp [say]

/-! ### the envelope is what was accepted since the last MAIL -/

private theorem ghostStep_other (e : Env) (g : List Addr.Recipient) (line : Bytes) (evs : List Ev)
    (h : evs ≠ [.reply [250]]) : ghostStep e g line evs = g := by
  unfold ghostStep
  split
  · rw [if_neg h]
  · rfl

private theorem ghostStep_cmd (e : Env) (g : List Addr.Recipient) (line name arg : Bytes)
    (hp : parseCmd line = .cmd name arg) :
    ghostStep e g line [.reply [250]] =
      if name = ofAscii "MAIL" then []
      else if name = ofAscii "RCPT" then
        match rcptSyntax e arg with
        | some (_, r) => g ++ [r]
        | none => g
      else g := by
  unfold ghostStep
  rw [hp]
  exact if_pos rfl

/-- the ghost invariant: in an open transaction the envelope IS the ghost list -/
def GhostInv (s : Sess) (g : List Addr.Recipient) : Prop :=
  Ibx.Props.C03.Inv s ∧ ((s.st = .mail ∨ s.st = .data) → s.rcpts = g)

private theorem ghost_step (e : Env) (s : Sess) (g : List Addr.Recipient) (line : Bytes) (s' : Sess) (evs : List Ev)
    (hi : GhostInv s g) (h : Step e s line s' evs) :
    (s'.st = .mail ∨ s'.st = .data) → s'.rcpts = ghostStep e g line evs := by
  obtain ⟨⟨i1, i2, i3, i4⟩, hg⟩ := hi
  cases h
  case login h => simp
  case password h => simp
  case plain c _ _ hc =>
    have : c ≠ 250 := by rintro rfl; simp at hc
    rw [ghostStep_other _ _ _ _ (by simp [this])]; simpa using hg
  case noop arg hp _ _ =>
    rw [ghostStep_cmd _ _ _ _ _ hp, if_neg (by decide), if_neg (by decide)]; simpa using hg
  case hook => rw [ghostStep_other _ _ _ _ (by simp)]; simpa using hg
  case rset =>
    by_cases hgr : s.st = .greet
    · simp [reset_st_greet s hgr]
    · simp [reset_st_of_ne s hgr]
  case quit => simp
  case helo => simp
  case ehlo => simp
  case starttls => simp
  case authLogin => simp
  case mailOrigin hs _ => simp [hs]
  case mailOk arg addr l d hp hs hsyn =>
    rw [ghostStep_cmd _ _ _ _ _ hp, if_pos rfl]
    intro _
    simpa using i1 (.inr (.inl hs))
  case rcptOk arg addr r hp hs hsyn hl =>
    rw [ghostStep_cmd _ _ _ _ _ hp, if_neg (by decide), if_pos rfl, hsyn]
    intro _
    simp [hg (.inl hs)]
  case data hp hs hr =>
    rw [ghostStep_other _ _ _ _ (by simp)]
    intro _
    simpa using hg (.inl hs)
  case stuck => rw [ghostStep_other _ _ _ _ (by simp)]; exact hg

/-- the ghost invariant holds in every state the loop passes through -/
theorem ghost_inv_reach (e : Env) (s : Sess) (g : List Addr.Recipient) (s' : Sess) (g' : List Addr.Recipient)
    (hi : GhostInv s g) (h : Reach e s g s' g') : GhostInv s' g' := by
  induction h with
  | refl => exact hi
  | line s1 g1 l _ _ _ _ ih =>
    exact ⟨Ibx.Props.C03.inv_handleLine e s1 l [] ih.1, ghost_step e s1 g1 l _ _ ih (handleLine_step e s1 l)⟩
  | data s1 g1 block _ _ h3 ih =>
    refine ⟨Ibx.Props.C03.inv_handleData e _ block [], ?_⟩
    have : (send s1 1).st ≠ .greet := by simp [h3]
    simp [reset_st_of_ne _ this]

/-- along any connection, at the moment `handleData` fires, the envelope is exactly the list of recipients whose
    RCPT was answered 250 since the last MAIL answered 250 (the ghost list is computed from the command lines and
    their replies alone, see `ghostStep`) — so a message is delivered only to recipients accepted in its own
    transaction -/
theorem envelope_is_accepted_since_mail (e : Env) (b : Option Nat) (w : Bytes) :
    ∀ ph ∈ runPhases e b w, ph.sess.rcpts = ph.ghost ∧ ph.sess.rcpts ≠ [] := by
  intro ph hph
  obtain ⟨s1, hr, hs1, _, hsess, _⟩ := phases_reach e _ _ _ _ ph hph
  have hi : GhostInv (start e b) [] := ⟨(Ibx.Props.C03.inv_init e b).2, by simp [start_st]⟩
  have := ghost_inv_reach e _ _ _ _ hi hr
  rw [hsess]
  exact ⟨this.2 (.inr hs1), this.1.2.2.2 hs1⟩

/-- the first transaction's recipient `v` (abandoned by RSET) is not in the delivered envelope -/
example : (runPhases exEnv none dlg2).map (fun ph => ph.ghost.map (·.mailbox)) = [[ofAscii "u"]] := by decide

end Ibx.Props.C01
