import Ibx.Model.Policy
import Ibx.Model.Addr
import Ibx.Lemmas.Glob
import Ibx.Lemmas.Addr
/-
  C05 — accept / reject / store decisions follow the configured domain policy exactly.
  Only property theorems, their non-vacuity examples and counter-witnesses live here.
-/
namespace Ibx.Props.C05
open Ibx Ibx.Bytes Ibx.Spec Ibx.Model Ibx.Model.Policy

/-! ### The documented rules (doc/config.md), over the *raw* environment lists -/

/-- "accept mail to any domain unless present in the reject list; if false, recipients will be
    rejected unless their domain is present in the accept list" — comparison ignoring case. -/
def AcceptRule (raw : Cfg) (d : Bytes) : Prop :=
  (raw.defaultAccept = true ∧ ¬ ∃ e ∈ raw.rejectDomains, lower e = lower d) ∨
  (raw.defaultAccept = false ∧ ∃ e ∈ raw.acceptDomains, lower e = lower d)

def StoreRule (raw : Cfg) (d : Bytes) : Prop :=
  (raw.defaultStore = true ∧ ¬ ∃ e ∈ raw.discardDomains, lower e = lower d) ∨
  (raw.defaultStore = false ∧ ∃ e ∈ raw.storeDomains, lower e = lower d)

/-- a sender is refused exactly when its domain matches a reject-origin pattern -/
def OriginRefused (raw : Cfg) (d : Bytes) : Prop :=
  ∃ p ∈ raw.rejectOrigin, glob (lower p) (lower d) = true

private theorem contains_map_lower (l : List Bytes) (d : Bytes) :
    (l.map lower).contains (lower d) = true ↔ ∃ e ∈ l, lower e = lower d := by
  simp [List.mem_map]

theorem accept_rule (raw : Cfg) (d : Bytes) :
    shouldAccept (process raw) d = true ↔ AcceptRule raw d := by
  unfold shouldAccept AcceptRule process
  have h1 := contains_map_lower raw.rejectDomains d
  have h2 := contains_map_lower raw.acceptDomains d
  cases hda : raw.defaultAccept <;>
    cases hc1 : (raw.rejectDomains.map lower).contains (lower d) <;>
    cases hc2 : (raw.acceptDomains.map lower).contains (lower d) <;>
    simp_all

theorem store_rule (raw : Cfg) (d : Bytes) :
    shouldStore (process raw) d = true ↔ StoreRule raw d := by
  unfold shouldStore StoreRule process
  have h1 := contains_map_lower raw.discardDomains d
  have h2 := contains_map_lower raw.storeDomains d
  cases hda : raw.defaultStore <;>
    cases hc1 : (raw.discardDomains.map lower).contains (lower d) <;>
    cases hc2 : (raw.storeDomains.map lower).contains (lower d) <;>
    simp_all

/-- the DP matcher is the textbook glob on every subject without a literal `*`
    (unbounded: any pattern, any subject, any length) -/
theorem wild_correct (p s : List Nat) (hs : ∀ x ∈ s, x ≠ star) :
    Wild.matchDP p s = glob p s := by
  unfold Wild.matchDP
  rw [Lemmas.Glob.row0_spec, Lemmas.Glob.foldl_spec p s [] hs]
  simpa using Lemmas.Glob.specRow_getLastD p s

/-- the guard of `wild_correct` is needed: the matcher is wrong on a subject containing `*` -/
theorem wild_wrong_on_star : Wild.matchDP [42] [97, 42] = false ∧ glob [42] [97, 42] = true := by
  constructor
  · decide
  · simp [glob, star]

/-- every non-bracketed domain `ValidateDomainPart` lets through satisfies that guard -/
theorem valid_domain_has_no_star (ip : Bytes → Bool) (d : Bytes)
    (hb : ¬ (d.length ≥ 4 ∧ d.head? = some 91 ∧ d.getLast? = some 93))
    (hv : Addr.validateDomainPart ip d = true) : ∀ x ∈ lower d, x ≠ star := by
  unfold Addr.validateDomainPart at hv
  simp only at hv
  split at hv
  · simp at hv
  · split at hv
    · simp at hv
    · split at hv
      · rename_i h; simp at h; exact absurd ⟨h.1.1, h.1.2, h.2⟩ hb
      · have hb := Lemmas.Addr.domLoop_bytes _ _ hv
        intro x hx
        simp only [lower, List.mem_map] at hx
        obtain ⟨c, hc, rfl⟩ := hx
        have hc' : Lemmas.Addr.isDomByte c = true := by
          apply hb; split <;> simp [hc]
        intro hstar
        simp [Lemmas.Addr.isDomByte, Addr.isDomAN, isAlphaB, isLowerB, isUpperB, isDigitB] at hc'
        simp [lowerB, star] at hstar
        split at hstar <;> omega

private theorem originLoop_false (d : Bytes) (ps : List Bytes) :
    originLoop d ps = false ↔ ∃ p ∈ ps, Wild.matchDP p d = true := by
  induction ps with
  | nil => simp [originLoop]
  | cons p ps ih =>
    unfold originLoop
    by_cases h : Wild.matchDP p d = true <;> simp [h, ih]

/-- a sender domain is refused exactly when it matches a reject-origin pattern (glob semantics),
    for every domain without a literal `*` (see `valid_domain_has_no_star`) -/
theorem origin_rule (raw : Cfg) (d : Bytes) (hs : ∀ x ∈ lower d, x ≠ star) :
    shouldAcceptOrigin (process raw) d = false ↔ OriginRefused raw d := by
  unfold shouldAcceptOrigin OriginRefused process
  simp only [originLoop_false, List.mem_map]
  constructor
  · rintro ⟨p, ⟨e, he, rfl⟩, hm⟩
    exact ⟨e, he, by rw [← wild_correct _ _ hs]; exact hm⟩
  · rintro ⟨e, he, hm⟩
    exact ⟨lower e, ⟨e, he, rfl⟩, by rw [wild_correct _ _ hs]; exact hm⟩

/-- decisions ignore letter case in the address … -/
theorem case_insensitive_address (c : Cfg) (d d' : Bytes) (h : lower d = lower d') :
    shouldAccept c d = shouldAccept c d' ∧ shouldStore c d = shouldStore c d' ∧
    shouldAcceptOrigin c d = shouldAcceptOrigin c d' := by
  simp [shouldAccept, shouldStore, shouldAcceptOrigin, h]

/-- … and in the configuration: two environments whose lists agree up to case are processed to
    the same configuration. -/
theorem case_insensitive_config (raw raw' : Cfg)
    (hda : raw.defaultAccept = raw'.defaultAccept) (hds : raw.defaultStore = raw'.defaultStore)
    (h1 : raw.acceptDomains.map lower = raw'.acceptDomains.map lower)
    (h2 : raw.rejectDomains.map lower = raw'.rejectDomains.map lower)
    (h3 : raw.storeDomains.map lower = raw'.storeDomains.map lower)
    (h4 : raw.discardDomains.map lower = raw'.discardDomains.map lower)
    (h5 : raw.rejectOrigin.map lower = raw'.rejectOrigin.map lower) :
    process raw = process raw' := by
  cases raw; cases raw'; simp_all [process]

/-! ### non-vacuity -/

def exCfg : Cfg :=
  { defaultAccept := true, acceptDomains := [], rejectDomains := [[69, 88, 46, 99]],
    defaultStore := true, storeDomains := [], discardDomains := [],
    rejectOrigin := [[42, 46, 67]] }

/-- "ex.C" is rejected by a reject list holding "EX.c" under default-accept -/
example : ¬ AcceptRule exCfg [101, 120, 46, 67] := by
  simp [AcceptRule, exCfg, lower, lowerB]

/-- "a.c" is refused as origin by the pattern "*.C" -/
example : OriginRefused exCfg [97, 46, 99] := by
  simp [OriginRefused, exCfg, lower, lowerB, glob, star, qm]

example : ∀ x ∈ lower [97, 46, 99], x ≠ star := by simp [lower, lowerB, star]

end Ibx.Props.C05
