import Ibx.Lemmas.SysGlue
import Ibx.Props.C04
import Ibx.Props.C06
import Ibx.Props.C07
import Ibx.Props.C07File
import Ibx.Props.C08
import Ibx.Props.C14
import Ibx.Props.C12
import Ibx.Props.C16
import Ibx.Props.C15
import Ibx.Props.C13
import Ibx.Props.C02
/-
  L2 composition ("Sys" layer of DESIGN.md §4.2): end-to-end statements that chain the per-component theorems.
  The system model is Ibx/Model/Sys.lean (one abstract store + the event log; one operation = one whole SMTP
  connection / POP3 session / REST request / retention scan / direct store call); the adapter lemmas are in
  Ibx/Lemmas/SysGlue.lean.  Every theorem here is a corollary of component theorems (named in its docstring).
-/
namespace Ibx.Props.Sys
open Ibx Ibx.Bytes Ibx.Spec.Store Ibx.Model
open Ibx.Lemmas.SpecStore Ibx.Lemmas.SysGlue Ibx.Lemmas.SmtpStore
open Ibx.Model.Sys (State SOp SysEv smtpEnv smtpAdds stampFrom addOf restEnv noDirectAdd)

/-! ### the running example: a two-transaction dialogue into a store with mailbox cap 2 -/

def exIds : Model.Sys.Ids := { str := fun n => [n], dec := fun b => match b with | [n] => some n | _ => none }

/-- local naming, no IP literals, SMTP limit 20 bytes, mailbox cap 2, no store byte limit -/
def exK : Model.Sys.Cfg :=
  { store := { cap := 2, limit := 0 }, naming := .localN, ip := fun _ => false, maxBytes := 20,
    contract := .strict, ids := exIds }

/-- first transaction to u and v, second to u alone -/
def exDlg : Bytes :=
  ofAscii "HELO a\r\nMAIL FROM:<>\r\nRCPT TO:<u@x.org>\r\nRCPT TO:<V@x.org>\r\nDATA\r\nhi\r\n.\r\nMAIL FROM:<>\r\nRCPT TO:<U+tag@x.org>\r\nDATA\r\nyo\r\n.\r\nQUIT\r\n"

def exConn : SOp := .smtp Lemmas.SmtpEx.exEnv none (fun n => 100 + n) exDlg
def exSt : State := Model.Sys.run exK Model.Sys.init [exConn]

def bU : Bytes := ofAscii "u"
def bV : Bytes := ofAscii "v"

set_option maxRecDepth 20000 in
/-- the example really delivers three copies: u/1, v/1 (first transaction), u/2 (second), dated by the clock -/
theorem exSt_log : exSt.log = [.stored bU 1, .stored bV 1, .stored bU 2] ∧
    exSt.store.msgs.map (fun m => (m.box, m.id, m.hdr.date)) = [(bU, 1, 100), (bV, 1, 101), (bU, 2, 102)] := by
  decide

theorem exEnv_clean : Clean (smtpEnv exK Lemmas.SmtpEx.exEnv) := ⟨fun _ => rfl, fun _ => rfl⟩

/-! ### every system history is a store history -/

/-- **sys_is_store_history** (Sys ⟶ Spec.Store).  Whatever mix of SMTP connections, POP3 sessions, REST requests,
    retention scans and direct calls: the system's store is the abstract store after the list of store calls those
    operations made (`callsH`), the `deleted` entries of the event log are exactly the events of those calls, in
    order, and the `stored` entries are exactly the (mailbox, id) pairs the deliveries among them answered.  So the
    system's store is `Reachable`, and every theorem of C07 / C08 / C16 about reachable stores applies to it. -/
theorem sys_is_store_history (k : Model.Sys.Cfg) (ops : List SOp) :
    (Model.Sys.run k Model.Sys.init ops).store = after k.store Spec.Store.empty (callsH k Model.Sys.init ops) ∧
    delOf (Model.Sys.run k Model.Sys.init ops).log = deleted k.store Spec.Store.empty (callsH k Model.Sys.init ops) ∧
    stoOf (Model.Sys.run k Model.Sys.init ops).log = addedH k.store Spec.Store.empty (callsH k Model.Sys.init ops) ∧
    Reachable k.store (Model.Sys.run k Model.Sys.init ops).store := by
  obtain ⟨h1, h2, h3⟩ := run_is_calls k Model.Sys.init ops
  exact ⟨h1, by simpa [Model.Sys.init] using h2, by simpa [Model.Sys.init] using h3, run_reachable k ops⟩

set_option maxRecDepth 20000 in
example : (callsH exK Model.Sys.init [exConn]).map
      (fun op => match op with | .add b h src => (b, h.rcpts, h.date, src.drop (src.length - 3)) | _ => ([], [], 0, [])) =
    [(bU, [ofAscii "u@x.org", ofAscii "V@x.org"], 100, ofAscii "hi\n"),
     (bV, [ofAscii "u@x.org", ofAscii "V@x.org"], 101, ofAscii "hi\n"),
     (bU, [ofAscii "U+tag@x.org"], 102, ofAscii "yo\n")] := by
  decide

/-- **backends_follow_sys** (Sys + C07 + C07File).  Replaying the store calls of any system history on the memory-store
    model and on the file-store model (the file store has no byte limit) gives states related to the system's store
    by the refinement relations, hence mailbox listings — ids, order, metadata, seen flags, content — literally
    equal to the system's, for every mailbox. -/
theorem backends_follow_sys (k : Model.Sys.Cfg) (ops : List SOp) :
    let st := Model.Sys.run k Model.Sys.init ops
    let m := (Lemmas.MemRefine.runMem k.store Model.Mem.empty (callsH k Model.Sys.init ops)).1
    let f := (Lemmas.FileRefine.frun k.store Model.FileStore.empty (callsH k Model.Sys.init ops)).1
    (Lemmas.MemRefine.R k.store m st.store ∧ ∀ b, (m.boxes b).msgs.map (Model.Mem.toMsg b) = listing st.store b) ∧
    (k.store.limit = 0 →
      Lemmas.FileRefine.RF f st.store ∧
      ∀ b, (Model.FileStore.readIndex f b).map (Model.FileStore.toMsg f b) = listing st.store b) := by
  intro st m f
  have hst : st.store = after k.store Spec.Store.empty (callsH k Model.Sys.init ops) := (run_is_calls k _ ops).1
  constructor
  · have h := (Ibx.Props.C07.mem_refines_run k.store (callsH k Model.Sys.init ops)).1
    rw [after_run, ← hst] at h
    exact ⟨h, fun b => (h.rb.box b).list⟩
  · intro hl
    have hk : ({ k.store with limit := 0 } : Cfg) = k.store := by
      cases hks : k.store; simp [hks] at hl; simp [hl]
    have h := (Ibx.Props.C07File.file_refines_run k.store (callsH k Model.Sys.init ops)).2
    rw [show Ibx.Props.C07File.noLimit k.store = k.store from hk, after_run, ← hst] at h
    exact ⟨h, h.view⟩

set_option maxRecDepth 20000 in
example : ((Lemmas.MemRefine.runMem exK.store Model.Mem.empty (callsH exK Model.Sys.init [exConn])).1.boxes bU).msgs.map (·.index)
    = [1, 2] := by decide

/-! ### 1. C01 on both back-ends -/

/-- **smtp_adds_exact** (C01 + C03, connection level).  Without a redirecting extension and with a working store, the
    AddMessage calls of a whole connection — any input bytes, any send budget — are exactly: for each completed data
    phase whose block is within the limit and whose headers parse, one call per accepted storable recipient of that
    phase's envelope, in order (`delivered`), the k-th carrying the clock reading `clock k`. -/
theorem smtp_adds_exact (k : Model.Sys.Cfg) (e : Smtp.Env) (hc : Clean (smtpEnv k e)) (budget : Option Nat)
    (clock : Nat → Int) (w : Bytes) :
    smtpAdds k e budget clock w = stampFrom clock 0 (delivered (smtpEnv k e) budget w) := by
  unfold smtpAdds
  rw [smtp_copies_exact _ hc]

set_option maxRecDepth 20000 in
example : (delivered (smtpEnv exK Lemmas.SmtpEx.exEnv) none exDlg).map (·.mailbox) = [bU, bV, bU] := by decide

/-- **C01_backends** (C01 ∘ C07 ∘ C07File ∘ C08).  One SMTP connection, run against a store in any state `st.store`
    that the memory-store model `m` and the file-store model `f` represent (relations `R`, `RF` of C07): afterwards, in
    the abstract store AND in both back-end models, every mailbox `box` shows — metadata, unseen flag, source — what it
    showed before followed by exactly the deliveries addressed to it (one per accepted storable recipient whose
    address names `box`, in order), cut to the last `cap` entries when a mailbox cap is set; a mailbox that is named
    by no delivery is literally unchanged.  (No store byte limit: the file store has none.) -/
theorem C01_backends (k : Model.Sys.Cfg) (hl : k.store.limit = 0) (e : Smtp.Env) (hc : Clean (smtpEnv k e))
    (budget : Option Nat) (clock : Nat → Int) (w : Bytes) (st : State) (m : Model.Mem.Mem) (f : Model.FileStore.FS)
    (hm : Lemmas.MemRefine.R k.store m st.store) (hf : Lemmas.FileRefine.RF f st.store) (box : Bytes)
    (hcap : k.store.cap = 0 ∨ (listing st.store box).length ≤ k.store.cap) :
    let st' := Model.Sys.step k st (.smtp e budget clock w)
    let adds := stampFrom clock 0 (delivered (smtpEnv k e) budget w)
    let shown := lastCap k.store.cap ((listing st.store box).map view ++
      (adds.filter (fun x => x.1 == box)).map (fun x => (x.2.1, false, x.2.2)))
    let m' := (Lemmas.MemRefine.runMem k.store m (adds.map addOf)).1
    let f' := (Lemmas.FileRefine.frun k.store f (adds.map addOf)).1
    (listing st'.store box).map view = shown ∧
    ((m'.boxes box).msgs.map (Model.Mem.toMsg box)).map view = shown ∧
    ((Model.FileStore.readIndex f' box).map (Model.FileStore.toMsg f' box)).map view = shown ∧
    ((∀ x ∈ adds, x.1 ≠ box) → listing st'.store box = listing st.store box) := by
  intro st' adds shown m' f'
  have hst' : st'.store = addAll k.store st.store adds := by
    show (Model.Sys.storeOps k.store st (Model.Sys.smtpCalls k e budget clock w)).store = _
    rw [storeOps_store, Model.Sys.smtpCalls, smtp_adds_exact k e hc, after_adds]
  have hspec : (listing st'.store box).map view = shown := by
    rw [hst']; exact addAll_cap_view k.store hl st.store adds box hcap
  have hk : ({ k.store with limit := 0 } : Cfg) = k.store := by
    cases hks : k.store; simp [hks] at hl; simp [hl]
  refine ⟨hspec, ?_, ?_, ?_⟩
  · have h := (Lemmas.MemRefine.refines_run k.store (adds.map addOf) m st.store hm).1
    rw [after_run, after_adds, ← hst'] at h
    rw [(h.rb.box box).list]; exact hspec
  · have h := (Lemmas.FileRefine.file_refines_run k.store (adds.map addOf) hf).2
    rw [hk, after_run, after_adds, ← hst'] at h
    rw [h.view box]; exact hspec
  · intro hno
    rw [hst']
    exact addAll_other_box k.store hl st.store adds box hno

/-- the hypotheses of `C01_backends` hold in every state a system history reaches, for the back-end states reached by
    replaying that history's store calls (with a cap, `cap_bound` of C08 gives the last one) -/
theorem C01_backends_hyps (k : Model.Sys.Cfg) (hl : k.store.limit = 0) (ops : List SOp) (box : Bytes) :
    let st := Model.Sys.run k Model.Sys.init ops
    Lemmas.MemRefine.R k.store (Lemmas.MemRefine.runMem k.store Model.Mem.empty (callsH k Model.Sys.init ops)).1 st.store ∧
    Lemmas.FileRefine.RF (Lemmas.FileRefine.frun k.store Model.FileStore.empty (callsH k Model.Sys.init ops)).1 st.store ∧
    (k.store.cap = 0 ∨ (listing st.store box).length ≤ k.store.cap) := by
  intro st
  obtain ⟨⟨h1, _⟩, h2⟩ := backends_follow_sys k ops
  refine ⟨h1, (h2 hl).1, ?_⟩
  rcases Nat.eq_zero_or_pos k.store.cap with h0 | hpos
  · exact .inl h0
  · exact .inr (Ibx.Props.C08.cap_bound k.store _ (run_reachable k ops) hpos box)

/-- the example: a second connection (same dialogue) into the state after the first — mailbox u (cap 2) held u/1, u/2
    and now shows the two NEW copies only; on the memory-store model the ids are 3 and 4 -/
example : Clean (smtpEnv exK Lemmas.SmtpEx.exEnv) ∧ exK.store.limit = 0 := ⟨exEnv_clean, rfl⟩
set_option maxRecDepth 40000 in
example : (listing (Model.Sys.step exK exSt exConn).store bU).map (fun x => (x.id, x.hdr.date)) = [(3, 100), (4, 102)] ∧
    (((Lemmas.MemRefine.runMem exK.store Model.Mem.empty (callsH exK Model.Sys.init [exConn, exConn])).1.boxes bU).msgs.map
      (·.index)) = [3, 4] := by decide

/-! ### 2. mail is fetchable by its address -/

open Ibx.Model.Addr Ibx.Lemmas.AddrCase Ibx.Lemmas.AddrName in
/-- the spellings under which a reader may ask for the mail sent to the accepted address `a`: the address itself, the
    canonical mailbox name, any accepted re-casing of `a`, and — for `a = l+e@d` with plain `l`, `e` — the accepted
    addresses `l+e'@d` (another extension) and `l@d` (none), provided `l@d` is an accepted address -/
inductive AsksFor (k : Model.Sys.Cfg) (a : Bytes) (r : Recipient) : Bytes → Prop
  | self : AsksFor k a r a
  | name : AsksFor k a r r.mailbox
  | recased (x : Bytes) (r' : Recipient) (hl : lower x = lower a) (hx : newRecipient k.ip k.naming x = some r') :
      AsksFor k a r x
  | otherExt (l e e' d : Bytes) (r0 rx : Recipient) (hlp : ∀ c ∈ l, isPlainB c = true) (hne : l ≠ [])
      (hep : ∀ c ∈ e, isPlainB c = true) (hep' : ∀ c ∈ e', isPlainB c = true) (ha : a = l ++ 43 :: e ++ 64 :: d)
      (h0 : newRecipient k.ip k.naming (l ++ 64 :: d) = some r0)
      (hx : newRecipient k.ip k.naming (l ++ 43 :: e' ++ 64 :: d) = some rx) : AsksFor k a r (l ++ 43 :: e' ++ 64 :: d)
  | noExt (l e d : Bytes) (r0 : Recipient) (hlp : ∀ c ∈ l, isPlainB c = true) (hne : l ≠ [])
      (hep : ∀ c ∈ e, isPlainB c = true) (ha : a = l ++ 43 :: e ++ 64 :: d)
      (h0 : newRecipient k.ip k.naming (l ++ 64 :: d) = some r0) : AsksFor k a r (l ++ 64 :: d)

open Ibx.Model.Addr Ibx.Lemmas.AddrCase Ibx.Lemmas.AddrName in
/-- **asks_resolve** (C04: name_by_address, name_fixed_point, name_case_insensitive, name_plus_insensitive).  Every such
    spelling is mapped by the read-side function `ExtractMailbox` to the mailbox fixed at RCPT time.  Inherited
    hypotheses on `net.ParseIP`: it ignores letter case, and accepts only strings over the IP alphabet. -/
theorem asks_resolve (k : Model.Sys.Cfg) (hip : IpCaseInsensitive k.ip) (halpha : IpAlphabet k.ip) (a : Bytes)
    (r : Recipient) (ha : newRecipient k.ip k.naming a = some r) (x : Bytes) (hx : AsksFor k a r x) :
    extractMailbox k.ip k.naming x = some r.mailbox := by
  cases hx with
  | self => exact Ibx.Props.C04.name_by_address _ _ _ _ ha
  | name => exact Ibx.Props.C04.name_fixed_point _ hip _ _ _ ha
  | recased x' r' hl hx' =>
    rw [Ibx.Props.C04.name_by_address _ _ _ _ hx',
      Ibx.Props.C04.name_case_insensitive _ halpha _ x a r' r hl hx' ha]
  | otherExt l e e' d r0 rx hlp hne hep hep' hae h0 hx' =>
    subst hae
    rw [Ibx.Props.C04.name_by_address _ _ _ _ hx',
      Ibx.Props.C04.name_plus_insensitive _ _ l e' d rx r0 hlp hne hep' hx' h0,
      Ibx.Props.C04.name_plus_insensitive _ _ l e d r r0 hlp hne hep ha h0]
  | noExt l e d r0 hlp hne hep hae h0 =>
    subst hae
    rw [Ibx.Props.C04.name_by_address _ _ _ _ h0,
      Ibx.Props.C04.name_plus_insensitive _ _ l e d r r0 hlp hne hep ha h0]

/-- `net.ParseIP` stand-in of the example configuration: no IP literals at all -/
theorem exK_ip : Lemmas.AddrCase.IpCaseInsensitive exK.ip ∧ Lemmas.AddrCase.IpAlphabet exK.ip :=
  ⟨fun _ => rfl, fun _ h => by simp [exK] at h⟩

def rcp (a l d mb : String) : Addr.Recipient :=
  { addr := ofAscii a, localPart := ofAscii l, domain := ofAscii d, mailbox := ofAscii mb }

/-- the four kinds of spelling, for the address `U+tag@x.org` of the example dialogue (mailbox `u`) -/
example : Addr.newRecipient exK.ip exK.naming (ofAscii "U+tag@x.org") = some (rcp "U+tag@x.org" "U+tag" "x.org" "u") ∧
    AsksFor exK (ofAscii "U+tag@x.org") (rcp "U+tag@x.org" "U+tag" "x.org" "u") (ofAscii "u+TAG@X.org") ∧
    AsksFor exK (ofAscii "U+tag@x.org") (rcp "U+tag@x.org" "U+tag" "x.org" "u") (ofAscii "U+other@x.org") ∧
    AsksFor exK (ofAscii "U+tag@x.org") (rcp "U+tag@x.org" "U+tag" "x.org" "u") (ofAscii "U@x.org") := by
  have h0 : Addr.newRecipient exK.ip exK.naming (ofAscii "U@x.org") = some (rcp "U@x.org" "U" "x.org" "u") := by decide
  refine ⟨by decide, ?_, ?_, ?_⟩
  · exact .recased _ (rcp "u+TAG@X.org" "u+TAG" "X.org" "u") (by decide) (by decide)
  · exact .otherExt (ofAscii "U") (ofAscii "tag") (ofAscii "other") (ofAscii "x.org") _
      (rcp "U+other@x.org" "U+other" "x.org" "u") (by decide) (by decide) (by decide) (by decide) (by decide) h0 (by decide)
  · exact .noExt (ofAscii "U") (ofAscii "tag") (ofAscii "x.org") _ (by decide) (by decide) (by decide) (by decide) h0

open Ibx.Model.Addr Ibx.Lemmas.AddrCase in
/-- **mail_is_fetchable** (C04 + C14, over any store).  For an accepted address `a` with mailbox `r.mailbox`: asked under
    any of the spellings above, the REST list handler answers exactly the listing of `r.mailbox`, and for every message
    of that listing the show and source handlers answer exactly that message / its source bytes; nothing changes.
    (Store contract "missing ⇒ ErrNotExist"; `Inv` holds in every reachable store.) -/
theorem mail_is_fetchable (k : Model.Sys.Cfg) (hk : k.contract = .strict) (hip : IpCaseInsensitive k.ip)
    (halpha : IpAlphabet k.ip) (s : Store) (hs : Inv s) (a : Bytes) (r : Recipient)
    (ha : newRecipient k.ip k.naming a = some r) (x : Bytes) (hx : AsksFor k a r x) :
    Rest.handle (restEnv k) .listV1 s { name := x } = (⟨.ok, .listing r.mailbox (listing s r.mailbox)⟩, s) ∧
    ∀ m ∈ listing s r.mailbox,
      Rest.handle (restEnv k) .showV1 s { name := x, id := .num m.id } = (⟨.ok, .message r.mailbox m⟩, s) ∧
      Rest.handle (restEnv k) .sourceV1 s { name := x, id := .num m.id } = (⟨.ok, .source m.source⟩, s) := by
  have hbox := asks_resolve k hip halpha a r ha x hx
  have c : Cfg := ⟨0, 0⟩
  constructor
  · rw [Ibx.Props.C14.rest_refines_spec (restEnv k) hk c .listV1 s { name := x } r.mailbox hbox (.list r.mailbox) rfl
      (by simp [Ibx.Props.C14.reachesStore])]
    rfl
  · intro m hm
    have hm' : m ∈ s.msgs ∧ m.box = r.mailbox := by
      simp only [listing, List.mem_filter, inBox, beq_iff_eq] at hm; exact hm
    have hget := step_get_live c s hs hm'.1
    rw [hm'.2] at hget
    constructor
    · rw [Ibx.Props.C14.rest_refines_spec (restEnv k) hk c .showV1 s { name := x, id := .num m.id } r.mailbox hbox
        (.get r.mailbox m.id) rfl (by simp [Ibx.Props.C14.reachesStore]), hget]
      rfl
    · rw [Ibx.Props.C14.rest_refines_spec (restEnv k) hk c .sourceV1 s { name := x, id := .num m.id } r.mailbox hbox
        (.get r.mailbox m.id) rfl (by simp [Ibx.Props.C14.reachesStore]), hget]
      rfl

open Ibx.Model.Addr Ibx.Lemmas.AddrCase Ibx.Model.Smtp Ibx.Lemmas.SmtpLoop in
/-- **smtp_mail_is_fetchable** (C01 + C03 + C04 + C14, end to end).  In any reachable system state, one more SMTP
    connection (no redirecting extension, working store; no eviction: cap and byte limit off): for every completed
    data phase `ph` of the connection whose block is within the limit and whose headers parse, and every storable
    recipient `r` of its envelope — `r` is `NewRecipient` of the address `r.addr` the client wrote — the mailbox
    `r.mailbox` afterwards holds an unseen message whose source is the trace headers followed by exactly that block
    and whose metadata are that phase's; and REST, asked under ANY spelling of `r.addr` above, lists it and returns it
    and its source. -/
theorem smtp_mail_is_fetchable (k : Model.Sys.Cfg) (hk : k.contract = .strict) (hip : IpCaseInsensitive k.ip)
    (halpha : IpAlphabet k.ip) (hcap : k.store.cap = 0) (hl : k.store.limit = 0) (ops : List SOp)
    (e : Smtp.Env) (hc : Clean (smtpEnv k e)) (budget : Option Nat) (clock : Nat → Int) (w : Bytes)
    (ph : Phase) (hph : ph ∈ runPhases (smtpEnv k e) budget w) (h : HdrInfo)
    (hsz : (ph.block.length : Int) ≤ k.maxBytes) (hh : (smtpEnv k e).hdr ph.block = some h)
    (r : Recipient) (hr : r ∈ Ibx.Props.C01.storable (smtpEnv k e) ph.sess) :
    let st' := Model.Sys.run k Model.Sys.init (ops ++ [.smtp e budget clock w])
    newRecipient k.ip k.naming r.addr = some r ∧
    ∃ m ∈ listing st'.store r.mailbox,
      m.source = traceHeaders (smtpEnv k e) ph.sess r.mailbox ++ ph.block ∧ m.seen = false ∧
      (∃ j, m.hdr = { Ibx.Props.C01.metaOf ph.sess h with date := clock j }) ∧
      ∀ x, AsksFor k r.addr r x →
        Rest.handle (restEnv k) .listV1 st'.store { name := x } =
          (⟨.ok, .listing r.mailbox (listing st'.store r.mailbox)⟩, st'.store) ∧
        Rest.handle (restEnv k) .showV1 st'.store { name := x, id := .num m.id } =
          (⟨.ok, .message r.mailbox m⟩, st'.store) ∧
        Rest.handle (restEnv k) .sourceV1 st'.store { name := x, id := .num m.id } =
          (⟨.ok, .source m.source⟩, st'.store) := by
  intro st'
  have hnr : newRecipient k.ip k.naming r.addr = some r :=
    phase_rcpts_ok (smtpEnv k e) budget w ph hph r (List.mem_filter.1 hr).1
  refine ⟨hnr, ?_⟩
  -- the copy is among the deliveries
  have hx : Ibx.Props.C01.copyFor (smtpEnv k e) ph.sess h ph.block r ∈ delivered (smtpEnv k e) budget w := by
    unfold delivered
    rw [List.mem_flatMap]
    refine ⟨ph, hph, ?_⟩
    unfold phaseCopies
    rw [if_neg (by show ¬ ((ph.block.length : Int) > k.maxBytes); omega), hh]
    exact List.mem_map_of_mem hr
  obtain ⟨j, hj⟩ := mem_stampFrom clock 0 _ _ hx
  -- C01 on the abstract store, no eviction
  let st := Model.Sys.run k Model.Sys.init ops
  have hst' : st' = Model.Sys.step k st (.smtp e budget clock w) := by
    show Model.Sys.run k _ (ops ++ [_]) = _
    rw [run_append]; rfl
  obtain ⟨hm, hf, hcb⟩ := C01_backends_hyps k hl ops r.mailbox
  have hview := (C01_backends k hl e hc budget clock w st _ _ hm hf r.mailbox hcb).1
  rw [← hst', hcap, lastCap_zero] at hview
  have hin : (({ Ibx.Props.C01.metaOf ph.sess h with date := clock j } : Meta), false,
      traceHeaders (smtpEnv k e) ph.sess r.mailbox ++ ph.block) ∈ (listing st'.store r.mailbox).map view := by
    rw [hview, List.mem_append]
    right
    rw [List.mem_map]
    exact ⟨_, List.mem_filter.2 ⟨hj, by simp [Ibx.Props.C01.copyFor]⟩, rfl⟩
  obtain ⟨m, hm1, hm2⟩ := List.mem_map.1 hin
  simp only [view, Prod.mk.injEq] at hm2
  have hinv : Inv st'.store := inv_reachable k.store _ (run_reachable k _)
  refine ⟨m, hm1, hm2.2.2, hm2.2.1, ⟨j, hm2.1⟩, ?_⟩
  intro x hx
  obtain ⟨g1, g2⟩ := mail_is_fetchable k hk hip halpha st'.store hinv r.addr r hnr x hx
  exact ⟨g1, (g2 m hm1).1, (g2 m hm1).2⟩

set_option maxRecDepth 40000 in
/-- the example: the second transaction's copy (to `U+tag@x.org`) is shown when REST is asked for `u+TAG@X.org` -/
example : (Rest.handle (restEnv exK) .sourceV1 exSt.store { name := ofAscii "u+TAG@X.org", id := .num 2 }).1 =
    ⟨.ok, .source (Smtp.traceHeaders (smtpEnv exK Lemmas.SmtpEx.exEnv) Lemmas.SmtpEx.exMail bU ++ ofAscii "yo\n")⟩ := by
  decide

/-! ### 6. size and cap, system-wide -/

open Ibx.Model.Smtp Ibx.Lemmas.SmtpLoop in
/-- **no_oversize_no_overfull** (C06 + C08 over whole system histories).  After ANY history of SMTP connections, POP3
    sessions, REST requests, retention scans and direct store calls other than `add` (every delivery comes through
    SMTP): no mailbox lists more than the cap, the stored bytes do not exceed the store limit, and every live message
    is the trace headers followed by a block that some completed data phase of some connection of the history decoded
    and that is within the SMTP size limit. -/
theorem no_oversize_no_overfull (k : Model.Sys.Cfg) (ops : List SOp) (hops : ∀ op ∈ ops, noDirectAdd op = true) :
    let st := Model.Sys.run k Model.Sys.init ops
    (k.store.cap > 0 → ∀ b, (listing st.store b).length ≤ k.store.cap) ∧
    (k.store.limit > 0 → total st.store.msgs ≤ k.store.limit) ∧
    ∀ m ∈ st.store.msgs, ∃ e budget clock w, SOp.smtp e budget clock w ∈ ops ∧
      ∃ ph ∈ runPhases (smtpEnv k e) budget w, (ph.block.length : Int) ≤ k.maxBytes ∧
        m.source = traceHeaders (smtpEnv k e) ph.sess m.box ++ ph.block := by
  intro st
  refine ⟨fun hc b => Ibx.Props.C08.cap_bound k.store _ (run_reachable k ops) hc b,
    fun hl => Ibx.Props.C08.size_bound k.store _ (run_reachable k ops) hl, ?_⟩
  intro m hm
  rcases run_src k Model.Sys.init ops hops m hm with ⟨m0, hm0, _⟩ | ⟨e, budget, clock, w, hmem, x, hx, e1, e2, _⟩
  · simp [Model.Sys.init, Spec.Store.empty] at hm0
  · refine ⟨e, budget, clock, w, hmem, ?_⟩
    obtain ⟨x0, hx0, j, rfl⟩ := stampFrom_mem clock 0 _ x hx
    rw [copies_eq] at hx0
    obtain ⟨ph, hph, _, hsz, hsrc⟩ := Ibx.Props.C06.oversize_never_stored (smtpEnv k e) budget w x0 hx0
    exact ⟨ph, hph, hsz, by rw [e2, e1]; exact hsrc⟩

/-- a history with a connection, a purge and another connection: the hypotheses hold, three messages are live -/
example : (∀ op ∈ [exConn, .rest .purgeV1 { name := bV }, exConn], noDirectAdd op = true) := by
  intro op h; simp only [List.mem_cons, List.not_mem_nil, or_false] at h
  rcases h with rfl | rfl | rfl <;> rfl
set_option maxRecDepth 40000 in
example : (Model.Sys.run exK Model.Sys.init [exConn, .rest .purgeV1 { name := bV }, exConn]).store.msgs.map
    (fun m => (m.box, m.id)) = [(bU, 3), (bV, 2), (bU, 4)] := by decide

/-! ### 4. retention after delivery -/

/-- **retention_after_delivery** (C12 scan_exact + C16 events_exact, on system states).  In any reachable system state,
    one retention scan leaves exactly the messages dated at or after the cutoff, in unchanged order, with the id counters
    untouched; the event log gains `deleted` events only — exactly one for each message dated before the cutoff (as a
    multiset: the scan goes mailbox by mailbox) and no other. -/
theorem retention_after_delivery (k : Model.Sys.Cfg) (ops : List SOp) (cutoff : Int) :
    let st := Model.Sys.run k Model.Sys.init ops
    let st' := Model.Sys.step k st (.scan cutoff)
    st'.store.msgs = st.store.msgs.filter (fun m => decide (m.hdr.date ≥ cutoff)) ∧
    st'.store.next = st.store.next ∧
    ∃ evs, st'.log = st.log ++ Model.Sys.delEvs evs ∧
      evs.Perm ((st.store.msgs.filter (fun m => decide (m.hdr.date < cutoff))).map evOf) := by
  intro st st'
  have hst : st.store = (Spec.Store.run k.store Spec.Store.empty (callsH k Model.Sys.init ops)).1 :=
    (run_is_calls k _ ops).1
  have hwf : Lemmas.Retention.WF st.store := by rw [hst]; exact Lemmas.Retention.reachable_wf _ _
  have hinv : Inv st.store := inv_reachable k.store _ (run_reachable k ops)
  obtain ⟨h1, h2⟩ := Ibx.Props.C12.scan_exact_store k.store cutoff st.store hwf
  refine ⟨h1, h2, (Model.Retention.doScan k.store cutoff st.store).2, rfl, ?_⟩
  -- event accounting: C16 on the scan's store calls
  have hc := doScan_is_calls k.store cutoff st.store
  have hev := events_history k.store st.store (scanCalls k.store cutoff st.store) hinv
  have hna : addedH k.store st.store (scanCalls k.store cutoff st.store) = [] := by
    have := (step_is_calls k st (.scan cutoff)).2.2
    simp only [Model.Sys.step, stoOf_append, stoOf_delEvs, List.append_nil] at this
    simpa [calls] using this
  rw [hna, List.append_nil] at hev
  have e1 : (after k.store st.store (scanCalls k.store cutoff st.store)).msgs =
      st.store.msgs.filter (fun m => decide (m.hdr.date ≥ cutoff)) := by
    rw [← h1, hc]
  have e2 : deleted k.store st.store (scanCalls k.store cutoff st.store) =
      (Model.Retention.doScan k.store cutoff st.store).2 := by rw [hc]
  rw [e1, e2] at hev
  have hsplit : (st.store.msgs.map evOf).Perm
      ((st.store.msgs.filter (fun m => decide (m.hdr.date ≥ cutoff))).map evOf ++
        (st.store.msgs.filter (fun m => decide (m.hdr.date < cutoff))).map evOf) := by
    rw [← List.map_append]
    apply List.Perm.map
    have : (fun m : Msg => decide (m.hdr.date < cutoff)) = (fun m => !decide (m.hdr.date ≥ cutoff)) := by
      funext m; by_cases h : m.hdr.date < cutoff
      · have : ¬ m.hdr.date ≥ cutoff := by omega
        simp [h, this]
      · have : m.hdr.date ≥ cutoff := by omega
        simp [h, this]
    rw [this]
    exact (List.filter_append_perm _ _).symm
  exact (List.perm_append_left_iff _).1 (hev.symm.trans hsplit)

open Ibx.Model.Smtp in
/-- **fresh_mail_survives_scan** (C01 + C12).  If every delivery of the history came through SMTP and every clock
    reading of those connections is at or after the cutoff, a retention scan removes nothing and announces nothing. -/
theorem fresh_mail_survives_scan (k : Model.Sys.Cfg) (ops : List SOp) (hops : ∀ op ∈ ops, noDirectAdd op = true)
    (cutoff : Int) (hclk : ∀ e budget clock w, SOp.smtp e budget clock w ∈ ops → ∀ j, cutoff ≤ clock j) :
    let st := Model.Sys.run k Model.Sys.init ops
    (Model.Sys.step k st (.scan cutoff)).store.msgs = st.store.msgs ∧
    (Model.Sys.step k st (.scan cutoff)).log = st.log := by
  intro st
  have hdate : ∀ m ∈ st.store.msgs, cutoff ≤ m.hdr.date := by
    intro m hm
    rcases run_src k Model.Sys.init ops hops m hm with ⟨m0, hm0, _⟩ | ⟨e, budget, clock, w, hmem, x, hx, _, _, e3⟩
    · simp [Model.Sys.init, Spec.Store.empty] at hm0
    · obtain ⟨x0, _, j, rfl⟩ := stampFrom_mem clock 0 _ x hx
      rw [e3]; exact hclk e budget clock w hmem j
  obtain ⟨h1, _, evs, h3, h4⟩ := retention_after_delivery k ops cutoff
  have hnone : st.store.msgs.filter (fun m => decide (m.hdr.date < cutoff)) = [] := by
    rw [List.filter_eq_nil_iff]
    intro m hm
    have := hdate m hm
    simp only [decide_eq_true_eq]; omega
  have hall : st.store.msgs.filter (fun m => decide (m.hdr.date ≥ cutoff)) = st.store.msgs := by
    rw [List.filter_eq_self]
    intro m hm
    have := hdate m hm
    simp only [decide_eq_true_eq]; omega
  rw [hnone] at h4
  have : evs = [] := by simpa using h4
  subst this
  exact ⟨h1.trans hall, by simpa [Model.Sys.delEvs] using h3⟩

set_option maxRecDepth 40000 in
/-- the example (clock readings 100, 101, 102): a scan with cutoff 100 keeps all, one with cutoff 102 removes u/1 and
    v/1 with one `deleted` event each -/
example : (Model.Sys.step exK exSt (.scan 100)).log = exSt.log ∧
    (Model.Sys.step exK exSt (.scan 102)).log = exSt.log ++ [.deleted bU 1, .deleted bV 1] ∧
    (Model.Sys.step exK exSt (.scan 102)).store.msgs.map (fun m => (m.box, m.id)) = [(bU, 2)] := by decide

/-! ### 5. the monitor sees stored and deleted -/

open Ibx.Spec.HubLog Ibx.Model.Hub Ibx.Lemmas.Hub in
/-- **monitor_sees_stored_and_deleted** (C16 + C07 ids_never_reused + C15 hub_delivers).  Feed the event log of any
    system history — `stored` events from the manager, `deleted` events from the store, in order of emission — to the
    hub (history length N ≥ 1).  Because no (mailbox, id) is ever stored twice, the hub's key-uniqueness premise holds,
    and a well-behaved listener attached after the history `pre` and kept during `post` has received exactly: the
    retained history at its attachment (the last N stored messages not deleted since) followed by every later stored /
    deleted event, filtered by its mailbox filter, each once, in order — and it is still registered.
    `enc` (mailbox name as hub key) must separate the mailbox names that occur. -/
theorem monitor_sees_stored_and_deleted (k : Model.Sys.Cfg) (pre post : List SOp) (enc : Bytes → Nat)
    (henc : ∀ e1 ∈ stoOf (Model.Sys.run k Model.Sys.init pre).log, ∀ e2 ∈ stoOf (Model.Sys.run k Model.Sys.init pre).log,
      enc e1.1 = enc e2.1 → e1.1 = e2.1)
    {N : Nat} (hN : 1 ≤ N) (L : Nat → Listener) (hnp : NoPanic L) (l : Nat) (hok : (L l).answer = fun _ => .ok)
    (hgot : (L l).got = []) :
    ∃ later, (Model.Sys.run k Model.Sys.init (pre ++ post)).log = (Model.Sys.run k Model.Sys.init pre).log ++ later ∧
      let feedPre := Model.Sys.hubFeed enc (Model.Sys.run k Model.Sys.init pre).log
      let feedPost := Model.Sys.hubFeed enc later
      UniqueKeys feedPre ∧
      ((Model.Hub.run (Model.Hub.init N L) (feedPre ++ .add l :: feedPost)).ls l).got =
        expected N feedPre feedPost (L l).accepts ∧
      l ∈ (Model.Hub.run (Model.Hub.init N L) (feedPre ++ .add l :: feedPost)).regs := by
  obtain ⟨later, hlater⟩ := run_log k (Model.Sys.run k Model.Sys.init pre) post
  rw [← Lemmas.SysGlue.run_append] at hlater
  refine ⟨later, hlater, ?_⟩
  intro feedPre feedPost
  have hu : UniqueKeys feedPre := uniqueKeys_hubFeed enc _ (stoOf_nodup k pre) henc
  have hfeed : ∀ (lg : List SysEv), ∀ op ∈ Model.Sys.hubFeed enc lg, op ≠ .add l ∧ op ≠ .remove l := by
    intro lg op hop
    simp only [Model.Sys.hubFeed, List.mem_map] at hop
    obtain ⟨ev, _, rfl⟩ := hop
    cases ev <;> simp [Model.Sys.hubOp]
  obtain ⟨h1, h2⟩ := Ibx.Props.C15.hub_delivers hN L hnp l hok hgot feedPre feedPost hu
    (fun op hop => (hfeed _ op hop).1) (fun op hop => hfeed _ op hop)
  exact ⟨hu, h1, h2⟩

open Ibx.Spec.HubLog in
/-- **deleted_before_join_not_in_history** (C15 history_is_last_N_minus_deleted on the system log).  A message whose
    `stored` event was emitted and whose `deleted` event was emitted LATER, both before the listener joins, is not in the
    history played to it.  The order of emission is an explicit hypothesis: it is what F-16c is about (Deliver emits
    `stored` only after AddMessage returned, so a delete that gets in between is announced first — see
    `self_evicted_is_announced_before_stored` below for a deterministic instance). -/
theorem deleted_before_join_not_in_history (enc : Bytes → Nat) (log l1 l2 : List SysEv) (b : Bytes) (i : Nat)
    (hlog : log = l1 ++ .stored b i :: l2) (hdel : SysEv.deleted b i ∈ l2)
    (hu : UniqueKeys (Model.Sys.hubFeed enc log)) (N : Nat) :
    ({ mailbox := enc b, id := i, tag := 0 } : Spec.HubLog.Msg) ∉ history N (Model.Sys.hubFeed enc log) := by
  intro hin
  obtain ⟨rest, hrest, hnodel⟩ := mem_history N _ _ hin
  have hfeed : Model.Sys.hubFeed enc log =
      Model.Sys.hubFeed enc l1 ++ .dispatch { mailbox := enc b, id := i, tag := 0 } :: Model.Sys.hubFeed enc l2 := by
    rw [hlog]; simp [Model.Sys.hubFeed, Model.Sys.hubOp]
  have hmid := entries_mid (Model.Sys.hubFeed enc l1) (Model.Sys.hubFeed enc l2) { mailbox := enc b, id := i, tag := 0 }
  rw [← hfeed] at hmid
  have heq := nodup_map_inj (fun e : Spec.HubLog.Msg × List Spec.HubLog.Op => (e.1.mailbox, e.1.id)) _ hu _ _ hrest hmid rfl
  have hr : rest = Model.Sys.hubFeed enc l2 := congrArg Prod.snd heq
  have hany : (Model.Sys.hubFeed enc l2).any (deletes { mailbox := enc b, id := i, tag := 0 }) = true := by
    rw [List.any_eq_true]
    exact ⟨.delete (enc b) i, by
      simp only [Model.Sys.hubFeed, List.mem_map]; exact ⟨_, hdel, rfl⟩, by simp [deletes]⟩
  rw [hr, hany] at hnodel
  cases hnodel

def exEnc (b : Bytes) : Nat := b.sum

set_option maxRecDepth 40000 in
/-- the example: after the two-transaction connection a scan with cutoff 102 deletes u/1 and v/1; a monitor that joins
    then is played u/2 only; the hypotheses of both theorems hold on this log -/
example : let log := (Model.Sys.run exK Model.Sys.init [exConn, .scan 102]).log
    log = [.stored bU 1, .stored bV 1, .stored bU 2, .deleted bU 1, .deleted bV 1] ∧
    Spec.HubLog.UniqueKeys (Model.Sys.hubFeed exEnc log) ∧
    Spec.HubLog.history 5 (Model.Sys.hubFeed exEnc log) = [⟨exEnc bU, 2, 0⟩] ∧
    (∀ e1 ∈ stoOf log, ∀ e2 ∈ stoOf log, exEnc e1.1 = exEnc e2.1 → e1.1 = e2.1) := by
  decide

set_option maxRecDepth 40000 in
/-- **self_evicted_is_announced_before_stored** (counter-witness to the emission order, sequential — no race needed).
    With a store byte limit smaller than one message (memory store: the size enforcer evicts "oldest first until the
    total fits", which ends with the new message itself), AddMessage emits `deleted (b, 1)` BEFORE it returns, and the
    manager emits `stored (b, 1)` afterwards: the store is empty, the delivery was answered 250, and the monitor history
    shows a message that does not exist. -/
theorem self_evicted_is_announced_before_stored :
    let k : Model.Sys.Cfg := { exK with store := { cap := 0, limit := 10 } }
    let st := Model.Sys.run k Model.Sys.init [exConn]
    st.store.msgs = [] ∧
    st.log = [.deleted bU 1, .stored bU 1, .deleted bV 1, .stored bV 1, .deleted bU 2, .stored bU 2] ∧
    Spec.HubLog.history 5 (Model.Sys.hubFeed exEnc st.log) = [⟨exEnc bU, 1, 0⟩, ⟨exEnc bV, 1, 0⟩, ⟨exEnc bU, 2, 0⟩] := by
  decide

/-! ### 3. POP3 sees what SMTP stored -/

open Ibx.Model.Pop3 in
/-- **pop3_login_lists_store** (C13 login_takes_snapshot on the system's store).  The login step of a session run
    against the store `s` takes as its snapshot exactly the listing of the mailbox named by the user string — ids are
    the store's ids in the back-end's id syntax, sizes are the source lengths (for SMTP-delivered mail: trace headers +
    data, `no_oversize_no_overfull`), sources are the stored sources — and announces its length.  (The user string is
    used as written: F-04d.) -/
theorem pop3_login_lists_store (k : Model.Sys.Cfg) (s : Store) {q : St} (hq : Ibx.Props.C13.Reach q)
    (ha : q.phase = .auth) {line : Bytes} {q' : St} {r : Reply} {rm : List Bytes}
    (hs : Pop3.step (Model.Sys.popView k.ids s) q line = .ok q' r rm) (ht : q'.phase = .trans) :
    q'.msgs = (listing s q'.user).map (Model.Sys.popMsg k.ids) ∧
    r = .okLogin ((listing s q'.user).length : Int) ∧ rm = [] := by
  obtain ⟨h1, _, h3, h4⟩ := Ibx.Props.C13.login_takes_snapshot hq ha hs ht
  exact ⟨h1, by simpa [Model.Sys.popView] using h3, h4⟩

open Ibx.Model.Pop3Send in
/-- **pop3_retr_round_trip** (C13 session model ∘ C02 pop3_round_trip).  What the session model's RETR reply puts on the
    wire after the status line — each reply line followed by CRLF, then the terminator — is decoded by an RFC 1939
    client to the stored source with CRLF line ends, whatever follows on the connection.  (Adapter: the session model's
    `scanLines` / `dotStuff` and the byte-level `Pop3Send` model are the same functions.) -/
theorem pop3_retr_round_trip (src rest : Bytes) :
    pop3ClientDecode (((Pop3.retrLines src).map (· ++ [13, 10])).flatten ++ [46, 13, 10] ++ rest) =
      some (crlf src, rest) := by
  rw [retr_wire]; exact Ibx.Props.C02.pop3_round_trip src rest

example : Pop3.retrLines (ofAscii ".a\nb") = [ofAscii "..a", ofAscii "b"] := by decide

open Ibx.Model.Pop3 Ibx.Lemmas.Pop3 in
/-- **pop3_sees_what_smtp_stored** (C13 quit_commits_exactly ∘ Spec.remove ∘ C16 events).  One whole POP3 session — any
    lines, any ending — against any reachable system state.  Either it removes nothing and the system is unchanged, or
    it ended by QUIT in a TRANSACTION state `sq` whose snapshot is exactly the store's listing of `sq.user` (store ids,
    source lengths, sources), and the messages marked there (`gone`, a sub-list of that listing) are exactly what
    leaves the store: the store afterwards is the store before minus those messages, every id counter is untouched,
    and the log gains exactly one `deleted` event for each of them, in snapshot order. -/
theorem pop3_sees_what_smtp_stored (k : Model.Sys.Cfg) (hids : ∀ n, k.ids.dec (k.ids.str n) = some n)
    (ops : List SOp) (term : Term) (lines : List (Bytes × Bool)) :
    let st := Model.Sys.run k Model.Sys.init ops
    let t := Model.Sys.popTrace k st.store term lines
    let st' := Model.Sys.step k st (.pop3 term lines)
    (t.removed = [] ∧ st' = st) ∨
    ∃ (sq : St) (gone : List Spec.Store.Msg), sq.phase = .trans ∧
      sq.msgs = (listing st.store sq.user).map (Model.Sys.popMsg k.ids) ∧
      t.final = { sq with phase := .quit } ∧ gone.Sublist (listing st.store sq.user) ∧
      t.removed = gone.map (fun m => k.ids.str m.id) ∧ t.removed = markedIds sq ∧
      st'.store.msgs = st.store.msgs.filter (fun m => !(m.box == sq.user && (gone.map (·.id)).contains m.id)) ∧
      st'.store.next = st.store.next ∧
      st'.log = st.log ++ Model.Sys.delEvs (gone.map evOf) := by
  intro st t st'
  have hinv : Inv st.store := inv_reachable k.store _ (run_reachable k ops)
  have hrun := run_const (Model.Sys.popView k.ids st.store) term St.init inv_init (by simp [St.init])
    (lines.map (fun l => { store := Model.Sys.popView k.ids st.store, line := l.1, sendOk := l.2 }))
    (by intro ev hev; simp only [List.mem_map] at hev; obtain ⟨_, _, rfl⟩ := hev; rfl)
  rcases hrun with h0 | ⟨sq, hsqi, hsqt, hsqm, hfin, hrem⟩
  · left
    have h0' : t.removed = [] := h0
    refine ⟨h0', ?_⟩
    show Model.Sys.storeOps k.store st (Model.Sys.popCalls k.ids t.final.user t.removed) = st
    rw [h0']; rfl
  · right
    have hfin' : t.final = { sq with phase := .quit } := hfin
    have hrem' : t.removed = markedIds sq := hrem
    obtain ⟨gone, hg, hmk⟩ := marked_of_listing k.ids (listing st.store sq.user) sq hsqi hsqm
    have huser : t.final.user = sq.user := by rw [hfin']
    have hcalls : Model.Sys.popCalls k.ids t.final.user t.removed = (gone.map (·.id)).map (Op.remove sq.user) := by
      rw [huser, hrem', hmk]
      simp [Model.Sys.popCalls, List.filterMap_map, Function.comp_def, hids]
    have hst' : st' = Model.Sys.storeOps k.store st ((gone.map (·.id)).map (Op.remove sq.user)) := by
      show Model.Sys.storeOps k.store st (Model.Sys.popCalls k.ids t.final.user t.removed) = _
      rw [hcalls]
    have hbox : ∀ m ∈ gone, m ∈ st.store.msgs ∧ m.box = sq.user := by
      intro m hm
      have := hg.subset hm
      simpa [listing, inBox] using this
    have hnodup : (gone.map (·.id)).Nodup := by
      have h1 := (Lemmas.MemRefine.listing_asc hinv sq.user).sublist (hg.map (·.id))
      rw [List.nodup_iff_pairwise_ne]
      exact h1.imp (fun h => Nat.ne_of_lt h)
    have hlive : ∀ i ∈ gone.map (·.id), st.store.msgs.any (isMsg sq.user i) = true := by
      intro i hi
      obtain ⟨m, hm, rfl⟩ := List.mem_map.1 hi
      rw [List.any_eq_true]
      exact ⟨m, (hbox m hm).1, by simp [isMsg, (hbox m hm).2]⟩
    have hev : (gone.map (·.id)).map (fun i => (sq.user, i)) = gone.map evOf := by
      rw [List.map_map]
      apply List.map_congr_left
      intro m hm
      simp [evOf, (hbox m hm).2]
    refine ⟨sq, gone, hsqt, hsqm, hfin', hg, by rw [hrem', hmk], hrem', ?_, ?_, ?_⟩
    · rw [hst', storeOps_store]; exact (after_removes k.store st.store sq.user _).1
    · rw [hst', storeOps_store]; exact (after_removes k.store st.store sq.user _).2
    · rw [hst', storeOps_log_nonadd _ _ _ (by
        intro op hop; simp only [List.mem_map] at hop; obtain ⟨_, _, rfl⟩ := hop; rfl),
        removes_events k.store st.store sq.user _ hnodup hlive, hev]

/-- "USER u", "PASS x", "DELE 1", "QUIT" against the state after the example connection: u/1 goes, one event -/
def exPopLines : List (Bytes × Bool) :=
  [(ofAscii "USER u\r\n", true), (ofAscii "PASS x\r\n", true), (ofAscii "UIDL\r\n", true),
   (ofAscii "DELE 1\r\n", true), (ofAscii "QUIT\r\n", true)]

example : ∀ n, exK.ids.dec (exK.ids.str n) = some n := fun _ => rfl

set_option maxRecDepth 40000 in
example : (Model.Sys.popTrace exK exSt.store .eof exPopLines).replies.drop 2 =
      [.okLogin 2, .okUidl 2 [(1, [1]), (2, [2])], .okDele 1, .ok] ∧
    (Model.Sys.step exK exSt (.pop3 .eof exPopLines)).log = exSt.log ++ [.deleted bU 1] ∧
    (Model.Sys.step exK exSt (.pop3 .eof exPopLines)).store.msgs.map (fun m => (m.box, m.id)) = [(bV, 1), (bU, 2)] := by
  decide

end Ibx.Props.Sys
