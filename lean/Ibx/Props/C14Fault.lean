import Ibx.Lemmas.RestFault
/-
  C14 under a FAILING store — "… a request for a message that does not exist is answered 404 and no request makes a
  handler panic or drop the connection", for every store, route, request and FAULT ORACLE (which of the store calls a
  handler makes succeeds, reports ErrNotExist, reports an error wrapping it, or fails otherwise; how many bytes a failing
  reader delivers first; whether the MIME parse succeeds).

      faultless_is_old_model            with no fault the new handlers ARE Model.Rest.handle (every C14 theorem carries over:
                                        rest_refines_spec_faultless, missing_is_404_faultless)
      handlers_total_under_faults       no fault makes a handler dereference nil
      failed_call_means_5xx_or_404      ok_needs_every_call + failing_call_is_error + notFound_iff + broken_mime_is_500
      no_call_after_a_failed_call       the calls stop at the first failure
      failed_request_changes_nothing    a non-200 answer, a read, a failed mutating call: the store is what it was
      no_partial_success                torn_iff (exactly the two source handlers stream, exactly when the reader fails after
                                        its first byte; the client then sees 200 + a prefix of the source + the error text) and
                                        error_answers_carry_nothing
      counter-witnesses                 ignored_fetch_error_panics, ignored_fetch_error_reports_missing,
                                        list_error_as_empty_list_is_200, source_handlers_stream (what the code does today),
                                        wrapped_notExist_is_500
-/
namespace Ibx.Props.C14Fault
open Ibx Ibx.Bytes Ibx.Spec.Store Ibx.Model.Addr Ibx.Model.Rest Ibx.Model.RestFault
open Ibx.Model.ClientUrl (Handler)
open Ibx.Props.C14 (Missing isFetch isRead reachesStore specOp respOf)
open Ibx.Lemmas.RestFault

/-! ## vocabulary -/

def allOk (F : Faults) : Prop := ∀ c, F.f c = .ok

/-! ## faultless_is_old_model -/

/-- **faultless_is_old_model.**  When no store call fails and the MIME parse succeeds, the handlers over the failing store
    ARE the handlers of `Model.Rest`: same answer, same store afterwards, nothing torn — for every handler, store, request,
    either store contract.  Every theorem of Props/C14 about `handle` is therefore a theorem about `handleF` at
    `noFaults` (two of them are restated below). -/
theorem faultless_is_old_model (e : Env) (F : Faults) (hF : allOk F) (henv : F.envelopeOk = true)
    (h : Handler) (s : Store) (rq : Req) :
    ((handleF e F h s rq).resp, (handleF e F h s rq).store) = handle e h s rq ∧ (handleF e F h s rq).torn = false := by
  unfold handleF handleV handle
  cases hb : extractMailbox e.ip e.naming rq.name with
  | none => simp
  | some box =>
    cases h <;> simp only [hF _]
    case listV1 | purgeV1 => simp
    case seenV1 => cases rq.body <;> simp <;> split <;> simp
    case deleteV1 => simp; split <;> simp
    case wAttach =>
      cases rq.num with
      | bad => simp
      | ok n =>
        cases hg : mgrGet e.contract s box rq.id <;>
          simp [mgrGetMessage, storeGet, hF _, hg, henv, afterFetch, fetch, ErrV.isNotExist]
    case sourceV1 | wSource =>
      cases hg : mgrGet e.contract s box rq.id <;>
        simp [mgrSourceReader, storeGet, hF _, hg, afterFetch, fetch, copyOut, ErrV.isNotExist]
    all_goals
      cases hg : mgrGet e.contract s box rq.id <;>
        simp [mgrGetMessage, storeGet, hF _, hg, henv, afterFetch, fetch, ErrV.isNotExist]

/-- the hypotheses are met by `noFaults` -/
example : allOk noFaults ∧ noFaults.envelopeOk = true := ⟨fun _ => rfl, rfl⟩

/-- `rest_refines_spec`, carried over: with no fault every handler answers and effects exactly the Spec operation -/
theorem rest_refines_spec_faultless (e : Env) (hk : e.contract = .strict) (c : Cfg) (h : Handler) (s : Store) (rq : Req)
    (box : Bytes) (hbox : extractMailbox e.ip e.naming rq.name = some box)
    (op : Op) (hop : specOp h box rq.id = some op) (hr : reachesStore h rq) :
    (handleF e noFaults h s rq).resp = respOf h rq box (step c s op).2.1 ∧
      (handleF e noFaults h s rq).store = (step c s op).1 := by
  have h1 := (faultless_is_old_model e noFaults (fun _ => rfl) rfl h s rq).1
  rw [C14.rest_refines_spec e hk c h s rq box hbox op hop hr] at h1
  exact ⟨congrArg Prod.fst h1, congrArg Prod.snd h1⟩

/-- `missing_is_404`, carried over -/
theorem missing_is_404_faultless (e : Env) (hk : e.contract = .strict) (h : Handler) (s : Store) (rq : Req) (box : Bytes)
    (hbox : extractMailbox e.ip e.naming rq.name = some box)
    (hh : (isFetch h = true ∧ Missing s box rq.id) ∨
          ((h = .seenV1 ∨ h = .deleteV1) ∧ (Missing s box rq.id ∨ rq.id = .latest)))
    (hr : reachesStore h rq) :
    (handleF e noFaults h s rq).resp = r404 ∧ (handleF e noFaults h s rq).store = s := by
  have h1 := (faultless_is_old_model e noFaults (fun _ => rfl) rfl h s rq).1
  rw [C14.missing_is_404 e hk h s rq box hbox hh hr] at h1
  exact ⟨congrArg Prod.fst h1, congrArg Prod.snd h1⟩

/-! ## handlers_total_under_faults -/

private theorem mgrGetMessage_ne_nilNil (e : Env) (hk : e.contract = .strict) (F : Faults) (s : Store) (box : Bytes) (id : IdArg) :
    (mgrGetMessage e.contract F s box id).1 ≠ .nilNil := by
  have hc := mgrGetMessage_case e.contract F s box id
  generalize mgrGetMessage e.contract F s box id = g at hc
  obtain ⟨r, cs⟩ := g
  cases hc <;> simp
  rename_i _ hg
  rw [hk] at hg
  exact absurd hg (mgrGet_strict_ne_nilNil s box id)

private theorem mgrSourceReader_ne_nilNil (e : Env) (hk : e.contract = .strict) (F : Faults) (s : Store) (box : Bytes) (id : IdArg) :
    (mgrSourceReader e.contract F s box id).1 ≠ .nilNil := by
  have hc := mgrSourceReader_case e.contract F s box id
  generalize mgrSourceReader e.contract F s box id = g at hc
  obtain ⟨r, cs⟩ := g
  cases hc <;> simp
  rename_i _ hg
  rw [hk] at hg
  exact absurd hg (mgrGet_strict_ne_nilNil s box id)

private theorem afterFetch_ne_panic (h : Handler) (r : Fetched) (render : Msg → Resp × Bool) (hr : r ≠ .nilNil)
    (hrd : ∀ m, (render m).1.status ≠ .panic) : (afterFetch .asWritten h r render).1.status ≠ .panic := by
  unfold afterFetch
  cases r with
  | msg m => exact hrd m
  | nilNil => exact absurd rfl hr
  | err x => simp only; split <;> simp [r404, r500]

private theorem copyOut_ne_panic (F : Faults) (m : Msg) : (copyOut F m).1.status ≠ .panic := by
  unfold copyOut
  split
  · simp
  · split <;> simp [r500]

/-- **handlers_total_under_faults.**  Under the store contract "missing ⇒ ErrNotExist", whatever the store's calls answer —
    success, ErrNotExist, a wrapped ErrNotExist, any other error, at any call, a reader failing after any number of bytes,
    bytes enmime rejects — no handler dereferences a nil message or reads a nil reader: every answer is 200, 404 or 500. -/
theorem handlers_total_under_faults (e : Env) (hk : e.contract = .strict) (F : Faults) (h : Handler) (s : Store) (rq : Req) :
    (handleF e F h s rq).resp.status ≠ .panic := by
  unfold handleF handleV
  split
  · simp [r500]
  · rename_i box _
    cases h <;> simp only
    case listV1 => split <;> simp [r500]
    case purgeV1 => split <;> simp [r500, rOK]
    case showV1 | wMessage | wHtml =>
      exact afterFetch_ne_panic _ _ _ (mgrGetMessage_ne_nilNil e hk F s box rq.id) (fun m => by simp)
    case wAttach =>
      split
      · simp [r500]
      · exact afterFetch_ne_panic _ _ _ (mgrGetMessage_ne_nilNil e hk F s box rq.id) (fun m => by simp only; split <;> simp [r500])
    case sourceV1 | wSource =>
      exact afterFetch_ne_panic _ _ _ (mgrSourceReader_ne_nilNil e hk F s box rq.id) (copyOut_ne_panic F)
    case seenV1 =>
      split
      · simp [r500]
      · simp [rOK]
      · split
        · simp only; split <;> simp [r404, rOK]
        · simp [r404]
        · simp [r500]
    case deleteV1 =>
      split
      · simp only; split <;> simp [r404, rOK]
      · simp [r404]
      · simp [r500]
    all_goals simp [r404]

/-- non-vacuous: an oracle that fails the open of the source with a wrapped ErrNotExist and would fail the read too -/
example : (⟨fun _ => false, .localN, .strict⟩ : Env).contract = .strict ∧
    (⟨fun c => if c = .sourceOpen then .wrapsNotExist else if c = .sourceRead then .ioErr else .ok, 3, false⟩ : Faults).f .sourceOpen ≠ .ok :=
  ⟨rfl, by decide⟩

/-! ## failed_request_changes_nothing -/

/-- **failed_request_changes_nothing.**  Whatever fails and wherever: if the answer is not a 200 the store is exactly what
    it was before the request (either store contract, every handler, every request). -/
theorem failed_request_changes_nothing (e : Env) (F : Faults) (h : Handler) (s : Store) (rq : Req)
    (hne : (handleF e F h s rq).resp.status ≠ .ok) : (handleF e F h s rq).store = s := by
  unfold handleF handleV at hne ⊢
  split
  · rfl
  · rename_i box hb
    simp only [hb] at hne
    cases h <;> simp only at hne ⊢
    case listV1 => split <;> rfl
    case purgeV1 =>
      split
      · rename_i ho; simp [ho, rOK] at hne
      · rfl
    case wAttach => split <;> rfl
    case seenV1 =>
      split
      · rfl
      · rfl
      · rename_i hbody
        simp only [hbody] at hne
        split
        · rename_i ho
          simp only [ho] at hne
          by_cases hf : (mgrMarkSeen e.contract s box rq.id).2 = true
          · exact mgrMarkSeen_flag _ _ _ _ hf
          · simp [hf, rOK] at hne
        · rfl
        · rfl
    case deleteV1 =>
      split
      · rename_i ho
        simp only [ho] at hne
        by_cases hf : (mgrRemove e.contract s box rq.id).2 = true
        · exact mgrRemove_flag _ _ _ _ hf
        · simp [hf, rOK] at hne
      · rfl
      · rfl

/-- non-vacuous: DELETE whose RemoveMessage fails is a 500 -/
example : (handleF ⟨fun _ => false, .localN, .strict⟩ ⟨fun _ => .ioErr, 0, true⟩ .deleteV1 Spec.Store.empty
    { name := [97], id := .num 1 }).resp.status ≠ .ok := by decide

/-- reads never change the store, whatever fails (also the torn 200 of a source handler) -/
theorem reads_do_not_change_under_faults (e : Env) (F : Faults) (h : Handler) (hr : isRead h = true) (s : Store) (rq : Req) :
    (handleF e F h s rq).store = s := by
  unfold handleF handleV
  split
  · rfl
  · cases h <;> simp [isRead] at hr <;> simp only
    · split <;> rfl
    · split <;> rfl

example : isRead .wSource = true := rfl

/-- **failed_mutation_changes_nothing.**  A PATCH / DELETE / purge whose mutating store call fails — with ANY error, ErrNotExist
    included — is not answered 200 and leaves the store as it was: no handler mutates through another path, none
    reports success for a mutation that did not happen. -/
theorem failed_mutation_changes_nothing (e : Env) (F : Faults) (h : Handler) (s : Store) (rq : Req) (c : Call)
    (hc : mutCall h = some c) (hf : F.f c ≠ .ok) (hreach : c ∈ (handleF e F h s rq).calls) :
    (handleF e F h s rq).resp.status ≠ .ok ∧ (handleF e F h s rq).store = s := by
  have key : (handleF e F h s rq).resp.status ≠ .ok := by
    unfold handleF handleV at hreach ⊢
    split
    · simp [r500]
    · rename_i box hb
      simp only [hb] at hreach
      cases h <;> simp [mutCall] at hc <;> subst hc <;> simp only at hreach ⊢
      · cases ho : F.f .purgeMessages <;> first | exact absurd ho hf | simp [r500]
      · cases hbody : rq.body
        · simp [r500]
        · cases ho : F.f .markSeen <;> first | exact absurd ho hf | simp [r500, r404]
        · simp [hbody] at hreach
      · cases ho : F.f .removeMessage <;> first | exact absurd ho hf | simp [r500, r404]
  exact ⟨key, failed_request_changes_nothing e F h s rq key⟩

/-- non-vacuous: PATCH {"seen":true} reaches MarkSeen, which fails -/
example : mutCall .seenV1 = some .markSeen ∧
    Call.markSeen ∈ (handleF ⟨fun _ => false, .localN, .strict⟩ ⟨fun _ => .wrapsNotExist, 0, true⟩ .seenV1 Spec.Store.empty
      { name := [97], id := .num 1, body := .seenTrue }).calls := ⟨rfl, by decide⟩

/-! ## failed_call_means_5xx_or_404 -/

/-- case analysis over the ways through StoreManager.GetMessage / SourceReader -/
local macro "get_cases" e:term:max F:term:max s:term:max box:term:max id:term:max : tactic =>
  `(tactic| (have hc := mgrGetMessage_case ($e).contract $F $s $box $id
             generalize mgrGetMessage ($e).contract $F $s $box $id = g at *
             obtain ⟨r, cs⟩ := g
             cases hc))
local macro "reader_cases" e:term:max F:term:max s:term:max box:term:max id:term:max : tactic =>
  `(tactic| (have hc := mgrSourceReader_case ($e).contract $F $s $box $id
             generalize mgrSourceReader ($e).contract $F $s $box $id = g at *
             obtain ⟨r, cs⟩ := g
             cases hc))

/-- **ok_needs_every_call** (failed_call_means_5xx_or_404, part 1).  A clean 200 is given only when EVERY store call the handler
    made succeeded — and, for the handlers that show a parsed message (REST show, web message / html / attachment), only when
    enmime accepted the bytes.  (The one 200 that is not clean is the torn answer of a source handler: `torn_iff`.) -/
theorem ok_needs_every_call (e : Env) (F : Faults) (h : Handler) (s : Store) (rq : Req)
    (hok : (handleF e F h s rq).resp.status = .ok) (hnt : (handleF e F h s rq).torn = false) :
    (∀ c ∈ (handleF e F h s rq).calls, F.f c = .ok) ∧ (parses h = true → F.envelopeOk = true) := by
  unfold handleF handleV at hok hnt ⊢
  cases hb : extractMailbox e.ip e.naming rq.name with
  | none => simp [hb, r500] at hok
  | some box =>
    simp only [hb] at hok hnt ⊢
    cases h <;> simp only [parses] at hok hnt ⊢
    case showV1 | wMessage | wHtml =>
      get_cases e F s box rq.id <;> simp_all [afterFetch, r404, r500, rPanic, apply_ite Resp.status] <;>
        (split at hok <;> simp at hok)
    case wAttach =>
      cases hn : rq.num with
      | bad => simp [hn, r500] at hok
      | ok n =>
        simp only [hn] at hok hnt ⊢
        get_cases e F s box rq.id <;> simp_all [afterFetch, r404, r500, rPanic, apply_ite Resp.status] <;>
          (split at hok <;> simp at hok)
    case sourceV1 | wSource =>
      reader_cases e F s box rq.id <;> simp_all [afterFetch, r404, r500, rPanic, apply_ite Resp.status] <;>
        (try (split at hok <;> simp at hok))
      all_goals
        unfold copyOut at hok hnt
        cases hsr : F.f .sourceRead <;> simp_all [r500]
        all_goals (split at hnt <;> simp_all)
    case listV1 => cases ho : F.f .getMessages <;> simp_all [r500]
    case purgeV1 => cases ho : F.f .purgeMessages <;> simp_all [r500]
    case seenV1 =>
      cases hbody : rq.body <;> simp_all [r500]
      cases ho : F.f .markSeen <;> simp_all [r404]
    case deleteV1 => cases ho : F.f .removeMessage <;> simp_all [r500, r404]
    all_goals simp_all [r404]

/-- non-vacuous: GET /api/v1/mailbox/a on the empty store with no fault is a clean 200 -/
example : (handleF ⟨fun _ => false, .localN, .strict⟩ noFaults .listV1 Spec.Store.empty { name := [97] }).resp.status = .ok ∧
    (handleF ⟨fun _ => false, .localN, .strict⟩ noFaults .listV1 Spec.Store.empty { name := [97] }).torn = false := by decide

private theorem err_answer (h : Handler) (x : ErrV) (render : Msg → Resp × Bool) (F : Faults) (c : Call)
    (hx : x.isNotExist = true ↔ (F.f c = .notExist ∧ has404 c = true)) :
    ((afterFetch .asWritten h (.err x) render).1.status = .error ∧ (afterFetch .asWritten h (.err x) render).2 = false) ∨
    ((afterFetch .asWritten h (.err x) render).1.status = .notFound ∧ F.f c = .notExist ∧ has404 c = true) := by
  rw [afterFetch_err]
  by_cases hn : x.isNotExist = true
  · right; simp [hn, r404, hx.mp hn]
  · left; simp [hn, r500]

/-- **failing_call_is_error** (failed_call_means_5xx_or_404, part 2).  If a store call the handler made failed, the answer is
    * a clean 500, or
    * a 404 — only when that call said exactly storage.ErrNotExist (not an error wrapping it) at one of the places where the
      code has a 404 branch (`has404`: GetMessage, the open of the source, MarkSeen, RemoveMessage), or
    * the torn 200 of a source handler whose READER failed (`torn_iff` says when).
    Never a clean 200; a failing GetMessages / PurgeMessages / read is never a 404. -/
theorem failing_call_is_error (e : Env) (F : Faults) (h : Handler) (s : Store) (rq : Req) (c : Call)
    (hc : c ∈ (handleF e F h s rq).calls) (hf : F.f c ≠ .ok) :
    ((handleF e F h s rq).resp.status = .error ∧ (handleF e F h s rq).torn = false) ∨
    ((handleF e F h s rq).resp.status = .notFound ∧ F.f c = .notExist ∧ has404 c = true) ∨
    ((handleF e F h s rq).torn = true ∧ c = .sourceRead ∧ streams h = true) := by
  unfold handleF handleV at hc ⊢
  cases hb : extractMailbox e.ip e.naming rq.name with
  | none => simp [hb] at hc
  | some box =>
    simp only [hb] at hc ⊢
    have hget : ∀ (h : Handler) (render : Msg → Resp × Bool), c ∈ (mgrGetMessage e.contract F s box rq.id).2 →
        ((afterFetch .asWritten h (mgrGetMessage e.contract F s box rq.id).1 render).1.status = .error ∧
          (afterFetch .asWritten h (mgrGetMessage e.contract F s box rq.id).1 render).2 = false) ∨
        ((afterFetch .asWritten h (mgrGetMessage e.contract F s box rq.id).1 render).1.status = .notFound ∧
          F.f c = .notExist ∧ has404 c = true) := by
      intro h render hm
      obtain ⟨x, hx, hiff⟩ := (mgrGetMessage_case e.contract F s box rq.id).failing c hm hf
      rw [hx]
      exact err_answer h x render F c hiff
    cases h <;> simp only [streams] at hc ⊢
    case showV1 | wMessage | wHtml => exact (hget _ _ hc).elim Or.inl (fun h1 => Or.inr (Or.inl h1))
    case wAttach =>
      cases hn : rq.num with
      | bad => simp [hn] at hc
      | ok n => simp only [hn] at hc ⊢; exact (hget _ _ hc).elim Or.inl (fun h1 => Or.inr (Or.inl h1))
    case sourceV1 | wSource =>
      have hrc := mgrSourceReader_case e.contract F s box rq.id
      cases hr : (mgrSourceReader e.contract F s box rq.id).1 with
      | msg m =>
        rw [hr] at hrc hc
        obtain ⟨hcs, h0, h1, _⟩ := hrc.opened_ok
        simp only [hcs, List.cons_append, List.nil_append, List.mem_cons, List.not_mem_nil, or_false] at hc
        rcases hc with rfl | rfl | rfl
        · exact absurd h0 hf
        · exact absurd h1 hf
        · simp only [afterFetch, copyOut]
          cases hsr : F.f .sourceRead
          · exact absurd hsr hf
          all_goals (split <;> simp [r500])
      | nilNil =>
        rw [hr] at hrc hc
        simp only at hc
        obtain ⟨x, hx, _⟩ := hrc.failing c hc hf
        cases hx
      | err x =>
        rw [hr] at hrc hc
        simp only at hc
        obtain ⟨x', hx, hiff⟩ := hrc.failing c hc hf
        cases hx
        exact (err_answer _ x _ F c hiff).elim Or.inl (fun h1 => Or.inr (Or.inl h1))
    case listV1 =>
      cases ho : F.f .getMessages <;> simp only [ho, List.mem_singleton] at hc ⊢ <;> subst hc <;>
        first | exact absurd ho hf | simp [r500]
    case purgeV1 =>
      cases ho : F.f .purgeMessages <;> simp only [ho, List.mem_singleton] at hc ⊢ <;> subst hc <;>
        first | exact absurd ho hf | simp [r500]
    case seenV1 =>
      cases hbody : rq.body <;> simp only [hbody] at hc ⊢
      · simp at hc
      · cases ho : F.f .markSeen <;> simp only [ho, List.mem_singleton] at hc ⊢ <;> subst hc <;>
          first | exact absurd ho hf | simp [r500, r404, ho, has404]
      · simp at hc
    case deleteV1 =>
      cases ho : F.f .removeMessage <;> simp only [ho, List.mem_singleton] at hc ⊢ <;> subst hc <;>
        first | exact absurd ho hf | simp [r500, r404, ho, has404]
    all_goals simp at hc

/-- non-vacuous: the listing fails with ErrNotExist — a 500, not a 404 -/
example : Call.getMessages ∈ (handleF ⟨fun _ => false, .localN, .strict⟩ ⟨fun _ => .notExist, 0, true⟩ .listV1 Spec.Store.empty
    { name := [97] }).calls ∧
    (handleF ⟨fun _ => false, .localN, .strict⟩ ⟨fun _ => .notExist, 0, true⟩ .listV1 Spec.Store.empty { name := [97] }).resp = r500 := by
  decide

/-- **no_call_after_a_failed_call.**  Every store call a handler makes, except possibly the last one, succeeded: the first
    failure ends the request — no handler goes on to open, read, mark or remove after an error it was told about. -/
theorem no_call_after_a_failed_call (e : Env) (F : Faults) (h : Handler) (s : Store) (rq : Req) :
    ∀ c ∈ (handleF e F h s rq).calls.dropLast, F.f c = .ok := by
  unfold handleF handleV
  cases hb : extractMailbox e.ip e.naming rq.name with
  | none => simp
  | some box =>
    simp only
    cases h <;> simp only
    case showV1 | wMessage | wHtml => exact (mgrGetMessage_case e.contract F s box rq.id).prefix_ok
    case wAttach =>
      cases hn : rq.num with
      | bad => simp
      | ok n => exact (mgrGetMessage_case e.contract F s box rq.id).prefix_ok
    case sourceV1 | wSource =>
      have hrc := mgrSourceReader_case e.contract F s box rq.id
      cases hr : (mgrSourceReader e.contract F s box rq.id).1 with
      | msg m =>
        rw [hr] at hrc
        obtain ⟨hcs, h0, h1, _⟩ := hrc.opened_ok
        simp [hcs, h0, h1]
      | nilNil => exact hrc.prefix_ok
      | err x => exact hrc.prefix_ok
    case listV1 => split <;> (try split) <;> simp
    case purgeV1 => split <;> simp
    case seenV1 => split <;> (try split) <;> simp
    case deleteV1 => split <;> simp
    all_goals simp


/-- non-vacuous: GET …/source with a failing open makes exactly GetMessage, Source (and no read) -/
example : (handleF ⟨fun _ => false, .localN, .strict⟩ ⟨fun c => if c = .sourceOpen then .ioErr else .ok, 0, true⟩ .sourceV1
    { msgs := [{ box := [97], id := 1, hdr := default, seen := false, source := [65] }], next := fun _ => 1 }
    { name := [97], id := .num 1 }).calls = [.getMessage, .sourceOpen] := by decide

/-- **broken_mime_is_500** (failed_call_means_5xx_or_404, part 3).  When every store call succeeded, the source was read, and
    enmime.ReadEnvelope rejects the bytes, the four handlers that show a parsed message answer a clean 500 and change
    nothing (StoreManager.GetMessage returns `nil, err`). -/
theorem broken_mime_is_500 (e : Env) (F : Faults) (h : Handler) (hp : parses h = true) (s : Store) (rq : Req)
    (hall : ∀ c ∈ (handleF e F h s rq).calls, F.f c = .ok) (hread : Call.sourceRead ∈ (handleF e F h s rq).calls)
    (henv : F.envelopeOk = false) :
    (handleF e F h s rq).resp = r500 ∧ (handleF e F h s rq).torn = false ∧ (handleF e F h s rq).store = s := by
  cases h <;> simp [parses] at hp <;> unfold handleF handleV at hall hread ⊢
  all_goals
    cases hb : extractMailbox e.ip e.naming rq.name with
    | none => simp [hb] at hread
    | some box =>
      simp only [hb] at hall hread ⊢
      have key : ∀ (h : Handler) (render : Msg → Resp × Bool),
          (∀ c ∈ (mgrGetMessage e.contract F s box rq.id).2, F.f c = .ok) →
          Call.sourceRead ∈ (mgrGetMessage e.contract F s box rq.id).2 →
          afterFetch .asWritten h (mgrGetMessage e.contract F s box rq.id).1 render = (r500, false) := by
        intro h render hall hread
        have hc := mgrGetMessage_case e.contract F s box rq.id
        generalize mgrGetMessage e.contract F s box rq.id = g at *
        obtain ⟨r, cs⟩ := g
        cases hc <;> simp_all [afterFetch, ErrV.isNotExist]
      first
        | (cases hn : rq.num with
           | bad => simp [hn] at hread
           | ok n => simp only [hn] at hall hread ⊢; simp [key _ _ hall hread])
        | simp [key _ _ hall hread]

/-- non-vacuous -/
example : parses .wHtml = true ∧ Call.sourceRead ∈ (handleF ⟨fun _ => false, .localN, .strict⟩ ⟨fun _ => .ok, 0, false⟩ .wHtml
    { msgs := [{ box := [97], id := 1, hdr := default, seen := false, source := [65] }], next := fun _ => 1 }
    { name := [97], id := .num 1 }).calls := ⟨rfl, by decide⟩

/-- the store (or a fault standing in for it) says "no such message" to a by-id request -/
def SaysMissing (F : Faults) (h : Handler) (s : Store) (box : Bytes) (id : IdArg) : Prop :=
  (isFetch h = true ∧
    (F.f .getMessage = .notExist ∨ (F.f .getMessage = .ok ∧ (Missing s box id ∨ F.f .sourceOpen = .notExist)))) ∨
  (h = .seenV1 ∧ (F.f .markSeen = .notExist ∨ (F.f .markSeen = .ok ∧ (Missing s box id ∨ id = .latest)))) ∨
  (h = .deleteV1 ∧ (F.f .removeMessage = .notExist ∨ (F.f .removeMessage = .ok ∧ (Missing s box id ∨ id = .latest))))

/-- **notFound_iff** (failed_call_means_5xx_or_404, part 4).  Under the store contract "missing ⇒ ErrNotExist", for each of the ten
    mailbox handlers: the answer is 404 IF AND ONLY IF the name is a mailbox name, the request reaches the store, and the store
    — or a fault in its place — says "no such message" at a place where the code has a 404 branch: Store.GetMessage answers
    ErrNotExist (because the message is missing, or because the fault says so), or the open of the source does, or MarkSeen /
    RemoveMessage do.  Hence: never a 404 for an I/O error, for a wrapped ErrNotExist, for a failing listing / purge / read / MIME
    parse; never a 500 (or a 200) for a missing message whose lookup was answered. -/
theorem notFound_iff (e : Env) (hk : e.contract = .strict) (F : Faults) (h : Handler) (hm : modelled h = true)
    (s : Store) (rq : Req) :
    (handleF e F h s rq).resp.status = .notFound ↔
      ∃ box, extractMailbox e.ip e.naming rq.name = some box ∧ reachesStore h rq ∧ SaysMissing F h s box rq.id := by
  obtain ⟨ip, naming, k⟩ := e
  simp only at hk
  subst hk
  cases h <;> simp [modelled] at hm <;> unfold handleF handleV SaysMissing reachesStore <;>
    cases hb : extractMailbox ip naming rq.name <;>
    simp only [r500, Option.some.injEq, exists_eq_left', isFetch, reduceCtorEq, false_and, exists_false, or_false, false_or,
      true_and, and_true, true_implies, false_implies, Bool.false_eq_true, ne_eq, iff_false] <;>
    (try (simp; done))
  case listV1 => split <;> (try split) <;> simp
  case purgeV1 => split <;> simp [rOK]
  case showV1 | wMessage | wHtml =>
    exact (mgrGetMessage_case .strict F s _ rq.id).notFound_iff _ _ (fun m => by simp)
  case wAttach =>
    cases hn : rq.num with
    | bad => simp
    | ok n =>
      simp only [reduceCtorEq, not_false_eq_true, true_and]
      exact (mgrGetMessage_case .strict F s _ rq.id).notFound_iff _ _ (fun m => by simp only; split <;> simp)
  case sourceV1 | wSource =>
    exact (mgrSourceReader_case .strict F s _ rq.id).notFound_iff _ _
      (fun m => by rcases copyOut_status F m with h | h <;> simp [h])
  case seenV1 =>
    cases hbody : rq.body <;> simp [rOK]
    cases ho : F.f .markSeen <;> simp [r404, apply_ite Resp.status]
    exact mgrMarkSeen_strict_flag_iff s _ rq.id
  case deleteV1 =>
    cases ho : F.f .removeMessage <;> simp [r404, apply_ite Resp.status, rOK]
    exact mgrRemove_strict_flag_iff s _ rq.id

/-- non-vacuous: the message exists, the store says ErrNotExist when its source is opened (its file vanished): 404 -/
example : SaysMissing ⟨fun c => if c = .sourceOpen then .notExist else .ok, 0, true⟩ .showV1
    { msgs := [{ box := [97], id := 1, hdr := default, seen := false, source := [65] }], next := fun _ => 1 } [97] (.num 1) :=
  Or.inl ⟨rfl, Or.inr ⟨rfl, Or.inr rfl⟩⟩

/-- **failed_call_means_5xx_or_404.**  The three parts together, for each of the ten mailbox handlers under the store contract
    "missing ⇒ ErrNotExist", every store, request and fault oracle:
    (1) a clean 200 only if every store call the handler made succeeded (and the MIME parse, where there is one);
    (2) 404 if and only if the store — or the fault in its place — said ErrNotExist at a documented place (`SaysMissing`);
    (3) otherwise 500: the status is one of 200, 404, 500, and a failed call never yields a clean 200. -/
theorem failed_call_means_5xx_or_404 (e : Env) (hk : e.contract = .strict) (F : Faults) (h : Handler) (hm : modelled h = true)
    (s : Store) (rq : Req) :
    ((handleF e F h s rq).resp.status = .ok → (handleF e F h s rq).torn = false →
        (∀ c ∈ (handleF e F h s rq).calls, F.f c = .ok) ∧ (parses h = true → F.envelopeOk = true)) ∧
    ((handleF e F h s rq).resp.status = .notFound ↔
        ∃ box, extractMailbox e.ip e.naming rq.name = some box ∧ reachesStore h rq ∧ SaysMissing F h s box rq.id) ∧
    ((handleF e F h s rq).resp.status = .ok ∨ (handleF e F h s rq).resp.status = .notFound ∨
        (handleF e F h s rq).resp.status = .error) ∧
    (∀ c ∈ (handleF e F h s rq).calls, F.f c ≠ .ok →
        (handleF e F h s rq).resp.status ≠ .ok ∨ (handleF e F h s rq).torn = true) := by
  refine ⟨ok_needs_every_call e F h s rq, notFound_iff e hk F h hm s rq, ?_, ?_⟩
  · have := handlers_total_under_faults e hk F h s rq
    cases hs : (handleF e F h s rq).resp.status <;> simp_all
  · intro c hc hf
    rcases failing_call_is_error e F h s rq c hc hf with h1 | h1 | h1
    · left; rw [h1.1]; simp
    · left; rw [h1.1]; simp
    · right; exact h1.1

example : modelled .wAttach = true := rfl

/-- a name ExtractMailbox rejects: 500, no store call at all, whatever the oracle -/
theorem bad_name_is_500_under_faults (e : Env) (F : Faults) (h : Handler) (s : Store) (rq : Req)
    (hbad : extractMailbox e.ip e.naming rq.name = none) :
    (handleF e F h s rq).resp = r500 ∧ (handleF e F h s rq).torn = false ∧ (handleF e F h s rq).store = s ∧
      (handleF e F h s rq).calls = [] := by
  simp [handleF, handleV, hbad]

example : extractMailbox (fun _ => false) .localN [46, 46] = none := by decide

/-! ## no_partial_success -/

private theorem afterFetch_torn (h : Handler) (r : Fetched) (render : Msg → Resp × Bool)
    (ht : (afterFetch .asWritten h r render).2 = true) : ∃ m, r = .msg m ∧ (render m).2 = true := by
  cases r with
  | msg m => exact ⟨m, rfl, ht⟩
  | nilNil => simp [afterFetch] at ht
  | err x => simp [afterFetch_err] at ht

/-- the reader of the addressed message was opened and then failed after at least one byte -/
def ReaderFailsMidway (e : Env) (F : Faults) (s : Store) (box : Bytes) (id : IdArg) (m : Msg) : Prop :=
  F.f .getMessage = .ok ∧ mgrGet e.contract s box id = .found m ∧ F.f .sourceOpen = .ok ∧
    F.f .sourceRead ≠ .ok ∧ m.source.take F.readAfter ≠ []

/-- **torn_iff** (no_partial_success, part 1).  A handler returns an error AFTER having written the 200 header and part of the
    body in exactly one situation: it is one of the two source handlers (REST …/source, web-UI …/source), the reader on the
    addressed message was opened, and the reader fails after delivering at least one byte.  Every other handler — and the source
    handlers in every other situation — writes nothing before its last fallible call: its answer is all-or-nothing. -/
theorem torn_iff (e : Env) (F : Faults) (h : Handler) (s : Store) (rq : Req) (box : Bytes)
    (hbox : extractMailbox e.ip e.naming rq.name = some box) :
    (handleF e F h s rq).torn = true ↔ streams h = true ∧ ∃ m, ReaderFailsMidway e F s box rq.id m := by
  cases h <;> unfold handleF handleV ReaderFailsMidway <;>
    simp only [hbox, streams, Bool.false_eq_true, false_and, iff_false, Bool.not_eq_true, true_and]
  case listV1 => split <;> (try split) <;> rfl
  case purgeV1 => split <;> rfl
  case seenV1 => split <;> (try split) <;> rfl
  case deleteV1 => split <;> rfl
  case showV1 | wMessage | wHtml =>
    cases ht : (afterFetch Variant.asWritten _ (mgrGetMessage e.contract F s box rq.id).1 _).2 with
    | false => rfl
    | true => obtain ⟨m, _, hm⟩ := afterFetch_torn _ _ _ ht; simp at hm
  case wAttach =>
    split
    · rfl
    · cases ht : (afterFetch Variant.asWritten _ (mgrGetMessage e.contract F s box rq.id).1 _).2 with
      | false => rfl
      | true => obtain ⟨m, _, hm⟩ := afterFetch_torn _ _ _ ht; simp at hm
  case sourceV1 | wSource =>
    have hiff := (mgrSourceReader_case e.contract F s box rq.id).msg_iff
    cases hr : (mgrSourceReader e.contract F s box rq.id).1 with
    | msg m =>
      obtain ⟨h0, hg, h1⟩ := (hiff m).mp hr
      simp only [afterFetch, copyOut, h0, h1, hg, GetRes.found.injEq, true_and, exists_eq_left']
      cases hsr : F.f .sourceRead
      · simp
      all_goals (simp only [apply_ite Prod.snd]; simp [not_or])
    | nilNil =>
      simp only [afterFetch, Bool.false_eq_true, false_iff, not_exists]
      intro m hm
      have := (hiff m).mpr ⟨hm.1, hm.2.1, hm.2.2.1⟩
      rw [hr] at this; cases this
    | err x =>
      simp only [afterFetch_err, Bool.false_eq_true, false_iff, not_exists]
      intro m hm
      have := (hiff m).mpr ⟨hm.1, hm.2.1, hm.2.2.1⟩
      rw [hr] at this; cases this
  all_goals rfl

/-- non-vacuous -/
example : ReaderFailsMidway ⟨fun _ => false, .localN, .strict⟩ ⟨fun c => if c = .sourceRead then .ioErr else .ok, 2, true⟩
    { msgs := [{ box := [97], id := 1, hdr := default, seen := false, source := [65, 66, 67] }], next := fun _ => 1 } [97] (.num 1)
    { box := [97], id := 1, hdr := default, seen := false, source := [65, 66, 67] } := by
  refine ⟨rfl, by decide, rfl, by decide, by decide⟩

/-- **torn_answer** (no_partial_success, part 2): what a client then sees.  Status 200, and a body that STARTS with the bytes the
    reader delivered — a prefix of the stored source, possibly all of it — followed by the wrapper's error text (`torn`); the
    store is unchanged.  Nothing in the answer tells the client that the source is incomplete. -/
theorem torn_answer (e : Env) (F : Faults) (h : Handler) (hs : streams h = true) (s : Store) (rq : Req) (box : Bytes)
    (hbox : extractMailbox e.ip e.naming rq.name = some box) (m : Msg) (hm : ReaderFailsMidway e F s box rq.id m) :
    (handleF e F h s rq).resp = ⟨.ok, .source (m.source.take F.readAfter)⟩ ∧ (handleF e F h s rq).torn = true ∧
      (handleF e F h s rq).store = s ∧ (m.source.take F.readAfter) <+: m.source := by
  obtain ⟨h0, hg, h1, h2, h3⟩ := hm
  have hr : (mgrSourceReader e.contract F s box rq.id).1 = .msg m :=
    ((mgrSourceReader_case e.contract F s box rq.id).msg_iff m).mpr ⟨h0, hg, h1⟩
  have hco : copyOut F m = (⟨.ok, .source (m.source.take F.readAfter)⟩, true) := by
    unfold copyOut
    cases hsr : F.f .sourceRead
    · exact absurd hsr h2
    all_goals simp [List.isEmpty_iff, h3]
  cases h <;> simp [streams] at hs <;> simp [handleF, handleV, hbox, hr, afterFetch, hco, List.take_prefix]


/-- **error_answers_carry_nothing** (no_partial_success, part 3).  An answer that is not a 200 carries no payload: no listing, no
    message, no source bytes, no "OK" — for every handler, oracle and request. -/
theorem error_answers_carry_nothing (e : Env) (F : Faults) (h : Handler) (s : Store) (rq : Req)
    (hne : (handleF e F h s rq).resp.status ≠ .ok) : (handleF e F h s rq).resp.payload = .none := by
  have haf : ∀ (h : Handler) (r : Fetched) (render : Msg → Resp × Bool),
      (∀ m, (render m).1.status ≠ .ok → (render m).1.payload = .none) →
      (afterFetch .asWritten h r render).1.status ≠ .ok → (afterFetch .asWritten h r render).1.payload = .none := by
    intro h r render hrd
    cases r with
    | msg m => exact hrd m
    | nilNil => intro _; simp only [afterFetch]; split <;> rfl
    | err x => intro _; simp only [afterFetch_err]; split <;> rfl
  cases h <;> unfold handleF handleV at hne ⊢ <;>
    cases hb : extractMailbox e.ip e.naming rq.name <;> simp only [hb] at hne ⊢ <;> (try rfl)
  case listV1.some => split <;> (try split) <;> simp_all [r500]
  case purgeV1.some => split <;> simp_all [r500, rOK]
  case showV1.some | wMessage.some | wHtml.some => exact haf _ _ _ (fun m hm => by simp at hm) hne
  case wAttach.some =>
    split
    · rfl
    · rename_i n hn
      simp only [hn] at hne
      exact haf _ _ _ (fun m => by simp only; split <;> simp [r500]) hne
  case sourceV1.some | wSource.some =>
    refine haf _ _ _ (fun m => ?_) hne
    unfold copyOut
    split
    · simp
    · split <;> simp [r500]
  case seenV1.some =>
    cases hbody : rq.body <;> simp only [hbody] at hne ⊢
    · rfl
    · cases ho : F.f .markSeen <;> simp only [ho] at hne ⊢ <;> (try rfl)
      split
      · rfl
      · rename_i hf; simp [hf, rOK] at hne
    · simp [rOK] at hne
  case deleteV1.some =>
    cases ho : F.f .removeMessage <;> simp only [ho] at hne ⊢ <;> (try rfl)
    split
    · rfl
    · rename_i hf; simp [hf, rOK] at hne

example : (handleF ⟨fun _ => false, .localN, .strict⟩ ⟨fun _ => .ioErr, 0, true⟩ .showV1 Spec.Store.empty
    { name := [97], id := .latest }).resp.status ≠ .ok := by decide

/-- **no_partial_success.**  The parts together: (1) an answer is torn — 200 header and part of the body out, then an error —
    exactly when a source handler's reader fails after its first byte (`torn_iff`); (2) an answer that is not torn and is a 200
    was produced after every store call had succeeded: nothing of it was written before the last fallible call; (3) an answer
    that is not a 200 carries nothing of a message. -/
theorem no_partial_success (e : Env) (F : Faults) (h : Handler) (s : Store) (rq : Req) (box : Bytes)
    (hbox : extractMailbox e.ip e.naming rq.name = some box) :
    ((handleF e F h s rq).torn = true ↔ streams h = true ∧ ∃ m, ReaderFailsMidway e F s box rq.id m) ∧
    ((handleF e F h s rq).torn = false → (handleF e F h s rq).resp.status = .ok →
        ∀ c ∈ (handleF e F h s rq).calls, F.f c = .ok) ∧
    ((handleF e F h s rq).resp.status ≠ .ok → (handleF e F h s rq).resp.payload = .none) :=
  ⟨torn_iff e F h s rq box hbox, fun hnt hok => (ok_needs_every_call e F h s rq hok hnt).1,
   error_answers_carry_nothing e F h s rq⟩

example : extractMailbox (fun _ => false) .localN [97] = some [97] := by decide

/-! ## counter-witnesses -/

def demoMsg : Msg := { box := [97], id := 1, hdr := default, seen := false, source := [65, 66, 67, 68, 69, 70] }
def demoStore : Store := { msgs := [demoMsg], next := fun _ => 1 }
def demoEnv : Env := ⟨fun _ => false, .localN, .strict⟩
/-- the oracle that fails call `c` with outcome `o` (a failing reader delivers `n` bytes first) -/
def failing (c : Call) (o : Outcome) (n : Nat := 0) : Faults := ⟨fun c' => if c' = c then o else .ok, n, true⟩
def demoReq : Req := { name := [97], id := .num 1, num := .ok 0, natt := 1 }

/-- **ignored_fetch_error_panics** (counter-witness).  A handler that drops the error of the fetch
    (`msg, _ := ctx.Manager.GetMessage(name, id)`) and has no nil test — web-UI html, source, attachment — dereferences nil as soon
    as the store fails: `handlers_total_under_faults` does not survive that change. -/
theorem ignored_fetch_error_panics :
    (handleV .fetchErrIgnored demoEnv (failing .getMessage .ioErr) .wHtml demoStore demoReq).resp.status = .panic ∧
    (handleV .fetchErrIgnored demoEnv (failing .sourceOpen .ioErr) .wSource demoStore demoReq).resp.status = .panic ∧
    (handleV .fetchErrIgnored demoEnv (failing .sourceRead .ioErr 2) .wAttach demoStore demoReq).resp.status = .panic ∧
    (handleF demoEnv (failing .getMessage .ioErr) .wHtml demoStore demoReq).resp = r500 := by decide

/-- **ignored_fetch_error_reports_missing** (counter-witness).  The same change in a handler that does test for nil — REST show /
    source, web-UI message — turns an I/O error on an EXISTING message into "404 not found": `notFound_iff` does not survive it. -/
theorem ignored_fetch_error_reports_missing :
    (handleV .fetchErrIgnored demoEnv (failing .getMessage .ioErr) .showV1 demoStore demoReq).resp = r404 ∧
    ¬ Missing demoStore [97] (.num 1) ∧
    (handleF demoEnv (failing .getMessage .ioErr) .showV1 demoStore demoReq).resp = r500 :=
  ⟨by decide, by simp [Missing, demoStore, demoMsg, isMsg], by decide⟩

/-- **list_error_as_empty_list_is_200** (counter-witness).  A listing handler that swallows the error of GetMetadata answers
    200 with an empty list for a mailbox that holds mail: `ok_needs_every_call` does not survive it. -/
theorem list_error_as_empty_list_is_200 :
    (handleV .listErrIsEmpty demoEnv (failing .getMessages .ioErr) .listV1 demoStore demoReq).resp = ⟨.ok, .listing [97] []⟩ ∧
    listing demoStore [97] = [demoMsg] ∧
    (handleF demoEnv (failing .getMessages .ioErr) .listV1 demoStore demoReq).resp = r500 := by decide

/-- **source_handlers_stream** (what the code does today; documented behaviour outside C14's quantifier — the builder first filed it as documented streaming behaviour, see DESIGN.md section 0, false alarm (n)).  The stored source is "ABCDEF"; the reader
    fails after 3 bytes: GET /api/v1/mailbox/a/1/source is answered 200 with a body starting "ABC" (then the wrapper's error
    text).  If the reader fails before its first byte the answer is a clean 500. -/
theorem source_handlers_stream :
    (handleF demoEnv (failing .sourceRead .ioErr 3) .sourceV1 demoStore demoReq).resp = ⟨.ok, .source [65, 66, 67]⟩ ∧
    (handleF demoEnv (failing .sourceRead .ioErr 3) .sourceV1 demoStore demoReq).torn = true ∧
    (handleF demoEnv (failing .sourceRead .ioErr 3) .wSource demoStore demoReq).torn = true ∧
    (handleF demoEnv (failing .sourceRead .ioErr 0) .sourceV1 demoStore demoReq).resp = r500 ∧
    (handleF demoEnv (failing .sourceRead .ioErr 0) .sourceV1 demoStore demoReq).torn = false := by decide

/-- **wrapped_notExist_is_500** (counter-witness for reading "ErrNotExist" as errors.Is).  The handlers compare with `==`: the
    bare storage.ErrNotExist is a 404, an error WRAPPING it (`fmt.Errorf("…: %w", storage.ErrNotExist)`) is a 500 — at every
    place that has a 404 branch. -/
theorem wrapped_notExist_is_500 :
    (handleF demoEnv (failing .getMessage .notExist) .showV1 demoStore demoReq).resp = r404 ∧
    (handleF demoEnv (failing .getMessage .wrapsNotExist) .showV1 demoStore demoReq).resp = r500 ∧
    (handleF demoEnv (failing .removeMessage .notExist) .deleteV1 demoStore demoReq).resp = r404 ∧
    (handleF demoEnv (failing .removeMessage .wrapsNotExist) .deleteV1 demoStore demoReq).resp = r500 ∧
    (handleF demoEnv (failing .sourceOpen .wrapsNotExist) .wSource demoStore demoReq).resp = r500 := by decide

/-- **listing_and_purge_have_no_404** (counter-witness for "ErrNotExist is always a 404"): GetMessages / PurgeMessages answering
    ErrNotExist is a 500, and so is a reader failing with ErrNotExist inside the MIME parse. -/
theorem listing_and_purge_have_no_404 :
    (handleF demoEnv (failing .getMessages .notExist) .listV1 demoStore demoReq).resp = r500 ∧
    (handleF demoEnv (failing .purgeMessages .notExist) .purgeV1 demoStore demoReq).resp = r500 ∧
    (handleF demoEnv (failing .sourceRead .notExist 1) .wMessage demoStore demoReq).resp = r500 := by decide

end Ibx.Props.C14Fault
