import Ibx.Model.Retention
import Ibx.Lemmas.Retention
import Ibx.Lemmas.FileRefine
/-
  C12 — retention removes exactly the expired messages and nothing else.
  Only property theorems, their non-vacuity examples and counter-witnesses live here
  (model: Ibx/Model/Retention.lean; invariants: Ibx/Lemmas/Retention.lean).
  Wall-clock promptness of cancellation is measured by the harness, not proved.
-/
namespace Ibx.Props.C12
open Ibx Ibx.Spec.Store Ibx.Model.Retention Ibx.Lemmas.Retention

/-! ### concrete stores for the non-vacuity examples: mixed ages in three mailboxes -/

def cfg0 : Cfg := { cap := 0, limit := 0 }
def hdrAt (d : Int) : Meta := { sender := [115], rcpts := [], subject := [], date := d }
def boxA : Bytes := [97]
def boxB : Bytes := [98]
def boxC : Bytes := [99]

/-- a: 100, 900, 200   b: 950, 50   c: 400  (dates); cutoff 500 expires a/1 a/3 b/2 c/1 -/
def demo : Store :=
  (run cfg0 Spec.Store.empty
    [.add boxA (hdrAt 100) [1], .add boxB (hdrAt 950) [2], .add boxA (hdrAt 900) [3], .add boxC (hdrAt 400) [4],
     .add boxB (hdrAt 50) [5], .add boxA (hdrAt 200) [6]]).1

theorem demo_wf : WF demo := reachable_wf cfg0 _

/-! ### one uninterrupted scan -/

/-- **scan_exact** (whole store): after `DoScan` the store holds exactly the messages whose date is not before the
    cutoff, in unchanged order, and the id counters are untouched — any number of mailboxes, any ages. -/
theorem scan_exact_store (c : Cfg) (cutoff : Int) (s : Store) (h : WF s) :
    (doScan c cutoff s).1.msgs = s.msgs.filter (fun m => decide (m.hdr.date ≥ cutoff)) ∧
    (doScan c cutoff s).1.next = s.next := by
  obtain ⟨h1, h2, _⟩ := doScanOver_msgs c cutoff (boxNames s.msgs) s h
  refine ⟨?_, h2⟩
  simp only [doScan]
  rw [h1]
  apply List.filter_congr
  intro x hx
  have : (boxNames s.msgs).contains x.box = true := by
    rw [List.contains_iff_mem]; exact mem_boxNames _ _ hx
  simp only [this, expired, Bool.true_and]
  by_cases hd : x.hdr.date < cutoff
  · have : ¬ x.hdr.date ≥ cutoff := by omega
    simp [hd, this]
  · have : x.hdr.date ≥ cutoff := by omega
    simp [hd, this]

/-- **scan_exact**: every mailbox lists, after the scan, exactly its messages that are not older than the cutoff. -/
theorem scan_exact (c : Cfg) (cutoff : Int) (s : Store) (h : WF s) (b : Bytes) :
    listing (doScan c cutoff s).1 b = (listing s b).filter (fun m => decide (m.hdr.date ≥ cutoff)) := by
  simp only [listing]
  rw [(scan_exact_store c cutoff s h).1, List.filter_filter, List.filter_filter]
  apply List.filter_congr
  intro x _
  exact Bool.and_comm _ _

example : listing (doScan cfg0 500 demo).1 boxA = (listing demo boxA).filter (fun m => decide (m.hdr.date ≥ 500)) :=
  scan_exact cfg0 500 demo demo_wf boxA
example : ((doScan cfg0 500 demo).1.msgs.map evOf) = [(boxB, 1), (boxA, 2)] := by decide
example : (demo.msgs.map evOf) = [(boxA, 1), (boxB, 1), (boxA, 2), (boxC, 1), (boxB, 2), (boxA, 3)] := by decide

/-- the `deleted` events of a scan: one per expired message, mailbox by mailbox in visiting order, oldest first -/
theorem scan_events (c : Cfg) (cutoff : Int) (s : Store) (h : WF s) :
    (doScan c cutoff s).2 =
      (boxNames s.msgs).flatMap (fun b => ((listing s b).filter (expired cutoff)).map evOf) :=
  doScanOver_events c cutoff _ s h (nodup_eraseDups _)

/-- … hence an event is emitted for a (mailbox, id) exactly when that message was in the store and expired -/
theorem scan_events_mem (c : Cfg) (cutoff : Int) (s : Store) (h : WF s) (e : Ev) :
    e ∈ (doScan c cutoff s).2 ↔ ∃ m ∈ s.msgs, m.hdr.date < cutoff ∧ evOf m = e := by
  rw [scan_events c cutoff s h]
  simp only [List.mem_flatMap, List.mem_map, List.mem_filter, listing, expired, decide_eq_true_eq]
  constructor
  · rintro ⟨b, _, m, ⟨⟨hm, _⟩, hd⟩, rfl⟩
    exact ⟨m, hm, hd, rfl⟩
  · rintro ⟨m, hm, hd, rfl⟩
    exact ⟨m.box, mem_boxNames _ _ hm, m, ⟨⟨hm, by simp [inBox]⟩, hd⟩, rfl⟩

example : (doScan cfg0 500 demo).2 = [(boxA, 1), (boxA, 3), (boxB, 2), (boxC, 1)] := by decide

/-- the order in which the mailboxes are visited is irrelevant for the resulting store (the memory store iterates a
    Go map, the file store walks directories): any list of names covering the store gives the same result -/
theorem scan_order_irrelevant (c : Cfg) (cutoff : Int) (s : Store) (h : WF s) (names : List Bytes)
    (hcov : ∀ m ∈ s.msgs, m.box ∈ names) :
    (doScanOver c cutoff names s).1.msgs = (doScan c cutoff s).1.msgs := by
  rw [(doScanOver_msgs c cutoff names s h).1, doScan, (doScanOver_msgs c cutoff _ s h).1]
  apply List.filter_congr
  intro x hx
  have h1 : names.contains x.box = true := by rw [List.contains_iff_mem]; exact hcov x hx
  have h2 : (boxNames s.msgs).contains x.box = true := by rw [List.contains_iff_mem]; exact mem_boxNames _ _ hx
  rw [h1, h2]

example : (doScanOver cfg0 500 [boxC, boxB, boxA] demo).1.msgs = (doScan cfg0 500 demo).1.msgs :=
  scan_order_irrelevant cfg0 500 demo demo_wf _ (by decide)

/-- **scan_idempotent**: a second scan with the same cutoff finds nothing to do -/
theorem scan_idempotent (c : Cfg) (cutoff : Int) (s : Store) (h : WF s) :
    (doScan c cutoff (doScan c cutoff s).1).1.msgs = (doScan c cutoff s).1.msgs ∧
    (doScan c cutoff (doScan c cutoff s).1).2 = [] := by
  have hw : WF (doScan c cutoff s).1 := (doScanOver_msgs c cutoff _ s h).2.2
  constructor
  · rw [(scan_exact_store c cutoff _ hw).1, (scan_exact_store c cutoff s h).1, List.filter_filter]
    apply List.filter_congr
    intro x _
    simp
  · apply List.eq_nil_iff_forall_not_mem.2
    intro e he
    obtain ⟨m, hm, hd, _⟩ := (scan_events_mem c cutoff _ hw e).1 he
    rw [(scan_exact_store c cutoff s h).1, List.mem_filter] at hm
    have := hm.2
    simp only [decide_eq_true_eq] at this
    omega

example : (doScan cfg0 500 (doScan cfg0 500 demo).1).2 = [] := (scan_idempotent cfg0 500 demo demo_wf).2

/-- a later scan with a later cutoff equals one scan with the later cutoff (scans compose) -/
theorem scan_monotone (c : Cfg) (k1 k2 : Int) (hk : k1 ≤ k2) (s : Store) (h : WF s) :
    (doScan c k2 (doScan c k1 s).1).1.msgs = (doScan c k2 s).1.msgs := by
  have hw : WF (doScan c k1 s).1 := (doScanOver_msgs c k1 _ s h).2.2
  rw [(scan_exact_store c k2 _ hw).1, (scan_exact_store c k1 s h).1, (scan_exact_store c k2 s h).1, List.filter_filter]
  apply List.filter_congr
  intro x _
  by_cases h2 : x.hdr.date ≥ k2
  · have : x.hdr.date ≥ k1 := by omega
    simp [h2, this]
  · simp [h2]

example : (doScan cfg0 920 (doScan cfg0 500 demo).1).1.msgs = (doScan cfg0 920 demo).1.msgs :=
  scan_monotone cfg0 500 920 (by decide) demo demo_wf

/-- (c) `RemoveMessage` of an id that is no longer there answers `notExist`, emits nothing and changes nothing
    (the scan only logs the error and goes on) -/
theorem remove_absent_noop (c : Cfg) (s : Store) (b : Bytes) (i : Nat) (h : s.msgs.any (isMsg b i) = false) :
    step c s (.remove b i) = (s, .notExist, []) := by
  simp [step, h]

example : step cfg0 demo (.remove boxA 7) = (demo, .notExist, []) := remove_absent_noop _ _ _ _ (by decide)

/-! ### the run loop -/

/-- **zero_disables**: with `retentionPeriod ≤ 0` `Start` kicks off no scan, whatever the clock and the context do,
    and therefore performs no store operation at all -/
theorem zero_disables (c : Cfg) (period : Int) (hp : period ≤ 0) (cancelled : Nat → Bool) (turns : List Turn) (s : Store) :
    start period cancelled turns = [] ∧ startRun c period cancelled turns s = (s, []) := by
  simp [start, startRun, hp]

example : start 0 (fun _ => false) [⟨true, 1000⟩, ⟨true, 2000⟩] = [] := (zero_disables cfg0 0 (by decide) _ _ demo).1
/-- … whereas a positive period does scan (the loop is not vacuous) -/
example : start 300 (fun _ => false) [⟨true, 1000⟩, ⟨true, 2000⟩] = [700, 1700] := by decide
example : (startRun cfg0 300 (fun _ => false) [⟨true, 800⟩] demo).2 = [(boxA, 1), (boxA, 3), (boxB, 2), (boxC, 1)] := by decide

/-- the loop never runs dry by itself: while the context is not cancelled every turn kicks off a scan -/
theorem loop_runs (period : Int) (p : Nat) (turns : List Turn) :
    (loop period (fun _ => false) p turns).length = turns.length := by
  induction turns generalizing p with
  | nil => rfl
  | cons t rest ih => simp [loop, ih]

/-- **cancel_bounded (loop)**: once the context is cancelled (visible at poll `p` and ever after) the loop takes no
    further iteration: no scan at all if it is waiting in its `select`, and at most the one scan it starts without
    waiting (previous scan took a minute or more), after which the poll ends the loop -/
theorem loop_stops (period : Int) (cancelled : Nat → Bool) (p : Nat) (hc : ∀ q, p ≤ q → cancelled q = true)
    (turns : List Turn) :
    (loop period cancelled p turns).length ≤ 1 ∧
    (∀ t rest, turns = t :: rest → t.mustWait = true → loop period cancelled p turns = []) := by
  cases turns with
  | nil => simp [loop]
  | cons t rest =>
    have h0 := hc p (Nat.le_refl _)
    have h1 := hc (p + 1) (by omega)
    constructor
    · simp only [loop, h0, h1]
      split <;> simp
    · intro t' rest' he hw
      simp only [List.cons.injEq] at he
      obtain ⟨rfl, rfl⟩ := he
      simp [loop, h0, hw]

example : loop 300 (fun q => decide (q ≥ 3)) 0 [⟨true, 1000⟩, ⟨true, 2000⟩, ⟨true, 3000⟩] = [700, 1700] := by decide
example : loop 300 (fun q => decide (q ≥ 2)) 2 [⟨false, 2000⟩, ⟨true, 3000⟩] = [1700] := by decide

/-! ### the scan interleaved with clients -/

/-- (a) **every expired message goes**: whatever clients do between the scan's steps (deliveries dated at or after
    the cutoff, removals, purges, reads, cap or size evictions caused by deliveries), whenever the scan learns of
    further mailboxes, and whatever the order of the mailboxes: if the scan ran to completion, a message that was in
    the store and older than the cutoff when the scan began — in a mailbox the scan visits — is not in the store at
    the end (the scan removed it unless somebody else did) and its (mailbox, id) is never seen again. -/
theorem interleaved_expired_gone (c : Cfg) (cutoff : Int) (timerReady : Bool) (s0 : Store) (names : List Bytes)
    (acts : List Act) (hwf : WF s0) (m : Msg) (hm : m ∈ s0.msgs) (hexp : m.hdr.date < cutoff) (hbox : m.box ∈ names)
    (hdone : (runActs c cutoff timerReady (init s0 names) acts).phase = .done false) :
    (runActs c cutoff timerReady (init s0 names) acts).store.msgs.any (isMsg m.box m.id) = false := by
  have he : expired cutoff m = true := by simp [expired, hexp]
  have t := tgt_run c cutoff timerReady m _ acts he (tgt_init cutoff s0 names m hwf hm hbox)
  rw [List.any_eq_false]
  intro x hx hxm
  have hs : sameId m x := by
    have := (isMsg_iff _ _ x).1 hxm
    exact ⟨this.1.symm, this.2.symm⟩
  have := t.prog ⟨x, hx, hs⟩
  rw [hdone] at this
  simp [covers] at this

/-- (b) **nothing young is touched**: in every interleaving in which racing deliveries carry a date that is not
    before the cutoff, every message deleted by one of the scan's `RemoveMessage` calls is older than the cutoff —
    the scan removes by (mailbox, id), an id is never handed out twice, and a snapshot entry keeps denoting the same
    message.  Moreover the scan's events are exactly those deletions, and every call either deleted exactly one
    message or answered `notExist`. -/
theorem interleaved_removes_only_expired (c : Cfg) (cutoff : Int) (timerReady : Bool) (s0 : Store) (names : List Bytes)
    (acts : List Act) (hwf : WF s0) :
    let fin := runActs c cutoff timerReady (init s0 names) acts
    (∀ x ∈ fin.removed, x.hdr.date < cutoff) ∧ fin.events = fin.removed.map evOf ∧
    fin.calls = fin.removed.length + fin.misses ∧ WF fin.store := by
  have i := inv_run c cutoff timerReady _ acts (inv_init cutoff s0 names hwf)
  refine ⟨fun x hx => ?_, i.events, i.calls, i.wf⟩
  simpa [expired] using i.removedExp x hx

/-- one step of the scan never deletes a message that is not older than the cutoff (step-wise form of (b)) -/
theorem scan_step_keeps_fresh (c : Cfg) (cutoff : Int) (timerReady coin : Bool) (st : St) (h : Inv cutoff st)
    (x : Msg) (hx : x ∈ st.store.msgs) (hfresh : cutoff ≤ x.hdr.date) :
    x ∈ (scanStep c cutoff timerReady coin st).store.msgs := by
  unfold scanStep
  split <;> try exact hx
  · rename_i m p todo hph
    split
    · rename_i he
      simp only []
      rw [(remove_msgs c st.store m.box m.id).1, List.mem_filter]
      refine ⟨hx, ?_⟩
      cases hxm : isMsg m.box m.id x with
      | false => rfl
      | true =>
        exfalso
        have := (isMsg_iff _ _ x).1 hxm
        have hh := (h.pending _ _ hph m List.mem_cons_self).2 x hx ⟨this.1.symm, this.2.symm⟩
        simp only [expired, decide_eq_true_eq] at he
        rw [hh] at hfresh; omega
    · exact hx
  · split <;> exact hx

/-- a delivery racing with the scan gets an id no message ever had in that mailbox (so a snapshot entry can never
    come to denote it) -/
theorem racing_delivery_fresh_id (c : Cfg) (s : Store) (h : WF s) (b : Bytes) (hdr : Meta) (src : Bytes) :
    (step c s (.add b hdr src)).2.1 = .id (s.next b + 1) ∧ ∀ x ∈ s.msgs, x.box = b → x.id < s.next b + 1 := by
  refine ⟨by simp [step], fun x hx hb => ?_⟩
  have := h.bounded x hx
  rw [hb] at this; omega

/-- a schedule for the examples: the scan visits a, b, c; between its steps a client removes a/1 (expired, so the
    scan's own call answers notExist), delivers fresh mail to a and c, and purges b -/
def demoActs : List Act :=
  [.scan false,                                 -- snapshot of a: a/1 a/2 a/3
   .client (.remove boxA 1),                    -- a client is faster
   .client (.add boxA (hdrAt 1000) [7]),        -- racing delivery a/4
   .scan false,                                 -- RemoveMessage(a,1): notExist
   .scan false,                                 -- a/2 is young: kept
   .scan false,                                 -- RemoveMessage(a,3)
   .scan false, .scan false,                    -- end of snapshot; select
   .client (.purge boxB),
   .scan false, .scan false, .scan false,       -- b: empty snapshot; select
   .client (.add boxC (hdrAt 1001) [8]),
   .scan false, .scan false, .scan false, .scan false, .scan false,  -- c: c/1 removed, c/2 kept; select
   .scan false]                                 -- no mailbox left: done

example : ∀ a ∈ demoActs, a.ok 500 := by decide
example : (runActs cfg0 500 false (init demo [boxA, boxB, boxC]) demoActs).phase = .done false := by decide
example : ((runActs cfg0 500 false (init demo [boxA, boxB, boxC]) demoActs).store.msgs.map evOf) =
    [(boxA, 2), (boxA, 4), (boxC, 2)] := by decide
example : (runActs cfg0 500 false (init demo [boxA, boxB, boxC]) demoActs).events = [(boxA, 3), (boxC, 1)] := by decide
example : (runActs cfg0 500 false (init demo [boxA, boxB, boxC]) demoActs).misses = 1 := by decide
example : (runActs cfg0 500 false (init demo [boxA, boxB, boxC]) demoActs).store.msgs.any (isMsg boxA 3) = false :=
  interleaved_expired_gone cfg0 500 false demo _ demoActs demo_wf
    { box := boxA, id := 3, hdr := hdrAt 200, seen := false, source := [6] } (by decide) (by decide) (by decide) (by decide)

/-- the guard "deliveries are dated at or after the cutoff" is needed for exactness of the end state only, not for
    (b): a back-dated delivery that arrives after its mailbox was visited survives the scan -/
theorem backdated_delivery_survives :
    let fin := runActs cfg0 500 false (init demo [boxC]) [.scan false, .scan false, .scan false, .scan false,
      .client (.add boxC (hdrAt 10) [9]), .scan false]
    fin.phase = .done false ∧ fin.store.msgs.any (fun m => decide (m.hdr.date < 500) && inBox boxC m) = true := by
  decide

/-! ### a delivery that lands between the snapshot and the sweep -/

/-- the scanner's own steps and the context: everything but a client operation -/
def Act.isClient : Act → Bool
  | .client _ => true
  | _ => false

/-- **fresh_mail_survives_scanner_steps.**  A message that is in the store at ANY moment of a scan (whatever snapshot
    the scanner holds, however many of its removals are still to come) and is not older than the cutoff is still in
    the store after any number of further steps of the scanner (snapshots, removals, selects, cancellation, mailboxes
    discovered late).  This is `interleaved_removes_only_expired` read for one message: the scanner's only mutating
    call is `RemoveMessage(mailbox, id)` for the (mailbox, id) of an EXPIRED snapshot entry, an id never denotes two
    messages, so no such call can hit it. -/
theorem fresh_mail_survives_scanner_steps (c : Cfg) (cutoff : Int) (timerReady : Bool) (st : St) (h : Inv cutoff st)
    (x : Msg) (hx : x ∈ st.store.msgs) (hfresh : cutoff ≤ x.hdr.date) (post : List Act) (hpost : ∀ a ∈ post, Act.isClient a = false) :
    x ∈ (runActs c cutoff timerReady st post).store.msgs := by
  induction post generalizing st with
  | nil => exact hx
  | cons a post ih =>
    have ha := hpost a List.mem_cons_self
    have hrest : ∀ a ∈ post, Act.isClient a = false := fun a' h' => hpost a' (List.mem_cons_of_mem _ h')
    have hi := inv_act c cutoff timerReady st a h
    simp only [runActs, List.foldl_cons]
    refine ih _ hi ?_ hrest
    cases a with
    | client op => exact absurd ha (by simp [Act.isClient])
    | cancel => exact hx
    | discover b => exact hx
    | scan coin => exact scan_step_keeps_fresh c cutoff timerReady coin st h x hx hfresh

/-- **delivery_between_snapshot_and_sweep_survives** (corollary of `interleaved_removes_only_expired` /
    `scan_step_keeps_fresh` with exactly this reading).  For every store, every order of mailboxes, every prefix `pre`
    of any interleaving (so: the scan stands anywhere — before the snapshot of the mailbox, with the snapshot in hand,
    between any two of its removals, at the select), every delivery `add b hdr src` dated at or after the cutoff that
    lands at that point and is itself stored (not refused by the byte limit), and every continuation `post` made of
    scanner steps: the delivered message — id `next b + 1`, the metadata and bytes delivered — is listed in mailbox `b`
    afterwards. -/
theorem delivery_between_snapshot_and_sweep_survives (c : Cfg) (cutoff : Int) (timerReady : Bool) (s0 : Store) (names : List Bytes)
    (hwf : WF s0) (pre post : List Act) (b : Bytes) (hdr : Meta) (src : Bytes) (hfresh : cutoff ≤ hdr.date)
    (hpost : ∀ a ∈ post, Act.isClient a = false) :
    let mid := runActs c cutoff timerReady (init s0 names) pre
    let x : Msg := { box := b, id := mid.store.next b + 1, hdr := hdr, seen := false, source := src }
    x ∈ (act c cutoff timerReady mid (.client (.add b hdr src))).store.msgs →
    x ∈ listing (runActs c cutoff timerReady (init s0 names) (pre ++ [.client (.add b hdr src)] ++ post)).store b := by
  intro mid x hx
  have hi : Inv cutoff mid := inv_run c cutoff timerReady _ pre (inv_init cutoff s0 names hwf)
  have hi' := inv_act c cutoff timerReady mid (.client (.add b hdr src)) hi
  have := fresh_mail_survives_scanner_steps c cutoff timerReady _ hi' x hx hfresh post hpost
  rw [runActs_append, runActs_append]
  simp only [listing, List.mem_filter]
  exact ⟨this, by simp [inBox, x]⟩

/-- with no byte limit the delivered message is always stored (the cap evicts older ones only) -/
theorem delivery_is_stored (c : Cfg) (hl : c.limit = 0) (s : Store) (b : Bytes) (hdr : Meta) (src : Bytes) :
    ({ box := b, id := s.next b + 1, hdr := hdr, seen := false, source := src } : Msg) ∈ (step c s (.add b hdr src)).1.msgs := by
  have h := Ibx.Lemmas.FileRefine.add_listing c s b hdr src
  have hc' : ({ c with limit := 0 } : Cfg) = c := by cases c; simp_all
  rw [hc'] at h
  have hm : Ibx.Lemmas.FileRefine.newMsg s b hdr src ∈ listing (step c s (.add b hdr src)).1 b := by
    rw [show Ibx.Lemmas.FileRefine.sstep c s (.add b hdr src) = step c s (.add b hdr src) from rfl] at h
    rw [h]; simp
  exact (List.mem_filter.1 hm).1

/-- the schedule of the window: the scan takes the snapshot of mailbox c (one message, expired), THEN fresh mail is
    delivered to c, then the scanner runs on -/
def windowActs : List Act :=
  [.scan false, .client (.add boxC (hdrAt 1000) [9]), .scan false, .scan false, .scan false, .scan false, .scan false]

example : (runActs cfg0 500 false (init demo [boxC]) (windowActs.take 1)).phase =
    .sweep [{ box := boxC, id := 1, hdr := hdrAt 400, seen := false, source := [4] }] [] := by decide
/-- the present code on that schedule: c/1 (expired) is gone, c/2 (the fresh delivery) is listed -/
example : (listing (runActs cfg0 500 false (init demo [boxC]) windowActs).store boxC).map evOf = [(boxC, 2)] := by decide
example : ({ box := boxC, id := 2, hdr := hdrAt 1000, seen := false, source := [9] } : Msg) ∈
    listing (runActs cfg0 500 false (init demo [boxC]) ([.scan false] ++ [.client (.add boxC (hdrAt 1000) [9])] ++ windowActs.drop 2)).store boxC :=
  delivery_between_snapshot_and_sweep_survives cfg0 500 false demo [boxC] demo_wf [.scan false] (windowActs.drop 2) boxC (hdrAt 1000) [9]
    (by decide) (by decide) (by decide)

/-- the variant model with `removeEach` IS the present model: every step, hence every run -/
theorem scanStepV_removeEach (c : Cfg) (cutoff : Int) (timerReady coin : Bool) (v : StV) :
    (scanStepV .removeEach c cutoff timerReady coin v).st = scanStep c cutoff timerReady coin v.st := by
  unfold scanStepV
  split <;> first | rfl | (rename_i h _ _; cases h) | skip
  all_goals first | rfl | contradiction

theorem runActsV_removeEach (c : Cfg) (cutoff : Int) (timerReady : Bool) (v : StV) (acts : List Act) :
    (runActsV .removeEach c cutoff timerReady v acts).st = runActs c cutoff timerReady v.st acts := by
  induction acts generalizing v with
  | nil => rfl
  | cons a acts ih =>
    simp only [runActsV, runActs, List.foldl_cons] at ih ⊢
    rw [ih]
    congr 1
    cases a with
    | scan coin => exact scanStepV_removeEach c cutoff timerReady coin v
    | client op => rfl
    | cancel => rfl
    | discover b => rfl

example : (listing (runActsV .removeEach cfg0 500 false (initV demo [boxC]) windowActs).st.store boxC).map evOf = [(boxC, 2)] := by decide

/-- **purge_variant_loses_fresh_delivery** (counter-witness for `purgeWhenAllExpired`).  Same store, same schedule:
    every message of the snapshot of c has expired, so the variant purges the mailbox — and with it the message that
    was delivered after the snapshot, which never expired and which the scanner never saw.  It is listed before the
    scanner's next step and gone after it; the scan's own bookkeeping shows a deletion of a message dated after the
    cutoff (what `interleaved_removes_only_expired` excludes for the code). -/
theorem purge_variant_loses_fresh_delivery :
    let before := runActsV .purgeWhenAllExpired cfg0 500 false (initV demo [boxC]) (windowActs.take 2)
    let fin := runActsV .purgeWhenAllExpired cfg0 500 false (initV demo [boxC]) windowActs
    (listing before.st.store boxC).map evOf = [(boxC, 1), (boxC, 2)] ∧
    fin.st.phase = .done false ∧ listing fin.st.store boxC = [] ∧
    fin.st.removed.map (fun m => (m.id, m.hdr.date)) = [(1, 400), (2, 1000)] ∧ fin.st.calls = 1 := by
  decide

/-- when nothing is delivered in the window the two variants end in the same store (why ordinary tests keep passing) -/
example : (runActsV .purgeWhenAllExpired cfg0 500 false (initV demo [boxA, boxB, boxC]) (List.replicate 20 (.scan false))).st.store.msgs =
    (runActsV .removeEach cfg0 500 false (initV demo [boxA, boxB, boxC]) (List.replicate 20 (.scan false))).st.store.msgs := by decide

/-! ### cancellation of a scan -/

/-- the step program is the same scan: with nobody else touching the store and no cancel, the scanner's steps alone
    end in `done` with exactly the store and the events of `doScan` -/
theorem scan_steps_alone_eq_doScan (c : Cfg) (cutoff : Int) (timerReady coin : Bool) (s : Store) :
    let fin := runActs c cutoff timerReady (init s (boxNames s.msgs))
      (List.replicate (cost c cutoff (boxNames s.msgs) s) (.scan coin))
    fin.phase = .done false ∧ fin.store = (doScan c cutoff s).1 ∧ fin.events = (doScan c cutoff s).2 := by
  have := scan_run c cutoff timerReady coin (boxNames s.msgs) (init s (boxNames s.msgs)) rfl rfl
  simpa [init, doScan] using this

example : cost cfg0 500 (boxNames demo.msgs) demo = 16 := by decide

/-- **cancel_bounded (scan)**: when the timer case of the `select` is not ready as the select polls (`retentionSleep > 0`
    and the goroutine not held up that long between arming the timer and polling), once
    the context is cancelled the scan takes at most one further mailbox snapshot — and none if it already has a
    mailbox in hand or stands at the `select`; in that case it makes at most the `RemoveMessage` calls left for the
    snapshot in hand (none at the `select`). -/
theorem cancel_bounded (c : Cfg) (cutoff : Int) (st : St) (acts : List Act) (hc : st.cancelled = true) :
    let fin := runActs c cutoff false st acts
    fin.snaps ≤ st.snaps + snapBudget st.phase ∧
    (inHand st.phase → fin.snaps = st.snaps ∧ fin.calls ≤ st.calls + callBudget st.phase) := by
  obtain ⟨_, h2, h3⟩ := cancel_run c cutoff st acts hc
  refine ⟨by omega, fun hh => ?_⟩
  obtain ⟨_, k2, k3⟩ := h3 hh
  exact ⟨k2, by omega⟩

/-- a scan cancelled while it waits at the `select` after its first mailbox: two more scanner steps and many client
    steps later it has stopped with `aborted`, one snapshot, and b, c untouched -/
example :
    let st := runActs cfg0 500 false (init demo [boxA, boxB, boxC])
      [.scan false, .scan false, .scan false, .scan false, .scan false, .cancel, .scan false, .scan false, .scan false]
    st.phase = .done true ∧ st.snaps = 1 ∧ st.events = [(boxA, 1), (boxA, 3)] ∧
    (listing st.store boxB).length = 2 := by decide

/-- the guard is needed: with `retentionSleep = 0` (or a scheduling delay of at least `retentionSleep` before every
    poll) both cases of the `select` are ready and the runtime may keep picking the timer, so a cancelled scan can
    go on through every mailbox -/
theorem cancel_unbounded_with_zero_sleep :
    let st := runActs cfg0 500 true (init demo [boxA, boxB, boxC]) (.cancel :: List.replicate 20 (.scan false))
    st.cancelled = true ∧ st.phase = .done false ∧ st.snaps = 3 ∧ st.events.length = 4 := by
  decide

/-- … while even then a scan whose `select` picks `ctx.Done()` stops at once -/
example :
    let st := runActs cfg0 500 true (init demo [boxA, boxB, boxC]) (.cancel :: List.replicate 20 (.scan true))
    st.phase = .done true ∧ st.snaps = 1 := by decide

end Ibx.Props.C12
