import Ibx.Lemmas.San
import Ibx.Lemmas.SanText
/-
  C18 — message HTML and text shown in the web UI cannot carry active content.            *** PARTIAL ***

  PROVED here (for every input, unbounded):
   * CSS: `sanitizeStyle` (pkg/webui/sanitize/css.go), as a function of the scanner's token list, only ever
     outputs `/*TYPE*/` markers and declarations whose property identifier, lower-cased by Go, is a key of
     `allowedProperties`; it is total; it invents no token.
   * text: html.EscapeString leaves no `<` `>` `"` `'` and every `&` starts one of its five entities; it is
     injective; `TextToHTML` (pkg/server/web/helpers.go) is, for ANY well-formed set of urlRE matches, the
     escaped text with only the server's own `<a href="…" target="_blank">…</a>` and `<br/>` inserted; the href
     contains no markup byte and has no scheme or one of ftp/http/https/mailto; with the tags removed the result
     is the escaped text up to newline normalisation.

  ASSUMED, NOT PROVED (third-party code; tested by the correspondence harness and the re-parse oracles only):
   A1  gorilla/css scanner: the token list fed to the model is what `scanner.New(v).Next()` yields, and a browser's
       CSS parser splits a style attribute into declarations at the same top-level `;` the scanner reports
       as CHAR ";" tokens (strings, comments, url(…) and escapes are tokenised alike).
   A2  golang.org/x/net/html tokenizer: re-reads `styleTagFilter`'s output as the same token stream it was
       produced from (names, attribute keys/values), i.e. the filter's re-serialisation is faithful.
   A3  bluemonday UGCPolicy (+ `center`, + `style` globally with pattern `.*`): removes script / style / iframe /
       frame / object / embed / form elements, every `on*` attribute and every javascript: URL, and passes the
       value of a `style` attribute through unchanged.
   A4  regexp: urlRE's matches are non-empty, ascending, and contain no CR / LF (`SpansWF`).
   A5  a browser decodes no character reference in text that contains no `&`, and sees no URL scheme in an
       href whose first `: / ? #` is not `:` (this is what `HrefSafe` means for a browser).
  NOT covered at all: the values of allow-listed declarations (`color: expression(…)`, `content: url(…)` pass:
  the property only speaks of the property names); `MailboxHTML` (GET …/html) serves the raw, unsanitised body.
-/
namespace Ibx.Props.C18
open Ibx Ibx.Model.GoLower Ibx.Model.Css Ibx.Model.TextHtml Ibx.Spec.San Ibx.Lemmas.San Ibx.Lemmas.SanText

/-! ### CSS -/

/-- **The output of `sanitizeStyle` is allow-listed declarations and fixed markers only.**
    For every token list there is a token list `o` in the language `Clean` —
    `( "/*TYPE*/"  |  IDENT(allow-listed) body ";" )*  [ IDENT(allow-listed) body ]` where `body` contains no
    `;` token — whose concatenated values are exactly the bytes `sanitizeStyle` returns. -/
theorem css_allowlist_only (ts : List Token) :
    ∃ o, Clean o ∧ sanitizeStyle ts = vals o := by
  unfold sanitizeStyle
  rw [run_emit]
  cases h : emit .start ts with
  | none => exact ⟨[], Clean.nil, by simp [vals]⟩
  | some o => exact ⟨o, (emit_spec ts).1 o h, by simp⟩

/-- the same through the Boolean checker the harness applies to re-scanned `style` values:
    the emitted tokens pass `declsOK` (every declaration starts with an allow-listed property) -/
theorem css_output_declsOK (ts : List Token) (o : List Token) (h : emit .start ts = some o) :
    declsOK false o = true ∧ sanitizeStyle ts = vals o := by
  refine ⟨clean_declsOK ((emit_spec ts).1 o h), ?_⟩
  simp [sanitizeStyle, run_emit, h]

/-- in a `Clean` output every IDENT that starts a declaration is allow-listed — spelled out on the first piece:
    the output is empty, or starts with a marker, or starts with an allow-listed identifier -/
theorem css_first_piece (ts : List Token) (o : List Token) (h : emit .start ts = some o) :
    o = [] ∨ (∃ ty r, o = ⟨.comment, marker ty⟩ :: r) ∨
      (∃ id r, o = id :: r ∧ id.ty = .ident ∧ allowedIdent id.val = true) := by
  cases (emit_spec ts).1 o h with
  | nil => left; rfl
  | marker ty r => right; left; exact ⟨ty, r, rfl⟩
  | decl id body r h1 h2 => right; right; exact ⟨id, _, rfl, h1, h2⟩
  | last id body h1 h2 => right; right; exact ⟨id, _, rfl, h1, h2⟩

private theorem emit_none_has_error (ts : List Token) :
    ∀ st, emit st ts = none → ∃ t ∈ ts, t.ty = .error := by
  induction ts with
  | nil => simp [emit]
  | cons t ts ih =>
    intro st hn
    by_cases h1 : t.ty = .eof
    · simp [emit_stop h1] at hn
    by_cases h2 : t.ty = .error
    · exact ⟨t, by simp, h2⟩
    rw [emit_cons h1 h2] at hn
    simp at hn
    obtain ⟨x, hx, hm⟩ := ih _ hn
    exact ⟨x, by simp [hx], hm⟩

/-- **Totality.** `sanitizeStyle` has exactly two outcomes on every token list: the scanner reported an error
    somewhere (then the result is empty), or the emitted tokens; there is no failing path
    (the Go handlers only look a key up in a map and append to a buffer). -/
theorem css_total (ts : List Token) :
    (emit .start ts = none ∧ sanitizeStyle ts = [] ∧ ∃ t ∈ ts, t.ty = .error) ∨
    (∃ o, emit .start ts = some o ∧ sanitizeStyle ts = vals o) := by
  cases h : emit .start ts with
  | some o => right; exact ⟨o, rfl, by simp [sanitizeStyle, run_emit, h]⟩
  | none =>
    left
    refine ⟨rfl, by simp [sanitizeStyle, run_emit, h], ?_⟩
    exact emit_none_has_error ts _ h

/-- the driver's accumulator form is the specification form -/
theorem css_driver_form (ts : List Token) : sanitizeStyleTR ts = sanitizeStyle ts := sanitizeStyleTR_eq ts

/-- **Nothing is invented**: every emitted token is an input token or a marker. -/
theorem css_tokens_from_input (ts : List Token) (st : St) (o : List Token) (h : emit st ts = some o) :
    ∀ t ∈ o, t ∈ ts ∨ ∃ ty, t = ⟨.comment, marker ty⟩ := by
  induction ts generalizing st o with
  | nil => simp [emit] at h; subst h; simp
  | cons x ts ih =>
    by_cases h1 : x.ty = .eof
    · simp [emit_stop h1] at h; subst h; simp
    by_cases h2 : x.ty = .error
    · simp [emit_err h2] at h
    rw [emit_cons h1 h2] at h
    simp only [Option.map_eq_some_iff] at h
    obtain ⟨o', he, rfl⟩ := h
    intro t ht
    simp only [List.mem_append] at ht
    rcases ht with ht | ht
    · have : t = x ∨ ∃ ty, t = ⟨.comment, marker ty⟩ := by
        cases st <;> simp only [emitTok] at ht <;> (repeat' split at ht) <;> simp at ht <;> simp [ht]
        exact Or.inr ⟨_, rfl⟩
      rcases this with rfl | h'
      · left; simp
      · right; exact h'
    · rcases ih _ _ he t ht with h' | h'
      · left; simp [h']
      · right; exact h'

/-- a marker is one of 23 fixed comments and contains no `*` `/` inside: it cannot close early -/
theorem css_marker_fixed (ty : TT) : ∀ c ∈ ty.name, c ≠ 42 ∧ c ≠ 47 := by
  cases ty <;> decide

/-- ASCII reading of the allow-list test: a pure-ASCII identifier passes exactly when its ASCII lower-casing is
    a key of the table -/
theorem css_allowed_ascii (v : Bytes) (h : ∀ c ∈ v, c < 128) :
    allowedIdent v = allowed.contains (Bytes.lower v) := by
  simp [allowedIdent, lowerAscii?_ascii v h]

-- non-vacuity: a mixed input (allowed, disallowed, marker, mixed case, `;` inside a string token)
example :
    sanitizeStyle [⟨.ident, [67, 79, 76, 79, 82]⟩, ⟨.char, [58]⟩, ⟨.string, [34, 59, 34]⟩, ⟨.char, [59]⟩,
      ⟨.s, [32]⟩, ⟨.ident, [116, 111, 112]⟩, ⟨.char, [58]⟩, ⟨.number, [49]⟩, ⟨.char, [59]⟩,
      ⟨.char, [58]⟩, ⟨.char, [59]⟩, ⟨.ident, [119, 105, 100, 116, 104]⟩, ⟨.char, [58]⟩, ⟨.number, [50]⟩]
    = [67, 79, 76, 79, 82, 58, 34, 59, 34, 59] ++ marker .char ++ [119, 105, 100, 116, 104, 58, 50] := by decide
-- `COLOR:";";` `/*CHAR*/` `width:2`
example : allowedIdent [80, 97, 68, 68, 105, 110, 103] = true := by decide          -- PaDDing
example : allowedIdent [112, 111, 115, 105, 116, 105, 111, 110] = false := by decide -- position
example : allowedIdent [98, 101, 104, 97, 118, 105, 111, 114] = false := by decide   -- behavior
-- the Unicode corner of strings.ToLower: `bac<KELVIN SIGN>ground-color` passes the Go test
example : allowedIdent [98, 97, 99, 226, 132, 170, 103, 114, 111, 117, 110, 100, 45, 99, 111, 108, 111, 114] = true := by decide
-- a scanner error empties the result
example : sanitizeStyle [⟨.ident, [99, 111, 108, 111, 114]⟩, ⟨.char, [58]⟩, ⟨.error, []⟩] = [] := by decide
example : ∃ ts o, emit .start ts = some o ∧ o ≠ [] :=
  ⟨[⟨.ident, [99, 111, 108, 111, 114]⟩], [⟨.ident, [99, 111, 108, 111, 114]⟩], by decide, by simp⟩

/-- counter-witness: the VALUE of an allow-listed declaration is not looked at — a `}` followed by a second
    "declaration" stays inside the first one (only `;` ends a declaration) -/
theorem css_value_unchecked :
    sanitizeStyle [⟨.ident, [99, 111, 108, 111, 114]⟩, ⟨.char, [58]⟩, ⟨.ident, [114]⟩, ⟨.char, [125]⟩,
      ⟨.ident, [112, 111, 115, 105, 116, 105, 111, 110]⟩, ⟨.char, [58]⟩, ⟨.ident, [102]⟩]
    = [99, 111, 108, 111, 114, 58, 114, 125, 112, 111, 115, 105, 116, 105, 111, 110, 58, 102] := by decide

/-! ### text -/

/-- **html.EscapeString is safe**: no `<` `>` `"` `'` in the result, and every `&` starts one of the five
    entities `&amp; &#39; &lt; &gt; &#34;`. -/
theorem text_escape_safe (t : Bytes) :
    (∀ c ∈ escape t, c ≠ 60 ∧ c ≠ 62 ∧ c ≠ 34 ∧ c ≠ 39) ∧
    (∀ pre suf, escape t = pre ++ 38 :: suf → ∃ e ∈ entTails, e <+: suf) := by
  constructor
  · intro c hc
    have := escape_no_markup t c hc
    simp [isMarkup] at this
    omega
  · intro pre suf h
    exact ampOK_split pre suf (h ▸ ampOK_escape t)

/-- escaping loses nothing: the five-entity inverse gives the text back (so `escape` is injective) -/
theorem text_escape_roundtrip (t : Bytes) : unescape5 (escape t) = t := unescape5_escape t

theorem text_escape_injective (a b : Bytes) (h : escape a = escape b) : a = b := by
  have := congrArg unescape5 h
  simpa [unescape5_escape] using this

/-- **Shape of TextToHTML.**  For any well-formed set of urlRE matches the result is the rendering of a cut of
    the ESCAPED text into text stretches and matches: stretches get the newline rule, a match is either
    wrapped into the server's anchor (all of it but a trailing unterminated entity, `cutMatch`) or left as it is;
    the pieces concatenate to `escape t`; every piece is free of `<` `>` `"` `'`; and so is every href the server
    writes (`unamp` of the wrapped part). -/
theorem text_to_html_shape (t : Bytes) (spans : List (Nat × Nat)) (h : SpansWF (escape t) spans) :
    let segs := segsOf (escape t) 0 spans
    textToHTML t spans = segs.flatMap Seg.render ∧
    segs.flatMap Seg.raw = escape t ∧
    (∀ sg ∈ segs, ∀ c ∈ sg.raw, isMarkup c = false) ∧
    (∀ m, Seg.link m ∈ segs → ∀ c ∈ unamp (cutMatch m).1, isMarkup c = false) := by
  refine ⟨?_, ?_, ?_, ?_⟩
  · exact nl_wrapSpans _ _ _ h.2
  · exact segs_raw _ _ _ _ h.1
  · intro sg hs c hc
    exact escape_no_markup t c (seg_mem _ _ _ sg hs c hc)
  · intro m hm c hc
    exact escape_no_markup t c (seg_mem _ _ _ (.link m) hm c (cutMatch_mem1 m c (mem_unamp _ c hc)))

/-- **Only harmless schemes become links** (fix F-18a): whenever the server wraps a match `u`, the href it
    writes is `HrefSafe`: no scheme at all, or ftp / http / https / mailto.  For every byte string `u`. -/
theorem text_href_scheme_safe (u : Bytes) (h : linkable u = true) : HrefSafe (unamp u) :=
  hrefSafe_of_linkable u h

/-- (fix F-18b) what wrapMatch puts inside the anchor and what it writes after it are the match, in order;
    the part after it is empty or one of the five unterminated entities `&amp &lt &gt &#34 &#39` -/
theorem text_match_split (m : Bytes) :
    (cutMatch m).1 ++ (cutMatch m).2 = m ∧ ((cutMatch m).2 = [] ∨ (cutMatch m).2 ∈ partials) := by
  refine ⟨cutMatch_append m, ?_⟩
  unfold cutMatch
  split
  · split
    · rename_i h; right; simpa using h
    · left; rfl
  · left; rfl

/-- a match that is not linkable is written back unchanged -/
theorem text_unlinkable_unchanged (u : Bytes) (h : linkable u = false) : wrapURL u = u := by
  simp [wrapURL, h]

/-- **Text content.**  With the tags removed, TextToHTML's result is the escaped text, CRLF / CR / LF each
    normalised to LF: nothing of the input is lost and nothing but tags is added. -/
theorem text_content_is_escaped_text (t : Bytes) (spans : List (Nat × Nat)) (h : SpansWF (escape t) spans) :
    stripTags false (textToHTML t spans) = normNL (escape t) := by
  refine strip_wrapSpans (escape t) 0 spans (by simpa using h.1) h.2 ?_
  intro c hc
  have := escape_no_markup t c hc
  simp [isMarkup] at this
  omega

/-- the driver's tail-recursive form is the specification form -/
theorem text_driver_form (t : Bytes) (spans : List (Nat × Nat)) : textToHTMLTR t spans = textToHTML t spans :=
  textToHTMLTR_eq t spans

-- non-vacuity: `a<http://x/?q&r` + CRLF + `b`, the URL `http://x/?q&amp;r` at [5,22) of the escaped text
example : SpansWF (escape [97, 60, 104, 116, 116, 112, 58, 47, 47, 120, 47, 63, 113, 38, 114, 13, 10, 98]) [(5, 22)] := by
  constructor
  · decide
  · intro u hu c hc
    simp [segsOf, escape, escB, amp, lt] at hu
    subst hu
    simp at hc
    omega
example :
    textToHTML [97, 60, 104, 116, 116, 112, 58, 47, 47, 120, 47, 63, 113, 38, 114, 13, 10, 98] [(5, 22)] =
      [97] ++ lt ++ aOpen ++ [104, 116, 116, 112, 58, 47, 47, 120, 47, 63, 113, 38, 114] ++ aMid ++
      [104, 116, 116, 112, 58, 47, 47, 120, 47, 63, 113] ++ amp ++ [114] ++ aClose ++ br ++ [98] := by decide
example : SpansWF (escape []) [] := ⟨rfl, by simp [segsOf]⟩
-- `<http://x/>` : the match `http://x/&gt` of the escaped text keeps `&gt` out of the anchor
example : cutMatch [104, 116, 116, 112, 58, 47, 47, 120, 47, 38, 103, 116] = ([104, 116, 116, 112, 58, 47, 47, 120, 47], [38, 103, 116]) := by decide
example : linkable [72, 84, 84, 80, 115, 58, 47, 47, 120] = true := by decide             -- HTTPs://x
example : linkable [119, 119, 119, 46, 120, 46, 99, 111, 109] = true := by decide         -- www.x.com
example : linkable [106, 97, 118, 97, 115, 99, 114, 105, 112, 116, 58, 97] = false := by decide -- javascript:a
example : linkable [74, 97, 86, 97, 83, 99, 114, 105, 112, 116, 58, 97] = false := by decide    -- JaVaScript:a
example : linkable [100, 97, 116, 97, 58, 116] = false := by decide                       -- data:t
-- `javascript&amp;#58;a` (an entity before any delimiter) is refused
example : linkable [106, 97, 118, 97, 115, 99, 114, 105, 112, 116, 38, 97, 109, 112, 59, 35, 53, 56, 59, 97] = false := by decide

/-- counter-witness for the guard `SpansWF`: a "match" containing a line feed would get a `<br/>` inside the
    href — the shape theorem needs urlRE's matches to be free of CR / LF (assumption A4) -/
theorem text_shape_needs_nl_free_spans :
    textToHTML [104, 116, 116, 112, 58, 10, 120] [(0, 7)] ≠
      (segsOf (escape [104, 116, 116, 112, 58, 10, 120]) 0 [(0, 7)]).flatMap Seg.render := by decide

/-- before fix F-18a the model (and the code) wrapped every match; this is the witness the fix is about:
    with the guard removed the href of `javascript:a` is not `HrefSafe` -/
theorem text_unguarded_anchor_unsafe : ¬ HrefSafe (unamp [106, 97, 118, 97, 115, 99, 114, 105, 112, 116, 58, 97]) := by
  intro h
  have hl : linkable (unamp [106, 97, 118, 97, 115, 99, 114, 105, 112, 116, 58, 97]) = false := by decide
  have hc : cutDelim (unamp [106, 97, 118, 97, 115, 99, 114, 105, 112, 116, 58, 97]) =
      ([106, 97, 118, 97, 115, 99, 114, 105, 112, 116], some 58) := by decide
  unfold HrefSafe at h
  rw [hc] at h
  simp at h
  obtain ⟨l, h1, h2⟩ := h
  have : lowerAscii? [106, 97, 118, 97, 115, 99, 114, 105, 112, 116] = some [106, 97, 118, 97, 115, 99, 114, 105, 112, 116] := by decide
  rw [this] at h1
  simp at h1
  subst h1
  revert h2
  decide

end Ibx.Props.C18
