import Ibx.Props.C05
import Ibx.Props.C04ParseIP
/-
  C05, `net.ParseIP` inside the model.  `origin_rule` / `wild_correct` (Props/C05) hold for sender domains without
  a literal '*'; `valid_domain_has_no_star` proves that of every NON-bracketed domain `ValidateDomainPart` lets
  through and left the bracketed ones (IP literals) to an assumption on `net.ParseIP`.  With the model of
  `net.ParseIP` (Ibx/Model/ParseIP.lean) the assumption is a theorem.
-/
namespace Ibx.Props.C05ParseIP
open Ibx Ibx.Bytes Ibx.Spec Ibx.Model Ibx.Model.Addr Ibx.Model.ParseIP
open Ibx.Lemmas.AddrDom Ibx.Lemmas.AddrCase Ibx.Lemmas.ParseIPCase

/-- the bytes of a bracketed domain part: the brackets, the optional `IPv6:` tag, and what goes to `net.ParseIP` -/
private theorem bracket_mem {d : Bytes} (hb : isBracketed d = true) {x : Nat} (hx : x ∈ d) :
    x = 91 ∨ x = 93 ∨ x ∈ ipv6Tag ∨ x ∈ ipArg d := by
  simp only [isBracketed, Bool.and_eq_true, decide_eq_true_eq, beq_iff_eq] at hb
  obtain ⟨⟨hlen, hhead⟩, hlast⟩ := hb
  cases d with
  | nil => simp at hlen
  | cons c t =>
    simp only [List.head?_cons, Option.some.injEq] at hhead
    subst hhead
    rcases List.mem_cons.mp hx with rfl | hx
    · exact .inl rfl
    · have htne : t ≠ [] := by intro h0; subst h0; simp at hlen
      have hlast' : t.getLast htne = 93 := by
        rw [List.getLast?_cons, List.getLast?_eq_some_getLast htne] at hlast
        simpa using hlast
      rw [← List.dropLast_concat_getLast htne, hlast'] at hx
      rcases List.mem_append.mp hx with hx | hx
      · simp only [ipArg, List.drop_succ_cons, List.drop_zero]
        by_cases htag : ipv6Tag.isPrefixOf t = true
        · obtain ⟨r, hr⟩ := List.isPrefixOf_iff_prefix.mp htag
          have hrne : r ≠ [] := by
            intro h0; subst h0
            rw [List.append_nil] at hr
            subst hr
            simp [ipv6Tag] at hlast'
          have hdl : t.dropLast = ipv6Tag ++ r.dropLast := by
            rw [← hr, List.dropLast_append_of_ne_nil hrne]
          rw [if_pos htag, hdl]
          rw [hdl] at hx
          rcases List.mem_append.mp hx with hx | hx
          · exact .inr (.inr (.inl hx))
          · right; right; right
            simpa [ipv6Tag] using hx
        · rw [if_neg htag]
          exact .inr (.inr (.inr hx))
      · simp at hx; exact .inr (.inl hx)

/-- **every domain part `ValidateDomainPart` lets through is free of '*'**, bracketed IP literals included: the
    text handed to `net.ParseIP` consists of hex digits, periods and colons (`parseIP_alphabet`), the rest of
    a literal is the brackets and the `IPv6:` tag.  This discharges the guard of `origin_rule` and `wild_correct`
    for every sender domain MAIL FROM accepts. -/
theorem valid_domain_has_no_star_parseIP (d : Bytes) (hv : validateDomainPart parseIP d = true) :
    ∀ x ∈ lower d, x ≠ star := by
  by_cases hb : isBracketed d = true
  · rcases (vdp_inv hv).2.2 with ⟨_, hip⟩ | ⟨hnb, _⟩
    · intro x hx
      simp only [lower, List.mem_map] at hx
      obtain ⟨c, hc, rfl⟩ := hx
      intro hstar
      have hc42 : c = 42 := (lowerB_eq_iff (by decide)).mp hstar
      subst hc42
      rcases bracket_mem hb hc with h | h | h | h
      · cases h
      · cases h
      · simp [ipv6Tag] at h
      · have := C04ParseIP.parseIP_alphabet _ hip 42 h
        simp [isIpByte, isDigitB] at this
    · rw [hb] at hnb; cases hnb
  · apply Props.C05.valid_domain_has_no_star parseIP d _ hv
    intro h
    apply hb
    simp only [isBracketed, Bool.and_eq_true, decide_eq_true_eq, beq_iff_eq]
    exact ⟨⟨h.1, h.2.1⟩, h.2.2⟩

example : validateDomainPart parseIP (ofAscii "[IPv6:2001:db8::1]") = true ∧
    validateDomainPart parseIP (ofAscii "[1.2.3.4]") = true ∧ validateDomainPart parseIP (ofAscii "[1.2.*.4]") = false ∧
    validateDomainPart parseIP (ofAscii "mail.example.org") = true := by decide

end Ibx.Props.C05ParseIP
